(** * C08 on binary64 (extension): rounding error of the two means.

    [welford_mean] runs  m_k = fl( m_{k-1} + fl( fl(x_k - m_{k-1}) / k ) )  (Tie A: [C08_model_is_source_welford_update]);
    [mean] is the 8-way unrolled [sum] of C04 followed by one division.  With u = 2^-53, for EVERY non-empty slice of
    fewer than 2^53 doubles whose computed mean is finite (which forces every datum and every intermediate mean to
    be finite, i.e. no overflow anywhere):

      | welford_mean x - (Sigma x_i)/n |  <=  ((1+u)^(3(n-1)) - 1) * (max_i |x_i| + 2^-1022)     (no other hypothesis)
      | welford_mean x - (Sigma x_i)/n |  <=  ((1+u)^(3(n-1)) - 1) *  max_i |x_i|                 (no quotient underflows)
      | mean x         - (Sigma x_i)/n |  <=  ((1+u)^(n+1)   - 1) * (Sigma |x_i|)/n               (the quotient does not underflow)

    The first step of the Welford loop is exact (x - 0, d / 1, 0 + d), each later step multiplies the inherited
    error by at most (1+u) and adds at most ((1+u)^3 - 1) max|x_i| (three roundings on quantities bounded by the
    data: the running exact mean is a convex combination of the data). *)
From Coq Require Import List Arith Bool ZArith Reals Lra Lia Floats Uint63.
From Flocq Require Import Core Relative Plus_error BinarySingleNaN PrimFloat.
From Compute Require Import Base.Ops Base.ListMat Model.Reduce Model.Stats Spec.Vops
  Proofs.C04Red Proofs.C04Err Proofs.C04ErrF Proofs.C04ErrDot Proofs.C04ErrNP Proofs.C11_FloatBase.
Import ListNotations.
Local Open Scope R_scope.
Local Existing Instance Flocq.IEEE754.PrimFloat.Hprec.
Local Existing Instance Flocq.IEEE754.PrimFloat.Hmax.

(** ** real arithmetic: one Welford step with three rounded operations.
    [eta] is the absolute error the division may commit on top of its relative error (0 without underflow). *)
Lemma Rabs_le_add (a b c : R) : Rabs (a - b) <= c -> Rabs a <= Rabs b + c.
Proof.
  intros H. replace a with (b + (a - b)) at 1 by ring.
  eapply Rle_trans; [apply Rabs_triang|]. lra.
Qed.

Lemma welford_step_err (u eta x m mu K B X d q m' : R) :
  0 <= u -> 2 * u + u * u <= 1 -> 0 <= eta -> 2 <= K -> 0 <= B ->
  Rabs x <= X -> Rabs mu <= X -> Rabs (m - mu) <= B ->
  Rabs (d - (x - m)) <= u * Rabs (x - m) ->
  Rabs (q - d / K) <= u * Rabs (d / K) + eta ->
  Rabs (m' - (m + q)) <= u * Rabs (m + q) ->
  Rabs (mu + (x - mu) / K) <= X /\
  Rabs (m' - (mu + (x - mu) / K)) <= (1 + u) * B + ((1 + u) ^ 3 - 1) * X + (1 + u) * eta.
Proof.
  intros Hu Hu1 Heta HK HB Hx Hmu Hm Hd Hq Hm'.
  assert (HX : 0 <= X) by (pose proof (Rabs_pos x); lra).
  set (iK := / K).
  assert (HiK : 0 < iK <= / 2).
  { unfold iK. split; [apply Rinv_0_lt_compat; lra|]. apply Rinv_le_contravar; lra. }
  unfold Rdiv in *. fold iK in Hq |- *.
  set (t := x - m) in *.
  assert (Ht : Rabs t <= 2 * X + B).
  { unfold t. replace (x - m) with (x + (- mu + - (m - mu))) by ring.
    eapply Rle_trans; [apply Rabs_triang|].
    eapply Rle_trans; [apply Rplus_le_compat_l, Rabs_triang|]. rewrite !Rabs_Ropp. lra. }
  pose proof (Rabs_pos t) as Ht0.
  assert (Hd1 : Rabs d <= (1 + u) * Rabs t) by (apply Rabs_le_add in Hd; lra).
  assert (HdK : Rabs (d * iK) = Rabs d * iK) by (rewrite Rabs_mult, (Rabs_pos_eq iK) by lra; reflexivity).
  (* the quotient against the exact t / K *)
  assert (Hq2 : Rabs (q - t * iK) <= (2 * u + u * u) * (Rabs t * iK) + eta).
  { replace (q - t * iK) with ((q - d * iK) + (d - t) * iK) by ring.
    eapply Rle_trans; [apply Rabs_triang|]. rewrite (Rabs_mult (d - t)), (Rabs_pos_eq iK) by lra.
    rewrite HdK in Hq.
    assert (Rabs (d - t) * iK <= u * Rabs t * iK) by (apply Rmult_le_compat_r; lra).
    assert (u * (Rabs d * iK) <= u * ((1 + u) * Rabs t * iK)).
    { apply Rmult_le_compat_l; [lra|]. apply Rmult_le_compat_r; lra. }
    lra. }
  assert (HtK : Rabs t * iK <= (2 * X + B) * iK) by (apply Rmult_le_compat_r; lra).
  assert (HtK0 : 0 <= Rabs t * iK) by (apply Rmult_le_pos; lra).
  set (g := 2 * u + u * u) in *.
  assert (Hg0 : 0 <= g) by (unfold g; nra).
  set (mu' := mu + (x - mu) * iK).
  (* the exact running mean stays within the data *)
  assert (Hmu' : Rabs mu' <= X).
  { unfold mu'. replace (mu + (x - mu) * iK) with (mu * (1 - iK) + x * iK) by ring.
    eapply Rle_trans; [apply Rabs_triang|]. rewrite !Rabs_mult, (Rabs_pos_eq iK), (Rabs_pos_eq (1 - iK)) by lra.
    assert (Rabs mu * (1 - iK) <= X * (1 - iK)) by (apply Rmult_le_compat_r; lra).
    assert (Rabs x * iK <= X * iK) by (apply Rmult_le_compat_r; lra). lra. }
  split; [exact Hmu'|].
  (* m + t/K against mu' *)
  assert (Hw : Rabs (m + t * iK - mu') <= B * (1 - iK)).
  { replace (m + t * iK - mu') with ((m - mu) * (1 - iK)) by (unfold t, mu'; ring).
    rewrite Rabs_mult, (Rabs_pos_eq (1 - iK)) by lra. apply Rmult_le_compat_r; lra. }
  assert (Hs : Rabs (m + q - mu') <= B + g * X + eta).
  { replace (m + q - mu') with ((m + t * iK - mu') + (q - t * iK)) by ring.
    eapply Rle_trans; [apply Rabs_triang|].
    assert (g * (Rabs t * iK) <= g * ((2 * X + B) * iK)) by (apply Rmult_le_compat_l; lra).
    assert (X * iK <= X * / 2) by (apply Rmult_le_compat_l; lra).
    assert (g * (X * iK) <= g * (X * / 2)) by (apply Rmult_le_compat_l; lra).
    assert (0 <= B * iK) by (apply Rmult_le_pos; lra).
    assert (g * (B * iK) <= 1 * (B * iK)) by (apply Rmult_le_compat_r; lra).
    nra. }
  assert (Hs2 : Rabs (m + q) <= X + (B + g * X + eta)) by (apply Rabs_le_add in Hs; lra).
  replace (m' - mu') with ((m' - (m + q)) + (m + q - mu')) by ring.
  eapply Rle_trans; [apply Rabs_triang|].
  assert (u * Rabs (m + q) <= u * (X + (B + g * X + eta))) by (apply Rmult_le_compat_l; lra).
  replace ((1 + u) ^ 3 - 1) with (u + (1 + u) * g) by (unfold g; ring).
  nra.
Qed.

(** ** binary64 facts *)

(** a rounded difference of two doubles, relative to the exact difference (no underflow condition) *)
Lemma rnd64_sub_model (a b : R) : F64 a -> F64 b -> Rabs (rnd64 (a - b) - (a - b)) <= u64 * Rabs (a - b).
Proof.
  intros Fa Fb. assert (Fb' : F64 (- b)) by (apply generic_format_opp; exact Fb).
  exact (proj2 (rnd64_model a (- b) Fa Fb')).
Qed.

Definition eta64 : R := / 2 ^ 1075.
Lemma eta64_pos : 0 < eta64.
Proof. unfold eta64. apply Rinv_0_lt_compat, pow_lt. lra. Qed.

(** ANY rounding to nearest: relative error u plus the absolute error 2^-1075 of the subnormal range *)
Lemma rnd64_abs_rel (r : R) : Rabs (rnd64 r - r) <= u64 * Rabs r + eta64.
Proof.
  destruct (error_N_FLT radix2 (-1074) 53 ltac:(lia) (fun z => negb (Z.even z)) r) as (eps & et & He & Het & _ & Hr).
  fold ZnearestE in Hr. fold rnd64 in Hr. rewrite Hr.
  replace (r * (1 + eps) + et - r) with (r * eps + et) by ring.
  eapply Rle_trans; [apply Rabs_triang|]. rewrite Rabs_mult.
  assert (Hu : / 2 * bpow radix2 (- (53) + 1) = u64) by reflexivity.
  assert (Ht : / 2 * bpow radix2 (-1074) = eta64).
  { unfold eta64. change (/ 2) with (bpow radix2 (-1)). rewrite <- bpow_plus.
    change (-1 + -1074)%Z with (-1075)%Z. change (bpow radix2 (-1075)) with (/ IZR (Z.pow_pos 2 1075)).
    f_equal. rewrite (pow_IZR 2 1075). f_equal. }
  rewrite Hu in He. rewrite Ht in Het.
  assert (Rabs r * Rabs eps <= Rabs r * u64) by (apply Rmult_le_compat_l; [apply Rabs_pos|exact He]).
  lra.
Qed.

(** [n as f64] is exact below 2^53 *)
Lemma float_ofZ_exact (p : positive) :
  (Zpos p < 2 ^ 53)%Z -> finite (float_ofZ (Zpos p)) /\ B2Rf (float_ofZ (Zpos p)) = IZR (Zpos p).
Proof.
  intros Hp. unfold finite, B2Rf. cbn [float_ofZ]. rewrite of_int63_equiv.
  assert (Ez : Uint63.to_Z (Uint63.of_Z (Zpos p)) = Zpos p).
  { rewrite Uint63.of_Z_spec. apply Z.mod_small. unfold wB, size. split; [lia|].
    eapply Z.lt_trans; [exact Hp|]. reflexivity. }
  rewrite Ez.
  pose proof (binary_normalize_correct prec emax Hprec Hmax mode_NE (Zpos p) 0 false) as H.
  cbv zeta in H.
  set (z := binary_normalize prec emax Hprec Hmax mode_NE (Zpos p) 0 false) in *.
  assert (Ex : F2R (Float radix2 (Zpos p) 0) = IZR (Zpos p)).
  { unfold F2R. cbn [Fnum Fexp bpow]. lra. }
  rewrite Ex in H.
  assert (G : generic_format radix2 (fexp prec emax) (IZR (Zpos p))).
  { apply generic_format_FLT. apply (FLT_spec _ _ _ _ (Float radix2 (Zpos p) 0)).
    - symmetry. exact Ex.
    - cbn [Fnum]. rewrite Z.abs_eq by lia. exact Hp.
    - cbn [Fexp]. unfold emin, emax, prec. lia. }
  rewrite round_generic in H by (try apply valid_rnd_N; exact G).
  rewrite Rlt_bool_true in H.
  2:{ rewrite Rabs_pos_eq by (apply IZR_le; lia).
      apply Rlt_trans with (IZR (2 ^ 53)); [apply IZR_lt; exact Hp|].
      change (IZR (2 ^ 53)) with (bpow radix2 53). apply bpow_lt. unfold emax. lia. }
  destruct H as (HR & HF & _). split; [exact HF|exact HR].
Qed.

Lemma ofN_FO_exact (tbl : libm_table) (k : nat) :
  (Z.of_nat (S k) < 2 ^ 53)%Z -> B2Rf (ofN (FO tbl) (S k)) = INR (S k).
Proof.
  intros Hk. unfold ofN. cbn [ofZ FO]. rewrite INR_IZR_INZ.
  change (Z.of_nat (S k)) with (Zpos (Pos.of_succ_nat k)) in *.
  apply float_ofZ_exact. exact Hk.
Qed.

Lemma B2Rf_one : B2Rf 1%float = 1.
Proof.
  unfold B2Rf. change 1%float with PrimFloat.one. rewrite one_equiv, Prim2B_B2Prim. apply Bone_correct.
Qed.
Lemma finite_zero : finite 0%float.
Proof. reflexivity. Qed.

(** ** the exact running mean *)
Fixpoint rrun (k : nat) (mu : R) (l : list R) : R :=
  match l with
  | [] => mu
  | x :: l' => rrun (S k) (mu + (x - mu) / INR (S k)) l'
  end.

Lemma rrun_closed (l : list R) : forall k mu, (1 <= k)%nat ->
  rrun k mu l = (INR k * mu + Rsum l) / INR (k + length l).
Proof.
  induction l as [|x l IH]; intros k mu Hk.
  - cbn [rrun length]. unfold Rsum. cbn [fold_right]. rewrite Nat.add_0_r.
    assert (INR k <> 0) by (apply not_0_INR; lia). field. assumption.
  - cbn [rrun length]. rewrite IH by lia. rewrite Rsum_cons.
    replace (k + S (length l))%nat with (S k + length l)%nat by lia.
    assert (INR (S k) <> 0) by (apply not_0_INR; lia).
    assert (INR (S k + length l) <> 0) by (apply not_0_INR; lia).
    rewrite (S_INR k) in *. field. split; assumption.
Qed.

(** ** the Welford loop on binary64 *)
Section WelfordF.
  Variable tbl : libm_table.
  (** [Qp r]: what is assumed of an exact quotient [r]; [eta]: the absolute error its rounding may then commit;
      [H]: the resulting additive term of the bound *)
  Variables (eta H : R) (Qp : R -> Prop).
  Hypothesis Heta : 0 <= eta.
  Hypothesis HH : (1 + u64) * eta <= ((1 + u64) ^ 3 - 1) * H.
  Hypothesis HQ : forall r, Qp r -> Rabs (rnd64 r - r) <= u64 * Rabs r + eta.

  Definition wmean (a : nat * pfloat * pfloat) : pfloat := snd (fst a).
  Definition wcount (a : nat * pfloat * pfloat) : nat := fst (fst a).

  (** every quotient [(x - mean) / count] formed after the first step satisfies [Qp] *)
  Fixpoint quot_ok (a : nat * pfloat * pfloat) (l : list pfloat) : Prop :=
    match l with
    | [] => True
    | x :: l' => (wcount a = 0%nat \/ Qp (B2Rf (sub (FO tbl) x (wmean a)) / INR (S (wcount a))))
                 /\ quot_ok (welford_update (FO tbl) a x) l'
    end.

  Lemma u64_small : 2 * u64 + u64 * u64 <= 1.
  Proof.
    rewrite u64_val. assert (0 < / 2 ^ 53 <= / 2).
    { split; [apply Rinv_0_lt_compat, pow_lt; lra|]. apply Rinv_le_contravar; [lra|].
      pose proof (Rle_pow 2 1 53 ltac:(lra) ltac:(lia)) as P. rewrite pow_1 in P. exact P. }
    nra.
  Qed.

  Lemma run_err (l : list pfloat) : forall (k : nat) (m m2 : pfloat),
    (1 <= k)%nat -> (Z.of_nat (k + length l) < 2 ^ 53)%Z ->
    finite (wmean (fold_left (welford_update (FO tbl)) l (k, m, m2))) ->
    quot_ok (k, m, m2) l ->
    finite m /\ Forall finite l /\
    wcount (fold_left (welford_update (FO tbl)) l (k, m, m2)) = (k + length l)%nat /\
    forall mu B X, 0 <= B -> Forall (fun a => Rabs (B2Rf a) <= X) l -> Rabs mu <= X -> Rabs (B2Rf m - mu) <= B ->
      Rabs (B2Rf (wmean (fold_left (welford_update (FO tbl)) l (k, m, m2))) - rrun k mu (map B2Rf l))
      <= (1 + u64) ^ (3 * length l) * B + E u64 (3 * length l) * (X + H).
  Proof.
    induction l as [|x l IH]; intros k m m2 Hk Hn Hfin Hq.
    - cbn [fold_left wmean fst snd length map rrun] in *. split; [exact Hfin|]. split; [constructor|].
      split; [unfold wcount; cbn [fst]; lia|].
      intros mu B X HB _ Hmu Hm. rewrite Nat.mul_0_r. unfold E. cbn [pow].
      pose proof (Rabs_pos mu). lra.
    - cbn [fold_left length map rrun] in *.
      destruct Hq as [Hq0 Hq].
      cbn [wcount wmean fst snd] in Hq0. destruct Hq0 as [Hq0|Hq0]; [lia|].
      cbn [sub FO] in Hq0.
      pose (kf := ofN (FO tbl) (S k)).
      pose (d := (x - m)%float). pose (q := (d / kf)%float). pose (m1 := (m + q)%float).
      pose (m2' := (m2 + d * (x - m1))%float).
      assert (Hupd : welford_update (FO tbl) (k, m, m2) x = (S k, m1, m2')) by reflexivity.
      rewrite Hupd in Hfin, Hq |- *. fold d in Hq0.
      assert (Hkf : B2Rf kf = INR (S k)) by (apply ofN_FO_exact; lia).
      assert (HK0 : INR (S k) <> 0) by (apply not_0_INR; lia).
      destruct (IH (S k) m1 m2' ltac:(lia) ltac:(lia) Hfin Hq) as (Fm1 & Fl & Hc & IHb).
      destruct (fadd_finite _ _ Fm1) as (Fm & Fq & Vm1).
      assert (Hkf0 : B2Rf kf <> 0) by (rewrite Hkf; exact HK0).
      destruct (fdiv_finite _ _ Hkf0 Fq) as (Fd & Vq).
      destruct (fsub_finite _ _ Fd) as (Fx & _ & Vd).
      split; [exact Fm|]. split; [constructor; assumption|]. split; [rewrite Hc; lia|].
      intros mu B X HB HX Hmu Hm. inversion HX as [|? ? HxX HlX]; subst.
      assert (HX0 : 0 <= X) by (pose proof (Rabs_pos mu); lra).
      (* the three roundings of this step *)
      pose proof (rnd64_sub_model _ _ (F64_B2Rf x) (F64_B2Rf m)) as R1. rewrite <- Vd in R1.
      pose proof (HQ _ Hq0) as R2. rewrite Hkf in Vq. rewrite <- Vq in R2.
      pose proof (proj2 (rnd64_model _ _ (F64_B2Rf m) (F64_B2Rf q))) as R3. rewrite <- Vm1 in R3.
      assert (HK2 : 2 <= INR (S k)).
      { change 2 with (INR 2). apply le_INR. lia. }
      destruct (welford_step_err u64 eta (B2Rf x) (B2Rf m) mu (INR (S k)) B X (B2Rf d) (B2Rf q) (B2Rf m1)
                  u64_nonneg u64_small Heta HK2 HB HxX Hmu Hm R1 R2 R3) as (Hmu' & Hstep).
      set (mu' := mu + (B2Rf x - mu) / INR (S k)) in *.
      set (B' := (1 + u64) * B + ((1 + u64) ^ 3 - 1) * X + (1 + u64) * eta) in *.
      assert (HB' : 0 <= B').
      { unfold B'. pose proof u64_nonneg. pose proof (E_nonneg u64 u64_nonneg 3) as E3. unfold E in E3.
        assert (0 <= ((1 + u64) ^ 3 - 1) * X) by (apply Rmult_le_pos; lra).
        assert (0 <= (1 + u64) * B) by (apply Rmult_le_pos; lra).
        assert (0 <= (1 + u64) * eta) by (apply Rmult_le_pos; lra). lra. }
      eapply Rle_trans; [apply (IHb mu' B' X HB' HlX Hmu' Hstep)|].
      (* B' <= (1+u)^3 B + E 3 (X + H) *)
      set (n := length l). replace (3 * S n)%nat with (3 * n + 3)%nat by lia.
      pose proof u64_nonneg as Hu.
      assert (HP : 1 <= (1 + u64) ^ (3 * n)) by (apply pow_R1_Rle; lra).
      assert (HB3 : B' <= (1 + u64) ^ 3 * B + ((1 + u64) ^ 3 - 1) * (X + H)).
      { unfold B'. assert ((1 + u64) * B <= (1 + u64) ^ 3 * B).
        { apply Rmult_le_compat_r; [exact HB|]. simpl. nra. }
        lra. }
      assert (HM : (1 + u64) ^ (3 * n) * B' <= (1 + u64) ^ (3 * n) * ((1 + u64) ^ 3 * B + ((1 + u64) ^ 3 - 1) * (X + H)))
        by (apply Rmult_le_compat_l; lra).
      unfold E. rewrite pow_add. unfold E in *. lra.
  Qed.

  Lemma welford_mean_wmean {T} (O : Ops T) (data : list T) :
    welford_mean O data = snd (fst (welford_statistics O data)).
  Proof. unfold welford_mean. destruct (welford_statistics O data) as [[c m] s]. reflexivity. Qed.

  (** the first step is exact *)
  Lemma first_step_exact (x1 : pfloat) :
    finite (0 + (x1 - 0) / ofN (FO tbl) 1)%float ->
    finite x1 /\ B2Rf (0 + (x1 - 0) / ofN (FO tbl) 1)%float = B2Rf x1.
  Proof.
    change (ofN (FO tbl) 1) with 1%float. intros Fm1.
    destruct (fadd_finite _ _ Fm1) as (_ & Fq & Vm1).
    assert (H1 : B2Rf 1%float <> 0) by (rewrite B2Rf_one; lra).
    destruct (fdiv_finite _ _ H1 Fq) as (Fd & Vq).
    destruct (fsub_finite _ _ Fd) as (Fx & _ & Vd).
    split; [exact Fx|].
    rewrite Vm1, Vq, Vd, B2Rf_zero, B2Rf_one, Rminus_0_r, (rnd64_F64 (B2Rf x1)) by apply F64_B2Rf.
    unfold Rdiv. rewrite Rinv_1, Rmult_1_r, (rnd64_F64 (B2Rf x1)) by apply F64_B2Rf.
    rewrite Rplus_0_l. apply rnd64_F64, F64_B2Rf.
  Qed.

  Theorem welford_mean_F_gen (data : list pfloat) (X : R) :
    data <> [] -> (Z.of_nat (length data) < 2 ^ 53)%Z ->
    finite (welford_mean (FO tbl) data) ->
    quot_ok (0%nat, 0%float, 0%float) data ->
    Forall (fun a => Rabs (B2Rf a) <= X) data ->
    Forall finite data /\
    Rabs (B2Rf (welford_mean (FO tbl) data) - Rsum (map B2Rf data) / INR (length data))
    <= ((1 + u64) ^ (3 * (length data - 1)) - 1) * (X + H).
  Proof.
    intros Hne Hn Hfin Hq HX. destruct data as [|x1 l]; [congruence|].
    rewrite welford_mean_wmean in *. unfold welford_statistics in *. cbn [fold_left quot_ok length] in *.
    destruct Hq as [_ Hq]. cbn [zero FO] in *.
    pose (m1 := (0 + (x1 - 0) / ofN (FO tbl) 1)%float).
    pose (m2_1 := (0 + (x1 - 0) * (x1 - m1))%float).
    assert (Hupd : welford_update (FO tbl) (0%nat, 0%float, 0%float) x1 = (1%nat, m1, m2_1)) by reflexivity.
    rewrite Hupd in *.
    destruct (run_err l 1 m1 m2_1 ltac:(lia) ltac:(lia) Hfin Hq) as (Fm1 & Fl & _ & Hb).
    destruct (first_step_exact x1 Fm1) as (Fx1 & Vm1). fold m1 in Vm1.
    split; [constructor; assumption|].
    inversion HX as [|? ? Hx1 HlX]; subst.
    specialize (Hb (B2Rf x1) 0 X (Rle_refl 0) HlX Hx1).
    rewrite Vm1 in Hb. replace (B2Rf x1 - B2Rf x1) with 0 in Hb by ring. rewrite Rabs_R0 in Hb.
    specialize (Hb (Rle_refl 0)). rewrite Rmult_0_r, Rplus_0_l in Hb.
    rewrite rrun_closed in Hb by lia. rewrite map_length in Hb.
    cbn [map]. rewrite Rsum_cons. change (INR 1) with 1 in Hb. rewrite Rmult_1_l in Hb.
    replace (S (length l) - 1)%nat with (length l) by lia.
    change (1 + length l)%nat with (S (length l)) in Hb. exact Hb.
  Qed.
End WelfordF.

(** ** the two instances *)
Definition welford_no_underflow (tbl : libm_table) :=
  quot_ok tbl (fun r => r = 0 \/ / 2 ^ 1022 <= Rabs r).

Lemma quot_ok_True tbl (l : list pfloat) : forall a, quot_ok tbl (fun _ => True) a l.
Proof. induction l as [|x l IH]; intros a; cbn [quot_ok]; auto. Qed.

Lemma eta64_u64 : eta64 = u64 * / 2 ^ 1022.
Proof.
  rewrite u64_val. unfold eta64. rewrite <- Rinv_mult. f_equal.
  change 1075%nat with (53 + 1022)%nat. apply pow_add.
Qed.

(** no hypothesis on the quotients: the subnormal range costs 2^-1022 next to max |x_i| *)
Theorem welford_mean_F_error_abs (tbl : libm_table) (data : list pfloat) (X : R) :
  data <> [] -> (Z.of_nat (length data) < 2 ^ 53)%Z ->
  finite (welford_mean (FO tbl) data) ->
  Forall (fun a => Rabs (B2Rf a) <= X) data ->
  Forall finite data /\
  Rabs (B2Rf (welford_mean (FO tbl) data) - Rsum (map B2Rf data) / INR (length data))
  <= ((1 + / 2 ^ 53) ^ (3 * (length data - 1)) - 1) * (X + / 2 ^ 1022).
Proof.
  intros Hne Hn Hfin HX. rewrite <- u64_val.
  assert (H1 : 0 <= eta64) by (left; exact eta64_pos).
  assert (H3 : (1 + u64) * eta64 <= ((1 + u64) ^ 3 - 1) * / 2 ^ 1022).
  { rewrite eta64_u64. pose proof u64_nonneg.
    replace ((1 + u64) * (u64 * / 2 ^ 1022)) with ((u64 + u64 * u64) * / 2 ^ 1022) by ring.
    apply Rmult_le_compat_r; [lra|]. simpl. nra. }
  exact (welford_mean_F_gen tbl eta64 (/ 2 ^ 1022) (fun _ => True) H1 H3 (fun r _ => rnd64_abs_rel r)
           data X Hne Hn Hfin (quot_ok_True tbl data _) HX).
Qed.

(** when no quotient (x_k - m_{k-1}) / k underflows, the bound is relative to max |x_i| alone *)
Theorem welford_mean_F_error (tbl : libm_table) (data : list pfloat) (X : R) :
  data <> [] -> (Z.of_nat (length data) < 2 ^ 53)%Z ->
  finite (welford_mean (FO tbl) data) ->
  welford_no_underflow tbl (0%nat, 0%float, 0%float) data ->
  Forall (fun a => Rabs (B2Rf a) <= X) data ->
  Forall finite data /\
  Rabs (B2Rf (welford_mean (FO tbl) data) - Rsum (map B2Rf data) / INR (length data))
  <= ((1 + / 2 ^ 53) ^ (3 * (length data - 1)) - 1) * X.
Proof.
  intros Hne Hn Hfin Hq HX. rewrite <- u64_val.
  assert (H3 : (1 + u64) * 0 <= ((1 + u64) ^ 3 - 1) * 0) by lra.
  assert (H4 : forall r, (r = 0 \/ / 2 ^ 1022 <= Rabs r) -> Rabs (rnd64 r - r) <= u64 * Rabs r + 0).
  { intros r Hr. rewrite Rplus_0_r. apply rnd64_rel, no_underflow_explicit, Hr. }
  destruct (welford_mean_F_gen tbl 0 0 _ (Rle_refl 0) H3 H4 data X Hne Hn Hfin Hq HX) as (Ff & Hb).
  - split; [exact Ff|]. rewrite Rplus_0_r in Hb. exact Hb.
Qed.

(** ** [mean] = unrolled [sum] / n: the bound of C04 plus one division *)
Lemma mean_err_real (u e S S' A N q eta : R) :
  0 <= u -> 0 <= e -> 0 < N -> Rabs S <= A ->
  Rabs (S' - S) <= e * A -> Rabs (q - S' / N) <= u * Rabs (S' / N) + eta ->
  Rabs (q - S / N) <= ((1 + u) * (1 + e) - 1) * (A / N) + eta.
Proof.
  intros Hu He HN HS HS' Hq.
  assert (HA : 0 <= A) by (pose proof (Rabs_pos S); lra).
  assert (HiN : 0 < / N) by (apply Rinv_0_lt_compat; exact HN).
  unfold Rdiv in *. rewrite Rabs_mult, (Rabs_pos_eq (/ N)) in Hq by lra.
  assert (H1 : Rabs S' <= (1 + e) * A) by (apply Rabs_le_add in HS'; nra).
  replace (q - S * / N) with ((q - S' * / N) + (S' - S) * / N) by ring.
  eapply Rle_trans; [apply Rabs_triang|]. rewrite Rabs_mult, (Rabs_pos_eq (/ N)) by lra.
  assert (Rabs (S' - S) * / N <= e * A * / N) by (apply Rmult_le_compat_r; lra).
  assert (Rabs S' * / N <= (1 + e) * A * / N) by (apply Rmult_le_compat_r; lra).
  assert (u * (Rabs S' * / N) <= u * ((1 + e) * A * / N)) by (apply Rmult_le_compat_l; lra).
  lra.
Qed.

Theorem mean_F_gen (tbl : libm_table) (data : list pfloat) (eta : R) :
  data <> [] -> (Z.of_nat (length data) < 2 ^ 53)%Z ->
  finite (mean (FO tbl) data) ->
  Rabs (rnd64 (B2Rf (Reduce.sum (FO tbl) data) / INR (length data)) - B2Rf (Reduce.sum (FO tbl) data) / INR (length data))
    <= u64 * Rabs (B2Rf (Reduce.sum (FO tbl) data) / INR (length data)) + eta ->
  finite (Reduce.sum (FO tbl) data) /\
  Rabs (B2Rf (mean (FO tbl) data) - Rsum (map B2Rf data) / INR (length data))
  <= ((1 + / 2 ^ 53) ^ S (length data) - 1) * (Rsum (map Rabs (map B2Rf data)) / INR (length data)) + eta.
Proof.
  intros Hne Hn Hfin Hr. unfold mean in *. cbn [div FO] in *.
  destruct data as [|x1 l]; [congruence|]. set (data := x1 :: l) in *.
  assert (Hl : length data = S (length l)) by reflexivity.
  assert (Hkf : B2Rf (ofN (FO tbl) (length data)) = INR (length data)).
  { rewrite Hl. apply ofN_FO_exact. rewrite <- Hl. exact Hn. }
  assert (HN : 0 < INR (length data)) by (rewrite Hl; apply lt_0_INR; lia).
  assert (Hkf0 : B2Rf (ofN (FO tbl) (length data)) <> 0) by (rewrite Hkf; lra).
  destruct (fdiv_finite _ _ Hkf0 Hfin) as (Fs & Vq). rewrite Hkf in Vq.
  split; [exact Fs|].
  pose proof (sum_F_error tbl data Fs) as Hs. rewrite <- u64_val in *.
  rewrite <- Vq in Hr.
  replace ((1 + u64) ^ S (length data) - 1) with ((1 + u64) * (1 + ((1 + u64) ^ length data - 1)) - 1) by (simpl; ring).
  apply (mean_err_real u64 _ (Rsum (map B2Rf data)) (B2Rf (Reduce.sum (FO tbl) data))); auto.
  - apply u64_nonneg.
  - apply (E_nonneg u64 u64_nonneg).
  - apply Rsum_le_Asum.
Qed.

Theorem mean_F_error (tbl : libm_table) (data : list pfloat) :
  data <> [] -> (Z.of_nat (length data) < 2 ^ 53)%Z ->
  finite (mean (FO tbl) data) ->
  (B2Rf (Reduce.sum (FO tbl) data) / INR (length data) = 0
   \/ / 2 ^ 1022 <= Rabs (B2Rf (Reduce.sum (FO tbl) data) / INR (length data))) ->
  Rabs (B2Rf (mean (FO tbl) data) - Rsum (map B2Rf data) / INR (length data))
  <= ((1 + / 2 ^ 53) ^ S (length data) - 1) * (Rsum (map Rabs (map B2Rf data)) / INR (length data)).
Proof.
  intros Hne Hn Hfin Hq.
  destruct (mean_F_gen tbl data 0 Hne Hn Hfin) as (_ & Hb).
  - rewrite Rplus_0_r. apply rnd64_rel, no_underflow_explicit, Hq.
  - rewrite Rplus_0_r in Hb. exact Hb.
Qed.

Theorem mean_F_error_abs (tbl : libm_table) (data : list pfloat) :
  data <> [] -> (Z.of_nat (length data) < 2 ^ 53)%Z ->
  finite (mean (FO tbl) data) ->
  Rabs (B2Rf (mean (FO tbl) data) - Rsum (map B2Rf data) / INR (length data))
  <= ((1 + / 2 ^ 53) ^ S (length data) - 1) * (Rsum (map Rabs (map B2Rf data)) / INR (length data)) + / 2 ^ 1075.
Proof.
  intros Hne Hn Hfin.
  destruct (mean_F_gen tbl data eta64 Hne Hn Hfin) as (_ & Hb); [apply rnd64_abs_rel|exact Hb].
Qed.

(** ** non-negativity of the M2 recurrence on binary64.
    Each update adds fl( fl(x - m) * fl(x - m') ) with m' = fl(m + fl(fl(x - m) / k)) the NEW mean.  In exact
    arithmetic the two factors have the same sign because m' lies between m and x; the same holds on binary64 for
    k >= 2 as long as nothing overflows: the rounded quotient never exceeds the exact distance |x - m| (shown below
    without any underflow condition), so the new mean does not overshoot x, rounding being monotone.  Hence M2 and
    the variance are never negative when they are finite.  When x - m OVERFLOWS the statement is false: see
    [var_negative_on_overflow]. *)
Lemma rnd64_valid_exp : Valid_exp (FLT_exp (-1074) 53).
Proof. apply FLT_exp_valid. reflexivity. Qed.
Local Existing Instance rnd64_valid_exp.

Lemma rnd64_le_F (r y : R) : F64 y -> r <= y -> rnd64 r <= y.
Proof. intros Fy H. unfold rnd64. apply round_le_generic; [exact rnd64_valid_exp|apply valid_rnd_N|exact Fy|exact H]. Qed.
Lemma rnd64_ge_F (r y : R) : F64 y -> y <= r -> y <= rnd64 r.
Proof. intros Fy H. unfold rnd64. apply round_ge_generic; [exact rnd64_valid_exp|apply valid_rnd_N|exact Fy|exact H]. Qed.
Lemma rnd64_nonneg (r : R) : 0 <= r -> 0 <= rnd64 r.
Proof. apply rnd64_ge_F, F64_0. Qed.
Lemma rnd64_format (r : R) : F64 (rnd64 r).
Proof. apply generic_format_round; [exact rnd64_valid_exp|apply valid_rnd_N]. Qed.
Lemma rnd64_opp (r : R) : rnd64 (- r) = - rnd64 r.
Proof. unfold rnd64. apply round_NE_opp. Qed.

Lemma two_tiny : bpow radix2 (53 + -1074) = 2 * tiny.
Proof. unfold tiny. change (53 + -1074)%Z with (1 + -1022)%Z. rewrite bpow_plus. reflexivity. Qed.

(** the rounded quotient stays within the exact distance *)
Lemma quotient_within (x m K : R) :
  F64 x -> F64 m -> 2 <= K -> m <= x -> rnd64 (rnd64 (x - m) / K) <= x - m.
Proof.
  intros Fx Fm HK Hle. set (t := x - m). assert (Ht : 0 <= t) by (unfold t; lra).
  assert (HiK : 0 < / K <= / 2).
  { split; [apply Rinv_0_lt_compat; lra|]. apply Rinv_le_contravar; lra. }
  destruct (Rle_dec (Rabs t) (bpow radix2 (53 + -1074))) as [Hs|Hb].
  - (* small: the difference is exact *)
    assert (Ft : F64 t).
    { unfold t, Rminus. apply FLT_format_plus_small; [reflexivity|exact Fx|apply generic_format_opp; exact Fm|exact Hs]. }
    rewrite (rnd64_F64 t Ft). apply rnd64_le_F; [exact Ft|]. unfold Rdiv. nra.
  - rewrite two_tiny in Hb. rewrite Rabs_pos_eq in Hb by exact Ht.
    assert (Htt : 2 * tiny < t) by lra.
    pose proof (rnd64_sub_model x m Fx Fm) as Hd. fold t in Hd. rewrite (Rabs_pos_eq t) in Hd by exact Ht.
    apply Rabs_le_inv in Hd.
    set (y := rnd64 (3 / 4 * t)).
    assert (Hy : Rabs (y - 3 / 4 * t) <= u64 * Rabs (3 / 4 * t)).
    { apply rnd64_rel. right. rewrite Rabs_pos_eq by lra. assert (0 < tiny) by (unfold tiny; apply bpow_gt_0). lra. }
    rewrite (Rabs_pos_eq (3 / 4 * t)) in Hy by lra. apply Rabs_le_inv in Hy.
    assert (Hu : 0 <= u64 <= / 8).
    { split; [apply u64_nonneg|]. rewrite u64_val. apply Rinv_le_contravar; [lra|].
      pose proof (Rle_pow 2 3 53 ltac:(lra) ltac:(lia)) as P. simpl in P |- *. lra. }
    apply Rle_trans with y.
    + apply rnd64_le_F; [apply rnd64_format|]. unfold Rdiv.
      assert (rnd64 t * / K <= rnd64 t * / 2).
      { apply Rmult_le_compat_l; [apply rnd64_nonneg; exact Ht|lra]. }
      nra.
    + nra.
Qed.

Lemma delta_sign_pos (x m K : R) :
  F64 x -> F64 m -> 2 <= K -> m <= x ->
  0 <= rnd64 (x - m) /\ 0 <= rnd64 (x - rnd64 (m + rnd64 (rnd64 (x - m) / K))).
Proof.
  intros Fx Fm HK Hle. split; [apply rnd64_nonneg; lra|].
  apply rnd64_nonneg. pose proof (quotient_within x m K Fx Fm HK Hle) as Hq.
  assert (rnd64 (m + rnd64 (rnd64 (x - m) / K)) <= x) by (apply rnd64_le_F; [exact Fx|lra]). lra.
Qed.

Lemma delta_sign (x m K : R) :
  F64 x -> F64 m -> 2 <= K ->
  0 <= rnd64 (x - m) * rnd64 (x - rnd64 (m + rnd64 (rnd64 (x - m) / K))).
Proof.
  intros Fx Fm HK. destruct (Rle_dec m x) as [Hle|Hgt].
  - destruct (delta_sign_pos x m K Fx Fm HK Hle). apply Rmult_le_pos; assumption.
  - destruct (delta_sign_pos (- x) (- m) K) as [H1 H2];
      [apply generic_format_opp; exact Fx|apply generic_format_opp; exact Fm|exact HK|lra|].
    replace (- x - - m) with (- (x - m)) in * by ring. rewrite rnd64_opp in *.
    replace (- rnd64 (x - m) / K) with (- (rnd64 (x - m) / K)) in H2 by (unfold Rdiv; ring).
    rewrite rnd64_opp in H2.
    replace (- m + - rnd64 (rnd64 (x - m) / K)) with (- (m + rnd64 (rnd64 (x - m) / K))) in H2 by ring.
    rewrite rnd64_opp in H2.
    replace (- x - - rnd64 (m + rnd64 (rnd64 (x - m) / K))) with (- (x - rnd64 (m + rnd64 (rnd64 (x - m) / K)))) in H2 by ring.
    rewrite rnd64_opp in H2. nra.
Qed.

Section VarNonneg.
  Variable tbl : libm_table.

  Lemma m2_run_nonneg (l : list pfloat) : forall (k : nat) (m m2 : pfloat),
    (1 <= k)%nat -> (Z.of_nat (k + length l) < 2 ^ 53)%Z ->
    finite (snd (fold_left (welford_update (FO tbl)) l (k, m, m2))) ->
    finite m2 /\ Forall finite l /\
    fst (fst (fold_left (welford_update (FO tbl)) l (k, m, m2))) = (k + length l)%nat /\
    (0 <= B2Rf m2 -> 0 <= B2Rf (snd (fold_left (welford_update (FO tbl)) l (k, m, m2)))).
  Proof.
    induction l as [|x l IH]; intros k m m2 Hk Hn Hfin.
    - cbn [fold_left snd fst length] in *. split; [exact Hfin|]. split; [constructor|]. split; [lia|auto].
    - cbn [fold_left length] in *.
      pose (kf := ofN (FO tbl) (S k)).
      pose (d := (x - m)%float). pose (q := (d / kf)%float). pose (m1 := (m + q)%float).
      pose (d2 := (x - m1)%float). pose (p := (d * d2)%float).
      pose (m2' := (m2 + p)%float).
      assert (Hupd : welford_update (FO tbl) (k, m, m2) x = (S k, m1, m2')) by reflexivity.
      rewrite Hupd in Hfin |- *.
      destruct (IH (S k) m1 m2' ltac:(lia) ltac:(lia) Hfin) as (Fm2' & Fl & Hc & IHb).
      destruct (fadd_finite _ _ Fm2') as (Fm2 & Fp & Vm2').
      destruct (fmul_finite _ _ Fp) as (Fd & Fd2 & Vp).
      destruct (fsub_finite _ _ Fd2) as (Fx & Fm1 & Vd2).
      destruct (fadd_finite _ _ Fm1) as (Fm & Fq & Vm1).
      assert (Hkf : B2Rf kf = INR (S k)) by (apply ofN_FO_exact; lia).
      assert (Hkf0 : B2Rf kf <> 0) by (rewrite Hkf; apply not_0_INR; lia).
      destruct (fdiv_finite _ _ Hkf0 Fq) as (_ & Vq). rewrite Hkf in Vq.
      destruct (fsub_finite _ _ Fd) as (_ & _ & Vd).
      split; [exact Fm2|]. split; [constructor; assumption|]. split; [rewrite Hc; lia|].
      intros H0. apply IHb. change (0 <= B2Rf (m2 + p)%float). rewrite Vm2'. apply rnd64_nonneg.
      assert (0 <= B2Rf p); [|lra].
      change (0 <= B2Rf (d * d2)%float). rewrite Vp. apply rnd64_nonneg.
      change (B2Rf d2) with (B2Rf (x - m1)%float). rewrite Vd2.
      change (B2Rf m1) with (B2Rf (m + q)%float). rewrite Vm1.
      change (B2Rf q) with (B2Rf (d / kf)%float). rewrite Vq.
      change (B2Rf d) with (B2Rf (x - m)%float). rewrite Vd.
      apply delta_sign; [apply F64_B2Rf|apply F64_B2Rf|].
      change 2 with (INR 2). apply le_INR. lia.
  Qed.

  Lemma welford_m2_nonneg (data : list pfloat) :
    data <> [] -> (Z.of_nat (length data) < 2 ^ 53)%Z ->
    finite (snd (welford_statistics (FO tbl) data)) ->
    Forall finite data /\ fst (fst (welford_statistics (FO tbl) data)) = length data /\
    0 <= B2Rf (snd (welford_statistics (FO tbl) data)).
  Proof.
    intros Hne Hn Hfin. destruct data as [|x1 l]; [congruence|].
    unfold welford_statistics in *. cbn [fold_left length] in *. cbn [zero FO] in *.
    pose (m1 := (0 + (x1 - 0) / ofN (FO tbl) 1)%float).
    pose (m2_1 := (0 + (x1 - 0) * (x1 - m1))%float).
    assert (Hupd : welford_update (FO tbl) (0%nat, 0%float, 0%float) x1 = (1%nat, m1, m2_1)) by reflexivity.
    rewrite Hupd in *.
    destruct (m2_run_nonneg l 1 m1 m2_1 ltac:(lia) ltac:(lia) Hfin) as (Fm2 & Fl & Hc & Hb).
    destruct (fadd_finite _ _ Fm2) as (_ & Fp & Vm2).
    destruct (fmul_finite _ _ Fp) as (Fd & Fd2 & Vp).
    destruct (fsub_finite _ _ Fd2) as (Fx1 & Fm1 & Vd2).
    destruct (first_step_exact tbl x1 Fm1) as (_ & Vm1). fold m1 in Vm1.
    split; [constructor; assumption|]. split; [rewrite Hc; reflexivity|].
    apply Hb. change (0 <= B2Rf (0 + (x1 - 0) * (x1 - m1))%float). rewrite Vm2, Vp, Vd2, Vm1.
    replace (B2Rf x1 - B2Rf x1) with 0 by ring.
    rewrite (rnd64_F64 0 F64_0), Rmult_0_r, (rnd64_F64 0 F64_0), B2Rf_zero, Rplus_0_l, (rnd64_F64 0 F64_0). lra.
  Qed.

  Lemma welford_count_length {T} (O : Ops T) (l : list T) : forall a,
    fst (fst (fold_left (welford_update O) l a)) = (fst (fst a) + length l)%nat.
  Proof.
    induction l as [|x l IH]; intros [[k m] m2]; cbn [fold_left length fst]; [lia|].
    rewrite IH. cbn [welford_update fst]. lia.
  Qed.

  Theorem var_F_nonneg (data : list pfloat) :
    data <> [] -> (Z.of_nat (length data) < 2 ^ 53)%Z ->
    finite (var (FO tbl) data) ->
    Forall finite data /\ 0 <= B2Rf (var (FO tbl) data).
  Proof.
    intros Hne Hn Hfin. unfold var in *.
    pose proof (welford_count_length (FO tbl) data (0%nat, zero (FO tbl), zero (FO tbl))) as Hc.
    fold (welford_statistics (FO tbl) data) in Hc. cbn [fst Nat.add] in Hc.
    pose proof (welford_m2_nonneg data Hne Hn) as Hw.
    destruct (welford_statistics (FO tbl) data) as [[c mm] m2]. cbn [fst snd] in *. subst c.
    cbn [div FO] in *.
    destruct data as [|x1 l]; [congruence|]. cbn [length] in *.
    assert (Hkf : B2Rf (ofN (FO tbl) (S (length l))) = INR (S (length l))) by (apply ofN_FO_exact; exact Hn).
    assert (HN : 0 < INR (S (length l))) by (apply lt_0_INR; lia).
    assert (Hnz : B2Rf (ofN (FO tbl) (S (length l))) <> 0) by (rewrite Hkf; lra).
    destruct (fdiv_finite _ _ Hnz Hfin) as (Fm2 & Vq).
    destruct (Hw Fm2) as (Ff & _ & H0). split; [exact Ff|].
    rewrite Vq, Hkf. apply rnd64_nonneg. unfold Rdiv. apply Rmult_le_pos; [exact H0|].
    left. apply Rinv_0_lt_compat. exact HN.
  Qed.

  (** [sample_var] divides the same M2 by n - 1 *)
  Lemma usize_pred_SS (n : nat) : usize_pred (S (S n)) = Z.of_nat (S n).
  Proof. reflexivity. Qed.
  Lemma ofN_unfold {T} (O : Ops T) (n : nat) : ofN O n = ofZ O (Z.of_nat n).
  Proof. reflexivity. Qed.

  Theorem sample_var_F_nonneg (data : list pfloat) :
    (2 <= length data)%nat -> (Z.of_nat (length data) < 2 ^ 53)%Z ->
    finite (sample_var (FO tbl) data) ->
    Forall finite data /\ 0 <= B2Rf (sample_var (FO tbl) data).
  Proof.
    intros H2 Hn Hfin. unfold sample_var in *.
    assert (Hne : data <> []) by (destruct data; [cbn [length] in H2; lia|congruence]).
    pose proof (welford_count_length (FO tbl) data (0%nat, zero (FO tbl), zero (FO tbl))) as Hc.
    fold (welford_statistics (FO tbl) data) in Hc. cbn [fst Nat.add] in Hc.
    pose proof (welford_m2_nonneg data Hne Hn) as Hw.
    destruct (welford_statistics (FO tbl) data) as [[c mm] m2]. cbn [fst snd] in *. subst c.
    assert (En : exists n', length data = S (S n')).
    { destruct (length data) as [|[|n']]; [lia|lia|]. exists n'. reflexivity. }
    destruct En as (n' & En). rewrite En in Hfin |- *. rewrite usize_pred_SS in *.
    assert (Hn' : (Z.of_nat (S n') < 2 ^ 53)%Z) by lia.
    pose proof (ofN_FO_exact tbl n' Hn') as Hkf. rewrite ofN_unfold in Hkf.
    assert (HN : 0 < INR (S n')) by (apply lt_0_INR; lia).
    assert (Hnz : B2Rf (ofZ (FO tbl) (Z.of_nat (S n'))) <> 0) by (rewrite Hkf; lra).
    destruct (fdiv_finite _ _ Hnz Hfin) as (Fm2 & Vq).
    destruct (Hw Fm2) as (Ff & _ & H0). split; [exact Ff|].
    change (div (FO tbl)) with PrimFloat.div.
    rewrite Vq, Hkf. apply rnd64_nonneg. unfold Rdiv. apply Rmult_le_pos; [exact H0|].
    left. apply Rinv_0_lt_compat. exact HN.
  Qed.
End VarNonneg.

(** ** the refutation: finite data whose spread overflows.  x2 - mean = 1.7e308 + 1.7e308 = +inf, the new mean is
    +inf, x2 - (new mean) = -inf, and M2 = 0 + (+inf) * (-inf) = -inf: the variance of two FINITE numbers comes out
    as MINUS infinity (and [std] as NaN).  The crate returns the same values (run against the code). *)
Lemma var_negative_on_overflow :
  let data := [(-0x1.e42d130773b76p+1023)%float; 0x1.e42d130773b76p+1023%float] in
  Forall finite data /\
  var FO0 data = neg_infinity /\ sample_var FO0 data = neg_infinity /\
  PrimFloat.ltb (var FO0 data) 0 = true /\ is_nan FO0 (std FO0 data) = true.
Proof.
  cbv zeta. split; [repeat constructor|]. repeat split; vm_compute; reflexivity.
Qed.
