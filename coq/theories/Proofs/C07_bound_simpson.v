(** Proofs for C07, part 11: Romberg with a budget of 2 levels is Simpson's rule, and for integrands with a bounded fourth
    derivative f4 its error is at most (b-a) h^4/180 max|f4|, h = (b-a)/2.
    Route: the cubic p with p = f at a, m, b and p' = f' at m (m the midpoint) is integrated exactly by the rule and agrees
    with f at the three nodes; pointwise f - p = f4(eta)/24 (t-a)(t-m)^2(t-b) (Rolle four times); integrate. *)
From Coq Require Import Reals List ZArith QArith Qreals Lra Lia.
From Coquelicot Require Import Coquelicot.
From Compute Require Import Base.Ops Base.ListMat Model.Quad Spec.Quad Proofs.C07_base Proofs.C07_trapz Proofs.C07_samples Proofs.C07_bound.
Import ListNotations.
Open Scope R_scope.


Lemma romberg2_simpson (f : R -> R) a b eps :
  romberg RO f a b eps 2 = Some ((b - a) / 6 * (f a + 4 * f ((a + b) / 2) + f b)).
Proof.
  unfold romberg. cbn [col0 rows next_row extrap last Nat.ltb Nat.leb andb Nat.pow Nat.sub Nat.mul Nat.add oddsum].
  f_equal. rewrite negzero_R, half_R, two_R.
  unfold powi, ofN. cbn [powi_pos Z.of_nat Pos.of_succ_nat Pos.succ Z.mul Z.sub Z.add Z.opp Pos.mul Z.pos_sub Pos.pred_double add sub mul div one zero ofZ RO].
  replace (a + 1 * ((b - a) / (1 * 2))) with ((a + b) / 2) by field.
  field.
Qed.


(** Rolle with the derivative given on the closed interval *)
Lemma rolle_d (f df : R -> R) a b :
  a < b -> (forall x, a <= x <= b -> is_derive f x (df x)) -> f a = f b -> exists c, a < c < b /\ df c = 0.
Proof.
  intros Hab Hd E. apply (rolle_cq f df a b Hab); [intros; apply Hd; lra| |exact E].
  intros x Hx. apply (ex_derive_continuous f). eexists. apply Hd, Hx.
Qed.

(** four zeros of h inside (a,b), three derivatives there: the third derivative vanishes somewhere in (a,b) *)
Lemma rolle_4zeros (h h1 h2 h3 : R -> R) a b y0 y1 y2 y3 :
  a < y0 -> y0 < y1 -> y1 < y2 -> y2 < y3 -> y3 < b ->
  (forall x, a < x < b -> is_derive h x (h1 x)) ->
  (forall x, a < x < b -> is_derive h1 x (h2 x)) ->
  (forall x, a < x < b -> is_derive h2 x (h3 x)) ->
  h y0 = 0 -> h y1 = 0 -> h y2 = 0 -> h y3 = 0 ->
  exists eta, a < eta < b /\ h3 eta = 0.
Proof.
  intros Ha H01 H12 H23 Hb D1 D2 D3 Z0 Z1 Z2 Z3.
  destruct (rolle_d h h1 y0 y1) as [u0 [Hu0 U0]]; [lra|intros; apply D1; lra|lra|].
  destruct (rolle_d h h1 y1 y2) as [u1 [Hu1 U1]]; [lra|intros; apply D1; lra|lra|].
  destruct (rolle_d h h1 y2 y3) as [u2 [Hu2 U2]]; [lra|intros; apply D1; lra|lra|].
  destruct (rolle_d h1 h2 u0 u1) as [v0 [Hv0 V0]]; [lra|intros; apply D2; lra|lra|].
  destruct (rolle_d h1 h2 u1 u2) as [v1 [Hv1 V1]]; [lra|intros; apply D2; lra|lra|].
  destruct (rolle_d h2 h3 v0 v1) as [eta [He E]]; [lra|intros; apply D3; lra|lra|].
  exists eta. split; [lra|exact E].
Qed.

Section Hermite.
  Variables (f f1 f2 f3 f4 : R -> R) (a b M : R).
  Hypothesis Hab : a < b.
  Hypothesis Hc : forall x, a <= x <= b -> continuous f x.
  Hypothesis D1 : forall x, a < x < b -> is_derive f x (f1 x).
  Hypothesis D2 : forall x, a < x < b -> is_derive f1 x (f2 x).
  Hypothesis D3 : forall x, a < x < b -> is_derive f2 x (f3 x).
  Hypothesis D4 : forall x, a < x < b -> is_derive f3 x (f4 x).
  Hypothesis HM : forall x, a < x < b -> Rabs (f4 x) <= M.

  Let m := (a + b) / 2.
  Let k := (b - a) / 2.
  Let A2 := ((f a + f b) / 2 - f m) / k ^ 2.
  Let A3 := ((f b - f a) / 2 - f1 m * k) / k ^ 3.
  (** the cubic with p(a) = f(a), p(m) = f(m), p'(m) = f'(m), p(b) = f(b) *)
  Definition hermite3 (x : R) : R := f m + f1 m * (x - m) + A2 * (x - m) ^ 2 + A3 * (x - m) ^ 3.

  Lemma hermite3_error t :
    a <= t <= b -> Rabs (f t - hermite3 t) <= M / 24 * ((t - m) ^ 2 * ((t - a) * (b - t))).
  Proof.
    intros Ht.
    assert (Hk : 0 < k) by (unfold k; lra).
    assert (Hpa : hermite3 a = f a). { unfold hermite3, A2, A3. replace (a - m) with (- k) by (unfold m, k; field). field. lra. }
    assert (Hpb : hermite3 b = f b). { unfold hermite3, A2, A3. replace (b - m) with k by (unfold m, k; field). field. lra. }
    assert (Hpm : hermite3 m = f m). { unfold hermite3. replace (m - m) with 0 by ring. ring. }
    destruct (Req_dec t a) as [->|Hta].
    { rewrite Hpa. replace (f a - f a) with 0 by ring. rewrite Rabs_R0. replace (a - a) with 0 by ring. lra. }
    destruct (Req_dec t b) as [->|Htb].
    { rewrite Hpb. replace (f b - f b) with 0 by ring. rewrite Rabs_R0. replace (b - b) with 0 by ring. lra. }
    destruct (Req_dec t m) as [->|Htm].
    { rewrite Hpm. replace (f m - f m) with 0 by ring. rewrite Rabs_R0. replace (m - m) with 0 by ring. lra. }
    set (w := fun x : R => (x - m) ^ 4 - k ^ 2 * (x - m) ^ 2).
    assert (Ew : forall x, w x = - ((x - m) ^ 2 * ((x - a) * (b - x)))).
    { intros x. unfold w. replace (x - a) with ((x - m) + k) by (unfold m, k; field).
      replace (b - x) with (k - (x - m)) by (unfold m, k; field). ring. }
    assert (Hwt : w t <> 0).
    { rewrite Ew. apply Ropp_neq_0_compat. apply Rmult_integral_contrapositive. split.
      - apply pow_nonzero. lra.
      - apply Rmult_integral_contrapositive. lra. }
    set (lam := (f t - hermite3 t) / w t).
    set (q := fun x => hermite3 x + lam * w x).
    set (q1 := fun x => f1 m + 2 * (A2 - lam * k ^ 2) * (x - m) + 3 * A3 * (x - m) ^ 2 + 4 * lam * (x - m) ^ 3).
    set (q2 := fun x => 2 * (A2 - lam * k ^ 2) + 6 * A3 * (x - m) + 12 * lam * (x - m) ^ 2).
    set (q3 := fun x => 6 * A3 + 24 * lam * (x - m)).
    assert (Q1 : forall x, is_derive q x (q1 x)).
    { intros x. unfold q, q1, hermite3, w. auto_derive; [trivial|]. ring. }
    assert (Q2 : forall x, is_derive q1 x (q2 x)).
    { intros x. unfold q1, q2. auto_derive; [trivial|]. ring. }
    assert (Q3 : forall x, is_derive q2 x (q3 x)).
    { intros x. unfold q2, q3. auto_derive; [trivial|]. ring. }
    assert (Q4 : forall x, is_derive q3 x (24 * lam)).
    { intros x. unfold q3. auto_derive; [trivial|]. ring. }
    set (g := fun x => f x - q x). set (g1 := fun x => f1 x - q1 x).
    set (g2 := fun x => f2 x - q2 x). set (g3 := fun x => f3 x - q3 x).
    assert (G1 : forall x, a < x < b -> is_derive g x (g1 x)).
    { intros x Hx. apply (is_derive_minus f q x (f1 x) (q1 x)); [apply D1, Hx|apply Q1]. }
    assert (G2 : forall x, a < x < b -> is_derive g1 x (g2 x)).
    { intros x Hx. apply (is_derive_minus f1 q1 x (f2 x) (q2 x)); [apply D2, Hx|apply Q2]. }
    assert (G3 : forall x, a < x < b -> is_derive g2 x (g3 x)).
    { intros x Hx. apply (is_derive_minus f2 q2 x (f3 x) (q3 x)); [apply D3, Hx|apply Q3]. }
    assert (G4 : forall x, a < x < b -> is_derive g3 x (f4 x - 24 * lam)).
    { intros x Hx. apply (is_derive_minus f3 q3 x (f4 x) (24 * lam)); [apply D4, Hx|apply Q4]. }
    assert (Gc : forall x, a <= x <= b -> continuous g x).
    { intros x Hx. apply (continuous_minus f q x); [apply Hc, Hx|].
      apply (ex_derive_continuous q). eexists; apply Q1. }
    assert (Wa : w a = 0) by (rewrite Ew; ring).
    assert (Wb : w b = 0) by (rewrite Ew; ring).
    assert (Wm : w m = 0) by (rewrite Ew; ring).
    assert (Za : g a = 0) by (unfold g, q; rewrite Hpa, Wa; ring).
    assert (Zb : g b = 0) by (unfold g, q; rewrite Hpb, Wb; ring).
    assert (Zm : g m = 0) by (unfold g, q; rewrite Hpm, Wm; ring).
    assert (Zt : g t = 0) by (unfold g, q, lam; field; exact Hwt).
    assert (Z1m : g1 m = 0). { unfold g1, q1. replace (m - m) with 0 by ring. ring. }
    assert (Hm : a < m < b) by (unfold m; lra).
    assert (Heta : exists eta, a < eta < b /\ f4 eta - 24 * lam = 0).
    { destruct (Rlt_dec t m) as [Hlt|Hge].
      - destruct (rolle_cq g g1 a t) as [u0 [Hu0 U0]]; [lra|intros; apply G1; lra|intros; apply Gc; lra|lra|].
        destruct (rolle_cq g g1 t m) as [u1 [Hu1 U1]]; [lra|intros; apply G1; lra|intros; apply Gc; lra|lra|].
        destruct (rolle_cq g g1 m b) as [u2 [Hu2 U2]]; [lra|intros; apply G1; lra|intros; apply Gc; lra|lra|].
        apply (rolle_4zeros g1 g2 g3 (fun x => f4 x - 24 * lam) a b u0 u1 m u2); try assumption; lra.
      - destruct (rolle_cq g g1 a m) as [u0 [Hu0 U0]]; [lra|intros; apply G1; lra|intros; apply Gc; lra|lra|].
        destruct (rolle_cq g g1 m t) as [u1 [Hu1 U1]]; [lra|intros; apply G1; lra|intros; apply Gc; lra|lra|].
        destruct (rolle_cq g g1 t b) as [u2 [Hu2 U2]]; [lra|intros; apply G1; lra|intros; apply Gc; lra|lra|].
        apply (rolle_4zeros g1 g2 g3 (fun x => f4 x - 24 * lam) a b u0 m u1 u2); try assumption; lra. }
    destruct Heta as [eta [He E]].
    assert (El : f t - hermite3 t = f4 eta / 24 * w t).
    { replace (f4 eta) with (24 * lam) by lra. unfold lam. field. exact Hwt. }
    rewrite El, Ew. unfold Rdiv. rewrite !Rabs_mult, Rabs_Ropp, (Rabs_pos_eq (/ 24)) by lra.
    assert (P : 0 <= (t - m) ^ 2 * ((t - a) * (b - t))).
    { apply Rmult_le_pos; [apply pow2_ge_0|apply Rmult_le_pos; lra]. }
    rewrite (Rabs_pos_eq _ P).
    assert (HMe := HM eta He). nra.
  Qed.
End Hermite.


Lemma hermite3_is_RInt (f f1 : R -> R) a b :
  a < b -> is_RInt (hermite3 f f1 a b) a b ((b - a) / 6 * (f a + 4 * f ((a + b) / 2) + f b)).
Proof.
  intros Hab. unfold hermite3.
  set (m := (a + b) / 2). set (k := (b - a) / 2).
  set (A2 := ((f a + f b) / 2 - f m) / k ^ 2). set (A3 := ((f b - f a) / 2 - f1 m * k) / k ^ 3).
  set (AP := fun x => f m * (x - m) + f1 m * (x - m) ^ 2 / 2 + A2 * (x - m) ^ 3 / 3 + A3 * (x - m) ^ 4 / 4).
  replace ((b - a) / 6 * (f a + 4 * f m + f b)) with (minus (AP b) (AP a)).
  2:{ unfold minus, plus, opp, AP; cbn. replace (b - m) with k by (unfold m, k; field).
      replace (a - m) with (- k) by (unfold m, k; field). replace (b - a) with (2 * k) by (unfold k; field).
      unfold A2. field. unfold k. lra. }
  apply (is_RInt_derive AP).
  - intros t _. unfold AP. auto_derive; [trivial|]. field.
  - intros t _. apply (ex_derive_continuous (fun x => f m + f1 m * (x - m) + A2 * (x - m) ^ 2 + A3 * (x - m) ^ 3)).
    auto_derive. trivial.
Qed.

Lemma kernel4_is_RInt M a b :
  is_RInt (fun t => M / 24 * ((t - (a + b) / 2) ^ 2 * ((t - a) * (b - t)))) a b ((b - a) * ((b - a) / 2) ^ 4 / 180 * M).
Proof.
  set (m := (a + b) / 2). set (k := (b - a) / 2).
  set (AK := fun t => M / 24 * (k ^ 2 * (t - m) ^ 3 / 3 - (t - m) ^ 5 / 5)).
  replace ((b - a) * k ^ 4 / 180 * M) with (minus (AK b) (AK a)).
  2:{ unfold minus, plus, opp, AK; cbn. replace (b - m) with k by (unfold m, k; field).
      replace (a - m) with (- k) by (unfold m, k; field). replace (b - a) with (2 * k) by (unfold k; field). field. }
  apply (is_RInt_derive AK).
  - intros t _. unfold AK. auto_derive; [trivial|].
    replace (t - a) with ((t - m) + k) by (unfold m, k; field).
    replace (b - t) with (k - (t - m)) by (unfold m, k; field). field.
  - intros t _. apply (ex_derive_continuous (fun t => M / 24 * ((t - m) ^ 2 * ((t - a) * (b - t))))).
    auto_derive. trivial.
Qed.

Theorem simpson_bound (f f1 f2 f3 f4 : R -> R) a b M :
  a <= b ->
  (forall x, a <= x <= b -> continuous f x) ->
  (forall x, a < x < b -> is_derive f x (f1 x) /\ is_derive f1 x (f2 x) /\ is_derive f2 x (f3 x) /\ is_derive f3 x (f4 x)) ->
  (forall x, a < x < b -> Rabs (f4 x) <= M) ->
  Rabs ((b - a) / 6 * (f a + 4 * f ((a + b) / 2) + f b) - RInt f a b) <= (b - a) * ((b - a) / 2) ^ 4 / 180 * M.
Proof.
  intros Hab Hc Hd HM.
  destruct (Req_dec a b) as [->|Hne].
  { rewrite RInt_point. unfold zero; cbn. replace (b - b) with 0 by ring. unfold Rdiv. rewrite !Rmult_0_l, Rminus_0_r, Rabs_R0. lra. }
  assert (Hlt : a < b) by lra.
  assert (HexF : ex_RInt f a b) by (apply ex_RInt_cont_le; assumption).
  assert (HF : is_RInt f a b (RInt f a b)) by (exact (@RInt_correct R_CompleteNormedModule f a b HexF)).
  pose proof (hermite3_is_RInt f f1 a b Hlt) as HP.
  pose proof (is_RInt_minus _ f a b _ _ HP HF) as HD.
  apply (norm_RInt_le (fun x => minus (hermite3 f f1 a b x) (f x))
           (fun t => M / 24 * ((t - (a + b) / 2) ^ 2 * ((t - a) * (b - t)))) a b
           (minus ((b - a) / 6 * (f a + 4 * f ((a + b) / 2) + f b)) (RInt f a b)) _ Hab); [|exact HD|apply kernel4_is_RInt].
  intros x Hx. change (Rabs (hermite3 f f1 a b x - f x) <= M / 24 * ((x - (a + b) / 2) ^ 2 * ((x - a) * (b - x)))).
  rewrite Rabs_minus_sym.
  apply (hermite3_error f f1 f2 f3 f4 a b M Hlt Hc); try assumption; intros t Ht; apply (Hd t Ht).
Qed.

Theorem romberg2_error_bound (f f1 f2 f3 f4 : R -> R) a b eps M :
  a <= b ->
  (forall x, a <= x <= b -> continuous f x) ->
  (forall x, a < x < b -> is_derive f x (f1 x) /\ is_derive f1 x (f2 x) /\ is_derive f2 x (f3 x) /\ is_derive f3 x (f4 x)) ->
  (forall x, a < x < b -> Rabs (f4 x) <= M) ->
  exists r, romberg RO f a b eps 2 = Some r /\ Rabs (r - RInt f a b) <= (b - a) * ((b - a) / 2) ^ 4 / 180 * M.
Proof.
  intros Hab Hc Hd HM. eexists. split; [apply romberg2_simpson|].
  apply (simpson_bound f f1 f2 f3 f4); assumption.
Qed.

Example romberg2_error_bound_exp :
  forall eps, exists r, romberg RO exp 0 1 eps 2 = Some r /\ Rabs (r - (exp 1 - 1)) <= (1 - 0) * ((1 - 0) / 2) ^ 4 / 180 * exp 1.
Proof.
  intros eps. replace (exp 1 - 1) with (RInt exp 0 1).
  - apply (romberg2_error_bound exp exp exp exp exp); [lra| | |].
    + intros x _. apply (ex_derive_continuous exp). eexists. apply is_derive_exp.
    + intros x _. repeat split; apply is_derive_exp.
    + intros x Hx. rewrite Rabs_pos_eq by (left; apply exp_pos). left. apply exp_increasing, Hx.
  - apply is_RInt_unique. rewrite <- exp_0.
    apply (is_RInt_derive exp exp).
    + intros x _. apply is_derive_exp.
    + intros x _. apply (ex_derive_continuous exp). eexists. apply is_derive_exp.
Qed.
