(** Proofs for C14 (polynomial regression).  Statements are pinned in Properties/C14.v. *)
From Coq Require Import Reals List Arith ZArith Bool Lia Lra.
From Compute Require Import Base.Ops Base.ListMat Model.Reduce Model.MatMul Model.Poly
  Spec.MatMul Spec.Poly Proofs.C05 Proofs.C14_sums.
Import ListNotations.

(** ** [matmul] on conformable operands, in the two flag combinations [fit] uses (any carrier) *)
Section MatmulOk.
  Context {T : Type} (O : Ops T).
  Local Notation z := (zero O).

  Lemma matmul_tf_ok a b ra ca cb :
    0 < ra -> length a = ra * ca -> length b = ra * cb ->
    exists c, matmul O a b ra ra true false = Some c /\ length c = ca * cb /\
      forall i j, i < ca -> j < cb ->
        nth (i * cb + j) c z =
        sumk O (fun k => mul O (nth (k * ca + i) a z) (nth (k * cb + j) b z)) ra.
  Proof.
    intros Hra Ha Hb. pose proof (matmul_spec O a b ra ra true false) as H.
    rewrite dims_is_matrix in H. unfold dims' in H.
    rewrite Ha, Hb, !is_matrix_mul in H by auto. cbn [bind] in H.
    rewrite Nat.eqb_refl in H. cbn [guard bind andb] in H.
    destruct H as (c & Hc & Hl & He). exists c. split; [exact Hc|]. split; [exact Hl|].
    intros i j Hi Hj. rewrite He by auto. reflexivity.
  Qed.

  Lemma matmul_ff_ok a b ra rb cb :
    0 < ra -> 0 < rb -> length a = ra * rb -> length b = rb * cb ->
    exists c, matmul O a b ra rb false false = Some c /\ length c = ra * cb /\
      forall i j, i < ra -> j < cb ->
        nth (i * cb + j) c z =
        sumk O (fun k => mul O (nth (i * rb + k) a z) (nth (k * cb + j) b z)) rb.
  Proof.
    intros Hra Hrb Ha Hb. pose proof (matmul_spec O a b ra rb false false) as H.
    rewrite dims_is_matrix in H. unfold dims' in H.
    rewrite Ha, Hb, !is_matrix_mul in H by auto. cbn [bind] in H.
    rewrite Nat.eqb_refl in H. cbn [guard bind andb] in H.
    destruct H as (c & Hc & Hl & He). exists c. split; [exact Hc|]. split; [exact Hl|].
    intros i j Hi Hj. rewrite He by auto. reflexivity.
  Qed.

  Lemma matmul_rows_a_zero a b rb ta tb : matmul O a b 0 rb ta tb = None.
  Proof.
    pose proof (matmul_spec O a b 0 rb ta tb) as H. unfold dims in H.
    change (0 <? 0) with false in H. cbn [andb] in H. exact H.
  Qed.

  Lemma matmul_rows_b_zero a b ra ta tb : matmul O a b ra 0 ta tb = None.
  Proof.
    pose proof (matmul_spec O a b ra 0 ta tb) as H. unfold dims in H.
    change (0 <? 0) with false in H. rewrite andb_false_r in H. cbn [andb] in H. exact H.
  Qed.

  (** a conformable-looking product whose first operand has the wrong number of entries panics *)
  Lemma matmul_some_length a b ra rb ta tb c :
    matmul O a b ra rb ta tb = Some c ->
    exists ca cb, length a = ra * ca /\ length b = rb * cb /\ 0 < ra /\ 0 < rb /\
      (if ta then ra else ca) = (if tb then cb else rb) /\
      length c = (if ta then ca else ra) * (if tb then rb else cb).
  Proof.
    intros Hc. pose proof (matmul_spec O a b ra rb ta tb) as H.
    rewrite dims_is_matrix in H. unfold dims' in H.
    destruct (is_matrix (length a) ra) as [ca|] eqn:Ea; cbn [bind] in H; [|congruence].
    destruct (is_matrix (length b) rb) as [cb|] eqn:Eb; cbn [bind] in H; [|congruence].
    apply is_matrix_some in Ea, Eb.
    destruct (Nat.eqb_spec (if ta then ra else ca) (if tb then cb else rb)) as [E|E];
      cbn [guard bind] in H; [|congruence].
    destruct H as (c' & Hc' & Hl & _). rewrite Hc in Hc'. injection Hc' as <-.
    exists ca, cb. repeat split; try lia; auto.
  Qed.
End MatmulOk.

(** ** [powi] on the reals is the power, for exponents below 2^64 *)
Local Open Scope R_scope.

Lemma powi_pos_R fuel : forall (a r : R) (b : positive),
  (Zpos b < 2 ^ Z.of_nat fuel)%Z -> powi_pos RO fuel a r b = r * a ^ Pos.to_nat b.
Proof.
  induction fuel as [|fuel IH]; intros a r b Hb.
  - cbn in Hb. lia.
  - assert (Hp : (2 ^ Z.of_nat (S fuel) = 2 * 2 ^ Z.of_nat fuel)%Z).
    { rewrite Nat2Z.inj_succ. apply Z.pow_succ_r. lia. }
    cbn [powi_pos]. destruct b as [b|b|].
    + rewrite IH by lia. cbn [mul RO]. rewrite Pos2Nat.inj_xI.
      cbn [pow]. rewrite pow_sqr. ring.
    + rewrite IH by lia. cbn [mul RO]. rewrite Pos2Nat.inj_xO. rewrite pow_sqr. ring.
    + cbn [mul RO]. rewrite Pos2Nat.inj_1. ring.
Qed.

Definition small (k : nat) : Prop := (Z.of_nat k <= 2 ^ 31)%Z.

Lemma powi_R (x : R) (j : nat) : (Z.of_nat j < 2 ^ 64)%Z -> powi RO x (Z.of_nat j) = x ^ j.
Proof.
  intros Hj. destruct j as [|j]; [reflexivity|].
  rewrite Nat2Z.inj_succ, <- Zpos_P_of_succ_nat. unfold powi.
  rewrite powi_pos_R.
  - cbn [one RO]. rewrite SuccNat2Pos.id_succ. ring.
  - change (Z.of_nat 64) with 64%Z. rewrite Zpos_P_of_succ_nat, <- Nat2Z.inj_succ. exact Hj.
Qed.

(** ** The Vandermonde matrix *)
Lemma vandermonde_length {T} (O : Ops T) (x : list T) k : length (vandermonde O x k) = (length x * k)%nat.
Proof.
  unfold vandermonde. induction x as [|v x IH]; [reflexivity|].
  cbn [flat_map length]. rewrite app_length, map_length, seq_length, IH. lia.
Qed.

Lemma vandermonde_nth {T} (O : Ops T) (x : list T) k i j d :
  (i < length x)%nat -> (j < k)%nat ->
  nth (i * k + j) (vandermonde O x k) d = powi O (nth i x d) (Z.of_nat j).
Proof.
  unfold vandermonde. revert i. induction x as [|v x IH]; intros i Hi Hj; cbn [length] in Hi; [lia|].
  cbn [flat_map]. destruct i as [|i].
  - rewrite app_nth1 by (rewrite map_length, seq_length; lia).
    cbn [Nat.mul Nat.add nth]. rewrite nth_map_seq by auto. reflexivity.
  - rewrite app_nth2 by (rewrite map_length, seq_length; lia).
    rewrite map_length, seq_length. replace (S i * k + j - k)%nat with (i * k + j)%nat by lia.
    cbn [nth]. apply IH; [lia|auto].
Qed.

Lemma vandermonde_R (x : list R) k i j :
  small k -> (i < length x)%nat -> (j < k)%nat ->
  nth (i * k + j) (vandermonde RO x k) 0 = nth i x 0 ^ j.
Proof.
  intros Hk Hi Hj. rewrite vandermonde_nth by auto. apply powi_R.
  unfold small in Hk. assert (2 ^ 31 < 2 ^ 64)%Z by reflexivity. lia.
Qed.

(** ** Horner = power sum *)
Lemma rsum_shift f n : rsum f (S n) = f 0%nat + rsum (fun i => f (S i)) n.
Proof.
  induction n as [|n IH]; [cbn [rsum]; ring|].
  change (rsum f (S (S n))) with (rsum f (S n) + f (S n)). rewrite IH. cbn [rsum]. ring.
Qed.

Lemma poly_sum_cons a c v : poly_sum (a :: c) v = a + v * poly_sum c v.
Proof.
  unfold poly_sum. cbn [length]. rewrite rsum_shift. cbn [nth pow]. f_equal; [ring|].
  rewrite <- rsum_scal_l. apply rsum_ext. intros i Hi. cbn [nth pow]. ring.
Qed.

Lemma horner_cons {T} (O : Ops T) a c v : horner O (a :: c) v = add O (mul O (horner O c v) v) a.
Proof. unfold horner. cbn [rev]. rewrite fold_left_app. reflexivity. Qed.

Lemma horner_is_power_sum c v : horner RO c v = poly_sum c v.
Proof.
  induction c as [|a c IH].
  - reflexivity.
  - rewrite horner_cons, poly_sum_cons, IH. cbn [add mul RO]. ring.
Qed.

Lemma predict_is_polynomial c x : predict RO c x = map (poly_sum c) x.
Proof. unfold predict. apply map_ext. intros v. apply horner_is_power_sum. Qed.

Lemma predict_length {T} (O : Ops T) c x : length (predict O c x) = length x.
Proof. apply map_length. Qed.

Lemma predict_new_zero deg x : predict RO (new RO deg) x = map (fun _ => 0) x.
Proof.
  rewrite predict_is_polynomial. apply map_ext. intros v. unfold poly_sum, new.
  rewrite (rsum_ext _ (fun _ => 0)); [apply rsum_zero|].
  intros i Hi. rewrite nth_repeat. cbn [zero RO]. ring.
Qed.

(** ** The Gram matrix handed to the inner solve *)
Lemma fit_gram_spec k x y :
  small k ->
  match fit_gram RO k x y with
  | Some G => length x = length y /\ (0 < length x)%nat /\ is_gram k x G
  | None => length x <> length y \/ length x = 0%nat
  end.
Proof.
  intros Hk. unfold fit_gram.
  destruct (Nat.eqb_spec (length x) (length y)) as [E|E]; cbn [guard bind]; [|left; exact E].
  destruct (length x) as [|n] eqn:En.
  - unfold xtx. rewrite matmul_rows_a_zero. right; reflexivity.
  - rewrite <- En. unfold xtx.
    destruct (matmul_tf_ok RO (vandermonde RO x k) (vandermonde RO x k) (length x) k k)
      as (G & HG & Hl & He); try (apply vandermonde_length); [lia|].
    rewrite HG. split; [congruence|]. split; [lia|]. split; [exact Hl|].
    intros j l Hj Hl'. cbn [zero RO] in He. rewrite He by auto. rewrite sumk_RO.
    unfold gram_entry. apply rsum_ext. intros i Hi.
    rewrite !vandermonde_R by auto. reflexivity.
Qed.

(** ** Characterisation of a successful [fit] on the reals *)
Definition inverse_ok (inv : list R -> option (list R)) : Prop :=
  forall n A Ai, length A = (n * n)%nat -> inv A = Some Ai -> right_inverse n A Ai.

(** the same, only at the matrix [fit] actually passes (the weakest form; what the theorems use) *)
Definition inverse_ok_at (inv : list R -> option (list R)) (k : nat) (x y : list R) : Prop :=
  forall G Gi, fit_gram RO k x y = Some G -> inv G = Some Gi -> right_inverse k G Gi.

Definition xty_entry (x y : list R) (l : nat) : R := rsum (fun i => nth i x 0 ^ l * nth i y 0) (length x).

Lemma fit_char inv k x y c :
  inverse_ok_at inv k x y -> small k -> fit RO inv k x y = Some c ->
  length x = length y /\ (0 < length x)%nat /\ (0 < k)%nat /\ length c = k /\
  exists G Gi, fit_gram RO k x y = Some G /\ inv G = Some Gi /\ is_gram k x G /\ right_inverse k G Gi /\
    forall j, (j < k)%nat -> nth j c 0 = rsum (fun l => nth (j * k + l) Gi 0 * xty_entry x y l) k.
Proof.
  intros Hinv Hk Hfit. unfold fit in Hfit.
  pose proof (fit_gram_spec k x y Hk) as HG. unfold inverse_ok_at in Hinv.
  destruct (fit_gram RO k x y) as [G|]; cbn [bind] in Hfit; [|discriminate].
  destruct HG as (Hxy & Hn & HGram).
  destruct (inv G) as [Gi|] eqn:EGi; cbn [bind] in Hfit; [|discriminate].
  pose proof (Hinv G Gi eq_refl EGi) as HR.
  destruct (matmul_tf_ok RO (vandermonde RO x k) y (length x) k 1) as (b & Hb & Hbl & Hbe);
    [exact Hn | apply vandermonde_length | lia |].
  rewrite <- Hxy in Hfit. rewrite Hb in Hfit. cbn [bind] in Hfit.
  destruct k as [|k']; [rewrite matmul_rows_a_zero in Hfit; discriminate|].
  remember (S k') as k eqn:Ek.
  destruct (matmul_ff_ok RO Gi b k k 1) as (c' & Hc' & Hcl & Hce); try lia; [apply HR|].
  rewrite Hc' in Hfit. injection Hfit as <-.
  split; [exact Hxy|]. split; [exact Hn|]. split; [lia|]. split; [lia|].
  exists G, Gi. split; [reflexivity|]. split; [exact EGi|]. split; [exact HGram|]. split; [exact HR|].
  intros j Hj. specialize (Hce j 0%nat Hj ltac:(lia)).
  replace (j * 1 + 0)%nat with j in Hce by lia. cbn [zero RO] in Hce, Hbe. rewrite Hce, sumk_RO.
  apply rsum_ext. intros l Hl. cbn [mul RO]. f_equal.
  specialize (Hbe l 0%nat Hl ltac:(lia)). replace (l * 1 + 0)%nat with l in * by lia.
  rewrite Hbe, sumk_RO. unfold xty_entry. apply rsum_ext. intros i Hi. cbn [mul RO].
  rewrite vandermonde_R by auto. replace (i * 1 + 0)%nat with i by lia. reflexivity.
Qed.

(** prediction in index-function form *)
Lemma poly_sum_pred c k v : length c = k ->
  poly_sum c v = pred k (fun i l => v ^ l) (fun l => nth l c 0) 0%nat.
Proof.
  intros <-. unfold poly_sum, pred. apply rsum_ext. intros; ring.
Qed.

Section FitTheorems.
  Variables (inv : list R -> option (list R)) (k : nat) (x y c : list R).
  Hypothesis Hinv : inverse_ok_at inv k x y.
  Hypothesis Hk : small k.
  Hypothesis Hfit : fit RO inv k x y = Some c.

  Let V (i l : nat) : R := nth i x 0 ^ l.
  Let yy (i : nat) : R := nth i y 0.
  Let cc (l : nat) : R := nth l c 0.

  Lemma poly_sum_as_pred d i : length d = k ->
    poly_sum d (nth i x 0) = pred k V (fun l => nth l d 0) i.
  Proof. intros <-. unfold poly_sum, pred, V. apply rsum_ext. intros; ring. Qed.

  Lemma fit_length : length c = k.
  Proof. destruct (fit_char inv k x y c Hinv Hk Hfit) as (_ & _ & _ & H & _). exact H. Qed.

  Lemma fit_abstract :
    exists G Gi : nat -> nat -> R,
      (forall j l, (j < k)%nat -> (l < k)%nat -> G j l = gram_entry x j l) /\
      (forall j l, (j < k)%nat -> (l < k)%nat -> G j l = rsum (fun i => V i j * V i l) (length x)) /\
      (forall j m, (j < k)%nat -> (m < k)%nat ->
         rsum (fun l => G j l * Gi l m) k = if (j =? m)%nat then 1 else 0) /\
      (forall j, (j < k)%nat -> cc j = rsum (fun l => Gi j l * bvec (length x) V yy l) k).
  Proof.
    destruct (fit_char inv k x y c Hinv Hk Hfit) as (_ & _ & _ & _ & G & Gi & _ & _ & HG & HR & Hc).
    exists (fun j l => nth (j * k + l) G 0), (fun l m => nth (l * k + m) Gi 0).
    split; [intros; apply HG; auto|]. split; [intros; apply HG; auto|].
    split; [intros; apply HR; auto|].
    intros j Hj. unfold cc. rewrite Hc by auto. reflexivity.
  Qed.

  Lemma fit_normal_equations j : (j < k)%nat ->
    rsum (fun l => gram_entry x j l * nth l c 0) k = xty_entry x y j.
  Proof.
    intros Hj. destruct fit_abstract as (G & Gi & HGe & HG & HI & Hc).
    rewrite (rsum_ext _ (fun l => G j l * cc l)) by (intros l Hl; rewrite HGe by auto; reflexivity).
    exact (lsq_normal_equations (length x) k V yy G Gi cc HI Hc j Hj).
  Qed.

  Lemma fit_residual_orthogonal j : (j < k)%nat ->
    rsum (fun i => nth i x 0 ^ j * resid x y c i) (length x) = 0.
  Proof.
    intros Hj. destruct fit_abstract as (G & Gi & HGe & HG & HI & Hc).
    pose proof (lsq_residual_orthogonal (length x) k V yy G Gi cc HG HI Hc j Hj) as H.
    etransitivity; [|exact H]. apply rsum_ext. intros i Hi. unfold resid.
    rewrite (poly_sum_as_pred c i fit_length). reflexivity.
  Qed.

  Lemma rss_as_pred d : length d = k ->
    rss x y d = rsum (fun i => (yy i - pred k V (fun l => nth l d 0) i) ^ 2) (length x).
  Proof.
    intros Hd. unfold rss. apply rsum_ext. intros i Hi. unfold resid.
    rewrite (poly_sum_as_pred d i Hd). reflexivity.
  Qed.

  Lemma fit_rss_decomposition c' : length c' = k ->
    rss x y c' = rss x y c +
      rsum (fun i => (poly_sum c' (nth i x 0) - poly_sum c (nth i x 0)) ^ 2) (length x).
  Proof.
    intros Hc'. destruct fit_abstract as (G & Gi & HGe & HG & HI & Hc).
    rewrite (rss_as_pred c' Hc'), (rss_as_pred c fit_length).
    rewrite (lsq_pythagoras (length x) k V yy G Gi cc HG HI Hc (fun l => nth l c' 0)).
    f_equal. apply rsum_ext. intros i Hi.
    rewrite (poly_sum_as_pred c' i Hc'), (poly_sum_as_pred c i fit_length). reflexivity.
  Qed.

  Lemma fit_is_least_squares c' : length c' = k -> rss x y c <= rss x y c'.
  Proof.
    intros Hc'. rewrite (fit_rss_decomposition c' Hc').
    pose proof (rsum_sq_nonneg (fun i => poly_sum c' (nth i x 0) - poly_sum c (nth i x 0)) (length x)).
    lra.
  Qed.

  (** data generated by a polynomial with [k] coefficients are reproduced at every abscissa *)
  Lemma fit_reproduces_data c0 : length c0 = k ->
    (forall i, (i < length x)%nat -> nth i y 0 = poly_sum c0 (nth i x 0)) ->
    forall i, (i < length x)%nat -> poly_sum c (nth i x 0) = nth i y 0.
  Proof.
    intros Hc0 Hy i Hi.
    pose proof (fit_is_least_squares c0 Hc0) as Hle.
    assert (H0 : rss x y c0 = 0).
    { unfold rss. rewrite (rsum_ext _ (fun _ => 0)); [apply rsum_zero|].
      intros i' Hi'. unfold resid. rewrite Hy by auto. ring. }
    assert (Hz : rss x y c = 0).
    { pose proof (rsum_sq_nonneg (resid x y c) (length x)). unfold rss in *. lra. }
    pose proof (rsum_sq_zero (resid x y c) (length x) Hz i Hi) as Hr.
    unfold resid in Hr. lra.
  Qed.
End FitTheorems.

(** ** Acceptance and rejection *)
Lemma fit_accepts inv k x y :
  inverse_ok_at inv k x y -> small k -> length x = length y -> (0 < length x)%nat -> (0 < k)%nat ->
  exists G, fit_gram RO k x y = Some G /\ is_gram k x G /\
    (forall Gi, inv G = Some Gi -> exists c, fit RO inv k x y = Some c /\ length c = k) /\
    (inv G = None -> fit RO inv k x y = None).
Proof.
  intros Hinv Hk Hxy Hn Hk0. pose proof (fit_gram_spec k x y Hk) as HG. unfold fit.
  unfold inverse_ok_at in Hinv.
  destruct (fit_gram RO k x y) as [G|]; [|destruct HG; lia].
  destruct HG as (_ & _ & HGram). exists G. split; [reflexivity|]. split; [exact HGram|].
  cbn [bind]. split.
  - intros Gi EGi. rewrite EGi. cbn [bind].
    pose proof (Hinv G Gi eq_refl EGi) as HR.
    destruct (matmul_tf_ok RO (vandermonde RO x k) y (length x) k 1) as (b & Hb & Hbl & _);
      [exact Hn | apply vandermonde_length | lia |].
    rewrite <- Hxy. rewrite Hb. cbn [bind].
    destruct (matmul_ff_ok RO Gi b k k 1) as (c' & Hc' & Hcl & _); try lia; [apply HR|].
    exists c'. split; [exact Hc'|lia].
  - intros ->. reflexivity.
Qed.

Lemma fit_rejects {T} (O : Ops T) inv k x y :
  length x <> length y \/ length x = 0%nat \/ k = 0%nat -> fit O inv k x y = None.
Proof.
  intros H. unfold fit, fit_gram.
  destruct (Nat.eqb_spec (length x) (length y)) as [E|E]; cbn [guard bind]; [|reflexivity].
  destruct H as [H|[H|H]]; [contradiction| |].
  - rewrite H. unfold xtx. rewrite matmul_rows_a_zero. reflexivity.
  - subst k. destruct (xtx O (vandermonde O x 0) (length x)); cbn [bind]; [|reflexivity].
    destruct (inv l); cbn [bind]; [|reflexivity].
    destruct (matmul O (vandermonde O x 0) y (length x) (length y) true false); cbn [bind]; [|reflexivity].
    apply matmul_rows_a_zero.
Qed.

(** ** The regressor as a state machine *)
Lemma step_fit_history_independent {T} (O : Ops T) inv coef coef' x y :
  length coef = length coef' ->
  option_map snd (Poly.step O inv coef (OFit x y)) = option_map snd (Poly.step O inv coef' (OFit x y)) /\
  option_map fst (Poly.step O inv coef (OFit x y)) = option_map fst (Poly.step O inv coef' (OFit x y)).
Proof. intros H. cbn [Poly.step]. rewrite H. split; reflexivity. Qed.

Definition no_assignment {T} (o : op (T:=T)) : bool := match o with OSetCoef _ => false | _ => true end.

(** a successful fit returns exactly [k] coefficients: any carrier, any inner routine *)
Lemma fit_length_any {T} (O : Ops T) inv k x y c : fit O inv k x y = Some c -> length c = k.
Proof.
  unfold fit. intros H.
  destruct (fit_gram O k x y) as [G|]; cbn [bind] in H; [|discriminate].
  destruct (inv G) as [Gi|]; cbn [bind] in H; [|discriminate].
  destruct (matmul O (vandermonde O x k) y (length x) (length y) true false) as [b|] eqn:Eb;
    cbn [bind] in H; [|discriminate].
  destruct (matmul_some_length O _ _ _ _ _ _ _ Eb) as (ca & cb & Ha & Hy & Hn & Hn' & Hin & Hbl).
  destruct (matmul_some_length O _ _ _ _ _ _ _ H) as (ca' & cb' & Ha' & Hb' & Hk0 & _ & Hin' & Hcl).
  cbn beta iota in *.
  rewrite vandermonde_length in Ha.
  assert (ca = k) by nia. assert (cb = 1%nat) by nia. subst ca cb.
  rewrite Hbl in Hb'. assert (cb' = 1%nat) by nia. subst cb'. lia.
Qed.

(** fits and predictions keep the number of coefficients fixed at [deg + 1] (any carrier) *)
Lemma run_keeps_degree {T} (O : Ops T) inv ops : forall coef coef' out,
  forallb no_assignment ops = true ->
  run O inv coef ops = Some (coef', out) -> length coef' = length coef.
Proof.
  induction ops as [|o ops IH]; intros coef coef' out Hna Hrun.
  - cbn in Hrun. injection Hrun as <- _. reflexivity.
  - cbn [forallb] in Hna. apply andb_true_iff in Hna. destruct Hna as [Ho Hna].
    cbn [run] in Hrun.
    destruct (Poly.step O inv coef o) as [[c1 o1]|] eqn:Es; cbn [bind] in Hrun; [|discriminate].
    destruct (run O inv c1 ops) as [[c2 o2]|] eqn:Er; cbn [bind] in Hrun; [|discriminate].
    injection Hrun as <- _.
    assert (Hl : length c1 = length coef).
    { destruct o as [x y|x|c]; cbn [Poly.step] in Es.
      - destruct (fit O inv (length coef) x y) as [c|] eqn:Ef; cbn [bind] in Es; [|discriminate].
        injection Es as <- _. exact (fit_length_any O inv (length coef) x y c Ef).
      - injection Es as <- _. reflexivity.
      - discriminate. }
    rewrite <- Hl. apply (IH c1 c2 o2); auto.
Qed.

(** ** Discharging the hypothesis on the inner solve *)
Lemma inverse_ok_at_of_global inv k x y : inverse_ok inv -> small k -> inverse_ok_at inv k x y.
Proof.
  intros Hinv Hk G Gi HG EGi. pose proof (fit_gram_spec k x y Hk) as Hs. rewrite HG in Hs.
  destruct Hs as (_ & _ & Hl & _). exact (Hinv k G Gi Hl EGi).
Qed.

(** from a conditional correctness statement of the inner routine (correct on matrices satisfying [P],
    e.g. nonsingular / symmetric positive definite) once the Gram matrix is shown to satisfy [P] *)
Lemma inverse_ok_at_of_conditional (P : nat -> list R -> Prop) inv k x y :
  (forall n A Ai, length A = (n * n)%nat -> P n A -> inv A = Some Ai -> right_inverse n A Ai) ->
  (forall G, is_gram k x G -> P k G) -> small k -> inverse_ok_at inv k x y.
Proof.
  intros Hinv HP Hk G Gi HG EGi. pose proof (fit_gram_spec k x y Hk) as Hs. rewrite HG in Hs.
  destruct Hs as (_ & _ & Hgram). exact (Hinv k G Gi (proj1 Hgram) (HP G Hgram) EGi).
Qed.
