(** Proofs for C04, part 9 (extension): rounding error of [norm] = sqrt (dot x x) and of [prod] on binary64.
      | norm x - ||x||_2 |   <=  ((1 + 2^-53)^(n+2) - 1) * ||x||_2        (finite result, no square underflows)
      | prod x - Pi x_i |    <=  ((1 + 2^-53)^n - 1) * | Pi x_i |         (finite result, no partial product underflows) *)
From Coq Require Import List Arith Bool ZArith Reals Lra Lia Floats.
From Flocq Require Import Core Relative Plus_error BinarySingleNaN PrimFloat.
From Compute Require Import Base.Ops Base.ListMat Model.Reduce Spec.Vops Proofs.C04Red Proofs.C04Err Proofs.C04ErrF Proofs.C04ErrDot.
Import ListNotations.
Local Open Scope R_scope.
Local Existing Instance Flocq.IEEE754.PrimFloat.Hprec.
Local Existing Instance Flocq.IEEE754.PrimFloat.Hmax.

(** ** norm *)

(** a relative perturbation [e] of [d >= 0] perturbs the square root by at most [e] relatively; one more rounding on top *)
Lemma sqrt_perturbed (d d' e u r : R) :
  0 <= d -> 0 <= e -> 0 <= u -> Rabs (d' - d) <= e * d ->
  Rabs (r - R_sqrt.sqrt d') <= u * R_sqrt.sqrt d' ->
  Rabs (r - R_sqrt.sqrt d) <= ((1 + e) * (1 + u) - 1) * R_sqrt.sqrt d.
Proof.
  intros Hd He Hu Hdd Hr.
  set (s := R_sqrt.sqrt d) in *. set (s' := R_sqrt.sqrt d') in *.
  assert (Hs : 0 <= s) by apply sqrt_pos. assert (Hs' : 0 <= s') by apply sqrt_pos.
  assert (Hss : Rabs (s' - s) <= e * s).
  { destruct (Req_dec d 0) as [Hd0|Hd0].
    - assert (d' = 0).
      { rewrite Hd0, Rmult_0_r, Rminus_0_r in Hdd. pose proof (Rabs_pos d'). destruct (Req_dec d' 0); [assumption|].
        pose proof (Rabs_pos_lt d' ltac:(assumption)). lra. }
      unfold s, s'. rewrite Hd0, H, sqrt_0, Rminus_0_r, Rabs_R0. lra.
    - assert (Hdp : 0 < d) by lra. assert (Hsp : 0 < s) by (apply sqrt_lt_R0; exact Hdp).
      assert (Hsq : s * s = d) by (apply sqrt_sqrt; exact Hd).
      destruct (Rle_dec d' 0) as [Hn|Hp].
      + assert (s' = 0) by (apply sqrt_neg_0; exact Hn).
        rewrite H, Rminus_0_l, Rabs_Ropp, Rabs_pos_eq by lra.
        assert (d <= e * d). { eapply Rle_trans; [|exact Hdd]. rewrite Rabs_left1 by lra. lra. }
        assert (1 <= e) by nra. nra.
      + assert (Hsq' : s' * s' = d') by (apply sqrt_sqrt; lra).
        assert (Hfac : (s' - s) * (s' + s) = d' - d) by (rewrite <- Hsq, <- Hsq'; ring).
        assert (Hsum : s <= s' + s) by lra.
        assert (Rabs (s' - s) * (s' + s) <= e * d).
        { rewrite <- (Rabs_pos_eq (s' + s)) at 1 by lra. rewrite <- Rabs_mult, Hfac. exact Hdd. }
        assert (Rabs (s' - s) * s <= Rabs (s' - s) * (s' + s)) by (apply Rmult_le_compat_l; [apply Rabs_pos|lra]).
        assert (Rabs (s' - s) * s <= (e * s) * s) by (rewrite Rmult_assoc, Hsq; lra).
        apply (Rmult_le_reg_r s); [exact Hsp|assumption]. }
  assert (Hs'le : s' <= s + e * s).
  { pose proof (Rle_abs (s' - s)). lra. }
  replace (r - s) with ((r - s') + (s' - s)) by ring.
  eapply Rle_trans; [apply Rabs_triang|].
  assert (u * s' <= u * (s + e * s)) by (apply Rmult_le_compat_l; assumption).
  replace (((1 + e) * (1 + u) - 1) * s) with (u * (s + e * s) + e * s) by ring. lra.
Qed.

(** a finite square root has a finite argument and is the rounded exact square root *)
Lemma fsqrt_finite (x : pfloat) :
  finite (PrimFloat.sqrt x) -> finite x /\ B2Rf (PrimFloat.sqrt x) = rnd64 (R_sqrt.sqrt (B2Rf x)).
Proof.
  unfold finite, B2Rf. rewrite sqrt_equiv. intros H.
  destruct (Bsqrt_correct prec emax _ _ mode_NE (Prim2B x)) as (HR & HF & _).
  split; [|exact HR]. rewrite H in HF.
  destruct (Prim2B x) as [s|s| |[|] m e Hb]; try discriminate HF; reflexivity.
Qed.

(** a nonzero double is at least 2^-1074 in magnitude, hence its square root does not underflow *)
Lemma sqrt_no_underflow (x : pfloat) : finite x -> no_underflow (R_sqrt.sqrt (B2Rf x)).
Proof.
  intros Hf. unfold no_underflow, B2Rf.
  destruct (Req_dec (B2R (Prim2B x)) 0) as [H0|H0]; [left; rewrite H0; apply sqrt_0|].
  destruct (Rle_dec (B2R (Prim2B x)) 0) as [Hn|Hp]; [left; apply sqrt_neg_0; exact Hn|].
  right. pose proof (abs_B2R_ge_emin prec emax (Prim2B x) (is_finite_strict_B2R _ _ _ H0)) as Hge.
  rewrite Rabs_pos_eq in Hge by lra. rewrite Rabs_pos_eq by apply sqrt_pos.
  apply Rle_trans with (R_sqrt.sqrt (bpow radix2 (SpecFloat.emin prec emax))); [|apply sqrt_le_1_alt; exact Hge].
  change (SpecFloat.emin prec emax) with (2 * (-537))%Z. rewrite sqrt_bpow.
  unfold tiny. apply bpow_le. lia.
Qed.

Lemma Rsum_abs_squares (l : list R) : Rsum (map Rabs (map2 Rmult l l)) = Rdot l l.
Proof.
  unfold Rdot. induction l as [|a l IH]; [reflexivity|].
  cbn [map2 map]. rewrite !Rsum_cons, IH. f_equal. apply Rabs_pos_eq. nra.
Qed.
Lemma Rdot_self_nonneg (l : list R) : 0 <= Rdot l l.
Proof.
  unfold Rdot. induction l as [|a l IH]; [cbn; lra|]. cbn [map2]. rewrite Rsum_cons. nra.
Qed.
Lemma Forall_Forall2_diag {A} (P : A -> A -> Prop) (l : list A) : Forall (fun a => P a a) l -> Forall2 P l l.
Proof. induction 1; constructor; auto. Qed.

Theorem norm_F_error (tbl : libm_table) (x : list pfloat) :
  finite (Reduce.norm (FO tbl) x) ->
  Forall (fun a => no_underflow (B2Rf a * B2Rf a)) x ->
  Rabs (B2Rf (Reduce.norm (FO tbl) x) - R_sqrt.sqrt (Rdot (map B2Rf x) (map B2Rf x)))
  <= ((1 + / 2 ^ 53) ^ S (S (length x)) - 1) * R_sqrt.sqrt (Rdot (map B2Rf x) (map B2Rf x)).
Proof.
  intros Hf Hnu. unfold Reduce.norm in *. cbn [sqrt FO] in *.
  destruct (fsqrt_finite _ Hf) as (Hfd & ->).
  pose proof (dot_F_error tbl x x eq_refl Hfd (Forall_Forall2_diag _ _ Hnu)) as Hd.
  rewrite Rsum_abs_squares in Hd.
  set (d := Rdot (map B2Rf x) (map B2Rf x)) in *. set (d' := B2Rf (dot_raw (FO tbl) x x)) in *.
  rewrite <- u64_val in *.
  set (e := (1 + u64) ^ S (length x) - 1) in *.
  replace ((1 + u64) ^ S (S (length x)) - 1) with ((1 + e) * (1 + u64) - 1) by (unfold e; simpl; ring).
  apply (sqrt_perturbed d d' e u64).
  - apply Rdot_self_nonneg.
  - unfold e. apply (E_nonneg u64 u64_nonneg).
  - apply u64_nonneg.
  - exact Hd.
  - pose proof (rnd64_rel _ (sqrt_no_underflow _ Hfd)) as Hr. fold d' in Hr.
    rewrite (Rabs_pos_eq (R_sqrt.sqrt d')) in Hr by apply sqrt_pos. exact Hr.
Qed.

(** ** prod *)
Section ProdModel.
  Variable u : R.
  Hypothesis Hu : 0 <= u.
  Variable rnd : R -> R.
  Definition rmul (p a : R) : R := rnd (p * a).
  (** every multiplication of the chain commits a relative error of at most [u] *)
  Fixpoint chain_ok (acc : R) (l : list R) : Prop :=
    match l with
    | [] => True
    | a :: l' => Rabs (rnd (acc * a) - acc * a) <= u * Rabs (acc * a) /\ chain_ok (rnd (acc * a)) l'
    end.
  Lemma fold_mul_err (l : list R) : forall (acc acc' : R) (k : nat),
    Rabs (acc' - acc) <= E u k * Rabs acc -> chain_ok acc' l ->
    Rabs (fold_left rmul l acc' - acc * Rprod l) <= E u (k + length l) * Rabs (acc * Rprod l).
  Proof.
    induction l as [|a l IH]; intros acc acc' k Ha Hc.
    - cbn [fold_left length Rprod fold_right]. rewrite Nat.add_0_r, Rmult_1_r. exact Ha.
    - destruct Hc as [Hr Hc]. cbn [fold_left length].
      replace (k + S (length l))%nat with (S k + length l)%nat by lia.
      change (Rprod (a :: l)) with (a * Rprod l). rewrite <- Rmult_assoc.
      apply IH; [|exact Hc]. unfold rmul.
      pose proof (E_nonneg u Hu k) as Ek. rewrite E_S.
      assert (H1 : Rabs (acc' * a - acc * a) <= E u k * Rabs (acc * a)).
      { replace (acc' * a - acc * a) with ((acc' - acc) * a) by ring. rewrite !Rabs_mult.
        rewrite <- Rmult_assoc. apply Rmult_le_compat_r; [apply Rabs_pos|exact Ha]. }
      assert (H2 : Rabs (acc' * a) <= Rabs (acc * a) + E u k * Rabs (acc * a)).
      { replace (acc' * a) with (acc * a + (acc' * a - acc * a)) at 1 by ring.
        eapply Rle_trans; [apply Rabs_triang|]. lra. }
      replace (rnd (acc' * a) - acc * a) with ((rnd (acc' * a) - acc' * a) + (acc' * a - acc * a)) by ring.
      eapply Rle_trans; [apply Rabs_triang|].
      assert (u * Rabs (acc' * a) <= u * (Rabs (acc * a) + E u k * Rabs (acc * a))) by (apply Rmult_le_compat_l; assumption).
      pose proof (Rabs_pos (acc * a)). nra.
  Qed.
End ProdModel.

(** no partial product underflows: at every step the exact product of the computed accumulator and the next element is
    zero or at least 2^-1022 in magnitude *)
Fixpoint prod_no_underflow (acc : pfloat) (l : list pfloat) : Prop :=
  match l with
  | [] => True
  | a :: l' => (B2Rf acc * B2Rf a = 0 \/ / 2 ^ 1022 <= Rabs (B2Rf acc * B2Rf a)) /\ prod_no_underflow (acc * a)%float l'
  end.

Lemma fold_mul_sim (tbl : libm_table) (l : list pfloat) : forall s,
  finite (fold_left (mul (FO tbl)) l s) -> prod_no_underflow s l ->
  B2Rf (fold_left (mul (FO tbl)) l s) = fold_left (rmul rnd64) (map B2Rf l) (B2Rf s) /\
  chain_ok u64 rnd64 (B2Rf s) (map B2Rf l).
Proof.
  induction l as [|a l IH]; intros s Hf Hnu; cbn [fold_left map chain_ok] in *; [auto|].
  destruct Hnu as [Hn Hnu]. destruct (IH _ Hf Hnu) as [He Hc].
  assert (Hfs : finite (mul (FO tbl) s a)).
  { clear - Hf. revert Hf. generalize (mul (FO tbl) s a). induction l as [|b l IHl]; intros p Hp; cbn [fold_left] in Hp; [exact Hp|].
    apply IHl in Hp. cbn [mul FO] in Hp. destruct (fmul_finite _ _ Hp) as (H & _). exact H. }
  cbn [mul FO] in *. destruct (fmul_finite _ _ Hfs) as (_ & _ & Hm).
  rewrite Hm in He, Hc. unfold rmul at 2. split; [exact He|]. split; [|exact Hc].
  apply rnd64_rel. apply no_underflow_explicit. exact Hn.
Qed.

Lemma B2Rf_one : B2Rf 1%float = 1.
Proof.
  rewrite B2Rf_SF. let a := eval vm_compute in (Prim2SF 1%float) in change (Prim2SF 1%float) with a.
  unfold SF2R, F2R. cbn [Fnum Fexp cond_Zopp]. unfold bpow.
  let v := eval vm_compute in (Z.pow_pos radix2 52) in change (Z.pow_pos radix2 52) with v. field.
Qed.

Theorem prod_F_error (tbl : libm_table) (x : list pfloat) :
  finite (Reduce.prod (FO tbl) x) ->
  prod_no_underflow 1%float x ->
  Rabs (B2Rf (Reduce.prod (FO tbl) x) - Rprod (map B2Rf x))
  <= ((1 + / 2 ^ 53) ^ length x - 1) * Rabs (Rprod (map B2Rf x)).
Proof.
  intros Hf Hnu. unfold Reduce.prod in *. cbn [one FO] in *.
  destruct (fold_mul_sim tbl x _ Hf Hnu) as [-> Hc]. rewrite B2Rf_one in *.
  rewrite <- u64_val, <- (map_length B2Rf x).
  pose proof (fold_mul_err u64 u64_nonneg rnd64 (map B2Rf x) 1 1 0) as H.
  rewrite Rmult_1_l, Nat.add_0_l in H. apply H; [|exact Hc].
  unfold E. replace (1 - 1) with 0 by ring. rewrite Rabs_R0. simpl. lra.
Qed.

(** the statements with the no-underflow conditions written out *)
Theorem norm_F_error_explicit (tbl : libm_table) (x : list pfloat) :
  finite (Reduce.norm (FO tbl) x) ->
  Forall (fun a => B2Rf a * B2Rf a = 0 \/ / 2 ^ 1022 <= Rabs (B2Rf a * B2Rf a)) x ->
  Rabs (B2Rf (Reduce.norm (FO tbl) x) - R_sqrt.sqrt (Rsum (map (fun a => a * a) (map B2Rf x))))
  <= ((1 + / 2 ^ 53) ^ S (S (length x)) - 1) * R_sqrt.sqrt (Rsum (map (fun a => a * a) (map B2Rf x))).
Proof.
  intros Hf Hnu. rewrite <- Rdot_self. apply norm_F_error; [exact Hf|].
  revert Hnu. apply Forall_impl. intros a. apply no_underflow_explicit.
Qed.

(** ** a sufficient condition on COMPUTED values: a product whose computed value is finite and strictly above the
    smallest normal number in magnitude did not underflow *)
Lemma computed_normal_no_underflow (a b : pfloat) :
  finite (a * b)%float -> / 2 ^ 1022 < Rabs (B2Rf (a * b)%float) ->
  B2Rf a * B2Rf b = 0 \/ / 2 ^ 1022 <= Rabs (B2Rf a * B2Rf b).
Proof.
  intros Hf Hn. right. destruct (fmul_finite a b Hf) as (_ & _ & Hm). rewrite Hm in Hn.
  rewrite <- tiny_val in *.
  destruct (Rle_dec tiny (Rabs (B2Rf a * B2Rf b))) as [H|H]; [exact H|exfalso].
  assert (Hle : Rabs (rnd64 (B2Rf a * B2Rf b)) <= tiny).
  { unfold rnd64. apply abs_round_le_generic.
    - apply FLT_exp_valid. reflexivity.
    - apply valid_rnd_N.
    - unfold tiny. apply generic_format_FLT_bpow; [reflexivity|lia].
    - lra. }
  lra.
Qed.
