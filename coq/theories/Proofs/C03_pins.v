(** Statement-shaped corollaries for Properties/C03.v (the pinned statements are proved here, from the lemmas of the other proof files). *)
From Coq Require Import Reals List ZArith NArith Lra Lia.
From Compute Require Import Base.Ops Base.ListMat Base.Rng Model.MatMul Model.Samplers Spec.Samplers Proofs.C03 Proofs.C03_discrete.
Import ListNotations.
Open Scope R_scope.

Lemma exponential_inverse_cdf_pin :
  forall (S : Type) (src : source S R) (fuel : nat) (lambda : R) (s : S),
    0 < lambda -> 0 < fst (next_f64 src s) < 1 ->
    exists x, exponential_sample RO src (Datatypes.S fuel) lambda s = Ok (x, snd (next_f64 src s)) /\
              exponential_cdf lambda x = 1 - fst (next_f64 src s) /\ 0 < x.
Proof.
  intros S src fuel lambda s Hl Hu. eexists. split; [apply exponential_sample_R; apply Hu|].
  apply exponential_quantile_cdf; assumption.
Qed.

Lemma exponential_monotone_pin :
  forall (S : Type) (src : source S R) (fuel : nat) (lambda : R) (s1 s2 : S) (x1 x2 : R) (t1 t2 : S),
    0 < lambda -> 0 < fst (next_f64 src s1) -> fst (next_f64 src s1) < fst (next_f64 src s2) ->
    exponential_sample RO src (Datatypes.S fuel) lambda s1 = Ok (x1, t1) ->
    exponential_sample RO src (Datatypes.S fuel) lambda s2 = Ok (x2, t2) -> x2 < x1.
Proof.
  intros S src fuel lambda s1 s2 x1 x2 t1 t2 Hl H0 H E1 E2.
  rewrite exponential_sample_R in E1 by assumption. rewrite exponential_sample_R in E2 by (eapply Rlt_trans; eassumption).
  inversion E1; inversion E2; subst. apply exponential_quantile_decreasing; assumption.
Qed.

Lemma gumbel_inverse_cdf_pin :
  forall (S : Type) (src : source S R) (fuel : nat) (mu beta : R) (s : S),
    0 < beta -> 0 < fst (next_f64 src s) < 1 ->
    exists x, gumbel_sample RO src (Datatypes.S fuel) mu beta s = Ok (x, snd (next_f64 src s)) /\
              gumbel_cdf mu beta x = fst (next_f64 src s).
Proof.
  intros S src fuel mu beta s Hb Hu. eexists. split; [apply gumbel_sample_R; apply Hu|].
  apply gumbel_quantile_cdf; assumption.
Qed.

Lemma gumbel_monotone_pin :
  forall (S : Type) (src : source S R) (fuel : nat) (mu beta : R) (s1 s2 : S) (x1 x2 : R) (t1 t2 : S),
    0 < beta -> 0 < fst (next_f64 src s1) -> fst (next_f64 src s1) < fst (next_f64 src s2) -> fst (next_f64 src s2) < 1 ->
    gumbel_sample RO src (Datatypes.S fuel) mu beta s1 = Ok (x1, t1) ->
    gumbel_sample RO src (Datatypes.S fuel) mu beta s2 = Ok (x2, t2) -> x1 < x2.
Proof.
  intros S src fuel mu beta s1 s2 x1 x2 t1 t2 Hb H0 H H1 E1 E2.
  rewrite gumbel_sample_R in E1 by assumption. rewrite gumbel_sample_R in E2 by (eapply Rlt_trans; eassumption).
  inversion E1; inversion E2; subst. apply gumbel_quantile_increasing; assumption.
Qed.

Lemma pareto_inverse_cdf_pin :
  forall (S : Type) (src : source S R) (fuel : nat) (alpha m : R) (s : S),
    0 < alpha -> 0 < m -> 0 < fst (next_f64 src s) < 1 ->
    exists x, pareto_sample RO src (Datatypes.S fuel) alpha m s = Ok (x, snd (next_f64 src s)) /\
              pareto_cdf alpha m x = 1 - fst (next_f64 src s) /\ m < x.
Proof.
  intros S src fuel alpha m s Ha Hm Hu. eexists. split; [apply pareto_sample_R; apply Hu|].
  apply pareto_quantile_cdf; assumption.
Qed.

Lemma pareto_monotone_pin :
  forall (S : Type) (src : source S R) (fuel : nat) (alpha m : R) (s1 s2 : S) (x1 x2 : R) (t1 t2 : S),
    0 < alpha -> 0 < m -> 0 < fst (next_f64 src s1) -> fst (next_f64 src s1) < fst (next_f64 src s2) ->
    pareto_sample RO src (Datatypes.S fuel) alpha m s1 = Ok (x1, t1) ->
    pareto_sample RO src (Datatypes.S fuel) alpha m s2 = Ok (x2, t2) -> x2 < x1.
Proof.
  intros S src fuel alpha m s1 s2 x1 x2 t1 t2 Ha Hm H0 H E1 E2.
  rewrite pareto_sample_R in E1 by assumption. rewrite pareto_sample_R in E2 by (eapply Rlt_trans; eassumption).
  inversion E1; inversion E2; subst. apply pareto_quantile_decreasing; assumption.
Qed.

Lemma bernoulli_degenerate_pin :
  forall (S : Type) (src : source S R) (s : S),
    bernoulli_sample RO src 1 s = (1, s) /\ bernoulli_sample RO src 0 s = (0, s).
Proof. intros S src s. split; [apply (bernoulli_spec src 1 s)|apply (bernoulli_spec src 0 s)]; reflexivity. Qed.

Lemma gamma_mt_positive_pin :
  forall (S : Type) (src : source S R) (fuel : nat) (alpha beta : R) (s : S) (g : R) (s' : S),
    1 <= alpha -> 0 < beta -> gamma_sample RO src fuel alpha beta s = Ok (g, s') -> 0 < g.
Proof. intros S src fuel alpha beta s g s' Ha. apply gamma_sample_pos. lra. Qed.
