(** * Tie A for C19: the hand-written models of the resampling functions ARE the source.
    [Generated/resample_loops.v] is produced on every run by tools/tiea/resample_loops.py (statement-level translator
    [LoopTranslator] of tools/rsexpr.py) from src/validation/resample.rs.  The random draws are an abstract source: the
    generated functions take [sample_ : Z * Z -> St_ -> option (T * St_)] ([DiscreteUniform::sample] of the object
    [(lower, upper)] on the generator state; [None] = the draw does not return) and thread the state through the statements;
    the models of [Model/Resample.v] take [draw : St -> option (nat * St)] = [randomizer.sample() as usize].  The theorems
    hold for EVERY [sample_], every state type and every element operations record.  No law of the carrier is used. *)
From Coq Require Import List ZArith Arith Bool Lia.
From Compute Require Import Base.Ops Base.ListMat Base.RsExpr Base.RsExprMut Base.RsExprMore Model.Resample
  Proofs.RsExprLemmas Generated.resample_loops.
Import ListNotations.

(** [n] passes of a loop body that ignores the loop variable *)
Fixpoint iter_opt {S : Type} (f : S -> option S) (k : nat) (s : S) : option S :=
  match k with 0 => Some s | Datatypes.S k' => match f s with Some s' => iter_opt f k' s' | None => None end end.
Lemma fold_ignore : forall {S X} (f : S -> option S) (xs : list X) (s : S),
  rs_fold_opt (fun s _ => f s) xs s = iter_opt f (length xs) s.
Proof. intros S X f xs. induction xs as [|x xs IH]; intro s; [reflexivity|]. cbn. destruct (f s); [apply IH|reflexivity]. Qed.
Lemma fold_ignore_ext : forall {S X} (f : S -> X -> option S) (g : S -> option S) (xs : list X) (s : S),
  (forall s x, f s x = g s) -> rs_fold_opt f xs s = iter_opt g (length xs) s.
Proof. intros S X f g xs s H. rewrite <- fold_ignore. apply rs_fold_opt_ext. intros. apply H. Qed.
Lemma range_len : forall k : nat, length (rs_range_excl 0 (Z.of_nat k)) = k.
Proof. intro k. unfold rs_range_excl. rewrite rs_seq_length. lia. Qed.

Section ResampleTie.
  Context {T : Type} (O : Ops T) {St : Type}.
  Variable sample_ : Z * Z -> St -> option (T * St).

  (** [randomizer.sample() as usize] (rule R4: [Z.max 0 (truncZ x)]; the model: [Z.to_nat (truncZ x)]) *)
  Definition draw_of (d : Z * Z) (s : St) : option (nat * St) :=
    let* (x, s') := sample_ d s in Some (as_usize O x, s').
  (** [sample_n(k)]: [k] successive [sample()] *)
  Fixpoint sample_n_of (d : Z * Z) (k : nat) (s : St) : option (list T * St) :=
    match k with
    | 0 => Some ([], s)
    | S k' => let* (x, s1) := sample_ d s in let* (l, s2) := sample_n_of d k' s1 in Some (x :: l, s2)
    end.
  Definition sample_n_z (d : Z * Z) (k : Z) (s : St) : option (list T * St) := sample_n_of d (Z.to_nat k) s.

  Lemma rs_get_max0 : forall {A} (l : list A) (x : Z), rs_get l (Z.max 0 x) = nth_error l (Z.to_nat x).
  Proof.
    intros A l x. unfold rs_get. destruct (Z.ltb_spec (Z.max 0 x) 0) as [H|H]; [lia|]. f_equal.
    destruct (Z.le_gt_cases 0 x); [now rewrite Z.max_r by lia|]. rewrite Z.max_l by lia. cbn [Z.to_nat]. now replace (Z.to_nat x) with 0 by lia.
  Qed.
  Lemma to_nat_max0 : forall x : Z, Z.to_nat (Z.max 0 x) = Z.to_nat x.
  Proof. intro x. destruct (Z.le_gt_cases 0 x); [now rewrite Z.max_r by lia|]. rewrite Z.max_l by lia. lia. Qed.
  Lemma rs_swap_max0 : forall {A} (l : list A) (a b : Z),
    rs_swap l (Z.max 0 a) (Z.max 0 b) = swap_opt l (Z.to_nat a) (Z.to_nat b).
  Proof.
    intros A l a b. unfold rs_swap, swap_opt. rewrite !rs_get_max0, !to_nat_max0.
    destruct (nth_error l (Z.to_nat a)); cbn [bind]; [|reflexivity]. destruct (nth_error l (Z.to_nat b)); reflexivity.
  Qed.

  Lemma du_new_nonempty : forall n : nat, n <> 0 -> du_new 0 (Z.of_nat n - 1) = Some (0%Z, (Z.of_nat n - 1)%Z).
  Proof. intros n H. unfold du_new. destruct (Z.ltb_spec (Z.of_nat n - 1) 0); [lia|reflexivity]. Qed.
  Lemma as_i64_small : forall x : Z, (0 <= x <= 9223372036854775807)%Z -> rs_as_i64 x = x.
  Proof. intros x H. unfold rs_as_i64. destruct (Z.ltb_spec x 9223372036854775808); [reflexivity|lia]. Qed.

  (** ** shuffle *)
  Lemma shuffle_loop_src : forall (d : Z * Z) (k : nat) (l : list T) (s : St),
    iter_opt (fun '(rng_, shuf) => let* (d2, rng_) := sample_ d rng_ in let* (d3, rng_) := sample_ d rng_ in
                let* l4 := rs_swap shuf (Z.max 0 (truncZ O d2)) (Z.max 0 (truncZ O d3)) in Some (rng_, l4)) k (s, l)
    = option_map (fun '(l', s') => (s', l')) (shuffle_loop (draw_of d) k l s).
  Proof.
    intros d k. induction k as [|k IH]; intros l s; [reflexivity|]. cbn [iter_opt shuffle_loop]. unfold draw_of at 1 2.
    destruct (sample_ d s) as [[x s1]|]; cbn [bind]; [|reflexivity].
    destruct (sample_ d s1) as [[y s2]|]; cbn [bind]; [|reflexivity].
    rewrite rs_swap_max0. unfold as_usize. destruct (swap_opt l (Z.to_nat (truncZ O x)) (Z.to_nat (truncZ O y))) as [l'|]; cbn [bind]; [|reflexivity].
    apply IH.
  Qed.

  Theorem tiea_shuffle : forall (data : list T) (s : St), (Z.of_nat (length data) <= 9223372036854775807)%Z ->
    src_shuffle O du_new sample_ data s = shuffle (draw_of (0, Z.of_nat (length data) - 1)%Z) data s.
  Proof.
    intros data s Hlen. unfold src_shuffle, shuffle, rs_len. cbv beta iota zeta. rewrite as_i64_small by lia.
    destruct data as [|x0 data']; [reflexivity|]. set (data := x0 :: data') in *.
    assert (Hn : length data <> 0) by (unfold data; cbn [length]; lia).
    rewrite du_new_nonempty by exact Hn. cbn [bind].
    replace (negb (length data =? 0)) with true by (symmetry; apply negb_true_iff, Nat.eqb_neq; exact Hn). cbn [guard bind].
    change 2%Z with (Z.of_nat 2). rewrite <- Nat2Z.inj_mul.
    rewrite (fold_ignore_ext _ (fun '(rng_, shuf) => let* (d2, rng_) := sample_ (0, Z.of_nat (length data) - 1)%Z rng_ in
              let* (d3, rng_) := sample_ (0, Z.of_nat (length data) - 1)%Z rng_ in
              let* l4 := rs_swap shuf (Z.max 0 (truncZ O d2)) (Z.max 0 (truncZ O d3)) in Some (rng_, l4))) by (intros [r l] x; reflexivity).
    rewrite range_len, shuffle_loop_src.
    destruct (shuffle_loop (draw_of (0, Z.of_nat (length data) - 1)%Z) (length data * 2) data s) as [[l' s']|]; reflexivity.
  Qed.

  (** ** shuffle_two *)
  Lemma shuffle_two_loop_src : forall (d : Z * Z) (k : nat) (l1 l2 : list T) (s : St),
    iter_opt (fun '(rng_, shuf1, shuf2) => let* (d2, rng_) := sample_ d rng_ in let* (d3, rng_) := sample_ d rng_ in
                let* l4 := rs_swap shuf1 (Z.max 0 (truncZ O d2)) (Z.max 0 (truncZ O d3)) in
                let* l5 := rs_swap shuf2 (Z.max 0 (truncZ O d2)) (Z.max 0 (truncZ O d3)) in Some (rng_, l4, l5)) k (s, l1, l2)
    = option_map (fun '(l1', l2', s') => (s', l1', l2')) (shuffle_two_loop (draw_of d) k l1 l2 s).
  Proof.
    intros d k. induction k as [|k IH]; intros l1 l2 s; [reflexivity|]. cbn [iter_opt shuffle_two_loop]. unfold draw_of at 1 2.
    destruct (sample_ d s) as [[x s1]|]; cbn [bind]; [|reflexivity].
    destruct (sample_ d s1) as [[y s2]|]; cbn [bind]; [|reflexivity].
    rewrite !rs_swap_max0. unfold as_usize.
    destruct (swap_opt l1 (Z.to_nat (truncZ O x)) (Z.to_nat (truncZ O y))) as [l1'|]; cbn [bind]; [|reflexivity].
    destruct (swap_opt l2 (Z.to_nat (truncZ O x)) (Z.to_nat (truncZ O y))) as [l2'|]; cbn [bind]; [|reflexivity].
    apply IH.
  Qed.

  Theorem tiea_shuffle_two : forall (arr1 arr2 : list T) (s : St), (Z.of_nat (length arr1) <= 9223372036854775807)%Z ->
    src_shuffle_two O du_new sample_ arr1 arr2 s = shuffle_two (draw_of (0, Z.of_nat (length arr1) - 1)%Z) arr1 arr2 s.
  Proof.
    intros arr1 arr2 s Hlen. unfold src_shuffle_two, shuffle_two, rs_len. cbv beta iota zeta. rewrite Zeqb_of_nat.
    destruct (length arr1 =? length arr2); cbn [guard bind]; [|reflexivity]. rewrite as_i64_small by lia.
    destruct arr1 as [|x0 arr1']; [reflexivity|]. set (arr1 := x0 :: arr1') in *.
    assert (Hn : length arr1 <> 0) by (unfold arr1; cbn [length]; lia).
    rewrite du_new_nonempty by exact Hn. cbn [bind].
    replace (negb (length arr1 =? 0)) with true by (symmetry; apply negb_true_iff, Nat.eqb_neq; exact Hn). cbn [guard bind].
    change 2%Z with (Z.of_nat 2). rewrite <- Nat2Z.inj_mul.
    rewrite (fold_ignore_ext _ (fun '(rng_, shuf1, shuf2) => let* (d2, rng_) := sample_ (0, Z.of_nat (length arr1) - 1)%Z rng_ in
              let* (d3, rng_) := sample_ (0, Z.of_nat (length arr1) - 1)%Z rng_ in
              let* l4 := rs_swap shuf1 (Z.max 0 (truncZ O d2)) (Z.max 0 (truncZ O d3)) in
              let* l5 := rs_swap shuf2 (Z.max 0 (truncZ O d2)) (Z.max 0 (truncZ O d3)) in Some (rng_, l4, l5))) by (intros [[r l1] l2] x; reflexivity).
    rewrite range_len, shuffle_two_loop_src.
    destruct (shuffle_two_loop (draw_of (0, Z.of_nat (length arr1) - 1)%Z) (length arr1 * 2) arr1 arr2 s) as [[[l1' l2'] s']|]; reflexivity.
  Qed.

  (** ** bootstrap: [sample_n(len)] is [len] successive draws; the gathered resamples are appended in order *)
  Lemma gather_src : forall (data : list T) (xs : list T),
    rs_map_opt (fun i => let* g3 := rs_get data (Z.max 0 (truncZ O i)) in Some g3) xs = gather data (map (as_usize O) xs).
  Proof.
    intros data xs. unfold gather. induction xs as [|x xs IH]; [reflexivity|]. cbn [rs_map_opt map mapM].
    rewrite rs_get_max0. unfold as_usize at 1. destruct (nth_error data (Z.to_nat (truncZ O x))); cbn [bind]; [|reflexivity].
    rewrite IH. destruct (mapM (nth_error data) (map (as_usize O) xs)); reflexivity.
  Qed.
  Lemma draws_sample_n : forall (d : Z * Z) (k : nat) (s : St),
    draws (draw_of d) k s = option_map (fun '(xs, s') => (map (as_usize O) xs, s')) (sample_n_of d k s).
  Proof.
    intros d k. induction k as [|k IH]; intro s; [reflexivity|]. cbn [draws sample_n_of]. unfold draw_of at 1.
    destruct (sample_ d s) as [[x s1]|]; cbn [bind]; [|reflexivity]. rewrite IH.
    destruct (sample_n_of d k s1) as [[xs s2]|]; reflexivity.
  Qed.
  Lemma bootstrap_loop_src : forall (d : Z * Z) (data : list T) (k : nat) (acc : list (list T)) (s : St),
    iter_opt (fun '(rng_, resamples) => let* (d2, rng_) := sample_n_z d (Z.of_nat (length data)) rng_ in
                let* l4 := rs_map_opt (fun i => let* g3 := rs_get data (Z.max 0 (truncZ O i)) in Some g3) d2 in
                Some (rng_, resamples ++ [l4])) k (s, acc)
    = option_map (fun '(rs, s') => (s', acc ++ rs)) (bootstrap_loop (draw_of d) data k s).
  Proof.
    intros d data k. induction k as [|k IH]; intros acc s; [cbn; now rewrite app_nil_r|]. cbn [iter_opt bootstrap_loop].
    unfold sample_n_z at 1. rewrite Nat2Z.id, draws_sample_n.
    destruct (sample_n_of d (length data) s) as [[xs s1]|]; cbn [option_map bind]; [|reflexivity].
    rewrite gather_src. destruct (gather data (map (as_usize O) xs)) as [r|]; cbn [bind]; [|reflexivity].
    rewrite IH. destruct (bootstrap_loop (draw_of d) data k s1) as [[rest s2]|]; cbn [option_map bind]; [|reflexivity].
    now rewrite <- app_assoc.
  Qed.

  Theorem tiea_bootstrap : forall (data : list T) (nb : nat) (s : St), (Z.of_nat (length data) <= 9223372036854775808)%Z ->
    src_bootstrap O du_new sample_n_z data (Z.of_nat nb) s = bootstrap (draw_of (0, Z.of_nat (length data) - 1)%Z) data nb s.
  Proof.
    intros data nb s Hlen. unfold src_bootstrap, bootstrap, rs_len. cbv beta iota zeta.
    destruct data as [|x0 data']; [reflexivity|]. set (data := x0 :: data') in *.
    assert (Hn : length data <> 0) by (unfold data; cbn [length]; lia).
    rewrite rs_usub_le by lia. rewrite as_i64_small by lia.
    rewrite du_new_nonempty by exact Hn. cbn [bind].
    replace (negb (length data =? 0)) with true by (symmetry; apply negb_true_iff, Nat.eqb_neq; exact Hn). cbn [guard bind].
    rewrite (fold_ignore_ext _ (fun '(rng_, resamples) => let* (d2, rng_) := sample_n_z (0, Z.of_nat (length data) - 1)%Z (Z.of_nat (length data)) rng_ in
                let* l4 := rs_map_opt (fun i => let* g3 := rs_get data (Z.max 0 (truncZ O i)) in Some g3) d2 in
                Some (rng_, resamples ++ [l4]))) by (intros [r l] x; reflexivity).
    rewrite range_len, bootstrap_loop_src.
    destruct (bootstrap_loop (draw_of (0, Z.of_nat (length data) - 1)%Z) data nb s) as [[rs s']|]; reflexivity.
  Qed.
End ResampleTie.

(** ** jackknife (no random draw): [split_at(i)], [split_first().unwrap()], [front.to_vec()] extended by [rest] *)
Lemma fold_append_mapM : forall {A B} (f : A -> option B) (xs : list A) (acc : list B),
  rs_fold_opt (fun acc x => let* v := f x in Some (acc ++ [v])) xs acc = option_map (fun r => acc ++ r) (mapM f xs).
Proof.
  intros A B f xs. induction xs as [|x xs IH]; intro acc; [cbn; now rewrite app_nil_r|]. cbn [rs_fold_opt mapM].
  destruct (f x) as [v|]; cbn [bind]; [|reflexivity]. rewrite IH. destruct (mapM f xs); cbn [option_map bind]; [|reflexivity].
  now rewrite <- app_assoc.
Qed.
Theorem tiea_jackknife : forall {T} (O : Ops T) (data : list T), src_jackknife O data = jackknife data.
Proof.
  intros T O data. unfold src_jackknife, jackknife. cbv beta iota zeta. rewrite rs_range_excl_0_len, rs_seq_map.
  set (F := fun i : nat => let front := firstn i data in let back := skipn i data in let* (_, rest) := split_first back in Some (front ++ rest)).
  assert (G : forall (l : list nat) (acc : list (list T)), (forall i, In i l -> i <= length data) ->
    rs_fold_opt (fun resamples i => let* p1 := rs_split_at data i in let '(front, back) := p1 in let* u2 := rs_split_first back in
                   let '(_, rest) := u2 in Some (resamples ++ [front ++ rest])) (map (fun k : nat => (0 + Z.of_nat k)%Z) l) acc
    = rs_fold_opt (fun acc i => let* v := F i in Some (acc ++ [v])) l acc).
  { induction l as [|i l IH]; intros acc Hin; [reflexivity|].
    cbn [map rs_fold_opt]. rewrite Z.add_0_l. unfold rs_split_at, rs_len.
    replace ((0 <=? Z.of_nat i) && (Z.of_nat i <=? Z.of_nat (length data)))%Z with true
      by (symmetry; apply andb_true_iff; split; apply Z.leb_le; [lia|specialize (Hin i (or_introl eq_refl)); lia]).
    cbn [bind]. rewrite Nat2Z.id. unfold F at 1. cbv zeta. unfold rs_split_first, split_first.
    destruct (skipn i data) as [|b rest]; cbn [bind]; [reflexivity|]. apply IH. intros j Hj. apply Hin. now right. }
  transitivity (let* r := rs_fold_opt (fun acc i => let* v := F i in Some (acc ++ [v])) (seq 0 (length data)) [] in Some r).
  - rewrite <- G by (intros i Hi; apply in_seq in Hi; lia). reflexivity.
  - rewrite fold_append_mapM. destruct (mapM F (seq 0 (length data))); reflexivity.
Qed.

(** ** the abstract source instantiated by the executable model of [DiscreteUniform::sample] on the [alea] generator
    ([Model/Resample.v], [Base/Rng.v]): the generated functions are the [*_rng] functions the correspondence runs *)
From Coq Require Import FunctionalExtensionality.
From Compute Require Import Base.Rng.
Section Concrete.
  Context {T : Type} (O : Ops T) (fuel : nat).
  Definition sample_rng (d : Z * Z) (s : rng) : option (T * rng) := res_opt (du_sample O fuel d s).
  Lemma draw_of_rng : forall d, draw_of O sample_rng d = du_draw O fuel d.
  Proof.
    intro d. apply functional_extensionality. intro s. unfold draw_of, sample_rng, du_draw.
    destruct (du_sample O fuel d s) as [[x s']| |]; reflexivity.
  Qed.
  Theorem tiea_shuffle_rng : forall (data : list T) (s : rng), (Z.of_nat (length data) <= 9223372036854775807)%Z ->
    src_shuffle O du_new sample_rng data s = shuffle_rng O fuel data s.
  Proof. intros data s H. rewrite tiea_shuffle by exact H. unfold shuffle_rng, randomizer. now rewrite draw_of_rng. Qed.
  Theorem tiea_shuffle_two_rng : forall (a b : list T) (s : rng), (Z.of_nat (length a) <= 9223372036854775807)%Z ->
    src_shuffle_two O du_new sample_rng a b s = shuffle_two_rng O fuel a b s.
  Proof. intros a b s H. rewrite tiea_shuffle_two by exact H. unfold shuffle_two_rng, randomizer. now rewrite draw_of_rng. Qed.
  Theorem tiea_bootstrap_rng : forall (data : list T) (nb : nat) (s : rng), (Z.of_nat (length data) <= 9223372036854775808)%Z ->
    src_bootstrap O du_new (sample_n_z sample_rng) data (Z.of_nat nb) s = bootstrap_rng O fuel data nb s.
  Proof. intros data nb s H. rewrite tiea_bootstrap by exact H. unfold bootstrap_rng, randomizer. now rewrite draw_of_rng. Qed.
End Concrete.
