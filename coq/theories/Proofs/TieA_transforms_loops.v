(** * Tie A for C17: the hand-written model of [softmax] ([Model/Transforms.v]) IS the source.
    [Generated/transforms_loops.v] is produced on every run by tools/tiea/transforms_loops.py (statement-level translator
    [LoopTranslator] of tools/rsexpr.py) from src/functions/statistical.rs.  The source seeds its maximum fold with
    [f64::NEG_INFINITY]; the model writes "nothing seen yet" ([None]) for that seed so that the running maximum also means
    something on the reals.  The two agree on every carrier on which -inf is neutral for [f64::max]
    ([fmax (-inf) v = v] for every non-NaN [v], and [-inf] for a NaN [v]) - the hypothesis [ninf_neutral] below, which
    binary64 satisfies ([ninf_neutral_FO], via Flocq's semantics of the primitive floats) and the reals do not (there
    [1/0] is an ordinary number).  Everything after the shift (exponentials, denominator folded from -0.0, quotients) is
    the same term on every carrier. *)
From Coq Require Import List ZArith Reals Bool Floats Lra Lia.
From Flocq Require Import Core.Raux Core.Zaux IEEE754.BinarySingleNaN IEEE754.PrimFloat.
From Compute Require Import Base.Ops Base.ListMat Base.RsExpr Model.Transforms Generated.transforms_loops.
Import ListNotations.

Definition ninf_neutral {T : Type} (O : Ops T) : Prop :=
  forall v : T, fmax O (rs_f64_neg_infinity O) v = if is_nan O v then rs_f64_neg_infinity O else v.

Section TieA.
  Context {T : Type} (O : Ops T).
  Hypothesis Hn : ninf_neutral O.

  Lemma max_fold_some : forall (x : list T) (m : T),
    fold_left (fmax O) x m = match fold_left (max_step O) x (Some m) with Some r => r | None => neg_inf O end.
  Proof. induction x as [|v x IH]; intro m; [reflexivity|]. cbn [fold_left max_step]. apply IH. Qed.
  Lemma max_fold_src : forall x : list T, fold_left (fmax O) x (rs_f64_neg_infinity O) = softmax_shift O x.
  Proof.
    unfold softmax_shift, list_max. induction x as [|v x IH]; [reflexivity|].
    cbn [fold_left max_step]. rewrite Hn. destruct (is_nan O v); [exact IH|]. apply max_fold_some.
  Qed.
  Lemma tiea_softmax : forall x : list T, src_softmax O x = softmax O x.
  Proof.
    intro x. unfold src_softmax, softmax, softmax_denom, softmax_exps, softmax_args. cbv zeta.
    rewrite max_fold_src, !map_map. reflexivity.
  Qed.
End TieA.

(** binary64: -inf is neutral for [f64::max] (minNum/maxNum semantics of the model's [fmax]) *)
Lemma ninf_neutral_FO : forall t : libm_table, ninf_neutral (FO t).
Proof.
  intros t v. unfold ninf_neutral, fmax, is_nan, rs_f64_neg_infinity.
  cbn [eqb ltb neg div one zero FO].
  set (ninf := (- (1 / 0))%float).
  assert (En : PrimFloat.eqb ninf ninf = true) by reflexivity.
  rewrite En. cbn [negb].
  destruct (PrimFloat.eqb v v) eqn:Ev; cbn [negb]; [|reflexivity].
  rewrite ltb_equiv.
  assert (Pn : Prim2B ninf = B754_infinity true) by reflexivity.
  rewrite Pn. rewrite eqb_equiv in Ev.
  destruct (Prim2B v) as [s|s| |s m e He] eqn:Pv; try reflexivity.
  - destruct s; [|reflexivity].
    assert (v = ninf) by (apply Prim2B_inj; rewrite Pv, Pn; reflexivity). subst v. reflexivity.
  - discriminate.
Qed.
