(** * More characterising lemmas for the statement-level translator's combinators: loops that update ONE flat
    row-major list in place, window by window ([c[i * n + j] = ..] inside [for i], [for k], [for j]), seen as
    structural operations on the rows.  Used by the ties of the matrix products (C05) and of the routines built on
    them.  No carrier law is used anywhere: every statement is about lists, [nat] and [Z]. *)
From Coq Require Import List ZArith Arith Bool Lia.
From Compute Require Import Base.Ops Base.ListMat Base.RsExpr Base.RsExprMut Proofs.RsExprLemmas.
Import ListNotations.

Lemma rs_seq_of_nat : forall n a : nat, rs_seq (Z.of_nat a) n = map Z.of_nat (seq a n).
Proof.
  induction n as [|n IH]; intro a; [reflexivity|]. cbn [rs_seq seq map]. f_equal.
  replace (Z.of_nat a + 1)%Z with (Z.of_nat (S a)) by lia. apply IH.
Qed.
Lemma rs_range_excl_0_nat : forall m : nat, rs_range_excl 0 (Z.of_nat m) = map Z.of_nat (seq 0 m).
Proof. intro m. change 0%Z with (Z.of_nat 0). rewrite rs_range_excl_nat, Nat.sub_0_r. apply rs_seq_of_nat. Qed.
Lemma rs_range_excl_seq : forall a b : nat, rs_range_excl (Z.of_nat a) (Z.of_nat b) = map Z.of_nat (seq a (b - a)).
Proof. intros a b. rewrite rs_range_excl_nat. apply rs_seq_of_nat. Qed.

Lemma rs_get_mid : forall {A} (p q : list A) (x : A) (k : nat), length p = k -> rs_get (p ++ x :: q) (Z.of_nat k) = Some x.
Proof. intros A p q x k <-. rewrite rs_get_nat. rewrite nth_error_app2 by lia. now rewrite Nat.sub_diag. Qed.
Lemma rs_set_mid_k : forall {A} (p q : list A) (x v : A) (k : nat), length p = k -> rs_set (p ++ x :: q) (Z.of_nat k) v = Some (p ++ v :: q).
Proof.
  intros A p q x v k <-. rewrite rs_set_nat by (rewrite app_length; cbn [length]; lia). now rewrite upd_app_exact.
Qed.

(** ** [mapi_from] *)
Lemma mapi_from_app : forall {A B} (f : nat -> A -> B) (x y : list A) (s : nat),
  mapi_from s f (x ++ y) = mapi_from s f x ++ mapi_from (s + length x) f y.
Proof.
  intros A B f x. induction x as [|a x IH]; intros y s; cbn [app mapi_from length].
  - now rewrite Nat.add_0_r.
  - f_equal. rewrite IH. do 2 f_equal. lia.
Qed.
Lemma mapi_from_ext_in : forall {A B} (f g : nat -> A -> B) (x : list A) (s : nat),
  (forall k a, s <= k < s + length x -> f k a = g k a) -> mapi_from s f x = mapi_from s g x.
Proof.
  intros A B f g x. induction x as [|a x IH]; intros s H; [reflexivity|]. cbn [mapi_from length] in *.
  rewrite H by lia. f_equal. apply IH. intros k b Hk. apply H. lia.
Qed.
Lemma mapi_from_id : forall {A} (x : list A) (s : nat), mapi_from s (fun _ a => a) x = x.
Proof. intros A x. induction x as [|a x IH]; intro s; [reflexivity|]. cbn [mapi_from]. now rewrite IH. Qed.
Lemma mapi_from_length' : forall {A B} (f : nat -> A -> B) (x : list A) (s : nat), length (mapi_from s f x) = length x.
Proof. intros A B f x. induction x as [|a x IH]; intro s; [reflexivity|]. cbn [mapi_from length]. now rewrite IH. Qed.
(** a row updated on the window [lo, hi) only *)
Lemma mapi_window : forall {A} (g : nat -> A -> A) (x : list A) (lo hi : nat), lo <= hi -> hi <= length x ->
  firstn lo x ++ mapi_from lo g (firstn (hi - lo) (skipn lo x)) ++ skipn hi x
  = mapi (fun j c => if (lo <=? j) && (j <? hi) then g j c else c) x.
Proof.
  intros A g x lo hi Hlo Hhi.
  set (F := fun j c => if (lo <=? j) && (j <? hi) then g j c else c).
  assert (E : x = firstn lo x ++ firstn (hi - lo) (skipn lo x) ++ skipn hi x).
  { rewrite <- (firstn_skipn lo x) at 1. f_equal. rewrite <- (firstn_skipn (hi - lo) (skipn lo x)) at 1. f_equal.
    rewrite RsExprLemmas.skipn_add. f_equal. lia. }
  unfold mapi. rewrite E at 4. rewrite !mapi_from_app. cbn [Nat.add].
  assert (L1 : length (firstn lo x) = lo) by (rewrite firstn_length; lia).
  assert (L2 : length (firstn (hi - lo) (skipn lo x)) = hi - lo) by (rewrite firstn_length, skipn_length; lia).
  rewrite L1, L2. f_equal; [|f_equal].
  - rewrite (mapi_from_ext_in F (fun _ a => a)); [now rewrite mapi_from_id|].
    intros k a Hk. unfold F. rewrite L1 in Hk. replace (lo <=? k) with false by (symmetry; apply Nat.leb_gt; lia). reflexivity.
  - apply mapi_from_ext_in. intros k a Hk. rewrite L2 in Hk. unfold F.
    replace (lo <=? k) with true by (symmetry; apply Nat.leb_le; lia).
    replace (k <? hi) with true by (symmetry; apply Nat.ltb_lt; lia). reflexivity.
  - rewrite (mapi_from_ext_in F (fun _ a => a)); [now rewrite mapi_from_id|].
    intros k a Hk. unfold F. replace (k <? hi) with false by (symmetry; apply Nat.ltb_ge; lia). now rewrite andb_false_r.
Qed.
Lemma mapi_from_map2_nth : forall {A B C} (h : A -> B -> C) (x : list A) (y : list B) (d : B) (s : nat),
  s + length x <= length y ->
  mapi_from s (fun j a => h a (nth j y d)) x = map2 h x (skipn s y).
Proof.
  intros A B C h x. induction x as [|a x IH]; intros y d s H; [reflexivity|]. cbn [mapi_from length] in *.
  assert (Hs : skipn s y = nth s y d :: skipn (S s) y).
  { clear - H. revert y H. induction s as [|s IHs]; intros [|b y] H; cbn [length] in H; try lia; [reflexivity|].
    cbn [skipn nth]. apply IHs. lia. }
  rewrite Hs. cbn [map2]. f_equal. apply IH. lia.
Qed.

(** ** the innermost loop: [for j in j0 .. j0 + len { c[off + j] = g j c[off + j] }] *)
Lemma inplace_loop : forall {A} (f : list A -> Z -> option (list A)) (g : nat -> A -> A) (off n : nat),
  (forall p x q j, length p = off + j -> j < n -> f (p ++ x :: q) (Z.of_nat j) = Some (p ++ g j x :: q)) ->
  forall mid pre post j0, length pre = off + j0 -> j0 + length mid <= n ->
  rs_fold_opt f (rs_seq (Z.of_nat j0) (length mid)) (pre ++ mid ++ post) = Some (pre ++ mapi_from j0 g mid ++ post).
Proof.
  intros A f g off n H mid. induction mid as [|x mid IH]; intros pre post j0 Hp Hn; [reflexivity|].
  cbn [length rs_seq rs_fold_opt app mapi_from] in *. rewrite H by lia.
  replace (Z.of_nat j0 + 1)%Z with (Z.of_nat (S j0)) by lia.
  replace (pre ++ g j0 x :: mid ++ post) with ((pre ++ [g j0 x]) ++ mid ++ post) by (now rewrite <- app_assoc).
  rewrite IH by (try rewrite app_length; cbn [length]; lia). now rewrite <- app_assoc.
Qed.

(** ** a loop every pass of which rewrites the same window of the flat list *)
Lemma window_fold : forall {A} (f : list A -> Z -> option (list A)) (g : list A -> nat -> list A) (n : nat) (pre post : list A) (ks : list nat),
  (forall w k, In k ks -> length w = n -> f (pre ++ w ++ post) (Z.of_nat k) = Some (pre ++ g w k ++ post) /\ length (g w k) = n) ->
  forall w, length w = n -> rs_fold_opt f (map Z.of_nat ks) (pre ++ w ++ post) = Some (pre ++ fold_left g ks w ++ post).
Proof.
  intros A f g n pre post ks. induction ks as [|k ks IH]; intros H w Hw; [reflexivity|].
  cbn [map rs_fold_opt fold_left]. destruct (H w k (or_introl eq_refl) Hw) as [E L]. rewrite E.
  apply IH; [|exact L]. intros w' k' Hin. apply H. now right.
Qed.

(** ** the outer loop: pass [i] rewrites row [i] (the window [i * n, i * n + n)) of the flat list *)
Lemma flat_rows_loop : forall {A} (body : list A -> Z -> option (list A)) (G : nat -> list A -> list A) (n m : nat),
  (forall pre w post i, length pre = i * n -> length w = n -> i < m ->
      body (pre ++ w ++ post) (Z.of_nat i) = Some (pre ++ G i w ++ post) /\ length (G i w) = n) ->
  forall (C : list (list A)) (pre : list A) (i0 : nat), length pre = i0 * n -> Forall (fun r => length r = n) C -> i0 + length C <= m ->
  rs_fold_opt body (rs_seq (Z.of_nat i0) (length C)) (pre ++ concat C) = Some (pre ++ concat (mapi_from i0 G C)).
Proof.
  intros A body G n m H C. induction C as [|w C IH]; intros pre i0 Hp HC Hm; [reflexivity|].
  cbn [length rs_seq rs_fold_opt concat mapi_from] in *. pose proof (Forall_inv HC) as Hw. pose proof (Forall_inv_tail HC) as HC'. cbn beta in Hw.
  destruct (H pre w (concat C) i0 Hp Hw ltac:(lia)) as [E L]. rewrite E.
  replace (Z.of_nat i0 + 1)%Z with (Z.of_nat (S i0)) by lia.
  replace (pre ++ G i0 w ++ concat C) with ((pre ++ G i0 w) ++ concat C) by (now rewrite <- app_assoc).
  rewrite IH by (try rewrite app_length; auto; lia). now rewrite <- app_assoc.
Qed.

Lemma mapi_from_map2_rows : forall {A B C} (h : A -> B -> C) (X : list A) (Y : list B) (d : A) (s : nat),
  s + length Y <= length X ->
  mapi_from s (fun i y => h (nth i X d) y) Y = map2 h (skipn s X) Y.
Proof.
  intros A B C h X Y. revert X. induction Y as [|y Y IH]; intros X d s H.
  - destruct (skipn s X); reflexivity.
  - cbn [mapi_from length] in *.
    assert (Hs : skipn s X = nth s X d :: skipn (S s) X).
    { clear - H. revert X H. induction s as [|s IHs]; intros [|b X] H; cbn [length] in H; try lia; [reflexivity|].
      cbn [skipn nth]. apply IHs. lia. }
    rewrite Hs. cbn [map2]. f_equal. apply IH. lia.
Qed.

(** reading a flat row-major list that is the concatenation of rows of one length *)
Lemma rs_get_concat_rows : forall {A} (M : list (list A)) (n i j : nat) (d : A),
  Forall (fun r => length r = n) M -> i < length M -> j < n ->
  rs_get (concat M) (Z.add (Z.mul (Z.of_nat i) (Z.of_nat n)) (Z.of_nat j)) = Some (nth j (nth i M []) d).
Proof.
  intros A M n. induction M as [|r M IH]; intros i j d HM Hi Hj; cbn [length] in Hi; [lia|].
  pose proof (Forall_inv HM) as Hr. pose proof (Forall_inv_tail HM) as HM'. cbn beta in Hr. rewrite <- Nat2Z.inj_mul, <- Nat2Z.inj_add.
  destruct i as [|i]; cbn [concat nth].
  - rewrite (rs_get_some _ _ d) by (rewrite app_length; lia). now rewrite app_nth1 by lia.
  - specialize (IH i j d HM' ltac:(lia) Hj). rewrite <- Nat2Z.inj_mul, <- Nat2Z.inj_add in IH.
    rewrite rs_get_nat in *. rewrite nth_error_app2 by (cbn; lia).
    replace (S i * n + j - length r) with (i * n + j) by (cbn; lia). exact IH.
Qed.
Lemma concat_length_rows : forall {A} (M : list (list A)) (n : nat), Forall (fun r => length r = n) M -> length (concat M) = length M * n.
Proof.
  intros A M n H. induction H as [|r M Hr HM IH]; [reflexivity|]. cbn [concat length]. rewrite app_length, IH, Hr. lia.
Qed.
Lemma concat_repeat_repeat : forall {A} (z : A) (m n : nat), concat (repeat (repeat z n) m) = repeat z (m * n).
Proof. intros A z m n. induction m as [|m IH]; [reflexivity|]. cbn [repeat concat Nat.mul]. now rewrite IH, repeat_app. Qed.
