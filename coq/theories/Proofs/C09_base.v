(** C09: shared tactics and definitions for the proofs about the special functions on [RO]. *)
From Coq Require Export Reals List ZArith QArith Lia Lra.
From Interval Require Export Tactic.
From Compute Require Export Base.Ops Generated.special_consts Model.Special.
Export ListNotations.
Open Scope R_scope.

Lemma Q2R_simpl a b : Q2R (a # b) = IZR a / IZR (Zpos b).
Proof. unfold Q2R; simpl; reflexivity. Qed.

(** expose the real-valued expression the model evaluates (constants become [IZR a / IZR b]) *)
Ltac unfold_special :=
  unfold gamma_pos, erf_nonneg, digamma_asym, digamma_term, lanczos_coeffs, lanczos_c0, lanczos_G, digamma_terms,
         erf_p, erf_a1, erf_a2, erf_a3, erf_a4, erf_a5;
  cbn [lanczos_sum fold_left ofLit RO fst add sub mul div one zero ofN ofZ ofQ Nat.add Z.of_nat Pos.of_succ_nat Pos.succ
       two f2 f1 Rf1 Rf2 sqrt neg pi powi powi_pos];
  rewrite ?Q2R_simpl.

Fixpoint zfact (n : nat) : Z := match n with 0%nat => 1%Z | S k => (Z.of_nat n * zfact k)%Z end.

(** Γ(n) = (n−1)! to relative 1e-13, on the real-valued formula the code evaluates *)
Definition lanczos_ok (n : nat) : Prop :=
  Rabs (gamma RO (IZR (Z.of_nat n)) - IZR (zfact (n - 1))) <= IZR (zfact (n - 1)) * 1e-13.

Lemma gamma_RO_ge_half z : 1/2 <= z -> gamma RO z = gamma_pos RO z.
Proof.
  intros Hz. unfold gamma. cbn [ltb RO ofQ]. unfold Rltb.
  destruct (Rlt_dec z (Q2R (1 # 2))) as [H|H]; [|reflexivity].
  rewrite Q2R_simpl in H. lra.
Qed.

Lemma gamma_RO_lt_half z : z < 1/2 ->
  gamma RO z = PI / (sin (PI * z) * gamma_pos RO (1 - z)).
Proof.
  intros Hz. unfold gamma. cbn [ltb RO ofQ]. unfold Rltb.
  destruct (Rlt_dec z (Q2R (1 # 2))) as [H|H]; [reflexivity|].
  rewrite Q2R_simpl in H. lra.
Qed.

Ltac lanczos_one :=
  match goal with
  | |- lanczos_ok ?n =>
      unfold lanczos_ok;
      let zn := eval vm_compute in (Z.of_nat n) in
      let f := eval vm_compute in (zfact (n - 1)) in
      change (Z.of_nat n) with zn; change (zfact (n - 1)) with f;
      rewrite gamma_RO_ge_half by lra;
      unfold_special; unfold Rpower;
      interval with (i_prec 120)
  end.
Ltac lanczos_all := repeat (apply Forall_cons; [lanczos_one|]); apply Forall_nil.
