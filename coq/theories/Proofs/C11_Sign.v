(** Proofs for C11, part 7 (extension): a sign function in the sense of [Spec.Factor.is_sign] exists —
    the product over all pairs a < b of sgn (p_b - p_a), i.e. (-1)^(number of inversions), 0 on vectors
    with a repeated entry.  Hence the hypothesis of [C11_ipiv_parity_is_sign] / [C11_det_formula] is
    satisfiable, and it pins the sign down uniquely on permutations. *)
From Coq Require Import List Arith Bool Lia ZArith Reals.
From Compute Require Import Base.Ops Base.ListMat Model.MatMul Model.Subst Model.LU Spec.Factor Proofs.LinAlgBase Proofs.C11_Det.
Import ListNotations.
Local Open Scope Z_scope.

Fixpoint zprod (f : nat -> Z) (n : nat) : Z :=
  match n with O => 1 | S k => zprod f k * f k end.

Lemma zprod_ext f g n : (forall k, (k < n)%nat -> f k = g k) -> zprod f n = zprod g n.
Proof.
  induction n as [|n IH]; intros H; simpl; auto.
  rewrite IH by (intros; apply H; lia). rewrite H by lia. reflexivity.
Qed.

Lemma zprod_one f n : (forall k, (k < n)%nat -> f k = 1) -> zprod f n = 1.
Proof.
  induction n as [|n IH]; intros H; simpl; auto.
  rewrite IH by (intros; apply H; lia). rewrite H by lia. reflexivity.
Qed.

(** the sign of a vector of integers *)
Definition srow (f : nat -> Z) (b : nat) : Z := zprod (fun a => Z.sgn (f b - f a)) b.
Definition sprod (f : nat -> Z) (n : nat) : Z := zprod (srow f) n.

Lemma srow_ext f g b : (forall k, (k <= b)%nat -> f k = g k) -> srow f b = srow g b.
Proof. intros H. unfold srow. apply zprod_ext. intros a Ha. rewrite (H b), (H a) by lia. reflexivity. Qed.

Lemma sprod_ext f g n : (forall k, (k < n)%nat -> f k = g k) -> sprod f n = sprod g n.
Proof. intros H. unfold sprod. apply zprod_ext. intros b Hb. apply srow_ext. intros; apply H; lia. Qed.

(** exchanging two adjacent positions inside a product *)
Lemma zprod_adjacent F i b :
  (i + 2 <= b)%nat -> zprod (fun a => F (transp i (S i) a)) b = zprod F b.
Proof.
  intros Hb. induction b as [|b IH]; [lia|].
  destruct (Nat.eq_dec (S b) (i + 2)) as [He|Hne].
  - assert (b = S i) by lia. subst b. cbn [zprod].
    rewrite (zprod_ext (fun a => F (transp i (S i) a)) F i) by (intros k Hk; rewrite transp_fix by lia; reflexivity).
    unfold transp. rewrite Nat.eqb_refl. destruct (Nat.eqb_spec (S i) i); [lia|]. rewrite Nat.eqb_refl. ring.
  - cbn [zprod]. rewrite IH by lia. rewrite transp_fix by lia. reflexivity.
Qed.

Lemma sprod_adjacent f i n :
  (i + 2 <= n)%nat -> sprod (fun k => f (transp i (S i) k)) n = - sprod f n.
Proof.
  intros Hn. set (g := fun k => f (transp i (S i) k)).
  assert (Hgi : g i = f (S i)) by (unfold g, transp; rewrite Nat.eqb_refl; reflexivity).
  assert (Hgi1 : g (S i) = f i).
  { unfold g, transp. destruct (Nat.eqb_spec (S i) i); [lia|]. rewrite Nat.eqb_refl. reflexivity. }
  assert (Hgo : forall k, k <> i -> k <> S i -> g k = f k) by (intros; unfold g; rewrite transp_fix; auto).
  induction n as [|n IH]; [lia|].
  destruct (Nat.eq_dec (S n) (i + 2)) as [He|Hne].
  - assert (n = S i) by lia. subst n. unfold sprod. cbn [zprod].
    rewrite (zprod_ext (srow g) (srow f) i) by (intros b Hb; apply srow_ext; intros; apply Hgo; lia).
    unfold srow at 2 3 5 6. cbn [zprod]. rewrite Hgi, Hgi1.
    rewrite (zprod_ext (fun a => Z.sgn (f (S i) - g a)) (fun a => Z.sgn (f (S i) - f a)) i)
      by (intros a Ha; rewrite Hgo by lia; reflexivity).
    rewrite (zprod_ext (fun a => Z.sgn (f i - g a)) (fun a => Z.sgn (f i - f a)) i)
      by (intros a Ha; rewrite Hgo by lia; reflexivity).
    replace (f i - f (S i)) with (- (f (S i) - f i)) by ring. rewrite Z.sgn_opp. ring.
  - unfold sprod in *. cbn [zprod]. rewrite IH by lia.
    assert (Hrow : srow g n = srow f n).
    { unfold srow. rewrite Hgo by lia.
      rewrite <- (zprod_adjacent (fun a => Z.sgn (f n - f a)) i n) by lia. reflexivity. }
    rewrite Hrow. ring.
Qed.

(** any transposition, by conjugation with adjacent ones *)
Lemma transp_l a b : transp a b a = b.
Proof. unfold transp. rewrite Nat.eqb_refl. reflexivity. Qed.
Lemma transp_r a b : transp a b b = a.
Proof. unfold transp. destruct (Nat.eqb_spec b a); auto. rewrite Nat.eqb_refl. reflexivity. Qed.

Lemma transp_conj i j k :
  (i < j)%nat -> transp i (S j) k = transp j (S j) (transp i j (transp j (S j) k)).
Proof.
  intros Hij.
  destruct (Nat.eq_dec k i) as [->|Hki]; [|destruct (Nat.eq_dec k j) as [->|Hkj]; [|destruct (Nat.eq_dec k (S j)) as [->|Hks]]].
  - rewrite transp_l. rewrite (transp_fix j (S j) i) by lia. rewrite transp_l. rewrite transp_l. reflexivity.
  - rewrite (transp_fix i (S j) j) by lia. rewrite transp_l. rewrite (transp_fix i j (S j)) by lia.
    rewrite transp_r. reflexivity.
  - rewrite transp_r. rewrite transp_r. rewrite transp_r. rewrite (transp_fix j (S j) i) by lia. reflexivity.
  - rewrite (transp_fix i (S j) k) by lia. rewrite (transp_fix j (S j) k) by lia.
    rewrite (transp_fix i j k) by lia. rewrite (transp_fix j (S j) k) by lia. reflexivity.
Qed.

Lemma sprod_transp f n d :
  forall i, (i + S d < n)%nat -> sprod (fun k => f (transp i (i + S d) k)) n = - sprod f n.
Proof.
  revert f. induction d as [|d IH]; intros f i Hn.
  - replace (i + 1)%nat with (S i) by lia. apply sprod_adjacent. lia.
  - replace (i + S (S d))%nat with (S (i + S d)) by lia.
    pose (j := (i + S d)%nat).
    pose (h := fun k => f (transp j (S j) k)). pose (g := fun k => h (transp i j k)).
    assert (E1 : sprod (fun k => f (transp i (S j) k)) n = sprod (fun k => g (transp j (S j) k)) n).
    { apply sprod_ext. intros k Hk. unfold g, h. rewrite <- transp_conj by (unfold j; lia). reflexivity. }
    fold j. rewrite E1, (sprod_adjacent g j n) by (unfold j; lia).
    assert (E2 : sprod g n = - sprod h n) by (unfold g, j; apply (IH h i); lia).
    rewrite E2. unfold h. rewrite (sprod_adjacent f j n) by (unfold j; lia). ring.
Qed.

Lemma transp_sym p q i : transp p q i = transp q p i.
Proof. unfold transp. destruct (Nat.eqb_spec i p), (Nat.eqb_spec i q); subst; auto. Qed.

(** ** The sign of a list *)
Definition sign_inv (p : list nat) : Z := sprod (fun k => Z.of_nat (nth k p 0%nat)) (length p).

Lemma sign_inv_is_sign : is_sign sign_inv.
Proof.
  split.
  - intros n. unfold sign_inv. rewrite seq_length. unfold sprod. apply zprod_one. intros b Hb.
    unfold srow. apply zprod_one. intros a Ha. rewrite !seq_nth by lia. cbn [Nat.add].
    apply Z.sgn_pos. lia.
  - intros p i j d Hi Hj Hij. unfold sign_inv. rewrite swap_length.
    assert (Hsw : forall k, (k < length p)%nat ->
              Z.of_nat (nth k (swap d p i j) 0%nat) = Z.of_nat (nth (transp i j k) p 0%nat)).
    { intros k Hk. f_equal. rewrite (nth_indep _ 0%nat d) by (rewrite swap_length; auto).
      rewrite nth_swap by auto. apply nth_indep. apply transp_lt; auto. }
    rewrite (sprod_ext _ _ _ Hsw).
    destruct (Nat.lt_ge_cases i j) as [Hlt|Hge].
    + pose proof (sprod_transp (fun k => Z.of_nat (nth k p 0%nat)) (length p) (j - i - 1) i ltac:(lia)) as H.
      replace (i + S (j - i - 1))%nat with j in H by lia. exact H.
    + rewrite (sprod_ext _ (fun k => Z.of_nat (nth (transp j i k) p 0%nat)))
        by (intros; rewrite transp_sym; reflexivity).
      pose proof (sprod_transp (fun k => Z.of_nat (nth k p 0%nat)) (length p) (i - j - 1) j ltac:(lia)) as H.
      replace (j + S (i - j - 1))%nat with i in H by lia. exact H.
Qed.

(** sanity: the 4-cycle of D2 is odd, a 3-cycle is even *)
Example sign_inv_examples : sign_inv [1;2;3;0]%nat = -1 /\ sign_inv [1;2;0]%nat = 1 /\ sign_inv [0;0]%nat = 0.
Proof. repeat split; reflexivity. Qed.

(** ** The theorems of C11_Det instantiated with the constructed sign *)
Lemma ipiv_parity_inversions p n : is_perm p n -> ipiv_parity p = Some (sign_inv p).
Proof. apply ipiv_parity_is_sign. apply sign_inv_is_sign. Qed.

(** any two sign functions agree on permutations (both equal [ipiv_parity]) *)
Lemma sign_unique sgn p n : is_sign sgn -> is_perm p n -> sgn p = sign_inv p.
Proof.
  intros Hs Hp. pose proof (ipiv_parity_is_sign sgn Hs p n Hp) as H1.
  rewrite (ipiv_parity_inversions p n Hp) in H1. inversion H1. reflexivity.
Qed.

Lemma det_formula_inversions (m : matrix (T:=R)) n :
  well_formed m = true -> nr m = n -> nc m = n ->
  exists lum piv,
    matrix_lu RO m = Some (lum, piv) /\ is_perm piv n /\
    matrix_det RO m = Some (rprod (fun i => getm (dat lum) n i i) n * IZR (sign_inv piv))%R.
Proof. apply det_formula. apply sign_inv_is_sign. Qed.
