(** * Tie A for C15, the structural methods of [Matrix] beyond reshape: the hand-written models of [Model/Shape.v] ARE the
    source.  [Generated/matrix_loops.v] is produced on every run by tools/tiea/matrix_loops.py (statement-level translator
    [LoopTranslator] of tools/rsexpr.py) from src/linalg/array/matrix.rs.  A method takes the fields (data, nrows, ncols) of
    [self]; a [Matrix] value is the triple [zmat m = (nrows, ncols, data)]; the fields after a [&mut self] method are
    [zfields m = (data, nrows, ncols)].  The models of the predicates and of [hcat] / [hrepeat] / [get_col] read with a default
    ([nth]) where the source panics: those ties carry the struct invariant [in_bounds] ([nrows * ncols <= len(data)], which
    [Matrix::new] enforces) as a hypothesis; the others hold for every field values.  No law of the carrier. *)
From Coq Require Import List ZArith QArith Arith Bool Lia.
From Compute Require Import Base.Ops Base.ListMat Base.RsExpr Base.RsExprMut Model.Shape
  Proofs.RsExprLemmas Proofs.C15Lists Proofs.LinAlgBase Proofs.TieA_linalg_loops Proofs.TieA_linalg_lu Proofs.TieA_ctor_loops
  Proofs.TieA_shape_loops Generated.matrix_loops.
Import ListNotations.
Local Close Scope Q_scope.

Definition zfields {T : Type} (m : mat T) : list T * Z * Z := (data m, Z.of_nat (nrows m), Z.of_nat (ncols m)).

Lemma rs_slice_none_hi : forall {A} (l : list A) (a b : nat), length l < b -> rs_slice l (Z.of_nat a) (Z.of_nat b) = None.
Proof.
  intros A l a b H. unfold rs_slice, rs_len.
  replace (Z.of_nat b <=? Z.of_nat (length l))%Z with false by (symmetry; apply Z.leb_gt; lia). now rewrite andb_false_r.
Qed.

(** [for j in js { acc.push(l[f j]) }] with every read in bounds *)
Lemma push_loop : forall {A} (l : list A) (d : A) (fz : Z -> Z) (fn : nat -> nat) (js : list nat) (acc : list A),
  (forall j, In j js -> fz (Z.of_nat j) = Z.of_nat (fn j) /\ fn j < length l) ->
  rs_fold_opt (fun acc j => let* g := rs_get l (fz j) in let acc := acc ++ [g] in Some acc) (map Z.of_nat js) acc
  = Some (acc ++ map (fun j => nth (fn j) l d) js).
Proof.
  intros A l d fz fn js. induction js as [|j js IH]; intros acc H; [cbn; now rewrite app_nil_r|].
  cbn [map rs_fold_opt]. destruct (H j (or_introl eq_refl)) as (E & Hj). rewrite E, (rs_get_some l (fn j) d) by exact Hj.
  cbn [bind]. cbv zeta. rewrite IH by (intros j' Hj'; apply H; now right). now rewrite <- app_assoc.
Qed.

(** [for i in 0..k { v[i] = g i }] on a vector of at least [k] cells *)
Lemma fill_loop : forall {A} (g : nat -> A) (k : nat) (v0 : list A), k <= length v0 ->
  fold_left (fun v i => upd v i (g i)) (seq 0 k) v0 = map g (seq 0 k) ++ skipn k v0.
Proof.
  intros A g. induction k as [|k IH]; intros v0 Hk; [reflexivity|].
  rewrite seq_S, fold_left_app, IH by lia. cbn [fold_left Nat.add]. rewrite map_app. cbn [map].
  destruct (skipn k v0) as [|x rest] eqn:Es.
  - assert (length (skipn k v0) = length v0 - k) by apply skipn_length. rewrite Es in H. cbn in H. lia.
  - rewrite (upd_app_r _ _ k) by (now rewrite map_length, seq_length). cbn [upd]. rewrite <- app_assoc. cbn [app]. do 2 f_equal.
    replace (S k) with (k + 1) by lia. rewrite C15Lists.skipn_add, Es. reflexivity.
Qed.

Lemma fold_left_repeat_app : forall {A B} (r : list A) (l : list B) (acc : list A),
  fold_left (fun acc _ => acc ++ r) l acc = acc ++ concat (repeat r (length l)).
Proof.
  intros A B r l. induction l as [|b l IH]; intro acc; cbn [fold_left length repeat concat]; [now rewrite app_nil_r|].
  now rewrite IH, app_assoc.
Qed.

Section TieA.
  Context {T : Type} (O : Ops T).
  Local Notation d := (zero O).

  (** [transpose] and [Matrix::zeros] as the generated text sees them *)
  Definition transpose_z (a : list T) (nr : Z) : option (list T) := transpose_flat O a (Z.to_nat nr).
  Definition zeros_z (r c : Z) : option (Z * Z * list T) := option_map zmat (zeros O (Z.to_nat r) (Z.to_nat c)).

  (** ** [self[i]], rows, columns *)
  Theorem tiea_index : forall (nr nc : nat) (dat : list T) (i : nat),
    src_index O dat (Z.of_nat nr) (Z.of_nat nc) (Z.of_nat i) = row_slice (mkMat nr nc dat) i.
  Proof.
    intros nr nc dat i. unfold src_index, row_slice. cbn [nrows ncols data]. rewrite Zltb_of_nat.
    destruct (i <? nr); cbn [guard bind]; [|reflexivity]. rewrite Zadd1_nat. znat.
    destruct (Nat.leb_spec ((i + 1) * nc) (length dat)) as [H|H]; cbn [guard bind].
    - rewrite rs_slice_nat by nia. cbn [bind]. unfold row_of. do 2 f_equal. nia.
    - rewrite rs_slice_none_hi by nia. reflexivity.
  Qed.

  Lemma index_in_bounds : forall (nr nc : nat) (dat : list T) (i : nat), nr * nc <= length dat -> i < nr ->
    src_index O dat (Z.of_nat nr) (Z.of_nat nc) (Z.of_nat i) = Some (row_of dat nc i) /\ length (row_of dat nc i) = nc.
  Proof.
    intros nr nc dat i Hb Hi. rewrite tiea_index. unfold row_slice. cbn [nrows ncols data].
    replace (i <? nr) with true by (symmetry; apply Nat.ltb_lt; lia).
    replace ((i + 1) * nc <=? length dat) with true by (symmetry; apply Nat.leb_le; nia). cbn [guard bind].
    split; [reflexivity|]. apply length_row_of. nia.
  Qed.

  Theorem tiea_get_row : forall (nr nc : nat) (dat : list T) (i : nat),
    src_get_row_as_vector O dat (Z.of_nat nr) (Z.of_nat nc) (Z.of_nat i) = row_slice (mkMat nr nc dat) i.
  Proof.
    intros nr nc dat i. unfold src_get_row_as_vector. rewrite tiea_index, Zltb_of_nat. unfold row_slice. cbn [nrows ncols data].
    destruct (i <? nr); cbn [guard bind]; [|reflexivity]. destruct (guard _); reflexivity.
  Qed.

  (** [nrows] fits the address space ([Vector::zeros(nrows)] passes the allocation's capacity check) *)
  Theorem tiea_get_col : forall (nr nc : nat) (dat : list T) (j : nat),
    in_bounds (mkMat nr nc dat) = true -> (Z.of_nat nr <= 1152921504606846975)%Z ->
    src_get_col_as_vector O dat (Z.of_nat nr) (Z.of_nat nc) (Z.of_nat j) = get_col O (mkMat nr nc dat) j.
  Proof.
    intros nr nc dat j Hb Hcap. unfold src_get_col_as_vector, get_col. rewrite Hb. unfold in_bounds, size in Hb.
    cbn [nrows ncols data] in *. apply Nat.leb_le in Hb. rewrite Zltb_of_nat.
    destruct (Nat.ltb_spec j nc) as [Hj|Hj]; cbn [guard bind]; [|reflexivity].
    rewrite rs_vec_alloc_nat by exact Hcap. cbn [bind]. cbv zeta. rewrite rs_range_excl_0m.
    destruct (rs_fold_opt_inv (fun v => length v = nr)
               (fun v i => let* r2 := src_index O dat (Z.of_nat nr) (Z.of_nat nc) i in let* g3 := rs_get r2 (Z.of_nat j) in
                           let* l4 := rs_set v i g3 in Some l4)
               (fun v i => upd v i (nth j (row_of dat nc i) d)) (seq 0 nr) (repeat d nr)) as (E & _); [apply repeat_length| |].
    - intros s k Hk Hs. apply in_seq in Hk. destruct (index_in_bounds nr nc dat k Hb ltac:(lia)) as (E & L). rewrite E. cbn [bind].
      rewrite (rs_get_some _ j d) by lia. cbn [bind]. rewrite rs_set_nat by lia. cbn [bind]. split; [reflexivity|now rewrite upd_length].
    - rewrite E. cbn [bind]. f_equal. rewrite (fill_loop (fun i => nth j (row_of dat nc i) d)) by (rewrite repeat_length; lia).
      rewrite skipn_all2 by (rewrite repeat_length; lia). apply app_nil_r.
  Qed.

  (** ** predicates *)
  Theorem tiea_is_square : forall (nr nc : nat) (dat : list T),
    src_is_square O dat (Z.of_nat nr) (Z.of_nat nc) = is_square (mkMat nr nc dat).
  Proof. intros. unfold src_is_square, is_square. apply Zeqb_of_nat. Qed.

  Theorem tiea_is_symmetric_m : forall (nr nc : nat) (dat : list T), in_bounds (mkMat nr nc dat) = true ->
    src_is_symmetric O dat (Z.of_nat nr) (Z.of_nat nc) = Some (is_symmetric O (mkMat nr nc dat)).
  Proof.
    intros nr nc dat Hb. unfold src_is_symmetric, is_symmetric. rewrite tiea_is_square. unfold is_square, in_bounds, size in *.
    cbn [nrows ncols data] in *. apply Nat.leb_le in Hb.
    destruct (Nat.eqb_spec nr nc) as [E|E]; [|reflexivity]. subst nc.
    change 0%Z with (Z.of_nat 0). rewrite rs_range_excl_nat, Nat.sub_0_r.
    rewrite (rs_loop_forallb_seq _ (fun i => forallb (fun j => negb (sym_differ O (nth (i * nr + j) dat d) (nth (j * nr + i) dat d))) (seq i (nr - i)))).
    - destruct (forallb _ (seq 0 nr)); reflexivity.
    - intros i Hi. rewrite rs_range_excl_nat.
      rewrite (rs_loop_forallb_seq _ (fun j => negb (sym_differ O (nth (i * nr + j) dat d) (nth (j * nr + i) dat d)))).
      + destruct (forallb _ (seq i (nr - i))); reflexivity.
      + intros j Hj. znat. rewrite (rs_get_some dat (i * nr + j) d) by nia. rewrite (rs_get_some dat (j * nr + i) d) by nia.
        unfold sym_differ, eps, rs_f64_epsilon. destruct (ltb O _ _); reflexivity.
  Qed.

  Lemma tri_inner : forall (nr nc : nat) (dat : list T) (i lo h : nat), nr * nc <= length dat -> i < nr -> lo + h <= nc ->
    rs_loop (fun (_ : unit) j => match src_index O dat (Z.of_nat nr) (Z.of_nat nc) (Z.of_nat i) with
                                 | Some r1 => match rs_get r1 j with
                                              | Some g2 => if negb (eqb O g2 d) then rs_return false else rs_next tt
                                              | None => rs_panic end
                                 | None => rs_panic end) (rs_seq (Z.of_nat lo) h) tt
    = if forallb (fun j => eqb O (nth j (row_of dat nc i) d) d) (seq lo h) then rs_next tt else rs_return false.
  Proof.
    intros nr nc dat i lo h Hb Hi Hh. apply rs_loop_forallb_seq. intros j Hj.
    destruct (index_in_bounds nr nc dat i Hb Hi) as (E & L). rewrite E. rewrite (rs_get_some _ j d) by lia.
    destruct (eqb O _ d); reflexivity.
  Qed.

  Theorem tiea_is_upper_triangular : forall (nr nc : nat) (dat : list T), in_bounds (mkMat nr nc dat) = true ->
    src_is_upper_triangular O dat (Z.of_nat nr) (Z.of_nat nc) = Some (is_upper_triangular O (mkMat nr nc dat)).
  Proof.
    intros nr nc dat Hb. unfold src_is_upper_triangular, is_upper_triangular, in_bounds, size in *. cbn [nrows ncols data] in *.
    apply Nat.leb_le in Hb. change 0%Z with (Z.of_nat 0). rewrite rs_range_excl_nat, Nat.sub_0_r.
    rewrite (rs_loop_forallb_seq _ (fun i => forallb (fun j => eqb O (nth j (row_of dat nc i) d) d) (seq 0 (Nat.min i nc)))).
    - destruct (forallb _ (seq 0 nr)); reflexivity.
    - intros i Hi. rewrite <- Nat2Z.inj_min, rs_range_excl_nat, Nat.sub_0_r.
      rewrite (tri_inner nr nc dat i 0 (Nat.min i nc)) by lia. destruct (forallb _ _); reflexivity.
  Qed.

  Theorem tiea_is_lower_triangular : forall (nr nc : nat) (dat : list T), in_bounds (mkMat nr nc dat) = true ->
    src_is_lower_triangular O dat (Z.of_nat nr) (Z.of_nat nc) = Some (is_lower_triangular O (mkMat nr nc dat)).
  Proof.
    intros nr nc dat Hb. unfold src_is_lower_triangular, is_lower_triangular, in_bounds, size in *. cbn [nrows ncols data] in *.
    apply Nat.leb_le in Hb. change 0%Z with (Z.of_nat 0). rewrite rs_range_excl_nat, Nat.sub_0_r.
    rewrite (rs_loop_forallb_seq _ (fun i => forallb (fun j => eqb O (nth j (row_of dat nc i) d) d) (seq (i + 1) (nc - (i + 1))))).
    - destruct (forallb _ (seq 0 nr)); reflexivity.
    - intros i Hi. rewrite Zadd1_nat, rs_range_excl_nat. replace (i + 1) with (S i) by lia.
      destruct (Nat.le_gt_cases (S i) nc) as [Hc|Hc].
      + rewrite (tri_inner nr nc dat i (S i) (nc - S i)) by lia. destruct (forallb _ _); reflexivity.
      + replace (nc - S i) with 0 by lia. reflexivity.
  Qed.

  (** ** diag, flat_idx *)
  Theorem tiea_diag_m : forall (nr nc : nat) (dat : list T),
    src_diag O dat (Z.of_nat nr) (Z.of_nat nc) = diag O (mkMat nr nc dat).
  Proof.
    intros nr nc dat. unfold src_diag, diag. cbn [nrows ncols data]. cbv zeta. rewrite <- Nat2Z.inj_min.
    set (n := Nat.min nr nc). rewrite rs_range_excl_0m.
    destruct (Nat.eqb_spec n 0) as [E0|E0]; cbn [orb guard bind]; [rewrite E0; reflexivity|].
    destruct (Nat.ltb_spec ((n - 1) * nc + (n - 1)) (length dat)) as [H|H]; cbn [guard bind].
    - rewrite (push_loop dat d (fun i => Z.add (Z.mul i (Z.of_nat nc)) i) (fun i => i * nc + i)).
      + reflexivity.
      + intros j Hj. apply in_seq in Hj. split; [lia|nia].
    - replace n with ((n - 1) + 1) at 1 by lia. rewrite seq_app, map_app, rs_fold_opt_app.
      destruct (rs_fold_opt _ (map Z.of_nat (seq 0 (n - 1))) []) as [s|]; [|reflexivity].
      cbn [seq map rs_fold_opt Nat.add]. znat. rewrite rs_get_none by lia. reflexivity.
  Qed.

  Theorem tiea_flat_idx : forall (nr nc : nat) (dat : list T) (k : nat),
    src_flat_idx O dat (Z.of_nat nr) (Z.of_nat nc) (Z.of_nat k) = flat_idx O (mkMat nr nc dat) k.
  Proof.
    intros nr nc dat k. unfold src_flat_idx, flat_idx, src_size, size. cbn [nrows ncols data]. znat. rewrite Zltb_of_nat.
    destruct (k <? nr * nc); cbn [andb guard bind]; [|reflexivity].
    destruct (Nat.ltb_spec k (length dat)) as [H|H]; cbn [guard bind].
    - now rewrite (rs_get_some dat k d) by exact H.
    - now rewrite rs_get_none by exact H.
  Qed.

  Theorem tiea_flat_idx_replace : forall (nr nc : nat) (dat : list T) (k : nat) (v : T),
    src_flat_idx_replace O dat (Z.of_nat nr) (Z.of_nat nc) (Z.of_nat k) v = option_map zfields (flat_idx_replace (mkMat nr nc dat) k v).
  Proof.
    intros nr nc dat k v. unfold src_flat_idx_replace, flat_idx_replace, src_size, size. cbn [nrows ncols data]. znat. rewrite Zltb_of_nat.
    destruct (k <? nr * nc); cbn [andb guard bind option_map]; [|reflexivity].
    destruct (Nat.ltb_spec k (length dat)) as [H|H]; cbn [guard bind option_map].
    - rewrite rs_set_nat by exact H. reflexivity.
    - unfold rs_set. destruct (Z.ltb_spec (Z.of_nat k) 0); [reflexivity|]. rewrite Nat2Z.id.
      replace (k <? length dat) with false by (symmetry; apply Nat.ltb_ge; lia). reflexivity.
  Qed.

  (** ** transposition, concatenation, repetition *)
  Theorem tiea_t : forall (nr nc : nat) (dat : list T),
    src_t O new_z transpose_z dat (Z.of_nat nr) (Z.of_nat nc) = option_map zmat (t O (mkMat nr nc dat)).
  Proof.
    intros nr nc dat. unfold src_t, t, transpose_z. cbn [nrows ncols data]. rewrite Nat2Z.id.
    destruct (transpose_flat O dat nr) as [a|]; [|reflexivity]. cbn [bind]. cbv zeta. unfold new_z.
    destruct (new a (Z.of_nat nc) (Z.of_nat nr)); reflexivity.
  Qed.

  Theorem tiea_t_mut : forall (nr nc : nat) (dat : list T),
    src_t_mut O transpose_z dat (Z.of_nat nr) (Z.of_nat nc) = option_map zfields (t_mut O (mkMat nr nc dat)).
  Proof.
    intros nr nc dat. unfold src_t_mut, t_mut, transpose_z. cbn [nrows ncols data]. rewrite Nat2Z.id.
    destruct (transpose_flat O dat nr) as [a|]; reflexivity.
  Qed.

  Theorem tiea_to_vec : forall (nr nc : nat) (dat : list T), src_to_vec O dat (Z.of_nat nr) (Z.of_nat nc) = data (mkMat nr nc dat).
  Proof. reflexivity. Qed.

  Theorem tiea_vcat : forall (m o : mat T),
    src_vcat O new_z (data m) (Z.of_nat (nrows m)) (Z.of_nat (ncols m)) (zmat o) = option_map zmat (vcat m o).
  Proof.
    intros m o. unfold src_vcat, vcat, zmat. rewrite Zeqb_of_nat. destruct (ncols m =? ncols o); cbn [guard bind]; [|reflexivity].
    cbv zeta. znat. unfold new_z. destruct (new _ _ _); reflexivity.
  Qed.

  Theorem tiea_hcat : forall (m o : mat T), in_bounds m = true -> in_bounds o = true ->
    src_hcat O new_z (data m) (Z.of_nat (nrows m)) (Z.of_nat (ncols m)) (zmat o) = option_map zmat (hcat O m o).
  Proof.
    intros m o Hm Ho. unfold src_hcat, hcat, zmat. rewrite Hm, Ho. unfold in_bounds, size in Hm, Ho. apply Nat.leb_le in Hm, Ho.
    rewrite Zeqb_of_nat. destruct (Nat.eqb_spec (nrows m) (nrows o)) as [E|E]; cbn [andb guard bind]; [|reflexivity].
    cbv zeta. rewrite !rs_range_excl_0m.
    destruct (rs_fold_opt_inv (fun _ => True)
               (fun new_vec i =>
                  let* new_vec := rs_fold_opt (fun new_vec j => let* g1 := rs_get (data m) (Z.add (Z.mul i (Z.of_nat (ncols m))) j) in Some (new_vec ++ [g1]))
                                              (map Z.of_nat (seq 0 (ncols m))) new_vec in
                  let* new_vec := rs_fold_opt (fun new_vec j => let* g2 := rs_get (data o) (Z.add (Z.mul i (Z.of_nat (ncols o))) j) in Some (new_vec ++ [g2]))
                                              (map Z.of_nat (seq 0 (ncols o))) new_vec in Some new_vec)
               (fun acc i => acc ++ (map (fun j => nth (i * ncols m + j) (data m) d) (seq 0 (ncols m))
                                     ++ map (fun j => nth (i * ncols o + j) (data o) d) (seq 0 (ncols o))))
               (seq 0 (nrows m)) [] I) as (Ef & _).
    - intros s i Hi _. apply in_seq in Hi. split; [|exact I].
      pose proof (push_loop (data m) d (fun j => Z.add (Z.mul (Z.of_nat i) (Z.of_nat (ncols m))) j) (fun j => i * ncols m + j) (seq 0 (ncols m)) s) as P1.
      cbv zeta in P1. rewrite P1 by (intros j Hj; apply in_seq in Hj; split; [lia|nia]). cbn [bind].
      pose proof (push_loop (data o) d (fun j => Z.add (Z.mul (Z.of_nat i) (Z.of_nat (ncols o))) j) (fun j => i * ncols o + j) (seq 0 (ncols o))) as P2.
      cbv zeta in P2. rewrite P2 by (intros j Hj; apply in_seq in Hj; split; [lia|nia]). cbn [bind]. now rewrite app_assoc.
    - rewrite Ef. cbn [bind]. rewrite (fold_left_app_flat_map _ (seq 0 (nrows m)) []). cbn [app]. znat. unfold new_z.
      destruct (new _ _ _); reflexivity.
  Qed.

  Theorem tiea_vrepeat : forall (nr nc : nat) (dat : list T) (n : nat),
    src_vrepeat O new_z dat (Z.of_nat nr) (Z.of_nat nc) (Z.of_nat n) = option_map zmat (vrepeat (mkMat nr nc dat) n).
  Proof.
    intros nr nc dat n. unfold src_vrepeat, vrepeat, rs_repeat. cbn [nrows ncols data]. cbv zeta. znat. rewrite Nat2Z.id.
    unfold new_z. destruct (new _ _ _); reflexivity.
  Qed.

  Theorem tiea_hrepeat : forall (nr nc : nat) (dat : list T) (n : nat), n = 0 \/ in_bounds (mkMat nr nc dat) = true ->
    src_hrepeat O new_z dat (Z.of_nat nr) (Z.of_nat nc) (Z.of_nat n) = option_map zmat (hrepeat (mkMat nr nc dat) n).
  Proof.
    intros nr nc dat n H. unfold src_hrepeat, hrepeat. cbn [nrows ncols data].
    replace ((n =? 0) || in_bounds (mkMat nr nc dat)) with true
      by (symmetry; destruct H as [-> | ->]; [reflexivity|apply orb_true_r]).
    cbn [guard bind]. cbv zeta. rewrite !rs_range_excl_0m.
    destruct (rs_fold_opt_inv (fun _ => True)
               (fun new_vec i => let* new_vec := rs_fold_opt (fun new_vec _ => let* r1 := src_index O dat (Z.of_nat nr) (Z.of_nat nc) i in Some (new_vec ++ r1))
                                                             (map Z.of_nat (seq 0 n)) new_vec in Some new_vec)
               (fun acc i => acc ++ concat (repeat (row_of dat nc i) n)) (seq 0 nr) [] I) as (Ef & _).
    - intros s i Hi _. apply in_seq in Hi. split; [|exact I].
      destruct H as [-> | Hb]; [cbn; now rewrite app_nil_r|].
      unfold in_bounds, size in Hb. cbn [nrows ncols data] in Hb. apply Nat.leb_le in Hb.
      destruct (index_in_bounds nr nc dat i Hb ltac:(lia)) as (E & _).
      destruct (rs_fold_opt_inv (fun _ => True)
                 (fun new_vec (_ : Z) => let* r1 := src_index O dat (Z.of_nat nr) (Z.of_nat nc) (Z.of_nat i) in Some (new_vec ++ r1))
                 (fun acc (_ : nat) => acc ++ row_of dat nc i) (seq 0 n) s I) as (E2 & _).
      + intros s' k _ _. rewrite E. cbn [bind]. now split.
      + rewrite E2. cbn [bind]. f_equal. rewrite fold_left_repeat_app. now rewrite seq_length.
    - rewrite Ef. cbn [bind]. rewrite (fold_left_app_flat_map _ (seq 0 nr) []). cbn [app]. znat. unfold new_z.
      destruct (new _ _ _); reflexivity.
  Qed.

  (** ** eye *)
  Lemma new_data : forall (a : list T) (r c : Z) (m : mat T), new a r c = Some m -> data m = a.
  Proof.
    intros a r c m H. unfold new, reshape_mut in H. cbn [data] in H.
    destruct (reshape_dims _ r c) as [[r' c']|]; cbn [bind] in H; [|discriminate]. now injection H as <-.
  Qed.

  Theorem tiea_eye : forall (n : nat), src_eye O zeros_z (Z.of_nat n) = option_map zmat (eye O n).
  Proof.
    intro n. unfold src_eye, eye, zeros_z. rewrite Nat2Z.id.
    destruct (zeros O n n) as [m|] eqn:Ez; [|reflexivity]. cbn [option_map bind]. unfold zmat at 1.
    assert (Hd : data m = repeat d (n * n)) by (unfold zeros in Ez; now apply new_data in Ez).
    rewrite rs_range_excl_0m.
    destruct (rs_fold_opt_inv (fun x => length x = n * n)
               (fun m_data i => let* l2 := rs_set m_data (Z.add (Z.mul i (Z.of_nat n)) i) (one O) in Some l2)
               (fun x i => upd x (i * n + i) (one O)) (seq 0 n) (data m)) as (E & _); [rewrite Hd; apply repeat_length| |].
    - intros s k Hk Hs. apply in_seq in Hk. znat. rewrite rs_set_nat by nia. cbn [bind]. split; [reflexivity|now rewrite upd_length].
    - pose proof E as E'. cbv zeta in E'. rewrite E'. reflexivity.
  Qed.
End TieA.
