(** C14 (extension): a Vandermonde matrix with [k] columns and at least [k] distinct abscissae has full
    column rank, hence VᵀV is nonsingular and the least-squares polynomial is unique. *)
From Coq Require Import Reals List Arith Lia Lra.
From Compute Require Import Base.Ops Base.ListMat Model.Reduce Model.MatMul Model.Poly Spec.MatMul Spec.Poly Proofs.C05 Proofs.C14_sums Proofs.C14.
Import ListNotations.
Local Open Scope R_scope.

Definition all_zero (d : list R) : Prop := Forall (fun a => a = 0) d.

(** synthetic division by (X - r): p(X) = p(r) + (X - r)·q(X) *)
Fixpoint divx (r : R) (p : list R) : list R :=
  match p with
  | [] => []
  | a :: c => match c with [] => [] | _ :: _ => poly_sum c r :: divx r c end
  end.

Lemma all_zero_cons a d : a = 0 -> all_zero d -> all_zero (a :: d).
Proof. intros H1 H2. constructor; assumption. Qed.
Lemma all_zero_nil : all_zero [].
Proof. constructor. Qed.

Lemma poly_sum_nil v : poly_sum [] v = 0.
Proof. reflexivity. Qed.

Lemma divx_length r p : length (divx r p) = Nat.pred (length p).
Proof.
  induction p as [|a c IH]; [reflexivity|].
  destruct c as [|b c]; [reflexivity|].
  change (divx r (a :: b :: c)) with (poly_sum (b :: c) r :: divx r (b :: c)).
  cbn [length Nat.pred] in *. rewrite IH. reflexivity.
Qed.

Lemma divx_spec r p v : poly_sum p v = poly_sum p r + (v - r) * poly_sum (divx r p) v.
Proof.
  induction p as [|a c IH]; [rewrite !poly_sum_nil; ring|].
  destruct c as [|b c].
  - cbn [divx]. rewrite !poly_sum_cons, !poly_sum_nil. ring.
  - change (divx r (a :: b :: c)) with (poly_sum (b :: c) r :: divx r (b :: c)).
    rewrite (poly_sum_cons a), (poly_sum_cons a (b :: c) r), (poly_sum_cons (poly_sum (b :: c) r)).
    rewrite IH. ring.
Qed.

Lemma divx_zero r p : all_zero (divx r p) -> poly_sum p r = 0 -> all_zero p.
Proof.
  induction p as [|a c IH]; intros Hq Hr; [constructor|].
  destruct c as [|b c].
  - rewrite poly_sum_cons, poly_sum_nil in Hr. apply all_zero_cons; [lra|apply all_zero_nil].
  - change (divx r (a :: b :: c)) with (poly_sum (b :: c) r :: divx r (b :: c)) in Hq.
    inversion Hq as [|? ? Hc Hq']; subst.
    rewrite poly_sum_cons, Hc, Rmult_0_r, Rplus_0_r in Hr.
    apply all_zero_cons; [exact Hr|]. apply IH; auto.
Qed.

(** a polynomial with [k] coefficients and [k] distinct roots is zero *)
Lemma roots_force_zero k : forall (d pts : list R),
  length d = k -> length pts = k -> NoDup pts ->
  (forall v, In v pts -> poly_sum d v = 0) -> all_zero d.
Proof.
  induction k as [|k IH]; intros d pts Hd Hp Hnd Hroot.
  - destruct d; [constructor|discriminate].
  - destruct pts as [|r pts]; [discriminate|].
    inversion Hnd as [|? ? Hnotin Hnd']; subst.
    assert (Hr : poly_sum d r = 0) by (apply Hroot; left; reflexivity).
    apply (divx_zero r); [|exact Hr].
    assert (Hlq : length (divx r d) = k) by (rewrite divx_length, Hd; reflexivity).
    assert (Hlp : length pts = k) by (cbn [length] in Hp; lia).
    apply (IH (divx r d) pts Hlq Hlp Hnd').
    { intros v Hv.
      assert (Hne : v <> r) by (intros ->; contradiction).
      pose proof (divx_spec r d v) as Hs. rewrite Hr, (Hroot v (or_intror Hv)) in Hs.
      assert (Hm : (v - r) * poly_sum (divx r d) v = 0) by lra.
      apply Rmult_integral in Hm. destruct Hm as [Hm|Hm]; [lra|exact Hm]. }
Qed.

(** full column rank: V·d = 0 forces d = 0 *)
Lemma vandermonde_full_rank k x d :
  has_distinct k x -> length d = k ->
  (forall i, (i < length x)%nat -> poly_sum d (nth i x 0) = 0) -> all_zero d.
Proof.
  intros (pos & Hpl & Hpin & Hnd) Hd Hz.
  apply (roots_force_zero k d (map (fun p => nth p x 0) pos)); auto.
  - rewrite map_length. exact Hpl.
  - intros v Hv. apply in_map_iff in Hv. destruct Hv as (p & <- & Hp). apply Hz, Hpin, Hp.
Qed.

(** linearity of evaluation in the coefficients *)
Lemma poly_sum_sub : forall c c', length c = length c' ->
  forall v, poly_sum (map2 Rminus c c') v = poly_sum c v - poly_sum c' v.
Proof.
  induction c as [|a c IH]; intros [|a' c'] Hl v; try discriminate.
  - cbn [map2]. rewrite !poly_sum_nil. ring.
  - cbn [map2]. rewrite !poly_sum_cons, IH by (cbn in Hl; lia). ring.
Qed.

Lemma map2_sub_zero : forall c c', length c = length c' -> all_zero (map2 Rminus c c') -> c = c'.
Proof.
  induction c as [|a c IH]; intros [|a' c'] Hl Hz; try discriminate; [reflexivity|].
  cbn [map2] in Hz. inversion Hz as [|? ? H0 Hz']; subst.
  f_equal; [lra|]. apply IH; [cbn in Hl; lia|exact Hz'].
Qed.

Lemma map2_sub_length : forall c c' : list R, length c = length c' -> length (map2 Rminus c c') = length c.
Proof.
  induction c as [|a c IH]; intros [|a' c'] Hl; try discriminate; [reflexivity|].
  cbn [map2 length]. rewrite IH by (cbn in Hl; lia). reflexivity.
Qed.

(** two polynomials with [k] coefficients that agree on [k] distinct abscissae are equal *)
Lemma poly_eq_on_distinct k x c c' :
  has_distinct k x -> length c = k -> length c' = k ->
  (forall i, (i < length x)%nat -> poly_sum c (nth i x 0) = poly_sum c' (nth i x 0)) -> c = c'.
Proof.
  intros Hd Hc Hc' Heq. apply map2_sub_zero; [congruence|].
  apply (vandermonde_full_rank k x); auto.
  - rewrite map2_sub_length; congruence.
  - intros i Hi. rewrite poly_sum_sub by congruence. rewrite Heq by auto. ring.
Qed.

(** VᵀV is nonsingular: G·d = 0 forces d = 0 *)
Lemma gram_nonsingular k x d :
  has_distinct k x -> length d = k ->
  (forall j, (j < k)%nat -> rsum (fun l => gram_entry x j l * nth l d 0) k = 0) -> all_zero d.
Proof.
  intros Hdist Hd HGd.
  set (V := fun (i l : nat) => nth i x 0 ^ l).
  set (dd := fun l => nth l d 0).
  assert (HG : forall j l, (j < k)%nat -> (l < k)%nat ->
                gram_entry x j l = rsum (fun i => V i j * V i l) (length x)) by reflexivity.
  (* dᵀ G d = |V d|² *)
  assert (Hq : rsum (fun i => (pred k V dd i) ^ 2) (length x) = 0).
  { rewrite (rsum_ext _ (fun i => rsum (fun j => dd j * (V i j * pred k V dd i)) k)).
    2:{ intros i Hi. rewrite (rsum_ext _ (fun j => (V i j * dd j) * pred k V dd i)) by (intros; ring).
        rewrite rsum_scal_r. unfold pred. ring. }
    rewrite rsum_swap. rewrite (rsum_ext _ (fun _ => 0)); [apply rsum_zero|].
    intros j Hj. rewrite rsum_scal_l.
    rewrite (lsq_gram_pred (length x) k V (gram_entry x) HG dd j Hj).
    rewrite HGd by auto. ring. }
  apply (vandermonde_full_rank k x); auto.
  intros i Hi. pose proof (rsum_sq_zero _ _ Hq i Hi) as Hz. cbv beta in Hz.
  etransitivity; [|exact Hz]. subst k. unfold poly_sum, pred, V, dd. apply rsum_ext. intros; ring.
Qed.

(** ** Consequences for [fit] *)
Section FitUnique.
  Variables (inv : list R -> option (list R)) (k : nat) (x y c : list R).
  Hypothesis Hinv : inverse_ok_at inv k x y.
  Hypothesis Hk : small k.
  Hypothesis Hfit : fit RO inv k x y = Some c.
  Hypothesis Hdist : has_distinct k x.

  (** noiseless data from a polynomial with [k] coefficients: the coefficients themselves come back *)
  Lemma fit_recovers_coefficients c0 : length c0 = k ->
    (forall i, (i < length x)%nat -> nth i y 0 = poly_sum c0 (nth i x 0)) -> c = c0.
  Proof.
    intros Hc0 Hy. apply (poly_eq_on_distinct k x); auto.
    - exact (fit_length inv k x y c Hinv Hk Hfit).
    - intros i Hi. rewrite (fit_reproduces_data inv k x y c Hinv Hk Hfit c0 Hc0 Hy i Hi). auto.
  Qed.

  (** the minimiser is unique *)
  Lemma fit_unique_minimiser c' : length c' = k -> rss x y c' <= rss x y c -> c' = c.
  Proof.
    intros Hc' Hle.
    pose proof (fit_rss_decomposition inv k x y c Hinv Hk Hfit c' Hc') as Hdec.
    pose proof (rsum_sq_nonneg (fun i => poly_sum c' (nth i x 0) - poly_sum c (nth i x 0)) (length x)) as Hnn.
    assert (Hz : rsum (fun i => (poly_sum c' (nth i x 0) - poly_sum c (nth i x 0)) ^ 2) (length x) = 0) by lra.
    apply (poly_eq_on_distinct k x); auto.
    - exact (fit_length inv k x y c Hinv Hk Hfit).
    - intros i Hi. pose proof (rsum_sq_zero _ _ Hz i Hi) as H0. cbv beta in H0. lra.
  Qed.
End FitUnique.

(** ** VᵀV is symmetric and positive definite (what the Cholesky route of the inner solve needs) *)
Lemma gram_symmetric x j l : gram_entry x j l = gram_entry x l j.
Proof. unfold gram_entry. apply rsum_ext. intros; ring. Qed.

(** dᵀ(VᵀV)d = |V d|² *)
Lemma gram_quadratic k x d : length d = k ->
  rsum (fun j => nth j d 0 * rsum (fun l => gram_entry x j l * nth l d 0) k) k =
  rsum (fun i => (poly_sum d (nth i x 0)) ^ 2) (length x).
Proof.
  intros Hd.
  set (V := fun (i l : nat) => nth i x 0 ^ l).
  set (dd := fun l => nth l d 0).
  assert (HG : forall j l, (j < k)%nat -> (l < k)%nat ->
                gram_entry x j l = rsum (fun i => V i j * V i l) (length x)) by reflexivity.
  rewrite (rsum_ext _ (fun j => rsum (fun i => dd j * (V i j * pred k V dd i)) (length x))).
  2:{ intros j Hj. rewrite rsum_scal_l.
      rewrite (lsq_gram_pred (length x) k V (gram_entry x) HG dd j Hj). reflexivity. }
  rewrite rsum_swap. apply rsum_ext. intros i Hi.
  rewrite (rsum_ext _ (fun j => (V i j * dd j) * pred k V dd i)) by (intros; ring).
  rewrite rsum_scal_r.
  replace (poly_sum d (nth i x 0)) with (pred k V dd i).
  - unfold pred. ring.
  - subst k. unfold poly_sum, pred, V, dd. apply rsum_ext. intros; ring.
Qed.

Lemma gram_positive_semidefinite k x d : length d = k ->
  0 <= rsum (fun j => nth j d 0 * rsum (fun l => gram_entry x j l * nth l d 0) k) k.
Proof. intros Hd. rewrite (gram_quadratic k x d Hd). apply rsum_sq_nonneg. Qed.

Lemma gram_positive_definite k x d :
  has_distinct k x -> length d = k -> ~ all_zero d ->
  0 < rsum (fun j => nth j d 0 * rsum (fun l => gram_entry x j l * nth l d 0) k) k.
Proof.
  intros Hdist Hd Hnz.
  pose proof (gram_positive_semidefinite k x d Hd) as Hge.
  destruct (Rle_lt_or_eq_dec _ _ Hge) as [Hlt|Heq]; [exact Hlt|].
  exfalso. apply Hnz. apply (vandermonde_full_rank k x); auto.
  intros i Hi. rewrite (gram_quadratic k x d Hd) in Heq. symmetry in Heq.
  exact (rsum_sq_zero _ _ Heq i Hi).
Qed.

(** on ANY carrier with a commutative product (binary64 included) the matrix handed to the inner
    solve is symmetric entry for entry: bit-symmetric, so the crate's [is_symmetric] test passes *)
Lemma fit_gram_symmetric {T} (O : Ops T) k x y G :
  (forall a b, mul O a b = mul O b a) -> fit_gram O k x y = Some G ->
  forall j l, (j < k)%nat -> (l < k)%nat -> nth (j * k + l) G (zero O) = nth (l * k + j) G (zero O).
Proof.
  intros Hcomm HG j l Hj Hl. unfold fit_gram in HG.
  destruct (Nat.eqb_spec (length x) (length y)) as [E|E]; cbn [guard bind] in HG; [|discriminate].
  unfold xtx in HG.
  destruct (C14.matmul_some_length O _ _ _ _ _ _ _ HG) as (ca & cb & _ & _ & Hn & _).
  destruct (matmul_tf_ok O (vandermonde O x k) (vandermonde O x k) (length x) k k Hn)
    as (G' & HG' & _ & He); try apply vandermonde_length.
  rewrite HG in HG'. injection HG' as <-.
  rewrite !He by auto. apply C05.sumk_ext. intros i Hi. apply Hcomm.
Qed.

(** with [k] distinct abscissae the matrix handed to the inner solve is nonsingular and symmetric
    positive definite: the side condition under which C01/C11 prove the inner routine correct *)
Lemma gram_is_nonsingular_spd k x G :
  has_distinct k x -> is_gram k x G -> nonsingular k G /\ sym_pos_def k G.
Proof.
  intros Hdist (Hl & He). split; [|split].
  - intros d Hd Hz. apply (gram_nonsingular k x d Hdist Hd).
    intros j Hj. etransitivity; [|exact (Hz j Hj)]. apply rsum_ext. intros l Hl'. rewrite He by auto. reflexivity.
  - intros j l Hj Hl'. rewrite !He by auto. apply gram_symmetric.
  - intros d Hd Hnz. pose proof (gram_positive_definite k x d Hdist Hd Hnz) as Hpos.
    erewrite rsum_ext; [exact Hpos|].
    intros j Hj. cbv beta. f_equal. apply rsum_ext. intros l Hl'. rewrite He by auto. reflexivity.
Qed.

(** so a routine that is correct on nonsingular symmetric positive definite matrices meets the
    hypothesis of the fit theorems whenever there are [k] distinct abscissae *)
Lemma inverse_ok_at_of_spd inv k x y :
  (forall n A Ai, length A = (n * n)%nat -> nonsingular n A /\ sym_pos_def n A ->
                  inv A = Some Ai -> right_inverse n A Ai) ->
  has_distinct k x -> small k -> inverse_ok_at inv k x y.
Proof.
  intros Hinv Hdist Hk.
  apply (inverse_ok_at_of_conditional (fun n A => nonsingular n A /\ sym_pos_def n A)); auto.
  intros G HG. apply (gram_is_nonsingular_spd k x G Hdist HG).
Qed.
