(** List lemmas for C12: [upd], [mapi], [mapM], [for_opt], [zip_assign], [unflatten], [concat] of uniform rows,
    [tabulate], extensionality of flat row-major arrays. *)
From Coq Require Import List Arith Bool Lia.
From Compute Require Import Base.ListMat Model.Broadcast Spec.Broadcast.
Import ListNotations.

Section Lists.
  Context {A : Type}.

  Lemma length_upd (l : list A) i v : length (upd l i v) = length l.
  Proof. revert i; induction l as [|a l IH]; intros [|i]; cbn; auto. Qed.

  Lemma nth_upd_eq (l : list A) i v d : i < length l -> nth i (upd l i v) d = v.
  Proof. revert i; induction l as [|a l IH]; intros [|i]; cbn; intros H; try lia; auto. apply IH; lia. Qed.

  Lemma nth_upd_neq (l : list A) i k v d : k <> i -> nth k (upd l i v) d = nth k l d.
  Proof.
    revert i k; induction l as [|a l IH]; intros [|i] [|k]; cbn; intros H; try lia; auto.
  Qed.

  Lemma length_mapi_from {B} (f : nat -> A -> B) s l : length (mapi_from s f l) = length l.
  Proof. revert s; induction l as [|a l IH]; intros s; cbn; auto. Qed.

  Lemma nth_mapi_from {B} (f : nat -> A -> B) s l k d d' :
    k < length l -> nth k (mapi_from s f l) d' = f (s + k) (nth k l d).
  Proof.
    revert s k; induction l as [|a l IH]; intros s [|k]; cbn; intros H; try lia.
    - f_equal; lia.
    - rewrite IH by lia. f_equal; lia.
  Qed.

  Lemma length_mapi {B} (f : nat -> A -> B) l : length (mapi f l) = length l.
  Proof. apply length_mapi_from. Qed.

  Lemma nth_mapi {B} (f : nat -> A -> B) l k d d' :
    k < length l -> nth k (mapi f l) d' = f k (nth k l d).
  Proof. intros H. unfold mapi. rewrite (nth_mapi_from f 0 l k d d') by exact H. reflexivity. Qed.

  Lemma mapM_some {B} (f : A -> option B) (g : A -> B) l :
    (forall a, In a l -> f a = Some (g a)) -> mapM f l = Some (map g l).
  Proof.
    induction l as [|a l IH]; cbn; intros H; [reflexivity|].
    rewrite (H a) by auto. cbn. rewrite IH by auto. reflexivity.
  Qed.

  Lemma for_opt_app {S} (l1 l2 : list nat) (body : S -> nat -> option S) s :
    for_opt (l1 ++ l2) body s = bind (for_opt l1 body s) (for_opt l2 body).
  Proof.
    revert s; induction l1 as [|i l1 IH]; intros s; cbn; [reflexivity|].
    destruct (body s i); cbn; auto.
  Qed.

  Lemma nth_error_nth_some (l : list A) i d : i < length l -> nth_error l i = Some (nth i l d).
  Proof. intros H. apply nth_error_nth'. exact H. Qed.

  (** rows of a flat array *)
  Lemma length_unflatten (a : list A) nr nc : length (unflatten a nr nc) = nr.
  Proof. unfold unflatten. rewrite map_length, seq_length. reflexivity. Qed.

  Lemma nth_unflatten (a : list A) nr nc i : i < nr -> nth i (unflatten a nr nc) [] = row_of a nc i.
  Proof.
    intros H. unfold unflatten.
    rewrite (nth_indep _ [] (row_of a nc 0)) by (rewrite map_length, seq_length; exact H).
    rewrite map_nth, seq_nth by exact H. reflexivity.
  Qed.

  Lemma length_row_of (a : list A) nr nc i : length a = nr * nc -> i < nr -> length (row_of a nc i) = nc.
  Proof.
    intros Hl Hi. unfold row_of. rewrite firstn_length, skipn_length, Hl. nia.
  Qed.

  Lemma nth_firstn_lt n (l : list A) j d : j < n -> nth j (firstn n l) d = nth j l d.
  Proof.
    revert l j; induction n as [|n IH]; intros l j H; [lia|].
    destruct l as [|a l]; [reflexivity|]. destruct j as [|j]; cbn; [reflexivity|]. apply IH; lia.
  Qed.

  Lemma nth_skipn_add n (l : list A) j d : nth j (skipn n l) d = nth (n + j) l d.
  Proof.
    revert l; induction n as [|n IH]; intros l; [reflexivity|].
    destruct l as [|a l]; cbn; [destruct j; reflexivity|]. apply IH.
  Qed.

  Lemma nth_row_of (a : list A) nc i j d : j < nc -> nth j (row_of a nc i) d = nth (i * nc + j) a d.
  Proof.
    intros Hj. unfold row_of. rewrite nth_firstn_lt by exact Hj. apply nth_skipn_add.
  Qed.

  (** concatenation of rows of uniform length *)
  Lemma length_concat_uniform (R : list (list A)) c :
    (forall r, In r R -> length r = c) -> length (concat R) = length R * c.
  Proof.
    induction R as [|r R IH]; cbn; intros H; [reflexivity|].
    rewrite app_length, IH by auto. rewrite (H r) by auto. reflexivity.
  Qed.

  Lemma nth_concat_uniform (R : list (list A)) c i j d :
    (forall r, In r R -> length r = c) -> i < length R -> j < c ->
    nth (i * c + j) (concat R) d = nth j (nth i R []) d.
  Proof.
    revert i; induction R as [|r R IH]; cbn; intros i H Hi Hj; [lia|].
    destruct i as [|i]; cbn.
    - rewrite app_nth1 by (rewrite (H r) by auto; exact Hj). reflexivity.
    - rewrite app_nth2 by (rewrite (H r) by auto; lia).
      rewrite (H r) by auto. replace (c + i * c + j - c) with (i * c + j) by lia.
      apply IH; auto; lia.
  Qed.

  (** two flat R x C arrays with the same entries are equal *)
  Lemma flat_ext (a b : list A) R C d :
    length a = R * C -> length b = R * C ->
    (forall i j, i < R -> j < C -> nth (i * C + j) a d = nth (i * C + j) b d) -> a = b.
  Proof.
    intros Ha Hb H. apply (nth_ext a b d d); [lia|].
    intros k Hk. rewrite Ha in Hk.
    assert (HC : C <> 0) by (intros ->; lia).
    rewrite (Nat.div_mod k C HC), (Nat.mul_comm C).
    apply H; [|apply Nat.mod_upper_bound; exact HC].
    apply Nat.div_lt_upper_bound; [exact HC|lia].
  Qed.

  (** tabulated rows *)
  Lemma length_tabulate R C (f : nat -> nat -> A) : length (tabulate R C f) = R.
  Proof. unfold tabulate. rewrite map_length, seq_length. reflexivity. Qed.

  Lemma nth_tabulate R C (f : nat -> nat -> A) i :
    i < R -> nth i (tabulate R C f) [] = map (fun j => f i j) (seq 0 C).
  Proof.
    intros H. unfold tabulate.
    rewrite (nth_indep _ [] (map (fun j => f 0 j) (seq 0 C))) by (rewrite map_length, seq_length; exact H).
    rewrite (map_nth (fun i => map (fun j => f i j) (seq 0 C)) (seq 0 R) 0 i), seq_nth by exact H. reflexivity.
  Qed.

  Lemma tabulate_rows_length R C (f : nat -> nat -> A) r : In r (tabulate R C f) -> length r = C.
  Proof.
    unfold tabulate. rewrite in_map_iff. intros [i [<- _]]. rewrite map_length, seq_length. reflexivity.
  Qed.

  Lemma nth_nth_tabulate R C (f : nat -> nat -> A) i j d :
    i < R -> j < C -> nth j (nth i (tabulate R C f) []) d = f i j.
  Proof.
    intros Hi Hj. rewrite nth_tabulate by exact Hi.
    rewrite (nth_indep _ d (f i 0)) by (rewrite map_length, seq_length; exact Hj).
    rewrite (map_nth (fun j => f i j) (seq 0 C) 0 j), seq_nth by exact Hj. reflexivity.
  Qed.

  (** rows that have the tabulated shape and entries are the tabulated rows *)
  Lemma tabulate_ext (M : list (list A)) R C (f : nat -> nat -> A) d :
    length M = R -> (forall i, i < R -> length (nth i M []) = C) ->
    (forall i j, i < R -> j < C -> nth j (nth i M []) d = f i j) ->
    M = tabulate R C f.
  Proof.
    intros HR HC H. apply (nth_ext M (tabulate R C f) [] []); [rewrite length_tabulate; exact HR|].
    intros i Hi. rewrite HR in Hi.
    apply (nth_ext _ _ d d).
    - rewrite HC by exact Hi. rewrite nth_tabulate by exact Hi. rewrite map_length, seq_length. reflexivity.
    - intros j Hj. rewrite HC in Hj by exact Hi.
      rewrite H by assumption. rewrite nth_nth_tabulate by assumption. reflexivity.
  Qed.

  (** [zip_assign] *)
  Lemma length_zip_assign (f : A -> A -> A) xs ys : length (zip_assign f xs ys) = length xs.
  Proof. revert ys; induction xs as [|x xs IH]; intros [|y ys]; cbn; auto. Qed.

  Lemma nth_zip_assign (f : A -> A -> A) xs ys j d :
    j < length xs -> j < length ys -> nth j (zip_assign f xs ys) d = f (nth j xs d) (nth j ys d).
  Proof.
    revert ys j; induction xs as [|x xs IH]; intros [|y ys] [|j]; cbn; intros H1 H2; try lia; auto.
    apply IH; lia.
  Qed.

End Lists.

Section Rows.
  Context {A : Type}.

  (** a loop that rewrites row [i] of its state at iteration [i] *)
  Lemma for_opt_rows (g : nat -> list A -> list A)
        (body : list (list A) -> nat -> option (list (list A))) n (R : list (list A)) :
    (forall new i, i < n -> length new = length R ->
                   body new i = Some (upd new i (g i (nth i new [])))) ->
    n <= length R ->
    for_opt (seq 0 n) body R = Some (mapi (fun i r => if i <? n then g i r else r) R).
  Proof.
    intros Hb. induction n as [|n IH]; intros Hn.
    - cbn [seq for_opt]. f_equal. apply (nth_ext _ _ [] []); [rewrite length_mapi; reflexivity|].
      intros k Hk. rewrite (nth_mapi _ R k [] []) by exact Hk. reflexivity.
    - rewrite seq_S, for_opt_app, IH by (auto; lia). cbn [bind for_opt Nat.add].
      rewrite Hb by (rewrite ?length_mapi; lia). cbn [bind]. f_equal.
      apply (nth_ext _ _ [] []); [rewrite length_upd, !length_mapi; reflexivity|].
      intros k Hk. rewrite length_upd, length_mapi in Hk.
      rewrite (nth_mapi _ R k [] []) by exact Hk.
      destruct (Nat.eq_dec k n) as [->|Hne].
      + rewrite nth_upd_eq by (rewrite length_mapi; lia).
        rewrite (nth_mapi _ R n [] []) by lia.
        rewrite Nat.ltb_irrefl. replace (n <? S n) with true by (symmetry; apply Nat.ltb_lt; lia).
        reflexivity.
      + rewrite nth_upd_neq by exact Hne.
        rewrite (nth_mapi _ R k [] []) by exact Hk.
        destruct (Nat.ltb_spec k n), (Nat.ltb_spec k (S n)); try lia; reflexivity.
  Qed.

  Lemma for_opt_rows_all (g : nat -> list A -> list A)
        (body : list (list A) -> nat -> option (list (list A))) (R : list (list A)) :
    (forall new i, i < length R -> length new = length R ->
                   body new i = Some (upd new i (g i (nth i new [])))) ->
    for_opt (seq 0 (length R)) body R = Some (mapi g R).
  Proof.
    intros Hb. rewrite (for_opt_rows g body (length R) R Hb (le_n _)). f_equal.
    apply (nth_ext _ _ [] []); [rewrite !length_mapi; reflexivity|].
    intros k Hk. rewrite length_mapi in Hk.
    rewrite !(nth_mapi _ R k [] []) by exact Hk.
    replace (k <? length R) with true by (symmetry; apply Nat.ltb_lt; exact Hk). reflexivity.
  Qed.

  Lemma for_opt_rows_n (g : nat -> list A -> list A)
        (body : list (list A) -> nat -> option (list (list A))) n (R : list (list A)) :
    n = length R ->
    (forall new i, i < n -> length new = n -> body new i = Some (upd new i (g i (nth i new [])))) ->
    for_opt (seq 0 n) body R = Some (mapi g R).
  Proof. intros -> Hb. apply for_opt_rows_all. exact Hb. Qed.
End Rows.

Section Maps.
  Context {A B C : Type}.

  Lemma length_map2 (f : A -> B -> C) l1 l2 : length (map2 f l1 l2) = Nat.min (length l1) (length l2).
  Proof. revert l2; induction l1 as [|a l1 IH]; intros [|b l2]; cbn; auto. Qed.

  Lemma nth_map2 (f : A -> B -> C) l1 l2 k d1 d2 d :
    k < length l1 -> k < length l2 -> nth k (map2 f l1 l2) d = f (nth k l1 d1) (nth k l2 d2).
  Proof.
    revert l2 k; induction l1 as [|a l1 IH]; intros [|b l2] [|k]; cbn; intros H1 H2; try lia; auto.
    apply IH; lia.
  Qed.

  Lemma nth_map_lt (f : A -> B) l k d d' : k < length l -> nth k (map f l) d' = f (nth k l d).
  Proof.
    intros H. rewrite (nth_indep _ d' (f d)) by (rewrite map_length; exact H). apply map_nth.
  Qed.
End Maps.
