(** * Tie A for C07: the hand-written model [Model/Quad.v] IS the source ([trapz], [quad5], sampled [trapezoid]).
    [Generated/quad_loops.v] is produced on every run by tools/tiea/quad_loops.py (statement-level translator
    [LoopTranslator] of tools/rsexpr.py) from src/integrate/{functions,samples}.rs.  Each lemma states that the generated
    function and the model's function agree for EVERY carrier, operations record, integrand and input; the proofs are
    inductions over the counted loops and the lemmas of [Proofs/RsExprLemmas.v]; no law of the carrier is used.
    [usize] arguments of the source are [Z], of the model [nat]: the statements inject.  [romberg] is refused by the
    translator (Matrix tableau). *)
From Coq Require Import List ZArith QArith Arith Bool Lia.
From Compute Require Import Base.Ops Base.ListMat Base.RsExpr Generated.quad_tables Model.Quad Generated.quad_loops
  Proofs.RsExprLemmas.
Import ListNotations.
Local Close Scope Q_scope.

Section TieA.
  Context {T : Type} (O : Ops T).

  (** ** trapz: the iterator sum over [1..n] is the counted loop [ksum] *)
  Lemma ksum_fold : forall (f : T -> T) (a dx : T) (cnt : nat) (k : Z) (s : T),
    fold_left (add O) (map (fun k => f (add O a (mul O (ofZ O k) dx))) (rs_seq k cnt)) s = ksum O f a dx cnt k s.
  Proof. intros f a dx. induction cnt as [|c IH]; intros k s; [reflexivity|]. cbn [rs_seq map fold_left ksum]. apply IH. Qed.
  Lemma tiea_trapz : forall (f : T -> T) (a b : T) (n : nat), src_trapz O f a b (Z.of_nat n) = trapz O f a b n.
  Proof.
    intros f a b n. unfold src_trapz, trapz, rs_iter_sum, rs_range_excl, negzero, ofN. cbv zeta.
    replace (Z.to_nat (Z.of_nat n - 1)) with (n - 1) by lia. rewrite ksum_fold. reflexivity.
  Qed.

  (** ** quad5: the five checked table reads are in bounds; the iterator sum is the model's fold over the paired tables *)
  Lemma tiea_quad5 : forall (f : T -> T) (a b : T), src_quad5 O f a b = Some (quad5 O f a b).
  Proof. intros f a b. reflexivity. Qed.

  (** ** sampled trapezoid *)
  (** [(1..x.len()).map(|i| x[i] - x[i - 1])] is the model's [diffs] *)
  Lemma diffs_src : forall xa : list T,
    rs_map_opt (fun i => let* g1 := rs_get xa i in let* g2 := rs_get xa (rs_usub i 1) in Some (sub O g1 g2))
               (rs_range_excl 1 (rs_len xa))
    = Some (diffs O xa).
  Proof.
    intro xa. unfold rs_len, diffs.
    replace (rs_range_excl 1 (Z.of_nat (length xa))) with (rs_seq 1 (length xa - 1)) by (unfold rs_range_excl; f_equal; lia).
    rewrite (rs_map_opt_seq _ (fun k => sub O (nth (S k) xa (zero O)) (nth k xa (zero O)))).
    - f_equal. replace (length xa - 1) with (length (map2 (sub O) (tl xa) xa)).
      + apply (map_seq_eq_nth _ _ (zero O)). intros k Hk. rewrite map2_len_min in Hk.
        rewrite (map2_nth_d _ _ _ k (zero O) (zero O)) by lia. now rewrite nth_tl_S.
      + rewrite map2_len_min. destruct xa; cbn [tl length]; lia.
    - intros k Hk. replace (1 + Z.of_nat k)%Z with (Z.of_nat (S k)) by lia. rewrite rs_usub_S_1.
      rewrite (rs_get_some xa (S k) (zero O)) by lia. rewrite (rs_get_some xa k (zero O)) by lia. reflexivity.
  Qed.
  (** the final sum's terms: checked reads of [y[i]], [y[i-1]], [diff_x[i-1]] are in bounds *)
  Lemma trapezoid_terms_src : forall y d : list T, length d = length y - 1 ->
    rs_map_opt (fun i => let* g8 := rs_get y i in let* g9 := rs_get y (rs_usub i 1) in let* g10 := rs_get d (rs_usub i 1) in
                         Some (mul O (div O (add O g8 g9) (two O)) g10)) (rs_range_excl 1 (rs_len y))
    = Some (map2 (fun s d => mul O (div O s (two O)) d) (map2 (add O) (tl y) y) d).
  Proof.
    intros y d Hd. unfold rs_len.
    replace (rs_range_excl 1 (Z.of_nat (length y))) with (rs_seq 1 (length y - 1)) by (unfold rs_range_excl; f_equal; lia).
    rewrite (rs_map_opt_seq _ (fun k => mul O (div O (add O (nth (S k) y (zero O)) (nth k y (zero O))) (two O)) (nth k d (zero O)))).
    - f_equal.
      assert (L1 : length (map2 (add O) (tl y) y) = length y - 1) by (rewrite map2_len_min; destruct y; cbn [tl length]; lia).
      replace (length y - 1) with (length (map2 (fun s d => mul O (div O s (two O)) d) (map2 (add O) (tl y) y) d))
        by (rewrite map2_len_min; lia).
      apply (map_seq_eq_nth _ _ (zero O)). intros k Hk. rewrite map2_len_min in Hk.
      rewrite (map2_nth_d _ _ _ k (zero O) (zero O)) by lia.
      rewrite (map2_nth_d _ _ _ k (zero O) (zero O)) by (rewrite map2_len_min in L1; lia).
      now rewrite nth_tl_S.
    - intros k Hk. replace (1 + Z.of_nat k)%Z with (Z.of_nat (S k)) by lia. rewrite rs_usub_S_1.
      rewrite (rs_get_some y (S k) (zero O)) by lia. rewrite (rs_get_some y k (zero O)) by lia.
      rewrite (rs_get_some d k (zero O)) by lia. reflexivity.
  Qed.
  (** [y] is assumed to fit the address space ([Vector::ones(y.len() - 1)] passes the allocation's capacity check) *)
  Lemma tiea_trapezoid : forall (y : list T) (x : option (list T)) (dx : option T),
    (Z.of_nat (length y) <= 1152921504606846976)%Z -> src_trapezoid O y x dx = trapezoid O y x dx.
  Proof.
    intros y x dx Hy. unfold src_trapezoid, trapezoid. destruct x as [xa|].
    - unfold rs_len at 1 2. rewrite Zeqb_of_nat. destruct (length y =? length xa)%nat eqn:E; [|reflexivity].
      apply Nat.eqb_eq in E. cbn [guard bind]. destruct dx as [d|]; [reflexivity|]. cbn [guard bind].
      rewrite diffs_src. cbn [bind]. cbv zeta.
      rewrite trapezoid_terms_src by (unfold diffs; rewrite map2_len_min; destruct xa; cbn [tl length] in *; lia).
      reflexivity.
    - destruct y as [|y0 y'].
      + reflexivity.
      + unfold rs_len at 1. cbn [length]. rewrite rs_usub_S_1.
        rewrite rs_vec_alloc_nat by (cbn [length] in Hy; lia). cbn [bind]. cbv zeta.
        rewrite map_repeat_const.
        rewrite trapezoid_terms_src by (rewrite map_length; cbn [length]; lia).
        reflexivity.
  Qed.
End TieA.
