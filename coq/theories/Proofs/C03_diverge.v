(** Proofs for C03, part 5 (binary64): the formal content of defect D10.  The inner loop of the Marsaglia-Tsang
    sampler, [loop { x = normal(); v = (1 + x / sqrt(9 d))^3; if v > 0 { break } }], can never exit when [9 d] is
    negative: the square root is NaN, NaN propagates through the division, the sum and the cube, and [NaN > 0] is false.
    Before the repair [d = alpha - 1/3] for every shape, so [Gamma::new(alpha, _)] with [alpha < 1/3] (and everything
    built on it) looped forever, on every random stream; after the repair [d = max(alpha, alpha + 1) - 1/3 >= 2/3]. *)
From Coq Require Import List ZArith NArith Floats Bool.
From Compute Require Import Base.Ops Base.ListMat Base.Rng Model.Samplers.
Import ListNotations.

Definition fnan (x : float) : Prop := Prim2SF x = S754_nan.

Lemma fnan_mul_l x y : fnan x -> fnan (x * y)%float.
Proof. unfold fnan. intros H. rewrite mul_spec, H. reflexivity. Qed.
Lemma fnan_mul_r x y : fnan y -> fnan (x * y)%float.
Proof. unfold fnan. intros H. rewrite mul_spec, H. destruct (Prim2SF x) as [| | |[] ? ?]; reflexivity. Qed.
Lemma fnan_div_r x y : fnan y -> fnan (x / y)%float.
Proof. unfold fnan. intros H. rewrite div_spec, H. destruct (Prim2SF x) as [| | |[] ? ?]; reflexivity. Qed.
Lemma fnan_add_r x y : fnan y -> fnan (x + y)%float.
Proof. unfold fnan. intros H. rewrite add_spec, H. destruct (Prim2SF x) as [| | |[] ? ?]; reflexivity. Qed.
Lemma fnan_not_gt_zero x : fnan x -> (0 <? x)%float = false.
Proof. unfold fnan. intros H. rewrite ltb_spec, H. reflexivity. Qed.
Lemma sqrt_of_negative_is_nan x : (x <? 0)%float = true -> fnan (PrimFloat.sqrt x).
Proof.
  unfold fnan. rewrite ltb_spec, sqrt_spec. 
  destruct (Prim2SF x) as [[]|[]| |[] m e]; cbn; try discriminate; try reflexivity.
Qed.

Section Diverge.
  Context (t : libm_table) {S : Type} (src : source S float).
  Local Notation O := (FO t).

  Lemma cube_nan a : fnan a -> fnan (powi O a 3).
  Proof. intros H. cbn. apply fnan_mul_r. apply fnan_mul_l. exact H. Qed.

  (** the candidate [v] is NaN whatever the normal variate [x] is *)
  Lemma candidate_nan d x :
    ltb O (mul O (ofZ O 9) d) (zero O) = true ->
    fnan (powi O (add O (one O) (div O x (sqrt O (mul O (ofZ O 9) d)))) 3).
  Proof.
    intros H. apply cube_nan. apply fnan_add_r. apply fnan_div_r. apply sqrt_of_negative_is_nan. exact H.
  Qed.

  Theorem gamma_xv_never_exits fuel nfuel d :
    ltb O (mul O (ofZ O 9) d) (zero O) = true ->
    forall s r, gamma_xv O src fuel nfuel d s <> Ok r.
  Proof.
    intros Hd. induction fuel as [|fuel IH]; intros s r; [discriminate|]. cbn [gamma_xv].
    destruct (normal_sample O src nfuel (zero O) (one O) s) as [[x s1]| |]; cbn [res_bind]; try discriminate.
    change (ltb O (zero O) ?v) with (PrimFloat.ltb 0 v).
    rewrite (fnan_not_gt_zero _ (candidate_nan d x Hd)). apply IH.
  Qed.

  Theorem gamma_loop_never_returns fuel ifuel d beta boost :
    ltb O (mul O (ofZ O 9) d) (zero O) = true ->
    forall s r, gamma_loop O src fuel ifuel d beta boost s <> Ok r.
  Proof.
    intros Hd. destruct fuel as [|fuel]; intros s r; [discriminate|]. cbn [gamma_loop].
    destruct (gamma_xv O src ifuel ifuel d s) as [[[x v] s1]| |] eqn:E; cbn [res_bind]; try discriminate.
    exfalso. eapply gamma_xv_never_exits; eassumption.
  Qed.

  (** the sampler as it was before the repair (commit 3004662): [d = alpha - 1/3] for every shape, no boost *)
  Definition gamma_sample_before_fix (fuel : nat) (alpha beta : float) (s : S) : res (float * S) :=
    gamma_loop O src fuel fuel (sub O alpha (div O (one O) (ofZ O 3))) beta (one O) s.

  Theorem gamma_small_shape_diverges fuel alpha beta s :
    ltb O (mul O (ofZ O 9) (sub O alpha (div O (one O) (ofZ O 3)))) (zero O) = true ->
    forall r, gamma_sample_before_fix fuel alpha beta s <> Ok r.
  Proof. intros H r. apply gamma_loop_never_returns. exact H. Qed.
End Diverge.

(** the hypothesis holds for shapes below the binary64 nearest to 1/3: 2^-1074, 0.01, 0.1, 0.2, 0.25, 0.3, 0.33, pred(fl(1/3)), and fails from fl(1/3) on *)
Example small_shapes_satisfy_the_hypothesis :
  forallb (fun alpha => PrimFloat.ltb (float_ofZ 9 * (alpha - 1 / float_ofZ 3)) 0)
          [0x1p-1074; 0x1.47ae147ae147bp-7; 0x1.999999999999ap-4; 0x1.999999999999ap-3; 0.25; 0x1.3333333333333p-2; 0x1.51eb851eb851fp-2; 0x1.5555555555554p-2]%float = true /\
  forallb (fun alpha => negb (PrimFloat.ltb (float_ofZ 9 * (alpha - 1 / float_ofZ 3)) 0))
          [0x1.5555555555555p-2; 0x1.999999999999ap-2; 0.5; 1; 2]%float = true.
Proof. split; vm_compute; reflexivity. Qed.
