(** * List lemmas for C15: flat row-major lists vs. lists of rows. *)
From Coq Require Import List Arith Bool Lia.
From Compute Require Import Base.ListMat.
Import ListNotations.

Section Lists.
  Context {A : Type}.
  Implicit Types (a b l : list A) (m : list (list A)).

  Lemma nth_skipn' : forall n l i d, nth i (skipn n l) d = nth (n + i) l d.
  Proof. induction n as [|n IH]; intros [|x l] i d; simpl; auto. destruct i; auto. Qed.

  Lemma nth_firstn' : forall n l i d, i < n -> nth i (firstn n l) d = nth i l d.
  Proof.
    induction n as [|n IH]; intros l i d Hi; [lia|]. destruct l as [|x l]; simpl; auto.
    destruct i; auto. apply IH; lia.
  Qed.

  Lemma skipn_add : forall n k l, skipn (n + k) l = skipn k (skipn n l).
  Proof. induction n as [|n IH]; intros k [|x l]; simpl; auto. now rewrite skipn_nil. Qed.

  Lemma firstn_app_le : forall n a b, n <= length a -> firstn n (a ++ b) = firstn n a.
  Proof. intros. rewrite firstn_app. replace (n - length a) with 0 by lia. simpl. apply app_nil_r. Qed.

  Lemma skipn_app_le : forall n a b, n <= length a -> skipn n (a ++ b) = skipn n a ++ b.
  Proof. intros. rewrite skipn_app. replace (n - length a) with 0 by lia. reflexivity. Qed.

  Lemma firstn_app_exact : forall a b, firstn (length a) (a ++ b) = a.
  Proof. intros. rewrite firstn_app_le by lia. apply firstn_all. Qed.

  Lemma skipn_app_exact : forall a b, skipn (length a) (a ++ b) = b.
  Proof. intros. rewrite skipn_app_le by lia. now rewrite skipn_all. Qed.

  (** ** [upd], [mapi] *)
  Lemma length_upd : forall l i (v : A), length (upd l i v) = length l.
  Proof. induction l as [|x l IH]; intros [|i] v; simpl; auto. Qed.

  Lemma nth_upd : forall l i (v : A) k d,
    nth k (upd l i v) d = if (k =? i) && (i <? length l) then v else nth k l d.
  Proof.
    induction l as [|x l IH]; intros i v k d.
    - simpl. rewrite andb_false_r. destruct i; reflexivity.
    - destruct i as [|i]; destruct k as [|k]; simpl; auto.
      rewrite IH. reflexivity.
  Qed.

  Lemma nth_upd_eq : forall l i (v : A) d, i < length l -> nth i (upd l i v) d = v.
  Proof. intros. rewrite nth_upd, Nat.eqb_refl. apply Nat.ltb_lt in H. now rewrite H. Qed.

  Lemma nth_upd_neq : forall l i (v : A) k d, k <> i -> nth k (upd l i v) d = nth k l d.
  Proof. intros. rewrite nth_upd. apply Nat.eqb_neq in H. now rewrite H. Qed.

  Lemma upd_out : forall l i (v : A), length l <= i -> upd l i v = l.
  Proof. induction l as [|x l IH]; intros [|i] v H; simpl in *; auto; try lia. f_equal. apply IH. lia. Qed.

  Lemma length_mapi_from : forall {B} (f : nat -> A -> B) l s, length (mapi_from s f l) = length l.
  Proof. intros B f. induction l as [|x l IH]; intros s; simpl; auto. Qed.
  Lemma length_mapi : forall {B} (f : nat -> A -> B) l, length (mapi f l) = length l.
  Proof. intros. apply length_mapi_from. Qed.

  Lemma nth_mapi_from : forall {B} (f : nat -> A -> B) l s k d d',
    k < length l -> nth k (mapi_from s f l) d' = f (s + k) (nth k l d).
  Proof.
    intros B f. induction l as [|x l IH]; intros s k d d' Hk; simpl in *; [lia|].
    destruct k as [|k]. - now rewrite Nat.add_0_r. - rewrite (IH (S s) k d d') by lia. f_equal. lia.
  Qed.
  Lemma nth_mapi : forall {B} (f : nat -> A -> B) l k d d',
    k < length l -> nth k (mapi f l) d' = f k (nth k l d).
  Proof. intros. unfold mapi. now rewrite (nth_mapi_from f l 0 k d d'). Qed.

End Lists.

Section Rows.
  Context {A : Type}.
  Implicit Types (a b l : list A) (m : list (list A)).

  (** ** rows of a flat list *)
  Lemma nth_row_of : forall a nc i j d, j < nc -> nth j (row_of a nc i) d = nth (i * nc + j) a d.
  Proof. intros. unfold row_of. rewrite nth_firstn' by auto. apply nth_skipn'. Qed.

  Lemma length_row_of : forall a nc i, (i + 1) * nc <= length a -> length (row_of a nc i) = nc.
  Proof. intros. unfold row_of. rewrite firstn_length, skipn_length. nia. Qed.

  Lemma row_of_S : forall a nc i, row_of a nc (S i) = row_of (skipn nc a) nc i.
  Proof. intros. unfold row_of. simpl. now rewrite skipn_add. Qed.

  Lemma row_of_0 : forall a nc, row_of a nc 0 = firstn nc a.
  Proof. reflexivity. Qed.

  Lemma unflatten_S : forall a nr nc,
    unflatten a (S nr) nc = firstn nc a :: unflatten (skipn nc a) nr nc.
  Proof.
    intros. unfold unflatten. simpl. f_equal. rewrite <- seq_shift, map_map.
    apply map_ext. intros i. apply row_of_S.
  Qed.

  Lemma unflatten_0 : forall a nc, unflatten a 0 nc = [].
  Proof. reflexivity. Qed.

  Lemma length_unflatten : forall a nr nc, length (unflatten a nr nc) = nr.
  Proof. intros. unfold unflatten. now rewrite map_length, seq_length. Qed.

  Lemma nth_unflatten : forall a nr nc i, i < nr -> nth i (unflatten a nr nc) [] = row_of a nc i.
  Proof.
    intros. unfold unflatten.
    rewrite (nth_indep _ [] (row_of a nc 0)) by now rewrite map_length, seq_length.
    rewrite map_nth. now rewrite seq_nth.
  Qed.

  Lemma ent_unflatten : forall d a nr nc i j,
    i < nr -> j < nc -> ent d (unflatten a nr nc) i j = nth (i * nc + j) a d.
  Proof. intros. unfold ent. rewrite nth_unflatten by auto. now apply nth_row_of. Qed.

  Lemma concat_unflatten : forall nr nc a, length a = nr * nc -> concat (unflatten a nr nc) = a.
  Proof.
    induction nr as [|nr IH]; intros nc a H.
    - destruct a; simpl in *; [reflexivity|discriminate].
    - rewrite unflatten_S. simpl. rewrite IH. + apply firstn_skipn. + rewrite skipn_length. simpl in H. lia.
  Qed.

  Lemma unflatten_concat : forall m k,
    Forall (fun r => length r = k) m -> unflatten (concat m) (length m) k = m.
  Proof.
    induction m as [|r m IH]; intros k H; [reflexivity|].
    inversion H as [|? ? Hr Hm]; subst. simpl length. rewrite unflatten_S. simpl concat.
    rewrite firstn_app_exact, skipn_app_exact. f_equal. now apply IH.
  Qed.

  Lemma unflatten_app : forall nr nr' nc a b, length a = nr * nc ->
    unflatten (a ++ b) (nr + nr') nc = unflatten a nr nc ++ unflatten b nr' nc.
  Proof.
    induction nr as [|nr IH]; intros nr' nc a b H.
    - destruct a; simpl in *; [reflexivity|discriminate].
    - simpl plus. rewrite !unflatten_S. simpl in H.
      rewrite firstn_app_le, skipn_app_le by lia. simpl. f_equal. apply IH. rewrite skipn_length. lia.
  Qed.

  Lemma unflatten_rows_length : forall a nr nc, nr * nc <= length a ->
    Forall (fun r => length r = nc) (unflatten a nr nc).
  Proof.
    intros. apply Forall_forall. intros r Hr. unfold unflatten in Hr.
    apply in_map_iff in Hr. destruct Hr as [i [<- Hi]]. apply in_seq in Hi.
    apply length_row_of. nia.
  Qed.

  Lemma hd_unflatten : forall a nr nc, 0 < nr -> hd [] (unflatten a nr nc) = row_of a nc 0.
  Proof. intros. destruct nr; [lia|]. now rewrite unflatten_S. Qed.

  (** rows are determined by their entries *)
  Lemma rows_ext : forall d m1 m2 nr nc,
    length m1 = nr -> length m2 = nr ->
    Forall (fun r => length r = nc) m1 -> Forall (fun r => length r = nc) m2 ->
    (forall i j, i < nr -> j < nc -> ent d m1 i j = ent d m2 i j) -> m1 = m2.
  Proof.
    intros d m1 m2 nr nc L1 L2 F1 F2 E.
    apply (nth_ext _ _ [] []); [congruence|]. intros i Hi.
    assert (H1 : length (nth i m1 []) = nc).
    { rewrite Forall_forall in F1. apply F1, nth_In. lia. }
    assert (H2 : length (nth i m2 []) = nc).
    { rewrite Forall_forall in F2. apply F2, nth_In. lia. }
    apply (nth_ext _ _ d d); [congruence|]. intros j Hj. apply E; lia.
  Qed.

  Lemma unflatten_ext : forall d a R nr nc,
    length a = nr * nc -> length R = nr -> Forall (fun r => length r = nc) R ->
    (forall i j, i < nr -> j < nc -> nth (i * nc + j) a d = ent d R i j) ->
    unflatten a nr nc = R.
  Proof.
    intros d a R nr nc La LR FR E.
    apply (rows_ext d _ _ nr nc); auto using length_unflatten.
    - apply unflatten_rows_length. lia.
    - intros. rewrite ent_unflatten by auto. now apply E.
  Qed.

  (** entries of an updated list of rows *)
  Lemma ent_upd_row : forall d m i (r : list A) i' j',
    i < length m ->
    ent d (upd m i r) i' j' = if i' =? i then nth j' r d else ent d m i' j'.
  Proof.
    intros. unfold ent. rewrite nth_upd. apply Nat.ltb_lt in H. rewrite H, andb_true_r.
    destruct (i' =? i); reflexivity.
  Qed.

  Lemma Forall_upd : forall (P : list A -> Prop) m i r, Forall P m -> P r -> Forall P (upd m i r).
  Proof.
    intros P. induction m as [|x m IH]; intros [|i] r F Pr; simpl; auto; inversion F; subst; constructor; auto.
  Qed.

  (** [fold_left] of point updates whose value is a function of the position *)
  Lemma nth_fold_upd : forall {I} (pos : I -> nat) (val : I -> A) (g : nat -> A) (ps : list I) x0 k d,
    (forall p, In p ps -> val p = g (pos p)) ->
    nth k (fold_left (fun x p => upd x (pos p) (val p)) ps x0) d =
    if existsb (fun p => pos p =? k) ps && (k <? length x0) then g k else nth k x0 d.
  Proof.
    intros I pos val g. induction ps as [|p ps IH]; intros x0 k d Hv; simpl.
    - reflexivity.
    - rewrite IH by (intros; apply Hv; now right). rewrite length_upd, nth_upd.
      rewrite (Nat.eqb_sym k (pos p)).
      destruct (pos p =? k) eqn:E; simpl.
      + apply Nat.eqb_eq in E. subst k. destruct (pos p <? length x0) eqn:L; simpl.
        * rewrite andb_true_r. destruct (existsb _ ps); auto. apply Hv. now left.
        * now rewrite andb_false_r.
      + reflexivity.
  Qed.

  Lemma length_fold_upd : forall {I} (pos : I -> nat) (val : I -> A) (ps : list I) x0,
    length (fold_left (fun x p => upd x (pos p) (val p)) ps x0) = length x0.
  Proof. intros I pos val. induction ps as [|p ps IH]; intros x0; simpl; auto. now rewrite IH, length_upd. Qed.
End Rows.

(** ** arithmetic of flat indices *)
Lemma flat_index_inj : forall nc i j i' j', j < nc -> j' < nc -> i * nc + j = i' * nc + j' -> i = i' /\ j = j'.
Proof. intros. assert (i = i') by nia. subst. split; auto. lia. Qed.

Lemma flat_div : forall nc i j, j < nc -> (i * nc + j) / nc = i.
Proof. intros. rewrite Nat.div_add_l by lia. rewrite Nat.div_small by lia. lia. Qed.

Lemma flat_mod : forall nc i j, j < nc -> (i * nc + j) mod nc = j.
Proof. intros. rewrite Nat.add_comm, Nat.mod_add by lia. now apply Nat.mod_small. Qed.

Lemma flat_lt : forall nr nc i j, i < nr -> j < nc -> i * nc + j < nr * nc.
Proof. intros. nia. Qed.

Lemma map2_map_seq : forall {A B C} (f : A -> B -> C) (g : nat -> A) (h : nat -> B) s n,
  map2 f (map g (seq s n)) (map h (seq s n)) = map (fun i => f (g i) (h i)) (seq s n).
Proof. intros A B C f g h s n. revert s. induction n as [|n IH]; intros s; simpl; auto. now rewrite IH. Qed.

Lemma concat_repeat_length : forall {A} (l : list A) n, length (concat (repeat l n)) = length l * n.
Proof. intros A l n. induction n as [|n IH]; simpl; [lia|]. rewrite app_length, IH. lia. Qed.
