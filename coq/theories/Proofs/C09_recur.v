(** C09 (extension): Gamma(z+1) = z Gamma(z) to relative 2e-16 on the direct branch and on the reflection branch (assembly). *)
From Compute Require Import Proofs.C09_base Proofs.C09 Proofs.C09_recur_base Proofs.C09_recur1 Proofs.C09_recur2 Proofs.C09_recur3.
Open Scope R_scope.

Lemma rec_ratio_all z : 1/2 <= z <= 1706/10 -> Rabs (rec_ratio z - 1) <= 2e-16.
Proof.
  intros Hz. destruct (Rle_dec z 2); [apply rec_part1; lra|].
  destruct (Rle_dec z 20); [apply rec_part2; lra|apply rec_part3; lra].
Qed.

(** direct branch: every real z in [1/2, 170.6] *)
Lemma gamma_recurrence_pos z : 1/2 <= z <= 1706/10 ->
  Rabs (gamma RO (z + 1) - z * gamma RO z) <= 2e-16 * Rabs (gamma RO (z + 1)).
Proof.
  intros Hz. rewrite !gamma_RO_ge_half by lra. apply rec_from_ratio. apply rec_ratio_all. exact Hz.
Qed.

(** reflection branch: every real z in [-170.6, -1/2] that is not a pole (sin (pi z) <> 0) *)
Lemma gamma_recurrence_neg z : -1706/10 <= z < -1/2 -> sin (PI * z) <> 0 ->
  Rabs (gamma RO (z + 1) - z * gamma RO z) <= 2e-16 * Rabs (gamma RO (z + 1)).
Proof.
  intros Hz Hs.
  rewrite (gamma_RO_lt_half (z + 1)), (gamma_RO_lt_half z) by lra.
  replace (1 - (z + 1)) with (- z) by ring. replace (1 - z) with (- z + 1) by ring.
  replace (PI * (z + 1)) with (PI * z + PI) by ring. rewrite neg_sin.
  pose proof (rec_from_ratio (- z) (rec_ratio_all (- z) ltac:(lra))) as H.
  set (g0 := gamma_pos RO (- z)) in *. set (g1 := gamma_pos RO (- z + 1)) in *.
  assert (Hg1 : g1 <> 0).
  { intros H0. rewrite H0, Rabs_R0, Rmult_0_r in H. replace (0 - - z * g0) with (z * g0) in H by ring.
    assert (Hzg : z * g0 = 0) by (pose proof (Rabs_pos (z * g0)); destruct (Req_dec (z * g0) 0); [assumption|pose proof (Rabs_pos_lt _ H2); lra]).
    (* then g0 = 0 too; but gamma_pos is positive on the range *)
    pose proof (lanczos_factors_in_range (- z + 1) ltac:(lra)) as (_ & _ & Hp). fold g1 in Hp. lra. }
  assert (Hg0 : g0 <> 0).
  { pose proof (lanczos_factors_in_range (- z) ltac:(lra)) as (_ & _ & Hp). fold g0 in Hp. lra. }
  set (s := sin (PI * z)) in *.
  replace (PI / (- s * g0) - z * (PI / (s * g1))) with (PI / (- s * g0) * ((g1 - - z * g0) / g1)) by (field; repeat split; assumption).
  rewrite Rabs_mult, (Rmult_comm 2e-16).
  apply Rmult_le_compat_l; [apply Rabs_pos|].
  unfold Rdiv at 1. rewrite Rabs_mult, Rabs_inv.
  apply Rmult_le_reg_r with (Rabs g1); [apply Rabs_pos_lt; exact Hg1|].
  rewrite Rmult_assoc, Rinv_l, Rmult_1_r by (apply Rabs_no_R0; exact Hg1). exact H.
Qed.
