(** Proofs for C11 (shared with C01): the predicates [is_symmetric] (relative tolerance) and the
    positive-diagonal test in exact arithmetic, rows level. *)
From Coq Require Import List Arith Bool Lia Reals Lra.
From Compute Require Import Base.Ops Base.ListMat Model.Reduce Model.MatMul Model.Subst
  Spec.Factor Proofs.C05 Proofs.LinAlgBase.
Import ListNotations.
Local Open Scope R_scope.

Lemma eps_pos : 0 < eps RO.
Proof.
  unfold eps. cbn [ofQ RO]. unfold Q2R. cbn [QArith_base.Qnum QArith_base.Qden].
  apply Rmult_lt_0_compat; [lra|]. apply Rinv_0_lt_compat. apply IZR_lt. reflexivity.
Qed.

Lemma fmax_RO x y : fmax RO x y = Rmax x y.
Proof.
  unfold fmax, is_nan. cbn [eqb RO ltb].
  rewrite (proj2 (Reqb_true x x) eq_refl), (proj2 (Reqb_true y y) eq_refl). cbn [negb].
  unfold Rmax. destruct (Rle_dec x y) as [H|H].
  - destruct (Rltb x y) eqn:E; auto. apply Rltb_false in E. lra.
  - destruct (Rltb x y) eqn:E; auto. apply Rltb_true in E. lra.
Qed.

(** the tolerance of the repaired [is_symmetric]: |x - y| <= eps . max(|x|, |y|) *)
Definition sym_tol (x y : R) : R := eps RO * Rmax (Rabs x) (Rabs y).

Lemma sym_tol_nonneg x y : 0 <= sym_tol x y.
Proof.
  unfold sym_tol. apply Rmult_le_pos; [pose proof eps_pos; lra|].
  apply Rle_trans with (Rabs x); [apply Rabs_pos | apply Rmax_l].
Qed.

Lemma sym_tol_sym x y : sym_tol x y = sym_tol y x.
Proof. unfold sym_tol. rewrite Rmax_comm. reflexivity. Qed.

Lemma sym_entry_ok_R x y : sym_entry_ok RO x y = true <-> Rabs (x - y) <= sym_tol x y.
Proof.
  unfold sym_entry_ok, sym_tol. rewrite fmax_RO. cbn [ltb mul abs sub RO].
  rewrite negb_true_iff. apply Rltb_false.
Qed.

Lemma is_symmetric_rows_true M n :
  is_symmetric_rows RO M n = true <->
  forall i j, (i <= j)%nat -> (j < n)%nat -> Rabs (ent 0 M i j - ent 0 M j i) <= sym_tol (ent 0 M i j) (ent 0 M j i).
Proof.
  unfold is_symmetric_rows. split.
  - intros H i j Hij Hj. rewrite forallb_forall in H. specialize (H i ltac:(apply in_seq; lia)).
    rewrite forallb_forall in H. specialize (H j ltac:(apply in_seq; lia)).
    apply sym_entry_ok_R. exact H.
  - intros H. apply forallb_forall. intros i Hi. apply in_seq in Hi.
    apply forallb_forall. intros j Hj. apply in_seq in Hj.
    apply sym_entry_ok_R. apply H; lia.
Qed.

Lemma is_symmetric_rows_exact M n :
  (forall i j, (i < n)%nat -> (j < n)%nat -> ent 0 M i j = ent 0 M j i) -> is_symmetric_rows RO M n = true.
Proof.
  intros H. apply is_symmetric_rows_true. intros i j Hij Hj. rewrite (H i j) by lia.
  replace (ent 0 M j i - ent 0 M j i) with 0 by lra. rewrite Rabs_R0. apply sym_tol_nonneg.
Qed.

Lemma is_symmetric_rows_far M n i j :
  (i < n)%nat -> (j < n)%nat -> sym_tol (ent 0 M i j) (ent 0 M j i) < Rabs (ent 0 M i j - ent 0 M j i) ->
  is_symmetric_rows RO M n = false.
Proof.
  intros Hi Hj Hfar. destruct (is_symmetric_rows RO M n) eqn:E; auto. exfalso.
  rewrite is_symmetric_rows_true in E.
  destruct (Nat.le_gt_cases i j) as [Hij|Hij].
  - specialize (E i j Hij Hj). lra.
  - specialize (E j i ltac:(lia) Hi). rewrite Rabs_minus_sym, sym_tol_sym in E. lra.
Qed.

Lemma diag_positive_rows_true M n :
  diag_positive_rows RO M n = true <-> forall i, (i < n)%nat -> 0 < ent 0 M i i.
Proof.
  unfold diag_positive_rows. split.
  - intros H i Hi. rewrite forallb_forall in H. specialize (H i ltac:(apply in_seq; lia)).
    cbn [leb zero RO] in H. apply negb_true_iff, Rleb_false in H. exact H.
  - intros H. apply forallb_forall. intros i Hi. apply in_seq in Hi.
    cbn [leb zero RO]. apply negb_true_iff, Rleb_false. apply H. lia.
Qed.
