(** Proofs for C03, part 6: the binomial inversion sampler IS inversion of the binomial CDF (real carrier).
    The mass terms the loop generates by its recurrence are C(n,k) p^k (1-p)^(n-k); the value returned is the unique k with
    F(k-1) < u <= F(k) for the uniform variate u in force (the first one, or a redrawn one after the BINV restart). *)
From Coq Require Import Reals List ZArith NArith Lra Lia Bool.
From Compute Require Import Base.Ops Base.ListMat Base.Rng Model.Samplers Spec.Samplers Proofs.C03 Proofs.C03_discrete.
Import ListNotations.
Open Scope R_scope.

(** the loop's recurrence: r_0 = r0, r_(k+1) = r_k (a/(k+1) - sq); partial sums F(k-1) = sum_(j<k) r_j *)
Fixpoint binv_term (r0 a sq : R) (k : nat) : R :=
  match k with O => r0 | Datatypes.S j => binv_term r0 a sq j * (a / IZR (Z.of_nat (Datatypes.S j)) - sq) end.
Fixpoint binv_cum (r0 a sq : R) (k : nat) : R :=
  match k with O => 0 | Datatypes.S j => binv_cum r0 a sq j + binv_term r0 a sq j end.

Section Binv.
  Context {S : Type} (src : source S R).

  Lemma binv_loop_inverts fuel r0 a sq bound : forall (k : nat) (u : R) (s : S) y s',
    (forall j, (j < k)%nat -> binv_cum r0 a sq (Datatypes.S j) < u) ->
    binv_loop RO src fuel r0 a sq bound (binv_term r0 a sq k) (u - binv_cum r0 a sq k) (N.of_nat k) s = Ok (y, s') ->
    exists u' : R, (u' = u \/ exists s0, u' = fst (next_f64 src s0)) /\
      (forall j, (j < N.to_nat y)%nat -> binv_cum r0 a sq (Datatypes.S j) < u') /\
      u' <= binv_cum r0 a sq (Datatypes.S (N.to_nat y)).
  Proof.
    induction fuel as [|fuel IH]; intros k u s y s' Hlow H; cbn [binv_loop] in H.
    - cbn [ltb RO] in H. unfold Rltb in H. destruct (Rlt_dec (binv_term r0 a sq k) (u - binv_cum r0 a sq k)); [discriminate|].
      inversion H; subst. rewrite Nat2N.id. exists u. split; [left; reflexivity|]. split; [assumption|]. cbn [binv_cum]. lra.
    - cbn [ltb RO] in H. unfold Rltb in H. destruct (Rlt_dec (binv_term r0 a sq k) (u - binv_cum r0 a sq k)) as [Hgt|Hle].
      + cbn [leb RO ofZ] in H. unfold Rleb in H. destruct (Rle_dec bound (IZR (Z.of_N (N.of_nat k)))).
        * (* restart with a fresh variate *)
          destruct (next_f64 src s) as [u1 s1] eqn:E1.
          assert (Hu1 : u1 = fst (next_f64 src s)) by (rewrite E1; reflexivity).
          replace r0 with (binv_term r0 a sq 0) in H at 2 by reflexivity.
          replace u1 with (u1 - binv_cum r0 a sq 0) in H by (cbn [binv_cum]; ring).
          change 0%N with (N.of_nat 0) in H.
          apply IH in H; [|intros j Hj; lia]. destruct H as (u' & Hu' & H1 & H2). exists u'. split; [|split; assumption].
          right. destruct Hu' as [->|Hex]; [exists s; exact Hu1|exact Hex].
        * cbn [mul sub div RO ofZ] in H. replace (N.succ (N.of_nat k)) with (N.of_nat (Datatypes.S k)) in H by lia.
          replace (binv_term r0 a sq k * (a / IZR (Z.of_N (N.of_nat (Datatypes.S k))) - sq)) with (binv_term r0 a sq (Datatypes.S k)) in H
            by (cbn [binv_term]; rewrite nat_N_Z; reflexivity).
          replace (u - binv_cum r0 a sq k - binv_term r0 a sq k) with (u - binv_cum r0 a sq (Datatypes.S k)) in H by (cbn [binv_cum]; ring).
          apply IH in H; [exact H|]. intros j Hj. destruct (Nat.eq_dec j k) as [->|Hne]; [cbn [binv_cum]; lra|apply Hlow; lia].
      + inversion H; subst. rewrite Nat2N.id. exists u. split; [left; reflexivity|]. split; [assumption|]. cbn [binv_cum]. lra.
  Qed.

  (** the code forms (1-p)^n as exp(n ln_1p(-p)) (so that 1 - p is not rounded before it is raised to the power n): on R this IS Rpower *)
  Lemma binv_r0_is_rpower (p x : R) : exp (x * ln (1 + - p)) = Rpower (1 - p) x.
  Proof. unfold Rpower. replace (1 + - p) with (1 - p) by ring. reflexivity. Qed.

  (** the sampler: the returned [y] brackets a uniform variate of the source between F(y-1) and F(y) *)
  Lemma binomial_inversion_inverts fuel n p s y s' :
    binomial_inversion RO src fuel n p s = Ok (y, s') ->
    let sq := p / (1 - p) in let a := IZR (Z.of_N n + 1) * sq in let r0 := Rpower (1 - p) (IZR (Z.of_N n)) in
    exists s0, let u := fst (next_f64 src s0) in
      (forall j, (j < N.to_nat y)%nat -> binv_cum r0 a sq (Datatypes.S j) < u) /\ u <= binv_cum r0 a sq (Datatypes.S (N.to_nat y)).
  Proof.
    unfold binomial_inversion. destruct (next_f64 src s) as [u s1] eqn:E. intros H.
    cbn [div sub mul one neg ofZ RO f1 Rf1] in H. rewrite binv_r0_is_rpower in H.
    set (sq := p / (1 - p)) in *. set (a := IZR (Z.of_N n + 1) * sq) in *. set (r0 := Rpower (1 - p) (IZR (Z.of_N n))) in *.
    replace r0 with (binv_term r0 a sq 0) in H at 2 by reflexivity.
    replace u with (u - binv_cum r0 a sq 0) in H by (cbn [binv_cum]; ring).
    change 0%N with (N.of_nat 0) in H.
    apply binv_loop_inverts in H; [|intros j Hj; lia]. destruct H as (u' & Hu' & H1 & H2).
    destruct Hu' as [->|[s0 ->]]; [exists s|exists s0]; [rewrite E; cbn [fst]|]; split; assumption.
  Qed.
End Binv.

(** ** the terms are the binomial mass function *)
Lemma C_succ (n k : nat) : (k < n)%nat -> C n (Datatypes.S k) = C n k * (INR n - INR k) / (INR k + 1).
Proof.
  intros H. unfold C. replace (n - k)%nat with (Datatypes.S (n - Datatypes.S k)) by lia.
  rewrite !fact_simpl, !mult_INR, !S_INR.
  assert (INR (fact k) <> 0) by (apply INR_fact_neq_0). assert (INR (fact (n - Datatypes.S k)) <> 0) by (apply INR_fact_neq_0).
  assert (INR (n - Datatypes.S k) + 1 = INR n - INR k).
  { rewrite <- S_INR. replace (Datatypes.S (n - Datatypes.S k)) with (n - k)%nat by lia. rewrite minus_INR by lia. reflexivity. }
  assert (0 <= INR k) by apply pos_INR. assert (INR k < INR n) by (apply lt_INR; assumption).
  rewrite H2. field. repeat split; lra.
Qed.

Lemma binv_term_is_pmf (n : nat) (p : R) (k : nat) :
  0 < p < 1 -> (k <= n)%nat ->
  binv_term ((1 - p) ^ n) ((INR n + 1) * (p / (1 - p))) (p / (1 - p)) k = C n k * p ^ k * (1 - p) ^ (n - k).
Proof.
  intros Hp. induction k as [|k IH]; intros Hk.
  - cbn [binv_term]. unfold C. rewrite Nat.sub_0_r. cbn [fact pow]. replace (INR 1) with 1 by reflexivity.
    assert (INR (fact n) <> 0) by apply INR_fact_neq_0. field. assumption.
  - cbn [binv_term]. rewrite IH by lia. rewrite C_succ by lia.
    replace (n - k)%nat with (Datatypes.S (n - Datatypes.S k)) by lia. cbn [pow].
    rewrite <- INR_IZR_INZ, S_INR. assert (0 <= INR k) by apply pos_INR. field. lra.
Qed.

(** the binomial CDF, F(k) = sum_(j<=k) C(n,j) p^j (1-p)^(n-j) *)
Definition binomial_pmf (n : nat) (p : R) (j : nat) : R := C n j * p ^ j * (1 - p) ^ (n - j).
Definition binomial_cdf (n : nat) (p : R) (k : nat) : R := sum_f_R0 (binomial_pmf n p) k.

Lemma binv_cum_is_cdf (n : nat) (p : R) (k : nat) :
  0 < p < 1 -> (k <= n)%nat ->
  binv_cum ((1 - p) ^ n) ((INR n + 1) * (p / (1 - p))) (p / (1 - p)) (Datatypes.S k) = binomial_cdf n p k.
Proof.
  intros Hp. unfold binomial_cdf. induction k as [|k IH]; intros Hk.
  - cbn [binv_cum sum_f_R0]. rewrite (binv_term_is_pmf n p 0 Hp) by lia. unfold binomial_pmf. ring.
  - cbn [sum_f_R0]. rewrite <- IH by lia. cbn [binv_cum]. rewrite (binv_term_is_pmf n p (Datatypes.S k) Hp) by lia.
    unfold binomial_pmf. reflexivity.
Qed.

Section BinvLaw.
  Context {S : Type} (src : source S R).
  (** inversion of the binomial CDF: the draw y satisfies F(y-1) < u <= F(y) for a uniform variate u of the source
      (the first one, or the one redrawn after a restart), and y <= n *)
  Theorem binomial_inversion_is_inverse_cdf fuel (n : nat) p s y s' :
    0 < p < 1 -> binomial_inversion RO src fuel (N.of_nat n) p s = Ok (y, s') ->
    (N.to_nat y <= n)%nat /\
    exists s0, let u := fst (next_f64 src s0) in
      (forall j, (j < N.to_nat y)%nat -> binomial_cdf n p j < u) /\ u <= binomial_cdf n p (N.to_nat y).
  Proof.
    intros Hp H. assert (Hle : (N.to_nat y <= n)%nat).
    { 
      assert (y <= N.of_nat n)%N as Hy.
      { revert H. unfold binomial_inversion. destruct (next_f64 src s) as [u s1]. intros H.
        eapply (Proofs.C03_discrete.binv_loop_le src (N.of_nat n)); [| |exact H]; [apply Proofs.C03_discrete.fmin_le_l|lia]. }
      lia. }
    split; [exact Hle|].
    apply binomial_inversion_inverts in H. cbv zeta in H. destruct H as (s0 & H1 & H2). exists s0. cbv zeta.
    assert (Er : Rpower (1 - p) (IZR (Z.of_N (N.of_nat n))) = (1 - p) ^ n).
    { rewrite nat_N_Z, <- INR_IZR_INZ. apply Rpower_pow. lra. }
    assert (Ea : IZR (Z.of_N (N.of_nat n) + 1) = INR n + 1).
    { rewrite nat_N_Z, plus_IZR, <- INR_IZR_INZ. reflexivity. }
    rewrite Er, Ea in *. split.
    - intros j Hj. rewrite <- binv_cum_is_cdf by (try assumption; lia). apply H1. exact Hj.
    - rewrite <- binv_cum_is_cdf by (try assumption; lia). exact H2.
  Qed.
End BinvLaw.

(** ** termination on the reals: a variate not above F(kb), kb below the restart bound, is inverted without a restart,
    after at most kb passes, consuming exactly one variate *)
Section BinvTerminates.
  Context {S : Type} (src : source S R).

  Lemma binv_loop_terminates r0 a sq bound (kb : nat) (u : R) (s : S) :
    IZR (Z.of_nat kb) < bound -> u <= binv_cum r0 a sq (Datatypes.S kb) ->
    forall (d fuel k : nat), (k + d = kb)%nat -> (d <= fuel)%nat ->
      (forall j, (j < k)%nat -> binv_cum r0 a sq (Datatypes.S j) < u) ->
      exists y : nat,
        binv_loop RO src fuel r0 a sq bound (binv_term r0 a sq k) (u - binv_cum r0 a sq k) (N.of_nat k) s = Ok (N.of_nat y, s) /\
        (y <= kb)%nat /\ (forall j, (j < y)%nat -> binv_cum r0 a sq (Datatypes.S j) < u) /\ u <= binv_cum r0 a sq (Datatypes.S y).
  Proof.
    intros Hb Hu. induction d as [|d IH]; intros fuel k Hk Hf Hlow.
    - assert (k = kb) by lia. subst k. exists kb.
      assert (Hex : Rltb (binv_term r0 a sq kb) (u - binv_cum r0 a sq kb) = false).
      { apply Rltb_false. cbn [binv_cum] in Hu. lra. }
      destruct fuel; cbn [binv_loop ltb RO]; rewrite Hex; (split; [reflexivity|]); repeat split; auto.
    - destruct fuel as [|fuel]; [lia|]. cbn [binv_loop ltb RO]. unfold Rltb.
      destruct (Rlt_dec (binv_term r0 a sq k) (u - binv_cum r0 a sq k)) as [Hgt|Hle].
      + cbn [leb RO ofZ]. unfold Rleb. destruct (Rle_dec bound (IZR (Z.of_N (N.of_nat k)))) as [Hge|Hlt].
        * exfalso. rewrite nat_N_Z in Hge. assert (IZR (Z.of_nat k) <= IZR (Z.of_nat kb)) by (apply IZR_le; lia). lra.
        * cbn [mul sub div RO ofZ]. replace (N.succ (N.of_nat k)) with (N.of_nat (Datatypes.S k)) by lia.
          replace (binv_term r0 a sq k * (a / IZR (Z.of_N (N.of_nat (Datatypes.S k))) - sq)) with (binv_term r0 a sq (Datatypes.S k))
            by (cbn [binv_term]; rewrite nat_N_Z; reflexivity).
          replace (u - binv_cum r0 a sq k - binv_term r0 a sq k) with (u - binv_cum r0 a sq (Datatypes.S k)) by (cbn [binv_cum]; ring).
          apply IH; [lia|lia|]. intros j Hj. destruct (Nat.eq_dec j k) as [->|Hne]; [cbn [binv_cum]; lra|apply Hlow; lia].
      + exists k. split; [reflexivity|]. split; [lia|]. split; [assumption|]. cbn [binv_cum]. lra.
  Qed.

  Theorem binomial_inversion_terminates fuel (n : nat) p s (kb : nat) :
    0 < p < 1 -> (kb <= n)%nat -> (kb <= fuel)%nat ->
    IZR (Z.of_nat kb) < IZR (Z.of_nat n) ->
    IZR (Z.of_nat kb) < IZR (Z.of_nat n) * p + 10 * R_sqrt.sqrt (IZR (Z.of_nat n) * p * (1 - p) + 1) ->
    fst (next_f64 src s) <= binomial_cdf n p kb ->
    exists y : nat,
      binomial_inversion RO src fuel (N.of_nat n) p s = Ok (N.of_nat y, snd (next_f64 src s)) /\ (y <= kb)%nat /\
      (forall j, (j < y)%nat -> binomial_cdf n p j < fst (next_f64 src s)) /\ fst (next_f64 src s) <= binomial_cdf n p y.
  Proof.
    intros Hp Hkn Hf Hb1 Hb2 Hu. unfold binomial_inversion. destruct (next_f64 src s) as [u s1]. cbn [fst snd] in *.
    cbn [div sub mul add one neg ofZ RO f1 Rf1 sqrt]. rewrite binv_r0_is_rpower.
    rewrite !nat_N_Z.
    assert (Er : Rpower (1 - p) (IZR (Z.of_nat n)) = (1 - p) ^ n) by (rewrite <- INR_IZR_INZ; apply Rpower_pow; lra).
    assert (Ea : IZR (Z.of_nat n + 1) = INR n + 1) by (rewrite plus_IZR, <- INR_IZR_INZ; reflexivity).
    rewrite Er, Ea.
    set (r0 := (1 - p) ^ n). set (sq := p / (1 - p)). set (a := (INR n + 1) * sq).
    set (bound := fmin RO _ _).
    assert (Hbound : IZR (Z.of_nat kb) < bound).
    { unfold bound, fmin, is_nan. cbn [eqb RO ltb]. unfold Reqb, Rltb.
      repeat match goal with |- context [Req_EM_T ?x ?x] => destruct (Req_EM_T x x); [|contradiction] end. cbn [negb].
      match goal with |- context [Rlt_dec ?x ?y] => destruct (Rlt_dec x y) end; assumption. }
    assert (Hu' : u <= binv_cum r0 a sq (Datatypes.S kb)) by (unfold r0, a, sq; rewrite binv_cum_is_cdf by (assumption || lia); exact Hu).
    destruct (binv_loop_terminates r0 a sq bound kb u s1 Hbound Hu' kb fuel 0%nat ltac:(lia) Hf ltac:(intros j Hj; exfalso; lia))
      as (y & Hy & Hle & Hlow & Hup).
    exists y. cbn [binv_term binv_cum] in Hy. replace (u - 0) with u in Hy by ring. change (N.of_nat 0) with 0%N in Hy.
    split; [exact Hy|]. split; [exact Hle|]. split.
    - intros j Hj. rewrite <- (binv_cum_is_cdf n p j Hp) by lia. apply Hlow. exact Hj.
    - rewrite <- (binv_cum_is_cdf n p y Hp) by lia. exact Hup.
  Qed.
End BinvTerminates.

(** the hypotheses are satisfiable: Binomial(15, 0.3), kb = 14, a variate of 1/2 *)
Example binomial_inversion_terminates_hypotheses :
  0 < 3 / 10 < 1 /\ (14 <= 15)%nat /\ IZR (Z.of_nat 14) < IZR (Z.of_nat 15) /\
  IZR (Z.of_nat 14) < IZR (Z.of_nat 15) * (3 / 10) + 10 * R_sqrt.sqrt (IZR (Z.of_nat 15) * (3 / 10) * (1 - 3 / 10) + 1).
Proof.
  cbn [Z.of_nat Pos.of_succ_nat Pos.succ]. repeat split; try lra; try lia.
  assert (2 <= R_sqrt.sqrt (15 * (3 / 10) * (1 - 3 / 10) + 1)).
  { rewrite <- (sqrt_square 2) by lra. apply sqrt_le_1_alt. lra. }
  lra.
Qed.
