(** Proofs for C05 (extension): rounding error of every entry of [matmul] / [matmul_blocked] on binary64.

    Entry (i,j) of the product is [sumk O (fun k => op(A)[i,k] * op(B)[k,j]) l]: a PLAIN left fold of rounded
    additions, from zero, over the rounded products, in the order k = 0, 1, .., l-1 (C05_matmul_spec).  In the
    standard model a plain left fold of [n] terms, each of which already carries one relative rounding error, obeys
        | fold c' - Sigma c_k |  <=  ((1+u)^(n+1) - 1) * Sigma |c_k| ,
    hence for every conformable pair of arrays of doubles, every transpose-flag combination, every entry (i,j) whose
    computed value is finite (no overflow anywhere in its accumulation) and none of whose l products underflows
        | c_ij - Sigma_k a_ik b_kj |  <=  ((1 + 2^-53)^(l+1) - 1) * Sigma_k |a_ik b_kj| ,
    and the same for [matmul_blocked] with every block size >= 1 (the blocked loop nest performs, entry by entry,
    the same sequence of operations: C05_blocked_eq_unblocked). *)
From Coq Require Import List Arith Bool ZArith Reals Lra Lia Floats.
From Flocq Require Import Core Relative Plus_error BinarySingleNaN PrimFloat.
From Compute Require Import Base.Ops Base.ListMat Model.Reduce Model.MatMul Spec.Vops Spec.MatMul.
From Compute Require Import Proofs.C04Red Proofs.C04Err Proofs.C04ErrF Proofs.C04ErrDot Proofs.C04ErrEx Proofs.C05 Proofs.C05_dot.
Import ListNotations.
Local Open Scope R_scope.

(** ** standard model: a plain left fold, from zero, of terms that already carry one rounding error *)
Section PlainFold.
  Variable u : R.
  Hypothesis Hu : 0 <= u.
  Variable F : R -> Prop.
  Variable rnd : R -> R.
  Hypothesis F0 : F 0.
  Hypothesis Hrnd : forall a b, F a -> F b ->
    F (rnd (a + b)) /\ Rabs (rnd (a + b) - (a + b)) <= u * Rabs (a + b).

  Theorem plain_sum_error (x : list R) :
    Forall F x ->
    Rabs (fold_left (add (RndO rnd)) x 0 - Rsum x) <= ((1 + u) ^ length x - 1) * Rsum (map Rabs x).
  Proof.
    intros Fx.
    destruct (fold_err u Hu F rnd Hrnd x 0 0 0 0 F0 Fx) as [_ Hf].
    { rewrite Rabs_R0. lra. }
    { replace (0 - 0) with 0 by ring. rewrite Rabs_R0. lra. }
    rewrite !Rplus_0_l in Hf. cbn [Nat.add] in Hf. exact Hf.
  Qed.

  Theorem plain_sum_error_perturbed (c c' : list R) :
    Forall F c' -> Forall2 (fun a a' => Rabs (a' - a) <= u * Rabs a) c c' ->
    Rabs (fold_left (add (RndO rnd)) c' 0 - Rsum c) <= ((1 + u) ^ S (length c) - 1) * Rsum (map Rabs c).
  Proof.
    intros Fc Hp. destruct (perturbed_terms u c c' Hp) as (Hl & Hs & Ha).
    pose proof (plain_sum_error c' Fc) as He. rewrite Hl in He.
    fold (Asum c') in He. fold (Asum c).
    set (e := (1 + u) ^ length c - 1) in *.
    assert (He0 : 0 <= e) by (apply (E_nonneg u Hu)).
    replace ((1 + u) ^ S (length c) - 1) with ((1 + u) * e + u) by (unfold e; simpl; ring).
    replace (fold_left (add (RndO rnd)) c' 0 - Rsum c)
      with ((fold_left (add (RndO rnd)) c' 0 - Rsum c') + (Rsum c' - Rsum c)) by ring.
    eapply Rle_trans; [apply Rabs_triang|].
    assert (e * Asum c' <= e * ((1 + u) * Asum c)) by (apply Rmult_le_compat_l; assumption).
    lra.
  Qed.
End PlainFold.

(** ** [sumk] as a fold over the list of its terms *)
Lemma sumk_fold {T} (O : Ops T) (f : nat -> T) (l : nat) :
  sumk O f l = fold_left (add O) (map f (seq 0 l)) (zero O).
Proof.
  unfold sumk. generalize (zero O). generalize (seq 0 l).
  induction l0 as [|k ks IH]; intros s; cbn [fold_left map]; [reflexivity|apply IH].
Qed.

Lemma sumk_R (f : nat -> R) (l : nat) : sumk RO f l = Rsum (map f (seq 0 l)).
Proof. rewrite sumk_fold, fold_left_add_R. cbn [zero RO]. ring. Qed.

(** ** binary64: the plain fold of rounded products *)
Theorem sumk_F_error (tbl : libm_table) (f g : nat -> pfloat) (l : nat) :
  finite (sumk (FO tbl) (fun k => mul (FO tbl) (f k) (g k)) l) ->
  (forall k, (k < l)%nat -> no_underflow (B2Rf (f k) * B2Rf (g k))) ->
  Rabs (B2Rf (sumk (FO tbl) (fun k => mul (FO tbl) (f k) (g k)) l)
        - sumk RO (fun k => B2Rf (f k) * B2Rf (g k)) l)
  <= ((1 + / 2 ^ 53) ^ S l - 1) * sumk RO (fun k => Rabs (B2Rf (f k) * B2Rf (g k))) l.
Proof.
  intros Hfin Hnu. rewrite !sumk_R. rewrite sumk_fold in *.
  set (ks := seq 0 l) in *.
  assert (Hks : forall k, In k ks -> (k < l)%nat) by (intros k Hk; apply in_seq in Hk; lia).
  assert (Hlen : length ks = l) by apply seq_length.
  clearbody ks.
  set (p' := map (fun k => mul (FO tbl) (f k) (g k)) ks) in *.
  set (c := map (fun k => B2Rf (f k) * B2Rf (g k)) ks).
  assert (Hadd : forall a b : pfloat, finite (add (FO tbl) a b) ->
                   finite a /\ finite b /\ B2Rf (add (FO tbl) a b) = add (RndO rnd64) (B2Rf a) (B2Rf b)).
  { intros a b Hab. cbn [add FO RndO] in *. apply fadd_finite. exact Hab. }
  assert (Hall : Forall finite p').
  { apply (fold_all (FO tbl) finite) with (s := zero (FO tbl)); [|exact Hfin].
    intros a b Hab. destruct (Hadd a b Hab) as (Ha & Hb & _). auto. }
  destruct (fold_sim (FO tbl) (RndO rnd64) B2Rf finite Hadd p' _ Hfin) as [_ He].
  rewrite He. change (B2Rf (zero (FO tbl))) with (B2Rf 0%float). rewrite B2Rf_zero.
  replace (map Rabs c) with (map (fun k : nat => Rabs (B2Rf (f k) * B2Rf (g k))) ks)
    by (unfold c; rewrite map_map; reflexivity).
  replace (map (fun k : nat => Rabs (B2Rf (f k) * B2Rf (g k))) ks) with (map Rabs c)
    by (unfold c; rewrite map_map; reflexivity).
  assert (Hlc : length c = l) by (unfold c; rewrite map_length; exact Hlen).
  rewrite <- Hlc, <- u64_val.
  apply (plain_sum_error_perturbed u64 u64_nonneg F64 rnd64 F64_0 rnd64_model).
  - apply Forall_forall. intros r Hr. apply in_map_iff in Hr. destruct Hr as (x & <- & _). apply F64_B2Rf.
  - unfold c, p'. clear He Hfin Hlc c. subst p'. clear Hlen.
    induction ks as [|k ks IH]; cbn [map]; [constructor|].
    inversion Hall as [|? ? Hk Hall']; subst. constructor.
    + cbn [mul FO] in *. destruct (fmul_finite (f k) (g k) Hk) as (_ & _ & ->).
      apply rnd64_rel. apply Hnu. apply Hks. left. reflexivity.
    + apply IH; [|exact Hall']. intros k' Hk'. apply Hks. right. exact Hk'.
Qed.

(** ** every entry of [matmul_blocked] / [matmul] on binary64 *)
Local Open Scope nat_scope.

Theorem matmul_blocked_entry_error (tbl : libm_table) (a b : list pfloat) (ra rb : nat) (ta tb : bool) (bs : nat)
        (ca cb m l n : nat) (c : list pfloat) :
  1 <= bs ->
  dims (length a) (length b) ra rb ta tb = Some (ca, cb, m, l, n) ->
  matmul_blocked (FO tbl) a b ra rb ta tb bs = Some c ->
  forall i j, i < m -> j < n ->
    finite (nth (i * n + j) c (zero (FO tbl))) ->
    (forall k, k < l ->
       (B2Rf (opA (FO tbl) a ca ta i k) * B2Rf (opB (FO tbl) b cb tb k j) = 0 \/
        / 2 ^ 1022 <= Rabs (B2Rf (opA (FO tbl) a ca ta i k) * B2Rf (opB (FO tbl) b cb tb k j)))%R) ->
    (Rabs (B2Rf (nth (i * n + j) c (zero (FO tbl)))
           - sumk RO (fun k => B2Rf (opA (FO tbl) a ca ta i k) * B2Rf (opB (FO tbl) b cb tb k j)) l)
     <= ((1 + / 2 ^ 53) ^ S l - 1)
        * sumk RO (fun k => Rabs (B2Rf (opA (FO tbl) a ca ta i k) * B2Rf (opB (FO tbl) b cb tb k j))) l)%R.
Proof.
  intros Hbs Hd Hc i j Hi Hj Hfin Hnu.
  pose proof (matmul_blocked_spec (FO tbl) a b ra rb ta tb bs Hbs) as H. rewrite Hd in H.
  destruct H as (c' & Hc' & _ & Hent). rewrite Hc in Hc'. injection Hc' as <-.
  rewrite (Hent i j Hi Hj) in *.
  apply sumk_F_error; [exact Hfin|].
  intros k Hk. apply no_underflow_explicit. apply Hnu. exact Hk.
Qed.

Theorem matmul_entry_error (tbl : libm_table) (a b : list pfloat) (ra rb : nat) (ta tb : bool)
        (ca cb m l n : nat) (c : list pfloat) :
  dims (length a) (length b) ra rb ta tb = Some (ca, cb, m, l, n) ->
  matmul (FO tbl) a b ra rb ta tb = Some c ->
  forall i j, i < m -> j < n ->
    finite (nth (i * n + j) c (zero (FO tbl))) ->
    (forall k, k < l ->
       (B2Rf (opA (FO tbl) a ca ta i k) * B2Rf (opB (FO tbl) b cb tb k j) = 0 \/
        / 2 ^ 1022 <= Rabs (B2Rf (opA (FO tbl) a ca ta i k) * B2Rf (opB (FO tbl) b cb tb k j)))%R) ->
    (Rabs (B2Rf (nth (i * n + j) c (zero (FO tbl)))
           - sumk RO (fun k => B2Rf (opA (FO tbl) a ca ta i k) * B2Rf (opB (FO tbl) b cb tb k j)) l)
     <= ((1 + / 2 ^ 53) ^ S l - 1)
        * sumk RO (fun k => Rabs (B2Rf (opA (FO tbl) a ca ta i k) * B2Rf (opB (FO tbl) b cb tb k j))) l)%R.
Proof.
  intros Hd Hc. apply (matmul_blocked_entry_error tbl a b ra rb ta tb 1); [lia|exact Hd|].
  rewrite (matmul_blocked_eq (FO tbl)); [exact Hc|lia|]. intros _. apply mul_comm_binary64.
Qed.

(** ** the same bound for ANY array that is the product entry by entry ([is_product], with the factors of each term in either
    order), and for the Matrix.Vector / Vector.Matrix products ([is_matvec], [is_vecmat]): this covers every method of the
    [Dot] trait through the C05_dot_* theorems *)
Theorem is_product_entry_error (tbl : libm_table) (swap : bool) (a b : list pfloat) (ca cb : nat) (ta tb : bool)
        (m l n : nat) (c : list pfloat) :
  is_product (FO tbl) swap a b ca cb ta tb m l n c ->
  forall i j, i < m -> j < n ->
    finite (nth (i * n + j) c (zero (FO tbl))) ->
    (forall k, k < l ->
       (B2Rf (opA (FO tbl) a ca ta i k) * B2Rf (opB (FO tbl) b cb tb k j) = 0 \/
        / 2 ^ 1022 <= Rabs (B2Rf (opA (FO tbl) a ca ta i k) * B2Rf (opB (FO tbl) b cb tb k j)))%R) ->
    (Rabs (B2Rf (nth (i * n + j) c (zero (FO tbl)))
           - sumk RO (fun k => B2Rf (opA (FO tbl) a ca ta i k) * B2Rf (opB (FO tbl) b cb tb k j)) l)
     <= ((1 + / 2 ^ 53) ^ S l - 1)
        * sumk RO (fun k => Rabs (B2Rf (opA (FO tbl) a ca ta i k) * B2Rf (opB (FO tbl) b cb tb k j))) l)%R.
Proof.
  intros Hp i j Hi Hj Hfin Hnu.
  assert (Hp' : is_product (FO tbl) false a b ca cb ta tb m l n c).
  { destruct swap; [|exact Hp]. apply (is_product_swap (FO tbl)); [apply mul_comm_binary64|exact Hp]. }
  destruct Hp' as [_ Hent]. rewrite (Hent i j Hi Hj) in *.
  apply sumk_F_error; [exact Hfin|].
  intros k Hk. apply no_underflow_explicit. apply Hnu. exact Hk.
Qed.

Theorem is_matvec_entry_error (tbl : libm_table) (a : list pfloat) (ca : nat) (ta : bool) (v : list pfloat)
        (m l : nat) (c : list pfloat) :
  is_matvec (FO tbl) a ca ta v m l c ->
  forall i, i < m ->
    finite (nth i c (zero (FO tbl))) ->
    (forall k, k < l ->
       (B2Rf (opA (FO tbl) a ca ta i k) * B2Rf (nth k v (zero (FO tbl))) = 0 \/
        / 2 ^ 1022 <= Rabs (B2Rf (opA (FO tbl) a ca ta i k) * B2Rf (nth k v (zero (FO tbl)))))%R) ->
    (Rabs (B2Rf (nth i c (zero (FO tbl)))
           - sumk RO (fun k => B2Rf (opA (FO tbl) a ca ta i k) * B2Rf (nth k v (zero (FO tbl)))) l)
     <= ((1 + / 2 ^ 53) ^ S l - 1)
        * sumk RO (fun k => Rabs (B2Rf (opA (FO tbl) a ca ta i k) * B2Rf (nth k v (zero (FO tbl))))) l)%R.
Proof.
  intros [_ Hent] i Hi Hfin Hnu. rewrite (Hent i Hi) in *.
  apply (sumk_F_error tbl (fun k => opA (FO tbl) a ca ta i k) (fun k => nth k v (zero (FO tbl)))); [exact Hfin|].
  intros k Hk. apply no_underflow_explicit. apply Hnu. exact Hk.
Qed.

Theorem is_vecmat_entry_error (tbl : libm_table) (v : list pfloat) (b : list pfloat) (cb : nat) (tb : bool)
        (l n : nat) (c : list pfloat) :
  is_vecmat (FO tbl) v b cb tb l n c ->
  forall j, j < n ->
    finite (nth j c (zero (FO tbl))) ->
    (forall k, k < l ->
       (B2Rf (nth k v (zero (FO tbl))) * B2Rf (opB (FO tbl) b cb tb k j) = 0 \/
        / 2 ^ 1022 <= Rabs (B2Rf (nth k v (zero (FO tbl))) * B2Rf (opB (FO tbl) b cb tb k j)))%R) ->
    (Rabs (B2Rf (nth j c (zero (FO tbl)))
           - sumk RO (fun k => B2Rf (nth k v (zero (FO tbl))) * B2Rf (opB (FO tbl) b cb tb k j)) l)
     <= ((1 + / 2 ^ 53) ^ S l - 1)
        * sumk RO (fun k => Rabs (B2Rf (nth k v (zero (FO tbl))) * B2Rf (opB (FO tbl) b cb tb k j))) l)%R.
Proof.
  intros [_ Hent] j Hj Hfin Hnu. rewrite (Hent j Hj) in *.
  apply (sumk_F_error tbl (fun k => nth k v (zero (FO tbl))) (fun k => opB (FO tbl) b cb tb k j)); [exact Hfin|].
  intros k Hk. apply no_underflow_explicit. apply Hnu. exact Hk.
Qed.

(** the hypotheses are satisfiable: a 2x3 by 3x2 product of doubles with inexact products and sums *)
Lemma matmul_error_example :
  let a := [1; 2; 0x1.999999999999ap-4; 4; -5; 6]%float in
  let b := [0x1.5555555555555p-2; 0; 0; 1; 3; 0x1p-600]%float in
  dims (length a) (length b) 2 3 false false = Some (3, 2, 2, 3, 2) /\
  (exists c, matmul FO0 a b 2 3 false false = Some c /\ matmul_blocked FO0 a b 2 3 false false 2 = Some c /\
             finite (nth (0 * 2 + 0) c (zero FO0))) /\
  (forall k, k < 3 ->
     (B2Rf (opA FO0 a 3 false 0 k) * B2Rf (opB FO0 b 2 false k 0) = 0 \/
      / 2 ^ 1022 <= Rabs (B2Rf (opA FO0 a 3 false 0 k) * B2Rf (opB FO0 b 2 false k 0)))%R).
Proof.
  cbv zeta. split; [reflexivity|]. split.
  - eexists. split; [vm_compute; reflexivity|]. split; vm_compute; reflexivity.
  - intros k Hk. destruct k as [|[|[|k]]]; [| | |lia]; cbn [opA opB nth Nat.mul Nat.add];
      first [ left; b2rf_compute; lra
            | right; rewrite Proofs.C04ErrEx.tiny_lit;
              let v := eval vm_compute in (2 ^ 1022)%Z in change (2 ^ 1022)%Z with v;
              b2rf_compute; apply Rabs_ge; first [right; lra | left; lra] ].
Qed.
