(** Proofs for C01 (extension), floating point: the LU branch of [solve] (and [Matrix::solve], always LU) end to end
    on binary64.  [lu] gives P A = L U + dA0, |dA0| <= E(n) |L||U|  (C11_FloatLU);  [lu_solve] gives
    L' (U' x) = P b with |L' - L| <= E(n) |L|, |U' - U| <= E(n) |U|  (C11_FloatLUSolve).  Hence x solves EXACTLY
        A' x = P b ,  A' = L' U' ,  | A' - P A | <= ( E(n) + (1 + E(n))^2 - 1 ) |L||U|  <=  E(3n) |L||U|
    componentwise (Higham, Thm 9.4), E(k) = (1 + 2^-53)^k - 1, [b] unperturbed. *)
From Coq Require Import List Arith Bool ZArith Reals Lra Lia Floats Permutation.
From Flocq Require Import Core BinarySingleNaN PrimFloat.
From Compute Require Import Base.Ops Base.ListMat Model.Reduce Model.MatMul Model.Subst Model.Cholesky Model.LU Model.Solve Model.SolveInst
  Spec.Vops Spec.Factor
  Proofs.C04Red Proofs.C04Err Proofs.C04ErrF Proofs.C04ErrDot Proofs.C04ErrNP Proofs.C05 Proofs.LinAlgBase Proofs.C11_Subst
  Proofs.C11_FloatBase Proofs.C11_FloatSubst Proofs.C11_FloatPert Proofs.C11_FloatLU Proofs.C11_FloatLUSolve.
Import ListNotations.
Local Open Scope R_scope.

Theorem lu_then_solve_backward_error (tbl : libm_table) (a b m y x : list pfloat) (piv : list nat) (n : nat) :
  lu (FO tbl) a = Some (m, piv) -> (n * n)%nat = length a ->
  lu_solve (FO tbl) m piv b = Some x -> length b = n ->
  y = fwd_elim (FO tbl) (unflatten m n n) n (map (fun p => nth p b 0%float) piv) ->
  Forall finite m -> Forall finite y -> Forall finite x ->
  (forall j, (j < n)%nat -> B2Rf (nth (j * n + j) m 0%float) <> 0) ->
  (* the factorisation *)
  (forall i j k, (i < n)%nat -> (j < n)%nat -> (k < Nat.min i j)%nat ->
     B2Rf (nth (i * n + k) m 0%float) * B2Rf (nth (k * n + j) m 0%float) = 0 \/
     / 2 ^ 1022 <= Rabs (B2Rf (nth (i * n + k) m 0%float) * B2Rf (nth (k * n + j) m 0%float))) ->
  (forall i j, (i < n)%nat -> (j < i)%nat ->
     let s := (nth (nth i piv 0%nat * n + j) a 0
               - fold_left (fun acc k => acc + nth (i * n + k) m 0 * nth (k * n + j) m 0) (seq 0 j) 0)%float in
     B2Rf s / B2Rf (nth (j * n + j) m 0%float) = 0 \/ / 2 ^ 1022 <= Rabs (B2Rf s / B2Rf (nth (j * n + j) m 0%float))) ->
  (* forward sweep L y = P b *)
  (forall i k, (i < n)%nat -> (k < i)%nat ->
     B2Rf (nth k y 0%float) * B2Rf (nth (i * n + k) m 0%float) = 0 \/
     / 2 ^ 1022 <= Rabs (B2Rf (nth k y 0%float) * B2Rf (nth (i * n + k) m 0%float))) ->
  (* backward sweep U x = y *)
  (forall i k, (i < k)%nat -> (k < n)%nat ->
     B2Rf (nth k x 0%float) * B2Rf (nth (i * n + k) m 0%float) = 0 \/
     / 2 ^ 1022 <= Rabs (B2Rf (nth k x 0%float) * B2Rf (nth (i * n + k) m 0%float))) ->
  (forall i, (i < n)%nat ->
     let s := fold_left (fun s k => (s - nth k x 0 * nth (i * n + k) m 0)%float) (rev (seq (S i) (n - S i))) (nth i y 0%float) in
     B2Rf s / B2Rf (nth (i * n + i) m 0%float) = 0 \/ / 2 ^ 1022 <= Rabs (B2Rf s / B2Rf (nth (i * n + i) m 0%float))) ->
  let A := map B2Rf a in let M := map B2Rf m in let B := map B2Rf b in let X := map B2Rf x in
  let gamma' := (1 + / 2 ^ 53) ^ (3 * n) - 1 in
  is_perm piv n /\
  exists A' : list R,
    length A' = (n * n)%nat /\
    (forall i, (i < n)%nat -> mvec A' n X i = nth (nth i piv 0%nat) B 0) /\
    (forall i j, (i < n)%nat -> (j < n)%nat ->
       Rabs (getm A' n i j - getm A n (nth i piv 0%nat) j)
       <= gamma' * rsum (fun k => Rabs (Lof M n i k) * Rabs (Uof M n k j)) n).
Proof.
  intros Hlu Hn Hls Hb Hy Hfm Hfy Hfx Hpiv Hp Hq Hp1 Hp2 Hq2. cbv zeta.
  destruct (lu_backward_error tbl a m piv n Hlu Hn Hfm Hpiv Hp Hq) as (Hml & Hperm & _ & Hlub).
  pose proof (is_perm_length _ _ Hperm) as Hpl.
  destruct (lu_solve_backward_error tbl m piv b y x n Hls Hb Hpl Hy Hfy Hfx Hpiv Hp1 Hp2 Hq2)
    as (_ & _ & _ & _ & _ & _ & L' & U' & HL1 & HU1 & HL2 & HU2 & _ & _ & Hsol).
  split; [exact Hperm|].
  set (M := map B2Rf m) in *. set (A := map B2Rf a) in *. set (X := map B2Rf x) in *.
  set (g := (1 + / 2 ^ 53) ^ n - 1) in *.
  assert (Hg : 0 <= g) by apply gamma_nonneg.
  exists (flat_of n (fun i j => rsum (fun k => getm L' n i k * getm U' n k j) n)).
  split; [apply flat_of_length|]. split.
  { intros i Hi. rewrite <- (Hsol i Hi). unfold mvec.
    rewrite (rsum_ext _ (fun j => rsum (fun k => getm L' n i k * getm U' n k j * nth j X 0) n)).
    2:{ intros j Hj. rewrite getm_flat_of by assumption. rewrite <- rsum_scal_r. reflexivity. }
    rewrite rsum_swap. apply rsum_ext. intros k Hk. rewrite <- rsum_scal_l. apply rsum_ext. intros j Hj. ring. }
  intros i j Hi Hj. rewrite getm_flat_of by assumption.
  pose proof (product_perturbation_PQ (fun i k => Lof M n i k) (fun k j => Uof M n k j) L' U' n g Hg HL2 HU2 i j Hi Hj) as Hpp.
  cbv beta in Hpp. specialize (Hlub i j Hi Hj).
  set (S := rsum (fun k => Lof M n i k * Uof M n k j) n) in *.
  set (AS := rsum (fun k => Rabs (Lof M n i k) * Rabs (Uof M n k j)) n) in *.
  assert (HAS : 0 <= AS) by (apply rsum_abs_nonneg).
  pose proof (gamma_compose3 u64 n u64_nonneg) as Hgc. unfold E in Hgc. rewrite u64_val in Hgc. fold g in Hgc.
  match goal with |- Rabs (?p - ?q) <= _ => replace (p - q) with ((p - S) - (q - S)) by ring end.
  eapply Rle_trans; [apply Rabs_triang|]. rewrite Rabs_Ropp.
  assert ((g + ((1 + g) ^ 2 - 1)) * AS <= ((1 + / 2 ^ 53) ^ (3 * n) - 1) * AS) by (apply Rmult_le_compat_r; assumption).
  lra.
Qed.

(** ** the LU branch of [solve], every carrier *)
Lemma solve_lu_branch {T : Type} (O : Ops T) (a b x : list T) :
  slice_solve O a b = Some x ->
  (is_positive_definite O a = Some false \/ (is_positive_definite O a = Some true /\ try_cholesky O a = Some None)) ->
  length a = (length b * length b)%nat /\
  exists m piv, lu O a = Some (m, piv) /\ lu_solve O m piv b = Some x.
Proof.
  unfold slice_solve, solve, factor. intros H Hbr.
  destruct (Nat.eqb_spec (length a) (length b * length b)) as [Hl|]; cbn [guard bind] in H; [|discriminate].
  split; [exact Hl|].
  destruct Hbr as [Hpd|[Hpd Htc]]; rewrite Hpd in H; cbn [bind] in H; [|rewrite Htc in H; cbn [bind] in H];
    (destruct (lu O a) as [[m piv]|]; cbn [bind] in H; [|discriminate]; exists m, piv; split; [reflexivity|exact H]).
Qed.

(** [Matrix::solve] for a vector: always LU *)
Lemma mat_solve_vec_lu {T : Type} (O : Ops T) (mm : matrix (T:=T)) (b x : list T) :
  mat_solve_vec O mm b = Some x ->
  nr mm = length b /\ (nr mm * nr mm)%nat = length (dat mm) /\
  exists m piv, lu O (dat mm) = Some (m, piv) /\ lu_solve O m piv b = Some x.
Proof.
  unfold mat_solve_vec, msolve_vec. intros H.
  destruct (well_formed mm && (nr mm =? nc mm))%nat eqn:Hg; cbn [guard bind] in H; [|discriminate].
  apply andb_prop in Hg. destruct Hg as [Hwf Hsq]. apply Nat.eqb_eq in Hsq.
  unfold well_formed in Hwf. apply andb_prop in Hwf. destruct Hwf as [_ Hlen]. apply Nat.eqb_eq in Hlen.
  destruct (lu O (dat mm)) as [[m piv]|]; cbn [bind] in H; [|discriminate].
  destruct (Nat.eqb_spec (nr mm) (length b)) as [Hb|]; cbn [guard bind] in H; [|discriminate].
  split; [exact Hb|]. split; [rewrite <- Hlen, <- Hsq; reflexivity|].
  exists m, piv. split; [reflexivity|exact H].
Qed.

Theorem solve_lu_branch_backward_error (tbl : libm_table) (a b m y x : list pfloat) (piv : list nat) (n : nat) :
  slice_solve (FO tbl) a b = Some x ->
  (is_positive_definite (FO tbl) a = Some false \/
   (is_positive_definite (FO tbl) a = Some true /\ try_cholesky (FO tbl) a = Some None)) ->
  lu (FO tbl) a = Some (m, piv) -> length b = n ->
  y = fwd_elim (FO tbl) (unflatten m n n) n (map (fun p => nth p b 0%float) piv) ->
  Forall finite m -> Forall finite y -> Forall finite x ->
  (forall j, (j < n)%nat -> B2Rf (nth (j * n + j) m 0%float) <> 0) ->
  (forall i j k, (i < n)%nat -> (j < n)%nat -> (k < Nat.min i j)%nat ->
     B2Rf (nth (i * n + k) m 0%float) * B2Rf (nth (k * n + j) m 0%float) = 0 \/
     / 2 ^ 1022 <= Rabs (B2Rf (nth (i * n + k) m 0%float) * B2Rf (nth (k * n + j) m 0%float))) ->
  (forall i j, (i < n)%nat -> (j < i)%nat ->
     let s := (nth (nth i piv 0%nat * n + j) a 0
               - fold_left (fun acc k => acc + nth (i * n + k) m 0 * nth (k * n + j) m 0) (seq 0 j) 0)%float in
     B2Rf s / B2Rf (nth (j * n + j) m 0%float) = 0 \/ / 2 ^ 1022 <= Rabs (B2Rf s / B2Rf (nth (j * n + j) m 0%float))) ->
  (forall i k, (i < n)%nat -> (k < i)%nat ->
     B2Rf (nth k y 0%float) * B2Rf (nth (i * n + k) m 0%float) = 0 \/
     / 2 ^ 1022 <= Rabs (B2Rf (nth k y 0%float) * B2Rf (nth (i * n + k) m 0%float))) ->
  (forall i k, (i < k)%nat -> (k < n)%nat ->
     B2Rf (nth k x 0%float) * B2Rf (nth (i * n + k) m 0%float) = 0 \/
     / 2 ^ 1022 <= Rabs (B2Rf (nth k x 0%float) * B2Rf (nth (i * n + k) m 0%float))) ->
  (forall i, (i < n)%nat ->
     let s := fold_left (fun s k => (s - nth k x 0 * nth (i * n + k) m 0)%float) (rev (seq (S i) (n - S i))) (nth i y 0%float) in
     B2Rf s / B2Rf (nth (i * n + i) m 0%float) = 0 \/ / 2 ^ 1022 <= Rabs (B2Rf s / B2Rf (nth (i * n + i) m 0%float))) ->
  let A := map B2Rf a in let M := map B2Rf m in let B := map B2Rf b in let X := map B2Rf x in
  let gamma' := (1 + / 2 ^ 53) ^ (3 * n) - 1 in
  lu_solve (FO tbl) m piv b = Some x /\ is_perm piv n /\
  exists A' : list R,
    length A' = (n * n)%nat /\
    (forall i, (i < n)%nat -> mvec A' n X i = nth (nth i piv 0%nat) B 0) /\
    (forall i j, (i < n)%nat -> (j < n)%nat ->
       Rabs (getm A' n i j - getm A n (nth i piv 0%nat) j)
       <= gamma' * rsum (fun k => Rabs (Lof M n i k) * Rabs (Uof M n k j)) n).
Proof.
  intros Hs Hbr Hlu Hb Hy Hfm Hfy Hfx Hpiv Hp Hq Hp1 Hp2 Hq2.
  destruct (solve_lu_branch (FO tbl) a b x Hs Hbr) as (Hla & m' & piv' & Hlu' & Hls).
  rewrite Hlu in Hlu'. injection Hlu' as <- <-. rewrite Hb in Hla.
  cbv zeta. split; [exact Hls|].
  apply (lu_then_solve_backward_error tbl a b m y x piv n Hlu (eq_sym Hla) Hls Hb Hy Hfm Hfy Hfx Hpiv Hp Hq Hp1 Hp2 Hq2).
Qed.

Theorem matrix_solve_backward_error (tbl : libm_table) (mm : matrix (T:=pfloat)) (b m y x : list pfloat) (piv : list nat) :
  mat_solve_vec (FO tbl) mm b = Some x -> lu (FO tbl) (dat mm) = Some (m, piv) ->
  let n := nr mm in let a := dat mm in
  y = fwd_elim (FO tbl) (unflatten m n n) n (map (fun p => nth p b 0%float) piv) ->
  Forall finite m -> Forall finite y -> Forall finite x ->
  (forall j, (j < n)%nat -> B2Rf (nth (j * n + j) m 0%float) <> 0) ->
  (forall i j k, (i < n)%nat -> (j < n)%nat -> (k < Nat.min i j)%nat ->
     B2Rf (nth (i * n + k) m 0%float) * B2Rf (nth (k * n + j) m 0%float) = 0 \/
     / 2 ^ 1022 <= Rabs (B2Rf (nth (i * n + k) m 0%float) * B2Rf (nth (k * n + j) m 0%float))) ->
  (forall i j, (i < n)%nat -> (j < i)%nat ->
     let s := (nth (nth i piv 0%nat * n + j) a 0
               - fold_left (fun acc k => acc + nth (i * n + k) m 0 * nth (k * n + j) m 0) (seq 0 j) 0)%float in
     B2Rf s / B2Rf (nth (j * n + j) m 0%float) = 0 \/ / 2 ^ 1022 <= Rabs (B2Rf s / B2Rf (nth (j * n + j) m 0%float))) ->
  (forall i k, (i < n)%nat -> (k < i)%nat ->
     B2Rf (nth k y 0%float) * B2Rf (nth (i * n + k) m 0%float) = 0 \/
     / 2 ^ 1022 <= Rabs (B2Rf (nth k y 0%float) * B2Rf (nth (i * n + k) m 0%float))) ->
  (forall i k, (i < k)%nat -> (k < n)%nat ->
     B2Rf (nth k x 0%float) * B2Rf (nth (i * n + k) m 0%float) = 0 \/
     / 2 ^ 1022 <= Rabs (B2Rf (nth k x 0%float) * B2Rf (nth (i * n + k) m 0%float))) ->
  (forall i, (i < n)%nat ->
     let s := fold_left (fun s k => (s - nth k x 0 * nth (i * n + k) m 0)%float) (rev (seq (S i) (n - S i))) (nth i y 0%float) in
     B2Rf s / B2Rf (nth (i * n + i) m 0%float) = 0 \/ / 2 ^ 1022 <= Rabs (B2Rf s / B2Rf (nth (i * n + i) m 0%float))) ->
  let A := map B2Rf a in let M := map B2Rf m in let B := map B2Rf b in let X := map B2Rf x in
  let gamma' := (1 + / 2 ^ 53) ^ (3 * n) - 1 in
  lu_solve (FO tbl) m piv b = Some x /\ is_perm piv n /\
  exists A' : list R,
    length A' = (n * n)%nat /\
    (forall i, (i < n)%nat -> mvec A' n X i = nth (nth i piv 0%nat) B 0) /\
    (forall i j, (i < n)%nat -> (j < n)%nat ->
       Rabs (getm A' n i j - getm A n (nth i piv 0%nat) j)
       <= gamma' * rsum (fun k => Rabs (Lof M n i k) * Rabs (Uof M n k j)) n).
Proof.
  intros Hs Hlu. cbv zeta. intros Hy Hfm Hfy Hfx Hpiv Hp Hq Hp1 Hp2 Hq2.
  destruct (mat_solve_vec_lu (FO tbl) mm b x Hs) as (Hb & Hlen & m' & piv' & Hlu' & Hls).
  rewrite Hlu in Hlu'. injection Hlu' as <- <-.
  split; [exact Hls|].
  apply (lu_then_solve_backward_error tbl (dat mm) b m y x piv (nr mm) Hlu Hlen Hls (eq_sym Hb) Hy Hfm Hfy Hfx Hpiv Hp Hq Hp1 Hp2 Hq2).
Qed.
