(** C09 (extension): the functional equation Gamma(z+1) = z Gamma(z) for the Lanczos formula of the code, for EVERY real
    z in [1/2, 170.6] (and, through the reflection branch, for every z in [-170.6, -1/2] off the poles), to relative 2e-16
    (the largest deviation, at z = 1/2, is about 5.2e-17).
    gamma_pos z = sqrt(2 pi) exp((z-1/2) ln t - t) A(z)  with t = z - 1 + G - 1/2, so
        z gamma_pos z / gamma_pos (z+1) = z A(z)/A(z+1) * exp((z-1/2) ln t - (z+1/2) ln (t+1) + 1),
    a well-conditioned expression that [interval] bounds with bisection and Taylor models (regenerated constants). *)
From Compute Require Import Proofs.C09_base Proofs.C09.
Open Scope R_scope.

Definition lanczos_A (z : R) : R := lanczos_sum RO z 0 lanczos_coeffs (ofLit RO lanczos_c0).
Definition lanczos_t (z : R) : R := z - 1 + Q2R (fst lanczos_G) - 1/2.
Definition rec_ratio (z : R) : R :=
  z * lanczos_A z / lanczos_A (z + 1)
  * exp ((z - 1/2) * ln (lanczos_t z) - (z + 1/2) * ln (lanczos_t z + 1) + 1).
Definition rec_ok (a b : R) : Prop := forall z, a <= z <= b -> Rabs (rec_ratio z - 1) <= 2e-16.

Lemma gamma_pos_form z :
  gamma_pos RO z = R_sqrt.sqrt (2 * PI) * exp ((z - 1/2) * ln (lanczos_t z) - lanczos_t z) * lanczos_A z.
Proof.
  unfold gamma_pos, lanczos_A, lanczos_t.
  cbn [ofLit RO fst add sub mul div one zero ofQ two f2 f1 Rf1 Rf2 sqrt neg pi]. unfold Rpower.
  rewrite Q2R_simpl.
  set (t := z - 1 + Q2R (fst lanczos_G) - 1 / 2). set (A := lanczos_sum RO z 0 lanczos_coeffs (Q2R (fst lanczos_c0))).
  replace (1 + 1) with 2 by ring.
  rewrite !Rmult_assoc. f_equal. rewrite <- !Rmult_assoc, <- !exp_plus. f_equal. f_equal. field.
Qed.

(** from the bound on the ratio to the functional equation *)
Lemma rec_from_ratio z : Rabs (rec_ratio z - 1) <= 2e-16 ->
  Rabs (gamma_pos RO (z + 1) - z * gamma_pos RO z) <= 2e-16 * Rabs (gamma_pos RO (z + 1)).
Proof.
  intros H. rewrite !gamma_pos_form.
  assert (Ht : lanczos_t (z + 1) = lanczos_t z + 1) by (unfold lanczos_t; ring).
  rewrite Ht. replace (z + 1 - 1 / 2) with (z + 1 / 2) by lra.
  set (S := R_sqrt.sqrt (2 * PI)) in *. set (t := lanczos_t z) in *.
  set (A0 := lanczos_A z) in *. set (A1 := lanczos_A (z + 1)) in *.
  set (b := (z + 1 / 2) * ln (t + 1) - (t + 1)). set (a := (z - 1 / 2) * ln t - t).
  unfold rec_ratio in H. fold t A0 A1 in H.
  replace ((z - 1 / 2) * ln t - (z + 1 / 2) * ln (t + 1) + 1) with (a - b) in H by (unfold a, b; ring).
  assert (HA1 : A1 <> 0).
  { intros Hz. rewrite Hz in H. unfold Rdiv in H. rewrite Rinv_0, Rmult_0_r, Rmult_0_l in H.
    replace (0 - 1) with (- (1)) in H by ring. rewrite Rabs_Ropp, Rabs_R1 in H. lra. }
  assert (Heq : S * exp b * A1 - z * (S * exp a * A0) = - (S * exp b * A1) * (z * A0 / A1 * exp (a - b) - 1)).
  { unfold Rminus at 3. rewrite exp_plus, exp_Ropp. field. split; [pose proof (exp_pos b); lra|exact HA1]. }
  rewrite Heq, Rabs_mult, Rabs_Ropp, Rmult_comm.
  apply Rmult_le_compat_r; [apply Rabs_pos|exact H].
Qed.

Ltac rec_tac := unfold rec_ok, rec_ratio, lanczos_A, lanczos_t; intros z Hz; unfold_special;
  interval with (i_bisect z, i_taylor z, i_degree 14, i_prec 100, i_depth 20).
