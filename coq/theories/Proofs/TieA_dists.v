(** * Tie A for C02: the hand-written model [Model/Dists.v] IS the source.
    [Generated/dists.v] is produced on every run by tools/tiea/dists.py (expression translator tools/rsexpr.py) from
    src/distributions/*.rs, operation for operation.  Each lemma below states that the generated term and the
    model's function are the same function, for EVERY carrier [T] and operations record [O] (no algebraic law is
    used: the proofs are conversion, a case split on booleans, and arithmetic on the integer loop bounds).
    A change of a formula in the source changes the generated term and breaks the corresponding lemma. *)
From Coq Require Import ZArith List Bool Lia.
From Compute Require Import Base.Ops Base.RsExpr Model.Dists Generated.dists Proofs.TieA_tac.
Import ListNotations.

(** the translator's range / sum helpers are the model's *)
Lemma rs_seq_Zseq : forall len lo, rs_seq lo len = Zseq lo len.
Proof. induction len as [|len IH]; intro lo; cbn [rs_seq Zseq]; [reflexivity | now rewrite IH]. Qed.
Lemma rs_range_from : forall a b c : Z, (b - a + 1 = c)%Z -> rs_range a b = Zseq a (Z.to_nat c).
Proof. intros a b c H. unfold rs_range. rewrite H. apply rs_seq_Zseq. Qed.
Lemma rs_iter_sum_is : forall (T : Type) (O : Ops T) (l : list T), rs_iter_sum O l = iter_sum O l.
Proof. reflexivity. Qed.

Section TieA.
  Context {T : Type} (O : Ops T) (Gam : T -> T) (Bet : T -> T -> T) (Erf : T -> T).

  (** ** densities *)
  Lemma tiea_Beta_pdf : forall a b x, Beta_pdf O Bet a b x = pdf_beta O Bet a b x.
  Proof. reflexivity. Qed.
  Lemma tiea_ChiSquared_pdf : forall k x, ChiSquared_pdf O Gam k x = pdf_chisq O Gam k x.
  Proof. reflexivity. Qed.
  Lemma tiea_Exponential_pdf : forall l x, Exponential_pdf O l x = pdf_exponential O l x.
  Proof. reflexivity. Qed.
  Lemma tiea_Gamma_pdf : forall a b x, Gamma_pdf O Gam a b x = pdf_gamma O Gam a b x.
  Proof. reflexivity. Qed.
  Lemma tiea_Gumbel_pdf : forall mu b x, Gumbel_pdf O mu b x = pdf_gumbel O mu b x.
  Proof. reflexivity. Qed.
  Lemma tiea_Normal_pdf : forall mu s x, Normal_pdf O mu s x = pdf_normal O mu s x.
  Proof. reflexivity. Qed.
  Lemma tiea_Pareto_pdf : forall a m x, Pareto_pdf O a m x = pdf_pareto O a m x.
  Proof. reflexivity. Qed.
  Lemma tiea_T_pdf : forall nu x, T_pdf O Gam nu x = pdf_t O Gam nu x.
  Proof. reflexivity. Qed.
  Lemma tiea_Uniform_pdf : forall lo hi x, Uniform_pdf O lo hi x = pdf_uniform O lo hi x.
  Proof. reflexivity. Qed.
  Lemma tiea_Normal_ln_pdf : forall mu s x, Normal_ln_pdf O mu s x = ln_pdf_normal O mu s x.
  Proof. reflexivity. Qed.
  Lemma tiea_Normal_cdf : forall mu s x, Normal_cdf O Erf mu s x = cdf_normal O Erf mu s x.
  Proof. reflexivity. Qed.
  (** the trait default [self.pdf(x).ln()], used by every law but Normal *)
  Lemma tiea_Continuous_ln_pdf :
    forall (d : dist T) (x : T), (forall mu s, d <> DNormal mu s) ->
      ln_pdf O Gam Bet d x = option_map (fun v => Continuous_ln_pdf O (fun _ => v) x) (pdf O Gam Bet d x).
  Proof. intros d x Hd. destruct d; try reflexivity. exfalso. exact (Hd _ _ eq_refl). Qed.

  (** ** mass functions *)
  Lemma tiea_Bernoulli_pmf : forall p k, Bernoulli_pmf O p k = pmf_bernoulli O p k.
  Proof. reflexivity. Qed.
  Lemma tiea_Binomial_pmf : forall n p k, Binomial_pmf O n p k = pmf_binomial O n p k.
  Proof.
    intros n p k. unfold Binomial_pmf, pmf_binomial, ln_coeff.
    rewrite (rs_range_from 1 (Z.min k (n - k)) (Z.min k (n - k))) by lia. reflexivity.
  Qed.
  Lemma tiea_DiscreteUniform_pmf : forall lo hi k, DiscreteUniform_pmf O lo hi k = pmf_duniform O lo hi k.
  Proof. reflexivity. Qed.
  Lemma tiea_Poisson_pmf : forall l k, Poisson_pmf O l k = pmf_poisson O l k.
  Proof.
    intros l k. unfold Poisson_pmf, pmf_poisson, ln_factorial.
    rewrite (rs_range_from 2 k (k - 1)) by lia. reflexivity.
  Qed.

  (** ** reported moments (13 x 2) *)
  Lemma tiea_Bernoulli_mean : forall p, Bernoulli_mean O p = mean_of O (DBernoulli p).
  Proof. reflexivity. Qed.
  Lemma tiea_Bernoulli_var : forall p, Bernoulli_var O p = var_of O (DBernoulli p).
  Proof. reflexivity. Qed.
  Lemma tiea_Beta_mean : forall a b, Beta_mean O a b = mean_of O (DBeta a b).
  Proof. reflexivity. Qed.
  Lemma tiea_Beta_var : forall a b, Beta_var O a b = var_of O (DBeta a b).
  Proof. reflexivity. Qed.
  Lemma tiea_Binomial_mean : forall n p, Binomial_mean O n p = mean_of O (DBinomial n p).
  Proof. reflexivity. Qed.
  Lemma tiea_Binomial_var : forall n p, Binomial_var O n p = var_of O (DBinomial n p).
  Proof. reflexivity. Qed.
  Lemma tiea_ChiSquared_mean : forall k, ChiSquared_mean O k = mean_of O (DChiSquared k).
  Proof. reflexivity. Qed.
  Lemma tiea_ChiSquared_var : forall k, ChiSquared_var O k = var_of O (DChiSquared k).
  Proof. reflexivity. Qed.
  Lemma tiea_DiscreteUniform_mean : forall lo hi, DiscreteUniform_mean O lo hi = mean_of O (DDiscreteUniform lo hi).
  Proof. reflexivity. Qed.
  Lemma tiea_DiscreteUniform_var : forall lo hi, DiscreteUniform_var O lo hi = var_of O (DDiscreteUniform lo hi).
  Proof. reflexivity. Qed.
  Lemma tiea_Exponential_mean : forall l, Exponential_mean O l = mean_of O (DExponential l).
  Proof. reflexivity. Qed.
  Lemma tiea_Exponential_var : forall l, Exponential_var O l = var_of O (DExponential l).
  Proof. reflexivity. Qed.
  Lemma tiea_Gamma_mean : forall a b, Gamma_mean O a b = mean_of O (DGamma a b).
  Proof. reflexivity. Qed.
  Lemma tiea_Gamma_var : forall a b, Gamma_var O a b = var_of O (DGamma a b).
  Proof. reflexivity. Qed.
  Lemma tiea_Gumbel_mean : forall mu b, Gumbel_mean O mu b = mean_of O (DGumbel mu b).
  Proof. reflexivity. Qed.
  Lemma tiea_Gumbel_var : forall mu b, Gumbel_var O mu b = var_of O (DGumbel mu b).
  Proof. reflexivity. Qed.
  Lemma tiea_Normal_mean : forall mu s, Normal_mean O mu s = mean_of O (DNormal mu s).
  Proof. reflexivity. Qed.
  Lemma tiea_Normal_var : forall mu s, Normal_var O mu s = var_of O (DNormal mu s).
  Proof. reflexivity. Qed.
  Lemma tiea_Pareto_mean : forall a m, Pareto_mean O a m = mean_of O (DPareto a m).
  Proof. reflexivity. Qed.
  Lemma tiea_Pareto_var : forall a m, Pareto_var O a m = var_of O (DPareto a m).
  Proof. reflexivity. Qed.
  Lemma tiea_Poisson_mean : forall l, Poisson_mean O l = mean_of O (DPoisson l).
  Proof. reflexivity. Qed.
  Lemma tiea_Poisson_var : forall l, Poisson_var O l = var_of O (DPoisson l).
  Proof. reflexivity. Qed.
  Lemma tiea_T_mean : forall nu, T_mean O nu = mean_of O (DT nu).
  Proof. reflexivity. Qed.
  Lemma tiea_T_var : forall nu, T_var O nu = var_of O (DT nu).
  Proof. reflexivity. Qed.
  Lemma tiea_Uniform_mean : forall lo hi, Uniform_mean O lo hi = mean_of O (DUniform lo hi).
  Proof. reflexivity. Qed.
  Lemma tiea_Uniform_var : forall lo hi, Uniform_var O lo hi = var_of O (DUniform lo hi).
  Proof. reflexivity. Qed.

  (** ** constructors: the model's [valid] is "none of [new]'s own panic!/assert! fires" (13 laws).
      [Binomial::new] takes [n : u64]: the model's [0 <= n] is the type's range. *)
  Lemma tiea_Bernoulli_new_guard : forall p, Bernoulli_new_guard O p = valid O (DBernoulli p).
  Proof. intros. unfold Bernoulli_new_guard, valid, in_unit. tiea_cases. Qed.
  Lemma tiea_Beta_new_guard : forall a b, Beta_new_guard O a b = valid O (DBeta a b).
  Proof. intros. unfold Beta_new_guard, valid. tiea_cases. Qed.
  Lemma tiea_Binomial_new_guard : forall n p, (0 <= n)%Z -> Binomial_new_guard O n p = valid O (DBinomial n p).
  Proof.
    intros n p Hn. unfold Binomial_new_guard, valid, in_unit.
    replace (0 <=? n)%Z with true by (symmetry; apply Z.leb_le; exact Hn). tiea_cases.
  Qed.
  Lemma tiea_ChiSquared_new_guard : forall k, ChiSquared_new_guard O k = valid (T:=T) O (DChiSquared k).
  Proof. intros. unfold ChiSquared_new_guard, valid. tiea_cases. Qed.
  Lemma tiea_DiscreteUniform_new_guard : forall lo hi, DiscreteUniform_new_guard O lo hi = valid (T:=T) O (DDiscreteUniform lo hi).
  Proof. intros. unfold DiscreteUniform_new_guard, valid. tiea_cases. Qed.
  Lemma tiea_Exponential_new_guard : forall l, Exponential_new_guard O l = valid O (DExponential l).
  Proof. intros. unfold Exponential_new_guard, valid. tiea_cases. Qed.
  Lemma tiea_Gamma_new_guard : forall a b, Gamma_new_guard O a b = valid O (DGamma a b).
  Proof. intros. unfold Gamma_new_guard, valid. tiea_cases. Qed.
  Lemma tiea_Gumbel_new_guard : forall mu b, Gumbel_new_guard O mu b = valid O (DGumbel mu b).
  Proof. intros. unfold Gumbel_new_guard, valid. tiea_cases. Qed.
  Lemma tiea_Normal_new_guard : forall mu s, Normal_new_guard O mu s = valid O (DNormal mu s).
  Proof. intros. unfold Normal_new_guard, valid. tiea_cases. Qed.
  Lemma tiea_Pareto_new_guard : forall a m, Pareto_new_guard O a m = valid O (DPareto a m).
  Proof. intros. unfold Pareto_new_guard, valid. tiea_cases. Qed.
  Lemma tiea_Poisson_new_guard : forall l, Poisson_new_guard O l = valid O (DPoisson l).
  Proof. intros. unfold Poisson_new_guard, valid. tiea_cases. Qed.
  Lemma tiea_T_new_guard : forall nu, T_new_guard O nu = valid O (DT nu).
  Proof. intros. unfold T_new_guard, valid. tiea_cases. Qed.
  Lemma tiea_Uniform_new_guard : forall lo hi, Uniform_new_guard O lo hi = valid O (DUniform lo hi).
  Proof. intros. unfold Uniform_new_guard, valid. tiea_cases. Qed.

  (** ** the dispatchers the correspondence runs, written with the source's terms only *)
  Lemma tiea_pdf_dispatch :
    forall (d : dist T) (x : T),
      pdf O Gam Bet d x =
      match d with
      | DBeta a b => if Beta_new_guard O a b then Some (Beta_pdf O Bet a b x) else None
      | DChiSquared k => if ChiSquared_new_guard O k then Some (ChiSquared_pdf O Gam k x) else None
      | DExponential l => if Exponential_new_guard O l then Some (Exponential_pdf O l x) else None
      | DGamma a b => if Gamma_new_guard O a b then Some (Gamma_pdf O Gam a b x) else None
      | DGumbel mu b => if Gumbel_new_guard O mu b then Some (Gumbel_pdf O mu b x) else None
      | DNormal mu s => if Normal_new_guard O mu s then Some (Normal_pdf O mu s x) else None
      | DPareto a m => if Pareto_new_guard O a m then Some (Pareto_pdf O a m x) else None
      | DT nu => if T_new_guard O nu then Some (T_pdf O Gam nu x) else None
      | DUniform lo hi => if Uniform_new_guard O lo hi then Some (Uniform_pdf O lo hi x) else None
      | _ => None
      end.
  Proof.
    intros d x. unfold pdf. destruct d;
      rewrite ?tiea_Beta_new_guard, ?tiea_ChiSquared_new_guard, ?tiea_Exponential_new_guard, ?tiea_Gamma_new_guard,
        ?tiea_Gumbel_new_guard, ?tiea_Normal_new_guard, ?tiea_Pareto_new_guard, ?tiea_T_new_guard, ?tiea_Uniform_new_guard;
      try reflexivity; destruct (valid O _); reflexivity.
  Qed.
  Lemma tiea_pmf_dispatch :
    forall (d : dist T) (k : Z),
      pmf O d k =
      match d with
      | DBernoulli p => if Bernoulli_new_guard O p then Some (Bernoulli_pmf O p k) else None
      | DBinomial n p => if (0 <=? n)%Z && Binomial_new_guard O n p then Some (Binomial_pmf O n p k) else None
      | DDiscreteUniform lo hi => if DiscreteUniform_new_guard O lo hi then Some (DiscreteUniform_pmf O lo hi k) else None
      | DPoisson l => if Poisson_new_guard O l then Some (Poisson_pmf O l k) else None
      | _ => None
      end.
  Proof.
    intros d k. unfold pmf. destruct d;
      rewrite ?tiea_Bernoulli_new_guard, ?tiea_DiscreteUniform_new_guard, ?tiea_Poisson_new_guard, ?tiea_Binomial_pmf, ?tiea_Poisson_pmf;
      try reflexivity; try (destruct (valid O _); reflexivity).
    all: try (unfold valid, Binomial_new_guard, in_unit; destruct (0 <=? n)%Z; [|reflexivity]; cbn [andb]; tiea_cases).
  Qed.
End TieA.
