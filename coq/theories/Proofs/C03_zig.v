(** Proofs for C03, part 2: the ziggurat tables regenerated from [distributions/normal.rs] (Tie A) satisfy the
    construction identities Z1-Z6 under which the sampling loop is an exact rejection sampler for the half-normal density.
    The proof script does not mention any table entry: it is re-run on whatever the translator regenerates.
    Conventions (measured on the pinned tables): x_i := W[i] * 2^24 is the right edge of layer i (layer 0 on top),
    Y[i] the upper ordinate of layer i, layer 127 the base strip whose excess over R is the tail. *)
From Coq Require Import Reals List ZArith NArith QArith Qabs Qround Lia Lra Bool Floats.
From Interval Require Import Tactic.
From Compute Require Import Base.Ops Generated.ziggurat_tables.
Import ListNotations.

Definition xq (i : nat) : Q := fst (nth i zig_W (0%Q, 0%float)) * (16777216 # 1).
Definition yq (i : nat) : Q := fst (nth i zig_Y (0%Q, 0%float)).
Definition rq : Q := fst zig_R.
Definition kz (i : nat) : Z := Z.of_N (nth i zig_K 0%N).
(** area of layer i (i < 127: between the ordinates Y[i+1] and Y[i]; i = 127: the base strip) *)
Definition area (i : nat) : Q := if (i <? 127)%nat then xq i * (yq i - yq (S i)) else xq 127 * yq 127.

Definition tol9 : Q := 1 # 1000000000.

(** the rational (decidable) part, as one boolean *)
Definition all_below (n : nat) (p : nat -> bool) : bool := forallb p (seq 0 n).
Definition zig_rational_ok : bool :=
  (length zig_K =? 128)%nat && (length zig_W =? 128)%nat && (length zig_Y =? 128)%nat &&
  Qeq_bool (yq 0) 1 &&                                                                   (* Z1 *)
  (kz 0 =? 0)%Z &&
  all_below 127 (fun i => (kz (S i) =? Qfloor ((16777216 # 1) * xq i / xq (S i)))%Z) &&   (* Z3, exact *)
  all_below 128 (fun i => Qle_bool (Qabs (area i - area 0)) (tol9 * area 0)) &&           (* Z4 *)
  Qle_bool (Qabs (xq 127 - (rq + 1 / rq))) tol9 &&                                        (* Z5 *)
  Qle_bool (Qabs (xq 126 - rq)) tol9 &&
  all_below 127 (fun i => Qltb (xq i) (xq (S i)) && Qltb (yq (S i)) (yq i)) &&  (* Z6 *)
  Qltb 0 (xq 0) && Qltb 0 (yq 127) &&
  forallb lit_ok zig_literals.

Lemma zig_rational_ok_true : zig_rational_ok = true.
Proof. vm_compute. reflexivity. Qed.

Lemma Qltb_lt a b : Qltb a b = true -> (a < b)%Q.
Proof. unfold Qltb. intros H. apply Qlt_alt. destruct (a ?= b)%Q; try discriminate; reflexivity. Qed.

Lemma all_below_spec n p : all_below n p = true -> forall i, (i < n)%nat -> p i = true.
Proof.
  unfold all_below. rewrite forallb_forall. intros H i Hi. apply H. apply in_seq. lia.
Qed.

(** Z2: Y[i+1] = exp(-x_i^2/2) to 1e-11 *)
Open Scope R_scope.
Definition z2_stmt (x y : Q) : Prop := Rabs (Q2R y - exp (- (Q2R x * Q2R x) / 2)) <= 1 / 100000000000.
Definition z2_at (i : nat) : Prop := z2_stmt (xq i) (yq (S i)).

Ltac z2_one :=
  match goal with
  | |- z2_at ?i =>
      let x := eval vm_compute in (xq i) in
      let y := eval vm_compute in (yq (S i)) in
      change (z2_stmt x y); unfold z2_stmt, Q2R; cbn [Qnum Qden]; interval with (i_prec 70)
  end.

Lemma z2_all : Forall z2_at (seq 0 127).
Proof. cbv [seq]. repeat (apply Forall_cons; [z2_one|]). apply Forall_nil. Qed.

Theorem ziggurat_tables_consistent :
  (length zig_K = 128 /\ length zig_W = 128 /\ length zig_Y = 128)%nat /\
  (* Z1 *) (yq 0 == 1)%Q /\
  (* Z2 *) (forall i, (i < 127)%nat -> Rabs (Q2R (yq (S i)) - exp (- (Q2R (xq i) * Q2R (xq i)) / 2)) <= 1 / 100000000000) /\
  (* Z3 *) (kz 0 = 0%Z /\ forall i, (i < 127)%nat -> kz (S i) = Qfloor ((16777216 # 1) * xq i / xq (S i))) /\
  (* Z4 *) (forall i, (i < 128)%nat -> (Qabs (area i - area 0) <= tol9 * area 0)%Q) /\
  (* Z5 *) ((Qabs (xq 127 - (rq + 1 / rq)) <= tol9)%Q /\ (Qabs (xq 126 - rq) <= tol9)%Q) /\
  (* Z6 *) ((forall i, (i < 127)%nat -> (xq i < xq (S i))%Q /\ (yq (S i) < yq i)%Q) /\ (0 < xq 0)%Q /\ (0 < yq 127)%Q) /\
  (* every table literal is the nearest binary64 of its decimal text *) forallb lit_ok zig_literals = true.
Proof.
  pose proof zig_rational_ok_true as H. unfold zig_rational_ok in H.
  repeat (apply andb_true_iff in H; destruct H as [H ?]).
  repeat match goal with
  | h : (_ =? _)%nat = true |- _ => apply Nat.eqb_eq in h
  | h : (_ =? _)%Z = true |- _ => apply Z.eqb_eq in h
  | h : Qeq_bool _ _ = true |- _ => apply Qeq_bool_iff in h
  | h : Qle_bool _ _ = true |- _ => apply Qle_bool_iff in h
  end.
  split; [auto|]. split; [assumption|]. split.
  { intros i Hi. pose proof z2_all as Hz. rewrite Forall_forall in Hz. apply (Hz i). apply in_seq. lia. }
  split.
  { split; [assumption|]. intros i Hi.
    match goal with h : all_below 127 (fun i => (kz (S i) =? _)%Z) = true |- _ => apply (all_below_spec _ _ h) in Hi end.
    apply Z.eqb_eq in Hi. exact Hi. }
  split.
  { intros i Hi.
    match goal with h : all_below 128 _ = true |- _ => apply (all_below_spec _ _ h) in Hi end.
    apply Qle_bool_iff in Hi. exact Hi. }
  split; [split; assumption|]. split; [|assumption].
  split; [|split].
  - intros i Hi.
    match goal with h : all_below 127 (fun i => _ && _) = true |- _ => apply (all_below_spec _ _ h) in Hi end.
    apply andb_true_iff in Hi. destruct Hi as [Ha Hb]. split; apply Qltb_lt; assumption.
  - apply Qltb_lt; assumption.
  - apply Qltb_lt; assumption.
Qed.
