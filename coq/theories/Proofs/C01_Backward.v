(** Proofs for C01, part 5: no assumption on symmetry at all.  When the routing predicate accepts a
    matrix that is symmetric only WITHIN the tolerance of [is_symmetric], the Cholesky route reads the
    lower triangle only, so it solves the system of the matrix mirrored from the lower triangle.  That
    matrix differs from A by at most eps.max(|a_ij|,|a_ji|) in each entry: a backward error of relative
    size eps, in exact arithmetic.  Every other case solves A itself. *)
From Coq Require Import List Arith Bool Lia Reals Lra.
From Compute Require Import Base.Ops Base.ListMat Model.Reduce Model.MatMul Model.Subst Model.Cholesky Model.LU
  Model.Solve Model.SolveInst Spec.Factor Spec.Solve Proofs.C05 Proofs.LinAlgBase Proofs.C11_Subst Proofs.C11_Chol
  Proofs.C11_LU Proofs.C11_Solve Proofs.C01_Layout Proofs.C01_Chol Proofs.C01_Pred Proofs.C01.
Import ListNotations.
Local Open Scope R_scope.

(** the symmetric matrix whose lower triangle is that of [a] *)
Definition mirror_entry (a : list R) (n i j : nat) : R :=
  if (j <=? i)%nat then getm a n i j else getm a n j i.
Definition mirror_lower (a : list R) (n : nat) : list R :=
  map (fun p => mirror_entry a n (p / n) (p mod n)) (seq 0 (n * n)).

Lemma mirror_lower_length a n : length (mirror_lower a n) = (n * n)%nat.
Proof. unfold mirror_lower. rewrite map_length, seq_length. reflexivity. Qed.

Lemma getm_mirror_lower a n i j :
  (i < n)%nat -> (j < n)%nat -> getm (mirror_lower a n) n i j = mirror_entry a n i j.
Proof.
  intros Hi Hj. unfold getm, mirror_lower.
  assert (Hlt : (i * n + j < n * n)%nat) by nia.
  rewrite nth_map_seq by exact Hlt. cbn [Nat.add].
  replace ((i * n + j) / n)%nat with i.
  - replace ((i * n + j) mod n)%nat with j; [reflexivity|].
    rewrite Nat.add_comm, Nat.mod_add by lia. symmetry. apply Nat.mod_small. exact Hj.
  - rewrite Nat.add_comm, Nat.div_add by lia. rewrite (Nat.div_small j n Hj). reflexivity.
Qed.

Lemma mirror_lower_symmetric a n : symmetric (mirror_lower a n) n.
Proof.
  intros i j Hi Hj. rewrite !getm_mirror_lower by auto. unfold mirror_entry.
  destruct (Nat.leb_spec j i), (Nat.leb_spec i j); try reflexivity; try lia.
  replace j with i by lia. reflexivity.
Qed.

(** it is within the symmetry tolerance of [a] whenever the predicate accepted [a] *)
Lemma mirror_lower_close a n :
  (n * n)%nat = length a -> is_positive_definite RO a = Some true ->
  forall i j, (i < n)%nat -> (j < n)%nat ->
    Rabs (getm (mirror_lower a n) n i j - getm a n i j) <= sym_tol (getm a n i j) (getm a n j i).
Proof.
  intros Hn Hpd i j Hi Hj. destruct (pd_pred_true a n Hn Hpd) as [Hs _].
  rewrite getm_mirror_lower by auto. unfold mirror_entry. destruct (Nat.leb_spec j i).
  - replace (getm a n i j - getm a n i j) with 0 by lra. rewrite Rabs_R0. apply sym_tol_nonneg.
  - rewrite Rabs_minus_sym. apply Hs; auto.
Qed.

(** the Cholesky route solves the mirrored system *)
Lemma chol_route_solves_mirror a l b n :
  (n * n)%nat = length a -> (0 < n)%nat -> length b = n ->
  try_cholesky RO a = Some (Some l) ->
  exists x, cholesky_solve RO l b = Some x /\ solves (mirror_lower a n) n x b.
Proof.
  intros Hn Hpos Hb Hc.
  destruct (try_cholesky_reconstructs_lower a l n Hc Hn) as (Hl & Hlow & Hd & Hrec).
  apply (cholesky_solve_correct (mirror_lower a n) l b n); auto.
  intros i j Hi Hj. rewrite getm_mirror_lower by auto. unfold mirror_entry.
  destruct (Nat.leb_spec j i) as [Hji|Hji].
  - apply Hrec; auto.
  - rewrite <- (Hrec j i) by (auto; lia). apply rsum_ext. intros; ring.
Qed.

(** for EVERY square matrix whose LU pivots are nonzero (in particular every nonsingular one) and every
    right-hand side, [solve] returns a vector that solves A'.x = b exactly, where A' = A unless the
    Cholesky route was taken, and in every case |a'_ij - a_ij| <= eps.max(|a_ij|,|a_ji|) *)
Theorem solve_backward a b n :
  (n * n)%nat = length a -> (0 < n)%nat -> length b = n -> lu_pivots_nonzero a n ->
  exists x a', slice_solve RO a b = Some x /\ length a' = (n * n)%nat /\
    (forall i j, (i < n)%nat -> (j < n)%nat ->
       Rabs (getm a' n i j - getm a n i j) <= sym_tol (getm a n i j) (getm a n j i)) /\
    solves a' n x b.
Proof.
  intros Hn Hpos Hb Hpiv.
  assert (Hself : forall i j, (i < n)%nat -> (j < n)%nat ->
            Rabs (getm a n i j - getm a n i j) <= sym_tol (getm a n i j) (getm a n j i)).
  { intros. replace (getm a n i j - getm a n i j) with 0 by lra. rewrite Rabs_R0. apply sym_tol_nonneg. }
  assert (Hlu : exists x, (let* _ := guard (length a =? length b * length b)%nat in solve_via_lu RO a b) = Some x
                          /\ solves a n x b).
  { rewrite Hb, <- Hn, Nat.eqb_refl. cbn [guard bind]. apply solve_lu_correct; auto. }
  unfold slice_solve.
  pose proof (is_positive_definite_sq a n Hn) as Hpd.
  destruct (is_symmetric_rows RO (unflatten a n n) n && diag_positive_rows RO (unflatten a n n) n) eqn:E.
  - pose proof (try_cholesky_shape RO a) as Hsh. rewrite <- Hn, is_square_sq in Hsh.
    pose proof E as E'. apply andb_true_iff in E'. destruct E' as [Es _]. rewrite Es in Hsh. destruct Hsh as [r Hr].
    destruct r as [l|].
    + rewrite (pd_chol_goes_chol RO _ _ _ _ a b l Hpd Hr). rewrite Hb, <- Hn, Nat.eqb_refl. cbn [guard bind].
      destruct (chol_route_solves_mirror a l b n Hn Hpos Hb Hr) as (x & Hx & Hsx).
      exists x, (mirror_lower a n). split; [exact Hx|]. split; [apply mirror_lower_length|].
      split; [apply (mirror_lower_close a n Hn Hpd)|exact Hsx].
    + rewrite (indefinite_falls_back RO _ _ _ _ a b Hpd Hr).
      destruct Hlu as (x & Hx & Hsx). exists x, a. unfold solve_via_lu in Hx. repeat split; auto.
      apply Hsx. apply Hsx.
  - rewrite (not_pd_goes_lu RO _ _ _ _ a b Hpd).
    destruct Hlu as (x & Hx & Hsx). exists x, a. unfold solve_via_lu in Hx. repeat split; auto.
    apply Hsx. apply Hsx.
Qed.

(** the same at the level of the routing, hence for the multi-right-hand-side solver and the inverse *)
Definition close_to (a' a : list R) (n : nat) : Prop :=
  length a' = (n * n)%nat /\
  forall i j, (i < n)%nat -> (j < n)%nat ->
    Rabs (getm a' n i j - getm a n i j) <= sym_tol (getm a n i j) (getm a n j i).

Lemma close_to_refl a n : (n * n)%nat = length a -> close_to a a n.
Proof.
  intros Hn. split; [auto|]. intros i j Hi Hj.
  replace (getm a n i j - getm a n i j) with 0 by lra. rewrite Rabs_R0. apply sym_tol_nonneg.
Qed.

Theorem factor_backward a n :
  (n * n)%nat = length a -> (0 < n)%nat -> lu_pivots_nonzero a n ->
  exists f a', slice_factor RO a = Some f /\ close_to a' a n /\ solver_ok a' n f.
Proof.
  intros Hn Hpos Hpiv. unfold slice_factor.
  pose proof (is_positive_definite_sq a n Hn) as Hpd.
  destruct (is_symmetric_rows RO (unflatten a n n) n && diag_positive_rows RO (unflatten a n n) n) eqn:E.
  - pose proof (try_cholesky_shape RO a) as Hsh. rewrite <- Hn, is_square_sq in Hsh.
    pose proof E as E'. apply andb_true_iff in E'. destruct E' as [Es _]. rewrite Es in Hsh. destruct Hsh as [r Hr].
    destruct r as [l|].
    + rewrite (factor_pd_chol RO _ _ _ _ a l Hpd Hr).
      exists (cholesky_solve RO l), (mirror_lower a n). split; [reflexivity|]. split.
      * split; [apply mirror_lower_length | apply (mirror_lower_close a n Hn Hpd)].
      * intros b Hb. apply (chol_route_solves_mirror a l b n Hn Hpos Hb Hr).
    + rewrite (factor_pd_fallback RO _ _ _ _ a Hpd Hr).
      destruct (lu_route_ok a n Hn Hpiv) as (f & Hf & Hok). exists f, a. auto using close_to_refl.
  - rewrite (factor_not_pd RO _ _ _ _ a Hpd).
    destruct (lu_route_ok a n Hn Hpiv) as (f & Hf & Hok). exists f, a. auto using close_to_refl.
Qed.

Theorem solve_sys_backward a b n k :
  (n * n)%nat = length a -> (0 < n)%nat -> length b = (n * k)%nat -> lu_pivots_nonzero a n ->
  exists X a', slice_solve_sys RO a b = Some X /\ close_to a' a n /\ solves_sys a' n k X b.
Proof.
  intros Hn Hpos Hb Hpiv.
  destruct (factor_backward a n Hn Hpos Hpiv) as (f & a' & Hf & Hclose & Hok).
  assert (Hs : is_square (length a) = Some n) by (rewrite <- Hn; apply is_square_sq).
  destruct (solve_sys_layout RO _ _ _ _ a b n k f Hs Hpos Hb Hf) as (X & HX & HXl & Hcols).
  { intros j Hj. destruct (Hok (colk 0 b n k j) (colk_length _ _ _ _ _)) as (x & Hx & Hxl & _). eauto. }
  exists X, a'. split; [exact HX|]. split; [exact Hclose|]. apply (columns_solved a' n k f b X); auto.
Qed.

Theorem invert_backward a n :
  (n * n)%nat = length a -> (0 < n)%nat -> lu_pivots_nonzero a n ->
  exists X a', slice_invert RO a = Some X /\ close_to a' a n /\ is_right_inverse a' n X.
Proof.
  intros Hn Hpos Hpiv.
  destruct (solve_sys_backward a (eye RO n) n n Hn Hpos (eye_length RO n) Hpiv) as (X & a' & HX & Hclose & Hsol).
  exists X, a'. split; [|split; [exact Hclose | apply solves_eye_inverse; exact Hsol]].
  unfold slice_invert, invert_matrix. rewrite <- Hn, is_square_sq. cbn [bind]. exact HX.
Qed.

(** ** which matrices fall back: a factor exists only for positive semidefinite matrices, so every
    symmetric INDEFINITE matrix that passes the routing predicate is solved by the LU route *)
Definition quad (a : list R) (n : nat) (x : list R) : R :=
  rsum (fun i => rsum (fun j => nth i x 0 * getm a n i j * nth j x 0) n) n.

Lemma try_cholesky_psd a l n :
  try_cholesky RO a = Some (Some l) -> (n * n)%nat = length a -> symmetric a n ->
  forall x, 0 <= quad a n x.
Proof.
  intros Hc Hn Hsym x.
  destruct (try_cholesky_reconstructs a l n Hc Hn Hsym) as (_ & _ & _ & Hrec).
  set (S := fun k => rsum (fun j => getm l n j k * nth j x 0) n).
  assert (Hq : quad a n x = rsum (fun k => S k * S k) n).
  { unfold quad.
    rewrite (rsum_ext _ (fun i => rsum (fun k => rsum (fun j => (nth i x 0 * getm l n i k) * (getm l n j k * nth j x 0)) n) n)).
    - rewrite rsum_swap. apply rsum_ext. intros k Hk.
      rewrite (rsum_ext _ (fun i => (nth i x 0 * getm l n i k) * S k)) by (intros i Hi; rewrite rsum_scal_l; reflexivity).
      rewrite rsum_scal_r. f_equal. unfold S. apply rsum_ext. intros; ring.
    - intros i Hi. rewrite rsum_swap. apply rsum_ext. intros j Hj.
      rewrite <- (Hrec i j Hi Hj). rewrite <- rsum_scal_l, <- rsum_scal_r. apply rsum_ext. intros; ring. }
  rewrite Hq. apply rsum_nonneg. intros k Hk. nra.
Qed.

Theorem indefinite_not_factored a n :
  (n * n)%nat = length a -> symmetric a n -> (exists x, quad a n x < 0) ->
  try_cholesky RO a = Some None.
Proof.
  intros Hn Hsym [x Hx].
  pose proof (try_cholesky_shape RO a) as Hsh. rewrite <- Hn, is_square_sq in Hsh.
  rewrite is_symmetric_rows_exact in Hsh.
  2:{ intros i j Hi Hj. rewrite !ent_unflatten by auto. apply (Hsym i j); auto. }
  destruct Hsh as [r Hr]. destruct r as [l|]; [exfalso|exact Hr].
  pose proof (try_cholesky_psd a l n Hr Hn Hsym x). lra.
Qed.

Theorem indefinite_solved_by_lu a b n :
  (n * n)%nat = length a -> length b = n -> symmetric a n ->
  (forall i, (i < n)%nat -> 0 < getm a n i i) -> (exists x, quad a n x < 0) ->
  is_positive_definite RO a = Some true /\ slice_solve RO a b = solve_via_lu RO a b.
Proof.
  intros Hn Hb Hsym Hdiag Hind.
  pose proof (pd_pred_sym_posdiag a n Hn Hsym Hdiag) as Hpd. split; [exact Hpd|].
  unfold slice_solve. rewrite (indefinite_falls_back RO _ _ _ _ a b Hpd (indefinite_not_factored a n Hn Hsym Hind)).
  rewrite Hb, <- Hn, Nat.eqb_refl. reflexivity.
Qed.

(** ** the documented witness of D1: [[1,2],[2,1]] passes the routing predicate, the fallible sweep
    reports "not positive definite", and [solve] falls back to LU *)
Definition d1_witness : list R := [1; 2; 2; 1].

Lemma d1_witness_symmetric : symmetric d1_witness 2.
Proof. intros i j Hi Hj. destruct i as [|[|i]], j as [|[|j]]; try lia; reflexivity. Qed.

Lemma d1_witness_pd_pred : is_positive_definite RO d1_witness = Some true.
Proof.
  apply (pd_pred_sym_posdiag d1_witness 2); [reflexivity | exact d1_witness_symmetric |].
  intros i Hi. destruct i as [|[|i]]; try lia; unfold getm, d1_witness; cbn [nth Nat.mul Nat.add]; lra.
Qed.

Lemma d1_witness_not_pd : try_cholesky RO d1_witness = Some None.
Proof.
  pose proof (try_cholesky_shape RO d1_witness) as Hsh.
  change (is_square (length d1_witness)) with (Some 2%nat) in Hsh. cbv iota beta in Hsh.
  rewrite is_symmetric_rows_exact in Hsh.
  2:{ intros i j Hi Hj. rewrite !ent_unflatten by auto. apply (d1_witness_symmetric i j); auto. }
  destruct Hsh as [r Hr]. destruct r as [l|]; [exfalso|exact Hr].
  destruct (try_cholesky_reconstructs d1_witness l 2 Hr eq_refl d1_witness_symmetric) as (_ & Hlow & Hpos & Hrec).
  pose proof (Hrec 0%nat 0%nat ltac:(lia) ltac:(lia)) as H00.
  pose proof (Hrec 1%nat 0%nat ltac:(lia) ltac:(lia)) as H10.
  pose proof (Hrec 1%nat 1%nat ltac:(lia) ltac:(lia)) as H11.
  pose proof (Hlow 0%nat 1%nat ltac:(lia) ltac:(lia) ltac:(lia)) as H01.
  pose proof (Hpos 0%nat ltac:(lia)) as P0.
  cbn [rsum] in H00, H10, H11. rewrite H01 in *.
  change (getm d1_witness 2 0 0) with 1 in H00. change (getm d1_witness 2 1 0) with 2 in H10.
  change (getm d1_witness 2 1 1) with 1 in H11.
  set (p := getm l 2 0 0) in *. set (q := getm l 2 1 0) in *. set (s := getm l 2 1 1) in *.
  assert (Hp : p * p = 1) by lra.
  assert (Hq : q * p = 2) by lra.
  assert (Hqq : q * q = 4) by nra.
  nra.
Qed.

Theorem d1_witness_solved :
  exists x, slice_solve RO d1_witness [1; 0] = Some x /\ solve_via_lu RO d1_witness [1; 0] = Some x /\
            solves d1_witness 2 x [1; 0].
Proof.
  unfold slice_solve. rewrite (indefinite_falls_back RO _ _ _ _ d1_witness [1; 0] d1_witness_pd_pred d1_witness_not_pd).
  change (length d1_witness =? length [1; 0] * length [1; 0])%nat with true. cbn [guard bind].
  fold (solve_via_lu RO d1_witness [1; 0]).
  assert (Hns : nonsingular d1_witness 2).
  { exists [-1/3; 2/3; 2/3; -1/3]. intros i j Hi Hj.
    destruct i as [|[|i]], j as [|[|j]]; try lia;
      unfold mmul, getm, delta, d1_witness; cbn [rsum nth Nat.mul Nat.add Nat.eqb]; lra. }
  destruct (solve_lu_correct d1_witness [1; 0] 2 eq_refl eq_refl (nonsingular_pivots_nonzero d1_witness 2 eq_refl Hns))
    as (x & Hx & Hsx).
  exists x. auto.
Qed.

(** on binary64 (a test, not a theorem): the repaired code returns the finite solution (-1/3, 2/3), the
    same bits as the always-LU [Matrix::solve]; before the repair the answer was (NaN, NaN) *)
From Coq Require Import Floats.
Example d1_witness_binary64 :
  (slice_solve FO0 [1; 2; 2; 1] [1; 0] = mat_solve_vec FO0 {| nr := 2; nc := 2; dat := [1; 2; 2; 1] |} [1; 0])%float /\
  (try_cholesky FO0 [1; 2; 2; 1] = Some None)%float.
Proof. split; vm_compute; reflexivity. Qed.
