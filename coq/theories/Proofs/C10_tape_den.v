(** * C10 (tape, part 2) — the tape built by [eval] records the right partial derivatives.

    [den e data xs env] is the textbook denotation of an objective program on the reals; [covered e]
    says the program avoids the one node kind whose recorded weight is wrong in the dependency
    ([f64 / Var], finding reverse:gradient-of-const-over-var) and that [powi] exponents are [i32];
    [smooth_at e data xs env] is the usual differentiability side condition at the point [xs]
    (indices in range, divisors nonzero, arguments of ln / sqrt positive, base of a negative power
    nonzero).  [eval_sound]: along ANY differentiable curve of parameter / let-bound values, the node
    returned by [eval] has the value of the denotation and its tangent (forward propagation of the
    recorded weights, [tanf]) is the derivative of the denotation along the curve.  Together with
    [grad_adjoint] (part 1) this gives [tape_grad_sound]: the vector returned by
    [f(&params).grad().wrt(&params)] is the vector of partial derivatives. *)
From Coq Require Import List Arith ZArith Bool Lia Reals Lra.
From Coquelicot Require Import Coquelicot.
From Compute Require Import Base.Ops Base.ListMat Base.Tape Spec.Autodiff Proofs.C10_tape.
Import ListNotations.
Local Open Scope R_scope.

(** ** derivatives of the elementary maps, in the shape of the recorded weights *)
Lemma powi2_RO x : powi RO x 2 = x * x.
Proof. unfold powi. cbn [powi_pos mul one RO]. ring. Qed.

Lemma size_nat_bound p : forall n : nat, (Z.pos p < 2 ^ Z.of_nat n)%Z -> (Pos.size_nat p <= n)%nat.
Proof.
  induction p as [p IH|p IH|]; intros [|n] H; cbn [Pos.size_nat];
    try (rewrite Nat2Z.inj_succ, Z.pow_succ_r in H by lia);
    try (cbn in H; lia); try (apply le_n_S, IH; lia); lia.
Qed.
Lemma powi_pos_RO fuel : forall (a r : R) (p : positive), (Pos.size_nat p <= fuel)%nat ->
  powi_pos RO fuel a r p = r * a ^ Pos.to_nat p.
Proof.
  induction fuel as [|fuel IH]; intros a r p Hp.
  - destruct p; cbn in Hp; lia.
  - destruct p as [p|p|]; cbn [powi_pos]; cbn [Pos.size_nat] in Hp.
    + rewrite IH by lia. cbn [mul RO]. rewrite Pos2Nat.inj_xI. cbn [pow]. rewrite pow_sqr. ring.
    + rewrite IH by lia. cbn [mul RO]. rewrite Pos2Nat.inj_xO. rewrite pow_sqr. ring.
    + cbn [mul RO]. rewrite Pos2Nat.inj_1. cbn [pow]. ring.
Qed.
Lemma powi_powerRZ x n : (Z.abs n < 2 ^ 64)%Z -> powi RO x n = powerRZ x n.
Proof.
  intros Hn. unfold powi, powerRZ. destruct n as [|p|p].
  - reflexivity.
  - rewrite powi_pos_RO by (apply (size_nat_bound _ 64); cbn in Hn |- *; lia). cbn [one RO]. ring.
  - rewrite powi_pos_RO by (apply (size_nat_bound _ 64); cbn in Hn |- *; lia). cbn [one div RO].
    unfold Rdiv. rewrite !Rmult_1_l. reflexivity.
Qed.

Ltac rr := change (@Hierarchy.one _) with 1; change (@Hierarchy.zero _) with 0;
           change (@Hierarchy.plus _) with Rplus; change (@Hierarchy.mult _) with Rmult;
           change (@Hierarchy.scal _ _) with Rmult; change (@Hierarchy.opp _) with Ropp;
           change (@Hierarchy.minus _) with Rminus.

Lemma is_derive_val (f : R -> R) (x l l' : R) : is_derive f x l -> @eq R l l' -> is_derive f x l'.
Proof. intros H <-. exact H. Qed.

Lemma is_derive_powerRZ (n : Z) (a : R) :
  ((n < 0)%Z -> a <> 0) -> is_derive (fun y => powerRZ y n) a (IZR n * powerRZ a (Z.pred n)).
Proof.
  intros Ha. destruct n as [|p|p].
  - cbn [powerRZ]. eapply is_derive_val; [apply @is_derive_const|]. symmetry. apply Rmult_0_l.
  - cbn [powerRZ].
    eapply is_derive_val; [apply is_derive_pow, @is_derive_id|].
    destruct (Pos2Nat.is_succ p) as [m Hm]. rewrite Hm. cbn [Init.Nat.pred].
    replace (Z.pred (Z.pos p)) with (Z.of_nat m) by lia.
    rewrite <- pow_powerRZ. rewrite <- positive_nat_Z, Hm, <- INR_IZR_INZ.
    rr. generalize (INR (S m)); intros q. ring.
  - assert (Ha' : a <> 0) by (apply Ha; lia).
    cbn [powerRZ].
    eapply is_derive_val; [apply is_derive_inv; [apply is_derive_pow, @is_derive_id|]|].
    + apply pow_nonzero. exact Ha'.
    + replace (Z.pred (Z.neg p)) with (Z.neg (p + 1)) by lia. cbn [powerRZ].
      rewrite Pos2Nat.inj_add, Pos2Nat.inj_1.
      change (Z.neg p) with (Z.opp (Z.pos p)). rewrite opp_IZR.
      rewrite <- positive_nat_Z, <- INR_IZR_INZ.
      destruct (Pos2Nat.is_succ p) as [m Hm]. rewrite Hm. cbn [Init.Nat.pred].
      replace (S m + 1)%nat with (S (S m)) by lia.
      rr. cbn [pow].
      assert (a ^ m <> 0) by (apply pow_nonzero; exact Ha').
      generalize (INR (S m)); intros q. field. split; assumption.
Qed.

Lemma cosh_ne0 x : cosh x <> 0.
Proof. unfold cosh. pose proof (exp_pos x). pose proof (exp_pos (- x)). lra. Qed.
Lemma cosh2_sinh2 x : cosh x * cosh x - sinh x * sinh x = 1.
Proof.
  unfold cosh, sinh.
  replace ((exp x + exp (- x)) / 2 * ((exp x + exp (- x)) / 2) - (exp x - exp (- x)) / 2 * ((exp x - exp (- x)) / 2))
    with (exp x * exp (- x)) by field.
  rewrite <- exp_plus, Rplus_opp_r. apply exp_0.
Qed.
Lemma is_derive_tanh a : is_derive tanh a (1 / (cosh a * cosh a)).
Proof.
  unfold tanh.
  eapply is_derive_val.
  - apply (@is_derive_div sinh cosh a (cosh a) (sinh a)).
    + apply is_derive_Reals, derivable_pt_lim_sinh.
    + apply is_derive_Reals, derivable_pt_lim_cosh.
    + apply cosh_ne0.
  - pose proof (cosh_ne0 a). rewrite (cosh2_sinh2 a). cbn [pow]. field. exact H.
Qed.

(** the unary methods: the value and the weight [v_fn] records *)
Lemma is_derive_uden f a : usmooth f a ->
  is_derive (uden f) a
    (match f with
     | UExp => exp a | USin => cos a | UCos => - sin a | ULn => 1 / a
     | USqrt => 1 / ((1 + 1) * R_sqrt.sqrt a) | URecip => - 1 / (a * a)
     | UTanh => 1 / (cosh a * cosh a)
     end).
Proof.
  destruct f; cbn [uden usmooth]; intros H.
  - apply is_derive_exp.
  - apply is_derive_sin.
  - apply is_derive_cos.
  - eapply is_derive_val; [apply is_derive_ln; exact H|]. unfold Rdiv. ring.
  - eapply is_derive_val; [apply (is_derive_sqrt (fun y => y) a 1); [apply @is_derive_id|exact H]|].
    replace (1 + 1) with 2 by ring. reflexivity.
  - eapply is_derive_val; [apply (is_derive_inv (fun y => y) a 1); [apply @is_derive_id|exact H]|].
    cbn [pow]. field. exact H.
  - apply is_derive_tanh.
Qed.

(** ** soundness of [eval] along a curve *)
Definition pushed (tp : rtape) (d1 d2 : nat) (w1 w2 : R) : rtape :=
  mkTape (mkNode w1 w2 d1 d2 :: nodes tp) (S (tlen tp)).

(** [tp'] is a well-formed extension of [tp] *)
Definition text (tp tp' : rtape) : Prop := tape_wf tp' /\ exists new, nodes tp' = new ++ nodes tp.

Lemma text_refl tp : tape_wf tp -> text tp tp.
Proof. intros H. split; [exact H|]. exists []. reflexivity. Qed.
Lemma text_trans tp1 tp2 tp3 : text tp1 tp2 -> text tp2 tp3 -> text tp1 tp3.
Proof.
  intros [_ [n1 H1]] [W [n2 H2]]. split; [exact W|]. exists (n2 ++ n1). rewrite H2, H1, app_assoc. reflexivity.
Qed.
Lemma text_tlen tp tp' : tape_wf tp -> text tp tp' -> (tlen tp <= tlen tp')%nat.
Proof.
  intros [L _] [[L' _] [new H]]. rewrite L, L', H, app_length. lia.
Qed.

Section Curve.
  Variable data : list (list R).
  (** the cut node [k] (the independent variable), a bound [base] below which it lies, the curve's
      parameter value [s0] *)
  Variables (k base : nat) (s0 : R).

  (** the variable [a] is tracked by the function [A] of the curve parameter *)
  Definition tv (nds : list rnode) (a : rvar) (A : R -> R) : Prop :=
    (snd a < length nds)%nat /\ fst a = A s0 /\
    ((k < base)%nat -> is_derive A s0 (tanf nds k (snd a))).
  Definition ok_vars (nds : list rnode) (vs : list rvar) (F : R -> list R) : Prop :=
    length vs = length (F s0) /\
    forall j pv, nth_error vs j = Some pv -> tv nds pv (fun s => nth j (F s) 0).

  Lemma tv_text tp tp' a A : text tp tp' -> tv (nodes tp) a A -> tv (nodes tp') a A.
  Proof.
    intros [_ [new H]] (H1 & H2 & H3). rewrite H. split; [rewrite app_length; lia|].
    split; [exact H2|]. intros Hk. rewrite tanf_app by exact H1. exact (H3 Hk).
  Qed.
  Lemma ok_vars_text tp tp' vs F : text tp tp' -> ok_vars (nodes tp) vs F -> ok_vars (nodes tp') vs F.
  Proof.
    intros Ht [L H]. split; [exact L|]. intros j pv Hj. eapply tv_text; [exact Ht|]. exact (H j pv Hj).
  Qed.
  Lemma tv_ext nds a F G : (forall s, F s = G s) -> tv nds a F -> tv nds a G.
  Proof.
    intros HFG (H1 & H2 & H3). split; [exact H1|]. split; [rewrite <- HFG; exact H2|].
    intros Hk. eapply is_derive_ext; [exact HFG|]. exact (H3 Hk).
  Qed.

  (** the core step: a node pushed on top of tracked operands *)
  Lemma bin_sound tp a b A B (Phi : R -> R) w1 w2 val :
    tape_wf tp -> (base <= tlen tp)%nat ->
    tv (nodes tp) a A -> tv (nodes tp) b B ->
    (forall ta tb, is_derive A s0 ta -> is_derive B s0 tb -> is_derive Phi s0 (w1 * ta + w2 * tb)) ->
    val = Phi s0 ->
    text tp (pushed tp (snd a) (snd b) w1 w2) /\
    tv (nodes (pushed tp (snd a) (snd b) w1 w2)) (val, tlen tp) Phi.
  Proof.
    intros [L W] Hb (A1 & A2 & A3) (B1 & B2 & B3) HD Hv. unfold pushed. cbn [nodes tlen].
    split; [split; [split|]|].
    - cbn [tlen nodes length]. rewrite L. reflexivity.
    - cbn [nodes nodes_wf nd1 nd2 nw1 nw2]. split; [right; split; assumption|exact W].
    - exists [mkNode w1 w2 (snd a) (snd b)]. reflexivity.
    - split; [cbn [snd length]; lia|]. split; [exact Hv|].
      intros Hk. cbn [snd tanf nd1 nd2 nw1 nw2]. rewrite <- L, Nat.eqb_refl.
      destruct (Nat.eqb_spec (tlen tp) k); [lia|].
      destruct (Nat.eqb_spec (snd a) (tlen tp)); [lia|].
      apply HD; auto.
  Qed.

  Lemma un_eq tp (a : rvar) val w : un RO tp a val w = ((val, tlen tp), pushed tp (snd a) (snd a) w 0).
  Proof. reflexivity. Qed.
  Lemma v_add_eq tp (a b : rvar) : v_add RO tp a b = ((fst a + fst b, tlen tp), pushed tp (snd a) (snd b) 1 1).
  Proof. reflexivity. Qed.
  Lemma v_mul_eq tp (a b : rvar) : v_mul RO tp a b = ((fst a * fst b, tlen tp), pushed tp (snd a) (snd b) (fst b) (fst a)).
  Proof. reflexivity. Qed.

  (** a one-operand node recording the weights [(w1, w2)] on the same operand *)
  Lemma un_sound tp a A (phi : R -> R) w w1 w2 val :
    tape_wf tp -> (base <= tlen tp)%nat -> tv (nodes tp) a A ->
    is_derive phi (A s0) w -> w1 + w2 = w -> val = phi (A s0) ->
    text tp (pushed tp (snd a) (snd a) w1 w2) /\
    tv (nodes (pushed tp (snd a) (snd a) w1 w2)) (val, tlen tp) (fun s => phi (A s)).
  Proof.
    intros W Hb Ha Hphi Hw Hv.
    apply (bin_sound tp a a A A (fun s => phi (A s)) w1 w2 val W Hb Ha Ha); [|exact Hv].
    intros ta tb Hta Htb.
    assert (tb = ta) by (apply (is_derive_unique A s0) in Hta; apply (is_derive_unique A s0) in Htb; congruence).
    subst tb. eapply is_derive_val; [apply (is_derive_comp phi A s0 w ta Hphi Hta)|].
    rewrite <- Hw. change (scal ta (w1 + w2)) with (ta * (w1 + w2)). ring.
  Qed.

  Lemma add_sound tp a b A B :
    tape_wf tp -> (base <= tlen tp)%nat -> tv (nodes tp) a A -> tv (nodes tp) b B ->
    text tp (snd (v_add RO tp a b)) /\
    tv (nodes (snd (v_add RO tp a b))) (fst (v_add RO tp a b)) (fun s => A s + B s).
  Proof.
    intros W Hb Ha Hb'. rewrite v_add_eq. cbn [fst snd].
    apply (bin_sound tp a b A B (fun s => A s + B s) 1 1 _ W Hb Ha Hb').
    - intros ta tb Hta Htb. eapply is_derive_val; [apply (@is_derive_plus _ _ A B s0 ta tb Hta Htb)|].
      change (plus ta tb) with (ta + tb). ring.
    - destruct Ha as (_ & -> & _), Hb' as (_ & -> & _). reflexivity.
  Qed.

  Lemma mul_sound tp a b A B :
    tape_wf tp -> (base <= tlen tp)%nat -> tv (nodes tp) a A -> tv (nodes tp) b B ->
    text tp (snd (v_mul RO tp a b)) /\
    tv (nodes (snd (v_mul RO tp a b))) (fst (v_mul RO tp a b)) (fun s => A s * B s).
  Proof.
    intros W Hb Ha Hb'. rewrite v_mul_eq. cbn [fst snd].
    apply (bin_sound tp a b A B (fun s => A s * B s) (fst b) (fst a) _ W Hb Ha Hb').
    - intros ta tb Hta Htb.
      eapply is_derive_val; [apply (@is_derive_mult _ A B s0 ta tb Hta Htb); intros; apply Rmult_comm|].
      destruct Ha as (_ & -> & _), Hb' as (_ & -> & _).
      change (plus (mult ta (B s0)) (mult (A s0) tb)) with (ta * B s0 + A s0 * tb). ring.
    - destruct Ha as (_ & -> & _), Hb' as (_ & -> & _). reflexivity.
  Qed.

  Lemma cden_some c x : cval data c = Some x -> cden data c = x.
  Proof. unfold cden. intros ->. reflexivity. Qed.

  Lemma ok_vars_nth nds vs F i :
    ok_vars nds vs F -> (i < length (F s0))%nat ->
    exists pv, nth_error vs i = Some pv /\ tv nds pv (fun s => nth i (F s) 0).
  Proof.
    intros [L H] Hi. destruct (nth_error vs i) as [pv|] eqn:E.
    - exists pv. split; [reflexivity|]. apply H. exact E.
    - apply nth_error_None in E. lia.
  Qed.

  Lemma d_lin c d a : is_derive (fun y : R => y * c + d) a c.
  Proof. auto_derive; [exact I|ring]. Qed.
  Lemma d_csub c a : is_derive (fun y : R => c - y) a (- (1)).
  Proof. auto_derive; [exact I|ring]. Qed.

  Lemma m1_RO : m1 RO = - (1).
  Proof. reflexivity. Qed.

  (** the recorded value and weight of each unary method are [uden] and its derivative *)
  Lemma v_fn_eq tp f (a : rvar) :
    v_fn RO tp f a =
    ((match f with
       | UExp => exp (fst a) | USin => sin (fst a) | UCos => cos (fst a) | ULn => ln (fst a)
       | USqrt => R_sqrt.sqrt (fst a) | URecip => 1 / fst a | UTanh => tanh (fst a)
       end, tlen tp),
     pushed tp (snd a) (snd a)
       (match f with
        | UExp => exp (fst a) | USin => cos (fst a) | UCos => - sin (fst a) | ULn => 1 / fst a
        | USqrt => 1 / ((1 + 1) * R_sqrt.sqrt (fst a)) | URecip => m1 RO / powi RO (fst a) 2
        | UTanh => 1 / powi RO (cosh (fst a)) 2
        end) 0).
  Proof. destruct f; reflexivity. Qed.

  Lemma fn_sound tp f a A :
    tape_wf tp -> (base <= tlen tp)%nat -> tv (nodes tp) a A -> usmooth f (A s0) ->
    text tp (snd (v_fn RO tp f a)) /\
    tv (nodes (snd (v_fn RO tp f a))) (fst (v_fn RO tp f a)) (fun s => uden f (A s)).
  Proof.
    intros W Hb Ha Hs. rewrite v_fn_eq. cbn [fst snd].
    pose proof Ha as (_ & Hf & _).
    eapply (un_sound tp a A (uden f) _ _ 0 _ W Hb Ha (is_derive_uden f (A s0) Hs)).
    - rewrite Hf. destruct f; try (rewrite Rplus_0_r; reflexivity).
      + rewrite powi2_RO, m1_RO, Rplus_0_r. reflexivity.
      + rewrite powi2_RO, Rplus_0_r. reflexivity.
    - rewrite Hf. destruct f; cbn [uden]; try reflexivity. unfold Rdiv. ring.
  Qed.

  Theorem eval_sound : forall e, covered e -> forall ps env tp P E,
    tape_wf tp -> (base <= tlen tp)%nat ->
    ok_vars (nodes tp) ps P -> ok_vars (nodes tp) env E ->
    smooth_at e data (P s0) (E s0) ->
    exists r tp', eval RO e ps env data tp = Some (r, tp') /\ text tp tp' /\
                  tv (nodes tp') r (fun s => den e data (P s) (E s)).
  Proof.
    induction e as [i|j|a IHa b IHb|a IHa b IHb|a IHa c|a IHa b IHb|a IHa c|c a IHa|a IHa b IHb|a IHa c
                   |a IHa b IHb|a IHa c|c a IHa|a IHa|a IHa n|f a IHa];
      intros Hc ps env tp P E W Hb Hps Henv Hs; cbn [covered] in Hc; cbn [smooth_at] in Hs; cbn [eval].
    - (* EPar *)
      destruct (ok_vars_nth _ _ _ i Hps Hs) as (pv & E1 & Hpv). rewrite E1. cbn [bind].
      exists pv, tp. split; [reflexivity|]. split; [apply text_refl; exact W|exact Hpv].
    - (* EVar *)
      destruct (ok_vars_nth _ _ _ j Henv Hs) as (pv & E1 & Hpv). rewrite E1. cbn [bind].
      exists pv, tp. split; [reflexivity|]. split; [apply text_refl; exact W|exact Hpv].
    - (* ELet *)
      destruct Hc as [Hca Hcb]. destruct Hs as [Hsa Hsb].
      destruct (IHa Hca ps env tp P E W Hb Hps Henv Hsa) as (va & tp1 & Ea & T1 & Hva).
      rewrite Ea. cbn [bind].
      pose proof (text_tlen _ _ W T1) as L1.
      destruct (IHb Hcb ps (va :: env) tp1 P (fun s => den a data (P s) (E s) :: E s)
                  (proj1 T1) ltac:(lia) (ok_vars_text _ _ _ _ T1 Hps)) as (vb & tp2 & Eb & T2 & Hvb).
      + destruct (ok_vars_text _ _ _ _ T1 Henv) as [Le He]. split; [cbn [length]; lia|].
        intros [|j'] pv Hj; cbn [nth_error] in Hj.
        * injection Hj as <-. exact Hva.
        * exact (He j' pv Hj).
      + exact Hsb.
      + exists vb, tp2. split; [exact Eb|]. split; [eapply text_trans; eassumption|exact Hvb].
    - (* EAdd *)
      destruct Hc as [Hca Hcb]. destruct Hs as [Hsa Hsb].
      destruct (IHa Hca ps env tp P E W Hb Hps Henv Hsa) as (va & tp1 & Ea & T1 & Hva).
      rewrite Ea. cbn [bind]. pose proof (text_tlen _ _ W T1) as L1.
      destruct (IHb Hcb ps env tp1 P E (proj1 T1) ltac:(lia) (ok_vars_text _ _ _ _ T1 Hps)
                  (ok_vars_text _ _ _ _ T1 Henv) Hsb) as (vb & tp2 & Eb & T2 & Hvb).
      rewrite Eb. cbn [bind]. pose proof (text_tlen _ _ (proj1 T1) T2) as L2.
      destruct (add_sound tp2 va vb _ _ (proj1 T2) ltac:(lia) (tv_text _ _ _ _ T2 Hva) Hvb) as [T3 Hv].
      eexists; eexists. split; [apply f_equal, surjective_pairing|].
      split; [eapply text_trans; [exact T1|eapply text_trans; eassumption]|exact Hv].
    - (* EAddC *)
      destruct Hs as [Hsa Hcv].
      destruct (IHa Hc ps env tp P E W Hb Hps Henv Hsa) as (va & tp1 & Ea & T1 & Hva).
      rewrite Ea. cbn [bind]. pose proof (text_tlen _ _ W T1) as L1.
      destruct (cval data c) as [x|] eqn:Ec; [|congruence]. cbn [bind]. unfold v_addc. rewrite un_eq.
      pose proof Hva as (_ & Hf & _).
      destruct (un_sound tp1 va _ (fun y => y * 1 + x) 1 (one RO) 0 (add RO (fst va) x) (proj1 T1) ltac:(lia) Hva
                  (d_lin 1 x _)) as [T2 Hv].
      { cbn [one RO]. ring. } { rewrite Hf. cbn [add RO]. ring. }
      eexists; eexists. split; [reflexivity|]. split; [eapply text_trans; eassumption|].
      eapply tv_ext; [|exact Hv]. intros s. cbn [den]. rewrite (cden_some _ _ Ec). ring.
    - (* ESub *)
      destruct Hc as [Hca Hcb]. destruct Hs as [Hsa Hsb].
      destruct (IHa Hca ps env tp P E W Hb Hps Henv Hsa) as (va & tp1 & Ea & T1 & Hva).
      rewrite Ea. cbn [bind]. pose proof (text_tlen _ _ W T1) as L1.
      destruct (IHb Hcb ps env tp1 P E (proj1 T1) ltac:(lia) (ok_vars_text _ _ _ _ T1 Hps)
                  (ok_vars_text _ _ _ _ T1 Henv) Hsb) as (vb & tp2 & Eb & T2 & Hvb).
      rewrite Eb. cbn [bind]. pose proof (text_tlen _ _ (proj1 T1) T2) as L2.
      unfold v_mulc. rewrite un_eq.
      pose proof Hvb as (_ & Hfb & _).
      destruct (un_sound tp2 vb _ (fun y => y * m1 RO + 0) (m1 RO) (m1 RO) 0 (mul RO (fst vb) (m1 RO)) (proj1 T2) ltac:(lia) Hvb
                  (d_lin _ 0 _)) as [T3 Hnb].
      { ring. } { rewrite Hfb. cbn [mul RO]. ring. }
      pose proof (text_tlen _ _ (proj1 T2) T3) as L3.
      destruct (add_sound _ va (mul RO (fst vb) (m1 RO), tlen tp2) _ _ (proj1 T3) ltac:(lia)
                  (tv_text _ _ _ _ T3 (tv_text _ _ _ _ T2 Hva)) Hnb) as [T4 Hv].
      eexists; eexists. split; [apply f_equal, surjective_pairing|].
      split; [eapply text_trans; [exact T1|eapply text_trans; [exact T2|eapply text_trans; eassumption]]|].
      eapply tv_ext; [|exact Hv]. intros s. cbn [den]. rewrite m1_RO. ring.
    - (* ESubC *)
      destruct Hs as [Hsa Hcv].
      destruct (IHa Hc ps env tp P E W Hb Hps Henv Hsa) as (va & tp1 & Ea & T1 & Hva).
      rewrite Ea. cbn [bind]. pose proof (text_tlen _ _ W T1) as L1.
      destruct (cval data c) as [x|] eqn:Ec; [|congruence]. cbn [bind]. unfold v_addc. rewrite un_eq.
      pose proof Hva as (_ & Hf & _).
      destruct (un_sound tp1 va _ (fun y => y * 1 + - x) 1 (one RO) 0 (add RO (fst va) (neg RO x)) (proj1 T1) ltac:(lia) Hva
                  (d_lin 1 (- x) _)) as [T2 Hv].
      { cbn [one RO]. ring. } { rewrite Hf. cbn [add neg RO]. ring. }
      eexists; eexists. split; [reflexivity|]. split; [eapply text_trans; eassumption|].
      eapply tv_ext; [|exact Hv]. intros s. cbn [den]. rewrite (cden_some _ _ Ec). ring.
    - (* ECSub *)
      destruct Hs as [Hsa Hcv].
      destruct (cval data c) as [x|] eqn:Ec; [|congruence]. cbn [bind].
      destruct (IHa Hc ps env tp P E W Hb Hps Henv Hsa) as (va & tp1 & Ea & T1 & Hva).
      rewrite Ea. cbn [bind]. pose proof (text_tlen _ _ W T1) as L1.
      pose proof Hva as (_ & Hf & _).
      destruct (un_sound tp1 va _ (fun y => x - y) (- (1)) (zero RO) (m1 RO) (sub RO x (fst va)) (proj1 T1) ltac:(lia) Hva
                  (d_csub x _)) as [T2 Hv].
      { rewrite m1_RO. cbn [zero RO]. ring. } { rewrite Hf. reflexivity. }
      exists (sub RO x (fst va), tlen tp1), (pushed tp1 (snd va) (snd va) (zero RO) (m1 RO)).
      split; [reflexivity|]. split; [eapply text_trans; eassumption|].
      eapply tv_ext; [|exact Hv]. intros s. cbn [den]. rewrite (cden_some _ _ Ec). reflexivity.
    - (* EMul *)
      destruct Hc as [Hca Hcb]. destruct Hs as [Hsa Hsb].
      destruct (IHa Hca ps env tp P E W Hb Hps Henv Hsa) as (va & tp1 & Ea & T1 & Hva).
      rewrite Ea. cbn [bind]. pose proof (text_tlen _ _ W T1) as L1.
      destruct (IHb Hcb ps env tp1 P E (proj1 T1) ltac:(lia) (ok_vars_text _ _ _ _ T1 Hps)
                  (ok_vars_text _ _ _ _ T1 Henv) Hsb) as (vb & tp2 & Eb & T2 & Hvb).
      rewrite Eb. cbn [bind]. pose proof (text_tlen _ _ (proj1 T1) T2) as L2.
      destruct (mul_sound tp2 va vb _ _ (proj1 T2) ltac:(lia) (tv_text _ _ _ _ T2 Hva) Hvb) as [T3 Hv].
      eexists; eexists. split; [apply f_equal, surjective_pairing|].
      split; [eapply text_trans; [exact T1|eapply text_trans; eassumption]|exact Hv].
    - (* EMulC *)
      destruct Hs as [Hsa Hcv].
      destruct (IHa Hc ps env tp P E W Hb Hps Henv Hsa) as (va & tp1 & Ea & T1 & Hva).
      rewrite Ea. cbn [bind]. pose proof (text_tlen _ _ W T1) as L1.
      destruct (cval data c) as [x|] eqn:Ec; [|congruence]. cbn [bind]. unfold v_mulc. rewrite un_eq.
      pose proof Hva as (_ & Hf & _).
      destruct (un_sound tp1 va _ (fun y => y * x + 0) x x 0 (mul RO (fst va) x) (proj1 T1) ltac:(lia) Hva
                  (d_lin x 0 _)) as [T2 Hv].
      { ring. } { rewrite Hf. cbn [mul RO]. ring. }
      eexists; eexists. split; [reflexivity|]. split; [eapply text_trans; eassumption|].
      eapply tv_ext; [|exact Hv]. intros s. cbn [den]. rewrite (cden_some _ _ Ec). ring.
    - (* EDiv *)
      destruct Hc as [Hca Hcb]. destruct Hs as (Hsa & Hsb & Hnz).
      destruct (IHa Hca ps env tp P E W Hb Hps Henv Hsa) as (va & tp1 & Ea & T1 & Hva).
      rewrite Ea. cbn [bind]. pose proof (text_tlen _ _ W T1) as L1.
      destruct (IHb Hcb ps env tp1 P E (proj1 T1) ltac:(lia) (ok_vars_text _ _ _ _ T1 Hps)
                  (ok_vars_text _ _ _ _ T1 Henv) Hsb) as (vb & tp2 & Eb & T2 & Hvb).
      rewrite Eb. cbn [bind]. pose proof (text_tlen _ _ (proj1 T1) T2) as L2.
      change (v_recip RO tp2 vb) with (v_fn RO tp2 URecip vb).
      destruct (fn_sound tp2 URecip vb _ (proj1 T2) ltac:(lia) Hvb Hnz) as [T3 Hrb].
      destruct (v_fn RO tp2 URecip vb) as [rb tp3]. cbn [fst snd] in T3, Hrb.
      pose proof (text_tlen _ _ (proj1 T2) T3) as L3.
      destruct (mul_sound tp3 va rb _ _ (proj1 T3) ltac:(lia)
                  (tv_text _ _ _ _ T3 (tv_text _ _ _ _ T2 Hva)) Hrb) as [T4 Hv].
      eexists; eexists. split; [apply f_equal, surjective_pairing|].
      split; [eapply text_trans; [exact T1|eapply text_trans; [exact T2|eapply text_trans; eassumption]]|].
      exact Hv.
    - (* EDivC *)
      destruct Hs as (Hsa & Hcv & Hnz).
      destruct (IHa Hc ps env tp P E W Hb Hps Henv Hsa) as (va & tp1 & Ea & T1 & Hva).
      rewrite Ea. cbn [bind]. pose proof (text_tlen _ _ W T1) as L1.
      destruct (cval data c) as [x|] eqn:Ec; [|congruence]. cbn [bind]. unfold v_mulc. rewrite un_eq.
      pose proof Hva as (_ & Hf & _).
      destruct (un_sound tp1 va _ (fun y => y * (1 / x) + 0) (1 / x) (div RO (one RO) x) 0
                  (mul RO (fst va) (div RO (one RO) x)) (proj1 T1) ltac:(lia) Hva (d_lin (1 / x) 0 _)) as [T2 Hv].
      { cbn [div one RO]. ring. } { rewrite Hf. cbn [mul div one RO]. ring. }
      eexists; eexists. split; [reflexivity|]. split; [eapply text_trans; eassumption|].
      eapply tv_ext; [|exact Hv]. intros s. cbn [den]. rewrite (cden_some _ _ Ec). unfold Rdiv. ring.
    - (* ECDiv: not covered *)
      destruct Hc.
    - (* ENeg *)
      destruct (IHa Hc ps env tp P E W Hb Hps Henv Hs) as (va & tp1 & Ea & T1 & Hva).
      rewrite Ea. cbn [bind]. pose proof (text_tlen _ _ W T1) as L1.
      unfold v_mulc. rewrite un_eq.
      pose proof Hva as (_ & Hf & _).
      destruct (un_sound tp1 va _ (fun y => y * m1 RO + 0) (m1 RO) (m1 RO) 0 (mul RO (fst va) (m1 RO)) (proj1 T1) ltac:(lia) Hva
                  (d_lin _ 0 _)) as [T2 Hv].
      { ring. } { rewrite Hf. cbn [mul RO]. ring. }
      eexists; eexists. split; [reflexivity|]. split; [eapply text_trans; eassumption|].
      eapply tv_ext; [|exact Hv]. intros s. cbn [den]. rewrite m1_RO. ring.
    - (* EPowi *)
      destruct Hc as [Hc Hn]. destruct Hs as [Hsa Hnz].
      destruct (IHa Hc ps env tp P E W Hb Hps Henv Hsa) as (va & tp1 & Ea & T1 & Hva).
      rewrite Ea. cbn [bind]. pose proof (text_tlen _ _ W T1) as L1.
      rewrite un_eq. pose proof Hva as (_ & Hf & _).
      destruct (un_sound tp1 va _ (fun y => powerRZ y n) _
                  (mul RO (ofZ RO n) (powi RO (fst va) (Z.pred n))) 0 (powi RO (fst va) n)
                  (proj1 T1) ltac:(lia) Hva (is_derive_powerRZ n _ Hnz)) as [T2 Hv].
      { rewrite Hf, powi_powerRZ by lia. cbn [mul ofZ RO]. ring. }
      { rewrite Hf. apply powi_powerRZ. lia. }
      eexists; eexists. split; [reflexivity|]. split; [eapply text_trans; eassumption|exact Hv].
    - (* EFn *)
      destruct Hs as [Hsa Hu].
      destruct (IHa Hc ps env tp P E W Hb Hps Henv Hsa) as (va & tp1 & Ea & T1 & Hva).
      rewrite Ea. cbn [bind]. pose proof (text_tlen _ _ W T1) as L1.
      destruct (fn_sound tp1 f va _ (proj1 T1) ltac:(lia) Hva Hu) as [T2 Hv].
      eexists; eexists. split; [apply f_equal, surjective_pairing|].
      split; [eapply text_trans; eassumption|exact Hv].
  Qed.
End Curve.
