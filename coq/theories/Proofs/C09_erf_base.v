(** C09 (extension): accuracy of the Abramowitz-Stegun [erf] against the TRUE error function
        erf x = 2/sqrt(pi) * int_0^x exp(-t^2) dt        (Coquelicot's Riemann integral [RInt]).
    Method: the error E(x) = erf_model x - erf x is differentiable with a closed-form derivative
        E'(x) = exp(-x^2) * (p t^2 Q'(t) + 2 x Q(t) - 2/sqrt(pi)),   t = 1/(1+p x),  Q(t) = t*P(t);
    on a cell [a,b] with midpoint m:  |E(x)| <= |E(m)| + sup|E'| * (b-a)/2  (mean value theorem), where
    |E(m)| is enclosed by coq-interval's [integral] and sup|E'| by [interval].  Everything is re-proved on the
    regenerated constants. *)
From Coquelicot Require Import Coquelicot.
From Compute Require Import Proofs.C09_base Proofs.C09.
Open Scope R_scope.

Definition gauss (t : R) : R := exp (- (t * t)).
(** the true error function, as an integral *)
Definition erf_int (x : R) : R := 2 / R_sqrt.sqrt PI * RInt (fun t => exp (- (t * t))) 0 x.
Definition erf_err (x : R) : R := erf_nonneg RO x - erf_int x.

(** closed form of the derivative of the model and of the error *)
Definition erf_model_d (x : R) : R :=
  let p := Q2R (fst erf_p) in
  let t := 1 / (1 + p * x) in
  let q := erfP t * t in
  let dq := (((5 * Q2R (fst erf_a5) * t + 4 * Q2R (fst erf_a4)) * t + 3 * Q2R (fst erf_a3)) * t
             + 2 * Q2R (fst erf_a2)) * t + Q2R (fst erf_a1) in
  exp (- x * x) * (p * (t * t) * dq + 2 * x * q).
Definition erf_err_d (x : R) : R := erf_model_d x - 2 / R_sqrt.sqrt PI * exp (- (x * x)).

Lemma erf_p_pos : 0 < Q2R (fst erf_p).
Proof. unfold erf_p; cbn [fst]; rewrite Q2R_simpl. lra. Qed.

(** the derivative, for arbitrary constants (so that [auto_derive] does not compute with them) *)
Lemma as7126_is_derive (p a1 a2 a3 a4 a5 x : R) : 1 + p * x <> 0 ->
  is_derive (fun y => 1 - (((((a5 * (1 / (1 + p * y)) + a4) * (1 / (1 + p * y))) + a3) * (1 / (1 + p * y)) + a2)
                           * (1 / (1 + p * y)) + a1) * (1 / (1 + p * y)) * exp (- y * y)) x
    (exp (- x * x) *
     (p * (1 / (1 + p * x) * (1 / (1 + p * x))) *
      ((((5 * a5 * (1 / (1 + p * x)) + 4 * a4) * (1 / (1 + p * x)) + 3 * a3) * (1 / (1 + p * x)) + 2 * a2)
       * (1 / (1 + p * x)) + a1)
      + 2 * x * ((((((a5 * (1 / (1 + p * x)) + a4) * (1 / (1 + p * x))) + a3) * (1 / (1 + p * x)) + a2)
                  * (1 / (1 + p * x)) + a1) * (1 / (1 + p * x))))).
Proof.
  intros Hd. auto_derive.
  - repeat split; try exact I; exact Hd.
  - field. exact Hd.
Qed.

Lemma erf_model_is_derive x : 0 <= x -> is_derive (erf_nonneg RO) x (erf_model_d x).
Proof.
  intros Hx. pose proof erf_p_pos as Hp.
  assert (Hd : 1 + Q2R (fst erf_p) * x <> 0) by nra.
  exact (as7126_is_derive (Q2R (fst erf_p)) (Q2R (fst erf_a1)) (Q2R (fst erf_a2)) (Q2R (fst erf_a3))
           (Q2R (fst erf_a4)) (Q2R (fst erf_a5)) x Hd).
Qed.

Lemma gauss_continuous x : continuous (fun t => exp (- (t * t))) x.
Proof. apply (ex_derive_continuous (fun t => exp (- (t * t)))). auto_derive. exact I. Qed.

Lemma gauss_ex_RInt a b : ex_RInt (fun t => exp (- (t * t))) a b.
Proof. apply (ex_RInt_continuous (fun t => exp (- (t * t)))). intros z _. apply gauss_continuous. Qed.

Lemma erf_int_is_derive x : is_derive erf_int x (2 / R_sqrt.sqrt PI * exp (- (x * x))).
Proof.
  unfold erf_int.
  apply (is_derive_scal (fun y => RInt (fun t => exp (- (t * t))) 0 y) x (2 / R_sqrt.sqrt PI)).
  apply (is_derive_RInt (fun t => exp (- (t * t))) (fun y => RInt (fun t => exp (- (t * t))) 0 y) 0 x).
  - exists (mkposreal 1 Rlt_0_1). intros y _. apply (RInt_correct (fun t => exp (- (t * t)))). apply gauss_ex_RInt.
  - apply gauss_continuous.
Qed.

Lemma erf_err_is_derive x : 0 <= x -> is_derive erf_err x (erf_err_d x).
Proof.
  intros Hx. unfold erf_err, erf_err_d.
  apply (is_derive_minus (erf_nonneg RO) erf_int x); [apply erf_model_is_derive; exact Hx|apply erf_int_is_derive].
Qed.

(** one cell [m-r, m+r]: an enclosure of the error at the midpoint and of the derivative on the cell give the bound on the cell *)
Lemma erf_cell (m r eps B : R) :
  0 < r -> 0 <= m - r ->
  Rabs (erf_err m) <= eps ->
  (forall t, m - r <= t <= m + r -> Rabs (erf_err_d t) * r <= B - eps) ->
  forall x, m - r <= x <= m + r -> Rabs (erf_err x) <= B.
Proof.
  intros Hr Ha He HD x Hx.
  set (D := (B - eps) / r).
  assert (HD' : forall t, m - r <= t <= m + r -> Rabs (erf_err_d t) <= D).
  { intros t Ht. unfold D. apply Rle_div_r; [exact Hr|]. apply HD. exact Ht. }
  assert (HD0 : 0 <= D) by (eapply Rle_trans; [apply Rabs_pos|apply (HD' m); lra]).
  assert (Hxm : Rabs (x - m) <= r) by (apply Rabs_le; lra).
  assert (Hv : Rabs (erf_err x - erf_err m) <= D * Rabs (x - m)).
  { apply (bounded_variation erf_err erf_err_d). intros t Ht.
    assert (Htab : m - r <= t <= m + r).
    { apply Rabs_le_between in Ht. lra. }
    split; [apply erf_err_is_derive; lra|apply HD'; exact Htab]. }
  replace (erf_err x) with ((erf_err x - erf_err m) + erf_err m) by ring.
  eapply Rle_trans; [apply Rabs_triang|].
  assert (D * Rabs (x - m) <= D * r) by (apply Rmult_le_compat_l; assumption).
  assert (D * r = B - eps) by (unfold D; field; lra).
  lra.
Qed.

(** the same with the integral at the midpoint enclosed separately (the form the tactic below uses) *)
Lemma erf_cell' (m r lo hi eps B : R) :
  0 < r -> 0 <= m - r ->
  lo <= RInt (fun t => exp (- (t * t))) 0 m <= hi ->
  (forall J, lo <= J <= hi -> Rabs (erf_nonneg RO m - 2 / R_sqrt.sqrt PI * J) <= eps) ->
  (forall t, m - r <= t <= m + r -> Rabs (erf_err_d t) * r <= B - eps) ->
  forall x, m - r <= x <= m + r -> Rabs (erf_err x) <= B.
Proof.
  intros Hr Ha Hi He HD. apply (erf_cell m r eps B Hr Ha); [|exact HD].
  unfold erf_err, erf_int. apply He. exact Hi.
Qed.

(** conversions only (usable under [eval ... in]): expose the real-valued expressions with numerals *)
Ltac erf_norm X :=
  let X1 := eval unfold erf_err, erf_err_d, erf_int, erf_model_d, erfP, erf_nonneg, erf_p, erf_a1, erf_a2, erf_a3, erf_a4, erf_a5 in X in
  let X2 := eval cbv zeta in X1 in
  let X3 := eval cbn [ofLit RO fst add sub mul div one zero f1 Rf1 neg] in X2 in
  let X4 := eval unfold Q2R in X3 in
  let X5 := eval cbn [Qnum Qden] in X4 in X5.
Ltac erf_norm_goal := match goal with |- ?G => let G' := erf_norm G in change G' end.

(** a cell is the union of its two halves (midpoint [j/q], radius [1/q], [j] odd: the halves are [(2j-1)/(2q)], [(2j+1)/(2q)]) *)
Lemma erf_split (P : R -> Prop) (j q : Z) :
  (0 < q)%Z ->
  (forall x, IZR (2 * j - 1) / IZR (2 * q) - 1 / IZR (2 * q) <= x <= IZR (2 * j - 1) / IZR (2 * q) + 1 / IZR (2 * q) -> P x) ->
  (forall x, IZR (2 * j + 1) / IZR (2 * q) - 1 / IZR (2 * q) <= x <= IZR (2 * j + 1) / IZR (2 * q) + 1 / IZR (2 * q) -> P x) ->
  forall x, IZR j / IZR q - 1 / IZR q <= x <= IZR j / IZR q + 1 / IZR q -> P x.
Proof.
  intros Hq H1 H2 x Hx.
  assert (Hq' : 0 < IZR q) by (apply IZR_lt; exact Hq).
  rewrite minus_IZR, plus_IZR, !mult_IZR in *. change (IZR 2) with 2 in *. change (IZR 1) with 1 in *.
  assert (E1 : (2 * IZR j - 1) / (2 * IZR q) - 1 / (2 * IZR q) = IZR j / IZR q - 1 / IZR q) by (field; lra).
  assert (E2 : (2 * IZR j - 1) / (2 * IZR q) + 1 / (2 * IZR q) = IZR j / IZR q) by (field; lra).
  assert (E3 : (2 * IZR j + 1) / (2 * IZR q) - 1 / (2 * IZR q) = IZR j / IZR q) by (field; lra).
  assert (E4 : (2 * IZR j + 1) / (2 * IZR q) + 1 / (2 * IZR q) = IZR j / IZR q + 1 / IZR q) by (field; lra).
  destruct (Rle_dec x (IZR j / IZR q)) as [Hle|Hgt].
  - apply H1. rewrite E1, E2. lra.
  - apply H2. rewrite E3, E4. lra.
Qed.

(** prove [forall x, m - r <= x <= m + r -> Rabs (erf_err x) <= B] on one cell: the integral at the midpoint by [integral],
    the error at the midpoint and the derivative on the cell by [interval] (shallow bisection: fail fast) *)
Ltac erf_cell_tac :=
  match goal with |- forall x, ?m - ?r <= x <= ?m + ?r -> Rabs (erf_err x) <= ?B =>
    let Hi := fresh "Hi" in
    integral_intro (RInt (fun t => exp (- (t * t))) 0 m) with (i_relwidth 40, i_prec 60) as Hi;
    match type of Hi with ?lo <= _ <= ?hi =>
      eapply (erf_cell' m r lo hi _ B);
      [ lra | lra | exact Hi
      | let J := fresh "J" in let HJ := fresh "HJ" in intros J HJ; erf_norm_goal;
        match goal with |- ?Y <= _ => let H := fresh "H" in interval_intro Y upper with (i_prec 60) as H; exact H end
      | let t := fresh "t" in let Ht := fresh "Ht" in intros t Ht; erf_norm_goal;
        interval with (i_bisect t, i_taylor t, i_degree 8, i_prec 60, i_depth 3) ]
    end
  end.

(** adaptive bisection of the cell with midpoint [j/q] and radius [1/q] *)
Ltac erf_range j q fuel :=
  first
    [ erf_cell_tac
    | lazymatch fuel with
      | O => fail 1 "erf_range: out of fuel at" j q
      | S ?fuel' =>
          let j1 := eval vm_compute in (2 * j - 1)%Z in
          let j2 := eval vm_compute in (2 * j + 1)%Z in
          let q2 := eval vm_compute in (2 * q)%Z in
          apply (erf_split (fun x => Rabs (erf_err x) <= _) j q); [reflexivity | |];
          [ change (2 * j - 1)%Z with j1; change (2 * q)%Z with q2; erf_range j1 q2 fuel'
          | change (2 * j + 1)%Z with j2; change (2 * q)%Z with q2; erf_range j2 q2 fuel' ]
      end ].
