(** Proofs for C06 (GLM fitting), part 1: sums, element-wise kernels, linear predictor, gradient
    and information against the textbook score and Fisher information. *)
From Coq Require Import Reals List Arith ZArith Bool Lia Lra.
From Compute Require Import Base.Ops Base.ListMat Model.Reduce Model.MatMul Spec.MatMul Proofs.C05.
From Compute Require Import Generated.glm_families Model.GLM Spec.GLM.
Import ListNotations.
Local Open Scope R_scope.

(** ** sums *)
Lemma bigsum_ext f g n : (forall i, (i < n)%nat -> f i = g i) -> bigsum f n = bigsum g n.
Proof.
  induction n as [|n IH]; intros H; simpl; auto.
  rewrite IH by (intros; apply H; lia). rewrite H by lia. reflexivity.
Qed.

Lemma bigsum_zero n : bigsum (fun _ => 0) n = 0.
Proof. induction n; simpl; auto. rewrite IHn; lra. Qed.

Lemma bigsum_plus f g n : bigsum (fun i => f i + g i) n = bigsum f n + bigsum g n.
Proof. induction n; simpl; [lra|]. rewrite IHn; lra. Qed.

Lemma bigsum_scal c f n : bigsum (fun i => c * f i) n = c * bigsum f n.
Proof. induction n; simpl; [lra|]. rewrite IHn; lra. Qed.

Lemma bigsum_scal_r c f n : bigsum f n * c = bigsum (fun i => f i * c) n.
Proof. induction n; simpl; [lra|]. rewrite <- IHn; lra. Qed.

Lemma bigsum_opp f n : bigsum (fun i => - f i) n = - bigsum f n.
Proof. induction n; simpl; [lra|]. rewrite IHn; lra. Qed.

Lemma bigsum_minus f g n : bigsum (fun i => f i - g i) n = bigsum f n - bigsum g n.
Proof. induction n; simpl; [lra|]. rewrite IHn; lra. Qed.

Lemma bigsum_swap (f : nat -> nat -> R) n m :
  bigsum (fun i => bigsum (fun k => f i k) m) n = bigsum (fun k => bigsum (fun i => f i k) n) m.
Proof.
  induction n as [|n IH]; simpl.
  - symmetry; apply bigsum_zero.
  - rewrite IH, <- bigsum_plus. reflexivity.
Qed.

Lemma fold_left_add_seq (g : nat -> R) n a :
  fold_left (fun s k => s + g k) (seq 0 n) a = a + bigsum g n.
Proof.
  induction n as [|n IH]; [simpl; lra|].
  rewrite seq_S, fold_left_app, IH. simpl. lra.
Qed.

Lemma fold_left_sub_seq (g : nat -> R) n a :
  fold_left (fun s k => s - g k) (seq 0 n) a = a - bigsum g n.
Proof.
  induction n as [|n IH]; [simpl; lra|].
  rewrite seq_S, fold_left_app, IH. simpl. lra.
Qed.

Lemma sumk_bigsum (g : nat -> R) l : sumk RO g l = bigsum g l.
Proof.
  unfold sumk. change (add RO) with Rplus. change (zero RO) with 0.
  rewrite (fold_left_add_seq g l 0). lra.
Qed.

(** sum of a list, and its index form *)
Fixpoint lsum (l : list R) : R := match l with [] => 0 | a :: l' => a + lsum l' end.

Lemma fold_left_add_lsum l a : fold_left Rplus l a = a + lsum l.
Proof. revert a; induction l as [|b l IH]; intros a; simpl; [lra|]. rewrite IH; lra. Qed.

Lemma lsum_app l1 l2 : lsum (l1 ++ l2) = lsum l1 + lsum l2.
Proof. induction l1; simpl; [lra|]. rewrite IHl1; lra. Qed.

Lemma bigsum_lsum (g : nat -> R) n : bigsum g n = lsum (map g (seq 0 n)).
Proof.
  induction n as [|n IH]; [reflexivity|].
  rewrite seq_S, map_app, lsum_app, <- IH. simpl. lra.
Qed.

Lemma map_nth_seq {A B} (h : A -> B) (l : list A) d :
  map (fun i => h (nth i l d)) (seq 0 (length l)) = map h l.
Proof.
  induction l as [|a l IH]; [reflexivity|].
  simpl length. rewrite <- cons_seq, <- seq_shift, map_cons, map_map. simpl. f_equal. exact IH.
Qed.

(** ** lists *)
Lemma nth_map_seq {B} (h : nat -> B) p j d : (j < p)%nat -> nth j (map h (seq 0 p)) d = h j.
Proof.
  intros H. rewrite (nth_indep _ d (h 0%nat)) by (rewrite map_length, seq_length; exact H).
  rewrite map_nth, seq_nth by exact H. reflexivity.
Qed.

Lemma nth_map' {A B} (h : A -> B) l i d d' : (i < length l)%nat -> nth i (map h l) d = h (nth i l d').
Proof.
  intros H. rewrite (nth_indep _ d (h d')) by (rewrite map_length; exact H). apply map_nth.
Qed.

Lemma nth_mapi {A B} (h : nat -> A -> B) l i d d' :
  (i < length l)%nat -> nth i (mapi h l) d = h i (nth i l d').
Proof. intros H. unfold mapi. rewrite (nth_mapi_from h l 0 i d d') by exact H. reflexivity. Qed.

Lemma mapi_length {A B} (h : nat -> A -> B) l : length (mapi h l) = length l.
Proof. apply mapi_from_length. Qed.

Lemma nth_repeat_lt {A} (a d : A) n i : (i < n)%nat -> nth i (repeat a n) d = a.
Proof. revert i; induction n; intros [|i] H; simpl; try lia; auto. apply IHn; lia. Qed.

Section Vbin.
  Context {T : Type}.
  Lemma vbin_some (h : T -> T -> T) a b :
    length a = length b -> vbin h a b = Some (map2 h a b).
  Proof. intros H. unfold vbin. rewrite H, Nat.eqb_refl. reflexivity. Qed.
  Lemma vbin_inv (h : T -> T -> T) a b c :
    vbin h a b = Some c -> length a = length b /\ c = map2 h a b.
  Proof.
    unfold vbin. destruct (Nat.eqb_spec (length a) (length b)); [|discriminate].
    intros [= <-]. auto.
  Qed.
End Vbin.

Lemma map2_len_eq {A B C} (h : A -> B -> C) a b n :
  length a = n -> length b = n -> length (map2 h a b) = n.
Proof. intros. rewrite map2_length. lia. Qed.

(** ** the family tables at the real carrier are the textbook tables *)
Lemma inv_link1_spec f e : inv_link1 RO f e = mean_fn f e.
Proof. destruct f; reflexivity. Qed.
Lemma variance1_spec f m : variance1 RO f m = var_fn f m.
Proof. destruct f; reflexivity. Qed.

Lemma exp_plus1_neq e : 1 + exp e <> 0.
Proof. pose proof (exp_pos e). lra. Qed.

Lemma d_inv_link1_spec f e : d_inv_link1 RO f e (mean_fn f e) = dmean_fn f e.
Proof.
  destruct f; try reflexivity.
  cbn [d_inv_link1 mean_fn dmean_fn mul sub one RO].
  pose proof (exp_plus1_neq (- e)). field. exact H.
Qed.

Lemma d_inv_link1_eta f e e' m : d_inv_link1 RO f e m = d_inv_link1 RO f e' m.
Proof. destruct f; reflexivity. Qed.

Lemma d_inv_link_nth f eta i :
  (i < length eta)%nat ->
  nth i (d_inv_link RO f eta (inv_link RO f eta)) 0 = dmean_fn f (nth i eta 0).
Proof.
  intros H. unfold inv_link.
  assert (G : nth i (map (d_inv_link1 RO f (zero RO)) (map (inv_link1 RO f) eta)) 0 = dmean_fn f (nth i eta 0)).
  { rewrite map_map, (nth_map' _ _ _ _ 0) by exact H.
    rewrite inv_link1_spec, (d_inv_link1_eta f _ (nth i eta 0)). apply d_inv_link1_spec. }
  destruct f; try exact G.
  unfold d_inv_link. change (one RO) with 1. rewrite nth_repeat_lt by exact H. reflexivity.
Qed.

Lemma d_inv_link_length f eta : length (d_inv_link RO f eta (inv_link RO f eta)) = length eta.
Proof. destruct f; unfold d_inv_link, inv_link; rewrite ?repeat_length, ?map_length; reflexivity. Qed.

(** ** the linear predictor *)
Definition offs (off : option (list R)) (i : nat) : R :=
  match off with None => 0 | Some o => nth i o 0 end.
Definition off_ok (off : option (list R)) (n : nat) : Prop :=
  match off with None => True | Some o => length o = n end.

Lemma is_matrix_pp p : (0 < p)%nat -> is_matrix p p = Some 1%nat.
Proof. intros H. pose proof (is_matrix_mul p 1 H) as E. rewrite Nat.mul_1_r in E. exact E. Qed.

Lemma eta_matmul x beta n p :
  (0 < n)%nat -> (0 < p)%nat -> length x = (n * p)%nat -> length beta = p ->
  exists e, matmul RO x beta n p false false = Some e /\ length e = n /\
            forall i, (i < n)%nat -> nth i e 0 = bigsum (fun k => X x p i k * nth k beta 0) p.
Proof.
  intros Hn Hp Hx Hb.
  pose proof (matmul_spec RO x beta n p false false) as M.
  rewrite dims_is_matrix in M. unfold dims' in M.
  rewrite Hx, Hb, (is_matrix_mul n p Hn), (is_matrix_pp p Hp) in M.
  cbn [bind guard] in M. rewrite Nat.eqb_refl in M. cbn [bind guard] in M.
  destruct M as (c & Hc & Hlen & Hent).
  exists c. split; [exact Hc|]. split; [lia|].
  intros i Hi. specialize (Hent i 0%nat Hi ltac:(lia)).
  replace (i * 1 + 0)%nat with i in Hent by lia.
  change (zero RO) with 0 in Hent. rewrite Hent, sumk_bigsum.
  apply bigsum_ext. intros k Hk. unfold opA, opB, X. cbn [andb].
  change (zero RO) with 0. change (mul RO) with Rmult.
  replace (k * 1 + 0)%nat with k by lia. reflexivity.
Qed.

Lemma linear_predictor_spec x beta n p off :
  (0 < n)%nat -> (0 < p)%nat -> length x = (n * p)%nat -> length beta = p -> off_ok off n ->
  exists e, linear_predictor RO x n p off beta = Some e /\ length e = n /\
            forall i, (i < n)%nat -> nth i e 0 = lin x p (offs off) beta i.
Proof.
  intros Hn Hp Hx Hb Ho.
  destruct (eta_matmul x beta n p Hn Hp Hx Hb) as (e & He & Hl & Hnth).
  unfold linear_predictor. rewrite He. cbn [bind].
  destruct off as [o|]; cbn [off_ok offs] in *.
  - rewrite vbin_some by lia. eexists; split; [reflexivity|]. split.
    + apply map2_len_eq; auto.
    + intros i Hi. rewrite (nth_map2 _ _ _ _ _ 0 0) by lia. rewrite Hnth by exact Hi. reflexivity.
  - exists e. split; [reflexivity|]. split; [exact Hl|].
    intros i Hi. rewrite Hnth by exact Hi. unfold lin, offs. lra.
Qed.

(** quantities at [beta]: means, derivative of the mean, variance function, entry by entry *)
Lemma at_coef_spec f x beta n p off :
  (0 < n)%nat -> (0 < p)%nat -> length x = (n * p)%nat -> length beta = p -> off_ok off n ->
  exists q, at_coef RO f x n p off beta = Some q /\
    length (q_mu q) = n /\ length (q_dmu q) = n /\ length (q_var q) = n /\
    forall i, (i < n)%nat ->
      nth i (q_mu q) 0 = mu_at f x p (offs off) beta i /\
      nth i (q_dmu q) 0 = dmean_fn f (lin x p (offs off) beta i) /\
      nth i (q_var q) 0 = var_fn f (mu_at f x p (offs off) beta i).
Proof.
  intros Hn Hp Hx Hb Ho.
  destruct (linear_predictor_spec x beta n p off Hn Hp Hx Hb Ho) as (e & He & Hl & Hnth).
  unfold at_coef. rewrite He. cbn [bind]. eexists; split; [reflexivity|].
  cbn [q_mu q_dmu q_var]. unfold variance.
  rewrite d_inv_link_length. unfold inv_link at 1 2. rewrite !map_length.
  repeat split; auto.
  - unfold inv_link. rewrite (nth_map' _ _ _ _ 0) by lia. rewrite inv_link1_spec, Hnth by exact H. reflexivity.
  - rewrite d_inv_link_nth by lia. rewrite Hnth by exact H. reflexivity.
  - unfold inv_link. rewrite map_map, (nth_map' _ _ _ _ 0) by lia.
    rewrite variance1_spec, inv_link1_spec, Hnth by exact H. reflexivity.
Qed.

(** ** gradient = minus score *)
Lemma working_residuals_spec y mu dmu var w n :
  length y = n -> length mu = n -> length dmu = n -> length var = n -> length w = n ->
  exists wr, working_residuals RO y mu dmu var w = Some wr /\ length wr = n /\
    forall i, (i < n)%nat ->
      nth i wr 0 = nth i w 0 * (nth i y 0 - nth i mu 0) * (nth i dmu 0 / nth i var 0).
Proof.
  intros Hy Hm Hd Hv Hw. unfold working_residuals.
  rewrite (vbin_some _ y mu) by lia. cbn [bind].
  rewrite (vbin_some _ w) by (rewrite (map2_len_eq _ y mu n); lia). cbn [bind].
  rewrite (vbin_some _ dmu var) by lia. cbn [bind].
  rewrite vbin_some by (rewrite !map2_length; rewrite ?map2_length; lia).
  eexists; split; [reflexivity|]. split.
  - rewrite !map2_length; lia.
  - intros i Hi.
    rewrite (nth_map2 _ _ _ _ _ 0 0) by (rewrite !map2_length; lia).
    rewrite (nth_map2 _ _ _ _ _ 0 0) by (rewrite ?map2_length; lia).
    rewrite (nth_map2 _ _ _ _ _ 0 0) by lia.
    rewrite (nth_map2 _ _ _ _ _ 0 0) by lia. reflexivity.
Qed.

Lemma compute_dbeta_spec x y mu dmu var w n p :
  (0 < n)%nat -> length x = (n * p)%nat ->
  length y = n -> length mu = n -> length dmu = n -> length var = n -> length w = n ->
  exists db, compute_dbeta RO x y mu dmu var w = Some db /\ length db = p /\
    forall j, (j < p)%nat ->
      nth j db 0 = - bigsum (fun i => X x p i j * (nth i w 0 * (nth i y 0 - nth i mu 0)
                                                  * (nth i dmu 0 / nth i var 0))) n.
Proof.
  intros Hn Hx Hy Hm Hd Hv Hw.
  destruct (working_residuals_spec y mu dmu var w n Hy Hm Hd Hv Hw) as (wr & Hwr & Hl & Hnth).
  unfold compute_dbeta. rewrite Hy, Hx, (is_matrix_mul n p Hn). cbn [bind]. rewrite Hwr. cbn [bind].
  eexists; split; [reflexivity|]. split; [rewrite map_length, seq_length; reflexivity|].
  intros j Hj. rewrite nth_map_seq by exact Hj. unfold dbeta_cell.
  change (sub RO) with Rminus. change (mul RO) with Rmult. change (zero RO) with 0.
  rewrite (fold_left_sub_seq (fun i => nth (i * p + j) x 0 * nth i wr 0) n 0).
  rewrite Rminus_0_l. f_equal. apply bigsum_ext. intros i Hi. rewrite Hnth by exact Hi. reflexivity.
Qed.

(** ** information = Fisher information *)
Lemma working_weights_spec dmu var w n :
  length dmu = n -> length var = n -> length w = n ->
  exists ww, working_weights RO dmu var w = Some ww /\ length ww = n /\
    forall i, (i < n)%nat -> nth i ww 0 = nth i w 0 * (nth i dmu 0 * nth i dmu 0) / nth i var 0.
Proof.
  intros Hd Hv Hw. unfold working_weights.
  rewrite (vbin_some _ w dmu) by lia. cbn [bind].
  rewrite (vbin_some _ dmu var) by lia. cbn [bind].
  rewrite vbin_some by (rewrite !map2_length; lia).
  eexists; split; [reflexivity|]. split.
  - rewrite !map2_length; lia.
  - intros i Hi.
    rewrite (nth_map2 _ _ _ _ _ 0 0) by (rewrite ?map2_length; lia).
    rewrite (nth_map2 _ _ _ _ _ 0 0) by lia.
    rewrite (nth_map2 _ _ _ _ _ 0 0) by lia.
    change (mul RO) with Rmult. change (div RO) with Rdiv. unfold Rdiv. ring.
Qed.

Lemma compute_ddbeta_spec x dmu var w n p :
  (0 < n)%nat -> (0 < p)%nat -> length x = (n * p)%nat ->
  length dmu = n -> length var = n -> length w = n ->
  exists dd, compute_ddbeta RO x dmu var w = Some dd /\ length dd = (p * p)%nat /\
    forall j k, (j < p)%nat -> (k < p)%nat ->
      nth (j * p + k) dd 0 =
      bigsum (fun i => X x p i j * (X x p i k * (nth i w 0 * (nth i dmu 0 * nth i dmu 0) / nth i var 0))) n.
Proof.
  intros Hn Hp Hx Hd Hv Hw.
  destruct (working_weights_spec dmu var w n Hd Hv Hw) as (ww & Hww & Hl & Hnth).
  unfold compute_ddbeta. rewrite Hd, Hx, (is_matrix_mul n p Hn). cbn [bind]. rewrite Hww. cbn [bind].
  pose proof (matmul_spec RO x (weighted_x RO x ww p) n n true false) as M.
  rewrite dims_is_matrix in M. unfold dims' in M.
  unfold weighted_x in M at 1. rewrite mapi_length, Hx, (is_matrix_mul n p Hn) in M.
  cbn [bind guard] in M. rewrite Nat.eqb_refl in M. cbn [bind guard] in M.
  destruct M as (c & Hc & Hlen & Hent).
  exists c. split; [exact Hc|]. split; [exact Hlen|].
  intros j k Hj Hk. specialize (Hent j k Hj Hk).
  change (zero RO) with 0 in Hent. rewrite Hent, sumk_bigsum.
  apply bigsum_ext. intros i Hi. unfold opA, opB, X. cbn [andb].
  change (zero RO) with 0. change (mul RO) with Rmult.
  assert (Hik : (i * p + k < length x)%nat) by (rewrite Hx; nia).
  unfold weighted_x. rewrite (nth_mapi _ _ _ 0 0) by exact Hik.
  change (mul RO) with Rmult. change (zero RO) with 0.
  replace ((i * p + k) / p)%nat with i by (apply Nat.div_unique with k; [lia|ring]).
  rewrite Hnth by exact Hi. reflexivity.
Qed.
