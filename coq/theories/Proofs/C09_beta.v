(** C09 (extension): beta at integer arguments.  B(m,n) = (m-1)! (n-1)! / (m+n-1)! to relative 1e-12 for ALL integers
    m, n >= 1 with m + n <= 171, a consequence of [lanczos_at_integers] (each of the three Gamma values is within 1e-13). *)
From Compute Require Import Proofs.C09_base Proofs.C09.
Open Scope R_scope.

Lemma ratio_perturbed (f1 f2 f3 g1 g2 g3 : R) :
  0 < f1 -> 0 < f2 -> 0 < f3 ->
  Rabs (g1 - f1) <= f1 * 1e-13 -> Rabs (g2 - f2) <= f2 * 1e-13 -> Rabs (g3 - f3) <= f3 * 1e-13 ->
  Rabs (g1 * g2 / g3 - f1 * f2 / f3) <= f1 * f2 / f3 * 1e-12.
Proof.
  intros H1 H2 H3 E1 E2 E3.
  assert (B : forall f g, 0 < f -> Rabs (g - f) <= f * 1e-13 -> exists r, g = f * r /\ 1 - 1e-13 <= r <= 1 + 1e-13).
  { intros f g Hf Hg. pose proof (Rle_abs (g - f)) as Ha1. pose proof (Rle_abs (- (g - f))) as Ha2. rewrite Rabs_Ropp in Ha2.
    exists (g * / f).
    assert (Hi : 0 < / f) by (apply Rinv_0_lt_compat; lra).
    assert (Hfi : f * / f = 1) by (field; lra).
    split; [field; lra|]. split; nra. }
  destruct (B f1 g1 H1 E1) as (r1 & -> & B1). destruct (B f2 g2 H2 E2) as (r2 & -> & B2).
  destruct (B f3 g3 H3 E3) as (r3 & -> & B3).
  replace (f1 * r1 * (f2 * r2) / (f3 * r3) - f1 * f2 / f3) with (f1 * f2 / f3 * (r1 * r2 / r3 - 1)) by (field; lra).
  assert (Hp : 0 < f1 * f2 / f3) by (apply Rdiv_lt_0_compat; [apply Rmult_lt_0_compat|]; assumption).
  rewrite Rabs_mult, (Rabs_pos_eq (f1 * f2 / f3)) by lra.
  apply Rmult_le_compat_l; [lra|].
  interval.
Qed.

Lemma zfact_pos' n : 0 < IZR (zfact n).
Proof.
  apply IZR_lt. induction n as [|n IH]; [reflexivity|]. cbn [zfact]. apply Z.mul_pos_pos; [lia|exact IH].
Qed.

Lemma lanczos_ok_at (k : nat) : (1 <= k <= 171)%nat -> lanczos_ok k.
Proof.
  intros Hk. pose proof lanczos_at_integers as H. rewrite Forall_forall in H. apply H. apply in_seq. lia.
Qed.

Lemma beta_at_integers (m n : nat) :
  (1 <= m)%nat -> (1 <= n)%nat -> (m + n <= 171)%nat ->
  Rabs (beta RO (IZR (Z.of_nat m)) (IZR (Z.of_nat n))
        - IZR (zfact (m - 1)) * IZR (zfact (n - 1)) / IZR (zfact (m + n - 1)))
  <= IZR (zfact (m - 1)) * IZR (zfact (n - 1)) / IZR (zfact (m + n - 1)) * 1e-12.
Proof.
  intros Hm Hn Hmn. rewrite beta_def. cbn [add RO].
  rewrite <- plus_IZR, <- Nat2Z.inj_add.
  apply ratio_perturbed; try apply zfact_pos'.
  - apply (lanczos_ok_at m). lia.
  - apply (lanczos_ok_at n). lia.
  - apply (lanczos_ok_at (m + n)). lia.
Qed.
