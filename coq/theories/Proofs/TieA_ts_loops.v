(** * Tie A for C13: the hand-written model [Model/TimeSeries.v] IS the source ([acovf], [acf], [difference],
    [AR::predict_one], [AR::predict]).  [Generated/ts_loops.v] is produced on every run by tools/tiea/ts_loops.py
    (statement-level translator [LoopTranslator] of tools/rsexpr.py) from src/timeseries/{functions,autoregressive}.rs.
    Each lemma states that the generated function and the model's function agree for EVERY carrier, operations record and
    input: the checked reads [ts[i]], [ts[i - |k|]] are in bounds, so [acovf] / [acf] never panic; the lag range is the
    model's [skipn]; the forecasting loop that overwrites a zero-filled vector is the model's loop that appends; the
    wrapped [usize] subtraction sends a too-short history to the out-of-bounds slice panic.  Induction and the lemmas of
    [Proofs/RsExprLemmas.v] only; no law of the carrier.  [statistics::mean] and [linalg::dot] are parameters of the
    generated text, instantiated by the models [ts_mean] and [Reduce.dot]. *)
From Coq Require Import List ZArith Arith Bool Lia.
From Compute Require Import Base.Ops Base.ListMat Base.RsExpr Model.Reduce Model.MatMul Model.TimeSeries Generated.ts_loops
  Proofs.RsExprLemmas.
Import ListNotations.

Section TieA.
  Context {T : Type} (O : Ops T).

  (** the lagged products over [(|k| .. n)] *)
  Lemma lagterms_src : forall (x : list T) (m : T) (k : Z),
    rs_map_opt (fun i => let* g1 := rs_get x i in let* g2 := rs_get x (rs_usub i (Z.abs k)) in
                         Some (mul O (sub O g1 m) (sub O g2 m))) (rs_range_excl (Z.abs k) (rs_len x))
    = Some (if (Z.of_nat (length x) <=? Z.abs k)%Z then [] else lagprods O x m (Z.abs_nat k)).
  Proof.
    intros x m k. unfold rs_len. destruct (Z.leb_spec (Z.of_nat (length x)) (Z.abs k)) as [H|H].
    - unfold rs_range_excl. replace (Z.to_nat (Z.of_nat (length x) - Z.abs k)) with 0%nat by lia. reflexivity.
    - rewrite <- (Zabs2Nat.id_abs k). set (ka := Z.abs_nat k). assert (Hka : ka < length x) by lia.
      rewrite rs_range_excl_nat.
      rewrite (rs_map_opt_seq _ (fun j => mul O (sub O (nth (ka + j) x (zero O)) m) (sub O (nth j x (zero O)) m))).
      + f_equal. unfold lagprods. apply (map2_skipn_self (fun a b => mul O (sub O a m) (sub O b m))).
      + intros j Hj. rewrite <- Nat2Z.inj_add. rewrite rs_usub_nat by lia.
        replace (ka + j - ka) with j by lia.
        rewrite (rs_get_some x (ka + j) (zero O)) by lia. rewrite (rs_get_some x j (zero O)) by lia. reflexivity.
  Qed.
  Lemma lagsum_src : forall (x : list T) (m : T) (k : Z),
    rs_iter_sum O (if (Z.of_nat (length x) <=? Z.abs k)%Z then [] else lagprods O x m (Z.abs_nat k)) = lagsum O x m k.
  Proof. intros x m k. unfold lagsum. destruct (Z.of_nat (length x) <=? Z.abs k)%Z; reflexivity. Qed.

  Lemma tiea_acovf : forall (ts : list T) (k : Z), src_acovf O (ts_mean O) ts k = Some (acovf O ts k).
  Proof.
    intros ts k. unfold src_acovf, acovf. cbv zeta. rewrite lagterms_src. cbn [bind]. rewrite lagsum_src. reflexivity.
  Qed.
  Lemma sqdev_src : forall (x : list T) (m : T),
    rs_map_opt (fun i => let* g4 := rs_get x i in Some (powi O (sub O g4 m) 2)) (rs_range_excl 0 (rs_len x))
    = Some (map (fun a => powi O (sub O a m) 2) x).
  Proof.
    intros x m. rewrite rs_range_excl_0_len.
    rewrite (rs_map_opt_seq _ (fun j => powi O (sub O (nth j x (zero O)) m) 2)).
    - now rewrite (map_nth_seq (fun a => powi O (sub O a m) 2)).
    - intros j Hj. rewrite Z.add_0_l. rewrite (rs_get_some x j (zero O)) by lia. reflexivity.
  Qed.
  Lemma tiea_acf : forall (ts : list T) (k : Z), src_acf O (ts_mean O) ts k = Some (acf O ts k).
  Proof.
    intros ts k. unfold src_acf, acf. cbv zeta. rewrite lagterms_src. cbn [bind]. rewrite lagsum_src.
    rewrite sqdev_src. reflexivity.
  Qed.

  Lemma tiea_difference : forall v : list T, src_difference O v = difference O v.
  Proof.
    intros [|a v]; unfold src_difference, difference.
    - unfold rs_len, rs_range_excl. cbn [length Z.of_nat]. rewrite rs_usub_0_1.
      destruct (Z.to_nat (18446744073709551615 - 0)) as [|m] eqn:E; [lia|]. reflexivity.
    - unfold rs_len. cbn [length]. rewrite rs_usub_S_1. change 0%Z with (Z.of_nat 0). rewrite rs_range_excl_nat, Nat.sub_0_r.
      rewrite (rs_map_opt_seq _ (fun j => sub O (nth j v (zero O)) (nth j (a :: v) (zero O)))).
      + cbn [bind]. f_equal.
        replace (length v) with (length (map2 (sub O) v (a :: v))) at 1 by (rewrite map2_len_min; cbn [length]; lia).
        apply (map_seq_eq_nth _ _ (zero O)). intros j Hj. rewrite map2_len_min in Hj. cbn [length] in Hj.
        apply map2_nth_d; cbn [length]; lia.
      + intros j Hj. cbn [Z.of_nat]. rewrite Z.add_0_l. change 1%Z with (Z.of_nat 1). rewrite <- Nat2Z.inj_add.
        rewrite (rs_get_some (a :: v) (j + 1) (zero O)) by (cbn [length]; lia).
        rewrite (rs_get_some (a :: v) j (zero O)) by (cbn [length]; lia).
        replace (j + 1) with (S j) by lia. reflexivity.
  Qed.

  (** ** AR::predict_one, AR::predict *)
  Lemma tiea_predict_one : forall (coeffs : list T) (mu : T) (data : list T),
    src_predict_one O (dot O) coeffs mu data = predict_one O coeffs mu data.
  Proof.
    intros coeffs mu data. unfold src_predict_one, predict_one, rs_len. cbv zeta. rewrite Zleb_of_nat.
    destruct (length coeffs <=? length data) eqn:E.
    - apply Nat.leb_le in E. rewrite rs_usub_nat by lia. rewrite rs_slice_from_nat by lia. reflexivity.
    - apply Nat.leb_gt in E. rewrite rs_usub_nat by lia. rewrite rs_slice_from_nat by lia. reflexivity.
  Qed.

  Lemma predict_loop_length : forall (coeffs : list T) (mu : T) (h : nat) (p d : list T),
    predict_loop O coeffs mu h p = Some d -> length d = length p + h.
  Proof.
    intros coeffs mu. induction h as [|h IH]; intros p d H; cbn [predict_loop] in H.
    - injection H as <-. lia.
    - destruct (predict_one O coeffs mu p) as [f|]; [|discriminate]. cbn [bind] in H.
      apply IH in H. rewrite app_length in H. cbn [length] in H. lia.
  Qed.
  (** the source's loop writes forecast [j] into slot [len p + j] of the zero-padded vector; the model appends it *)
  Lemma predict_loop_src : forall (coeffs : list T) (mu : T) (h : nat) (p : list T),
    rs_fold_opt (fun d i => let* sl3 := rs_slice_to d i in
                            let* r4 := src_predict_one O (dot O) coeffs mu sl3 in
                            let* l5 := rs_set d i r4 in let d := l5 in Some d)
                (rs_seq (Z.of_nat (length p)) h) (p ++ repeat (zero O) h)
    = predict_loop O coeffs mu h p.
  Proof.
    intros coeffs mu. induction h as [|h IH]; intro p.
    - cbn [rs_seq rs_fold_opt repeat predict_loop]. now rewrite app_nil_r.
    - cbn [rs_seq rs_fold_opt repeat predict_loop].
      rewrite rs_slice_to_nat by (rewrite app_length; lia). rewrite firstn_app_exact. cbn [bind].
      rewrite tiea_predict_one. destruct (predict_one O coeffs mu p) as [f|]; [|reflexivity]. cbn [bind].
      rewrite rs_set_nat by (rewrite app_length; cbn [length]; lia). rewrite upd_app_exact. cbn [bind].
      specialize (IH (p ++ [f])). rewrite app_length in IH. cbn [length] in IH.
      rewrite Nat2Z.inj_add in IH. cbn [Z.of_nat Pos.of_succ_nat] in IH. rewrite <- app_assoc in IH. exact IH.
  Qed.
  (** [n] forecasts fit the address space ([vec![0.; n]] passes the allocation's capacity check) and the coefficient
      vector's length is a [usize] *)
  Lemma tiea_predict : forall (coeffs : list T) (mu : T) (data : list T) (n : nat),
    (Z.of_nat n <= 1152921504606846975)%Z -> (Z.of_nat (length coeffs) < 18446744073709551616)%Z ->
    src_predict O (dot O) coeffs mu data (Z.of_nat n) = predict O coeffs mu data n.
  Proof.
    intros coeffs mu data n Hn Hc. unfold src_predict, predict, rs_len. rewrite rs_vec_alloc_nat by exact Hn.
    cbn [bind]. cbv zeta. destruct (length coeffs <=? length data) eqn:E.
    - apply Nat.leb_le in E. cbn [guard bind]. rewrite rs_usub_nat by lia. rewrite rs_slice_from_nat by lia. cbn [bind].
      set (p := skipn (length data - length coeffs) data).
      assert (Lp : length p = length coeffs) by (unfold p; rewrite skipn_length; lia).
      rewrite app_length, repeat_length, Lp.
      replace (rs_range_excl (Z.of_nat (length coeffs)) (Z.of_nat (length coeffs + n)))
        with (rs_seq (Z.of_nat (length p)) n) by (rewrite Lp, rs_range_excl_nat; f_equal; lia).
      rewrite predict_loop_src. destruct (predict_loop O coeffs mu n p) as [d|] eqn:Ed; [|reflexivity].
      cbn [bind]. apply predict_loop_length in Ed.
      rewrite rs_usub_nat by lia. rewrite rs_slice_from_nat by lia. reflexivity.
    - apply Nat.leb_gt in E. cbn [guard bind]. unfold rs_usub.
      destruct (Z.leb_spec (Z.of_nat (length coeffs)) (Z.of_nat (length data))) as [H|H]; [lia|].
      unfold rs_slice_from, rs_slice, rs_len.
      replace (Z.of_nat (length data) - Z.of_nat (length coeffs) + 18446744073709551616 <=? Z.of_nat (length data))%Z
        with false by (symmetry; apply Z.leb_gt; lia).
      now rewrite andb_false_r.
  Qed.
End TieA.
