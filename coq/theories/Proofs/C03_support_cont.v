(** Proofs for C03, part 11: support of the samplers composed from others (Student t, Beta, chi-squared: every parameter
    regime, the shape < 1 boost path of the underlying Gamma sampler included), of Pareto for every fuel, and the
    capstone: for EVERY valid distribution object, every fuel and every source whose variates lie in [0, 1) and whose
    range draws lie in the range, a value [sample] returns lies in the support of the law, and so does every entry of
    [sample_n].  Real carrier. *)
From Coq Require Import Reals List ZArith NArith QArith Lra Lia Bool Psatz.
From Compute Require Import Base.Ops Base.ListMat Base.Rng Model.MatMul Model.Samplers Spec.Samplers.
From Compute Require Import Proofs.C03 Proofs.C03_discrete Proofs.C03_more Proofs.C03_support Proofs.C03_support_poisson.
Import ListNotations.
Open Scope R_scope.

Section AnySource.
  Context {S : Type} (src : source S R).

  (** ** Student t: t = z / sqrt(chi2 / dof) with z the normal draw and chi2 = 2 g, g a POSITIVE Gamma(dof/2, 1) draw
      (so the divisor is positive and the quotient is a real number: nothing is divided by zero), for every dof > 0 —
      dof < 2 goes through the shape < 1 boost of the Gamma sampler *)
  Lemma t_sample_structure fuel dof s t s' :
    0 < dof -> t_sample RO src fuel dof s = Ok (t, s') ->
    exists z s1 g,
      normal_sample RO src fuel 0 1 s = Ok (z, s1) /\ gamma_sample RO src fuel (dof / 2) 1 s1 = Ok (g, s') /\
      0 < g /\ 0 < R_sqrt.sqrt (2 * g / dof) /\ t = z / R_sqrt.sqrt (2 * g / dof).
  Proof.
    intros Hd H. unfold t_sample in H. change (zero RO) with 0 in *. change (one RO) with 1 in *.
    destruct (normal_sample RO src fuel 0 1 s) as [[z s1]| |] eqn:En; cbn [res_bind] in H; try discriminate.
    cbn [leb div two add one RO] in H. replace (1 + 1) with 2 in H by ring. unfold Rleb in H.
    destruct (Rle_dec (dof / 2) 0) as [Hc|_]; [lra|].
    destruct (gamma_sample RO src fuel (dof / 2) 1 s1) as [[g s2]| |] eqn:Eg; cbn [res_bind] in H; try discriminate.
    inversion H; subst t s'. clear H. exists z, s1, g. split; [reflexivity|]. split; [exact Eg|].
    apply gamma_sample_pos in Eg as Hg; [|lra|lra].
    assert (Hq : 0 < 2 * g / dof) by (apply Rdiv_lt_0_compat; lra).
    split; [exact Hg|]. split; [apply sqrt_lt_R0; exact Hq|].
    cbn [mul sqrt RO].
    assert (Hs : R_sqrt.sqrt (2 * g / dof) = R_sqrt.sqrt g / R_sqrt.sqrt (dof / 2)).
    { rewrite <- sqrt_div_alt by lra. f_equal. field. lra. }
    rewrite Hs. assert (0 < R_sqrt.sqrt g) by (apply sqrt_lt_R0; lra).
    assert (0 < R_sqrt.sqrt (dof / 2)) by (apply sqrt_lt_R0; lra). field. lra.
  Qed.
  (** the draw has the sign of the normal variate *)
  Lemma t_sample_sign fuel dof s t s' z s1 :
    0 < dof -> t_sample RO src fuel dof s = Ok (t, s') -> normal_sample RO src fuel 0 1 s = Ok (z, s1) ->
    (0 < z -> 0 < t) /\ (z < 0 -> t < 0) /\ (z = 0 -> t = 0).
  Proof.
    intros Hd H Hn. destruct (t_sample_structure _ _ _ _ _ Hd H) as (z' & s1' & g & Hn' & _ & _ & Hs & ->).
    rewrite Hn in Hn'. inversion Hn'; subst z' s1'. set (d := R_sqrt.sqrt (2 * g / dof)) in *.
    assert (Hi : 0 < / d) by (apply Rinv_0_lt_compat; exact Hs). unfold Rdiv. repeat split; intros; nra.
  Qed.
  (** rejection half: [Gamma::new(dof / 2., 1.)] panics for dof <= 0; the sampler never returns a value *)
  Lemma t_sample_rejects fuel dof s r : dof <= 0 -> t_sample RO src fuel dof s <> Ok r.
  Proof.
    intros Hd. unfold t_sample.
    destruct (normal_sample RO src fuel (zero RO) (one RO) s) as [[z s1]| |]; cbn [res_bind]; try discriminate.
    cbn [leb div two add one zero RO]. unfold Rleb. destruct (Rle_dec (dof / (1 + 1)) 0); [discriminate|lra].
  Qed.

  (** ** Beta: x / (x + y) with x, y positive Gamma draws, for every pair of positive shapes *)
  Lemma beta_sample_structure fuel a b s x s' :
    0 < a -> 0 < b -> beta_sample RO src fuel a b s = Ok (x, s') ->
    exists g1 s1 g2,
      gamma_sample RO src fuel a 1 s = Ok (g1, s1) /\ gamma_sample RO src fuel b 1 s1 = Ok (g2, s') /\
      0 < g1 /\ 0 < g2 /\ x = g1 / (g1 + g2) /\ 0 < x < 1.
  Proof.
    intros Ha Hb H. pose proof (beta_sample_support src _ _ _ _ _ _ Ha Hb H) as Hx. unfold beta_sample in H.
    change (one RO) with 1 in *.
    destruct (gamma_sample RO src fuel a 1 s) as [[g1 s1]| |] eqn:E1; cbn [res_bind] in H; try discriminate.
    destruct (gamma_sample RO src fuel b 1 s1) as [[g2 s2]| |] eqn:E2; cbn [res_bind] in H; try discriminate.
    inversion H; subst x s'. exists g1, s1, g2.
    apply gamma_sample_pos in E1 as P1; [|assumption|lra]. apply gamma_sample_pos in E2 as P2; [|assumption|lra].
    repeat split; try assumption; try reflexivity; apply Hx.
  Qed.

  (** ** Pareto, every fuel (any number of redraws): strictly above the scale parameter *)
  Lemma pareto_support fuel alpha m s x s' :
    0 < alpha -> 0 < m -> unit_source src -> pareto_sample RO src fuel alpha m s = Ok (x, s') -> m < x.
  Proof.
    intros Ha Hm Hu H. unfold pareto_sample in H.
    destruct (positive_f64 RO src fuel s) as [[u s1]| |] eqn:E; try discriminate.
    cbn [res_bind] in H. inversion H; subst. apply positive_f64_result in E. destruct E as [Hp (s0 & -> & _)].
    apply (pareto_quantile_cdf alpha m (fst (next_f64 src s0)) Ha Hm). split; [assumption|apply Hu].
  Qed.

  (** ** the support of each law, and the capstone *)
  Definition in_support (d : dist R) (x : R) : Prop :=
    match d with
    | DNormal _ _ | DGumbel _ _ | DT _ => True
    | DUniform lo hi => lo <= x <= hi
    | DExponential _ | DGamma _ _ | DChiSquared _ => 0 < x
    | DPareto _ m => m < x
    | DBeta _ _ => 0 < x < 1
    | DPoisson _ => exists n : nat, x = INR n
    | DBinomial n _ => (n < 18446744073709551616)%N -> exists k : Z, x = IZR k /\ (0 <= k <= Z.of_N n)%Z
    | DDiscreteUniform lo hi => exists k : Z, x = IZR k /\ (lo <= k <= hi)%Z
    | DBernoulli _ => x = 0 \/ x = 1
    end.

  Lemma sample_support fuel d s x s' :
    valid RO d = true -> unit_source src -> range_source src ->
    sample RO src fuel d s = Ok (x, s') -> in_support d x.
  Proof.
    intros Hv Hu Hr H. destruct d; cbn [sample in_support valid] in *; try exact I.
    - (* Uniform *) apply negb_true_iff in Hv. cbn [ltb RO] in Hv. apply Rltb_false in Hv.
      rewrite uniform_sample_R in H. inversion H; subst. pose proof (Hu s). cbn [zero RO] in *. nra.
    - (* Exponential *) apply negb_true_iff in Hv. cbn [leb RO zero] in Hv. apply Rleb_false in Hv.
      eapply exponential_support; [|exact Hu|exact H]. lra.
    - (* Pareto *) apply negb_true_iff, orb_false_iff in Hv. destruct Hv as [Ha Hm]. cbn [leb RO zero] in *.
      apply Rleb_false in Ha. apply Rleb_false in Hm. eapply pareto_support; [| |exact Hu|exact H]; lra.
    - (* Gamma *) apply negb_true_iff, orb_false_iff in Hv. destruct Hv as [Ha Hb]. cbn [leb RO zero] in *.
      apply Rleb_false in Ha. apply Rleb_false in Hb. eapply gamma_sample_pos; [| |exact H]; lra.
    - (* Beta *) apply negb_true_iff, orb_false_iff in Hv. destruct Hv as [Ha Hb]. cbn [leb RO zero] in *.
      apply Rleb_false in Ha. apply Rleb_false in Hb. eapply beta_sample_support; [| |exact H]; lra.
    - (* ChiSquared *) apply N.ltb_lt in Hv. eapply chi_squared_sample_support; [exact Hv|exact H].
    - (* Poisson *) eapply poisson_sample_support; [exact Hu|exact H].
    - (* Binomial *) intros Hn. eapply binomial_sample_support_all; [exact Hn|exact Hu|exact H].
    - (* DiscreteUniform *) eapply discrete_uniform_support; [exact Hr|exact H].
    - (* Bernoulli *) inversion H as [H1]. pose proof (bernoulli_support src p s) as Hb. rewrite H1 in Hb. exact Hb.
  Qed.
  Lemma sample_n_support fuel d n s l s' :
    valid RO d = true -> unit_source src -> range_source src ->
    sample_n RO src fuel d n s = Ok (l, s') -> length l = n /\ Forall (in_support d) l.
  Proof.
    intros Hv Hu Hr H. split; [eapply sample_n_length; exact H|].
    unfold sample_n in H. eapply draws_all; [|exact H]. intros s0 x s0' Hx. eapply sample_support; eassumption.
  Qed.
End AnySource.
