(** Proofs for C06, part 5: the deviance of a fit with prior weights (the repaired code:
    [GLM::weighted_deviance] = sum_i w_i d(y_i, mu_i), the unit deviance obtained through
    [ExponentialFamily::deviance] on the single observation).  Additivity of every family arm over the
    observations (so the route is exact), the weighted formula, the stopping rule, what [fit] stores and
    what the inference accessors read, frequency weights = replicated observations. *)
From Coq Require Import Reals List Arith ZArith Bool Lia Lra.
From Compute Require Import Base.Ops Base.ListMat Model.Reduce Model.MatMul Spec.MatMul Proofs.C05.
From Compute Require Import Generated.glm_families Model.GLM Spec.GLM Proofs.C06_base Proofs.C06 Proofs.C06_infer.
Import ListNotations.
Local Open Scope R_scope.

(** ** the unit deviance IS the family's deviance of one observation (any carrier) *)
Lemma unit_dev_singleton {T} (O : Ops T) f yi mi : deviance O f [yi] [mi] = Some (unit_dev O f yi mi).
Proof. unfold unit_dev, deviance. cbn [length Nat.eqb]. reflexivity. Qed.

(** ** every family arm is additive over the observations: deviance(y, mu) = sum_i deviance([y_i], [mu_i])
    (exact arithmetic, no domain condition: this is about the code's own summands) *)
Lemma lsum_singleton a : lsum [a] = a.
Proof. cbn [lsum]. lra. Qed.

Lemma deviance_additive f y mu :
  length y = length mu ->
  deviance RO f y mu = Some (bigsum (fun i => unit_dev RO f (nth i y 0) (nth i mu 0)) (length y)).
Proof.
  intros L. unfold deviance. rewrite L, Nat.eqb_refl. f_equal.
  unfold unit_dev, deviance. cbn [length Nat.eqb].
  destruct f.
  - rewrite dot_raw_R.
    rewrite (lsum_map2_bigsum Rmult _ _ (length mu)) by (rewrite map2_length; lia).
    apply bigsum_ext. intros i Hi. rewrite dot_raw_R. cbn [map2]. rewrite lsum_singleton.
    rewrite (nth_map2 _ _ _ _ _ 0 0) by lia. reflexivity.
  - rewrite isum_R, (lsum_map2_bigsum _ _ _ (length mu)) by lia.
    change (mul RO ?a (ofZ RO (-2))) with (a * -2). rewrite bigsum_scal_r.
    apply bigsum_ext. intros i Hi. rewrite isum_R. cbn [map2]. rewrite lsum_singleton. reflexivity.
  - rewrite isum_R, (lsum_map2_bigsum _ _ _ (length mu)) by lia.
    change (mul RO (two RO) ?a) with ((1 + 1) * a). rewrite <- bigsum_scal.
    apply bigsum_ext. intros i Hi. rewrite isum_R. cbn [map2]. rewrite lsum_singleton. reflexivity.
  - rewrite isum_R, (lsum_map2_bigsum _ _ _ (length mu)) by lia.
    change (mul RO (two RO) ?a) with ((1 + 1) * a). rewrite <- bigsum_scal.
    apply bigsum_ext. intros i Hi. rewrite isum_R. cbn [map2]. rewrite lsum_singleton. reflexivity.
  - rewrite isum_R, (lsum_map2_bigsum _ _ _ (length mu)) by lia.
    change (mul RO (two RO) ?a) with ((1 + 1) * a). rewrite <- bigsum_scal.
    apply bigsum_ext. intros i Hi. rewrite isum_R. cbn [map2]. rewrite lsum_singleton. reflexivity.
  - rewrite isum_R, (lsum_map2_bigsum _ _ _ (length mu)) by lia.
    change (mul RO (two RO) ?a) with ((1 + 1) * a). rewrite <- bigsum_scal.
    apply bigsum_ext. intros i Hi. rewrite isum_R. cbn [map2]. rewrite lsum_singleton. reflexivity.
Qed.

(** the code's unit deviance is the textbook unit deviance (Poisson: on the domain where
    y ln y - y ln mu = y ln (y / mu)) *)
Lemma unit_dev_R f yi mi :
  (f = Poisson \/ f = QuasiPoisson -> yi = 0 \/ (0 < yi /\ 0 < mi)) ->
  unit_dev RO f yi mi = unit_deviance f yi mi.
Proof.
  intros Dom.
  destruct (deviance_formula f [yi] [mi] (unit_dev RO f yi mi) (unit_dev_singleton RO f yi mi)) as (_ & E).
  - intros Hf [|i] Hi; cbn [length] in Hi; [|lia]. cbn [nth]. exact (Dom Hf).
  - rewrite E. unfold family_deviance. cbn [length bigsum nth]. lra.
Qed.

(** ** the weighted deviance on the reals *)
Lemma unit_weights_R w : unit_weights RO w = true -> forall i, (i < length w)%nat -> nth i w 0 = 1.
Proof.
  unfold unit_weights. rewrite forallb_forall. intros H i Hi.
  specialize (H (nth i w 0) (nth_In w 0 Hi)). change (eqb RO) with Reqb in H. unfold Reqb in H.
  destruct (Req_EM_T (nth i w 0) (one RO)) as [E|]; [exact E|discriminate].
Qed.

(** whenever the code's weighted deviance returns, it is sum_i w_i * (unit deviance of observation i) *)
Lemma weighted_deviance_model f y mu w d :
  weighted_deviance RO f y mu w = Some d -> length w = length y ->
  d = bigsum (fun i => nth i w 0 * unit_dev RO f (nth i y 0) (nth i mu 0)) (length y).
Proof.
  unfold weighted_deviance. intros H Lw.
  destruct (unit_weights RO w) eqn:U.
  - assert (L : length y = length mu).
    { unfold deviance in H. destruct (Nat.eqb_spec (length y) (length mu)); [assumption|discriminate]. }
    rewrite (deviance_additive f y mu L) in H. injection H as <-.
    apply bigsum_ext. intros i Hi. rewrite (unit_weights_R w U i) by lia. lra.
  - destruct ((length y <=? length mu)%nat && (length y <=? length w)%nat); [|discriminate].
    injection H as <-. rewrite isum_R, bigsum_lsum. reflexivity.
Qed.

(** it returns on data of matching lengths *)
Lemma weighted_deviance_total f y mu w :
  length mu = length y -> length w = length y -> exists d, weighted_deviance RO f y mu w = Some d.
Proof.
  intros Lm Lw. unfold weighted_deviance. destruct (unit_weights RO w).
  - unfold deviance. rewrite Lm, Nat.eqb_refl. eauto.
  - rewrite Lm, Lw, Nat.leb_refl. cbn [andb]. eauto.
Qed.

(** the pinned form: sum_i w_i d(y_i, mu_i) with the textbook unit deviance *)
Lemma weighted_deviance_formula f y mu w d :
  weighted_deviance RO f y mu w = Some d -> length w = length y ->
  (f = Poisson \/ f = QuasiPoisson ->
     forall i, (i < length y)%nat -> nth i y 0 = 0 \/ (0 < nth i y 0 /\ 0 < nth i mu 0)) ->
  d = bigsum (fun i => nth i w 0 * unit_deviance f (nth i y 0) (nth i mu 0)) (length y).
Proof.
  intros H Lw Dom. rewrite (weighted_deviance_model f y mu w d H Lw).
  apply bigsum_ext. intros i Hi. rewrite unit_dev_R; [reflexivity|]. intros Hf. exact (Dom Hf i Hi).
Qed.

(** without weights ([fit] then uses a vector of ones) nothing changes: the family's deviance itself *)
Lemma unit_weights_repeat {T} (O : Ops T) n : eqb O (one O) (one O) = true -> unit_weights O (repeat (one O) n) = true.
Proof. intros E. unfold unit_weights. induction n as [|n IH]; [reflexivity|]. cbn [repeat forallb]. rewrite E, IH. reflexivity. Qed.

Lemma weighted_deviance_unweighted {T} (O : Ops T) f y mu n :
  eqb O (one O) (one O) = true -> weighted_deviance O f y mu (repeat (one O) n) = deviance O f y mu.
Proof. intros E. unfold weighted_deviance. rewrite (unit_weights_repeat O n E). reflexivity. Qed.

Lemma weighted_penalized_deviance_unweighted {T} (O : Ops T) f y mu n alpha coef :
  eqb O (one O) (one O) = true ->
  weighted_penalized_deviance O f y mu (repeat (one O) n) alpha coef = penalized_deviance O f y mu alpha coef.
Proof. intros E. unfold weighted_penalized_deviance, penalized_deviance. rewrite (weighted_deviance_unweighted O f y mu n E). reflexivity. Qed.

Lemma one_eqb_one_RO : eqb RO (one RO) (one RO) = true.
Proof. change (eqb RO) with Reqb. unfold Reqb. destruct (Req_EM_T (one RO) (one RO)) as [_|N]; [reflexivity|exfalso; apply N; reflexivity]. Qed.
Lemma one_eqb_one_FO tbl : eqb (FO tbl) (one (FO tbl)) (one (FO tbl)) = true.
Proof. reflexivity. Qed.

(** explicit unit weights [Some [1; ..; 1]] are the same fit as no weights *)
Lemma unit_weights_same_fit {T} (O : Ops T) solve f alpha tol off x y max_iter :
  fit O solve f alpha tol (Some (repeat (one O) (length y))) off x y max_iter
  = fit O solve f alpha tol None off x y max_iter.
Proof. unfold fit, fit_from. rewrite repeat_length, Nat.eqb_refl. reflexivity. Qed.

(** ** the penalised deviance of the stopping rule: weighted deviance + alpha sum_{j>=1} beta_j^2 *)
Lemma weighted_penalized_deviance_formula f y mu w alpha b0 beta d :
  weighted_penalized_deviance RO f y mu w alpha (b0 :: beta) = Some d ->
  exists dv, weighted_deviance RO f y mu w = Some dv /\
             d = dv + alpha * bigsum (fun j => nth j beta 0 * nth j beta 0) (length beta).
Proof.
  unfold weighted_penalized_deviance. destruct (weighted_deviance RO f y mu w) as [dv|]; [|discriminate]. cbn [bind].
  intros [= <-]. exists dv. split; [reflexivity|]. rewrite dot_raw_R.
  rewrite (lsum_map2_bigsum Rmult beta beta (length beta)) by reflexivity. reflexivity.
Qed.

(** one pass of the loop body (any inner solver): the value compared by the stopping rule *)
Lemma step_penalised_deviance solve f alpha tol x y n p w off beta pdev beta' pd conv q :
  step RO solve f alpha tol x y n p w off beta pdev = Some (beta', pd, conv, q) ->
  length (q_mu q) = length y /\
  exists dv b0 rest,
    beta' = b0 :: rest /\ weighted_deviance RO f y (q_mu q) w = Some dv /\
    pd = dv + alpha * bigsum (fun j => nth j rest 0 * nth j rest 0) (length rest).
Proof.
  unfold step.
  destruct (at_coef RO f x n p off beta) as [q0|]; [|discriminate]. cbn [bind].
  destruct (newton_system RO alpha x y p w beta q0) as [[a b]|] eqn:Hn; [|discriminate]. cbn [bind].
  destruct (solve a b) as [s|]; [|discriminate]. cbn [bind].
  destruct (vbin (sub RO) beta s) as [c|]; [|discriminate]. cbn [bind].
  destruct (weighted_penalized_deviance RO f y (q_mu q0) w alpha c) as [d|] eqn:Hpd; [|discriminate]. cbn [bind].
  intros [= <- <- <- <-]. split.
  - (* the gradient was computed: y and mu have the same length *)
    unfold newton_system in Hn.
    destruct (compute_dbeta RO x y (q_mu q0) (q_dmu q0) (q_var q0) w) as [db|] eqn:Hdb; [|discriminate].
    unfold compute_dbeta in Hdb.
    destruct (is_matrix (length x) (length y)); [|discriminate]. cbn [bind] in Hdb.
    destruct (working_residuals RO y (q_mu q0) (q_dmu q0) (q_var q0) w) as [wr|] eqn:Hwr; [|discriminate].
    unfold working_residuals in Hwr.
    destruct (vbin (sub RO) y (q_mu q0)) as [r|] eqn:Hv; [|discriminate].
    apply vbin_inv in Hv. destruct Hv as (L & _). symmetry. exact L.
  - destruct c as [|b0 rest]; [unfold weighted_penalized_deviance in Hpd;
      destruct (weighted_deviance RO f y (q_mu q0) w); discriminate|].
    destruct (weighted_penalized_deviance_formula _ _ _ _ _ _ _ _ Hpd) as (dv & Hdv & E).
    exists dv, b0, rest. auto.
Qed.

(** ** what [fit] stores: n (any carrier), and on the reals the weighted sum of unit deviances *)
Lemma fit_stores_n {T} (O : Ops T) solve f alpha tol w off x y max_iter ft :
  fit O solve f alpha tol w off x y max_iter = Some ft ->
  f_n ft = Z.max 0 (truncZ O (f1 O Round (sum O (weights_of O w (length y))))).
Proof.
  unfold fit, fit_from.
  destruct (is_matrix (length x) (length y)) as [p|]; [|discriminate]. cbn [bind].
  destruct (is_design O x (length y)) as [d|]; [|discriminate]. cbn [bind].
  destruct d; [|discriminate]. cbn [guard bind].
  destruct w as [w0|]; cbn [weights_of].
  - destruct (length w0 =? length y)%nat; [|discriminate]. cbn [guard bind].
    destruct (fit_loop O solve f alpha tol x y (length y) p w0 off (max_iter - 1) _ None) as [[[cv c] q]|]; [|discriminate]. cbn [bind].
    destruct (weighted_deviance O f y (q_mu q) w0); [|discriminate]. cbn [bind].
    destruct (compute_ddbeta O x (q_dmu q) (q_var q) w0); [|discriminate]. cbn [bind].
    intros [= <-]. reflexivity.
  - cbn [bind].
    destruct (fit_loop O solve f alpha tol x y (length y) p (repeat (one O) (length y)) off (max_iter - 1) _ None) as [[[cv c] q]|]; [|discriminate]. cbn [bind].
    destruct (weighted_deviance O f y (q_mu q) (repeat (one O) (length y))); [|discriminate]. cbn [bind].
    destruct (compute_ddbeta O x (q_dmu q) (q_var q) (repeat (one O) (length y))); [|discriminate]. cbn [bind].
    intros [= <-]. reflexivity.
Qed.

(** the fitted means of the log-link and logit families are positive: Poisson's domain condition holds
    at every iterate as soon as the counts are non-negative *)
Lemma at_coef_mu_pos f x n p off beta q i :
  at_coef RO f x n p off beta = Some q -> f <> Gaussian -> (i < length (q_mu q))%nat -> 0 < nth i (q_mu q) 0.
Proof.
  unfold at_coef. destruct (linear_predictor RO x n p off beta) as [eta|]; [|discriminate]. cbn [bind].
  intros [= <-] Hf. cbn [q_mu]. unfold inv_link. rewrite map_length. intros Hi.
  rewrite (nth_map' _ _ _ _ 0) by exact Hi. rewrite inv_link1_spec.
  destruct f; [congruence| |apply exp_pos..].
  cbn [mean_fn]. pose proof (exp_pos (- nth i eta 0)). apply Rdiv_lt_0_compat; lra.
Qed.

Lemma fit_deviance_is_weighted_sum solve f alpha tol w off x y max_iter ft :
  fit RO solve f alpha tol w off x y max_iter = Some ft ->
  (f = Poisson \/ f = QuasiPoisson -> forall i, (i < length y)%nat -> 0 <= nth i y 0) ->
  exists p q,
    fit_loop RO solve f alpha tol x y (length y) p (weights_of RO w (length y)) off (max_iter - 1)
             (initial_coef RO y p) None = Some (f_ok ft, f_coef ft, q) /\
    length (q_mu q) = length y /\
    f_dev ft = bigsum (fun i => nth i (weights_of RO w (length y)) 0 * unit_deviance f (nth i y 0) (nth i (q_mu q) 0)) (length y).
Proof.
  intros H Hy.
  destruct (fit_inv RO solve f alpha tol w off x y max_iter ft H) as (p & q & _ & _ & Lw & Hl & Hd & _ & _).
  exists p, q. split; [exact Hl|].
  destruct (fit_loop_spec RO solve f alpha tol x y (length y) p _ off _ _ _ _ _ _ Hl)
    as (k & c & pd & pd' & _ & _ & Hs & _).
  destruct (step_penalised_deviance _ _ _ _ _ _ _ _ _ _ _ _ _ _ _ _ Hs) as (Lm & _).
  split; [exact Lm|].
  apply (weighted_deviance_formula f y (q_mu q) _ _ Hd Lw).
  intros Hf i Hi. destruct (Hy Hf i Hi) as [Pos|Z]; [|left; symmetry; exact Z].
  right. split; [exact Pos|].
  unfold step in Hs. destruct (at_coef RO f x (length y) p off c) as [q0|] eqn:Hq; [|discriminate].
  cbn [bind] in Hs.
  destruct (newton_system RO alpha x y p (weights_of RO w (length y)) c q0) as [[a b]|]; [|discriminate]. cbn [bind] in Hs.
  destruct (solve a b) as [s|]; [|discriminate]. cbn [bind] in Hs.
  destruct (vbin (sub RO) c s) as [c'|]; [|discriminate]. cbn [bind] in Hs.
  destruct (weighted_penalized_deviance RO f y (q_mu q0) (weights_of RO w (length y)) alpha c'); [|discriminate].
  cbn [bind] in Hs. injection Hs as _ _ _ <-.
  apply (at_coef_mu_pos f x (length y) p off c q0 i Hq); [destruct Hf as [-> | ->]; discriminate|lia].
Qed.

(** ** the inference accessors read the stored (weighted) deviance *)
Lemma inference_uses_weighted_deviance f y mu w (ft : fitted (T:=R)) :
  weighted_deviance RO f y mu w = Some (f_dev ft) -> length w = length y ->
  (f = Poisson \/ f = QuasiPoisson ->
     forall i, (i < length y)%nat -> nth i y 0 = 0 \/ (0 < nth i y 0 /\ 0 < nth i mu 0)) ->
  let D := bigsum (fun i => nth i w 0 * unit_deviance f (nth i y 0) (nth i mu 0)) (length y) in
  aic RO ft = D + 2 * INR (f_p ft) /\
  bic RO ft = D + INR (f_p ft) * ln (IZR (f_n ft)) /\
  (forall d, dispersion RO f ft = Some d ->
     (has_dispersion f = true -> (Z.of_nat (f_p ft) <= f_n ft)%Z /\ d = D / IZR (f_n ft - Z.of_nat (f_p ft))) /\
     (has_dispersion f = false -> d = 1)) /\
  (forall inv c, coef_covariance_matrix RO inv f ft = Some c ->
     exists disp iv, dispersion RO f ft = Some disp /\ inv (f_info ft) = Some iv /\ c = map (Rmult disp) iv) /\
  (forall inv se, coef_standard_error RO inv f ft = Some se ->
     exists c dg, coef_covariance_matrix RO inv f ft = Some c /\ diag RO c = Some dg /\ se = map R_sqrt.sqrt dg).
Proof.
  intros H Lw Dom D.
  assert (E : f_dev ft = D) by (apply (weighted_deviance_formula f y mu w _ H Lw Dom)).
  destruct (aic_bic_formula ft) as (A & B). rewrite E in A, B.
  split; [exact A|]. split; [exact B|]. split; [|split].
  - intros d Hd. pose proof (dispersion_formula f ft d Hd) as F. rewrite E in F. exact F.
  - intros inv c. unfold coef_covariance_matrix.
    destruct (dispersion RO f ft) as [disp|] eqn:Hdi; [|discriminate]. cbn [bind].
    destruct (inv (f_info ft)) as [iv|] eqn:Hiv; [|discriminate]. cbn [bind].
    intros [= <-]. exists disp, iv. auto.
  - intros inv se. unfold coef_standard_error.
    destruct (coef_covariance_matrix RO inv f ft) as [c|] eqn:Hc; [|discriminate]. cbn [bind].
    destruct (diag RO c) as [dg|] eqn:Hdg; [|discriminate]. cbn [bind].
    intros [= <-]. exists c, dg. auto.
Qed.

(** ** frequency weights = replicated observations *)
(** observation i repeated k_i times *)
Fixpoint replicate {A} (k : list nat) (v : list A) : list A :=
  match k, v with
  | ki :: k', vi :: v' => repeat vi ki ++ replicate k' v'
  | _, _ => []
  end.

Lemma replicate_length {A} k (v : list A) : length v = length k -> length (replicate k v) = list_sum k.
Proof.
  revert v. induction k as [|ki k IH]; intros [|vi v] L; cbn [length] in L; try lia; [reflexivity|].
  change (list_sum (ki :: k)) with (ki + list_sum k)%nat.
  cbn [replicate]. rewrite app_length, repeat_length, IH by lia. reflexivity.
Qed.

Lemma lsum_repeat c k : lsum (repeat c k) = INR k * c.
Proof. induction k as [|k IH]; [cbn; lra|]. rewrite S_INR. cbn [repeat lsum]. rewrite IH. lra. Qed.

Lemma map2_repeat_app {A B C} (g : A -> B -> C) a b k l1 l2 :
  map2 g (repeat a k ++ l1) (repeat b k ++ l2) = repeat (g a b) k ++ map2 g l1 l2.
Proof. induction k as [|k IH]; [reflexivity|]. cbn [repeat app map2]. rewrite IH. reflexivity. Qed.

Lemma lsum_replicate (g : R -> R -> R) k : forall y mu,
  length y = length k -> length mu = length k ->
  lsum (map2 g (replicate k y) (replicate k mu)) = lsum (map2 Rmult (map INR k) (map2 g y mu)).
Proof.
  induction k as [|ki k IH]; intros [|yi y] [|mi mu] Ly Lm; cbn [length] in Ly, Lm; try lia; [reflexivity|].
  cbn [replicate map map2]. rewrite map2_repeat_app, lsum_app, lsum_repeat, IH by lia. cbn [lsum]. reflexivity.
Qed.

(** the sum of integer weights is the number of replicated rows *)
Lemma sum8_lsum fuel : forall s a, (length a < 8 * fuel)%nat -> sum8 RO fuel s a = s + lsum a.
Proof.
  induction fuel as [|fuel IH]; intros s a Hl; [lia|].
  destruct a as [|a0 [|a1 [|a2 [|a3 [|a4 [|a5 [|a6 [|a7 a']]]]]]]];
    try (cbn [sum8]; change (add RO) with Rplus; apply fold_left_add_lsum).
  cbn [sum8]. rewrite IH by (cbn [length] in Hl; lia).
  change (add RO) with Rplus. cbn [lsum]. lra.
Qed.
Lemma sum_lsum a : sum RO a = lsum a.
Proof. unfold sum. rewrite sum8_lsum by lia. change (zero RO) with 0. lra. Qed.

Lemma lsum_INR k : lsum (map INR k) = INR (list_sum k).
Proof.
  induction k as [|ki k IH]; [reflexivity|]. change (list_sum (ki :: k)) with (ki + list_sum k)%nat.
  cbn [map lsum]. rewrite IH, plus_INR. reflexivity.
Qed.

Lemma sum_frequency_weights {A} k (v : list A) :
  length v = length k -> sum RO (map INR k) = INR (length (replicate k v)).
Proof. intros L. rewrite sum_lsum, lsum_INR, replicate_length by exact L. reflexivity. Qed.

(** deviance: weighted with frequencies k = the family's (unweighted) deviance of the replicated data,
    as options (same definedness, same value); no domain condition *)
Lemma frequency_weights_deviance f k y mu :
  length y = length k -> length mu = length k ->
  weighted_deviance RO f y mu (map INR k) = deviance RO f (replicate k y) (replicate k mu).
Proof.
  intros Ly Lm.
  destruct (weighted_deviance_total f y mu (map INR k)) as (d & Hd); [lia|rewrite map_length; lia|].
  rewrite Hd, (weighted_deviance_model f y mu _ d Hd) by (rewrite map_length; lia).
  rewrite deviance_additive by (rewrite !replicate_length; lia). f_equal.
  rewrite <- (lsum_map2_bigsum (unit_dev RO f) _ _ (length (replicate k y)))
    by (rewrite ?replicate_length; lia).
  rewrite (lsum_replicate _ k y mu Ly Lm).
  rewrite (lsum_map2_bigsum Rmult _ _ (length y)) by (rewrite ?map_length, ?map2_length; lia).
  apply bigsum_ext. intros i Hi. rewrite (nth_map2 _ _ _ _ _ 0 0) by lia. reflexivity.
Qed.

(** dispersion, AIC, BIC: a record holding the weighted deviance and n = sum of the frequencies gives what
    a record holding the deviance of the replicated data and n = its number of rows gives *)
Lemma frequency_weights_inference f k y mu (ft ft' : fitted (T:=R)) :
  length y = length k -> length mu = length k ->
  weighted_deviance RO f y mu (map INR k) = Some (f_dev ft) -> IZR (f_n ft) = sum RO (map INR k) ->
  deviance RO f (replicate k y) (replicate k mu) = Some (f_dev ft') -> f_n ft' = Z.of_nat (length (replicate k y)) ->
  f_p ft = f_p ft' ->
  f_dev ft = f_dev ft' /\ f_n ft = f_n ft' /\
  dispersion RO f ft = dispersion RO f ft' /\ aic RO ft = aic RO ft' /\ bic RO ft = bic RO ft'.
Proof.
  intros Ly Lm H Hn H' Hn' Hp.
  assert (Ed : f_dev ft = f_dev ft').
  { rewrite (frequency_weights_deviance f k y mu Ly Lm), H' in H. injection H as E. symmetry. exact E. }
  assert (En : f_n ft = f_n ft').
  { rewrite Hn'. apply eq_IZR. rewrite Hn, (sum_frequency_weights k y Ly), INR_IZR_INZ. reflexivity. }
  split; [exact Ed|]. split; [exact En|].
  unfold dispersion, aic, bic. rewrite Ed, En, Hp. auto.
Qed.

(** ** the hypotheses are satisfiable on non-trivial instances *)
Example replicate_ex : replicate [1; 2; 3]%nat [1; 2; 4] = [1; 2; 2; 4; 4; 4].
Proof. reflexivity. Qed.

(** Gaussian, frequency weights 1, 2, 3: 1*0 + 2*1 + 3*9 = 29 = residual sum of squares of the replicated data *)
Example weighted_deviance_ex :
  weighted_deviance RO Gaussian [1; 2; 4] [1; 1; 1] (map INR [1; 2; 3]%nat) = Some 29 /\
  deviance RO Gaussian (replicate [1; 2; 3]%nat [1; 2; 4]) (replicate [1; 2; 3]%nat [1; 1; 1]) = Some 29.
Proof.
  assert (E : weighted_deviance RO Gaussian [1; 2; 4] [1; 1; 1] (map INR [1; 2; 3]%nat) = Some 29).
  { destruct (weighted_deviance_total Gaussian [1; 2; 4] [1; 1; 1] (map INR [1; 2; 3]%nat)) as (d & Hd); try reflexivity.
    rewrite Hd. f_equal.
    rewrite (weighted_deviance_formula Gaussian _ _ _ d Hd); [|reflexivity|intros [H|H]; discriminate H].
    cbn [length bigsum nth map unit_deviance INR]. lra. }
  split; [exact E|]. rewrite <- E. symmetry. apply frequency_weights_deviance; reflexivity.
Qed.

(** Poisson with a zero count: the domain condition of the weighted formula *)
Example weighted_poisson_domain_ex :
  forall i, (i < length [0; 2; 5])%nat -> nth i [0; 2; 5] 0 = 0 \/ (0 < nth i [0; 2; 5] 0 /\ 0 < nth i [0.5; 1; 4] 0).
Proof. intros [|[|[|i]]] H; cbn [length] in H; try lia; cbn [nth]; [left; reflexivity|right; lra|right; lra]. Qed.
