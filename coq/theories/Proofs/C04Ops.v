(** Proofs for C04, part 2: the operator / map layer.  Which kernel, which operator token, which argument order and
    which wrapper each of the 72 impls uses is read from the REGENERATED table [op_rows] (Tie A); the proofs below
    use only [vops_wiring_consistent = true] (recomputed on every run) and never the content of the table. *)
From Coq Require Import String.
From Coq Require Import List Arith Bool ZArith Lia.
From Compute Require Import Base.Ops Base.ListMat Model.Reduce Model.Broadcast Model.Vops Spec.Vops Proofs.C04.
Import ListNotations.

Lemma vops_wiring_consistent_true : vops_wiring_consistent = true.
Proof. vm_compute. reflexivity. Qed.

Lemma vtrait_eqb_eq a b : vtrait_eqb a b = true -> a = b.
Proof. destruct a, b; simpl; congruence. Qed.
Lemma vty_eqb_eq a b : vty_eqb a b = true -> a = b.
Proof. destruct a, b; simpl; congruence. Qed.
Lemma vtok_eqb_eq a b : vtok_eqb a b = true -> a = b.
Proof. destruct a, b; simpl; congruence. Qed.
Lemma kfamily_eqb_eq a b : kfamily_eqb a b = true -> a = b.
Proof. destruct a, b; simpl; congruence. Qed.
Lemma wrap_eqb_eq a b : wrap_eqb a b = true -> a = b.
Proof. destruct a, b; simpl; congruence. Qed.

Lemma find_row_some tr s o r :
  find_row tr s o = Some r -> In r op_rows /\ o_trait r = tr /\ o_self r = s /\ o_other r = o.
Proof.
  unfold find_row. intros H. apply find_some in H. destruct H as [Hin H].
  apply andb_prop in H. destruct H as [H Ho]. apply andb_prop in H. destruct H as [Ht Hs].
  repeat split; auto using vtrait_eqb_eq, vty_eqb_eq.
Qed.

Lemma row_ok_in r : In r op_rows -> row_ok r = true.
Proof.
  intros Hin. pose proof vops_wiring_consistent_true as H. unfold vops_wiring_consistent in H.
  repeat (apply andb_prop in H; destruct H as [H ?]).
  match goal with H : forallb row_ok op_rows = true |- _ => rewrite forallb_forall in H; apply H; exact Hin end.
Qed.

(** what [row_ok] says, in usable form *)
Lemma row_ok_inv r :
  row_ok r = true ->
  o_arg1 r = SelfArg /\ o_arg2 r = OtherArg /\ o_method r = trait_method (o_trait r) /\
  exists fam w, expected (o_trait r) (o_self r) (o_other r) = Some (fam, w) /\
                find_kernel (o_kernel r) = Some (fam, trait_tok (o_trait r)) /\ o_wrap r = w.
Proof.
  unfold row_ok. intros H.
  apply andb_prop in H. destruct H as [H H3]. apply andb_prop in H. destruct H as [H1 H2].
  apply String.eqb_eq in H1.
  destruct (o_arg1 r), (o_arg2 r); try discriminate.
  destruct (expected (o_trait r) (o_self r) (o_other r)) as [[fam w]|]; try discriminate.
  destruct (find_kernel (o_kernel r)) as [[fam' tok]|]; try discriminate.
  apply andb_prop in H3. destruct H3 as [H3 Hw]. apply andb_prop in H3. destruct H3 as [Hf Ht].
  apply kfamily_eqb_eq in Hf. apply vtok_eqb_eq in Ht. apply wrap_eqb_eq in Hw. subst.
  repeat split; auto. exists fam', (o_wrap r). auto.
Qed.

Section Rows.
  Context {T : Type} (O : Ops T).

  (** the kernel call of a correctly wired row, by family *)
  Lemma run_row_family r fam self other :
    row_ok r = true -> fst (match expected (o_trait r) (o_self r) (o_other r) with Some p => p | None => (fam, WUnit) end) = fam ->
    expected (o_trait r) (o_self r) (o_other r) <> None ->
    run_row O r self other =
    let op := trait_op O (o_trait r) in
    match fam, self, other with
    | KBinary, OVec a, OVec b => vbin op a b
    | KBinaryMut, OVec a, OVec b => vbin_mut op a b
    | KVs, OVec a, OSc s => Some (vs op a s)
    | KSv, OSc s, OVec a => Some (sv op s a)
    | KVsMut, OVec a, OSc s => Some (vs_mut op a s)
    | _, _, _ => None
    end.
  Proof.
    intros Hok Hfam Hne. destruct (row_ok_inv r Hok) as (A1 & A2 & _ & fam' & w & He & Hk & _).
    rewrite He in Hfam. cbn [fst] in Hfam. subst fam'.
    unfold run_row, run_kernel. rewrite A1, A2, Hk. cbn [bind fst snd]. reflexivity.
  Qed.

  (** Vector op Vector and Vector op= Vector, every ownership form *)
  Lemma vec_op_vec tr s o r (a b : list T) :
    find_row tr s o = Some r -> is_vec s = true -> is_vec o = true ->
    run_row O r (OVec a) (OVec b) =
    if length a =? length b then Some (map2 (trait_op O tr) a b) else None.
  Proof.
    intros Hf Hs Ho. destruct (find_row_some _ _ _ _ Hf) as (Hin & Et & Es & Eo).
    pose proof (row_ok_in r Hin) as Hok.
    destruct (row_ok_inv r Hok) as (_ & _ & _ & fam & w & He & _ & _).
    rewrite (run_row_family r fam) by (rewrite ?He; cbn; congruence).
    rewrite Et, Es, Eo in He. rewrite Et.
    destruct s; try discriminate; destruct o; try discriminate; destruct tr; cbn in He; inversion He; subst;
      cbn zeta; auto using vbin_closed, vbin_mut_closed.
  Qed.

  (** Vector op f64 and Vector op= f64 *)
  Lemma vec_op_scalar tr s r (a : list T) (x : T) :
    find_row tr s TyF64 = Some r -> is_vec s = true ->
    run_row O r (OVec a) (OSc x) = Some (map (fun e => trait_op O tr e x) a).
  Proof.
    intros Hf Hs. destruct (find_row_some _ _ _ _ Hf) as (Hin & Et & Es & Eo).
    pose proof (row_ok_in r Hin) as Hok.
    destruct (row_ok_inv r Hok) as (_ & _ & _ & fam & w & He & _ & _).
    rewrite (run_row_family r fam) by (rewrite ?He; cbn; congruence).
    rewrite Et, Es, Eo in He. rewrite Et.
    destruct s; try discriminate; destruct tr; cbn in He; inversion He; subst;
      cbn zeta; rewrite ?vs_map, ?vs_mut_map; reflexivity.
  Qed.

  (** f64 op Vector: the scalar is the LEFT operand of the operation *)
  Lemma scalar_op_vec tr o r (x : T) (a : list T) :
    find_row tr TyF64 o = Some r -> is_vec o = true ->
    run_row O r (OSc x) (OVec a) = Some (map (fun e => trait_op O tr x e) a).
  Proof.
    intros Hf Ho. destruct (find_row_some _ _ _ _ Hf) as (Hin & Et & Es & Eo).
    pose proof (row_ok_in r Hin) as Hok.
    destruct (row_ok_inv r Hok) as (_ & _ & _ & fam & w & He & _ & _).
    rewrite (run_row_family r fam) by (rewrite ?He; cbn; congruence).
    rewrite Et, Es, Eo in He. rewrite Et.
    destruct o; try discriminate; destruct tr; cbn in He; inversion He; subst;
      cbn zeta; rewrite ?sv_map; reflexivity.
  Qed.
End Rows.

(** ** Matrix forms *)
Section MatRows.
  Context {T : Type} (O : Ops T).

  Lemma mat_of_wf (m : mat T) (d : list T) :
    wf_mat m -> length d = length (dat m) -> mat_of m d = Some (mkmat (nr m) (nc m) d).
  Proof.
    intros (Hr & Hc & Hl) Hd. unfold mat_of, matrix_new, new_ok.
    rewrite (proj2 (Nat.ltb_lt _ _) Hr), (proj2 (Nat.ltb_lt _ _) Hc).
    rewrite (proj2 (Nat.eqb_eq _ _)) by lia. reflexivity.
  Qed.

  (** positive shape or the empty 0 x 0 matrix: [Matrix::new] (repaired) rebuilds the result in both cases *)
  Lemma wf_mat0_length (m : mat T) : wf_mat0 m -> length (dat m) = nr m * nc m.
  Proof. intros [(_ & _ & Hl)| ->]; [exact Hl|reflexivity]. Qed.

  Lemma mat_of_wf0 (m : mat T) (d : list T) :
    wf_mat0 m -> length d = length (dat m) -> mat_of m d = Some (mkmat (nr m) (nc m) d).
  Proof.
    intros [Hwf| ->] Hd; [apply mat_of_wf; assumption|].
    cbn [dat length] in Hd. destruct d; [reflexivity|discriminate].
  Qed.

  (** Matrix op f64, &Matrix op f64, Matrix op= f64 *)
  Lemma mat_op_scalar0 tr s r (m : mat T) (x : T) :
    find_row tr s TyF64 = Some r -> is_mat s = true -> wf_mat0 m ->
    run_mat_row O r (MMat m) (MSc x) = Some (mkmat (nr m) (nc m) (map (fun e => trait_op O tr e x) (dat m))).
  Proof.
    intros Hf Hs Hwf. destruct (find_row_some _ _ _ _ Hf) as (Hin & Et & Es & Eo).
    pose proof (row_ok_in r Hin) as Hok.
    destruct (row_ok_inv r Hok) as (_ & _ & _ & fam & w & He & _ & Hw).
    unfold run_mat_row. cbn [data_of].
    rewrite (run_row_family O r fam) by (rewrite ?He; cbn; congruence).
    rewrite Et, Es, Eo in He. rewrite Et, Hw.
    destruct s; try discriminate; destruct tr; cbn in He; inversion He; subst;
      cbn zeta; cbn [bind]; rewrite ?vs_map, ?vs_mut_map; try reflexivity;
      apply mat_of_wf0; auto; apply map_length.
  Qed.
  Lemma mat_op_scalar tr s r (m : mat T) (x : T) :
    find_row tr s TyF64 = Some r -> is_mat s = true -> wf_mat m ->
    run_mat_row O r (MMat m) (MSc x) = Some (mkmat (nr m) (nc m) (map (fun e => trait_op O tr e x) (dat m))).
  Proof. intros Hf Hs Hwf. exact (mat_op_scalar0 tr s r m x Hf Hs (or_introl Hwf)). Qed.

  (** f64 op Matrix, f64 op &Matrix: the scalar is the LEFT operand *)
  Lemma scalar_op_mat0 tr o r (x : T) (m : mat T) :
    find_row tr TyF64 o = Some r -> is_mat o = true -> wf_mat0 m ->
    run_mat_row O r (MSc x) (MMat m) = Some (mkmat (nr m) (nc m) (map (fun e => trait_op O tr x e) (dat m))).
  Proof.
    intros Hf Ho Hwf. destruct (find_row_some _ _ _ _ Hf) as (Hin & Et & Es & Eo).
    pose proof (row_ok_in r Hin) as Hok.
    destruct (row_ok_inv r Hok) as (_ & _ & _ & fam & w & He & _ & Hw).
    unfold run_mat_row. cbn [data_of].
    rewrite (run_row_family O r fam) by (rewrite ?He; cbn; congruence).
    rewrite Et, Es, Eo in He. rewrite Et, Hw.
    destruct o; try discriminate; destruct tr; cbn in He; inversion He; subst;
      cbn zeta; cbn [bind]; rewrite ?sv_map;
      apply mat_of_wf0; auto; apply map_length.
  Qed.
  Lemma scalar_op_mat tr o r (x : T) (m : mat T) :
    find_row tr TyF64 o = Some r -> is_mat o = true -> wf_mat m ->
    run_mat_row O r (MSc x) (MMat m) = Some (mkmat (nr m) (nc m) (map (fun e => trait_op O tr x e) (dat m))).
  Proof. intros Hf Ho Hwf. exact (scalar_op_mat0 tr o r x m Hf Ho (or_introl Hwf)). Qed.

  (** Matrix op= Matrix, Matrix op= &Matrix: equal shapes are required *)
  Lemma mat_assign_mat0 tr s o r (m1 m2 : mat T) :
    find_row tr s o = Some r -> is_mat s = true -> is_mat o = true -> wf_mat0 m1 -> wf_mat0 m2 ->
    run_mat_row O r (MMat m1) (MMat m2) =
    if (nr m1 =? nr m2) && (nc m1 =? nc m2)
    then Some (mkmat (nr m1) (nc m1) (map2 (trait_op O tr) (dat m1) (dat m2))) else None.
  Proof.
    intros Hf Hs Ho Hl1 Hl2. apply wf_mat0_length in Hl1, Hl2. destruct (find_row_some _ _ _ _ Hf) as (Hin & Et & Es & Eo).
    pose proof (row_ok_in r Hin) as Hok.
    destruct (row_ok_inv r Hok) as (_ & _ & _ & fam & w & He & _ & Hw).
    unfold run_mat_row. cbn [data_of].
    rewrite (run_row_family O r fam) by (rewrite ?He; cbn; congruence).
    rewrite Et, Es, Eo in He. rewrite Et, Hw.
    destruct s; try discriminate; destruct o; try discriminate; destruct tr; cbn in He; inversion He; subst;
      cbn zeta;
      (destruct (Nat.eqb_spec (nr m1) (nr m2)) as [E1|E1]; [|reflexivity];
       destruct (Nat.eqb_spec (nc m1) (nc m2)) as [E2|E2]; [|reflexivity];
       cbn [andb guard bind]; rewrite vbin_mut_closed;
       rewrite (proj2 (Nat.eqb_eq _ _)) by congruence; reflexivity).
  Qed.
  Lemma mat_assign_mat tr s o r (m1 m2 : mat T) :
    find_row tr s o = Some r -> is_mat s = true -> is_mat o = true -> wf_mat m1 -> wf_mat m2 ->
    run_mat_row O r (MMat m1) (MMat m2) =
    if (nr m1 =? nr m2) && (nc m1 =? nc m2)
    then Some (mkmat (nr m1) (nc m1) (map2 (trait_op O tr) (dat m1) (dat m2))) else None.
  Proof. intros Hf Hs Ho H1 H2. exact (mat_assign_mat0 tr s o r m1 m2 Hf Hs Ho (or_introl H1) (or_introl H2)). Qed.

  (** Matrix op Matrix goes through [broadcast_*]; the equal-shape arm runs the binary kernel.  For ALL operands the
      kernel-level model agrees with C12's model of [broadcast] (whose theorems therefore apply to it) *)
  Lemma mat_binop_broadcast t (m1 m2 : mat T) : mat_binop O t m1 m2 = broadcast (tok_fn O t) m1 m2.
  Proof.
    unfold mat_binop, broadcast.
    destruct (calc_broadcast_shape (nr m1) (nc m1) (nr m2) (nc m2)) as [[b1 b2]|]; [|reflexivity].
    cbn [bind]. destruct b1; try reflexivity. destruct b2; try reflexivity.
    unfold matmat, mat_of. rewrite vbin_closed.
    destruct ((nr m1 =? nr m2) && (nc m1 =? nc m2)); [|reflexivity]. cbn [guard bind].
    destruct (length (dat m1) =? length (dat m2)); reflexivity.
  Qed.

  Lemma mat_binop_same_shape0 t (m1 m2 : mat T) :
    wf_mat0 m1 -> wf_mat0 m2 -> nr m1 = nr m2 -> nc m1 = nc m2 ->
    mat_binop O t m1 m2 = Some (mkmat (nr m1) (nc m1) (map2 (tok_fn O t) (dat m1) (dat m2))).
  Proof.
    intros Hwf1 Hwf2 Er Ec. pose proof (wf_mat0_length _ Hwf1) as Hl1. pose proof (wf_mat0_length _ Hwf2) as Hl2.
    unfold mat_binop, calc_broadcast_shape. cbn [calc_broadcast_shape_fuel].
    rewrite Er, Ec, !Nat.eqb_refl. cbn [andb bind guard].
    rewrite vbin_accepts by congruence. cbn [bind].
    rewrite <- Er, <- Ec. apply mat_of_wf0; auto.
    rewrite map2_length'. rewrite Hl1, Hl2, Er, Ec. apply Nat.min_id.
  Qed.
  Lemma mat_binop_same_shape t (m1 m2 : mat T) :
    wf_mat m1 -> wf_mat m2 -> nr m1 = nr m2 -> nc m1 = nc m2 ->
    mat_binop O t m1 m2 = Some (mkmat (nr m1) (nc m1) (map2 (tok_fn O t) (dat m1) (dat m2))).
  Proof. intros H1 H2. apply mat_binop_same_shape0; left; assumption. Qed.

  (** maps, powers and negation keep the shape *)
  Lemma mat_map_wf0 u (m : mat T) :
    wf_mat0 m -> mat_map O u m = Some (mkmat (nr m) (nc m) (map (umap_fn O u) (dat m))).
  Proof. intros H. unfold mat_map. rewrite vmap_map. apply mat_of_wf0; auto. apply map_length. Qed.
  Lemma mat_powf_wf0 (m : mat T) a :
    wf_mat0 m -> mat_powf O m a = Some (mkmat (nr m) (nc m) (map (fun x => powf O x a) (dat m))).
  Proof. intros H. unfold mat_powf. rewrite vpowf_map. apply mat_of_wf0; auto. apply map_length. Qed.
  Lemma mat_powi_wf0 (m : mat T) n :
    wf_mat0 m -> mat_powi O m n = Some (mkmat (nr m) (nc m) (vpowi O (dat m) n)).
  Proof. intros H. unfold mat_powi. apply mat_of_wf0; auto. apply vpowi_length. Qed.
  Lemma mat_neg_wf0 (m : mat T) :
    wf_mat0 m -> mat_neg O m = Some (mkmat (nr m) (nc m) (map (neg O) (dat m))).
  Proof. intros H. unfold mat_neg, vneg. apply mat_of_wf0; auto. apply map_length. Qed.
  Lemma mat_map_wf u (m : mat T) :
    wf_mat m -> mat_map O u m = Some (mkmat (nr m) (nc m) (map (umap_fn O u) (dat m))).
  Proof. intros H. unfold mat_map. rewrite vmap_map. apply mat_of_wf; auto. apply map_length. Qed.
  Lemma mat_powf_wf (m : mat T) a :
    wf_mat m -> mat_powf O m a = Some (mkmat (nr m) (nc m) (map (fun x => powf O x a) (dat m))).
  Proof. intros H. unfold mat_powf. rewrite vpowf_map. apply mat_of_wf; auto. apply map_length. Qed.
  Lemma mat_powi_wf (m : mat T) n :
    wf_mat m -> mat_powi O m n = Some (mkmat (nr m) (nc m) (vpowi O (dat m) n)).
  Proof. intros H. unfold mat_powi. apply mat_of_wf; auto. apply vpowi_length. Qed.
  Lemma mat_neg_wf (m : mat T) :
    wf_mat m -> mat_neg O m = Some (mkmat (nr m) (nc m) (map (neg O) (dat m))).
  Proof. intros H. unfold mat_neg, vneg. apply mat_of_wf; auto. apply map_length. Qed.

  (** the Vector map methods, through the regenerated tables: method name -> kernel -> scalar method *)
  Lemma run_vecmap_map u (v : list T) : run_vecmap O (umap_method u) v = Some (map (umap_fn O u) v).
  Proof. rewrite <- vmap_map. destruct u; reflexivity. Qed.
End MatRows.

(** every map is also a Matrix method *)
Lemma mat_map_methods u : In (umap_method u) mat_unary_impls.
Proof. destruct u; cbv; tauto. Qed.

(** the forms that exist: each (trait, Self, Other) the specification expects has an impl row *)
Lemma find_row_expected tr s o :
  expected tr s o <> None -> exists r, find_row tr s o = Some r.
Proof.
  destruct tr, s, o; cbn; intros H; try congruence; eexists; reflexivity.
Qed.

(** ** The empty Matrix (0 x 0, as [Matrix::empty()] builds it).  On the ORIGINAL code every form that builds its
    result with [Matrix::new] panicked there ([reshape_mut] refused every zero dimension; the recorded finding
    [empty-matrix:value-form-panics]); the repaired [reshape_mut] accepts the request 0 x 0 on empty data, and every
    form returns the empty matrix.  [Matrix::new] still refuses every other shape with a zero dimension. *)
Section EmptyMatrix.
  Context {T : Type} (O : Ops T).
  Local Notation empty_mat := (mkmat 0 0 (@nil T)).

  Lemma wf_mat0_empty : wf_mat0 empty_mat.
  Proof. right; reflexivity. Qed.

  Lemma mat_of_zero_dim (m : mat T) d :
    nr m = 0 \/ nc m = 0 -> ~ (nr m = 0 /\ nc m = 0 /\ d = []) -> mat_of m d = None.
  Proof.
    intros Hz Hn. unfold mat_of, matrix_new.
    destruct (new_ok (length d) (nr m) (nc m)) eqn:E; [|reflexivity]. exfalso.
    unfold new_ok in E. apply orb_true_iff in E. rewrite !andb_true_iff, !Nat.ltb_lt, !Nat.eqb_eq in E.
    destruct E as [((Hr & Hc) & _)|((Hr & Hc) & Hl)]; [lia|].
    apply Hn. repeat split; auto. destruct d; [reflexivity|discriminate].
  Qed.

  Lemma empty_mat_op_scalar tr s r (x : T) :
    find_row tr s TyF64 = Some r -> is_mat s = true ->
    run_mat_row O r (MMat empty_mat) (MSc x) = Some empty_mat.
  Proof. intros Hf Hs. rewrite (mat_op_scalar0 O tr s r _ x Hf Hs wf_mat0_empty). reflexivity. Qed.

  Lemma empty_scalar_op_mat tr o r (x : T) :
    find_row tr TyF64 o = Some r -> is_mat o = true ->
    run_mat_row O r (MSc x) (MMat empty_mat) = Some empty_mat.
  Proof. intros Hf Ho. rewrite (scalar_op_mat0 O tr o r x _ Hf Ho wf_mat0_empty). reflexivity. Qed.

  Lemma empty_mat_assign tr s o r :
    find_row tr s o = Some r -> is_mat s = true -> is_mat o = true ->
    run_mat_row O r (MMat empty_mat) (MMat empty_mat) = Some empty_mat.
  Proof.
    intros Hf Hs Ho. rewrite (mat_assign_mat0 O tr s o r _ _ Hf Hs Ho wf_mat0_empty wf_mat0_empty). reflexivity.
  Qed.

  Lemma empty_mat_others t u n a :
    mat_binop O t empty_mat empty_mat = Some empty_mat /\ mat_map O u empty_mat = Some empty_mat /\
    mat_powi O empty_mat n = Some empty_mat /\ mat_powf O empty_mat a = Some empty_mat /\
    mat_neg O empty_mat = Some empty_mat.
  Proof.
    split; [|split; [|split; [|split]]].
    - rewrite (mat_binop_same_shape0 O t _ _ wf_mat0_empty wf_mat0_empty eq_refl eq_refl). reflexivity.
    - rewrite (mat_map_wf0 O u _ wf_mat0_empty). reflexivity.
    - rewrite (mat_powi_wf0 O _ n wf_mat0_empty). unfold vpowi. cbn [dat nr nc].
      destruct (n =? 2)%Z; [reflexivity|]. destruct (n =? 3)%Z; reflexivity.
    - rewrite (mat_powf_wf0 O _ a wf_mat0_empty). reflexivity.
    - rewrite (mat_neg_wf0 O _ wf_mat0_empty). reflexivity.
  Qed.

  (** [Matrix::inf_norm] of the empty matrix: [abs] returns the empty matrix, there are no row sums, and
      [max] of no elements is its NaN seed (as for the empty Vector) *)
  Lemma empty_mat_inf_norm : mat_inf_norm O empty_mat = Some (nan_ O).
  Proof. reflexivity. Qed.

  (** a shape with exactly one zero dimension (0 x c, r x 0: reachable only through [reshape_mut] with an inferred
      dimension on empty data) is still refused by [Matrix::new]: the value forms panic on it *)
  Lemma degenerate_mat_map_panics u (m : mat T) :
    (nr m = 0 /\ 0 < nc m) \/ (0 < nr m /\ nc m = 0) -> mat_map O u m = None.
  Proof. intros H. unfold mat_map. apply mat_of_zero_dim; lia. Qed.
End EmptyMatrix.
