(** * C17: [binom_coeff] on [u64] computes exactly C(n,k) whenever C(n,k) fits in 64 bits,
    in both build modes (release/wrapping and debug/trapping); it returns 0 or panics only when
    C(n,k) does not fit.

    [CN] is used only through the bridge lemmas of [C17_binom_mc] (restatements of MathComp's
    [binomial] lemmas); it is never unfolded here. *)
From Coq Require Import NArith Lia.
From Compute Require Import Model.Binom Spec.Binom Proofs.C17_binom_mc.
Local Open Scope N_scope.

Opaque CN.

(** ** constants: only these two facts about 2^64 are used by the symbolic proofs *)

Lemma MAX64_succ : MAX64 + 1 = M64.
Proof. reflexivity. Qed.

Lemma M64_pos : 0 < M64.
Proof. reflexivity. Qed.

(** ** the machine operations when nothing overflows *)

Lemma norm_fits md v : v < M64 -> norm md v = Some v.
Proof. intros H. unfold norm. apply N.ltb_lt in H. rewrite H. reflexivity. Qed.

Lemma usub_fits md a b : b <= a -> usub md a b = Some (a - b).
Proof. intros H. unfold usub. apply N.leb_le in H. rewrite H. reflexivity. Qed.

(** ** arithmetic of C(n,i) below the middle *)

Lemma CN_step_le n i : 1 <= i -> 2 * i <= n + 1 -> CN n (i - 1) <= CN n i.
Proof.
  intros H1 H2.
  assert (E := CN_absorb n i H1 ltac:(lia)).
  assert (Hm : i <= n - i + 1) by lia.
  set (x := CN n i) in *. set (y := CN n (i - 1)) in *. set (m := n - i + 1) in *.
  clearbody x y m.
  destruct (N.le_gt_cases y x) as [|Hlt]; [assumption|exfalso].
  assert (i * x < i * y) by (apply N.mul_lt_mono_pos_l; lia).
  assert (i * y <= m * y) by (apply N.mul_le_mono_r; assumption).
  lia.
Qed.

Lemma CN_mono_add n j d : 2 * (j + d) <= n + 1 -> CN n j <= CN n (j + d).
Proof.
  induction d as [|d IH] using N.peano_ind; intros H.
  - rewrite N.add_0_r. apply N.le_refl.
  - apply N.le_trans with (CN n (j + d)); [apply IH; lia|].
    replace (j + d) with (j + N.succ d - 1) at 1 by lia.
    apply CN_step_le; lia.
Qed.

Lemma CN_mono n j i : j <= i -> 2 * i <= n + 1 -> CN n j <= CN n i.
Proof.
  intros H1 H2. replace i with (j + (i - j)) by lia. apply CN_mono_add. lia.
Qed.

Lemma CN_2 n : 2 <= n -> 2 * CN n 2 = (n - 1) * n.
Proof.
  intros H. rewrite (CN_absorb n 2) by lia.
  change (2 - 1) with 1. rewrite CN_1. replace (n - 2 + 1) with (n - 1) by lia. reflexivity.
Qed.

Lemma two_ab a b : 2 * (a * b) <= (a + b - 1) * (a + b).
Proof.
  destruct (N.eq_dec a 0) as [->|Ha]; [lia|].
  destruct (N.eq_dec b 0) as [->|Hb]; [lia|].
  assert (a <= a * a) by nia. assert (b <= b * b) by nia.
  rewrite N.mul_sub_distr_r. nia.
Qed.

(** [(i-1) * (n-i+1) <= C(n,i)] for [i <= n/2]: this is what bounds the second product
    [c % i * (n - i + 1)] *)
Lemma rem_prod_bound n i : 1 <= i -> 2 * i <= n -> (i - 1) * (n - i + 1) <= CN n i.
Proof.
  intros H1 H2.
  destruct (N.eq_dec i 1) as [->|Hi].
  - change (1 - 1) with 0. rewrite N.mul_0_l. apply N.le_0_l.
  - assert (Hm : CN n 2 <= CN n i) by (apply CN_mono; lia).
    assert (E2 := CN_2 n ltac:(lia)).
    assert (Hab := two_ab (i - 1) (n - i + 1)).
    replace (i - 1 + (n - i + 1)) with n in Hab by lia.
    lia.
Qed.

(** ** one iteration *)

Section Step.
  Variables (n nk i : N).
  Hypothesis Hi1 : 1 <= i.
  Hypothesis Hink : i <= nk.
  Hypothesis Hnk : 2 * nk <= n.
  Hypothesis Hfit : CN n i < M64.

  Let c := CN n (i - 1).
  Let m := n - i + 1.
  Let q := c / i.
  Let r := c mod i.

  Local Lemma c_divmod : c = i * q + r /\ r < i.
  Proof.
    split; [apply N.div_mod'|apply N.mod_lt; lia].
  Qed.

  Local Lemma absorb_qr : i * CN n i = i * (q * m) + r * m.
  Proof.
    rewrite (CN_absorb n i) by lia. fold c m.
    destruct c_divmod as [E _]. rewrite E at 1. lia.
  Qed.

  Lemma t1_le : q * m <= CN n i.
  Proof.
    assert (E := absorb_qr).
    apply (N.mul_le_mono_pos_l _ _ i); lia.
  Qed.

  Lemma t2_div : r * m / i = CN n i - q * m.
  Proof.
    assert (E := absorb_qr). assert (L := t1_le).
    assert (Hz : r * m = (CN n i - q * m) * i).
    { rewrite N.mul_sub_distr_r. lia. }
    rewrite Hz. apply N.div_mul. lia.
  Qed.

  Lemma t2_le : r * m <= CN n i.
  Proof.
    apply N.le_trans with ((i - 1) * m).
    - apply N.mul_le_mono_r. destruct c_divmod. lia.
    - apply rem_prod_bound; lia.
  Qed.

  Lemma guard_silent : (MAX64 / nk <? q) = false.
  Proof.
    apply N.ltb_ge. apply N.div_le_lower_bound; [lia|].
    assert (L := t1_le).
    assert (nk * q <= q * m).
    { rewrite (N.mul_comm q m). apply N.mul_le_mono_r. unfold m. lia. }
    assert (M := MAX64_succ). lia.
  Qed.

  Lemma step_exact md : n < M64 -> step md n nk (Run i c) = Run (i + 1) (CN n i).
  Proof.
    intros Hn.
    assert (L1 := t1_le). assert (L2 := t2_le). assert (D := t2_div).
    unfold step. fold q r. rewrite guard_silent.
    rewrite usub_fits by lia.
    unfold uadd, umul. fold m.
    rewrite (norm_fits md m) by (unfold m; lia).
    rewrite (norm_fits md (q * m)) by lia.
    rewrite (norm_fits md (r * m)) by lia.
    rewrite D.
    replace (q * m + (CN n i - q * m)) with (CN n i) by lia.
    rewrite norm_fits by assumption. reflexivity.
  Qed.
End Step.

(** ** the loop *)

Lemma loop_inv md n nk :
  2 * nk <= n -> n < M64 -> CN n nk < M64 ->
  forall j, j <= nk -> N.iter j (step md n nk) (Run 1 1) = Run (j + 1) (CN n j).
Proof.
  intros Hnk Hn Hfit.
  induction j as [|j IH] using N.peano_ind; intros Hj.
  - rewrite CN_0. reflexivity.
  - rewrite N.iter_succ, IH by lia.
    replace (CN n j) with (CN n (N.succ j - 1)) by (f_equal; lia).
    replace (j + 1) with (N.succ j) by lia.
    rewrite step_exact; try lia.
    + reflexivity.
    + apply N.le_lt_trans with (CN n nk); [apply CN_mono; lia|assumption].
Qed.

Lemma binom_coeff_unfold md n k :
  k <= n ->
  binom_coeff md n k =
  match N.iter (N.min k (n - k)) (step md n (N.min k (n - k))) (Run 1 1) with
  | Run _ c => Some c
  | Ret r => Some r
  | Trapped => None
  end.
Proof.
  intros H. unfold binom_coeff. rewrite usub_fits by assumption.
  destruct (N.ltb_spec (n - k) k).
  - rewrite N.min_r by lia. reflexivity.
  - rewrite N.min_l by lia. reflexivity.
Qed.

(** ** main results *)

Lemma binom_coeff_exact :
  forall (md : mode) (n k : N),
    k <= n -> n < M64 -> CN n k < M64 -> binom_coeff md n k = Some (CN n k).
Proof.
  intros md n k Hk Hn Hfit.
  rewrite binom_coeff_unfold by assumption.
  set (nk := N.min k (n - k)).
  assert (Hnk : 2 * nk <= n) by (unfold nk; lia).
  assert (HC : CN n nk = CN n k).
  { unfold nk. destruct (N.le_gt_cases k (n - k)).
    - rewrite N.min_l by assumption. reflexivity.
    - rewrite N.min_r by lia. apply CN_sym. assumption. }
  rewrite (loop_inv md n nk Hnk Hn) by (try rewrite HC; try assumption; apply N.le_refl).
  rewrite HC. reflexivity.
Qed.

(** the hypotheses of [binom_coeff_exact] are satisfiable at the largest central coefficient
    that fits: C(67,33) < 2^64 <= C(68,34) *)
Example binom_exact_ex :
  binom_coeff Wrap 67 33 = Some 14226520737620288370 /\
  binom_coeff Trap 67 33 = Some 14226520737620288370.
Proof. vm_compute; auto. Qed.

(** C(68,34) = 28453041475240576740 >= 2^64: the guard fires and both builds return 0 *)
Example binom_overflow_guard_ex :
  binom_coeff Wrap 68 34 = Some 0 /\ binom_coeff Trap 68 34 = Some 0.
Proof. vm_compute; auto. Qed.

(** C(2^33,2) = 2^32 * (2^33 - 1) >= 2^64: the guard does NOT fire ([c / i = 2^32 <= MAX / 2]);
    the debug build panics on the multiplication, the release build silently returns the
    wrapped value C(2^33,2) mod 2^64 *)
Example binom_overflow_unguarded_ex :
  binom_coeff Trap 8589934592 2 = None /\
  binom_coeff Wrap 8589934592 2 = Some 18446744069414584320.
Proof. vm_compute; auto. Qed.

Lemma binom_zero_only_if_overflow :
  forall md n k, k <= n -> n < M64 -> binom_coeff md n k = Some 0 -> M64 <= CN n k.
Proof.
  intros md n k Hk Hn H.
  destruct (N.le_gt_cases M64 (CN n k)) as [|Hfit]; [assumption|exfalso].
  rewrite (binom_coeff_exact md n k Hk Hn Hfit) in H.
  assert (P := CN_pos n k Hk). injection H as H. lia.
Qed.

Lemma binom_panic_only_if_overflow :
  forall n k, k <= n -> n < M64 -> binom_coeff Trap n k = None -> M64 <= CN n k.
Proof.
  intros n k Hk Hn H.
  destruct (N.le_gt_cases M64 (CN n k)) as [|Hfit]; [assumption|exfalso].
  rewrite (binom_coeff_exact Trap n k Hk Hn Hfit) in H. discriminate H.
Qed.

Lemma binom_rejects_k_gt_n_debug : forall n k, n < k -> binom_coeff Trap n k = None.
Proof.
  intros n k H. unfold binom_coeff, usub.
  replace (k <=? n) with false by (symmetry; apply N.leb_gt; assumption).
  reflexivity.
Qed.

(** unconditional (also when overflowing): both calls run the same loop, [nk = min(k, n-k)] *)
Lemma binom_coeff_symmetric :
  forall md n k, k <= n -> binom_coeff md n (n - k) = binom_coeff md n k.
Proof.
  intros md n k H.
  rewrite (binom_coeff_unfold md n k) by assumption.
  rewrite (binom_coeff_unfold md n (n - k)) by lia.
  replace (n - (n - k)) with k by lia.
  rewrite (N.min_comm (n - k) k). reflexivity.
Qed.

Lemma CN_le_pascal_l n k : CN n k <= CN (n + 1) (k + 1).
Proof. rewrite CN_pascal. lia. Qed.

Lemma CN_le_pascal_r n k : CN n (k + 1) <= CN (n + 1) (k + 1).
Proof. rewrite CN_pascal. lia. Qed.

Lemma binom_coeff_pascal :
  forall md n k a b,
    n + 1 < M64 -> k < n -> CN (n + 1) (k + 1) < M64 ->
    binom_coeff md n k = Some a -> binom_coeff md n (k + 1) = Some b ->
    binom_coeff md (n + 1) (k + 1) = Some (a + b).
Proof.
  intros md n k a b Hn Hk Hfit Ha Hb.
  assert (La := CN_le_pascal_l n k). assert (Lb := CN_le_pascal_r n k).
  rewrite binom_coeff_exact in Ha by lia.
  rewrite binom_coeff_exact in Hb by lia.
  injection Ha as <-. injection Hb as <-.
  rewrite binom_coeff_exact by lia.
  rewrite CN_pascal. f_equal. lia.
Qed.

(** stronger, per-iteration form: on the exact trajectory (state [Run i C(n,i-1)]), the
    early-return guard [c / i > u64::MAX / nk] can fire only if C(n,i) itself overflows *)
Lemma binom_guard_fires_only_if_overflow :
  forall n nk i,
    1 <= i -> i <= nk -> 2 * nk <= n ->
    (MAX64 / nk <? CN n (i - 1) / i) = true -> M64 <= CN n i.
Proof.
  intros n nk i H1 H2 H3 G.
  destruct (N.le_gt_cases M64 (CN n i)) as [|Hfit]; [assumption|exfalso].
  rewrite (guard_silent n nk i H1 H2 H3 Hfit) in G. discriminate G.
Qed.

(** and as a statement about [step] *)
Lemma binom_step_ret_only_if_overflow :
  forall md n nk i,
    1 <= i -> i <= nk -> 2 * nk <= n -> n < M64 ->
    step md n nk (Run i (CN n (i - 1))) <> Run (i + 1) (CN n i) -> M64 <= CN n i.
Proof.
  intros md n nk i H1 H2 H3 Hn G.
  destruct (N.le_gt_cases M64 (CN n i)) as [|Hfit]; [assumption|exfalso].
  apply G. apply step_exact; assumption.
Qed.

Print Assumptions binom_coeff_exact.
Print Assumptions binom_zero_only_if_overflow.
Print Assumptions binom_panic_only_if_overflow.
Print Assumptions binom_rejects_k_gt_n_debug.
Print Assumptions binom_coeff_symmetric.
Print Assumptions binom_coeff_pascal.
Print Assumptions binom_guard_fires_only_if_overflow.
