(** Proofs for C11 (extension), floating point, part 3: the perturbed-matrix form of the backward error of the
    triangular solves, and [cholesky_solve] as the composition of the two.

    A componentwise residual bound  |b_i - (T x)_i| <= g * Sigma_j |T_ij| |x_j|  is EQUIVALENT to the existence of a
    matrix T' with |T'_ij - T_ij| <= g |T_ij| and T' x = b (Oettli-Prager, row by row; T' is written down explicitly:
    T'_ij = T_ij (1 + (r_i / S_i) sign (T_ij x_j)), r_i the residual, S_i = Sigma_j |T_ij x_j|).  Since the bound is
    relative to |T_ij|, T' has the zero pattern of T: triangular when T is.  Hence the statements of this file:
    the computed solution of a triangular system is the EXACT solution of a triangular system whose matrix differs
    from the given one by at most (1+2^-53)^n - 1 relatively in every entry. *)
From Coq Require Import List Arith Bool ZArith Reals Lra Lia Floats.
From Flocq Require Import Core BinarySingleNaN PrimFloat.
From Compute Require Import Base.Ops Base.ListMat Model.Reduce Model.MatMul Model.Subst Model.Cholesky Spec.Vops Spec.Factor
  Proofs.C04Red Proofs.C04Err Proofs.C04ErrF Proofs.C04ErrDot Proofs.C04ErrNP Proofs.C05 Proofs.LinAlgBase Proofs.C11_Subst
  Proofs.C11_FloatBase Proofs.C11_FloatSubst.
Import ListNotations.
Local Open Scope R_scope.

(** ** residual bound <-> perturbed row *)
Definition sgn (v : R) : R := if Rle_dec 0 v then 1 else -1.
Lemma sgn_abs v : v * sgn v = Rabs v.
Proof. unfold sgn. destruct (Rle_dec 0 v); [rewrite Rabs_pos_eq by assumption|rewrite Rabs_left by lra]; ring. Qed.
Lemma abs_sgn v : Rabs (sgn v) = 1.
Proof. unfold sgn. destruct (Rle_dec 0 v); unfold Rabs; destruct (Rcase_abs _); lra. Qed.

Definition pert_row (Tr X : nat -> R) (bi : R) (n k : nat) : R :=
  let S := rsum (fun k => Rabs (Tr k) * Rabs (X k)) n in
  let r := bi - rsum (fun k => Tr k * X k) n in
  if Req_EM_T S 0 then Tr k else Tr k * (1 + r / S * sgn (Tr k * X k)).

Lemma pert_row_spec (Tr X : nat -> R) (bi g : R) (n : nat) :
  0 <= g ->
  Rabs (bi - rsum (fun k => Tr k * X k) n) <= g * rsum (fun k => Rabs (Tr k) * Rabs (X k)) n ->
  (forall k, Rabs (pert_row Tr X bi n k - Tr k) <= g * Rabs (Tr k)) /\
  rsum (fun k => pert_row Tr X bi n k * X k) n = bi.
Proof.
  intros Hg H. unfold pert_row.
  set (S := rsum (fun k => Rabs (Tr k) * Rabs (X k)) n) in *.
  set (r := bi - rsum (fun k => Tr k * X k) n) in *.
  assert (HS : 0 <= S) by apply rsum_abs_nonneg.
  destruct (Req_EM_T S 0) as [HS0|HS0].
  - rewrite HS0, Rmult_0_r in H.
    assert (Hr : r = 0). { destruct (Req_dec r 0) as [|Hne]; [assumption|]. pose proof (Rabs_pos_lt r Hne). lra. }
    split.
    + intros k. replace (Tr k - Tr k) with 0 by ring. rewrite Rabs_R0. apply Rmult_le_pos; [exact Hg|apply Rabs_pos].
    + unfold r in Hr. lra.
  - assert (HSp : 0 < S) by lra. split.
    + intros k. replace (Tr k * (1 + r / S * sgn (Tr k * X k)) - Tr k) with (Tr k * (r / S * sgn (Tr k * X k))) by ring.
      rewrite !Rabs_mult, abs_sgn, Rmult_1_r, Rmult_comm. apply Rmult_le_compat_r; [apply Rabs_pos|].
      unfold Rdiv. rewrite Rabs_mult, (Rabs_pos_eq (/ S)) by (left; apply Rinv_0_lt_compat; exact HSp).
      apply (Rmult_le_reg_r S); [exact HSp|]. rewrite Rmult_assoc, Rinv_l, Rmult_1_r by exact HS0. exact H.
    + rewrite (rsum_ext _ (fun k => Tr k * X k + r / S * (Rabs (Tr k) * Rabs (X k)))).
      2:{ intros k _. rewrite <- Rabs_mult, <- sgn_abs. ring. }
      rewrite rsum_plus, rsum_scal_l. fold S. unfold r. field. exact HS0.
Qed.

(** the converse (so the two forms are equivalent) *)
Lemma pert_row_converse (Tr Tr' X : nat -> R) (bi g : R) (n : nat) :
  (forall k, (k < n)%nat -> Rabs (Tr' k - Tr k) <= g * Rabs (Tr k)) ->
  rsum (fun k => Tr' k * X k) n = bi ->
  Rabs (bi - rsum (fun k => Tr k * X k) n) <= g * rsum (fun k => Rabs (Tr k) * Rabs (X k)) n.
Proof.
  intros Hb <-. rewrite <- rsum_minus, <- rsum_scal_l.
  induction n as [|n IH]; cbn [rsum]; [rewrite Rabs_R0; lra|].
  eapply Rle_trans; [apply Rabs_triang|]. apply Rplus_le_compat; [apply IH; intros k Hk; apply Hb; lia|].
  replace (Tr' n * X n - Tr n * X n) with ((Tr' n - Tr n) * X n) by ring.
  rewrite Rabs_mult, <- Rmult_assoc. apply Rmult_le_compat_r; [apply Rabs_pos|apply Hb; lia].
Qed.

(** a flat row-major array from its entries *)
Definition flat_of (n : nat) (f : nat -> nat -> R) : list R :=
  map (fun p => f (p / n)%nat (p mod n)%nat) (seq 0 (n * n)).
Lemma flat_of_length n f : length (flat_of n f) = (n * n)%nat.
Proof. unfold flat_of. rewrite map_length, seq_length. reflexivity. Qed.
Lemma getm_flat_of n f i j : (i < n)%nat -> (j < n)%nat -> getm (flat_of n f) n i j = f i j.
Proof.
  intros Hi Hj. unfold getm, flat_of. rewrite nth_map_seq by nia. cbn [Nat.add].
  rewrite Nat.div_add_l, Nat.div_small, Nat.add_0_r by lia.
  rewrite Nat.add_comm, Nat.mod_add, Nat.mod_small by lia. reflexivity.
Qed.

(** a triangular-part system with a componentwise residual bound is solved exactly by a nearby matrix of the same
    triangular shape *)
Lemma perturbed_matrix (P : nat -> nat -> R) (X B : list R) (g : R) (n : nat) :
  0 <= g ->
  (forall i, (i < n)%nat ->
     Rabs (nth i B 0 - rsum (fun k => P i k * nth k X 0) n) <= g * rsum (fun k => Rabs (P i k) * Rabs (nth k X 0)) n) ->
  exists T' : list R,
    length T' = (n * n)%nat /\
    (forall i j, (i < n)%nat -> (j < n)%nat -> Rabs (getm T' n i j - P i j) <= g * Rabs (P i j)) /\
    (forall i, (i < n)%nat -> mvec T' n X i = nth i B 0).
Proof.
  intros Hg H.
  exists (flat_of n (fun i k => pert_row (P i) (fun k => nth k X 0) (nth i B 0) n k)).
  split; [apply flat_of_length|]. split.
  - intros i j Hi Hj. rewrite getm_flat_of by assumption.
    apply (pert_row_spec (P i) (fun k => nth k X 0) (nth i B 0) g n Hg (H i Hi)).
  - intros i Hi. unfold mvec.
    rewrite (rsum_ext _ (fun k => pert_row (P i) (fun k => nth k X 0) (nth i B 0) n k * nth k X 0)).
    + apply (pert_row_spec (P i) (fun k => nth k X 0) (nth i B 0) g n Hg (H i Hi)).
    + intros k Hk. rewrite getm_flat_of by assumption. reflexivity.
Qed.

Lemma bound_zero (a g : R) : Rabs (a - 0) <= g * Rabs 0 -> a = 0.
Proof.
  rewrite Rabs_R0, Rmult_0_r, Rminus_0_r. intros H.
  destruct (Req_dec a 0) as [|Hne]; [assumption|]. pose proof (Rabs_pos_lt a Hne). lra.
Qed.

Lemma gamma_nonneg n : 0 <= (1 + / 2 ^ 53) ^ n - 1.
Proof. rewrite <- u64_val. apply (E_nonneg u64 u64_nonneg). Qed.

Lemma lower_part_triangular T n i j :
  lower_triangular T n -> (i < n)%nat -> (j < n)%nat -> lower_part T n i j = getm T n i j.
Proof. intros Ht Hi Hj. unfold lower_part. destruct (Nat.leb_spec j i); [reflexivity|]. symmetry. apply Ht; lia. Qed.
Lemma upper_part_triangular T n i j :
  upper_triangular T n -> (i < n)%nat -> (j < n)%nat -> upper_part T n i j = getm T n i j.
Proof. intros Ht Hi Hj. unfold upper_part. destruct (Nat.leb_spec i j); [reflexivity|]. symmetry. apply Ht; lia. Qed.

(** ** the explicit statements (those pinned in Properties/C11.v) *)
Lemma forward_substitution_backward_error (tbl : libm_table) (l b x : list pfloat) (n : nat) :
  forward_substitution (FO tbl) l b = Some x -> (n * n)%nat = length l ->
  (forall i, (i < n)%nat -> finite (nth (i * n + i) l 0%float) /\ B2Rf (nth (i * n + i) l 0%float) <> 0) ->
  Forall finite x ->
  (forall i j, (i < n)%nat -> (j < i)%nat ->
     B2Rf (nth (i * n + j) l 0%float) * B2Rf (nth j x 0%float) = 0 \/
     / 2 ^ 1022 <= Rabs (B2Rf (nth (i * n + j) l 0%float) * B2Rf (nth j x 0%float))) ->
  (forall i, (i < n)%nat ->
     let s := (nth i b 0 - dot_raw (FO tbl) (firstn i (skipn (i * n) l)) (firstn i x))%float in
     B2Rf s / B2Rf (nth (i * n + i) l 0%float) = 0 \/ / 2 ^ 1022 <= Rabs (B2Rf s / B2Rf (nth (i * n + i) l 0%float))) ->
  let T := map B2Rf l in let B := map B2Rf b in let X := map B2Rf x in
  let gamma := (1 + / 2 ^ 53) ^ n - 1 in
  Forall finite b /\
  (forall i, (i < n)%nat ->
     Rabs (nth i B 0 - rsum (fun k => lower_part T n i k * nth k X 0) n)
     <= gamma * rsum (fun k => Rabs (lower_part T n i k) * Rabs (nth k X 0)) n) /\
  exists T' : list R,
    length T' = (n * n)%nat /\ lower_triangular T' n /\
    (forall i j, (i < n)%nat -> (j < n)%nat ->
       Rabs (getm T' n i j - lower_part T n i j) <= gamma * Rabs (lower_part T n i j)) /\
    (forall i, (i < n)%nat -> mvec T' n X i = nth i B 0).
Proof.
  intros Hrun Hn Hdiag Hfin Hprod Hquot T B X gamma.
  assert (Hd : forall i, (i < n)%nat -> B2Rf (nth (i * n + i) l 0%float) <> 0) by (intros i Hi; apply Hdiag; exact Hi).
  assert (Hp : forall i j, (i < n)%nat -> (j < i)%nat ->
            no_underflow (B2Rf (nth (i * n + j) l 0%float) * B2Rf (nth j x 0%float))).
  { intros i j Hi Hj. apply no_underflow_explicit. apply Hprod; assumption. }
  assert (Hq : forall i, (i < n)%nat ->
            no_underflow (B2Rf (nth i b 0 - dot_raw (FO tbl) (firstn i (skipn (i * n) l)) (firstn i x))%float
                          / B2Rf (nth (i * n + i) l 0%float))).
  { intros i Hi. apply no_underflow_explicit. apply (Hquot i Hi). }
  assert (Hres := fwd_F_residual tbl l b x n Hrun Hn Hd Hfin Hp Hq).
  split; [apply (fwd_F_rhs_finite tbl l b x n Hrun Hn Hd Hfin Hp Hq)|]. split; [exact Hres|].
  destruct (perturbed_matrix (lower_part T n) X B gamma n (gamma_nonneg n) Hres) as (T' & Hlen & Hb & Hs).
  exists T'. split; [exact Hlen|]. split; [|split; assumption].
  intros i j Hi Hj Hij. specialize (Hb i j Hi Hj). unfold lower_part in Hb.
  destruct (Nat.leb_spec j i); [lia|]. apply (bound_zero _ gamma Hb).
Qed.

Lemma backward_substitution_backward_error (tbl : libm_table) (u b x : list pfloat) (n : nat) :
  backward_substitution (FO tbl) u b = Some x -> (n * n)%nat = length u ->
  (forall i, (i < n)%nat -> finite (nth (i * n + i) u 0%float) /\ B2Rf (nth (i * n + i) u 0%float) <> 0) ->
  Forall finite x ->
  (forall i j, (i < j)%nat -> (j < n)%nat ->
     B2Rf (nth (i * n + j) u 0%float) * B2Rf (nth j x 0%float) = 0 \/
     / 2 ^ 1022 <= Rabs (B2Rf (nth (i * n + j) u 0%float) * B2Rf (nth j x 0%float))) ->
  (forall i, (i < n)%nat ->
     let s := (nth i b 0 - dot_raw (FO tbl) (firstn (n - S i) (skipn (i * n + S i) u)) (skipn (S i) x))%float in
     B2Rf s / B2Rf (nth (i * n + i) u 0%float) = 0 \/ / 2 ^ 1022 <= Rabs (B2Rf s / B2Rf (nth (i * n + i) u 0%float))) ->
  let T := map B2Rf u in let B := map B2Rf b in let X := map B2Rf x in
  let gamma := (1 + / 2 ^ 53) ^ n - 1 in
  Forall finite b /\
  (forall i, (i < n)%nat ->
     Rabs (nth i B 0 - rsum (fun k => upper_part T n i k * nth k X 0) n)
     <= gamma * rsum (fun k => Rabs (upper_part T n i k) * Rabs (nth k X 0)) n) /\
  exists T' : list R,
    length T' = (n * n)%nat /\ upper_triangular T' n /\
    (forall i j, (i < n)%nat -> (j < n)%nat ->
       Rabs (getm T' n i j - upper_part T n i j) <= gamma * Rabs (upper_part T n i j)) /\
    (forall i, (i < n)%nat -> mvec T' n X i = nth i B 0).
Proof.
  intros Hrun Hn Hdiag Hfin Hprod Hquot T B X gamma.
  assert (Hd : forall i, (i < n)%nat -> B2Rf (nth (i * n + i) u 0%float) <> 0) by (intros i Hi; apply Hdiag; exact Hi).
  assert (Hp : forall i j, (i < j)%nat -> (j < n)%nat ->
            no_underflow (B2Rf (nth (i * n + j) u 0%float) * B2Rf (nth j x 0%float))).
  { intros i j Hi Hj. apply no_underflow_explicit. apply Hprod; assumption. }
  assert (Hq : forall i, (i < n)%nat ->
            no_underflow (B2Rf (nth i b 0 - dot_raw (FO tbl) (firstn (n - S i) (skipn (i * n + S i) u)) (skipn (S i) x))%float
                          / B2Rf (nth (i * n + i) u 0%float))).
  { intros i Hi. apply no_underflow_explicit. apply (Hquot i Hi). }
  assert (Hres := bwd_F_residual tbl u b x n Hrun Hn Hd Hfin Hp Hq).
  split; [apply (bwd_F_rhs_finite tbl u b x n Hrun Hn Hd Hfin Hp Hq)|]. split; [exact Hres|].
  destruct (perturbed_matrix (upper_part T n) X B gamma n (gamma_nonneg n) Hres) as (T' & Hlen & Hb & Hs).
  exists T'. split; [exact Hlen|]. split; [|split; assumption].
  intros i j Hi Hj Hij. specialize (Hb i j Hi Hj). unfold upper_part in Hb.
  destruct (Nat.leb_spec i j); [lia|]. apply (bound_zero _ gamma Hb).
Qed.

(** for a matrix that IS triangular (as real values) the statements read with the matrix itself *)
Lemma forward_substitution_backward_error_triangular (tbl : libm_table) (l b x : list pfloat) (n : nat) :
  forward_substitution (FO tbl) l b = Some x -> (n * n)%nat = length l ->
  lower_triangular (map B2Rf l) n ->
  (forall i, (i < n)%nat -> finite (nth (i * n + i) l 0%float) /\ B2Rf (nth (i * n + i) l 0%float) <> 0) ->
  Forall finite x ->
  (forall i j, (i < n)%nat -> (j < i)%nat ->
     B2Rf (nth (i * n + j) l 0%float) * B2Rf (nth j x 0%float) = 0 \/
     / 2 ^ 1022 <= Rabs (B2Rf (nth (i * n + j) l 0%float) * B2Rf (nth j x 0%float))) ->
  (forall i, (i < n)%nat ->
     let s := (nth i b 0 - dot_raw (FO tbl) (firstn i (skipn (i * n) l)) (firstn i x))%float in
     B2Rf s / B2Rf (nth (i * n + i) l 0%float) = 0 \/ / 2 ^ 1022 <= Rabs (B2Rf s / B2Rf (nth (i * n + i) l 0%float))) ->
  let T := map B2Rf l in let B := map B2Rf b in let X := map B2Rf x in
  let gamma := (1 + / 2 ^ 53) ^ n - 1 in
  (forall i, (i < n)%nat ->
     Rabs (nth i B 0 - mvec T n X i) <= gamma * rsum (fun k => Rabs (getm T n i k) * Rabs (nth k X 0)) n) /\
  exists T' : list R,
    length T' = (n * n)%nat /\ lower_triangular T' n /\
    (forall i j, (i < n)%nat -> (j < n)%nat -> Rabs (getm T' n i j - getm T n i j) <= gamma * Rabs (getm T n i j)) /\
    (forall i, (i < n)%nat -> mvec T' n X i = nth i B 0).
Proof.
  intros Hrun Hn Htri Hdiag Hfin Hprod Hquot T B X gamma. change (lower_triangular T n) in Htri.
  destruct (forward_substitution_backward_error tbl l b x n Hrun Hn Hdiag Hfin Hprod Hquot)
    as (_ & Hres & T' & Hlen & Hlow & Hb & Hs).
  split.
  - intros i Hi. specialize (Hres i Hi). unfold mvec.
    rewrite (rsum_ext (fun k => getm T n i k * nth k X 0) (fun k => lower_part T n i k * nth k X 0))
      by (intros k Hk; rewrite (lower_part_triangular _ _ _ _ Htri Hi Hk); reflexivity).
    rewrite (rsum_ext (fun k => Rabs (getm T n i k) * Rabs (nth k X 0)) (fun k => Rabs (lower_part T n i k) * Rabs (nth k X 0)))
      by (intros k Hk; rewrite (lower_part_triangular _ _ _ _ Htri Hi Hk); reflexivity).
    exact Hres.
  - exists T'. split; [exact Hlen|]. split; [exact Hlow|]. split; [|exact Hs].
    intros i j Hi Hj. rewrite <- (lower_part_triangular _ _ _ _ Htri Hi Hj). apply Hb; assumption.
Qed.

Lemma backward_substitution_backward_error_triangular (tbl : libm_table) (u b x : list pfloat) (n : nat) :
  backward_substitution (FO tbl) u b = Some x -> (n * n)%nat = length u ->
  upper_triangular (map B2Rf u) n ->
  (forall i, (i < n)%nat -> finite (nth (i * n + i) u 0%float) /\ B2Rf (nth (i * n + i) u 0%float) <> 0) ->
  Forall finite x ->
  (forall i j, (i < j)%nat -> (j < n)%nat ->
     B2Rf (nth (i * n + j) u 0%float) * B2Rf (nth j x 0%float) = 0 \/
     / 2 ^ 1022 <= Rabs (B2Rf (nth (i * n + j) u 0%float) * B2Rf (nth j x 0%float))) ->
  (forall i, (i < n)%nat ->
     let s := (nth i b 0 - dot_raw (FO tbl) (firstn (n - S i) (skipn (i * n + S i) u)) (skipn (S i) x))%float in
     B2Rf s / B2Rf (nth (i * n + i) u 0%float) = 0 \/ / 2 ^ 1022 <= Rabs (B2Rf s / B2Rf (nth (i * n + i) u 0%float))) ->
  let T := map B2Rf u in let B := map B2Rf b in let X := map B2Rf x in
  let gamma := (1 + / 2 ^ 53) ^ n - 1 in
  (forall i, (i < n)%nat ->
     Rabs (nth i B 0 - mvec T n X i) <= gamma * rsum (fun k => Rabs (getm T n i k) * Rabs (nth k X 0)) n) /\
  exists T' : list R,
    length T' = (n * n)%nat /\ upper_triangular T' n /\
    (forall i j, (i < n)%nat -> (j < n)%nat -> Rabs (getm T' n i j - getm T n i j) <= gamma * Rabs (getm T n i j)) /\
    (forall i, (i < n)%nat -> mvec T' n X i = nth i B 0).
Proof.
  intros Hrun Hn Htri Hdiag Hfin Hprod Hquot T B X gamma. change (upper_triangular T n) in Htri.
  destruct (backward_substitution_backward_error tbl u b x n Hrun Hn Hdiag Hfin Hprod Hquot)
    as (_ & Hres & T' & Hlen & Hlow & Hb & Hs).
  split.
  - intros i Hi. specialize (Hres i Hi). unfold mvec.
    rewrite (rsum_ext (fun k => getm T n i k * nth k X 0) (fun k => upper_part T n i k * nth k X 0))
      by (intros k Hk; rewrite (upper_part_triangular _ _ _ _ Htri Hi Hk); reflexivity).
    rewrite (rsum_ext (fun k => Rabs (getm T n i k) * Rabs (nth k X 0)) (fun k => Rabs (upper_part T n i k) * Rabs (nth k X 0)))
      by (intros k Hk; rewrite (upper_part_triangular _ _ _ _ Htri Hi Hk); reflexivity).
    exact Hres.
  - exists T'. split; [exact Hlen|]. split; [exact Hlow|]. split; [|exact Hs].
    intros i j Hi Hj. rewrite <- (upper_part_triangular _ _ _ _ Htri Hi Hj). apply Hb; assumption.
Qed.

(** ** [cholesky_solve]: forward solve with L, transpose, backward solve with L^T — two perturbed factors *)
Lemma cholesky_solve_backward_error (tbl : libm_table) (l b y lt x : list pfloat) (n : nat) :
  cholesky_solve (FO tbl) l b = Some x -> (n * n)%nat = length l ->
  forward_substitution (FO tbl) l b = Some y -> transpose (FO tbl) l n = Some lt ->
  (forall i, (i < n)%nat -> finite (nth (i * n + i) l 0%float) /\ B2Rf (nth (i * n + i) l 0%float) <> 0) ->
  Forall finite y -> Forall finite x ->
  (* forward solve L y = b *)
  (forall i j, (i < n)%nat -> (j < i)%nat ->
     B2Rf (nth (i * n + j) l 0%float) * B2Rf (nth j y 0%float) = 0 \/
     / 2 ^ 1022 <= Rabs (B2Rf (nth (i * n + j) l 0%float) * B2Rf (nth j y 0%float))) ->
  (forall i, (i < n)%nat ->
     let s := (nth i b 0 - dot_raw (FO tbl) (firstn i (skipn (i * n) l)) (firstn i y))%float in
     B2Rf s / B2Rf (nth (i * n + i) l 0%float) = 0 \/ / 2 ^ 1022 <= Rabs (B2Rf s / B2Rf (nth (i * n + i) l 0%float))) ->
  (* backward solve L^T x = y (entry (i,j) of L^T is l[j*n+i]) *)
  (forall i j, (i < j)%nat -> (j < n)%nat ->
     B2Rf (nth (j * n + i) l 0%float) * B2Rf (nth j x 0%float) = 0 \/
     / 2 ^ 1022 <= Rabs (B2Rf (nth (j * n + i) l 0%float) * B2Rf (nth j x 0%float))) ->
  (forall i, (i < n)%nat ->
     let s := (nth i y 0 - dot_raw (FO tbl) (firstn (n - S i) (skipn (i * n + S i) lt)) (skipn (S i) x))%float in
     B2Rf s / B2Rf (nth (i * n + i) l 0%float) = 0 \/ / 2 ^ 1022 <= Rabs (B2Rf s / B2Rf (nth (i * n + i) l 0%float))) ->
  let T := map B2Rf l in let B := map B2Rf b in let Y := map B2Rf y in let X := map B2Rf x in
  let gamma := (1 + / 2 ^ 53) ^ n - 1 in
  exists T1 T2 : list R,
    length T1 = (n * n)%nat /\ length T2 = (n * n)%nat /\ lower_triangular T1 n /\ upper_triangular T2 n /\
    (forall i j, (i < n)%nat -> (j < n)%nat ->
       Rabs (getm T1 n i j - lower_part T n i j) <= gamma * Rabs (lower_part T n i j)) /\
    (forall i j, (i < n)%nat -> (j < n)%nat ->
       Rabs (getm T2 n i j - lower_part T n j i) <= gamma * Rabs (lower_part T n j i)) /\
    (forall i, (i < n)%nat -> mvec T1 n Y i = nth i B 0) /\
    (forall i, (i < n)%nat -> mvec T2 n X i = nth i Y 0) /\
    (forall i, (i < n)%nat -> rsum (fun k => getm T1 n i k * mvec T2 n X k) n = nth i B 0).
Proof.
  intros Hrun Hn Hfw Htr Hdiag Hfy Hfx Hp1 Hq1 Hp2 Hq2 T B Y X gamma.
  assert (Hn0 : (0 < n)%nat).
  { destruct n; [|lia]. unfold transpose in Htr. destruct (length l); discriminate Htr. }
  destruct (transpose_spec (FO tbl) l n n Hn0 (eq_sym Hn)) as (t & Ht & Htl & Hte).
  rewrite Htr in Ht. injection Ht as <-. cbn [zero FO] in Hte.
  unfold cholesky_solve in Hrun. rewrite <- Hn, is_square_sq in Hrun. cbn [bind] in Hrun.
  destruct (forward_recurrence (FO tbl) l b y n Hfw Hn) as (Hbl & Hyl & _).
  rewrite Hbl, Nat.eqb_refl in Hrun. cbn [guard bind] in Hrun. rewrite Hfw in Hrun. cbn [bind] in Hrun.
  rewrite Htr in Hrun. cbn [bind] in Hrun.
  destruct (forward_substitution_backward_error tbl l b y n Hfw Hn Hdiag Hfy Hp1 Hq1)
    as (_ & _ & T1 & Hl1 & Hlow1 & Hb1 & Hs1).
  destruct (backward_substitution_backward_error tbl lt y x n Hrun (eq_sym Htl)) as (_ & _ & T2 & Hl2 & Hup2 & Hb2 & Hs2).
  - intros i Hi. rewrite (Hte i i Hi Hi). apply Hdiag; exact Hi.
  - exact Hfx.
  - intros i j Hi Hj. rewrite (Hte i j) by lia. apply Hp2; assumption.
  - intros i Hi. rewrite (Hte i i Hi Hi). apply (Hq2 i Hi).
  - exists T1, T2. repeat (split; [assumption|]).
    assert (Hup : forall i j, (i < n)%nat -> (j < n)%nat -> upper_part (map B2Rf lt) n i j = lower_part T n j i).
    { intros i j Hi Hj. unfold upper_part, lower_part, getm, T. rewrite !nth_map_B2Rf, (Hte i j Hi Hj). reflexivity. }
    split.
    { intros i j Hi Hj. rewrite <- (Hup i j Hi Hj). apply Hb2; assumption. }
    split; [exact Hs1|]. split; [exact Hs2|].
    intros i Hi. transitivity (mvec T1 n Y i); [|apply Hs1; exact Hi].
    unfold mvec at 2. apply rsum_ext. intros k Hk. f_equal. apply Hs2. exact Hk.
Qed.

(** ** side conditions on COMPUTED values only: every computed component x_i strictly above 2^-1022 in magnitude,
    every computed product fl(t_ij x_j) finite and strictly above 2^-1022 unless t_ij is a (structural) zero *)
Lemma forward_conditions_from_computed (tbl : libm_table) (l b x : list pfloat) (n : nat) :
  forward_substitution (FO tbl) l b = Some x -> (n * n)%nat = length l ->
  (forall i, (i < n)%nat -> finite (nth (i * n + i) l 0%float) /\ B2Rf (nth (i * n + i) l 0%float) <> 0) ->
  (forall i, (i < n)%nat -> finite (nth i x 0%float) /\ / 2 ^ 1022 < Rabs (B2Rf (nth i x 0%float))) ->
  (forall i j, (i < n)%nat -> (j < i)%nat ->
     B2Rf (nth (i * n + j) l 0%float) = 0 \/
     finite (nth (i * n + j) l 0 * nth j x 0)%float /\ / 2 ^ 1022 < Rabs (B2Rf (nth (i * n + j) l 0 * nth j x 0)%float)) ->
  Forall finite x /\
  (forall i j, (i < n)%nat -> (j < i)%nat ->
     B2Rf (nth (i * n + j) l 0%float) * B2Rf (nth j x 0%float) = 0 \/
     / 2 ^ 1022 <= Rabs (B2Rf (nth (i * n + j) l 0%float) * B2Rf (nth j x 0%float))) /\
  (forall i, (i < n)%nat ->
     let s := (nth i b 0 - dot_raw (FO tbl) (firstn i (skipn (i * n) l)) (firstn i x))%float in
     B2Rf s / B2Rf (nth (i * n + i) l 0%float) = 0 \/ / 2 ^ 1022 <= Rabs (B2Rf s / B2Rf (nth (i * n + i) l 0%float))).
Proof.
  intros Hrun Hn Hdiag Hx Hp.
  destruct (forward_recurrence (FO tbl) l b x n Hrun Hn) as (_ & Hxl & Hrec). cbn [zero div sub FO] in Hrec.
  split; [|split].
  - apply Forall_forall. intros f Hf. destruct (In_nth x f 0%float Hf) as (i & Hi & <-). apply Hx. lia.
  - intros i j Hi Hj. destruct (Hp i j Hi Hj) as [H0|[Hf Hnm]]; [left; rewrite H0; ring|].
    apply computed_normal_no_underflow; assumption.
  - intros i Hi s. destruct (Hx i Hi) as [Hf Hnm]. rewrite (Hrec i Hi) in Hf, Hnm.
    apply computed_normal_quotient; [apply Hdiag; exact Hi|exact Hf|exact Hnm].
Qed.

Lemma backward_conditions_from_computed (tbl : libm_table) (u b x : list pfloat) (n : nat) :
  backward_substitution (FO tbl) u b = Some x -> (n * n)%nat = length u ->
  (forall i, (i < n)%nat -> finite (nth (i * n + i) u 0%float) /\ B2Rf (nth (i * n + i) u 0%float) <> 0) ->
  (forall i, (i < n)%nat -> finite (nth i x 0%float) /\ / 2 ^ 1022 < Rabs (B2Rf (nth i x 0%float))) ->
  (forall i j, (i < j)%nat -> (j < n)%nat ->
     B2Rf (nth (i * n + j) u 0%float) = 0 \/
     finite (nth (i * n + j) u 0 * nth j x 0)%float /\ / 2 ^ 1022 < Rabs (B2Rf (nth (i * n + j) u 0 * nth j x 0)%float)) ->
  Forall finite x /\
  (forall i j, (i < j)%nat -> (j < n)%nat ->
     B2Rf (nth (i * n + j) u 0%float) * B2Rf (nth j x 0%float) = 0 \/
     / 2 ^ 1022 <= Rabs (B2Rf (nth (i * n + j) u 0%float) * B2Rf (nth j x 0%float))) /\
  (forall i, (i < n)%nat ->
     let s := (nth i b 0 - dot_raw (FO tbl) (firstn (n - S i) (skipn (i * n + S i) u)) (skipn (S i) x))%float in
     B2Rf s / B2Rf (nth (i * n + i) u 0%float) = 0 \/ / 2 ^ 1022 <= Rabs (B2Rf s / B2Rf (nth (i * n + i) u 0%float))).
Proof.
  intros Hrun Hn Hdiag Hx Hp.
  destruct (backward_recurrence (FO tbl) u b x n Hrun Hn) as (_ & Hxl & Hrec). cbn [zero div sub FO] in Hrec.
  split; [|split].
  - apply Forall_forall. intros f Hf. destruct (In_nth x f 0%float Hf) as (i & Hi & <-). apply Hx. lia.
  - intros i j Hi Hj. destruct (Hp i j Hi Hj) as [H0|[Hf Hnm]]; [left; rewrite H0; ring|].
    apply computed_normal_no_underflow; assumption.
  - intros i Hi s. destruct (Hx i Hi) as [Hf Hnm]. rewrite (Hrec i Hi) in Hf, Hnm.
    apply computed_normal_quotient; [apply Hdiag; exact Hi|exact Hf|exact Hnm].
Qed.

(** ** the equivalence of the two forms, and the row-wise constants with the side conditions written out *)
Lemma residual_iff_perturbed_row (Tr X : nat -> R) (bi g : R) (n : nat) :
  0 <= g ->
  (Rabs (bi - rsum (fun k => Tr k * X k) n) <= g * rsum (fun k => Rabs (Tr k) * Rabs (X k)) n
   <-> exists Tr' : nat -> R,
         (forall k, (k < n)%nat -> Rabs (Tr' k - Tr k) <= g * Rabs (Tr k)) /\ rsum (fun k => Tr' k * X k) n = bi).
Proof.
  intros Hg. split.
  - intros H. exists (pert_row Tr X bi n). destruct (pert_row_spec Tr X bi g n Hg H) as [Hb Hs].
    split; [intros k _; apply Hb|exact Hs].
  - intros (Tr' & Hb & Hs). apply (pert_row_converse Tr Tr' X bi g n Hb Hs).
Qed.

Lemma forward_rowwise (tbl : libm_table) (l b x : list pfloat) (n : nat) :
  forward_substitution (FO tbl) l b = Some x -> (n * n)%nat = length l ->
  (forall i, (i < n)%nat -> B2Rf (nth (i * n + i) l 0%float) <> 0) ->
  Forall finite x ->
  (forall i j, (i < n)%nat -> (j < i)%nat ->
     B2Rf (nth (i * n + j) l 0%float) * B2Rf (nth j x 0%float) = 0 \/
     / 2 ^ 1022 <= Rabs (B2Rf (nth (i * n + j) l 0%float) * B2Rf (nth j x 0%float))) ->
  (forall i, (i < n)%nat ->
     let s := (nth i b 0 - dot_raw (FO tbl) (firstn i (skipn (i * n) l)) (firstn i x))%float in
     B2Rf s / B2Rf (nth (i * n + i) l 0%float) = 0 \/ / 2 ^ 1022 <= Rabs (B2Rf s / B2Rf (nth (i * n + i) l 0%float))) ->
  forall i, (i < n)%nat ->
    Rabs (nth i (map B2Rf b) 0 - rsum (fun k => lower_part (map B2Rf l) n i k * nth k (map B2Rf x) 0) n)
    <= ((1 + / 2 ^ 53) ^ S i - 1)
       * rsum (fun k => Rabs (lower_part (map B2Rf l) n i k) * Rabs (nth k (map B2Rf x) 0)) n.
Proof.
  intros Hrun Hn Hd Hfin Hprod Hquot i Hi. rewrite <- u64_val.
  apply (fwd_F_row tbl l b x n Hrun Hn Hd Hfin); [| |exact Hi].
  - intros i' j Hi' Hj. apply no_underflow_explicit. apply Hprod; assumption.
  - intros i' Hi'. apply no_underflow_explicit. apply (Hquot i' Hi').
Qed.

Lemma backward_rowwise (tbl : libm_table) (u b x : list pfloat) (n : nat) :
  backward_substitution (FO tbl) u b = Some x -> (n * n)%nat = length u ->
  (forall i, (i < n)%nat -> B2Rf (nth (i * n + i) u 0%float) <> 0) ->
  Forall finite x ->
  (forall i j, (i < j)%nat -> (j < n)%nat ->
     B2Rf (nth (i * n + j) u 0%float) * B2Rf (nth j x 0%float) = 0 \/
     / 2 ^ 1022 <= Rabs (B2Rf (nth (i * n + j) u 0%float) * B2Rf (nth j x 0%float))) ->
  (forall i, (i < n)%nat ->
     let s := (nth i b 0 - dot_raw (FO tbl) (firstn (n - S i) (skipn (i * n + S i) u)) (skipn (S i) x))%float in
     B2Rf s / B2Rf (nth (i * n + i) u 0%float) = 0 \/ / 2 ^ 1022 <= Rabs (B2Rf s / B2Rf (nth (i * n + i) u 0%float))) ->
  forall i, (i < n)%nat ->
    Rabs (nth i (map B2Rf b) 0 - rsum (fun k => upper_part (map B2Rf u) n i k * nth k (map B2Rf x) 0) n)
    <= ((1 + / 2 ^ 53) ^ (n - i) - 1)
       * rsum (fun k => Rabs (upper_part (map B2Rf u) n i k) * Rabs (nth k (map B2Rf x) 0)) n.
Proof.
  intros Hrun Hn Hd Hfin Hprod Hquot i Hi. rewrite <- u64_val.
  apply (bwd_F_row tbl u b x n Hrun Hn Hd Hfin); [| |exact Hi].
  - intros i' j Hi' Hj. apply no_underflow_explicit. apply Hprod; assumption.
  - intros i' Hi'. apply no_underflow_explicit. apply (Hquot i' Hi').
Qed.
