(** Proofs for C01, part 4: the routing predicates in exact arithmetic (relative symmetry tolerance,
    positive diagonal) and what they imply for the hypotheses of the solver theorems. *)
From Coq Require Import List Arith Bool Lia Reals Lra.
From Compute Require Import Base.Ops Base.ListMat Model.Reduce Model.MatMul Model.Subst Model.Cholesky Model.Solve
  Spec.Factor Spec.Solve Proofs.C05 Proofs.LinAlgBase Proofs.C11_Subst Proofs.C11_Chol Proofs.C01_Layout.
Import ListNotations.
Local Open Scope R_scope.

Lemma fmax_RO x y : fmax RO x y = Rmax x y.
Proof.
  unfold fmax, is_nan. cbn [eqb RO ltb].
  rewrite (proj2 (Reqb_true x x) eq_refl), (proj2 (Reqb_true y y) eq_refl). cbn [negb].
  unfold Rmax. destruct (Rle_dec x y) as [H|H].
  - destruct (Rltb x y) eqn:E; auto. apply Rltb_false in E. lra.
  - destruct (Rltb x y) eqn:E; auto. apply Rltb_true in E. lra.
Qed.

(** the tolerance of the repaired [is_symmetric]: |x - y| <= eps . max(|x|, |y|) *)
Definition sym_tol (x y : R) : R := eps RO * Rmax (Rabs x) (Rabs y).

Lemma sym_tol_nonneg x y : 0 <= sym_tol x y.
Proof.
  unfold sym_tol. apply Rmult_le_pos; [pose proof eps_pos; lra|].
  apply Rle_trans with (Rabs x); [apply Rabs_pos | apply Rmax_l].
Qed.

Lemma sym_entry_ok_R x y : sym_entry_ok RO x y = true <-> Rabs (x - y) <= sym_tol x y.
Proof.
  unfold sym_entry_ok, sym_tol. rewrite fmax_RO. cbn [ltb mul abs sub RO].
  rewrite negb_true_iff. apply Rltb_false.
Qed.

Lemma is_symmetric_rel_rows_true M n :
  is_symmetric_rel_rows RO M n = true <->
  forall i j, (i <= j)%nat -> (j < n)%nat -> Rabs (ent 0 M i j - ent 0 M j i) <= sym_tol (ent 0 M i j) (ent 0 M j i).
Proof.
  unfold is_symmetric_rel_rows. split.
  - intros H i j Hij Hj. rewrite forallb_forall in H. specialize (H i ltac:(apply in_seq; lia)).
    rewrite forallb_forall in H. specialize (H j ltac:(apply in_seq; lia)).
    apply sym_entry_ok_R. exact H.
  - intros H. apply forallb_forall. intros i Hi. apply in_seq in Hi.
    apply forallb_forall. intros j Hj. apply in_seq in Hj.
    apply sym_entry_ok_R. apply H; lia.
Qed.

Lemma is_symmetric_rel_rows_exact M n :
  (forall i j, (i < n)%nat -> (j < n)%nat -> ent 0 M i j = ent 0 M j i) -> is_symmetric_rel_rows RO M n = true.
Proof.
  intros H. apply is_symmetric_rel_rows_true. intros i j Hij Hj. rewrite (H i j) by lia.
  replace (ent 0 M j i - ent 0 M j i) with 0 by lra. rewrite Rabs_R0. apply sym_tol_nonneg.
Qed.

Lemma sym_tol_sym x y : sym_tol x y = sym_tol y x.
Proof. unfold sym_tol. rewrite Rmax_comm. reflexivity. Qed.

Lemma is_symmetric_rel_rows_far M n i j :
  (i < n)%nat -> (j < n)%nat -> sym_tol (ent 0 M i j) (ent 0 M j i) < Rabs (ent 0 M i j - ent 0 M j i) ->
  is_symmetric_rel_rows RO M n = false.
Proof.
  intros Hi Hj Hfar. destruct (is_symmetric_rel_rows RO M n) eqn:E; auto. exfalso.
  rewrite is_symmetric_rel_rows_true in E.
  destruct (Nat.le_gt_cases i j) as [Hij|Hij].
  - specialize (E i j Hij Hj). lra.
  - specialize (E j i ltac:(lia) Hi). rewrite Rabs_minus_sym, sym_tol_sym in E. lra.
Qed.

Lemma diag_positive_rows_true M n :
  diag_positive_rows RO M n = true <-> forall i, (i < n)%nat -> 0 < ent 0 M i i.
Proof.
  unfold diag_positive_rows. split.
  - intros H i Hi. rewrite forallb_forall in H. specialize (H i ltac:(apply in_seq; lia)).
    cbn [leb zero RO] in H. apply negb_true_iff, Rleb_false in H. exact H.
  - intros H. apply forallb_forall. intros i Hi. apply in_seq in Hi.
    cbn [leb zero RO]. apply negb_true_iff, Rleb_false. apply H. lia.
Qed.

(** *** flat level *)
Lemma pd_pred_far a n i j :
  (n * n)%nat = length a -> (i < n)%nat -> (j < n)%nat ->
  sym_tol (getm a n i j) (getm a n j i) < Rabs (getm a n i j - getm a n j i) ->
  is_pd_pred RO a = Some false.
Proof.
  intros Hn Hi Hj Hfar. unfold is_pd_pred. rewrite <- Hn, is_square_sq. cbn [bind].
  rewrite (is_symmetric_rel_rows_far _ n i j Hi Hj); [reflexivity|].
  rewrite !ent_unflatten by auto. exact Hfar.
Qed.

Lemma pd_pred_nonpositive_diag a n i :
  (n * n)%nat = length a -> (i < n)%nat -> getm a n i i <= 0 -> is_pd_pred RO a = Some false.
Proof.
  intros Hn Hi Hd. unfold is_pd_pred. rewrite <- Hn, is_square_sq. cbn [bind].
  destruct (diag_positive_rows RO (unflatten a n n) n) eqn:E.
  - rewrite diag_positive_rows_true in E. specialize (E i Hi). rewrite ent_unflatten in E by auto.
    unfold getm in Hd. lra.
  - rewrite andb_false_r. reflexivity.
Qed.

Lemma pd_pred_sym_posdiag a n :
  (n * n)%nat = length a -> symmetric a n -> (forall i, (i < n)%nat -> 0 < getm a n i i) ->
  is_pd_pred RO a = Some true.
Proof.
  intros Hn Hsym Hd. unfold is_pd_pred. rewrite <- Hn, is_square_sq. cbn [bind].
  rewrite is_symmetric_rel_rows_exact.
  - rewrite (proj2 (diag_positive_rows_true _ n)); [reflexivity|].
    intros i Hi. rewrite ent_unflatten by auto. apply (Hd i Hi).
  - intros i j Hi Hj. rewrite !ent_unflatten by auto. apply (Hsym i j); auto.
Qed.

(** what the predicate guarantees when it answers true *)
Lemma pd_pred_true a n :
  (n * n)%nat = length a -> is_pd_pred RO a = Some true ->
  (forall i j, (i < n)%nat -> (j < n)%nat ->
     Rabs (getm a n i j - getm a n j i) <= sym_tol (getm a n i j) (getm a n j i)) /\
  (forall i, (i < n)%nat -> 0 < getm a n i i).
Proof.
  intros Hn H. unfold is_pd_pred in H. rewrite <- Hn, is_square_sq in H. cbn [bind] in H.
  inversion H as [H1]. apply andb_true_iff in H1. destruct H1 as [Hs Hd].
  rewrite is_symmetric_rel_rows_true in Hs. rewrite diag_positive_rows_true in Hd. split.
  - intros i j Hi Hj. destruct (Nat.le_gt_cases i j) as [Hij|Hij].
    + specialize (Hs i j Hij Hj). rewrite !ent_unflatten in Hs by auto. exact Hs.
    + specialize (Hs j i ltac:(lia) Hi). rewrite !ent_unflatten in Hs by auto.
      rewrite Rabs_minus_sym, sym_tol_sym. exact Hs.
  - intros i Hi. specialize (Hd i Hi). rewrite ent_unflatten in Hd by auto. exact Hd.
Qed.

(** the matrix is either exactly symmetric or asymmetric beyond the tolerance somewhere: then the
    Cholesky route is only ever taken for exactly symmetric input *)
Definition decisively_symmetric_or_not (a : list R) (n : nat) : Prop :=
  symmetric a n \/
  exists i j, (i < n)%nat /\ (j < n)%nat /\
    sym_tol (getm a n i j) (getm a n j i) < Rabs (getm a n i j - getm a n j i).

Lemma decisive_routing a n :
  (n * n)%nat = length a -> decisively_symmetric_or_not a n ->
  is_pd_pred RO a = Some true -> symmetric a n.
Proof.
  intros Hn [Hs|(i & j & Hi & Hj & Hfar)] Hpd; auto.
  rewrite (pd_pred_far a n i j Hn Hi Hj Hfar) in Hpd. discriminate.
Qed.
