(** Proofs for C01, part 4: the routing predicates in exact arithmetic (relative symmetry tolerance,
    positive diagonal) and what they imply for the hypotheses of the solver theorems. *)
From Coq Require Import List Arith Bool Lia Reals Lra.
From Compute Require Import Base.Ops Base.ListMat Model.Reduce Model.MatMul Model.Subst Model.Cholesky Model.Solve
  Spec.Factor Spec.Solve Proofs.C05 Proofs.LinAlgBase Proofs.C11_Subst Proofs.C11_Chol Proofs.C01_Layout.
From Compute Require Export Proofs.C11_Pred.
Import ListNotations.
Local Open Scope R_scope.

(** *** flat level *)
Lemma pd_pred_far a n i j :
  (n * n)%nat = length a -> (i < n)%nat -> (j < n)%nat ->
  sym_tol (getm a n i j) (getm a n j i) < Rabs (getm a n i j - getm a n j i) ->
  is_positive_definite RO a = Some false.
Proof.
  intros Hn Hi Hj Hfar. unfold is_positive_definite. rewrite <- Hn, is_square_sq. cbn [bind].
  rewrite (is_symmetric_rows_far _ n i j Hi Hj); [reflexivity|].
  rewrite !ent_unflatten by auto. exact Hfar.
Qed.

Lemma pd_pred_nonpositive_diag a n i :
  (n * n)%nat = length a -> (i < n)%nat -> getm a n i i <= 0 -> is_positive_definite RO a = Some false.
Proof.
  intros Hn Hi Hd. unfold is_positive_definite. rewrite <- Hn, is_square_sq. cbn [bind].
  destruct (diag_positive_rows RO (unflatten a n n) n) eqn:E.
  - rewrite diag_positive_rows_true in E. specialize (E i Hi). rewrite ent_unflatten in E by auto.
    unfold getm in Hd. lra.
  - rewrite andb_false_r. reflexivity.
Qed.

Lemma pd_pred_sym_posdiag a n :
  (n * n)%nat = length a -> symmetric a n -> (forall i, (i < n)%nat -> 0 < getm a n i i) ->
  is_positive_definite RO a = Some true.
Proof.
  intros Hn Hsym Hd. unfold is_positive_definite. rewrite <- Hn, is_square_sq. cbn [bind].
  rewrite is_symmetric_rows_exact.
  - rewrite (proj2 (diag_positive_rows_true _ n)); [reflexivity|].
    intros i Hi. rewrite ent_unflatten by auto. apply (Hd i Hi).
  - intros i j Hi Hj. rewrite !ent_unflatten by auto. apply (Hsym i j); auto.
Qed.

(** what the predicate guarantees when it answers true *)
Lemma pd_pred_true a n :
  (n * n)%nat = length a -> is_positive_definite RO a = Some true ->
  (forall i j, (i < n)%nat -> (j < n)%nat ->
     Rabs (getm a n i j - getm a n j i) <= sym_tol (getm a n i j) (getm a n j i)) /\
  (forall i, (i < n)%nat -> 0 < getm a n i i).
Proof.
  intros Hn H. unfold is_positive_definite in H. rewrite <- Hn, is_square_sq in H. cbn [bind] in H.
  inversion H as [H1]. apply andb_true_iff in H1. destruct H1 as [Hs Hd].
  rewrite is_symmetric_rows_true in Hs. rewrite diag_positive_rows_true in Hd. split.
  - intros i j Hi Hj. destruct (Nat.le_gt_cases i j) as [Hij|Hij].
    + specialize (Hs i j Hij Hj). rewrite !ent_unflatten in Hs by auto. exact Hs.
    + specialize (Hs j i ltac:(lia) Hi). rewrite !ent_unflatten in Hs by auto.
      rewrite Rabs_minus_sym, sym_tol_sym. exact Hs.
  - intros i Hi. specialize (Hd i Hi). rewrite ent_unflatten in Hd by auto. exact Hd.
Qed.

(** the matrix is either exactly symmetric or asymmetric beyond the tolerance somewhere: then the
    Cholesky route is only ever taken for exactly symmetric input *)
Definition decisively_symmetric_or_not (a : list R) (n : nat) : Prop :=
  symmetric a n \/
  exists i j, (i < n)%nat /\ (j < n)%nat /\
    sym_tol (getm a n i j) (getm a n j i) < Rabs (getm a n i j - getm a n j i).

Lemma decisive_routing a n :
  (n * n)%nat = length a -> decisively_symmetric_or_not a n ->
  is_positive_definite RO a = Some true -> symmetric a n.
Proof.
  intros Hn [Hs|(i & j & Hi & Hj & Hfar)] Hpd; auto.
  rewrite (pd_pred_far a n i j Hn Hi Hj Hfar) in Hpd. discriminate.
Qed.
