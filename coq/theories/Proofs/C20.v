(** Proofs for C20 (covariance kernels) on the real carrier. *)
From Coq Require Import Reals List ZArith Lra Lia.
From Compute Require Import Base.Ops Base.ListMat Model.Kernels.
Import ListNotations.
Open Scope R_scope.

Lemma powi2_R x : powi RO x 2 = x * x.
Proof. cbn. ring. Qed.

Lemma rbf_R var ls x y :
  rbf RO var ls x y = exp (- ((x - y) * (x - y)) / (2 * (ls * ls))) * var.
Proof. unfold rbf. rewrite !powi2_R. cbn [f1 RO Rf1 neg div mul sub two add one]. reflexivity. Qed.
Lemma rq_R var alpha ls x y :
  rq RO var alpha ls x y = Rpower (1 + (x - y) * (x - y) / (2 * alpha * (ls * ls))) (- alpha) * var.
Proof. unfold rq. rewrite !powi2_R. cbn [f2 RO Rf2 neg div mul sub two add one]. reflexivity. Qed.

Lemma sq_abs_le a b : Rabs a <= Rabs b -> a * a <= b * b.
Proof.
  intros H. pose proof (Rabs_pos a) as Ha.
  assert (Ea : a * a = Rabs a * Rabs a).
  { unfold Rabs. destruct (Rcase_abs a); ring. }
  assert (Eb : b * b = Rabs b * Rabs b).
  { unfold Rabs. destruct (Rcase_abs b); ring. }
  rewrite Ea, Eb. nra.
Qed.

(** ** RBF *)
Lemma rbf_symmetric var ls x y : rbf RO var ls x y = rbf RO var ls y x.
Proof. rewrite !rbf_R. replace ((y - x) * (y - x)) with ((x - y) * (x - y)) by ring. reflexivity. Qed.
Lemma rbf_diag var ls x : rbf RO var ls x x = var.
Proof.
  rewrite rbf_R. replace (- ((x - x) * (x - x)) / (2 * (ls * ls))) with 0 by (unfold Rdiv; ring).
  rewrite exp_0. ring.
Qed.
Lemma rbf_positive var ls x y : 0 < var -> 0 < rbf RO var ls x y.
Proof. intros Hv. rewrite rbf_R. apply Rmult_lt_0_compat; [apply exp_pos|exact Hv]. Qed.
Lemma rbf_nonincreasing var ls x y x' y' :
  0 < var -> 0 < ls -> Rabs (x - y) <= Rabs (x' - y') -> rbf RO var ls x' y' <= rbf RO var ls x y.
Proof.
  intros Hv Hl Hd. rewrite !rbf_R. apply Rmult_le_compat_r; [lra|].
  pose proof (sq_abs_le _ _ Hd) as Hs.
  assert (Hll : 0 < ls * ls) by nra.
  assert (Hc : 0 < / (2 * (ls * ls))) by (apply Rinv_0_lt_compat; lra).
  unfold Rdiv. set (c := / (2 * (ls * ls))) in *.
  set (A := (x - y) * (x - y)) in *. set (A' := (x' - y') * (x' - y')) in *.
  destruct (Rle_lt_or_eq_dec _ _ Hs) as [Hlt|Heq].
  - left. apply exp_increasing. assert (A * c < A' * c) by (apply Rmult_lt_compat_r; lra). lra.
  - right. rewrite Heq. reflexivity.
Qed.
Lemma rbf_le_var var ls x y : 0 < var -> 0 < ls -> rbf RO var ls x y <= var.
Proof.
  intros Hv Hl. rewrite <- (rbf_diag var ls x) at 2. apply rbf_nonincreasing; try assumption.
  replace (x - x) with 0 by ring. rewrite Rabs_R0. apply Rabs_pos.
Qed.

(** ** rational quadratic (repaired: exponent −α) *)
Lemma rq_symmetric var alpha ls x y : rq RO var alpha ls x y = rq RO var alpha ls y x.
Proof. rewrite !rq_R. replace ((y - x) * (y - x)) with ((x - y) * (x - y)) by ring. reflexivity. Qed.
Lemma rq_diag var alpha ls x : rq RO var alpha ls x x = var.
Proof.
  rewrite rq_R. replace (1 + (x - x) * (x - x) / (2 * alpha * (ls * ls))) with 1 by (unfold Rdiv; ring).
  unfold Rpower. rewrite ln_1, Rmult_0_r, exp_0. ring.
Qed.
Lemma rq_positive var alpha ls x y : 0 < var -> 0 < rq RO var alpha ls x y.
Proof. intros Hv. rewrite rq_R. apply Rmult_lt_0_compat; [apply exp_pos|exact Hv]. Qed.
Lemma rq_nonincreasing var alpha ls x y x' y' :
  0 < var -> 0 < alpha -> 0 < ls -> Rabs (x - y) <= Rabs (x' - y') ->
  rq RO var alpha ls x' y' <= rq RO var alpha ls x y.
Proof.
  intros Hv Ha Hl Hd. rewrite !rq_R. apply Rmult_le_compat_r; [lra|].
  pose proof (sq_abs_le _ _ Hd) as Hs.
  assert (Hll : 0 < ls * ls) by nra.
  assert (Hden : 0 < 2 * alpha * (ls * ls)) by (apply Rmult_lt_0_compat; lra).
  assert (Hc : 0 < / (2 * alpha * (ls * ls))) by (apply Rinv_0_lt_compat; exact Hden).
  unfold Rdiv. set (c := / (2 * alpha * (ls * ls))) in *.
  set (A := (x - y) * (x - y)) in *. set (A' := (x' - y') * (x' - y')) in *.
  assert (HA : 0 <= A) by (unfold A; apply (Rle_0_sqr (x - y))).
  assert (HAc : 0 <= A * c) by (apply Rmult_le_pos; lra).
  assert (HAc' : A * c <= A' * c) by (apply Rmult_le_compat_r; lra).
  assert (Hb : 1 <= 1 + A * c) by lra.
  assert (Hbb : 1 + A * c <= 1 + A' * c) by lra.
  unfold Rpower.
  destruct (Rle_lt_or_eq_dec _ _ Hbb) as [Hlt|Heq].
  - left. apply exp_increasing. assert (Hln : ln (1 + A * c) < ln (1 + A' * c)) by (apply ln_increasing; lra).
    apply Ropp_lt_cancel. rewrite <- !Ropp_mult_distr_l, !Ropp_involutive.
    apply Rmult_lt_compat_l; assumption.
  - right. rewrite Heq. reflexivity.
Qed.
Lemma rq_le_var var alpha ls x y : 0 < var -> 0 < alpha -> 0 < ls -> rq RO var alpha ls x y <= var.
Proof.
  intros Hv Ha Hl. rewrite <- (rq_diag var alpha ls x) at 2. apply rq_nonincreasing; try assumption.
  replace (x - x) with 0 by ring. rewrite Rabs_R0. apply Rabs_pos.
Qed.

(** ** matrix form *)
(** the squared distance as the ORIGINAL matrix form computed it, x² + y² − 2·(0 + x·y) (powi, broadcast sum, [dot_t]
    accumulated from zero): equal to (x − y)² on the reals, but it cancels on binary64 (Properties/C20.v keeps a witness:
    a NEGATIVE squared distance inside the stated ranges).  The repaired code forms x − y first. *)
Definition sqdist_expanded {T} (O : Ops T) (x y : T) : T :=
  sub O (add O (powi O x 2) (powi O y 2)) (mul O (two O) (add O (zero O) (mul O x y))).
Lemma sqdist_expanded_R x y : sqdist_expanded RO x y = (x - y) * (x - y).
Proof. unfold sqdist_expanded. rewrite !powi2_R. cbn [add sub mul zero two one RO]. ring. Qed.

Section AnyCarrier.
  Context {T : Type} (O : Ops T).
  (** one row per first-argument point, one column per second-argument point, entry = the scalar form: on EVERY carrier *)
  Lemma rbf_matrix_shape var ls xs ys :
    length (rbf_matrix O var ls xs ys) = length xs /\
    forall i, (i < length xs)%nat -> length (nth i (rbf_matrix O var ls xs ys) []) = length ys.
  Proof.
    unfold rbf_matrix. split; [apply map_length|]. intros i Hi.
    rewrite (nth_indep _ [] (map (fun y => rbf O var ls (zero O) y) ys)) by (rewrite map_length; exact Hi).
    rewrite (map_nth (fun x => map (fun y => rbf O var ls x y) ys) xs (zero O)). apply map_length.
  Qed.
  Lemma rbf_matrix_entry var ls xs ys i j d :
    (i < length xs)%nat -> (j < length ys)%nat ->
    ent d (rbf_matrix O var ls xs ys) i j = rbf O var ls (nth i xs d) (nth j ys d).
  Proof.
    intros Hi Hj. unfold ent, rbf_matrix.
    rewrite (nth_indep _ [] (map (fun y => rbf O var ls d y) ys)) by (rewrite map_length; exact Hi).
    rewrite (map_nth (fun x => map (fun y => rbf O var ls x y) ys) xs d).
    rewrite (nth_indep _ d (rbf O var ls (nth i xs d) d)) by (rewrite map_length; exact Hj).
    apply (map_nth (fun y => rbf O var ls (nth i xs d) y)).
  Qed.
  Lemma rq_matrix_shape var alpha ls xs ys :
    length (rq_matrix O var alpha ls xs ys) = length xs /\
    forall i, (i < length xs)%nat -> length (nth i (rq_matrix O var alpha ls xs ys) []) = length ys.
  Proof.
    unfold rq_matrix. split; [apply map_length|]. intros i Hi.
    rewrite (nth_indep _ [] (map (fun y => rq O var alpha ls (zero O) y) ys)) by (rewrite map_length; exact Hi).
    rewrite (map_nth (fun x => map (fun y => rq O var alpha ls x y) ys) xs (zero O)). apply map_length.
  Qed.
  Lemma rq_matrix_entry var alpha ls xs ys i j d :
    (i < length xs)%nat -> (j < length ys)%nat ->
    ent d (rq_matrix O var alpha ls xs ys) i j = rq O var alpha ls (nth i xs d) (nth j ys d).
  Proof.
    intros Hi Hj. unfold ent, rq_matrix.
    rewrite (nth_indep _ [] (map (fun y => rq O var alpha ls d y) ys)) by (rewrite map_length; exact Hi).
    rewrite (map_nth (fun x => map (fun y => rq O var alpha ls x y) ys) xs d).
    rewrite (nth_indep _ d (rq O var alpha ls (nth i xs d) d)) by (rewrite map_length; exact Hj).
    apply (map_nth (fun y => rq O var alpha ls (nth i xs d) y)).
  Qed.
End AnyCarrier.

Lemma matrix_is_scalar_any_carrier (T : Type) (O : Ops T) (var alpha ls : T) (xs ys : list T) (i j : nat) (d : T) :
  (i < length xs)%nat -> (j < length ys)%nat ->
  ent d (rbf_matrix O var ls xs ys) i j = rbf O var ls (nth i xs d) (nth j ys d) /\
  ent d (rq_matrix O var alpha ls xs ys) i j = rq O var alpha ls (nth i xs d) (nth j ys d).
Proof. intros Hi Hj. split; [apply rbf_matrix_entry|apply rq_matrix_entry]; assumption. Qed.

(** the matrix form equals the scalar form entry by entry (real carrier; [rbf_matrix_entry] says it on every carrier) *)
Lemma rbf_matrix_is_scalar var ls xs ys i j :
  (i < length xs)%nat -> (j < length ys)%nat ->
  ent 0 (rbf_matrix RO var ls xs ys) i j = rbf RO var ls (nth i xs 0) (nth j ys 0).
Proof. intros Hi Hj. apply rbf_matrix_entry; assumption. Qed.
Lemma rq_matrix_is_scalar var alpha ls xs ys i j :
  (i < length xs)%nat -> (j < length ys)%nat ->
  ent 0 (rq_matrix RO var alpha ls xs ys) i j = rq RO var alpha ls (nth i xs 0) (nth j ys 0).
Proof. intros Hi Hj. apply rq_matrix_entry; assumption. Qed.

(** Gram matrices are symmetric *)
Lemma rbf_gram_symmetric var ls xs i j :
  (i < length xs)%nat -> (j < length xs)%nat ->
  ent 0 (rbf_matrix RO var ls xs xs) i j = ent 0 (rbf_matrix RO var ls xs xs) j i.
Proof. intros Hi Hj. rewrite !rbf_matrix_is_scalar by assumption. apply rbf_symmetric. Qed.
Lemma rq_gram_symmetric var alpha ls xs i j :
  (i < length xs)%nat -> (j < length xs)%nat ->
  ent 0 (rq_matrix RO var alpha ls xs xs) i j = ent 0 (rq_matrix RO var alpha ls xs xs) j i.
Proof. intros Hi Hj. rewrite !rq_matrix_is_scalar by assumption. apply rq_symmetric. Qed.

(** every 2-point Gram matrix is positive semi-definite (from 0 < k(x,y) <= var = k(x,x)) *)
Lemma psd2 v k c1 c2 : 0 <= k <= v -> 0 <= c1 * c1 * v + 2 * c1 * c2 * k + c2 * c2 * v.
Proof.
  intros [Hk Hv].
  replace (c1 * c1 * v + 2 * c1 * c2 * k + c2 * c2 * v)
    with (k * ((c1 + c2) * (c1 + c2)) + (v - k) * (c1 * c1 + c2 * c2)) by ring.
  apply Rplus_le_le_0_compat; apply Rmult_le_pos; try lra.
  - apply (Rle_0_sqr (c1 + c2)).
  - apply Rplus_le_le_0_compat; [apply (Rle_0_sqr c1)|apply (Rle_0_sqr c2)].
Qed.
Lemma rbf_gram_2x2_psd var ls x y c1 c2 :
  0 < var -> 0 < ls ->
  0 <= c1 * c1 * rbf RO var ls x x + 2 * c1 * c2 * rbf RO var ls x y + c2 * c2 * rbf RO var ls y y.
Proof.
  intros Hv Hl. rewrite !rbf_diag. apply psd2. split; [left; apply rbf_positive; lra|apply rbf_le_var; lra].
Qed.
Lemma rq_gram_2x2_psd var alpha ls x y c1 c2 :
  0 < var -> 0 < alpha -> 0 < ls ->
  0 <= c1 * c1 * rq RO var alpha ls x x + 2 * c1 * c2 * rq RO var alpha ls x y + c2 * c2 * rq RO var alpha ls y y.
Proof.
  intros Hv Ha Hl. rewrite !rq_diag. apply psd2. split; [left; apply rq_positive; lra|apply rq_le_var; lra].
Qed.

(** constructors accept exactly the positive parameters *)
Lemma rbf_new_spec var ls :
  rbf_new RO var ls = if Rlt_dec 0 var then if Rlt_dec 0 ls then Some (var, ls) else None else None.
Proof. unfold rbf_new. cbn [ltb zero RO]. unfold Rltb. destruct (Rlt_dec 0 var), (Rlt_dec 0 ls); reflexivity. Qed.
Lemma rq_new_spec var alpha ls :
  rq_new RO var alpha ls =
  if Rlt_dec 0 var then if Rlt_dec 0 alpha then if Rlt_dec 0 ls then Some (var, alpha, ls) else None else None else None.
Proof.
  unfold rq_new. cbn [ltb zero RO]. unfold Rltb.
  destruct (Rlt_dec 0 var), (Rlt_dec 0 alpha), (Rlt_dec 0 ls); reflexivity.
Qed.
