(** Proofs for C07, part 9: Romberg changes sign when the limits are swapped (eps = 0).
    The odd-node sums are reversed; this needs [powi 2 n = 2^n], which the square-and-multiply loop of the
    model gives for exponents below 2^64 (its fuel). *)
From Coq Require Import Reals List ZArith QArith Lra Lia Bool.
From Compute Require Import Base.Ops Base.ListMat Model.Quad Proofs.C07_base Proofs.C07_romberg.
Import ListNotations.
Open Scope R_scope.

Lemma powi_pos_R fuel : forall p a r,
  (Pos.size_nat p <= fuel)%nat -> powi_pos RO fuel a r p = r * a ^ Pos.to_nat p.
Proof.
  induction fuel as [|fuel IH]; intros p a r Hs.
  - destruct p; cbn [Pos.size_nat] in Hs; lia.
  - destruct p as [p|p|]; cbn [powi_pos Pos.size_nat] in *.
    + rewrite IH by lia. rewrite Pos2Nat.inj_xI. cbn [mul RO pow]. rewrite pow_sqr. ring.
    + rewrite IH by lia. rewrite Pos2Nat.inj_xO. cbn [mul RO]. rewrite pow_sqr. ring.
    + cbn [mul RO]. rewrite Pos2Nat.inj_1. cbn [pow]. ring.
Qed.
Lemma powi_R x n : (Z.of_nat n < 2 ^ 64)%Z -> powi RO x (Z.of_nat n) = x ^ n.
Proof.
  intros Hn. destruct n as [|k]; [reflexivity|].
  rewrite Nat2Z.inj_succ, <- Zpos_P_of_succ_nat. cbn [powi].
  rewrite powi_pos_R.
  - rewrite SuccNat2Pos.id_succ. cbn [one RO]. ring.
  - rewrite Nat2Z.inj_succ, <- Zpos_P_of_succ_nat in Hn.
    set (p := Pos.of_succ_nat k) in *. clearbody p.
    change (2 ^ 64)%Z with (Z.succ (Z.pos 18446744073709551615)) in Hn. apply Z.lt_succ_r in Hn.
    destruct (Pos.lt_total p 18446744073709551615) as [Hp|[Hp|Hp]].
    + apply Pos.size_nat_monotone in Hp. exact Hp.
    + rewrite Hp. apply Nat.le_refl.
    + exfalso. apply Pos2Z.pos_lt_pos in Hp. exact (Z.lt_irrefl _ (Z.le_lt_trans _ _ _ Hn Hp)).
Qed.

Lemma oddsum_swap f a b n :
  (1 <= n)%nat ->
  oddsum RO f b ((a - b) / 2 ^ n) (2 ^ (n - 1)) 1 0 = oddsum RO f a ((b - a) / 2 ^ n) (2 ^ (n - 1)) 1 0.
Proof.
  intros Hn. rewrite !oddsum_R. f_equal.
  set (N := (2 ^ (n - 1))%nat).
  assert (HN : INR N * 2 = 2 ^ n).
  { unfold N. rewrite pow_INR. change (INR 2) with 2. replace n with (S (n - 1)) at 2 by lia. cbn [pow]. ring. }
  assert (Hp : 2 ^ n <> 0) by (apply pow_nonzero; lra).
  rewrite (rsum_rev (fun i => f (b + IZR (2 * (1 + Z.of_nat i) - 1) * ((a - b) / 2 ^ n))) N).
  apply rsum_ext_lt. intros i Hi. f_equal.
  rewrite !minus_IZR, !mult_IZR, !plus_IZR, <- !INR_IZR_INZ, !minus_INR by lia. change (INR 1) with 1.
  field_simplify_eq; [|exact Hp]. rewrite <- HN. ring.
Qed.

Lemma col0_swap f a b cnt : forall n prev,
  (1 <= n)%nat -> (Z.of_nat (n + cnt) < 2 ^ 64)%Z ->
  col0 RO f b a cnt n (-1 * prev) = map (Rmult (-1)) (col0 RO f a b cnt n prev).
Proof.
  induction cnt as [|c IH]; intros n prev Hn Hb; cbn [col0 map]; [reflexivity|].
  rewrite two_R, powi_R by lia. cbn [sub div RO]. rewrite negzero_R, (oddsum_swap f a b n Hn).
  set (s := oddsum RO f a _ _ _ _).
  assert (Ev : add RO (mul RO (ofQ RO (1 # 2)) (-1 * prev)) (mul RO ((a - b) / 2 ^ n) s)
               = -1 * add RO (mul RO (ofQ RO (1 # 2)) prev) (mul RO ((b - a) / 2 ^ n) s)).
  { cbn [add mul RO]. unfold Rdiv. ring. }
  rewrite Ev, IH by lia. reflexivity.
Qed.
Lemma romberg_noeps_swap f a b m :
  (Z.of_nat (S m) < 2 ^ 64)%Z -> romberg_noeps RO f b a m = - romberg_noeps RO f a b m.
Proof.
  intros Hm. unfold romberg_noeps.
  set (r := mul RO (div RO (sub RO b a) (two RO)) (add RO (f a) (f b))).
  replace (mul RO (div RO (sub RO a b) (two RO)) (add RO (f b) (f a))) with (-1 * r)
    by (unfold r; cbn [add mul div sub RO]; unfold Rdiv; ring).
  rewrite col0_swap by lia. change [-1 * r] with (map (Rmult (-1)) [r]). rewrite tri_scale. ring.
Qed.
Lemma romberg_swap f a b m :
  (Z.of_nat (S m) < 2 ^ 64)%Z ->
  exists r, romberg RO f a b 0 (S m) = Some r /\ romberg RO f b a 0 (S m) = Some (- r).
Proof.
  intros Hm. exists (romberg_noeps RO f a b m). rewrite !romberg_R, (romberg_noeps_swap f a b m Hm). split; reflexivity.
Qed.
