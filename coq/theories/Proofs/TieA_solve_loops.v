(** * Tie A, fourth round, for C01: the linear-system entry points of src/linalg/utils.rs ARE the source.
    [Generated/solve_loops.v] is produced on every run by tools/tiea/solve_loops.py (statement-level translator [LoopTranslator]
    of tools/rsexpr.py).  The layout conversions write a copy of their argument in place ([x[j * nrows + i] = a[i * ncols + j]]
    for every i, j): statement for statement the loop models of Model/Shape.v, hence (C15's [r2c_eq] / [c2r_eq]) the transposes
    that Model/Solve.v writes.  [solve], [solve_sys], [invert_matrix] are, like the model, parametric in the factorisation
    routines; the ties hold for EVERY such routines (the pivot vector [Vec<i32>] is a [list Z] in the source, a [list nat] in the
    model: converted at the boundary).  No law of the carrier. *)
From Coq Require Import List ZArith Arith Bool Lia.
From Compute Require Import Base.Ops Base.ListMat Base.RsExpr Base.RsExprMut Model.Shape Spec.Shape Model.Reduce Model.MatMul Model.Subst
  Model.Cholesky Model.Solve Generated.solve_loops
  Proofs.RsExprLemmas Proofs.RsExprFlat Proofs.C15Lists Proofs.C15Step Proofs.C15Empty Proofs.TieA_linalg_loops Proofs.TieA_linalg_lu
  Proofs.LinAlgBase.
Import ListNotations.

(** a loop nest whose passes are indexed by pairs: the fold over the product list *)
Lemma fold_left_list_prod : forall {S} (G : S -> nat -> nat -> S) (l1 l2 : list nat) (s : S),
  fold_left (fun s (p : nat * nat) => G s (fst p) (snd p)) (list_prod l1 l2) s
  = fold_left (fun s i => fold_left (fun s j => G s i j) l2 s) l1 s.
Proof.
  intros S G l1 l2. induction l1 as [|i l1 IH]; intro s; [reflexivity|].
  cbn [list_prod fold_left]. rewrite fold_left_app, IH. f_equal.
  clear IH. generalize s. induction l2 as [|j l2 IH2]; intro s0; [reflexivity|]. cbn [map fold_left fst snd]. apply IH2.
Qed.

Lemma nest_loop : forall {S} (P : S -> Prop) (body : S -> Z -> Z -> option S) (G : S -> nat -> nat -> S) (l1 l2 : list nat) (s : S),
  P s -> (forall s i j, In i l1 -> In j l2 -> P s -> body s (Z.of_nat i) (Z.of_nat j) = Some (G s i j) /\ P (G s i j)) ->
  rs_fold_opt (fun s i => let* s := rs_fold_opt (fun s j => body s i j) (map Z.of_nat l2) s in Some s) (map Z.of_nat l1) s
  = Some (fold_left (fun s (p : nat * nat) => G s (fst p) (snd p)) (list_prod l1 l2) s).
Proof.
  intros S P body G l1 l2 s Hs H. rewrite fold_left_list_prod.
  destruct (rs_fold_opt_inv P (fun s i => let* s := rs_fold_opt (fun s j => body s i j) (map Z.of_nat l2) s in Some s)
              (fun s i => fold_left (fun s j => G s i j) l2 s) l1 s Hs) as [E _]; [|exact E].
  intros s' i Hi Hs'.
  destruct (rs_fold_opt_inv P (fun s j => body s (Z.of_nat i) j) (fun s j => G s i j) l2 s' Hs') as [E P']; [|rewrite E; now split].
  intros s'' j Hj Hs''. now apply H.
Qed.

(** a loop whose state is threaded through an option in the model *)
Lemma fold_left_none : forall {S A} (G : S -> A -> option S) (l : list A),
  fold_left (fun acc i => let* s := acc in G s i) l None = None.
Proof. intros S A G l. induction l as [|a l IH]; [reflexivity|]. cbn [fold_left bind]. exact IH. Qed.
Lemma rs_fold_opt_option_acc : forall {S} (F : S -> Z -> option S) (G : S -> nat -> option S) (l : list nat) (s : S),
  (forall s i, In i l -> F s (Z.of_nat i) = G s i) ->
  rs_fold_opt F (map Z.of_nat l) s = fold_left (fun acc i => let* s := acc in G s i) l (Some s).
Proof.
  intros S F G l. induction l as [|i l IH]; intros s H; [reflexivity|]. cbn [map rs_fold_opt fold_left bind].
  rewrite H by (now left). destruct (G s i) as [s'|]; [|now rewrite fold_left_none].
  apply IH. intros s0 i0 Hi0. apply H. now right.
Qed.

Lemma is_matrix_some2 : forall len nr nc, is_matrix len nr = Some nc -> nr * nc = len /\ 0 < nr.
Proof.
  intros len [|nr] nc H; [discriminate|]. cbn [is_matrix] in H.
  destruct (Nat.eqb_spec (S nr * (len / S nr)) len) as [E|E]; [|discriminate]. injection H as <-. split; [exact E|lia].
Qed.

Lemma map_to_of_nat : forall l : list nat, map Z.to_nat (map Z.of_nat l) = l.
Proof. intro l. rewrite map_map. rewrite <- (map_id l) at 2. apply map_ext. intro a. apply Nat2Z.id. Qed.

Section TieA.
  Context {T : Type} (O : Ops T).
  Local Notation z := (zero O).

  Definition is_matrix_zs (l : list T) (n : Z) : option Z := option_map Z.of_nat (is_matrix (length l) (Z.to_nat n)).

  (** ** the layout conversions against the loop models of Model/Shape.v (C15) *)
  Theorem tiea_row_to_col_major_loop : forall (a : list T) (nr : nat),
    src_row_to_col_major O is_matrix_zs a (Z.of_nat nr) = Model.Shape.row_to_col_major O a nr.
  Proof.
    intros a nr. unfold src_row_to_col_major, Model.Shape.row_to_col_major, is_matrix_zs. rewrite Nat2Z.id.
    destruct (is_matrix (length a) nr) as [nc|] eqn:Em; cbn [option_map bind]; [|reflexivity]. cbv zeta.
    apply is_matrix_some2 in Em. destruct Em as [Em Hnr]. rewrite !rs_range_excl_0_nat.
    rewrite (nest_loop (fun s => length s = length a) _ (fun x i j => upd x (j * nr + i) (nth (i * nc + j) a z))); [| reflexivity |].
    - cbn [bind]. f_equal. apply C15Step.fold_left_ext. intros x [i j]. reflexivity.
    - intros s i j Hi Hj Hs. apply in_seq in Hi, Hj. znat. rewrite (rs_get_some a (i * nc + j) z) by nia. cbn [bind].
      rewrite rs_set_nat by nia. cbn [bind]. split; [reflexivity|]. now rewrite upd_length.
  Qed.

  Theorem tiea_col_to_row_major_loop : forall (a : list T) (nr : nat),
    src_col_to_row_major O is_matrix_zs a (Z.of_nat nr) = Model.Shape.col_to_row_major O a nr.
  Proof.
    intros a nr. unfold src_col_to_row_major, Model.Shape.col_to_row_major, is_matrix_zs. rewrite Nat2Z.id.
    destruct (is_matrix (length a) nr) as [nc|] eqn:Em; cbn [option_map bind]; [|reflexivity]. cbv zeta.
    apply is_matrix_some2 in Em. destruct Em as [Em Hnr]. rewrite !rs_range_excl_0_nat.
    rewrite (nest_loop (fun s => length s = length a) _ (fun x i j => upd x (i * nc + j) (nth (j * nr + i) a z))); [| reflexivity |].
    - cbn [bind]. f_equal. apply C15Step.fold_left_ext. intros x [i j]. reflexivity.
    - intros s i j Hi Hj Hs. apply in_seq in Hi, Hj. znat. rewrite (rs_get_some a (j * nr + i) z) by nia. cbn [bind].
      rewrite rs_set_nat by nia. cbn [bind]. split; [reflexivity|]. now rewrite upd_length.
  Qed.

  (** ... and against the transposes of Model/Solve.v (C01) *)
  Lemma shape_r2c_transpose : forall (a : list T) (nr : nat), Model.Shape.row_to_col_major O a nr = transpose O a nr.
  Proof.
    intros a nr. rewrite <- transpose_flat_rows. destruct (is_matrix (length a) nr) as [nc|] eqn:Em.
    - pose proof (is_matrix_some2 _ _ _ Em) as [El Hnr]. destruct nc as [|nc'].
      + assert (a = []) by (destruct a; [reflexivity|cbn [length] in El; lia]). subst a.
        unfold Model.Shape.row_to_col_major, Model.Shape.transpose_flat. rewrite Em. cbn [bind]. f_equal.
        generalize (seq 0 nr). intro l. induction l as [|i l IH]; [reflexivity|]. cbn [list_prod map app]. exact IH.
      + apply (r2c_eq O (mkMat nr (S nc') a)). unfold Inv. cbn [nrows ncols data]. lia.
    - unfold Model.Shape.row_to_col_major, Model.Shape.transpose_flat. now rewrite Em.
  Qed.

  Theorem tiea_row_to_col_major : forall (a : list T) (nr : nat),
    src_row_to_col_major O is_matrix_zs a (Z.of_nat nr) = Model.Solve.row_to_col_major O a nr.
  Proof. intros a nr. rewrite tiea_row_to_col_major_loop. apply shape_r2c_transpose. Qed.

  Lemma shape_c2r_transpose : forall (a : list T) (nr : nat), Model.Shape.col_to_row_major O a nr = Model.Solve.col_to_row_major O a nr.
  Proof.
    intros a nr. unfold Model.Solve.col_to_row_major. destruct (is_matrix (length a) nr) as [nc|] eqn:Em; cbn [bind].
    - pose proof (is_matrix_some2 _ _ _ Em) as [El Hnr]. destruct nc as [|nc']; cbn [Nat.eqb].
      + assert (a = []) by (destruct a; [reflexivity|cbn [length] in El; lia]). subst a.
        unfold Model.Shape.col_to_row_major. rewrite Em. cbn [bind]. f_equal.
        generalize (seq 0 nr). intro l. induction l as [|i l IH]; [reflexivity|]. cbn [list_prod map app]. exact IH.
      + rewrite <- transpose_flat_rows. apply (c2r_eq O (mkMat (S nc') nr a)). unfold Inv. cbn [nrows ncols data]. lia.
    - unfold Model.Shape.col_to_row_major. now rewrite Em.
  Qed.

  Theorem tiea_col_to_row_major : forall (a : list T) (nr : nat),
    src_col_to_row_major O is_matrix_zs a (Z.of_nat nr) = Model.Solve.col_to_row_major O a nr.
  Proof. intros a nr. rewrite tiea_col_to_row_major_loop. apply shape_c2r_transpose. Qed.

  (** ** the solvers, for every factorisation routines *)
  Section Routines.
    Context (try_chol : list T -> option (option (list T)))
            (chol_solve : list T -> list T -> option (list T))
            (lu : list T -> option (list T * list nat))
            (lu_solve : list T -> list nat -> list T -> option (list T)).

    (** the pivot vector is [Vec<i32>] in the source *)
    Definition lu_zs (a : list T) : option (list T * list Z) := option_map (fun p => (fst p, map Z.of_nat (snd p))) (lu a).
    Definition lu_solve_zs (m : list T) (piv : list Z) (b : list T) : option (list T) := lu_solve m (map Z.to_nat piv) b.

    Theorem tiea_solve : forall (a b : list T),
      src_solve O (is_positive_definite O) try_chol chol_solve lu_zs lu_solve_zs a b = solve O try_chol chol_solve lu lu_solve a b.
    Proof.
      intros a b. unfold src_solve, solve, factor, rs_len, lu_zs, lu_solve_zs. cbv zeta. znat. rewrite Zeqb_of_nat.
      destruct (length a =? length b * length b); cbn [guard bind]; [|reflexivity].
      destruct (is_positive_definite O a) as [[|]|]; cbn [bind]; try reflexivity.
      - destruct (try_chol a) as [[l|]|]; cbn [bind]; try reflexivity.
        + destruct (chol_solve l b); reflexivity.
        + destruct (lu a) as [[m piv]|]; cbn [option_map bind fst snd]; [|reflexivity]. rewrite map_to_of_nat.
          destruct (lu_solve m piv b); reflexivity.
      - destruct (lu a) as [[m piv]|]; cbn [option_map bind fst snd]; [|reflexivity]. rewrite map_to_of_nat.
        destruct (lu_solve m piv b); reflexivity.
    Qed.

    (** the loop over the right-hand sides: every slice [&b[(i * n)..((i + 1) * n)]] is in bounds *)
    Lemma columns_loop : forall (f : list T -> option (list T)) (bc : list T) (n nsys : nat) (F : list T -> Z -> option (list T)),
      length bc = n * nsys ->
      (F = fun sols i => let* sl := rs_slice bc (Z.mul i (Z.of_nat n)) (Z.mul (Z.add i 1%Z) (Z.of_nat n)) in let* r := f sl in
                        let sol := r in if Z.eqb (rs_len sol) (Z.of_nat n) then let sols := sols ++ sol in Some sols else None) ->
      rs_fold_opt F (map Z.of_nat (seq 0 nsys)) [] = solve_columns f bc n nsys.
    Proof.
      intros f bc n nsys F Hl ->. unfold solve_columns. apply rs_fold_opt_option_acc.
      intros s i Hi. apply in_seq in Hi. rewrite Zadd1_nat. znat. rewrite rs_slice_nat by nia.
      replace (S i * n - i * n) with n by nia. cbn [bind]. unfold row_of.
      destruct (f (firstn n (skipn (i * n) bc))) as [x|]; cbn [bind]; [|reflexivity].
      unfold rs_len. rewrite Zeqb_of_nat. destruct (length x =? n); reflexivity.
    Qed.

    Lemma transpose_length : forall (a b : list T) (nr : nat), transpose O a nr = Some b -> length b = length a.
    Proof. intros a b nr H. rewrite <- transpose_flat_rows in H. now apply (length_transpose_flat O) in H. Qed.

    Theorem tiea_solve_sys : forall (a b : list T),
      src_solve_sys O is_square_z is_matrix_zs (is_positive_definite O) try_chol chol_solve lu_zs lu_solve_zs a b
      = solve_sys O try_chol chol_solve lu lu_solve a b.
    Proof.
      intros a b. unfold src_solve_sys, solve_sys, is_square_z.
      destruct (is_square (length a)) as [n|]; cbn [option_map bind]; [|reflexivity]. cbv zeta.
      unfold is_matrix_zs at 1. rewrite Nat2Z.id.
      destruct (is_matrix (length b) n) as [nsys|] eqn:Em; cbn [option_map bind]; [|reflexivity].
      rewrite tiea_row_to_col_major. unfold Model.Solve.row_to_col_major.
      destruct (transpose O b n) as [bc|] eqn:Et; cbn [bind]; [|reflexivity].
      apply transpose_length in Et. apply is_matrix_some2 in Em. destruct Em as [Em Hn].
      unfold factor, lu_zs, lu_solve_zs. rewrite !rs_range_excl_0_nat.
      destruct (is_positive_definite O a) as [pd|]; cbn [bind]; [|reflexivity].
      assert (Hcols : forall f : list T -> option (list T),
                (let* solutions := (let* solutions := solve_columns f bc n nsys in Some solutions) in
                 let* r13 := src_col_to_row_major O is_matrix_zs solutions (Z.of_nat n) in Some r13)
                = (let* sols := solve_columns f bc n nsys in Model.Solve.col_to_row_major O sols n)).
      { intro f. destruct (solve_columns f bc n nsys) as [sols|]; cbn [bind]; [|reflexivity].
        rewrite tiea_col_to_row_major. destruct (Model.Solve.col_to_row_major O sols n); reflexivity. }
      destruct pd; cbn [bind].
      - destruct (try_chol a) as [[l|]|]; cbn [bind]; try reflexivity.
        + rewrite (columns_loop (chol_solve l) bc n nsys _) by (try reflexivity; lia). apply Hcols.
        + destruct (lu a) as [[m piv]|]; cbn [option_map bind fst snd]; [|reflexivity]. rewrite map_to_of_nat.
          rewrite (columns_loop (lu_solve m piv) bc n nsys _) by (try reflexivity; lia). apply Hcols.
      - destruct (lu a) as [[m piv]|]; cbn [option_map bind fst snd]; [|reflexivity]. rewrite map_to_of_nat.
        rewrite (columns_loop (lu_solve m piv) bc n nsys _) by (try reflexivity; lia). apply Hcols.
    Qed.

    (** [vec![1.; n]] passes the capacity check: [n * n = len(matrix)] *)
    Theorem tiea_invert_matrix : forall (m : list T), (Z.of_nat (length m) <= 1152921504606846975)%Z ->
      src_invert_matrix O is_square_z is_matrix_zs (is_positive_definite O) try_chol chol_solve lu_zs lu_solve_zs (fun dg => Some (diag_matrix O dg)) m
      = invert_matrix O try_chol chol_solve lu lu_solve m.
    Proof.
      intros m Hcap. unfold src_invert_matrix, invert_matrix. unfold is_square_z at 1.
      destruct (is_square (length m)) as [n|] eqn:Es; cbn [option_map bind]; [|reflexivity]. cbv zeta.
      apply is_square_some in Es. rewrite rs_vec_alloc_nat by nia. cbn [bind]. rewrite tiea_solve_sys. unfold eye.
      destruct (solve_sys O try_chol chol_solve lu lu_solve m (diag_matrix O (repeat (one O) n))); reflexivity.
    Qed.
  End Routines.
End TieA.
