(** Proofs for C06, part 4: invariance of gradient, information and deviance under a permutation of
    the observations; the regenerated [has_dispersion] table; the link derivative. *)
From Coq Require Import Reals List Arith ZArith Bool Lia Lra Permutation.
From Compute Require Import Base.Ops Base.ListMat Model.Reduce Model.MatMul Spec.MatMul Proofs.C05.
From Compute Require Import Generated.glm_families Model.GLM Spec.GLM Proofs.C06_base Proofs.C06 Proofs.C06_infer.
Import ListNotations.
Local Open Scope R_scope.

(** observation [i] of the permuted data is observation [sigma_i] of the original data *)
Definition permute (v : list R) (sigma : list nat) : list R := map (fun i => nth i v 0) sigma.
Definition permute_rows (x : list R) (p : nat) (sigma : list nat) : list R :=
  map (fun k => nth (nth (k / p) sigma 0%nat * p + k mod p) x 0) (seq 0 (length sigma * p)).

Lemma lsum_perm l l' : Permutation l l' -> lsum l = lsum l'.
Proof. induction 1; simpl; lra. Qed.

Lemma bigsum_perm (g : nat -> R) sigma n :
  Permutation sigma (seq 0 n) -> bigsum (fun i => g (nth i sigma 0%nat)) n = bigsum g n.
Proof.
  intros P. assert (L : length sigma = n) by (rewrite (Permutation_length P), seq_length; reflexivity).
  rewrite !bigsum_lsum. rewrite <- L at 1. rewrite (map_nth_seq g sigma 0%nat).
  apply lsum_perm, Permutation_map, P.
Qed.

Lemma permute_length v sigma : length (permute v sigma) = length sigma.
Proof. apply map_length. Qed.
Lemma permute_nth v sigma i : (i < length sigma)%nat -> nth i (permute v sigma) 0 = nth (nth i sigma 0%nat) v 0.
Proof. intros H. unfold permute. rewrite (nth_map' _ _ _ _ 0%nat) by exact H. reflexivity. Qed.
Lemma permute_rows_length x p sigma : length (permute_rows x p sigma) = (length sigma * p)%nat.
Proof. unfold permute_rows. rewrite map_length, seq_length. reflexivity. Qed.
Lemma permute_rows_X x p sigma i j :
  (i < length sigma)%nat -> (j < p)%nat -> X (permute_rows x p sigma) p i j = X x p (nth i sigma 0%nat) j.
Proof.
  intros Hi Hj. unfold X, permute_rows. rewrite nth_map_seq by nia.
  replace ((i * p + j) / p)%nat with i by (apply Nat.div_unique with j; [lia|ring]).
  replace ((i * p + j) mod p)%nat with j by (apply Nat.mod_unique with i; [lia|ring]).
  reflexivity.
Qed.

Lemma map2_permute (g : R -> R -> R) a b (l : list nat) :
  map2 g (permute a l) (permute b l) = map (fun i => g (nth i a 0) (nth i b 0)) l.
Proof. unfold permute. induction l as [|s l IH]; [reflexivity|]. simpl. f_equal. exact IH. Qed.

Section Perm.
  Variables (x y mu dmu var w : list R) (n p : nat) (sigma : list nat).
  Hypothesis P : Permutation sigma (seq 0 n).
  Hypothesis Hn : (0 < n)%nat.
  Hypothesis Hx : length x = (n * p)%nat.
  Hypothesis Hy : length y = n.
  Hypothesis Hm : length mu = n.
  Hypothesis Hd : length dmu = n.
  Hypothesis Hv : length var = n.
  Hypothesis Hw : length w = n.

  Lemma sigma_length : length sigma = n.
  Proof. rewrite (Permutation_length P), seq_length; reflexivity. Qed.

  Lemma perm_dbeta :
    compute_dbeta RO (permute_rows x p sigma) (permute y sigma) (permute mu sigma) (permute dmu sigma)
                  (permute var sigma) (permute w sigma)
    = compute_dbeta RO x y mu dmu var w.
  Proof.
    pose proof sigma_length as L.
    destruct (compute_dbeta_spec x y mu dmu var w n p Hn Hx Hy Hm Hd Hv Hw) as (db & E & Ldb & Ent).
    destruct (compute_dbeta_spec (permute_rows x p sigma) (permute y sigma) (permute mu sigma) (permute dmu sigma)
                (permute var sigma) (permute w sigma) n p Hn) as (db' & E' & Ldb' & Ent');
      rewrite ?permute_rows_length, ?permute_length, ?L; auto.
    rewrite E, E'. f_equal. apply nth_ext with (d := 0) (d' := 0); [lia|].
    intros j Hj. rewrite Ldb' in Hj. rewrite Ent, Ent' by exact Hj. f_equal.
    rewrite <- (bigsum_perm (fun i => X x p i j * (nth i w 0 * (nth i y 0 - nth i mu 0) * (nth i dmu 0 / nth i var 0))) sigma n P).
    apply bigsum_ext. intros i Hi.
    rewrite permute_rows_X, !permute_nth by lia. reflexivity.
  Qed.

  Lemma perm_ddbeta :
    (0 < p)%nat ->
    compute_ddbeta RO (permute_rows x p sigma) (permute dmu sigma) (permute var sigma) (permute w sigma)
    = compute_ddbeta RO x dmu var w.
  Proof.
    intros Hp. pose proof sigma_length as L.
    destruct (compute_ddbeta_spec x dmu var w n p Hn Hp Hx Hd Hv Hw) as (dd & E & Ldd & Ent).
    destruct (compute_ddbeta_spec (permute_rows x p sigma) (permute dmu sigma)
                (permute var sigma) (permute w sigma) n p Hn Hp) as (dd' & E' & Ldd' & Ent');
      rewrite ?permute_rows_length, ?permute_length, ?L; auto.
    rewrite E, E'. f_equal. apply nth_ext with (d := 0) (d' := 0); [lia|].
    intros m Hmm. rewrite Ldd' in Hmm.
    assert (Ej : (m = (m / p) * p + m mod p)%nat) by (rewrite (Nat.div_mod m p) at 1 by lia; ring).
    assert (Hj : (m / p < p)%nat) by (apply Nat.div_lt_upper_bound; lia).
    assert (Hk : (m mod p < p)%nat) by (apply Nat.mod_upper_bound; lia).
    rewrite Ej, Ent, Ent' by assumption.
    rewrite <- (bigsum_perm (fun i => X x p i (m / p) * (X x p i (m mod p) * (nth i w 0 * (nth i dmu 0 * nth i dmu 0) / nth i var 0))) sigma n P).
    apply bigsum_ext. intros i Hi.
    rewrite !permute_rows_X, !permute_nth by lia. reflexivity.
  Qed.

  Lemma lsum_map2_permute (g : R -> R -> R) a b :
    length a = n -> length b = n ->
    lsum (map2 g (permute a sigma) (permute b sigma)) = lsum (map2 g a b).
  Proof.
    intros La Lb. rewrite (map2_permute g a b sigma).
    rewrite (lsum_perm _ _ (Permutation_map _ P)).
    rewrite (lsum_map2_bigsum g a b n La Lb), bigsum_lsum. reflexivity.
  Qed.

  Lemma perm_deviance f : deviance RO f (permute y sigma) (permute mu sigma) = deviance RO f y mu.
  Proof.
    pose proof sigma_length as L.
    unfold deviance. rewrite !permute_length, Hy, Hm, !Nat.eqb_refl. f_equal.
    destruct f; rewrite ?isum_R, ?dot_raw_R.
    - change (map2 (sub RO) (permute y sigma) (permute mu sigma)) with (map2 Rminus (permute y sigma) (permute mu sigma)).
      rewrite (map2_permute Rminus y mu sigma).
      assert (E : forall l : list nat, map2 Rmult (map (fun i => nth i y 0 - nth i mu 0) l) (map (fun i => nth i y 0 - nth i mu 0) l)
                  = map (fun i => (nth i y 0 - nth i mu 0) * (nth i y 0 - nth i mu 0)) l)
        by (induction l as [|s l IH]; simpl; [reflexivity|f_equal; exact IH]).
      change (map2 (sub RO) y mu) with (map2 Rminus y mu).
      rewrite E. rewrite (lsum_perm _ _ (Permutation_map _ P)).
      rewrite (lsum_map2_bigsum Rmult _ _ n) by (rewrite map2_length; lia).
      rewrite bigsum_lsum. f_equal. apply map_ext_in. intros i Hi. apply in_seq in Hi.
      rewrite (nth_map2 _ _ _ _ _ 0 0) by lia. reflexivity.
    - rewrite (lsum_map2_permute _ y mu Hy Hm). reflexivity.
    - rewrite (lsum_map2_permute _ y mu Hy Hm). reflexivity.
    - rewrite (lsum_map2_permute _ y mu Hy Hm). reflexivity.
    - rewrite (lsum_map2_permute _ y mu Hy Hm). reflexivity.
    - rewrite (lsum_map2_permute _ y mu Hy Hm). reflexivity.
  Qed.
End Perm.

(** ** Tie A: the regenerated [has_dispersion] table marks exactly the families with a free dispersion *)
Lemma has_dispersion_spec f : has_dispersion f = true <-> free_dispersion f.
Proof.
  unfold free_dispersion.
  split; [destruct f; cbn; intros H; try discriminate H; auto | intros [->|[->| ->]]; reflexivity].
Qed.

(** ** the tabulated derivative is the derivative of the tabulated inverse link *)
Lemma dmean_is_derivative f eta : derivable_pt_lim (mean_fn f) eta (dmean_fn f eta).
Proof.
  destruct f; cbn [mean_fn dmean_fn]; try apply derivable_pt_lim_exp.
  - apply derivable_pt_lim_id.
  - (* 1 / (1 + exp (- eta)) *)
    assert (D1 : derivable_pt_lim (fun e => 1 + exp (- e)) eta (0 + exp (- eta) * - 1)).
    { apply (derivable_pt_lim_plus (fun _ => 1) (fun e => exp (- e))).
      - apply derivable_pt_lim_const.
      - apply (derivable_pt_lim_comp (fun e => - e) exp).
        + apply (derivable_pt_lim_opp id eta 1), derivable_pt_lim_id.
        + apply derivable_pt_lim_exp. }
    pose proof (derivable_pt_lim_div (fun _ => 1) (fun e => 1 + exp (- e)) eta 0 _
                  (derivable_pt_lim_const 1 eta) D1 (exp_plus1_neq (- eta))) as D.
    replace (exp (- eta) / ((1 + exp (- eta)) * (1 + exp (- eta))))
      with ((0 * (1 + exp (- eta)) - (0 + exp (- eta) * -1) * 1) / Rsqr (1 + exp (- eta)))
      by (unfold Rsqr; field; apply exp_plus1_neq).
    exact D.
Qed.

(** ** the hypotheses used above are satisfiable on non-trivial instances *)
Example wf_data_ex : wf_data [1; 0; 1; 1; 1; 2] [0; 1; 3] [1; 2; 1] (Some [0; 0; 1]) 3 2.
Proof. unfold wf_data, off_ok. cbn [length]. repeat split; lia. Qed.

Example perm_ex : Permutation [2; 0; 1]%nat (seq 0 3).
Proof. cbn [seq]. apply Permutation_sym. eapply perm_trans; [apply perm_skip, perm_swap|]. eapply perm_trans; [apply perm_swap|]. apply Permutation_refl. Qed.

(** a solver for 1 x 1 systems that satisfies [solve_ok] (and returns a value whenever the pivot is non-zero) *)
Definition solve1 (a b : list R) : option (list R) :=
  match a, b with
  | [a0], [b0] => if Req_EM_T a0 0 then None else Some [b0 / a0]
  | _, _ => None
  end.
Example solve_ok_ex : forall a b s, solve1 a b = Some s ->
  length s = length b /\ forall j, (j < length b)%nat -> matvec a (length b) s j = nth j b 0.
Proof.
  intros [|a0 [|? ?]] [|b0 [|? ?]] s; cbn [solve1]; try discriminate.
  destruct (Req_EM_T a0 0) as [|N]; [discriminate|]. intros [= <-]. split; [reflexivity|].
  intros [|j] Hj; cbn [length] in Hj; [|lia]. unfold matvec. cbn. field. exact N.
Qed.
Example solve1_total : solve1 [2] [3] = Some [3 / 2].
Proof. unfold solve1. destruct (Req_EM_T 2 0); [lra|reflexivity]. Qed.

(** a 1 x 1 inverse routine that satisfies [inv_ok] *)
Definition inv1 (a : list R) : option (list R) :=
  match a with [a0] => if Req_EM_T a0 0 then None else Some [1 / a0] | _ => None end.
Example inv_ok_ex : forall a ai m, length a = (m * m)%nat -> inv1 a = Some ai ->
  length ai = (m * m)%nat /\
  forall j k, (j < m)%nat -> (k < m)%nat ->
    bigsum (fun l => nth (j * m + l) a 0 * nth (l * m + k) ai 0) m = if (j =? k)%nat then 1 else 0.
Proof.
  intros [|a0 [|? ?]] ai m L; cbn [inv1]; try discriminate.
  destruct (Req_EM_T a0 0) as [|N]; [discriminate|]. intros [= <-].
  cbn [length] in L. assert (m = 1%nat) by nia. subst m. split; [reflexivity|].
  intros [|j] [|k] Hj Hk; try lia. cbn. field. exact N.
Qed.

(** the Poisson domain condition of [deviance_formula] on counts with positive means *)
Example poisson_domain_ex :
  forall i, (i < length [0; 2; 5])%nat -> nth i [0; 2; 5] 0 = 0 \/ (0 < nth i [0; 2; 5] 0 /\ 0 < nth i [0.5; 1; 4] 0).
Proof. intros [|[|[|i]]] H; cbn [length] in H; try lia; cbn [nth]; [left; reflexivity|right; lra|right; lra]. Qed.

Lemma row_permutation_invariant (x y mu dmu var w : list R) (n p : nat) (sigma : list nat) :
  Permutation sigma (seq 0 n) -> (0 < n)%nat -> (0 < p)%nat -> length x = (n * p)%nat ->
  length y = n -> length mu = n -> length dmu = n -> length var = n -> length w = n ->
  compute_dbeta RO (permute_rows x p sigma) (permute y sigma) (permute mu sigma) (permute dmu sigma)
                (permute var sigma) (permute w sigma) = compute_dbeta RO x y mu dmu var w /\
  compute_ddbeta RO (permute_rows x p sigma) (permute dmu sigma) (permute var sigma) (permute w sigma)
    = compute_ddbeta RO x dmu var w /\
  forall f, deviance RO f (permute y sigma) (permute mu sigma) = deviance RO f y mu.
Proof.
  intros P Hn Hp Hx Hy Hm Hd Hv Hw. split; [|split].
  - eapply perm_dbeta; eassumption.
  - eapply perm_ddbeta; eassumption.
  - intros f. eapply perm_deviance; eassumption.
Qed.

Lemma d_inv_link_is_derivative (f : family) (eta : R) :
  derivable_pt_lim (mean_fn f) eta (d_inv_link1 RO f eta (inv_link1 RO f eta)).
Proof. rewrite inv_link1_spec, d_inv_link1_spec. apply dmean_is_derivative. Qed.
