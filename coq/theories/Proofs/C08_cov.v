(** * C08, covariance: the four algorithms equal the definition on the reals (repaired tree). *)
From Coq Require Import List Arith ZArith Reals Lra Lia.
From Compute Require Import Base.Ops Base.ListMat Model.Reduce Model.Stats Spec.Stats Proofs.C08_moments.
Import ListNotations.
Local Open Scope R_scope.

(** ** paired data as a list of pairs *)
Definition Sx (p : list (R * R)) : R := Rsum (map fst p).
Definition Sy (p : list (R * R)) : R := Rsum (map snd p).
Definition Sxy (p : list (R * R)) : R := Rsum (map (fun q => fst q * snd q) p).

Lemma map2_combine : forall {A B C} (f : A -> B -> C) x y,
  map2 f x y = map (fun q => f (fst q) (snd q)) (combine x y).
Proof. induction x as [|a x IH]; intros [|b y]; cbn; try reflexivity. rewrite IH. reflexivity. Qed.

Lemma map_fst_combine : forall {A B} (x : list A) (y : list B), length x = length y -> map fst (combine x y) = x.
Proof. induction x as [|a x IH]; intros [|b y] H; cbn in *; try reflexivity; try discriminate. rewrite IH by lia. reflexivity. Qed.
Lemma map_snd_combine : forall {A B} (x : list A) (y : list B), length x = length y -> map snd (combine x y) = y.
Proof. induction x as [|a x IH]; intros [|b y] H; cbn in *; try reflexivity; try discriminate. rewrite IH by lia. reflexivity. Qed.
Lemma combine_length_eq : forall {A B} (x : list A) (y : list B), length x = length y -> length (combine x y) = length x.
Proof. intros. rewrite combine_length. lia. Qed.

Lemma isum_RO : forall l, isum RO l = Rsum l.
Proof. intros l. unfold isum. rewrite fold_left_Rplus. cbn [neg zero RO]. lra. Qed.

(** Σ (xᵢ - a)(yᵢ - b) = Sxy - a Sy - b Sx + n a b *)
Lemma cross_expand : forall p a b,
  Rsum (map (fun q => (fst q - a) * (snd q - b)) p) = Sxy p - a * Sy p - b * Sx p + INR (length p) * a * b.
Proof.
  unfold Sxy, Sx, Sy, Rsum. induction p as [|[u v] p IH]; intros a b.
  - cbn. ring.
  - cbn [map fold_right length fst snd]. rewrite IH, S_INR. ring.
Qed.
Lemma dev_sum : forall (f : R * R -> R) p a,
  Rsum (map (fun q => f q - a) p) = Rsum (map f p) - INR (length p) * a.
Proof.
  unfold Rsum. induction p as [|q p IH]; intros a.
  - cbn. ring.
  - cbn [map fold_right length]. rewrite IH, S_INR. ring.
Qed.

Lemma scp_pairs : forall x y, length x = length y ->
  scp x y = Rsum (map (fun q => (fst q - Sx (combine x y) / INR (length x)) * (snd q - Sy (combine x y) / INR (length x))) (combine x y)).
Proof.
  intros x y H. unfold scp, mean_def, Sx, Sy. rewrite map2_combine, map_fst_combine, map_snd_combine by exact H.
  rewrite <- H. reflexivity.
Qed.

Lemma scp_closed : forall x y, length x = length y -> x <> [] ->
  scp x y = Sxy (combine x y) - Sx (combine x y) * Sy (combine x y) / INR (length x).
Proof.
  intros x y H Hx. rewrite scp_pairs by exact H. rewrite cross_expand, combine_length_eq by exact H.
  assert (Hn : INR (length x) <> 0) by (apply not_0_INR; destruct x; [congruence|cbn; lia]).
  field; auto.
Qed.

(** ** two-pass algorithms: the definition verbatim *)
Theorem covariance_is_def : forall x y, length x = length y -> covariance RO x y = Some (cov_def x y).
Proof.
  intros x y H. unfold covariance. rewrite (proj2 (Nat.eqb_eq _ _) H).
  unfold centred_products. rewrite isum_RO, !mean_RO, ofN_RO. reflexivity.
Qed.
Theorem sample_covariance_is_def : forall x y, length x = length y -> (2 <= length x)%nat ->
  sample_covariance RO x y = Some (sample_cov_def x y).
Proof.
  intros x y H H2. unfold sample_covariance. rewrite (proj2 (Nat.eqb_eq _ _) H).
  unfold centred_products. rewrite isum_RO, !mean_RO, usize_pred_RO by lia. reflexivity.
Qed.

(** ** rejection: vectors of different lengths panic, in every algorithm, on every carrier *)
Theorem covariance_rejects : forall {T} (O : Ops T) x y, length x <> length y ->
  covariance O x y = None /\ sample_covariance O x y = None /\
  sample_covariance_onepass O x y = None /\ sample_covariance_online O x y = None.
Proof.
  intros T O x y H. apply Nat.eqb_neq in H.
  unfold covariance, sample_covariance, sample_covariance_onepass, sample_covariance_online. rewrite H. auto.
Qed.

(** ** shifted one-pass algorithm *)
Lemma onepass_fold : forall x0 y0 p a b c,
  fold_left (onepass_step RO x0 y0) p (a, b, c) =
  (a + Rsum (map (fun q => fst q - x0) p), b + Rsum (map (fun q => snd q - y0) p),
   c + Rsum (map (fun q => (fst q - x0) * (snd q - y0)) p)).
Proof.
  unfold Rsum. induction p as [|q p IH]; intros a b c.
  - cbn. f_equal; [f_equal|]; ring.
  - cbn [fold_left map fold_right]. unfold onepass_step at 2. rewrite IH. cbn [add sub mul RO].
    f_equal; [f_equal|]; ring.
Qed.

Theorem onepass_is_def : forall x y, length x = length y -> (2 <= length x)%nat ->
  sample_covariance_onepass RO x y = Some (sample_cov_def x y).
Proof.
  intros x y H H2. assert (Hx : x <> []) by (destruct x; [cbn in H2; lia|congruence]).
  unfold sample_covariance_onepass, onepass_sums. rewrite (proj2 (Nat.eqb_eq _ _) H).
  cbn [zero RO]. rewrite onepass_fold. rewrite ofN_RO, usize_pred_RO by lia.
  unfold sample_cov_def. rewrite scp_closed by assumption.
  rewrite cross_expand, (dev_sum fst), (dev_sum snd), combine_length_eq by exact H.
  fold (Sx (combine x y)) (Sy (combine x y)).
  assert (Hn : INR (length x) <> 0) by (apply not_0_INR; lia).
  assert (Hn1 : INR (length x - 1) <> 0) by (apply not_0_INR; lia).
  cbn [add sub mul div RO]. f_equal. field; auto.
Qed.

(** ** online algorithm: invariant (Sx/k, Sy/k, Sxy - Sx Sy/k, k) after k pairs *)
Lemma online_closed : forall p,
  fold_left (online_step RO) p (0, 0, 0, 0) =
  (Sx p / INR (length p), Sy p / INR (length p), Sxy p - Sx p * Sy p / INR (length p), INR (length p)).
Proof.
  induction p as [|[u v] p IH] using rev_ind.
  - cbn. unfold Sx, Sy, Sxy. cbn. (apply f_equal2; [apply f_equal2; [apply f_equal2|]|]); unfold Rdiv; ring.
  - rewrite fold_left_app, IH. cbn [fold_left]. unfold online_step.
    unfold Sx, Sy, Sxy. rewrite !map_app, !Rsum_app, app_length. cbn [map Rsum fold_right length fst snd].
    fold (Sx p) (Sy p) (Sxy p).
    replace (length p + 1)%nat with (S (length p)) by lia. rewrite S_INR.
    cbn [add sub mul div one RO].
    destruct p as [|q p'].
    + cbn. unfold Sx, Sy, Sxy. cbn. unfold Rdiv. rewrite !Rplus_0_l, Rinv_1.
      (apply f_equal2; [apply f_equal2; [apply f_equal2|]|]); ring.
    + set (n := length (q :: p')) in *.
      assert (Hn : INR n <> 0) by (apply not_0_INR; subst n; cbn; lia).
      assert (HSn : INR n + 1 <> 0) by (rewrite <- S_INR; apply not_0_INR; lia).
      (apply f_equal2; [apply f_equal2; [apply f_equal2|]|]); field; auto.
Qed.

Theorem online_is_def : forall x y, length x = length y -> (2 <= length x)%nat ->
  sample_covariance_online RO x y = Some (sample_cov_def x y).
Proof.
  intros x y H H2. assert (Hx : x <> []) by (destruct x; [cbn in H2; lia|congruence]).
  unfold sample_covariance_online, online_state. rewrite (proj2 (Nat.eqb_eq _ _) H).
  cbn [zero RO]. rewrite online_closed, combine_length_eq by exact H.
  unfold sample_cov_def. rewrite scp_closed by assumption.
  cbn [sub div one RO]. f_equal. rewrite minus_INR by lia. reflexivity.
Qed.

(** the online invariant after every prefix, in textbook form *)
Theorem online_invariant : forall x y, length x = length y -> x <> [] ->
  online_state RO x y = (mean_def x, mean_def y, scp x y, INR (length x)).
Proof.
  intros x y H Hx. unfold online_state. cbn [zero RO]. rewrite online_closed, combine_length_eq by exact H.
  rewrite scp_closed by assumption. unfold mean_def, Sx, Sy.
  rewrite map_fst_combine, map_snd_combine by exact H. rewrite <- H. reflexivity.
Qed.

(** ** the algorithms agree *)
Theorem cov_algorithms_agree : forall x y, length x = length y -> (2 <= length x)%nat ->
  sample_covariance_onepass RO x y = sample_covariance RO x y /\
  sample_covariance_online RO x y = sample_covariance RO x y.
Proof. intros x y H H2. rewrite onepass_is_def, online_is_def, sample_covariance_is_def by assumption. auto. Qed.

(** ** shift invariance and bilinearity *)
Lemma map2_map : forall {A B C D E} (f : C -> D -> E) (g : A -> C) (h : B -> D) x y,
  map2 f (map g x) (map h y) = map2 (fun a b => f (g a) (h b)) x y.
Proof. induction x as [|a x IH]; intros [|b y]; cbn; try reflexivity. rewrite IH. reflexivity. Qed.
Lemma map2_ext : forall {A B C} (f g : A -> B -> C) x y, (forall a b, f a b = g a b) -> map2 f x y = map2 g x y.
Proof. intros A B C f g x y H. induction x as [|a x IH] in y |- *; destruct y as [|b y]; cbn; try reflexivity. rewrite H, IH. reflexivity. Qed.
Lemma Rsum_map2_scale : forall (f : R -> R -> R) k x y,
  Rsum (map2 (fun a b => k * f a b) x y) = k * Rsum (map2 f x y).
Proof.
  unfold Rsum. intros f k. induction x as [|a x IH]; intros [|b y]; cbn; try ring. rewrite IH. ring.
Qed.

Lemma scp_shift : forall x y c d, x <> [] -> y <> [] ->
  scp (map (fun a => a + c) x) (map (fun b => b + d) y) = scp x y.
Proof.
  intros x y c d Hx Hy. unfold scp. rewrite !mean_def_shift by assumption. rewrite map2_map.
  f_equal. apply map2_ext. intros a b. ring.
Qed.
Lemma scp_scale : forall x y s t,
  scp (map (fun a => s * a) x) (map (fun b => t * b) y) = s * t * scp x y.
Proof.
  intros x y s t. unfold scp. rewrite !mean_def_scale, map2_map. rewrite <- Rsum_map2_scale.
  f_equal. apply map2_ext. intros a b. ring.
Qed.

Theorem covariance_shift : forall x y c d, length x = length y -> x <> [] ->
  covariance RO (map (fun a => a + c) x) (map (fun b => b + d) y) = covariance RO x y.
Proof.
  intros x y c d H Hx. assert (Hy : y <> []) by (destruct y; [destruct x; [congruence|discriminate]|congruence]).
  rewrite !covariance_is_def by (rewrite ?map_length; exact H).
  unfold cov_def. rewrite scp_shift, map_length by assumption. reflexivity.
Qed.
Theorem covariance_bilinear : forall x y s t, length x = length y ->
  covariance RO (map (fun a => s * a) x) (map (fun b => t * b) y) = option_map (Rmult (s * t)) (covariance RO x y).
Proof.
  intros x y s t H. rewrite !covariance_is_def by (rewrite ?map_length; exact H).
  unfold cov_def. rewrite scp_scale, map_length. cbn. f_equal. unfold Rdiv. ring.
Qed.
Theorem sample_covariance_shift : forall x y c d, length x = length y -> (2 <= length x)%nat ->
  sample_covariance RO (map (fun a => a + c) x) (map (fun b => b + d) y) = sample_covariance RO x y /\
  sample_covariance_onepass RO (map (fun a => a + c) x) (map (fun b => b + d) y) = sample_covariance_onepass RO x y /\
  sample_covariance_online RO (map (fun a => a + c) x) (map (fun b => b + d) y) = sample_covariance_online RO x y.
Proof.
  intros x y c d H H2.
  assert (Hx : x <> []) by (destruct x; [cbn in H2; lia|congruence]).
  assert (Hy : y <> []) by (destruct y; [destruct x; [congruence|discriminate]|congruence]).
  rewrite !onepass_is_def, !online_is_def, !sample_covariance_is_def by (rewrite ?map_length; assumption).
  unfold sample_cov_def. rewrite scp_shift, map_length by assumption. auto.
Qed.
Theorem sample_covariance_bilinear : forall x y s t, length x = length y -> (2 <= length x)%nat ->
  sample_covariance RO (map (fun a => s * a) x) (map (fun b => t * b) y) = option_map (Rmult (s * t)) (sample_covariance RO x y) /\
  sample_covariance_onepass RO (map (fun a => s * a) x) (map (fun b => t * b) y) = option_map (Rmult (s * t)) (sample_covariance_onepass RO x y) /\
  sample_covariance_online RO (map (fun a => s * a) x) (map (fun b => t * b) y) = option_map (Rmult (s * t)) (sample_covariance_online RO x y).
Proof.
  intros x y s t H H2.
  rewrite !onepass_is_def, !online_is_def, !sample_covariance_is_def by (rewrite ?map_length; assumption).
  unfold sample_cov_def. rewrite scp_scale, map_length. cbn.
  replace (s * t * scp x y / INR (length x - 1)) with (s * t * (scp x y / INR (length x - 1))) by (unfold Rdiv; ring).
  auto.
Qed.

(** covariance of a vector with itself is its variance *)
Lemma map2_diag : forall {A C} (f : A -> A -> C) x, map2 f x x = map (fun a => f a a) x.
Proof. induction x as [|a x IH]; cbn; [reflexivity|]. rewrite IH. reflexivity. Qed.
Theorem covariance_self : forall x, x <> [] -> covariance RO x x = Some (var RO x).
Proof.
  intros x Hx. rewrite covariance_is_def, var_is_def by auto. unfold cov_def, var_def, scp, ssd.
  rewrite map2_diag. reflexivity.
Qed.
Theorem sample_covariance_self : forall x, (2 <= length x)%nat -> sample_covariance RO x x = Some (sample_var RO x).
Proof.
  intros x Hx. rewrite sample_covariance_is_def, sample_var_is_def by auto. unfold sample_cov_def, sample_var_def, scp, ssd.
  rewrite map2_diag. reflexivity.
Qed.
