(** Proofs for C02 (densities, mass functions, moments) on the real carrier. *)
From Coq Require Import Reals List ZArith Lra Lia Bool QArith.
From Compute Require Import Base.Ops Model.Dists Spec.Densities.
Import ListNotations.
Open Scope R_scope.

(** ** the literal of gumbel.rs is the nearest binary64 of its decimal text *)
Lemma euler_lit_ok : lit_ok euler_lit = true.
Proof. vm_compute. reflexivity. Qed.

(** ** comparisons on [RO] *)
Lemma Rltb_true x y : Rltb x y = true <-> x < y.
Proof. unfold Rltb. destruct (Rlt_dec x y); split; intros; try assumption; try reflexivity; try discriminate; contradiction. Qed.
Lemma Rltb_false x y : Rltb x y = false <-> y <= x.
Proof. unfold Rltb. destruct (Rlt_dec x y); split; intros; try reflexivity; try discriminate; lra. Qed.
Lemma Rleb_true x y : Rleb x y = true <-> x <= y.
Proof. unfold Rleb. destruct (Rle_dec x y); split; intros; try assumption; try reflexivity; try discriminate; contradiction. Qed.
Lemma Rleb_false x y : Rleb x y = false <-> y < x.
Proof. unfold Rleb. destruct (Rle_dec x y); split; intros; try reflexivity; try discriminate; lra. Qed.
Lemma Reqb_true x y : Reqb x y = true <-> x = y.
Proof. unfold Reqb. destruct (Req_EM_T x y); split; intros; try assumption; try reflexivity; try discriminate; contradiction. Qed.
Lemma Reqb_false x y : Reqb x y = false <-> x <> y.
Proof. unfold Reqb. destruct (Req_EM_T x y); split; intros; try assumption; try reflexivity; try discriminate; contradiction. Qed.

Lemma powi2_R x : powi RO x 2 = x * x.
Proof. cbn. ring. Qed.
Lemma two_R : two RO = 2.
Proof. reflexivity. Qed.
Lemma half_R : ofQ RO (1 # 2)%Q = / 2.
Proof. cbn. unfold Q2R. cbn. lra. Qed.

Ltac ro := cbn [add sub mul div neg zero one ltb leb eqb f1 f2 RO Rf1 Rf2 ofZ ofQ pi Ops.sqrt abs ofLit].
Ltac ro_in H := cbn [add sub mul div neg zero one ltb leb eqb f1 f2 RO Rf1 Rf2 ofZ ofQ pi Ops.sqrt abs ofLit] in H.

(** ** validity: the constructors' guards decide the parameter domain *)
Lemma in_unit_R p : in_unit RO p = true <-> 0 <= p <= 1.
Proof.
  unfold in_unit. ro. rewrite andb_true_iff, !Rleb_true. tauto.
Qed.
Lemma valid_iff (d : dist R) : valid RO d = true <-> valid_params d.
Proof.
  destruct d; unfold valid, valid_params; ro;
    rewrite ?in_unit_R, ?andb_true_iff, ?negb_true_iff, ?orb_false_iff, ?Rleb_false, ?Rltb_false, ?Rltb_true,
      ?Z.leb_le, ?Z.ltb_lt, ?Z.ltb_ge, ?in_unit_R; tauto.
Qed.


(** ** continuous laws: the code's formula is the textbook formula *)
Section Continuous.
  Context (Gam : R -> R).

  Lemma pdf_normal_textbook mu s x : pdf_normal RO mu s x = spec_pdf_normal mu s x.
  Proof.
    unfold pdf_normal, spec_pdf_normal. rewrite powi2_R, half_R. ro. rewrite two_R.
    replace (- / 2 * ((x - mu) / s * ((x - mu) / s))) with (- ((x - mu) / s) ^ 2 / 2) by (unfold Rdiv; simpl; ring).
    unfold Rdiv at 1. rewrite Rmult_1_l. reflexivity.
  Qed.

  (** [pinf] is 1/0: 0 on the reals ([Rinv_0]), so the guard [x == f64::INFINITY] never fires for x > 0 *)
  Lemma pinf_R : pinf RO = 0.
  Proof. unfold pinf. ro. unfold Rdiv. rewrite Rinv_0. ring. Qed.
  Lemma Reqb_pinf_false x : 0 < x -> Reqb x (pinf RO) = false.
  Proof. intros Hx. rewrite pinf_R. apply Reqb_false. lra. Qed.

  Lemma pdf_gamma_textbook a b x : 0 < x -> pdf_gamma RO Gam a b x = spec_pdf_gamma Gam a b x.
  Proof.
    intros Hx. unfold pdf_gamma, spec_pdf_gamma. ro.
    replace (Rleb x 0) with false by (symmetry; apply Rleb_false; exact Hx).
    rewrite (Reqb_pinf_false x Hx). cbn [orb]. unfold Rpower.
    replace (a * ln b + (a - 1) * ln x - b * x) with (a * ln b + ((a - 1) * ln x + - (b * x))) by ring.
    rewrite !exp_plus. unfold Rdiv. ring.
  Qed.
  Lemma pdf_gamma_outside a b x : x <= 0 -> pdf_gamma RO Gam a b x = 0.
  Proof. intros Hx. unfold pdf_gamma. ro. replace (Rleb x 0) with true by (symmetry; apply Rleb_true; exact Hx). reflexivity. Qed.

  Lemma pdf_beta_textbook a b x :
    0 <= x <= 1 -> pdf_beta RO (Beta_fn Gam) a b x = spec_pdf_beta Gam a b x.
  Proof.
    intros Hx. unfold pdf_beta, spec_pdf_beta.
    replace (in_unit RO x) with true by (symmetry; apply in_unit_R; exact Hx). reflexivity.
  Qed.
  Lemma pdf_beta_outside Bet a b x : x < 0 \/ 1 < x -> pdf_beta RO Bet a b x = 0.
  Proof.
    intros Hx. unfold pdf_beta.
    replace (in_unit RO x) with false; [reflexivity|].
    symmetry. apply not_true_is_false. rewrite in_unit_R. lra.
  Qed.

  Lemma pdf_chisq_textbook k x : 0 < x -> pdf_chisq RO Gam k x = spec_pdf_chisq Gam k x.
  Proof.
    intros Hx. unfold pdf_chisq, spec_pdf_chisq. ro.
    replace (Rleb x 0) with false by (symmetry; apply Rleb_false; exact Hx).
    replace (Rltb x 0) with false by (symmetry; apply Rltb_false; lra).
    rewrite andb_false_r. cbn [orb]. cbv zeta.
    replace (Reqb x 0) with false by (symmetry; apply Reqb_false; lra).
    rewrite (Reqb_pinf_false x Hx). rewrite two_R. unfold Rpower at 3.
    replace ((IZR k / 2 - 1) * ln x - x / 2) with ((IZR k / 2 - 1) * ln x + - (x / 2)) by ring.
    rewrite exp_plus. unfold Rdiv. ring.
  Qed.
  (** at the boundary x = 0 the code returns the limit of the density from the right for dof >= 2: 1/(2 Gam 1) for dof = 2, 0 above *)
  Lemma pdf_chisq_at_zero k : (2 <= k)%Z -> pdf_chisq RO Gam k 0 = if (k =? 2)%Z then / (2 * Gam 1) else 0.
  Proof.
    intros Hk. unfold pdf_chisq. ro.
    replace (k =? 1)%Z with false by (symmetry; apply Z.eqb_neq; lia).
    replace (Rltb 0 0) with false by (symmetry; apply Rltb_false; lra).
    cbn [andb orb]. cbv zeta. replace (Reqb 0 0) with true by (symmetry; apply Reqb_true; reflexivity).
    destruct (k =? 2)%Z eqn:E; [|reflexivity]. apply Z.eqb_eq in E. subst k. rewrite two_R.
    replace (2 / 2) with 1 by field. rewrite Rpower_1 by lra. unfold Rdiv. ring.
  Qed.
  Lemma pdf_chisq_outside k x : x < 0 -> pdf_chisq RO Gam k x = 0.
  Proof.
    intros Hx. unfold pdf_chisq. ro.
    replace (Rltb x 0) with true by (symmetry; apply Rltb_true; exact Hx).
    rewrite orb_true_r. reflexivity.
  Qed.
  Lemma pdf_chisq_outside_dof1 x : x <= 0 -> pdf_chisq RO Gam 1 x = 0.
  Proof.
    intros Hx. unfold pdf_chisq. ro.
    replace (Rleb x 0) with true by (symmetry; apply Rleb_true; exact Hx). reflexivity.
  Qed.

  Lemma pdf_t_textbook nu x : pdf_t RO Gam nu x = spec_pdf_t Gam nu x.
  Proof.
    unfold pdf_t, spec_pdf_t. rewrite powi2_R. ro. rewrite two_R.
    replace (x ^ 2) with (x * x) by (simpl; ring).
    replace (- (nu + 1) / 2) with (- ((nu + 1) / 2)) by (unfold Rdiv; ring). reflexivity.
  Qed.

  Lemma pdf_pareto_textbook a m x : m <= x -> pdf_pareto RO a m x = spec_pdf_pareto a m x.
  Proof.
    intros Hx. unfold pdf_pareto, spec_pdf_pareto. ro.
    replace (Rltb x m) with false by (symmetry; apply Rltb_false; exact Hx). reflexivity.
  Qed.
  Lemma pdf_pareto_outside a m x : x < m -> pdf_pareto RO a m x = 0.
  Proof. intros Hx. unfold pdf_pareto. ro. replace (Rltb x m) with true by (symmetry; apply Rltb_true; exact Hx). reflexivity. Qed.

  Lemma pdf_gumbel_textbook mu b x : pdf_gumbel RO mu b x = spec_pdf_gumbel mu b x.
  Proof. unfold pdf_gumbel, spec_pdf_gumbel. ro. unfold Rdiv at 1. rewrite Rmult_1_l. reflexivity. Qed.

  Lemma pdf_exponential_textbook l x : 0 <= x -> pdf_exponential RO l x = spec_pdf_exponential l x.
  Proof.
    intros Hx. unfold pdf_exponential, spec_pdf_exponential. ro.
    replace (Rltb x 0) with false by (symmetry; apply Rltb_false; exact Hx).
    replace (- l * x) with (- (l * x)) by ring. reflexivity.
  Qed.
  Lemma pdf_exponential_outside l x : x < 0 -> pdf_exponential RO l x = 0.
  Proof. intros Hx. unfold pdf_exponential. ro. replace (Rltb x 0) with true by (symmetry; apply Rltb_true; exact Hx). reflexivity. Qed.

  Lemma pdf_uniform_textbook lo hi x : lo <= x <= hi -> pdf_uniform RO lo hi x = spec_pdf_uniform lo hi.
  Proof.
    intros Hx. unfold pdf_uniform, spec_pdf_uniform. ro.
    replace (Rltb x lo) with false by (symmetry; apply Rltb_false; lra).
    replace (Rltb hi x) with false by (symmetry; apply Rltb_false; lra).
    cbn [orb]. unfold Rdiv. rewrite Rmult_1_l. reflexivity.
  Qed.
  Lemma pdf_uniform_outside lo hi x : x < lo \/ hi < x -> pdf_uniform RO lo hi x = 0.
  Proof.
    intros [Hx|Hx]; unfold pdf_uniform; ro.
    - replace (Rltb x lo) with true by (symmetry; apply Rltb_true; exact Hx). reflexivity.
    - replace (Rltb hi x) with true by (symmetry; apply Rltb_true; exact Hx). rewrite orb_true_r. reflexivity.
  Qed.

  (** Normal: own log-density, and the distribution function through [Erf] *)
  Lemma ln_pdf_normal_is_ln mu s x : 0 < s -> ln_pdf_normal RO mu s x = ln (pdf_normal RO mu s x).
  Proof.
    intros Hs. unfold ln_pdf_normal, pdf_normal. ro.
    assert (Hq : 0 < R_sqrt.sqrt (two RO * PI)).
    { apply sqrt_lt_R0. rewrite two_R. pose proof PI_RGT_0. lra. }
    assert (Hd : 0 < s * R_sqrt.sqrt (two RO * PI)) by (apply Rmult_lt_0_compat; assumption).
    set (d := s * R_sqrt.sqrt (two RO * PI)) in *. set (e := - Q2R (1 # 2) * powi RO ((x - mu) / s) 2).
    assert (Hi : 0 < 1 / d) by (unfold Rdiv; rewrite Rmult_1_l; apply Rinv_0_lt_compat; exact Hd).
    rewrite (ln_mult (1 / d) (exp e) Hi (exp_pos e)), ln_exp.
    unfold Rdiv. rewrite Rmult_1_l, ln_Rinv by exact Hd. ring.
  Qed.
  Lemma cdf_normal_formula Erf mu s x : cdf_normal RO Erf mu s x = spec_cdf_normal Erf mu s x.
  Proof. unfold cdf_normal, spec_cdf_normal. rewrite half_R. ro. rewrite two_R. field. Qed.
End Continuous.

(** ** discrete laws *)
Lemma fold_left_Rplus l s : fold_left Rplus l s = s + fold_right Rplus 0 l.
Proof. revert s. induction l as [|a l IH]; intros s; cbn [fold_left fold_right]; [ring|rewrite IH; ring]. Qed.
Lemma iter_sum_R l : iter_sum RO l = fold_right Rplus 0 l.
Proof. unfold iter_sum, sum_from. ro. rewrite fold_left_Rplus. ring. Qed.
Lemma fold_right_Rplus_app l1 l2 : fold_right Rplus 0 (l1 ++ l2) = fold_right Rplus 0 l1 + fold_right Rplus 0 l2.
Proof. induction l1 as [|a l1 IH]; cbn [app fold_right]; [ring|rewrite IH; ring]. Qed.
Lemma Zseq_snoc lo m : Zseq lo (S m) = Zseq lo m ++ [(lo + Z.of_nat m)%Z].
Proof.
  revert lo. induction m as [|m IH]; intros lo.
  - cbn. rewrite Z.add_0_r. reflexivity.
  - change (Zseq lo (S (S m))) with (lo :: Zseq (lo + 1) (S m)). rewrite IH.
    cbn [Zseq app]. do 3 f_equal. lia.
Qed.
Lemma Zseq_length lo m : length (Zseq lo m) = m.
Proof. revert lo. induction m; intros; cbn; [reflexivity|rewrite IHm; reflexivity]. Qed.

Lemma pmf_bernoulli_textbook p k : (k = 0 \/ k = 1)%Z -> pmf_bernoulli RO p k = spec_pmf_bernoulli p k.
Proof. intros [->| ->]; reflexivity. Qed.
Lemma pmf_bernoulli_outside p k : (k <> 0 /\ k <> 1)%Z -> pmf_bernoulli RO p k = 0.
Proof.
  intros [H0 H1]. unfold pmf_bernoulli.
  destruct (Z.eqb_spec k 0); [contradiction|]. destruct (Z.eqb_spec k 1); [contradiction|]. reflexivity.
Qed.

Lemma pmf_duniform_textbook lo hi k : (lo <= k <= hi)%Z -> pmf_duniform RO lo hi k = spec_pmf_duniform lo hi.
Proof.
  intros Hk. unfold pmf_duniform, spec_pmf_duniform.
  replace (k <? lo)%Z with false by (symmetry; apply Z.ltb_ge; lia).
  replace (hi <? k)%Z with false by (symmetry; apply Z.ltb_ge; lia).
  ro. unfold Rdiv. rewrite Rmult_1_l. reflexivity.
Qed.
Lemma pmf_duniform_outside lo hi k : (k < lo \/ hi < k)%Z -> pmf_duniform RO lo hi k = 0.
Proof.
  intros Hk. unfold pmf_duniform.
  destruct (Z.ltb_spec k lo); [reflexivity|]. destruct (Z.ltb_spec hi k); [reflexivity|lia].
Qed.

(** Poisson: the log-space evaluation is lambda^k e^-lambda / k! *)
Lemma ln_fact_sum m :
  fold_right Rplus 0 (map (fun i => ln (IZR i)) (Zseq 2 m)) = ln (INR (fact (S m))).
Proof.
  induction m as [|m IH].
  - cbn. rewrite ln_1. reflexivity.
  - rewrite Zseq_snoc, map_app, fold_right_Rplus_app, IH. cbn [map fold_right].
    rewrite Rplus_0_r.
    replace (IZR (2 + Z.of_nat m)) with (INR (S (S m))) by (rewrite INR_IZR_INZ; f_equal; lia).
    rewrite <- ln_mult; [|apply INR_fact_lt_0|apply lt_0_INR; lia].
    f_equal. change (fact (S (S m))) with (S (S m) * fact (S m))%nat. rewrite mult_INR. ring.
Qed.
Lemma ln_factorial_R (k : nat) : ln_factorial RO (Z.of_nat k) = ln (INR (fact k)).
Proof.
  unfold ln_factorial. rewrite iter_sum_R. ro.
  destruct k as [|k].
  - cbn. rewrite ln_1. reflexivity.
  - replace (Z.to_nat (Z.of_nat (S k) - 1)) with k by lia. apply ln_fact_sum.
Qed.
Lemma exp_INR_ln x (k : nat) : 0 < x -> exp (INR k * ln x) = x ^ k.
Proof. intros Hx. rewrite <- Rpower_pow by exact Hx. reflexivity. Qed.

Lemma pmf_poisson_textbook l (k : nat) : 0 < l -> pmf_poisson RO l (Z.of_nat k) = spec_pmf_poisson l k.
Proof.
  intros Hl. unfold pmf_poisson, spec_pmf_poisson.
  replace (Z.of_nat k <? 0)%Z with false by (symmetry; apply Z.ltb_ge; lia).
  rewrite ln_factorial_R. ro. rewrite <- INR_IZR_INZ.
  unfold Rminus. rewrite !exp_plus, exp_INR_ln by exact Hl.
  rewrite (exp_Ropp (ln _)), exp_ln by apply INR_fact_lt_0. reflexivity.
Qed.
Lemma pmf_poisson_outside l k : (k < 0)%Z -> pmf_poisson RO l k = 0.
Proof. intros Hk. unfold pmf_poisson. replace (k <? 0)%Z with true by (symmetry; apply Z.ltb_lt; exact Hk). reflexivity. Qed.

(** Binomial: the log-space evaluation is C(n,k) p^k (1-p)^(n-k) *)
Lemma C_pos n m : (m <= n)%nat -> 0 < C n m.
Proof.
  intros _. unfold C. apply Rdiv_lt_0_compat; [apply INR_fact_lt_0|].
  apply Rmult_lt_0_compat; apply INR_fact_lt_0.
Qed.
Lemma C_step n m : (m < n)%nat -> C n (S m) = C n m * (INR (n - m) / INR (S m)).
Proof.
  intros Hm. unfold C.
  replace (n - m)%nat with (S (n - S m)) by lia.
  change (fact (S (n - S m))) with (S (n - S m) * fact (n - S m))%nat.
  change (fact (S m)) with (S m * fact m)%nat.
  rewrite !mult_INR.
  pose proof (INR_fact_neq_0 m). pose proof (INR_fact_neq_0 (n - S m)).
  assert (INR (S m) <> 0) by (apply not_0_INR; lia).
  assert (INR (S (n - S m)) <> 0) by (apply not_0_INR; lia).
  field. repeat split; assumption.
Qed.
Lemma ln_coeff_sum (n m : nat) : (m <= n)%nat ->
  fold_right Rplus 0 (map (fun i => ln (IZR (Z.of_nat n - i + 1) / IZR i)) (Zseq 1 m)) = ln (C n m).
Proof.
  induction m as [|m IH]; intros Hm.
  - cbn [Zseq map fold_right]. unfold C. rewrite Nat.sub_0_r. cbn [fact].
    replace (INR (fact n) / (INR 1 * INR (fact n))) with 1; [rewrite ln_1; reflexivity|].
    cbn [INR]. field. apply INR_fact_neq_0.
  - rewrite Zseq_snoc, map_app, fold_right_Rplus_app, IH by lia. cbn [map fold_right]. rewrite Rplus_0_r.
    replace (IZR (Z.of_nat n - (1 + Z.of_nat m) + 1)) with (INR (n - m)) by (rewrite INR_IZR_INZ; f_equal; lia).
    replace (IZR (1 + Z.of_nat m)) with (INR (S m)) by (rewrite INR_IZR_INZ; f_equal; lia).
    rewrite C_step by lia.
    rewrite ln_mult; [reflexivity|apply C_pos; lia|].
    apply Rdiv_lt_0_compat; apply lt_0_INR; lia.
Qed.
Lemma ln_coeff_R (n k : nat) : (k <= n)%nat -> ln_coeff RO (Z.of_nat n) (Z.of_nat k) = ln (C n k).
Proof.
  intros Hk. unfold ln_coeff. rewrite iter_sum_R. ro.
  destruct (Nat.le_ge_cases k (n - k)) as [H|H].
  - replace (Z.to_nat (Z.min (Z.of_nat k) (Z.of_nat n - Z.of_nat k))) with k by lia.
    apply ln_coeff_sum; exact Hk.
  - replace (Z.to_nat (Z.min (Z.of_nat k) (Z.of_nat n - Z.of_nat k))) with (n - k)%nat by lia.
    rewrite ln_coeff_sum by lia. f_equal. symmetry. apply pascal_step1. exact Hk.
Qed.

Lemma pmf_binomial_textbook (n k : nat) p : (k <= n)%nat -> 0 <= p <= 1 ->
  pmf_binomial RO (Z.of_nat n) p (Z.of_nat k) = spec_pmf_binomial n p k.
Proof.
  intros Hk Hp. unfold pmf_binomial, spec_pmf_binomial.
  replace (Z.of_nat k <? 0)%Z with false by (symmetry; apply Z.ltb_ge; lia).
  replace (Z.of_nat n <? Z.of_nat k)%Z with false by (symmetry; apply Z.ltb_ge; lia).
  cbn [orb]. ro.
  destruct (Req_EM_T p 0) as [E0|N0].
  { replace (Reqb p 0) with true by (symmetry; apply Reqb_true; exact E0). subst p.
    destruct k as [|k].
    - cbn [Z.of_nat Z.eqb]. unfold C. cbn [fact pow]. rewrite Nat.sub_0_r, Rminus_0_r, pow1.
      cbn [INR]. field. apply INR_fact_neq_0.
    - replace (Z.of_nat (S k) =? 0)%Z with false by (symmetry; apply Z.eqb_neq; lia).
      rewrite pow_i by lia. ring. }
  replace (Reqb p 0) with false by (symmetry; apply Reqb_false; exact N0).
  destruct (Req_EM_T p 1) as [E1|N1].
  { replace (Reqb p 1) with true by (symmetry; apply Reqb_true; exact E1). subst p.
    destruct (Z.eqb_spec (Z.of_nat k) (Z.of_nat n)) as [E|N].
    - assert (k = n) by lia. subst k. rewrite Nat.sub_diag, pow1. unfold C. rewrite Nat.sub_diag. cbn [fact pow INR].
      field. apply INR_fact_neq_0.
    - replace (1 - 1) with 0 by ring. rewrite (pow_i (n - k)) by lia. ring. }
  replace (Reqb p 1) with false by (symmetry; apply Reqb_false; exact N1).
  assert (Hp0 : 0 < p) by lra. assert (Hp1 : 0 < 1 - p) by lra.
  rewrite ln_coeff_R by exact Hk.
  replace (Z.of_nat n - Z.of_nat k)%Z with (Z.of_nat (n - k)) by lia. rewrite <- !INR_IZR_INZ.
  replace (1 + - p) with (1 - p) by ring.
  rewrite !exp_plus, !exp_INR_ln by assumption. rewrite exp_ln by (apply C_pos; exact Hk). reflexivity.
Qed.
Lemma pmf_binomial_outside n p k : (k < 0 \/ n < k)%Z -> pmf_binomial RO n p k = 0.
Proof.
  intros Hk. unfold pmf_binomial.
  destruct (Z.ltb_spec k 0); [reflexivity|]. destruct (Z.ltb_spec n k); [reflexivity|lia].
Qed.

(** ** through the dispatch: acceptance / rejection, 0 outside the support, non-negativity, log-density *)
Section Dispatch.
  Context (Gam : R -> R) (Bet : R -> R -> R).

  Lemma valid_true d : valid_params d -> valid RO d = true.
  Proof. apply valid_iff. Qed.
  Lemma valid_false d : ~ valid_params d -> valid RO d = false.
  Proof. intros H. apply not_true_is_false. rewrite valid_iff. exact H. Qed.

  Lemma pdf_accepts d x : valid_params d -> is_continuous d = true -> exists v, pdf RO Gam Bet d x = Some v.
  Proof. intros Hv Hc. unfold pdf. rewrite (valid_true d Hv). destruct d; try discriminate Hc; eexists; reflexivity. Qed.
  Lemma pmf_accepts d k : valid_params d -> is_continuous d = false -> exists v, pmf RO d k = Some v.
  Proof. intros Hv Hc. unfold pmf. rewrite (valid_true d Hv). destruct d; try discriminate Hc; eexists; reflexivity. Qed.
  Lemma invalid_rejected d x k : ~ valid_params d ->
    pdf RO Gam Bet d x = None /\ ln_pdf RO Gam Bet d x = None /\ pmf RO d k = None /\ mean RO d = None /\ var RO d = None.
  Proof.
    intros Hv. unfold ln_pdf, pdf, pmf, mean, var. rewrite (valid_false d Hv).
    repeat split; destruct d; reflexivity.
  Qed.

  Lemma pdf_outside_support d x : valid_params d -> is_continuous d = true -> ~ in_support d x ->
    pdf RO Gam Bet d x = Some 0.
  Proof.
    intros Hv Hc Hs. unfold pdf. rewrite (valid_true d Hv).
    destruct d; try discriminate Hc; cbn [in_support] in Hs; try (exfalso; apply Hs; exact I); f_equal.
    - apply pdf_beta_outside. lra.
    - destruct (Z.eqb_spec dof 1) as [->|N].
      + apply pdf_chisq_outside_dof1. lra.
      + apply pdf_chisq_outside. lra.
    - apply pdf_exponential_outside. lra.
    - apply pdf_gamma_outside. lra.
    - apply pdf_pareto_outside. lra.
    - apply pdf_uniform_outside. lra.
  Qed.
  Lemma pmf_outside_support d k : valid_params d -> is_continuous d = false -> ~ in_support_Z d k ->
    pmf RO d k = Some 0.
  Proof.
    intros Hv Hc Hs. unfold pmf. rewrite (valid_true d Hv).
    destruct d; try discriminate Hc; cbn [in_support_Z] in Hs; f_equal.
    - apply pmf_bernoulli_outside. lia.
    - apply pmf_binomial_outside. lia.
    - apply pmf_duniform_outside. lia.
    - apply pmf_poisson_outside. lia.
  Qed.

  Lemma Rpower_pos x y : 0 < Rpower x y.
  Proof. unfold Rpower. apply exp_pos. Qed.
  Lemma div_nonneg a b : 0 <= a -> 0 <= b -> 0 <= a / b.
  Proof.
    intros Ha [Hb|Hb].
    - apply Rmult_le_pos; [exact Ha|]. left. apply Rinv_0_lt_compat. exact Hb.
    - rewrite <- Hb. unfold Rdiv. rewrite Rinv_0. lra.
  Qed.

  Lemma pdf_nonneg d x v :
    (forall y, 0 < y -> 0 < Gam y) -> (forall a b, 0 < a -> 0 < b -> 0 < Bet a b) ->
    valid_params d -> pdf RO Gam Bet d x = Some v -> 0 <= v.
  Proof.
    intros HG HB Hv. unfold pdf. rewrite (valid_true d Hv).
    pose proof Rpower_pos as HP. pose proof exp_pos as HE. pose proof PI_RGT_0 as Hpi.
    destruct d; try discriminate; intros E; injection E as <-; cbn [valid_params] in Hv.
    - (* Beta *) unfold pdf_beta. destruct (in_unit RO x); cbn [negb]; [|right; reflexivity]. ro.
      destruct Hv as [Ha Hb]. apply div_nonneg; [|left; apply HB; assumption].
      apply Rmult_le_pos; left; apply HP.
    - (* ChiSquared *) unfold pdf_chisq. destruct (_ || _)%bool; [right; reflexivity|]. ro. rewrite ?two_R.
      assert (0 < IZR dof / 2) by (apply Rdiv_lt_0_compat; [apply IZR_lt; exact Hv|lra]).
      assert (0 < Rpower 2 (IZR dof / 2) * Gam (IZR dof / 2)) by (apply Rmult_lt_0_compat; [apply HP|apply HG; assumption]).
      cbv zeta. destruct (Reqb x 0); [destruct (dof =? 2)%Z; [apply div_nonneg; [lra|left; assumption]|right; reflexivity]|].
      destruct (Reqb x (pinf RO)); [right; reflexivity|].
      apply div_nonneg; left; [apply HE|assumption].
    - (* Exponential *) unfold pdf_exponential. ro. destruct (Rltb x 0); [right; reflexivity|].
      apply Rmult_le_pos; [lra|left; apply HE].
    - (* Gamma *) unfold pdf_gamma. ro. destruct (Rleb x 0 || Reqb x (pinf RO))%bool; [right; reflexivity|]. destruct Hv as [Ha Hb].
      apply div_nonneg; left; [apply HE|apply HG; exact Ha].
    - (* Gumbel *) unfold pdf_gumbel. ro. apply Rmult_le_pos; [|left; apply HE]. apply div_nonneg; lra.
    - (* Normal *) unfold pdf_normal. ro. apply Rmult_le_pos; [|left; apply HE].
      apply div_nonneg; [lra|]. apply Rmult_le_pos; [exact Hv|apply sqrt_pos].
    - (* Pareto *) unfold pdf_pareto. ro. destruct (Rltb x minval); [right; reflexivity|]. destruct Hv as [Ha Hm].
      apply div_nonneg; [apply Rmult_le_pos; [lra|left; apply HP]|left; apply HP].
    - (* T *) unfold pdf_t. ro. rewrite ?two_R. apply Rmult_le_pos; [|left; apply HP].
      apply div_nonneg.
      + left. apply HG. lra.
      + apply Rmult_le_pos; [apply sqrt_pos|]. left. apply HG. lra.
    - (* Uniform *) unfold pdf_uniform. ro. destruct (_ || _)%bool; [right; reflexivity|]. apply div_nonneg; lra.
  Qed.

  Lemma pmf_nonneg d k v : valid_params d -> pmf RO d k = Some v -> 0 <= v.
  Proof.
    intros Hv. unfold pmf. rewrite (valid_true d Hv).
    destruct d; try discriminate; intros E; injection E as <-; cbn [valid_params] in Hv.
    - unfold pmf_bernoulli. ro. destruct (k =? 0)%Z; [lra|]. destruct (k =? 1)%Z; lra.
    - unfold pmf_binomial. ro. destruct (_ || _)%bool; [right; reflexivity|].
      destruct (Reqb p 0); [destruct (k =? 0)%Z; lra|]. destruct (Reqb p 1); [destruct (k =? n)%Z; lra|].
      left. apply exp_pos.
    - unfold pmf_duniform. ro. destruct (_ || _)%bool; [right; reflexivity|].
      apply div_nonneg; [lra|]. apply IZR_le. lia.
    - unfold pmf_poisson. ro. destruct (k <? 0)%Z; [right; reflexivity|]. left. apply exp_pos.
  Qed.

  Lemma ln_pdf_is_ln d x :
    match d with DNormal _ s => 0 < s | _ => True end ->
    ln_pdf RO Gam Bet d x = option_map ln (pdf RO Gam Bet d x).
  Proof.
    intros H. destruct d; try reflexivity.
    unfold ln_pdf, pdf. destruct (valid RO (DNormal mu sigma)); [|reflexivity].
    cbn [option_map]. f_equal. apply ln_pdf_normal_is_ln. exact H.
  Qed.
End Dispatch.

(** ** the reported moments are the textbook table *)
Lemma euler_lit_R : ofLit RO euler_lit = euler_gamma_99.
Proof.
  cbn [ofLit RO euler_lit fst]. unfold euler_gamma_99, Q2R. cbn [Qnum Qden]. unfold Rdiv. f_equal. f_equal.
  change 10 with (IZR 10). rewrite pow_IZR. f_equal.
Qed.

Lemma mean_textbook d : valid_params d -> mean_of RO d = spec_mean d.
Proof.
  intros Hv. destruct d; cbn [mean_of spec_mean valid_params] in *; rewrite ?euler_lit_R; ro; rewrite ?two_R; try reflexivity.
  - f_equal. unfold Rdiv. rewrite plus_IZR. reflexivity.
  - f_equal. unfold Rdiv. ring.
  - unfold Rleb. destruct (Rle_dec alpha 1); reflexivity.
  - unfold Rltb. destruct (Rlt_dec 1 dof); reflexivity.
Qed.
Lemma var_textbook d : valid_params d -> var_of RO d = spec_var d.
Proof.
  intros Hv. destruct d; cbn [var_of spec_var valid_params] in *; rewrite ?powi2_R; unfold pisq6; ro; rewrite ?two_R;
    unfold Rleb, Rltb;
    repeat match goal with
           | |- context [Rle_dec ?a ?b] => destruct (Rle_dec a b)
           | |- context [Rlt_dec ?a ?b] => destruct (Rlt_dec a b)
           end; cbn [andb]; try reflexivity; try (exfalso; lra);
    f_equal; simpl; rewrite ?Rmult_1_r; try reflexivity; unfold Rdiv; try ring.
Qed.

(** ** moments as sums of the mass function: Bernoulli, DiscreteUniform, Binomial *)
Definition sumZ (f : Z -> R) (l : list Z) : R := fold_right Rplus 0 (map f l).

Lemma bernoulli_mass p : sumZ (pmf_bernoulli RO p) [0; 1]%Z = 1.
Proof. unfold sumZ, pmf_bernoulli. cbn [map fold_right Z.eqb Pos.eqb]. ro. ring. Qed.
Lemma bernoulli_first_moment p :
  sumZ (fun k => IZR k * pmf_bernoulli RO p k) [0; 1]%Z = p.
Proof. unfold sumZ, pmf_bernoulli. cbn [map fold_right Z.eqb Pos.eqb]. ro. ring. Qed.
Lemma bernoulli_second_central_moment p :
  sumZ (fun k => (IZR k - p) ^ 2 * pmf_bernoulli RO p k) [0; 1]%Z = p * (1 - p).
Proof. unfold sumZ, pmf_bernoulli. cbn [map fold_right Z.eqb Pos.eqb]. ro. ring. Qed.

Lemma Zseq_In lo n k : In k (Zseq lo n) -> (lo <= k < lo + Z.of_nat n)%Z.
Proof.
  revert lo. induction n as [|n IH]; intros lo; cbn [Zseq In]; [tauto|].
  intros [<-|H]; [lia|]. apply IH in H. lia.
Qed.
Lemma sumZ_ext f g l : (forall k, In k l -> f k = g k) -> sumZ f l = sumZ g l.
Proof.
  unfold sumZ. induction l as [|a l IH]; intros H; cbn [map fold_right]; [reflexivity|].
  rewrite (H a (or_introl eq_refl)), IH; [reflexivity|]. intros k Hk. apply H. right. exact Hk.
Qed.
Lemma sumZ_snoc f lo n : sumZ f (Zseq lo (S n)) = sumZ f (Zseq lo n) + f (lo + Z.of_nat n)%Z.
Proof. unfold sumZ. rewrite Zseq_snoc, map_app, fold_right_Rplus_app. cbn [map fold_right]. ring. Qed.
(** power sums over a run of consecutive integers *)
Lemma sum_pow0 c lo n : sumZ (fun _ => c) (Zseq lo n) = INR n * c.
Proof.
  induction n as [|n IH]; [unfold sumZ; cbn; ring|]. rewrite sumZ_snoc, IH, S_INR. ring.
Qed.
Lemma sum_pow1 lo n : sumZ IZR (Zseq lo n) = INR n * IZR lo + INR n * (INR n - 1) / 2.
Proof.
  induction n as [|n IH]; [unfold sumZ; cbn; field|].
  rewrite sumZ_snoc, IH, S_INR, plus_IZR, <- INR_IZR_INZ. field.
Qed.
Lemma sum_pow2 lo n :
  sumZ (fun k => IZR k ^ 2) (Zseq lo n) =
  INR n * IZR lo ^ 2 + IZR lo * INR n * (INR n - 1) + (INR n - 1) * INR n * (2 * INR n - 1) / 6.
Proof.
  induction n as [|n IH]; [unfold sumZ; cbn; field|].
  rewrite sumZ_snoc, IH, S_INR, plus_IZR, <- INR_IZR_INZ. field.
Qed.

(** the support of DiscreteUniform(lo, hi) as a list *)
Definition du_support (lo hi : Z) : list Z := Zseq lo (Z.to_nat (hi - lo + 1)).

Lemma duniform_on_support lo hi f : (lo <= hi)%Z ->
  sumZ (fun k => f k * pmf_duniform RO lo hi k) (du_support lo hi) =
  sumZ f (du_support lo hi) / IZR (hi - lo + 1).
Proof.
  intros H. unfold du_support.
  rewrite (sumZ_ext _ (fun k => f k * / IZR (hi - lo + 1))).
  - unfold sumZ, Rdiv. induction (Zseq lo (Z.to_nat (hi - lo + 1))) as [|a l IH]; cbn [map fold_right]; [ring|rewrite IH; ring].
  - intros k Hk. apply Zseq_In in Hk. rewrite pmf_duniform_textbook by lia. reflexivity.
Qed.
Lemma duniform_mass lo hi : (lo <= hi)%Z -> sumZ (pmf_duniform RO lo hi) (du_support lo hi) = 1.
Proof.
  intros H. rewrite (sumZ_ext _ (fun k => 1 * pmf_duniform RO lo hi k)) by (intros; ring).
  rewrite (duniform_on_support lo hi (fun _ => 1) H). unfold du_support. rewrite sum_pow0.
  rewrite INR_IZR_INZ, Z2Nat.id by lia. field. apply not_0_IZR. lia.
Qed.
Lemma duniform_first_moment lo hi : (lo <= hi)%Z ->
  sumZ (fun k => IZR k * pmf_duniform RO lo hi k) (du_support lo hi) = (IZR lo + IZR hi) / 2.
Proof.
  intros H. rewrite (duniform_on_support lo hi IZR H). unfold du_support. rewrite sum_pow1.
  rewrite INR_IZR_INZ, Z2Nat.id by lia. rewrite !plus_IZR, minus_IZR. 
  assert (IZR hi - IZR lo + 1 <> 0) by (rewrite <- minus_IZR, <- plus_IZR; apply not_0_IZR; lia).
  field. exact H0.
Qed.
Lemma duniform_second_central_moment lo hi : (lo <= hi)%Z ->
  sumZ (fun k => (IZR k - (IZR lo + IZR hi) / 2) ^ 2 * pmf_duniform RO lo hi k) (du_support lo hi) =
  (IZR (hi - lo + 1) ^ 2 - 1) / 12.
Proof.
  intros H. rewrite (duniform_on_support lo hi _ H). unfold du_support.
  set (m := (IZR lo + IZR hi) / 2).
  rewrite (sumZ_ext _ (fun k => IZR k ^ 2 + (- 2 * m) * IZR k + m ^ 2)) by (intros; ring).
  assert (Hs : forall f g h l, sumZ (fun k => f k + g k + h k) l = sumZ f l + sumZ g l + sumZ h l).
  { intros f g h l. unfold sumZ. induction l as [|a l IH]; cbn [map fold_right]; [ring|rewrite IH; ring]. }
  assert (Hc : forall c f l, sumZ (fun k => c * f k) l = c * sumZ f l).
  { intros c f l. unfold sumZ. induction l as [|a l IH]; cbn [map fold_right]; [ring|rewrite IH; ring]. }
  rewrite Hs, Hc, sum_pow2, sum_pow1, sum_pow0.
  rewrite INR_IZR_INZ, Z2Nat.id by lia. unfold m. rewrite !plus_IZR, minus_IZR.
  assert (IZR hi - IZR lo + 1 <> 0) by (rewrite <- minus_IZR, <- plus_IZR; apply not_0_IZR; lia).
  field. exact H0.
Qed.

(** Binomial: total mass 1 and first moment n p, as sums of the code's mass function over 0..n *)
Lemma binomial_mass (n : nat) p : 0 <= p <= 1 ->
  sum_f_R0 (fun k => pmf_binomial RO (Z.of_nat n) p (Z.of_nat k)) n = 1.
Proof.
  intros Hp. rewrite (sum_eq _ (fun k => C n k * p ^ k * (1 - p) ^ (n - k))).
  - rewrite <- binomial. replace (p + (1 - p)) with 1 by ring. apply pow1.
  - intros k Hk. apply pmf_binomial_textbook; assumption.
Qed.
Lemma C_absorb m j : (j <= m)%nat -> INR (S j) * C (S m) (S j) = INR (S m) * C m j.
Proof.
  intros Hj. unfold C. replace (S m - S j)%nat with (m - j)%nat by lia.
  change (fact (S m)) with (S m * fact m)%nat. change (fact (S j)) with (S j * fact j)%nat.
  rewrite !mult_INR.
  pose proof (INR_fact_neq_0 j). pose proof (INR_fact_neq_0 (m - j)).
  assert (INR (S j) <> 0) by (apply not_0_INR; lia).
  field. repeat split; assumption.
Qed.
Lemma binomial_first_moment (n : nat) p : 0 <= p <= 1 ->
  sum_f_R0 (fun k => INR k * pmf_binomial RO (Z.of_nat n) p (Z.of_nat k)) n = INR n * p.
Proof.
  intros Hp. rewrite (sum_eq _ (fun k => INR k * (C n k * p ^ k * (1 - p) ^ (n - k)))).
  2:{ intros k Hk. rewrite pmf_binomial_textbook by assumption. reflexivity. }
  destruct n as [|m].
  - cbn. ring.
  - rewrite decomp_sum by lia. cbn [pred]. change (INR 0) with 0. rewrite Rmult_0_l, Rplus_0_l.
    rewrite (sum_eq _ (fun j => (C m j * p ^ j * (1 - p) ^ (m - j)) * (INR (S m) * p))).
    + rewrite <- scal_sum, <- binomial. replace (p + (1 - p)) with 1 by ring. rewrite pow1. ring.
    + intros j Hj. replace (S m - S j)%nat with (m - j)%nat by lia.
      transitivity (INR (S j) * C (S m) (S j) * p ^ S j * (1 - p) ^ (m - j)); [ring|].
      rewrite (C_absorb m j Hj). simpl. ring.
Qed.

Lemma sum_lin3 a b c (f g h : nat -> R) N :
  sum_f_R0 (fun k => a * f k + b * g k + c * h k) N = a * sum_f_R0 f N + b * sum_f_R0 g N + c * sum_f_R0 h N.
Proof. induction N as [|N IH]; cbn [sum_f_R0]; [ring|rewrite IH; ring]. Qed.

Lemma binomial_second_factorial_moment (n : nat) p :
  sum_f_R0 (fun k => INR k * (INR k - 1) * (C n k * p ^ k * (1 - p) ^ (n - k))) n = INR n * (INR n - 1) * p ^ 2.
Proof.
  destruct n as [|[|m]].
  - cbn. ring.
  - cbn. ring.
  - rewrite decomp_sum by lia. cbn [pred]. change (INR 0) with 0. rewrite Rmult_0_l, Rmult_0_l, Rplus_0_l.
    rewrite decomp_sum by lia. cbn [pred]. change (INR 1) with 1. replace (1 - 1) with 0 by ring.
    rewrite Rmult_0_r, Rmult_0_l, Rplus_0_l.
    rewrite (sum_eq _ (fun j => (C m j * p ^ j * (1 - p) ^ (m - j)) * (INR (S (S m)) * INR (S m) * p ^ 2))).
    + rewrite <- scal_sum, <- binomial. replace (p + (1 - p)) with 1 by ring. rewrite pow1.
      rewrite (S_INR (S m)). ring.
    + intros j Hj. replace (S (S m) - S (S j))%nat with (m - j)%nat by lia.
      rewrite (S_INR (S j)). replace (INR (S j) + 1 - 1) with (INR (S j)) by ring. rewrite <- (S_INR (S j)).
      transitivity (INR (S j) * (INR (S (S j)) * C (S (S m)) (S (S j))) * p ^ S (S j) * (1 - p) ^ (m - j)); [ring|].
      rewrite (C_absorb (S m) (S j)) by lia.
      transitivity (INR (S (S m)) * (INR (S j) * C (S m) (S j)) * p ^ S (S j) * (1 - p) ^ (m - j)); [ring|].
      rewrite (C_absorb m j Hj). simpl. ring.
Qed.
Lemma binomial_second_central_moment (n : nat) p : 0 <= p <= 1 ->
  sum_f_R0 (fun k => (INR k - INR n * p) ^ 2 * pmf_binomial RO (Z.of_nat n) p (Z.of_nat k)) n = INR n * p * (1 - p).
Proof.
  intros Hp. set (f := fun k => C n k * p ^ k * (1 - p) ^ (n - k)).
  rewrite (sum_eq _ (fun k => 1 * (INR k * (INR k - 1) * f k) + (1 - 2 * (INR n * p)) * (INR k * f k) + (INR n * p) ^ 2 * f k)).
  2:{ intros k Hk. rewrite pmf_binomial_textbook by assumption. unfold spec_pmf_binomial. fold (f k). ring. }
  rewrite sum_lin3. unfold f. rewrite binomial_second_factorial_moment.
  pose proof (binomial_first_moment n p Hp) as H1.
  rewrite (sum_eq _ (fun k => INR k * (C n k * p ^ k * (1 - p) ^ (n - k)))) in H1
    by (intros k Hk; rewrite pmf_binomial_textbook by assumption; reflexivity).
  rewrite H1. rewrite <- binomial. replace (p + (1 - p)) with 1 by ring. rewrite pow1. ring.
Qed.
