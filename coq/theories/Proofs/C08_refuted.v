(** * C08: the pre-repair algorithms (D18, D19, D20), modelled as they stood in the pinned tree, do not
    satisfy their clauses.  Witnesses computed in the kernel on exact rationals ([QO]) and on binary64
    ([FO0]; these are the values the original implementation returned, as the oracle observed). *)
From Coq Require Import List Arith ZArith QArith Floats.
From Compute Require Import Base.Ops Base.ListMat Model.Reduce Model.Stats.
Import ListNotations.
Local Close Scope Q_scope.

Section Original.
  Context {T : Type} (O : Ops T).
  Local Notation "x + y" := (add O x y). Local Notation "x - y" := (sub O x y).
  Local Notation "x * y" := (mul O x y). Local Notation "x / y" := (div O x y).

  (** D18: [(0..n).map(|i| (x[i] - x[0]) * (y[i] - y[0])).sum::<f64>() / (n - 1) as f64] *)
  Definition onepass_original (x y : list T) : option T :=
    if length x =? length y then
      Some (isum O (map2 (fun a b => (a - hd (zero O) x) * (b - hd (zero O) y)) x y) / ofZ O (usize_pred (length x)))
    else None.

  (** D19: [c += dx * dy] with both deviations from the old means, result [c / n] *)
  Definition online_step_original (s : T * T * T * T) (p : T * T) : T * T * T * T :=
    match s with
    | (meanx, meany, c, n) =>
        let n' := n + one O in
        let dx := fst p - meanx in
        let dy := snd p - meany in
        (meanx + dx / n', meany + dy / n', c + dx * dy, n')
    end.
  Definition online_original (x y : list T) : option T :=
    if length x =? length y then
      match fold_left online_step_original (combine x y) (zero O, zero O, zero O, zero O) with
      | (_, _, c, n) => Some (c / n)
      end
    else None.

  (** D20: first midpoint, then cumulative edge differences *)
  Fixpoint scan_original (acc : T) (diff : list T) : list T :=
    match diff with
    | [] => []
    | d :: diff' => acc :: scan_original (acc + d) diff'
    end.
  Definition hist_original (e : list T) : option (list T) :=
    match e with
    | e0 :: e1 :: _ => Some (scan_original ((e0 + e1) / ofZ O 2) (map2 (fun a b => b - a) e (tl e)))
    | _ => None
    end.
End Original.

Local Open Scope Q_scope.
Theorem onepass_original_refuted :
  exists x y : list Q, length x = length y /\ (2 <= length x)%nat /\
    onepass_original QO x y = Some (5 # 2) /\ sample_covariance QO x y = Some 1 /\
    onepass_original FO0 [1; 2; 3]%float [1; 2; 3]%float = Some 2.5%float.
Proof. exists [1; 2; 3], [1; 2; 3]. repeat split; try (cbn; auto with arith; fail); vm_compute; reflexivity. Qed.

Theorem online_original_refuted :
  exists x y : list Q, length x = length y /\ (2 <= length x)%nat /\
    online_original QO x y = Some (17 # 12) /\ sample_covariance QO x y = Some 1 /\ covariance QO x y = Some (2 # 3) /\
    online_original FO0 [1; 2; 3]%float [1; 2; 3]%float = Some 0x1.6aaaaaaaaaaabp+0%float.
Proof. exists [1; 2; 3], [1; 2; 3]. repeat split; try (cbn; auto with arith; fail); vm_compute; reflexivity. Qed.

Theorem hist_original_refuted :
  exists e : list Q, (2 <= length e)%nat /\
    hist_original QO e = Some [1 # 2; 3 # 2] /\ hist_bin_centers QO e = Some [1 # 2; 2] /\
    hist_original FO0 [0; 1; 3]%float = Some [0.5; 1.5]%float.
Proof. exists [0; 1; 3]. repeat split; try (cbn; auto with arith; fail); vm_compute; reflexivity. Qed.
