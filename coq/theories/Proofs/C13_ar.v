(** Proofs for C13, part 3: AR fit (Yule-Walker, modulo the inner inverse) and forecasting.
    Statements are pinned in Properties/C13.v. *)
From Coq Require Import Reals List Arith ZArith Bool Lia Lra.
From Compute Require Import Base.Ops Base.ListMat Model.Reduce Model.MatMul Model.TimeSeries
  Spec.MatMul Spec.TimeSeries Proofs.C05 Proofs.C13_base Proofs.C13_acf.
Import ListNotations.
Local Open Scope R_scope.

Lemma nth_map_in {A B} (g : A -> B) l k d d' : (k < length l)%nat -> nth k (map g l) d = g (nth k l d').
Proof.
  revert k; induction l as [|a l IH]; intros k H; [simpl in H; lia|].
  destruct k as [|k]; [reflexivity|]. cbn [map nth]. apply IH. simpl in H. lia.
Qed.

(** ** forecasting *)

Lemma ar_next_suffix phi pre s :
  (length phi <= length s)%nat -> ar_next phi (pre ++ s) = ar_next phi s.
Proof.
  intros H. unfold ar_next. rewrite rev_app_distr.
  rewrite map2_app_r by (rewrite rev_length; exact H). reflexivity.
Qed.

Lemma Rsum_map2_rev a b :
  length a = length b -> Rsum (map2 Rmult (rev a) (rev b)) = Rsum (map2 Rmult a b).
Proof. intros H. rewrite map2_rev by exact H. apply Rsum_rev. Qed.

(** [predict_one] = intercept + one step of the AR recursion on the centred history; a history
    shorter than the order is completed by zeros (observations at the mean) *)
Lemma predict_one_RO c mu data :
  predict_one RO c mu data = Some (ar_next (rev c) (map (fun v => v - mu) data) + mu).
Proof.
  unfold predict_one.
  destruct (Nat.leb_spec (length c) (length data)) as [Hle|Hlt].
  - change (map (fun v => sub RO v mu)) with (map (fun v => v - mu)).
    rewrite dot_RO. rewrite map_length, skipn_length.
    replace (length data - (length data - length c))%nat with (length c) by lia.
    rewrite Nat.eqb_refl. cbn [bind add RO]. f_equal. f_equal.
    unfold ar_next.
    assert (E : map (fun v => v - mu) data
                = map (fun v => v - mu) (firstn (length data - length c) data)
                  ++ map (fun v => v - mu) (skipn (length data - length c) data))
      by (rewrite <- map_app, firstn_skipn; reflexivity).
    rewrite E, rev_app_distr.
    rewrite map2_app_r by (rewrite !rev_length, map_length, skipn_length; lia).
    rewrite Rsum_map2_rev by (rewrite map_length, skipn_length; lia).
    rewrite (map2_comm Rmult c) by (intros; apply Rmult_comm). reflexivity.
  - change (map (fun v => sub RO v mu)) with (map (fun v => v - mu)).
    rewrite dot_RO. rewrite map_length, skipn_length.
    replace (length c - (length c - length data))%nat with (length data) by lia.
    rewrite Nat.eqb_refl. cbn [bind add RO]. f_equal. f_equal.
    unfold ar_next.
    assert (E : rev c = rev (skipn (length c - length data) c) ++ rev (firstn (length c - length data) c))
      by (rewrite <- rev_app_distr, firstn_skipn; reflexivity).
    rewrite E.
    rewrite map2_app_l by (rewrite !rev_length, map_length, skipn_length; lia).
    rewrite Rsum_map2_rev by (rewrite map_length, skipn_length; lia).
    apply f_equal. apply map2_comm. intros; apply Rmult_comm.
Qed.

Lemma ar_forecast_length phi hist h : length (ar_forecast phi hist h) = h.
Proof. revert hist; induction h as [|h IH]; intros hist; simpl; [reflexivity | rewrite IH; reflexivity]. Qed.

Lemma predict_loop_RO c mu h : forall d pre hist,
  (length c <= length d)%nat -> hist = pre ++ map (fun v => v - mu) d ->
  predict_loop RO c mu h d = Some (d ++ map (fun zv => zv + mu) (ar_forecast (rev c) hist h)).
Proof.
  induction h as [|h IH]; intros d pre hist Hlen Hh.
  - cbn [predict_loop ar_forecast map]. rewrite app_nil_r. reflexivity.
  - cbn [predict_loop ar_forecast map]. rewrite predict_one_RO. cbn [bind].
    assert (Hn : ar_next (rev c) (map (fun v => v - mu) d) = ar_next (rev c) hist).
    { subst hist. symmetry. apply ar_next_suffix. rewrite rev_length, map_length. exact Hlen. }
    rewrite Hn.
    rewrite (IH _ pre (hist ++ [ar_next (rev c) hist])).
    + rewrite <- app_assoc. reflexivity.
    + rewrite app_length. lia.
    + subst hist. rewrite map_app, app_assoc. cbn [map]. f_equal. f_equal.
      rewrite <- Hn. lra.
Qed.

(** forecasts = intercept + AR recursion on the mean-centred history; a history shorter than
    the order is rejected *)
Lemma forecast_is_centred_recursion c mu data h :
  predict RO c mu data h =
  if (length c <=? length data)%nat
  then Some (map (fun zv => zv + mu) (ar_forecast (rev c) (map (fun v => v - mu) data) h))
  else None.
Proof.
  unfold predict.
  destruct (Nat.leb_spec (length c) (length data)) as [Hle|Hlt]; cbn [guard bind]; [|reflexivity].
  rewrite (predict_loop_RO c mu h _ (map (fun v => v - mu) (firstn (length data - length c) data))
             (map (fun v => v - mu) data)).
  - cbn [bind]. f_equal.
    rewrite app_length, map_length, ar_forecast_length.
    replace (length (skipn (length data - length c) data) + h - h)%nat
      with (length (skipn (length data - length c) data)) by lia.
    rewrite skipn_app, skipn_all, Nat.sub_diag. reflexivity.
  - rewrite skipn_length. lia.
  - rewrite <- map_app, firstn_skipn. reflexivity.
Qed.

Lemma predict_short_history {T} (O : Ops T) c mu data h :
  (length data < length c)%nat -> predict O c mu data h = None.
Proof.
  intros H. unfold predict. destruct (Nat.leb_spec (length c) (length data)); [lia | reflexivity].
Qed.

Lemma predict_length c mu data h f : predict RO c mu data h = Some f -> length f = h.
Proof.
  rewrite forecast_is_centred_recursion. destruct (_ <=? _)%nat; [|discriminate].
  intros H. injection H as <-. rewrite map_length. apply ar_forecast_length.
Qed.

(** the first forecast is [predict_one] *)
Lemma predict_first_is_predict_one c mu data :
  (length c <= length data)%nat ->
  predict RO c mu data 1 = option_map (fun v => [v]) (predict_one RO c mu data).
Proof.
  intros H. rewrite forecast_is_centred_recursion, predict_one_RO.
  destruct (Nat.leb_spec (length c) (length data)); [reflexivity | lia].
Qed.

(** adding a constant to the series and to the intercept adds it to every forecast *)
Lemma cen_shift2 mu s data :
  map (fun v => v - (mu + s)) (map (fun v => v + s) data) = map (fun v => v - mu) data.
Proof. rewrite map_map. apply map_ext. intros v. lra. Qed.

Lemma forecast_shift_equivariant c mu s data h :
  predict RO c (mu + s) (map (fun v => v + s) data) h
  = option_map (map (fun v => v + s)) (predict RO c mu data h).
Proof.
  rewrite !forecast_is_centred_recursion, cen_shift2, map_length.
  destruct (_ <=? _)%nat; [|reflexivity]. cbn [option_map]. f_equal.
  rewrite map_map. apply map_ext. intros v. lra.
Qed.

Lemma predict_one_shift_equivariant c mu s data :
  predict_one RO c (mu + s) (map (fun v => v + s) data)
  = option_map (fun v => v + s) (predict_one RO c mu data).
Proof. rewrite !predict_one_RO, cen_shift2. cbn [option_map]. f_equal. lra. Qed.

(** ** AR(1): forecasts are mean + phi^h (last - mean) and converge to the mean when |phi| < 1 *)
Lemma ar1_forecast phi h : forall l zl k, (k < h)%nat ->
  nth k (ar_forecast [phi] (l ++ [zl]) h) 0 = phi ^ (S k) * zl.
Proof.
  induction h as [|h IH]; intros l zl k Hk; [lia|].
  cbn [ar_forecast].
  assert (Hn : ar_next [phi] (l ++ [zl]) = phi * zl).
  { unfold ar_next. rewrite rev_app_distr. cbn. lra. }
  rewrite Hn. destruct k as [|k]; cbn [nth]; [simpl; lra|].
  rewrite (IH (l ++ [zl]) (phi * zl) k) by lia. simpl. lra.
Qed.

Lemma ar1_forecast_closed_form phi mu l xl h k f :
  (k < h)%nat -> predict RO [phi] mu (l ++ [xl]) h = Some f ->
  nth k f 0 = mu + phi ^ (S k) * (xl - mu).
Proof.
  intros Hk. rewrite forecast_is_centred_recursion.
  rewrite app_length. cbn [length]. destruct (Nat.leb_spec 1 (length l + 1)) as [_|Hbad]; [|lia].
  intros Hf. injection Hf as <-.
  rewrite (nth_map_in _ _ _ _ 0) by (rewrite ar_forecast_length; exact Hk).
  cbn [rev app]. rewrite map_app. cbn [map].
  rewrite ar1_forecast by exact Hk. lra.
Qed.

Lemma ar1_forecast_converges phi mu data :
  Rabs phi < 1 -> data <> [] ->
  forall eps, 0 < eps -> exists N, forall h k f,
    (N <= k < h)%nat -> predict RO [phi] mu data h = Some f -> Rabs (nth k f 0 - mu) < eps.
Proof.
  intros Hphi Hd eps Heps.
  destruct (exists_last Hd) as [l [xl ->]].
  set (zl := xl - mu).
  assert (Hz : 0 < Rabs zl + 1) by (pose proof (Rabs_pos zl); lra).
  destruct (pow_lt_1_zero phi Hphi (eps / (Rabs zl + 1))) as [N HN].
  { apply Rdiv_lt_0_compat; assumption. }
  exists N. intros h k f [HNk Hkh] Hf.
  rewrite (ar1_forecast_closed_form phi mu l xl h k f Hkh Hf). fold zl.
  replace (mu + phi ^ S k * zl - mu) with (phi ^ S k * zl) by lra.
  rewrite Rabs_mult.
  specialize (HN (S k) ltac:(lia)).
  pose proof (Rabs_pos zl) as Hzp. pose proof (Rabs_pos (phi ^ S k)) as Hpp.
  apply Rle_lt_trans with (Rabs (phi ^ S k) * (Rabs zl + 1)); [nra|].
  apply Rlt_le_trans with (eps / (Rabs zl + 1) * (Rabs zl + 1)); [nra|].
  right. field. lra.
Qed.

(** ** the fit *)

Lemma nth_flat_map_rows {A} (f : nat -> list A) (n : nat) d :
  (forall k, length (f k) = n) ->
  forall m s i j, (s <= i < s + m)%nat -> (j < n)%nat ->
    nth ((i - s) * n + j) (flat_map f (seq s m)) d = nth j (f i) d.
Proof.
  intros Hlen. induction m as [|m IH]; intros s i j Hi Hj; [lia|].
  cbn [seq flat_map].
  destruct (Nat.eq_dec i s) as [->|Hne].
  - rewrite Nat.sub_diag. cbn [Nat.mul Nat.add]. rewrite app_nth1 by (rewrite Hlen; exact Hj). reflexivity.
  - rewrite app_nth2 by (rewrite Hlen; nia). rewrite Hlen.
    replace ((i - s) * n + j - n)%nat with ((i - S s) * n + j)%nat by nia.
    apply IH; lia.
Qed.

Lemma flat_map_rows_length {A B} (f : A -> list B) n l :
  (forall k, length (f k) = n) -> length (flat_map f l) = (length l * n)%nat.
Proof.
  intros H. induction l as [|a l IH]; [reflexivity|].
  cbn [flat_map length]. rewrite app_length, IH, H. lia.
Qed.

Lemma toeplitz_length {T} (O : Ops T) x : length (toeplitz O x) = (length x * length x)%nat.
Proof.
  unfold toeplitz. rewrite (flat_map_rows_length _ (length x)).
  - rewrite seq_length. reflexivity.
  - intros k. rewrite map_length, seq_length. reflexivity.
Qed.

Lemma nth_toeplitz {T} (O : Ops T) x i j :
  (i < length x)%nat -> (j < length x)%nat ->
  nth (i * length x + j) (toeplitz O x) (zero O) = nth (absdiff i j) x (zero O).
Proof.
  intros Hi Hj. unfold toeplitz.
  pose proof (nth_flat_map_rows
                (fun i => map (fun j => nth (absdiff i j) x (zero O)) (seq 0 (length x)))
                (length x) (zero O)) as H.
  specialize (H ltac:(intros; cbv beta; rewrite map_length, seq_length; reflexivity) (length x) 0%nat i j ltac:(lia) Hj).
  rewrite Nat.sub_0_r in H. rewrite H.
  rewrite (nth_map_in _ _ _ _ 0%nat) by (rewrite seq_length; exact Hj).
  rewrite seq_nth by exact Hj. reflexivity.
Qed.

Lemma nth_firstn' {A} (l : list A) n i d : (i < n)%nat -> nth i (firstn n l) d = nth i l d.
Proof.
  revert l i; induction n as [|n IH]; intros l i H; [lia|].
  destruct l as [|a l]; [destruct i; reflexivity|].
  destruct i as [|i]; [reflexivity|]. cbn [firstn nth]. apply IH. lia.
Qed.

Lemma nth_tl {A} (l : list A) i d : nth i (tl l) d = nth (S i) l d.
Proof. destruct l as [|a l]; [destruct i; reflexivity | reflexivity]. Qed.

Lemma sumk_RO (f : nat -> R) l : sumk RO f l = Rsum (map f (seq 0 l)).
Proof.
  unfold sumk.
  assert (H : forall ks s, fold_left (fun s k => add RO s (f k)) ks s = s + Rsum (map f ks)).
  { induction ks as [|k ks IH]; intros s; cbn [fold_left map Rsum fold_right]; [lra|].
    rewrite IH. cbn [add RO]. fold (Rsum (map f ks)). lra. }
  rewrite H. cbn [zero RO]. lra.
Qed.

Lemma dims_fit p : (0 < p)%nat -> dims (p * p) p p p false false = Some (p, 1%nat, p, p, 1%nat).
Proof.
  intros Hp. unfold dims.
  assert (Hlt : (0 <? p)%nat = true) by (apply Nat.ltb_lt; exact Hp).
  rewrite Hlt, Nat.mod_mul, Nat.mod_same, Nat.div_mul, Nat.div_same by lia.
  cbn [andb Nat.eqb]. rewrite Nat.eqb_refl. reflexivity.
Qed.

Section Fit.
  Context (inv : list R -> option (list R)).

  Lemma adjusted_RO data : adjusted RO data = cen (smean data) data.
  Proof. unfold adjusted, cen. rewrite ts_mean_RO. reflexivity. Qed.

  Lemma acf_adjusted data k : acf RO (adjusted RO data) k = acorr data k.
  Proof.
    rewrite adjusted_RO. rewrite <- acf_def.
    replace (cen (smean data) data) with (map (fun v => v + - smean data) data)
      by (apply map_ext; intros; lra).
    apply acf_shift_invariant.
  Qed.

  Lemma autocorrs_length p data : length (autocorrs RO p data) = S p.
  Proof. unfold autocorrs. rewrite map_length, seq_length. reflexivity. Qed.

  Lemma nth_autocorrs p data t : (t <= p)%nat -> nth t (autocorrs RO p data) 0 = acorr data (Z.of_nat t).
  Proof.
    intros Ht. unfold autocorrs.
    rewrite (nth_map_in _ _ _ _ 0%nat) by (rewrite seq_length; lia).
    rewrite seq_nth by lia. apply acf_adjusted.
  Qed.

  Lemma fit_inv_arg_length p data : length (fit_inv_arg RO p data) = (p * p)%nat.
  Proof.
    unfold fit_inv_arg. rewrite toeplitz_length, firstn_length, autocorrs_length.
    replace (Nat.min p (S p)) with p by lia. reflexivity.
  Qed.

  Lemma nth_fit_inv_arg p data i j :
    (i < p)%nat -> (j < p)%nat ->
    nth (i * p + j) (fit_inv_arg RO p data) 0 = acorr data (Z.of_nat (adiff i j)).
  Proof.
    intros Hi Hj. unfold fit_inv_arg.
    assert (Hl : length (firstn p (autocorrs RO p data)) = p).
    { rewrite firstn_length, autocorrs_length. lia. }
    pose proof (nth_toeplitz RO (firstn p (autocorrs RO p data)) i j) as H.
    rewrite Hl in H. cbn [zero RO] in H. rewrite H by assumption.
    assert (Hd : (absdiff i j < p)%nat) by (unfold absdiff; lia).
    rewrite nth_firstn' by exact Hd. rewrite nth_autocorrs by lia. reflexivity.
  Qed.

  (** acceptance: a positive order and an inner result of the right size give a state of p
      coefficients and the series mean as intercept *)
  Lemma fit_accepts p data rinv :
    (0 < p)%nat -> inv (fit_inv_arg RO p data) = Some rinv -> length rinv = (p * p)%nat ->
    exists c, ar_new_fit RO inv p data = Some (c, smean data) /\ length c = p /\
      forall j, (j < p)%nat ->
        nth j (rev c) 0 = Rsum (map (fun k => nth (j * p + k) rinv 0 * acorr data (Z.of_nat (S k))) (seq 0 p)).
  Proof.
    intros Hp Hinv Hlen. unfold ar_new_fit, ar_fit.
    assert (Hlt : (0 <? p)%nat = true) by (apply Nat.ltb_lt; exact Hp).
    rewrite Hlt, Hinv. cbn [guard bind].
    pose proof (matmul_spec RO rinv (tl (autocorrs RO p data)) p p false false) as Hm.
    assert (Hr : length (tl (autocorrs RO p data)) = p).
    { pose proof (autocorrs_length p data) as Hl. destruct (autocorrs RO p data); [discriminate|].
      cbn [tl length] in *. lia. }
    rewrite Hlen, Hr, dims_fit in Hm by exact Hp.
    destruct Hm as [c0 [Hc0 [Hclen Hent]]].
    rewrite Hc0. cbn [bind]. exists (rev c0). rewrite ts_mean_RO. split; [reflexivity|].
    split; [rewrite rev_length; lia|].
    intros j Hj. rewrite rev_involutive.
    specialize (Hent j 0%nat Hj ltac:(lia)).
    rewrite Nat.mul_1_r, Nat.add_0_r in Hent. cbn [zero RO] in Hent. rewrite Hent.
    rewrite sumk_RO. apply Rsum_map_ext. intros k Hk. apply in_seq in Hk.
    cbn [andb mul RO]. unfold opA, opB. cbn [zero RO].
    rewrite Nat.mul_1_r, Nat.add_0_r. rewrite nth_tl, nth_autocorrs by lia. reflexivity.
  Qed.

  (** rejection: order 0, or a panic of the inner routine *)
  Lemma fit_order_zero {T} (O : Ops T) (iv : list T -> option (list T)) data : ar_new_fit O iv 0 data = None.
  Proof. reflexivity. Qed.

  Lemma fit_inner_panic {T} (O : Ops T) (iv : list T -> option (list T)) p data :
    iv (fit_inv_arg O p data) = None -> ar_new_fit O iv p data = None.
  Proof. intros H. unfold ar_new_fit, ar_fit. rewrite H. destruct (guard _); reflexivity. Qed.

  Hypothesis inv_ok : forall n A Ai, length A = (n * n)%nat -> inv A = Some Ai -> right_inverse n A Ai.

  (** the stored coefficients, read backwards, solve the Yule-Walker equations of the series'
      autocorrelations; the intercept is the series mean *)
  Lemma fit_solves_yule_walker p data coeffs mu :
    ar_new_fit RO inv p data = Some (coeffs, mu) ->
    yule_walker (fun t => acorr data (Z.of_nat t)) p (rev coeffs) /\ mu = smean data.
  Proof.
    intros Hfit.
    assert (Hp : (0 < p)%nat).
    { destruct p; [discriminate | lia]. }
    destruct (inv (fit_inv_arg RO p data)) as [rinv|] eqn:Hinv;
      [|rewrite (fit_inner_panic RO inv p data Hinv) in Hfit; discriminate].
    destruct (inv_ok p _ _ (fit_inv_arg_length p data) Hinv) as [Hlen Hri].
    destruct (fit_accepts p data rinv Hp Hinv Hlen) as [c [Hc [Hcl Hcoef]]].
    rewrite Hc in Hfit. injection Hfit as <- <-. split; [|reflexivity].
    split; [rewrite rev_length; exact Hcl|].
    intros i Hi.
    rewrite (Rsum_map_ext _ (fun j => Rsum (map (fun k =>
               nth (i * p + j) (fit_inv_arg RO p data) 0 * nth (j * p + k) rinv 0
               * acorr data (Z.of_nat (S k))) (seq 0 p)))).
    2:{ intros j Hj. apply in_seq in Hj. rewrite Hcoef by lia.
        rewrite <- Rsum_map_mult_l. rewrite nth_fit_inv_arg by lia.
        apply Rsum_map_ext. intros k _. ring. }
    rewrite Rsum_swap.
    rewrite (Rsum_map_ext _ (fun k => (if Nat.eqb i k then 1 else 0) * acorr data (Z.of_nat (S k)))).
    2:{ intros k Hk. apply in_seq in Hk.
        rewrite <- (Hri i k) by lia.
        rewrite Rmult_comm, <- Rsum_map_mult_l. apply Rsum_map_ext. intros j _. ring. }
    apply (Rsum_delta (fun k => acorr data (Z.of_nat (S k)))). lia.
  Qed.
End Fit.

(** adding a constant to the series leaves the coefficients and shifts the intercept *)
Lemma fit_shift_invariant (inv : list R -> option (list R)) p s data :
  data <> [] ->
  ar_new_fit RO inv p (map (fun v => v + s) data)
  = option_map (fun st => (fst st, snd st + s)) (ar_new_fit RO inv p data).
Proof.
  intros Hd. unfold ar_new_fit, ar_fit, fit_inv_arg, autocorrs.
  rewrite !adjusted_RO, cen_shift, !ts_mean_RO, smean_shift by exact Hd.
  destruct (guard _); [|reflexivity]. cbn [bind].
  destruct (inv _) as [rinv|]; [|reflexivity]. cbn [bind].
  destruct (matmul _ _ _ _ _ _ _) as [c|]; reflexivity.
Qed.

(** fit, then forecast: a shifted series gives the same coefficients and shifted forecasts *)
Lemma fit_forecast_shift_equivariant (inv : list R -> option (list R)) p s data coeffs mu h :
  data <> [] ->
  ar_new_fit RO inv p data = Some (coeffs, mu) ->
  ar_new_fit RO inv p (map (fun v => v + s) data) = Some (coeffs, mu + s) /\
  predict RO coeffs (mu + s) (map (fun v => v + s) data) h
  = option_map (map (fun v => v + s)) (predict RO coeffs mu data h).
Proof.
  intros Hd Hfit. split.
  - rewrite fit_shift_invariant by exact Hd. rewrite Hfit. reflexivity.
  - apply forecast_shift_equivariant.
Qed.

(** order 1: the fitted coefficient is the lag-1 autocorrelation, hence at most 1 in magnitude *)
Lemma ar1_fit_coefficient (inv : list R -> option (list R)) :
  (forall n A Ai, length A = (n * n)%nat -> inv A = Some Ai -> right_inverse n A Ai) ->
  forall data coeffs mu,
    acov data 0 <> 0 ->
    ar_new_fit RO inv 1 data = Some (coeffs, mu) ->
    coeffs = [acorr data 1] /\ Rabs (acorr data 1) <= 1.
Proof.
  intros inv_ok data coeffs mu Hv Hfit.
  destruct (fit_solves_yule_walker inv inv_ok 1 data coeffs mu Hfit) as [[Hlen Hyw] _].
  specialize (Hyw 0%nat ltac:(lia)). cbn [seq map Rsum fold_right adiff Nat.sub Nat.add] in Hyw.
  rewrite rev_length in Hlen.
  destruct coeffs as [|c0 [|c1 cs]]; try discriminate. cbn [rev app nth] in Hyw.
  assert (H0 : acorr data (Z.of_nat 0) = 1) by (unfold acorr; cbn [Z.of_nat]; field; exact Hv).
  rewrite H0 in Hyw. cbn [Z.of_nat Pos.of_succ_nat] in Hyw.
  split.
  - f_equal. lra.
  - rewrite <- acf_def. apply acf_bounded.
Qed.
