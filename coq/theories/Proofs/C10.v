(** * C10 — Adam and SGD are their published recurrences (any carrier, any gradient function);
    the meaning of the early stop; determinism. *)
From Coq Require Import List Arith ZArith Bool Lia Reals Lra QArith.
From Compute Require Import Base.Ops Base.ListMat Model.Optim Spec.Optim.
Import ListNotations.
Local Close Scope Q_scope.

(** ** lists *)
Lemma map2_len {A B C} (f : A -> B -> C) l1 l2 :
  length l2 = length l1 -> length (map2 f l1 l2) = length l1.
Proof. revert l2; induction l1; destruct l2; cbn; intros; try lia. f_equal. apply IHl1. lia. Qed.
Lemma combine_len {A B} (l1 : list A) (l2 : list B) :
  length l2 = length l1 -> length (combine l1 l2) = length l1.
Proof. intros. rewrite combine_length. lia. Qed.

Section Generic.
  Context {T : Type} (O : Ops T).
  Variable grad : list T -> list T.
  Hypothesis grad_len : forall x, length (grad x) = length x.

  (** ** Adam *)
  Section Adam.
    Variable h : adam_hp (T:=T).

    Lemma adam_coords_spec t ps ms vs gs :
      length ms = length ps -> length vs = length ps -> length gs = length ps ->
      adam_coords O h t ps ms vs gs =
      (map2 (kb_theta O h t) ps (combine (map2 (kb_m O h) ms gs) (map2 (kb_v O h) vs gs)),
       map2 (kb_m O h) ms gs, map2 (kb_v O h) vs gs).
    Proof.
      revert ms vs gs. induction ps as [|p ps IH]; intros [|m ms] [|v vs] [|g gs]; cbn [length]; intros; try lia; [reflexivity|].
      cbn [adam_coords map2 combine]. rewrite IH by lia. reflexivity.
    Qed.

    Lemma adam_iter_len k th0 :
      length (ad_theta (adam_iter O grad h k th0)) = length th0 /\
      length (ad_m (adam_iter O grad h k th0)) = length th0 /\
      length (ad_v (adam_iter O grad h k th0)) = length th0.
    Proof.
      induction k as [|k IH]; cbn [adam_iter ad_theta ad_m ad_v].
      - rewrite !repeat_length. auto.
      - destruct IH as (Ht & Hm & Hv). unfold adam_next; cbn [ad_theta ad_m ad_v].
        pose proof (grad_len (ad_theta (adam_iter O grad h k th0))) as Hg.
        assert (Lm : length (map2 (kb_m O h) (ad_m (adam_iter O grad h k th0)) (grad (ad_theta (adam_iter O grad h k th0)))) = length th0)
          by (rewrite map2_len; lia).
        assert (Lv : length (map2 (kb_v O h) (ad_v (adam_iter O grad h k th0)) (grad (ad_theta (adam_iter O grad h k th0)))) = length th0)
          by (rewrite map2_len; lia).
        repeat split; auto. rewrite map2_len; [lia|]. rewrite combine_len; lia.
    Qed.

    (** one pass of the loop body from the spec state at [t] produces the spec state at [t+1] *)
    Lemma adam_body t th0 :
      let s := adam_iter O grad h t th0 in
      adam_coords O h (S t) (ad_theta s) (ad_m s) (ad_v s) (grad (ad_theta s)) =
      (let s' := adam_iter O grad h (S t) th0 in (ad_theta s', ad_m s', ad_v s')).
    Proof.
      cbn zeta. destruct (adam_iter_len t th0) as (Ht & Hm & Hv).
      rewrite adam_coords_spec by (rewrite ?grad_len; lia). reflexivity.
    Qed.

    (** [stop j]: the convergence flag raised by the [j]-th update *)
    Definition adam_flag (th0 : list T) (j : nat) : bool :=
      converged O (adam_theta O grad h j th0) (adam_theta O grad h (j - 1) th0).

    Lemma adam_loop_spec fuel : forall t th0,
      exists j, t <= j <= t + fuel /\
        adam_loop O grad h fuel t (ad_theta (adam_iter O grad h t th0)) (ad_m (adam_iter O grad h t th0)) (ad_v (adam_iter O grad h t th0))
          = adam_theta O grad h j th0 /\
        (forall i, t < i < j -> adam_flag th0 i = false) /\
        (j < t + fuel -> t < j /\ adam_flag th0 j = true).
    Proof.
      induction fuel as [|fuel IH]; intros t th0.
      - exists t. cbn [adam_loop]. split; [lia|]. split; [reflexivity|]. split; intros; lia.
      - cbn [adam_loop]. rewrite (adam_body t th0). cbv beta iota zeta.
        assert (Hflag : adam_flag th0 (S t) = converged O (ad_theta (adam_iter O grad h (S t) th0)) (ad_theta (adam_iter O grad h t th0))).
        { unfold adam_flag, adam_theta. replace (S t - 1) with t by lia. reflexivity. }
        destruct (converged O (ad_theta (adam_iter O grad h (S t) th0)) (ad_theta (adam_iter O grad h t th0))) eqn:Hc.
        + exists (S t). split; [lia|]. split; [reflexivity|]. split; [intros; lia|].
          intros _. split; [lia|exact Hflag].
        + destruct (IH (S t) th0) as (j & Hj & Heq & Hno & Hstop).
          exists j. split; [lia|]. split; [exact Heq|]. split.
          * intros i Hi. destruct (Nat.eq_dec i (S t)) as [->|Hne]; [exact Hflag|apply Hno; lia].
          * intros Hlt. destruct Hstop as [H1 H2]; [lia|]. split; [lia|exact H2].
    Qed.

    (** the complete description of a run *)
    Theorem adam_run k th0 :
      exists j, j <= k /\ adam O grad h k th0 = adam_theta O grad h j th0 /\
        (forall i, 1 <= i < j -> adam_flag th0 i = false) /\
        (j < k -> 1 <= j /\ adam_flag th0 j = true).
    Proof.
      unfold adam. destruct (adam_loop_spec k 0 th0) as (j & Hj & Heq & Hno & Hstop).
      exists j. cbn [adam_iter ad_theta ad_m ad_v] in Heq. split; [lia|]. split; [exact Heq|]. split.
      - intros i Hi. apply Hno. lia.
      - intros Hlt. destruct Hstop as [H1 H2]; [lia|]. split; [lia|exact H2].
    Qed.

    Theorem adam_is_recurrence k th0 :
      (forall j, 1 <= j < k -> adam_flag th0 j = false) ->
      adam O grad h k th0 = adam_theta O grad h k th0.
    Proof.
      intros Hno. destruct (adam_run k th0) as (j & Hj & Heq & _ & Hstop).
      destruct (Nat.eq_dec j k) as [->|Hne]; [exact Heq|].
      destruct Hstop as [H1 Hf]; [lia|]. rewrite Hno in Hf by lia. discriminate.
    Qed.

    Theorem adam_stops_at k j th0 :
      1 <= j <= k -> (forall i, 1 <= i < j -> adam_flag th0 i = false) -> adam_flag th0 j = true ->
      adam O grad h k th0 = adam_theta O grad h j th0.
    Proof.
      intros Hj Hno Hf. destruct (adam_run k th0) as (j' & Hj' & Heq & Hno' & Hstop).
      destruct (lt_eq_lt_dec j j') as [[Hlt| ->]|Hgt]; [|exact Heq|].
      - rewrite Hno' in Hf by lia. discriminate.
      - destruct Hstop as [H1 Hf']; [lia|]. rewrite Hno in Hf' by lia. discriminate.
    Qed.
  End Adam.

  (** ** SGD *)
  Section SGD.
    Variable h : sgd_hp (T:=T).

    Lemma sgd_coords_spec ps us gs :
      length us = length ps -> length gs = length ps ->
      sgd_coords O h ps us gs =
      (map2 (fun t x => add O t (neg O x)) ps (map2 (fun u x => add O (mul O (s_mom h) u) (mul O (s_step h) x)) us gs),
       map2 (fun u x => add O (mul O (s_mom h) u) (mul O (s_step h) x)) us gs).
    Proof.
      revert us gs. induction ps as [|p ps IH]; intros [|u us] [|g gs]; cbn [length]; intros; try lia; [reflexivity|].
      cbn [sgd_coords map2]. rewrite IH by lia. reflexivity.
    Qed.

    Lemma sgd_point_spec ps us : sgd_point O h ps us = sgd_at O h ps us.
    Proof. reflexivity. Qed.

    Lemma sgd_iter_len k th0 :
      length (fst (sgd_iter O grad h k th0)) = length th0 /\ length (snd (sgd_iter O grad h k th0)) = length th0.
    Proof.
      induction k as [|k IH]; cbn [sgd_iter fst snd].
      - rewrite repeat_length. auto.
      - destruct IH as (Ht & Hu). unfold sgd_next; cbn [fst snd].
        assert (La : length (sgd_at O h (fst (sgd_iter O grad h k th0)) (snd (sgd_iter O grad h k th0))) = length th0).
        { unfold sgd_at. destruct (s_nesterov h); [rewrite map2_len; lia|lia]. }
        assert (Lu : length (map2 (fun u x => add O (mul O (s_mom h) u) (mul O (s_step h) x)) (snd (sgd_iter O grad h k th0))
                               (grad (sgd_at O h (fst (sgd_iter O grad h k th0)) (snd (sgd_iter O grad h k th0))))) = length th0)
          by (rewrite map2_len; rewrite ?grad_len; lia).
        split; [rewrite map2_len; lia | exact Lu].
    Qed.

    Lemma sgd_body t th0 :
      let s := sgd_iter O grad h t th0 in
      sgd_coords O h (fst s) (snd s) (grad (sgd_point O h (fst s) (snd s))) = sgd_iter O grad h (S t) th0.
    Proof.
      cbn zeta. destruct (sgd_iter_len t th0) as (Ht & Hu).
      rewrite sgd_point_spec. rewrite sgd_coords_spec.
      - reflexivity.
      - lia.
      - rewrite grad_len. unfold sgd_at. destruct (s_nesterov h); [rewrite map2_len; lia|lia].
    Qed.

    Definition sgd_flag (th0 : list T) (j : nat) : bool :=
      converged O (sgd_theta O grad h j th0) (sgd_theta O grad h (j - 1) th0).

    Lemma sgd_loop_spec fuel : forall t th0,
      exists j, t <= j <= t + fuel /\
        sgd_loop O grad h fuel (fst (sgd_iter O grad h t th0)) (snd (sgd_iter O grad h t th0)) = sgd_theta O grad h j th0 /\
        (forall i, t < i < j -> sgd_flag th0 i = false) /\
        (j < t + fuel -> t < j /\ sgd_flag th0 j = true).
    Proof.
      induction fuel as [|fuel IH]; intros t th0.
      - exists t. cbn [sgd_loop]. split; [lia|]. split; [reflexivity|]. split; intros; lia.
      - cbn [sgd_loop]. rewrite (sgd_body t th0). cbv beta iota zeta.
        assert (Hflag : sgd_flag th0 (S t) = converged O (fst (sgd_iter O grad h (S t) th0)) (fst (sgd_iter O grad h t th0))).
        { unfold sgd_flag, sgd_theta. replace (S t - 1) with t by lia. reflexivity. }
        destruct (sgd_iter O grad h (S t) th0) as [ps' us'] eqn:Hs. cbn [fst] in Hflag.
        destruct (converged O ps' (fst (sgd_iter O grad h t th0))) eqn:Hc.
        + exists (S t). split; [lia|]. split; [unfold sgd_theta; rewrite Hs; reflexivity|]. split; [intros; lia|].
          intros _. split; [lia|exact Hflag].
        + destruct (IH (S t) th0) as (j & Hj & Heq & Hno & Hstop).
          rewrite Hs in Heq. cbn [fst snd] in Heq.
          exists j. split; [lia|]. split; [exact Heq|]. split.
          * intros i Hi. destruct (Nat.eq_dec i (S t)) as [->|Hne]; [exact Hflag|apply Hno; lia].
          * intros Hlt. destruct Hstop as [H1 H2]; [lia|]. split; [lia|exact H2].
    Qed.

    Theorem sgd_run k th0 :
      exists j, j <= k /\ sgd O grad h k th0 = sgd_theta O grad h j th0 /\
        (forall i, 1 <= i < j -> sgd_flag th0 i = false) /\
        (j < k -> 1 <= j /\ sgd_flag th0 j = true).
    Proof.
      unfold sgd. destruct (sgd_loop_spec k 0 th0) as (j & Hj & Heq & Hno & Hstop).
      exists j. cbn [sgd_iter fst snd] in Heq. split; [lia|]. split; [exact Heq|]. split.
      - intros i Hi. apply Hno. lia.
      - intros Hlt. destruct Hstop as [H1 H2]; [lia|]. split; [lia|exact H2].
    Qed.

    Theorem sgd_is_recurrence k th0 :
      (forall j, 1 <= j < k -> sgd_flag th0 j = false) ->
      sgd O grad h k th0 = sgd_theta O grad h k th0.
    Proof.
      intros Hno. destruct (sgd_run k th0) as (j & Hj & Heq & _ & Hstop).
      destruct (Nat.eq_dec j k) as [->|Hne]; [exact Heq|].
      destruct Hstop as [H1 Hf]; [lia|]. rewrite Hno in Hf by lia. discriminate.
    Qed.

    Theorem sgd_stops_at k j th0 :
      1 <= j <= k -> (forall i, 1 <= i < j -> sgd_flag th0 i = false) -> sgd_flag th0 j = true ->
      sgd O grad h k th0 = sgd_theta O grad h j th0.
    Proof.
      intros Hj Hno Hf. destruct (sgd_run k th0) as (j' & Hj' & Heq & Hno' & Hstop).
      destruct (lt_eq_lt_dec j j') as [[Hlt| ->]|Hgt]; [|exact Heq|].
      - rewrite Hno' in Hf by lia. discriminate.
      - destruct Hstop as [H1 Hf']; [lia|]. rewrite Hno in Hf' by lia. discriminate.
    Qed.
  End SGD.
End Generic.

(** ** Determinism: the result depends on the gradient only through its values *)
Section Det.
  Context {T : Type} (O : Ops T).
  Lemma adam_loop_ext g g' (h : adam_hp (T:=T)) : (forall x, g x = g' x) ->
    forall fuel t ps ms vs, adam_loop O g h fuel t ps ms vs = adam_loop O g' h fuel t ps ms vs.
  Proof.
    intros E. induction fuel as [|fuel IH]; intros; cbn [adam_loop]; [reflexivity|].
    rewrite E. destruct (adam_coords O h (S t) ps ms vs (g' ps)) as [[p1 m1] v1].
    destruct (converged O p1 ps); [reflexivity|apply IH].
  Qed.
  Theorem adam_deterministic g g' (h : adam_hp (T:=T)) k th0 :
    (forall x, g x = g' x) -> adam O g h k th0 = adam O g' h k th0.
  Proof. intros E. unfold adam. apply adam_loop_ext, E. Qed.
  Lemma sgd_loop_ext g g' (h : sgd_hp (T:=T)) : (forall x, g x = g' x) ->
    forall fuel ps us, sgd_loop O g h fuel ps us = sgd_loop O g' h fuel ps us.
  Proof.
    intros E. induction fuel as [|fuel IH]; intros; cbn [sgd_loop]; [reflexivity|].
    rewrite E. destruct (sgd_coords O h ps us (g' (sgd_point O h ps us))) as [p1 u1].
    destruct (converged O p1 ps); [reflexivity|apply IH].
  Qed.
  Theorem sgd_deterministic g g' (h : sgd_hp (T:=T)) k th0 :
    (forall x, g x = g' x) -> sgd O g h k th0 = sgd O g' h k th0.
  Proof. intros E. unfold sgd. apply sgd_loop_ext, E. Qed.
End Det.

(** ** What the early stop means (on the reals) *)
Local Open Scope R_scope.

Lemma RO_is_nan x : is_nan RO x = false.
Proof. unfold is_nan; cbn [eqb RO]. unfold Reqb. destruct (Req_EM_T x x); [reflexivity|contradiction]. Qed.
Lemma RO_fmax x y : fmax RO x y = Rmax x y.
Proof.
  unfold fmax. rewrite !RO_is_nan. cbn [ltb RO]. unfold Rltb, Rmax.
  destruct (Rlt_dec x y), (Rle_dec x y); try reflexivity; lra.
Qed.
Lemma RO_fmin x y : fmin RO x y = Rmin x y.
Proof.
  unfold fmin. rewrite !RO_is_nan. cbn [ltb RO]. unfold Rltb, Rmin.
  destruct (Rlt_dec y x), (Rle_dec x y); try reflexivity; lra.
Qed.
Lemma RO_nan : nan_ RO = 0.
Proof. unfold nan_; cbn [div zero RO]. unfold Rdiv. ring. Qed.

Lemma fold_fmax_ge (l : list R) s : s <= fold_left (fmax RO) l s /\ forall x, In x l -> x <= fold_left (fmax RO) l s.
Proof.
  revert s. induction l as [|a l IH]; intros s; cbn [fold_left].
  - split; [lra|intros x []].
  - rewrite RO_fmax. destruct (IH (Rmax s a)) as [H1 H2]. split.
    + pose proof (Rmax_l s a). lra.
    + intros x [->|Hx]; [pose proof (Rmax_r s x); lra | auto].
Qed.
Lemma fold_fmax_lt (l : list R) s e : s < e -> (forall x, In x l -> x < e) -> fold_left (fmax RO) l s < e.
Proof.
  revert s. induction l as [|a l IH]; intros s Hs Hl; cbn [fold_left]; [exact Hs|].
  rewrite RO_fmax. apply IH.
  - apply Rmax_lub_lt; [exact Hs|apply Hl; left; reflexivity].
  - intros x Hx. apply Hl. right. exact Hx.
Qed.

Lemma feps_pos : 0 < feps RO.
Proof. unfold feps; cbn [ofQ RO]. unfold Q2R; cbn. lra. Qed.

(** the scale against which a change is measured: the smaller magnitude, 1 if a value is zero *)
Definition change_scale (x y : R) : R :=
  if Req_EM_T x 0 then 1 else if Req_EM_T y 0 then 1 else Rmin (Rabs x) (Rabs y).

Lemma rel_change_lt x y e : 0 < e -> (rel_change RO x y < e <-> Rabs (x - y) < e * change_scale x y).
Proof.
  intros He. unfold rel_change, change_scale. cbn [eqb abs sub div zero RO]. unfold Reqb.
  destruct (Req_EM_T x 0) as [->|Hx].
  - replace (0 - y) with (- y) by ring. rewrite Rabs_Ropp. lra.
  - destruct (Req_EM_T y 0) as [->|Hy].
    + replace (x - 0) with x by ring. lra.
    + rewrite RO_fmin.
      assert (Hm : 0 < Rmin (Rabs x) (Rabs y)) by (apply Rmin_glb_lt; apply Rabs_pos_lt; assumption).
      split; intros H.
      * apply (Rmult_lt_compat_r _ _ _ Hm) in H. unfold Rdiv in H. rewrite Rmult_assoc, Rinv_l, Rmult_1_r in H by lra. exact H.
      * apply (Rmult_lt_reg_r (Rmin (Rabs x) (Rabs y))); [exact Hm|].
        unfold Rdiv. rewrite Rmult_assoc, Rinv_l, Rmult_1_r by lra. exact H.
Qed.

Lemma In_map2 {A B C} (f : A -> B -> C) l1 l2 z :
  In z (map2 f l1 l2) -> exists i, (i < length l1)%nat /\ (i < length l2)%nat /\
    forall d1 d2, z = f (nth i l1 d1) (nth i l2 d2).
Proof.
  revert l2. induction l1 as [|a l1 IH]; intros [|b l2]; cbn [map2 In]; try contradiction.
  intros [<-|Hz].
  - exists 0%nat. cbn. repeat split; try lia.
  - destruct (IH _ Hz) as (i & H1 & H2 & H3). exists (S i). cbn. repeat split; try lia. exact H3.
Qed.
Lemma map2_In_nth {A B C} (f : A -> B -> C) l1 l2 i d1 d2 :
  (i < length l1)%nat -> (i < length l2)%nat -> In (f (nth i l1 d1) (nth i l2 d2)) (map2 f l1 l2).
Proof.
  revert l2 i. induction l1 as [|a l1 IH]; intros [|b l2] [|i]; cbn [map2 length nth]; intros; try lia.
  - left; reflexivity.
  - right. apply IH; lia.
Qed.

(** the optimisers stop early exactly when every parameter's change is below 2^-52 of its scale *)
Theorem converged_iff (new old : list R) :
  length new = length old ->
  (converged RO new old = true <->
   forall i, (i < length new)%nat -> Rabs (nth i new 0 - nth i old 0) < feps RO * change_scale (nth i new 0) (nth i old 0)).
Proof.
  intros Hlen. unfold converged, vmax. cbn [ltb RO]. unfold Rltb. rewrite RO_nan.
  destruct (Rlt_dec (fold_left (fmax RO) (map2 (rel_change RO) new old) 0) (feps RO)) as [Hlt|Hge]; split; intros H; try reflexivity; try discriminate.
  - intros i Hi. apply rel_change_lt; [apply feps_pos|].
    destruct (fold_fmax_ge (map2 (rel_change RO) new old) 0) as [_ Hall].
    eapply Rle_lt_trans; [apply Hall|exact Hlt].
    apply map2_In_nth; lia.
  - exfalso. apply Hge. apply fold_fmax_lt; [apply feps_pos|].
    intros x Hx. apply In_map2 in Hx. destruct Hx as (i & H1 & H2 & Hx). rewrite (Hx 0 0).
    apply rel_change_lt; [apply feps_pos|]. apply H. exact H1.
Qed.

(** ** D22: the test the code used before the repair is blind to the sign *)
Lemma rel_diff_sign_blind x : rel_diff RO x (- x) = 0.
Proof.
  unfold rel_diff. cbn [eqb abs sub div zero RO]. unfold Reqb.
  destruct (Req_EM_T x 0) as [->|Hx].
  - rewrite Ropp_0. apply Rabs_R0.
  - destruct (Req_EM_T (- x) 0) as [H0|_]; [exfalso; lra|].
    rewrite Rabs_Ropp. replace (Rabs x - Rabs x) with 0 by ring. rewrite Rabs_R0. unfold Rdiv. ring.
Qed.
(** ... whereas the repaired test sees a flip of a non-zero parameter as a relative change of 2 *)
Lemma rel_change_flip x : x <> 0 -> rel_change RO (- x) x = 2.
Proof.
  intros Hx. unfold rel_change. cbn [eqb abs sub div zero RO]. unfold Reqb.
  destruct (Req_EM_T (- x) 0) as [H0|_]; [exfalso; lra|].
  destruct (Req_EM_T x 0) as [H0|_]; [contradiction|].
  rewrite RO_fmin, Rabs_Ropp. unfold Rmin. destruct (Rle_dec (Rabs x) (Rabs x)); [|lra].
  replace (- x - x) with (- (2 * x)) by ring. rewrite Rabs_Ropp, Rabs_mult, (Rabs_pos_eq 2) by lra.
  pose proof (Rabs_pos_lt x Hx). field. lra.
Qed.

(** ** The hypotheses of the theorems above are satisfiable on non-trivial instances (rationals, by computation) *)
Section Examples.
  Local Open Scope Q_scope.
  (** f(x) = sum x_i^2, gradient 2x: preserves the dimension *)
  Definition ex_grad (x : list Q) : list Q := map (fun v => Qred (2 * v)) x.
  Example ex_grad_len : forall x, length (ex_grad x) = length x.
  Proof. intros; apply map_length. Qed.

  Definition ex_sgd : sgd_hp (T:=Q) := {| s_step := 1 # 4; s_mom := 1 # 2; s_nesterov := true |}.
  (** three Nesterov steps from (1, -2): no flag raised, all iterates distinct *)
  Example ex_sgd_running :
    map (sgd_flag QO ex_grad ex_sgd [1; -2]) [1; 2; 3]%nat = [false; false; false] /\
    sgd QO ex_grad ex_sgd 3 [1; -2] = sgd_theta QO ex_grad ex_sgd 3 [1; -2] /\
    sgd_theta QO ex_grad ex_sgd 3 [1; -2] = [- (1 # 32); 1 # 16].
  Proof. vm_compute. repeat split. Qed.

  (** plain SGD with step 1/2 on x^2 lands on 0 after one step and is stopped by the second *)
  Definition ex_sgd_stop : sgd_hp (T:=Q) := {| s_step := 1 # 2; s_mom := 0; s_nesterov := false |}.
  Example ex_sgd_stops :
    sgd_flag QO ex_grad ex_sgd_stop [1] 1 = false /\ sgd_flag QO ex_grad ex_sgd_stop [1] 2 = true /\
    sgd QO ex_grad ex_sgd_stop 7 [1] = sgd_theta QO ex_grad ex_sgd_stop 2 [1].
  Proof. vm_compute. repeat split. Qed.

  (** Adam on the rational carrier (whose [sqrt] is the constant 0: the update is alpha*mhat/eps) *)
  Definition ex_adam : adam_hp (T:=Q) := {| a_step := 1 # 10; a_b1 := 9 # 10; a_b2 := 999 # 1000; a_eps := 1 |}.
  Example ex_adam_running :
    map (adam_flag QO ex_grad ex_adam [1; -2]) [1; 2]%nat = [false; false] /\
    adam QO ex_grad ex_adam 2 [1; -2] = adam_theta QO ex_grad ex_adam 2 [1; -2].
  Proof. vm_compute. repeat split. Qed.
End Examples.

(** the sign flip of D22 as a run: with the ORIGINAL test, SGD on 2x^2 with step 1/2 would stop at -1 *)
Example d22_witness :
  rel_diff QO (-1)%Q 1%Q = 0%Q /\ Qlt 0 (rel_change QO (-1)%Q 1%Q) /\ rel_change QO (-1)%Q 1%Q = 2%Q.
Proof. vm_compute. repeat split. Qed.
