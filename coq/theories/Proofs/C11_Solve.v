(** Proofs for C11, part 4: [lu_solve] inverts the system factored by [lu] (exact arithmetic). *)
From Coq Require Import List Arith Bool Lia Reals Lra Permutation.
From Compute Require Import Base.Ops Base.ListMat Model.Reduce Model.MatMul Model.Subst Model.LU
  Spec.Factor Proofs.C05 Proofs.LinAlgBase Proofs.C11_Subst Proofs.C11_LU.
Import ListNotations.
Local Open Scope R_scope.

Local Notation E := (ent 0).

(** tail sums  sum_{m <= k < n} f k *)
Definition tsum (n m : nat) (f : nat -> R) : R := rsum (fun k => if (m <=? k)%nat then f k else 0) n.

Lemma tsum_step n m f : (m < n)%nat -> tsum n m f = f m + tsum n (S m) f.
Proof.
  intros Hm. unfold tsum.
  assert (Hs : rsum (fun k => if (k =? m)%nat then f m else 0) n = f m).
  { rewrite (rsum_single _ m n Hm); [rewrite Nat.eqb_refl; reflexivity|].
    intros k Hk Hne. apply Nat.eqb_neq in Hne. rewrite Hne. reflexivity. }
  rewrite <- Hs at 1. rewrite <- rsum_plus. apply rsum_ext. intros k Hk.
  destruct (Nat.leb_spec m k), (Nat.eqb_spec k m), (Nat.leb_spec (S m) k); subst; try lia; lra.
Qed.

Lemma tsum_ext n m f g : (forall k, (m <= k < n)%nat -> f k = g k) -> tsum n m f = tsum n m g.
Proof.
  intros H. unfold tsum. apply rsum_ext. intros k Hk. destruct (Nat.leb_spec m k); auto.
Qed.

(** ** forward elimination with the unit lower triangle *)
Lemma fwd_elim_spec M n (x0 : list R) :
  length x0 = n ->
  length (fwd_elim RO M n x0) = n /\
  forall i, (i < n)%nat ->
    nth i (fwd_elim RO M n x0) 0 = nth i x0 0 - rsum (fun k => E M i k * nth k (fwd_elim RO M n x0) 0) i.
Proof.
  intros Hl. unfold fwd_elim.
  set (step := fun (x : list R) (k : nat) =>
                 let xk := nth k x (zero RO) in
                 mapi (fun i xi => if (k <? i)%nat then sub RO xi (mul RO xk (ent (zero RO) M i k)) else xi) x).
  assert (H : forall m, (m <= n)%nat ->
            let x := fold_left step (seq 0 m) x0 in
            length x = n /\
            forall i, (i < n)%nat -> nth i x 0 = nth i x0 0 - rsum (fun k => E M i k * nth k x 0) (Nat.min i m)).
  { induction m as [|m IH]; intros Hm; cbn zeta.
    - cbn [seq fold_left]. split; auto. intros i Hi. rewrite Nat.min_0_r. simpl. lra.
    - rewrite seq_S, fold_left_app. cbn [fold_left Nat.add].
      specialize (IH ltac:(lia)). cbn zeta in IH. destruct IH as [Hxl Hx].
      set (x := fold_left step (seq 0 m) x0) in *.
      assert (Hn : forall i, (i < n)%nat ->
                nth i (step x m) 0 = if (m <? i)%nat then nth i x 0 - nth m x 0 * E M i m else nth i x 0).
      { intros i Hi. unfold step. cbn [zero sub mul RO]. rewrite (nth_mapi _ x i 0 0) by lia. reflexivity. }
      split; [unfold step; rewrite mapi_length; auto|].
      intros i Hi. rewrite Hn by auto.
      destruct (Nat.ltb_spec m i) as [Hmi|Hmi].
      + rewrite Nat.min_r by lia. cbn [rsum]. rewrite (Hn m) by lia. rewrite Nat.ltb_irrefl.
        rewrite (Hx i Hi), Nat.min_r by lia.
        rewrite (rsum_ext (fun k => E M i k * nth k (step x m) 0) (fun k => E M i k * nth k x 0) m).
        * lra.
        * intros k Hk. rewrite Hn by lia. destruct (Nat.ltb_spec m k); [lia|]. reflexivity.
      + rewrite Nat.min_l by lia. rewrite (Hx i Hi), Nat.min_l by lia. f_equal.
        apply rsum_ext. intros k Hk. rewrite Hn by lia. destruct (Nat.ltb_spec m k); [lia|]. reflexivity. }
  specialize (H n (le_n n)). cbn zeta in H. destruct H as [Hxl Hx]. split; auto.
  intros i Hi. rewrite (Hx i Hi) at 1. rewrite Nat.min_l by lia. reflexivity.
Qed.

(** ** back substitution with the upper triangle *)
Lemma back_elim_spec M n (y : list R) :
  length y = n ->
  length (back_elim RO M n y) = n /\
  forall i, (i < n)%nat ->
    nth i (back_elim RO M n y) 0 =
    (nth i y 0 - tsum n (S i) (fun k => E M i k * nth k (back_elim RO M n y) 0)) / E M i i.
Proof.
  intros Hl. unfold back_elim.
  set (step := fun (x : list R) (k : nat) =>
                 let xk := div RO (nth k x (zero RO)) (ent (zero RO) M k k) in
                 mapi (fun i xi => if (i <? k)%nat then sub RO xi (mul RO xk (ent (zero RO) M i k))
                                   else if (i =? k)%nat then xk else xi) x).
  assert (H : forall t, (t <= n)%nat ->
            let x := fold_left step (rev (seq (n - t) t)) y in
            length x = n /\
            (forall i, (n - t <= i < n)%nat ->
               nth i x 0 = (nth i y 0 - tsum n (S i) (fun k => E M i k * nth k x 0)) / E M i i) /\
            (forall i, (i < n - t)%nat ->
               nth i x 0 = nth i y 0 - tsum n (n - t) (fun k => E M i k * nth k x 0))).
  { induction t as [|t IH]; intros Ht; cbn zeta.
    - cbn [seq rev fold_left]. split; auto. split; [intros; lia|].
      intros i Hi. rewrite Nat.sub_0_r. unfold tsum. rewrite rsum_zero; [lra|].
      intros k Hk. destruct (Nat.leb_spec n k); [lia|]. reflexivity.
    - replace (n - S t)%nat with (n - t - 1)%nat by lia.
      set (q := (n - t - 1)%nat).
      assert (Hq : (S q = n - t)%nat) by lia.
      cbn [seq]. rewrite Hq. cbn [rev]. rewrite fold_left_app. cbn [fold_left].
      specialize (IH ltac:(lia)). cbn zeta in IH. destruct IH as [Hxl [Hhi Hlo]].
      set (x := fold_left step (rev (seq (n - t) t)) y) in *.
      assert (Hn : forall i, (i < n)%nat ->
                nth i (step x q) 0 =
                if (i <? q)%nat then nth i x 0 - nth q x 0 / E M q q * E M i q
                else if (i =? q)%nat then nth q x 0 / E M q q else nth i x 0).
      { intros i Hi. unfold step. cbn [zero sub mul div RO]. rewrite (nth_mapi _ x i 0 0) by lia. reflexivity. }
      assert (Hkeep : forall k, (q < k < n)%nat -> nth k (step x q) 0 = nth k x 0).
      { intros k Hk. rewrite Hn by lia. destruct (Nat.ltb_spec k q); [lia|].
        destruct (Nat.eqb_spec k q); [lia|]. reflexivity. }
      split; [unfold step; rewrite mapi_length; auto|]. split.
      + intros i Hi. destruct (Nat.eq_dec i q) as [->|Hne].
        * rewrite Hn by lia. rewrite Nat.ltb_irrefl, Nat.eqb_refl.
          rewrite (Hlo q) by lia. rewrite Hq. f_equal. f_equal.
          apply tsum_ext. intros k Hk. rewrite Hkeep by lia. reflexivity.
        * rewrite Hkeep by lia. rewrite (Hhi i) by lia. f_equal. f_equal.
          apply tsum_ext. intros k Hk. rewrite Hkeep by lia. reflexivity.
      + intros i Hi. rewrite Hn by lia. destruct (Nat.ltb_spec i q); [|lia].
        rewrite (tsum_step n q) by lia. rewrite (Hn q) by lia. rewrite Nat.ltb_irrefl, Nat.eqb_refl.
        rewrite (Hlo i) by lia. rewrite Hq.
        rewrite (tsum_ext n (n - t) (fun k => E M i k * nth k (step x q) 0) (fun k => E M i k * nth k x 0))
          by (intros k Hk; rewrite Hkeep by lia; reflexivity).
        lra. }
  specialize (H n (le_n n)). cbn zeta in H. rewrite Nat.sub_diag in H. destruct H as [Hxl [Hhi _]].
  split; auto. intros i Hi. apply Hhi. lia.
Qed.

(** ** The solver *)
Lemma lu_solve_correct a m piv b n :
  lu RO a = Some (m, piv) -> (n * n)%nat = length a -> length b = n ->
  (forall i, (i < n)%nat -> getm m n i i <> 0) ->
  exists x, lu_solve RO m piv b = Some x /\ length x = n /\
            forall i, (i < n)%nat -> mvec a n x i = nth i b 0.
Proof.
  intros Hlu Hn Hb Hd.
  destruct (lu_reconstructs a m piv n Hlu Hn) as (Hml & Hp & Hrec & _).
  pose proof (is_perm_length _ _ Hp) as Hpl.
  unfold lu_solve. rewrite Hb, Hml, Nat.eqb_refl. cbn [guard bind].
  rewrite Hpl, Nat.leb_refl. cbn [guard bind].
  assert (Hall : forallb (fun p => (p <? n)%nat) piv = true).
  { apply forallb_forall. intros p Hin. apply Nat.ltb_lt.
    destruct (In_nth _ _ 0%nat Hin) as [i [Hi He]]. subst p. apply (is_perm_lt _ _ _ Hp). lia. }
  rewrite Hall. cbn [guard bind]. rewrite Nat.sub_diag. cbn [repeat]. rewrite app_nil_r.
  set (M := unflatten m n n).
  set (x0 := map (fun p => nth p b (zero RO)) piv).
  assert (Hx0l : length x0 = n) by (unfold x0; rewrite map_length; auto).
  assert (Hx0 : forall i, (i < n)%nat -> nth i x0 0 = nth (nth i piv 0%nat) b 0).
  { intros i Hi. unfold x0. cbn [zero RO].
    rewrite (nth_indep _ 0 ((fun p => nth p b 0) 0%nat)) by (rewrite map_length; lia).
    apply (map_nth (fun p => nth p b 0)). }
  destruct (fwd_elim_spec M n x0 Hx0l) as [Hyl Hy].
  set (y := fwd_elim RO M n x0) in *.
  destruct (back_elim_spec M n y Hyl) as [Hxl Hx].
  set (x := back_elim RO M n y) in *.
  assert (HE : forall i k, (i < n)%nat -> (k < n)%nat -> E M i k = getm m n i k)
    by (intros; apply ent_unflatten; auto).
  exists x. split; [reflexivity|]. split; [auto|].
  (* L.y = P.b and U.x = y *)
  assert (HL : forall i, (i < n)%nat -> rsum (fun k => Lof m n i k * nth k y 0) n = nth i x0 0).
  { intros i Hi. unfold Lof. rewrite (rsum_upto _ i n Hi).
    - rewrite Nat.ltb_irrefl, Nat.eqb_refl. rewrite (Hy i Hi).
      rewrite (rsum_ext _ (fun k => E M i k * nth k y 0) i).
      + lra.
      + intros k Hk. destruct (Nat.ltb_spec k i); [|lia]. rewrite HE by lia. reflexivity.
    - intros k Hk. destruct (Nat.ltb_spec k i); [lia|]. destruct (Nat.eqb_spec k i); [lia|]. lra. }
  assert (HU : forall k, (k < n)%nat -> rsum (fun c => Uof m n k c * nth c x 0) n = nth k y 0).
  { intros k Hk. specialize (Hd k Hk).
    transitivity (tsum n k (fun c => E M k c * nth c x 0)).
    - unfold tsum, Uof. apply rsum_ext. intros c Hc. destruct (Nat.leb_spec k c); [|lra].
      rewrite HE by lia. reflexivity.
    - rewrite (tsum_step n k) by auto. cbv beta. rewrite (Hx k Hk). rewrite HE by auto. field. auto. }
  (* (P.A).x = L.(U.x) *)
  assert (HPA : forall i, (i < n)%nat -> mvec a n x (nth i piv 0%nat) = nth (nth i piv 0%nat) b 0).
  { intros i Hi. rewrite <- Hx0, <- HL by auto. unfold mvec.
    rewrite (rsum_ext _ (fun c => rsum (fun k => Lof m n i k * Uof m n k c * nth c x 0) n) n).
    - rewrite rsum_swap. apply rsum_ext. intros k Hk. rewrite <- (HU k Hk).
      rewrite <- rsum_scal_l. apply rsum_ext. intros c Hc. lra.
    - intros c Hc. rewrite <- (Hrec i c Hi Hc). rewrite <- rsum_scal_r. reflexivity. }
  intros r Hr. destruct (is_perm_surj _ _ r Hp Hr) as [i [Hi He]]. rewrite <- He. apply HPA; auto.
Qed.
