(** C09 (extension): |erf_model x - erf x| <= 1.5e-7 for every real x in [1/2, 1] (adaptive cells; see C09_erf_base.v). *)
From Coquelicot Require Import Coquelicot.
From Compute Require Import Proofs.C09_base Proofs.C09 Proofs.C09_erf_base.
Open Scope R_scope.
Lemma erf_err_part2 : forall x, 3 / 4 - 1 / 4 <= x <= 3 / 4 + 1 / 4 -> Rabs (erf_err x) <= 15e-8.
Proof. erf_range 3%Z 4%Z 12%nat. Qed.
