(** Proofs for C03, part 3: the Gamma sampler (positivity, boost identity), integrality and support of the Poisson
    and binomial-inversion samplers.  Real carrier, every random source. *)
From Coq Require Import Reals List ZArith NArith QArith Lra Lia Bool Psatz.
From Compute Require Import Base.Ops Base.ListMat Base.Rng Model.MatMul Model.Samplers Spec.Samplers Proofs.C03.
Import ListNotations.
Open Scope R_scope.

Section AnySource.
  Context {S : Type} (src : source S R).
  Local Notation U s := (fst (next_f64 src s)).
  Local Notation St s := (snd (next_f64 src s)).

  (** ** Gamma *)
  Lemma gamma_xv_pos fuel nfuel d : forall s x v s1, gamma_xv RO src fuel nfuel d s = Ok (x, v, s1) -> 0 < v.
  Proof.
    induction fuel as [|fuel IH]; intros s x v s1 H; [discriminate|]. cbn [gamma_xv] in H.
    destruct (normal_sample RO src nfuel (zero RO) (one RO) s) as [[x0 s0]| |]; cbn [res_bind] in H; try discriminate.
    match type of H with (if ?c then _ else _) = _ => destruct c eqn:E end.
    - inversion H; subst. cbn [ltb RO zero] in E. apply Rltb_true in E. exact E.
    - eapply IH; eassumption.
  Qed.
  Lemma gamma_loop_pos fuel ifuel d beta boost :
    0 < d -> 0 < beta -> 0 < boost ->
    forall s g s', gamma_loop RO src fuel ifuel d beta boost s = Ok (g, s') -> 0 < g.
  Proof.
    intros Hd Hb Hbo. induction fuel as [|fuel IH]; intros s g s' H; [discriminate|]. cbn [gamma_loop] in H.
    destruct (gamma_xv RO src ifuel ifuel d s) as [[[x v] s1]| |] eqn:Exv; cbn [res_bind] in H; try discriminate.
    apply gamma_xv_pos in Exv.
    destruct (uniform_sample RO src (zero RO) (one RO) s1) as [u s2].
    assert (Hg : 0 < boost * (d * v / beta)).
    { apply Rmult_lt_0_compat; [assumption|]. apply Rmult_lt_0_compat; [nra|apply Rinv_0_lt_compat; assumption]. }
    match type of H with (if ?c then _ else _) = _ => destruct c end.
    - inversion H; subst. exact Hg.
    - match type of H with (if ?c then _ else _) = _ => destruct c end.
      + inversion H; subst. exact Hg.
      + eapply IH; eassumption.
  Qed.
  Lemma third_R : div RO (one RO) (ofZ RO 3) = 1 / 3.
  Proof. reflexivity. Qed.
  (** every value the Gamma sampler returns is positive — shape >= 1 (Marsaglia-Tsang proper) and shape < 1 (boost) alike *)
  Lemma gamma_sample_pos fuel alpha beta s g s' :
    0 < alpha -> 0 < beta -> gamma_sample RO src fuel alpha beta s = Ok (g, s') -> 0 < g.
  Proof.
    intros Ha Hb H. unfold gamma_sample in H. cbn [ltb RO one] in H. unfold Rltb in H.
    destruct (Rlt_dec alpha 1).
    - destruct (uniform_sample RO src (zero RO) 1 s) as [u s1]. cbn [add sub div RO one ofZ f2 powf] in H.
      eapply gamma_loop_pos; [| |  |exact H]; try assumption; [lra|].
      unfold powf. cbn [f2 RO Rf2]. unfold Rpower. apply exp_pos.
    - cbn [sub div RO one ofZ] in H. eapply gamma_loop_pos; [| | |exact H]; try assumption; lra.
  Qed.

  (** boost identity: for shape < 1 the draw is U^(1/shape) times the shape+1 draw made from the following state *)
  Definition res_map {A B} (f : A -> B) (r : res (A * S)) : res (B * S) :=
    match r with Ok (a, s) => Ok (f a, s) | Fail => Fail | Fuel => Fuel end.
  Lemma gamma_loop_boost fuel ifuel d beta b :
    forall s, gamma_loop RO src fuel ifuel d beta b s = res_map (fun g => b * g) (gamma_loop RO src fuel ifuel d beta 1 s).
  Proof.
    induction fuel as [|fuel IH]; intros s; [reflexivity|]. cbn [gamma_loop].
    destruct (gamma_xv RO src ifuel ifuel d s) as [[[x v] s1]| |]; cbn [res_bind res_map]; try reflexivity.
    destruct (uniform_sample RO src (zero RO) (one RO) s1) as [u s2].
    match goal with |- (if ?c then _ else _) = _ => destruct c end.
    - cbn [res_map mul RO]. do 2 f_equal. ring.
    - match goal with |- (if ?c then _ else _) = _ => destruct c end.
      + cbn [res_map mul RO]. do 2 f_equal. ring.
      + apply IH.
  Qed.
  Lemma gamma_boost_identity fuel alpha beta s :
    0 < alpha < 1 ->
    gamma_sample RO src fuel alpha beta s =
    res_map (fun g => Rpower (U s) (1 / alpha) * g) (gamma_sample RO src fuel (alpha + 1) beta (St s)).
  Proof.
    intros [H0 H1]. unfold gamma_sample. cbn [ltb RO one]. unfold Rltb.
    destruct (Rlt_dec alpha 1); [|lra]. destruct (Rlt_dec (alpha + 1) 1); [lra|].
    change (zero RO) with 0. change (one RO) with 1. rewrite unit_sample_R.
    cbn [add sub div RO one ofZ]. rewrite gamma_loop_boost. reflexivity.
  Qed.

  (** ** Poisson, multiplication method: the result is the number of extra uniform variates consumed *)
  Lemma poisson_mult_loop_count fuel : forall limit count product s c s',
    poisson_mult_loop RO src fuel limit count product s = Ok (c, s') -> exists n : nat, c = count + INR n.
  Proof.
    induction fuel as [|fuel IH]; intros limit count product s c s' H; cbn [poisson_mult_loop] in H.
    - destruct (ltb RO limit product); [discriminate|]. inversion H; subst. exists 0%nat. cbn. ring.
    - destruct (ltb RO limit product).
      + destruct (next_f64 src s) as [u s1]. apply IH in H. destruct H as [n Hn]. exists (Datatypes.S n).
        rewrite Hn, S_INR. cbn [add RO one]. ring.
      + inversion H; subst. exists 0%nat. cbn. ring.
  Qed.
  Lemma poisson_mult_count fuel lambda s c s' :
    poisson_mult RO src fuel lambda s = Ok (c, s') -> exists n : nat, c = INR n.
  Proof.
    unfold poisson_mult. destruct (next_f64 src s) as [u s1]. intros H. apply poisson_mult_loop_count in H.
    destruct H as [n Hn]. exists n. rewrite Hn. cbn [zero RO]. ring.
  Qed.

  (** ** Poisson, PTRS: the squeeze acceptance precedes the [k < 0] test in the code; it never returns a negative count *)
  Lemma Q2R_dec p q : Q2R (p # q) = IZR p / IZR (Zpos q).
  Proof. reflexivity. Qed.
  Lemma ptrs_squeeze_nonneg lam U0 :
    10 <= lam -> Rabs U0 <= 1 / 2 -> 7 / 100 <= 1 / 2 - Rabs U0 ->
    let slam := R_sqrt.sqrt lam in
    let b := 931 / 1000 + 253 / 100 * slam in
    let a := - (59 / 1000) + 2483 / 100000 * b in
    0 <= (2 * a / (1 / 2 - Rabs U0) + b) * U0 + lam + 43 / 100.
  Proof.
    intros Hl HU Hus slam b a.
    assert (Ht : 3 <= slam).
    { unfold slam. rewrite <- (sqrt_square 3) by lra. apply sqrt_le_1_alt. lra. }
    assert (Htt : slam * slam = lam) by (unfold slam; apply sqrt_sqrt; lra).
    set (us := 1 / 2 - Rabs U0) in *.
    assert (Hb : 0 < b) by (unfold b; lra).
    assert (Ha : 0 < a) by (unfold a, b; lra).
    assert (Hus0 : 0 < us) by lra.
    assert (Hq : 0 < 2 * a / us <= 2 * a / (7 / 100)).
    { split; [apply Rdiv_lt_0_compat; lra|]. unfold Rdiv. apply Rmult_le_compat_l; [lra|]. apply Rinv_le_contravar; lra. }
    set (c := 2 * a / us) in *.
    assert (HU2 : - (43 / 100) <= U0 <= 43 / 100).
    { unfold us in Hus. unfold Rabs in Hus. destruct (Rcase_abs U0); lra. }
    assert (Hlow : - ((2 * a / (7 / 100) + b) * (43 / 100)) <= (c + b) * U0).
    { destruct (Rle_lt_dec 0 U0) as [Hp|Hn]; [assert (0 <= (c + b) * U0) by (apply Rmult_le_pos; lra); nra|].
      assert ((c + b) * (- U0) <= (2 * a / (7 / 100) + b) * (43 / 100)) by (apply Rmult_le_compat; lra). lra. }
    assert (Hpoly : 0 <= slam * slam + 43 / 100 - (2 * a / (7 / 100) + b) * (43 / 100)).
    { unfold a, b. nra. }
    lra.
  Qed.

  Lemma floor_nonneg x : 0 <= x -> 0 <= IZR (Int_part x).
  Proof.
    intros H. apply IZR_le. destruct (base_Int_part x) as [H1 H2].
    assert (-1 < IZR (Int_part x)) by lra. apply lt_IZR in H0. lia.
  Qed.

  Lemma ptrs_loop_integer fuel lam loglam b a invalpha vr : forall s k s',
    ptrs_loop RO src fuel lam loglam b a invalpha vr s = Ok (k, s') -> is_integer k.
  Proof.
    induction fuel as [|fuel IH]; intros s k s' H; [discriminate|]. cbn [ptrs_loop] in H.
    destruct (next_f64 src s) as [u0 s1]. destruct (next_f64 src s1) as [V s2].
    repeat match type of H with (if ?c then _ else _) = _ => destruct c end;
      try (inversion H; subst; eexists; cbn [f1 RO Rf1]; reflexivity); eapply IH; eassumption.
  Qed.

  Lemma ptrs_loop_nonneg fuel lam :
    10 <= lam -> unit_source src ->
    let slam := R_sqrt.sqrt lam in
    let b := Q2R (931 # 1000) + Q2R (253 # 100) * slam in
    let a := - Q2R (59 # 1000) + Q2R (2483 # 100000) * b in
    forall loglam invalpha vr s k s',
      ptrs_loop RO src fuel lam loglam b a invalpha vr s = Ok (k, s') -> 0 <= k.
  Proof.
    intros Hl Hu slam b a loglam invalpha vr. induction fuel as [|fuel IH]; intros s k s' H; [discriminate|].
    cbn [ptrs_loop] in H.
    pose proof (Hu s) as Hu0. destruct (next_f64 src s) as [u0 s1]. cbn [fst] in Hu0.
    destruct (next_f64 src s1) as [V s2].
    cbn [sub add mul div neg abs leb ltb ofQ two one zero f1 RO Rf1 andb orb] in H.
    match type of H with (if ?c then _ else _) = _ => destruct c eqn:E1 end.
    - inversion H; subst. apply floor_nonneg. apply andb_true_iff in E1. destruct E1 as [E1 _].
      apply Rleb_true in E1. rewrite !Q2R_dec in *.
      assert (HU : Rabs (u0 - 1 / 2) <= 1 / 2) by (unfold Rabs; destruct (Rcase_abs (u0 - 1 / 2)); lra).
      pose proof (ptrs_squeeze_nonneg lam (u0 - 1 / 2) Hl HU) as Hs. cbv zeta in Hs.
      unfold a, b, slam. rewrite !Q2R_dec.
      replace (1 + 1) with 2 by ring.
      assert (E1' : 7 / 100 <= 1 / 2 - Rabs (u0 - 1 / 2)) by (replace (7 / 100) with (IZR 7 / IZR 100) by reflexivity; exact E1).
      specialize (Hs E1'). 
      replace (IZR 931 / IZR 1000) with (931 / 1000) by reflexivity. replace (IZR 253 / IZR 100) with (253 / 100) by reflexivity.
      replace (IZR 59 / IZR 1000) with (59 / 1000) by reflexivity. replace (IZR 2483 / IZR 100000) with (2483 / 100000) by reflexivity.
      replace (IZR 43 / IZR 100) with (43 / 100) by reflexivity. replace (IZR 1 / IZR 2) with (1 / 2) by reflexivity.
      exact Hs.
    - match type of H with (if ?c then _ else _) = _ => destruct c eqn:E2 end; [eapply IH; eassumption|].
      match type of H with (if ?c then _ else _) = _ => destruct c eqn:E3 end; [|eapply IH; eassumption].
      inversion H; subst. apply orb_false_iff in E2. destruct E2 as [E2 _]. apply Rltb_false in E2. lra.
  Qed.

  (** a Poisson draw is a count, for every rate *)
  Lemma poisson_sample_count fuel lambda s k s' :
    0 < lambda -> unit_source src -> poisson_sample RO src fuel lambda s = Ok (k, s') -> exists n : nat, k = INR n.
  Proof.
    intros Hl Hu H. unfold poisson_sample in H. cbn [ltb RO ofZ] in H. unfold Rltb in H.
    destruct (Rlt_dec lambda 10) as [Hs|Hb].
    - eapply poisson_mult_count; eassumption.
    - unfold poisson_ptrs in H. apply ptrs_loop_integer in H as Hi. destruct Hi as [z Hz].
      apply ptrs_loop_nonneg in H; [|lra|assumption].
      subst k. apply le_IZR in H. exists (Z.to_nat z). rewrite INR_IZR_INZ, Z2Nat.id by assumption. reflexivity.
  Qed.

  (** ** binomial inversion (BINV with the restart bound): the value returned never exceeds n *)
  Lemma fmin_le_l x y : fmin RO x y <= x.
  Proof.
    unfold fmin, is_nan. cbn [eqb RO ltb]. unfold Reqb, Rltb.
    destruct (Req_EM_T x x); [|contradiction]. destruct (Req_EM_T y y); [|contradiction]. cbn [negb].
    destruct (Rlt_dec y x); lra.
  Qed.
  Lemma binv_loop_le (n : N) fuel r0 a sq bound :
    bound <= IZR (Z.of_N n) ->
    forall r u x s y s', (x <= n)%N -> binv_loop RO src fuel r0 a sq bound r u x s = Ok (y, s') -> (y <= n)%N.
  Proof.
    intros Hb. induction fuel as [|fuel IH]; intros r u x s y s' Hx H; cbn [binv_loop] in H.
    - destruct (ltb RO r u); [discriminate|]. inversion H; subst. exact Hx.
    - destruct (ltb RO r u); [|inversion H; subst; exact Hx].
      cbn [leb RO ofZ] in H. unfold Rleb in H. destruct (Rle_dec bound (IZR (Z.of_N x))) as [Hge|Hlt].
      + destruct (next_f64 src s) as [u1 s1]. eapply IH; [|exact H]. lia.
      + eapply IH; [|exact H]. assert (IZR (Z.of_N x) < IZR (Z.of_N n)) by lra. apply lt_IZR in H0. lia.
  Qed.
  Lemma binomial_inversion_le fuel n p s y s' :
    binomial_inversion RO src fuel n p s = Ok (y, s') -> (y <= n)%N.
  Proof.
    unfold binomial_inversion. destruct (next_f64 src s) as [u s1]. intros H.
    eapply binv_loop_le; [| |exact H]; [apply fmin_le_l|lia].
  Qed.

  (** the whole [Binomial::sample] in the degenerate and inversion regimes: an integer of [0, n] *)
  Lemma u64_sub_le n x : (x <= n)%N -> (n < 18446744073709551616)%N -> u64_sub n x = (n - x)%N.
  Proof.
    intros Hx Hn. unfold u64_sub. replace (n + 18446744073709551616 - x)%N with ((n - x) + 1 * 18446744073709551616)%N by lia.
    rewrite N.mod_add by lia. apply N.mod_small. lia.
  Qed.
  Lemma binomial_sample_support fuel n p s y s' :
    (n < 18446744073709551616)%N ->
    (* the regime in which the inversion method is used (or a degenerate parameter) *)
    (n = 0%N \/ p = 0 \/ Rabs (p - 1) <= Q2R (1 # 4503599627370496) \/
     (if Rlt_dec (1 / 2) p then 1 - p else p) * IZR (Z.of_N n) <= 30) ->
    binomial_sample RO src fuel n p s = Ok (y, s') -> exists k : Z, y = IZR k /\ (0 <= k <= Z.of_N n)%Z.
  Proof.
    intros Hn Hreg H. unfold binomial_sample in H.
    destruct (N.eqb_spec n 0) as [->|Hn0]; cbn [orb] in H.
    { inversion H; subst. exists 0%Z. split; [reflexivity|lia]. }
    cbn [eqb RO zero] in H. unfold Reqb in H. destruct (Req_EM_T p 0) as [->|Hp0].
    { inversion H; subst. exists 0%Z. split; [reflexivity|lia]. }
    cbn [leb abs sub RO one] in H. unfold epsilon in H. cbn [ofQ RO] in H. unfold Rleb in H.
    destruct (Rle_dec (Rabs (p - 1)) (Q2R (1 # 4503599627370496))) as [He|Hne].
    { inversion H; subst. exists (Z.of_N n). split; [reflexivity|lia]. }
    destruct Hreg as [?|[?|[?|Hreg]]]; try contradiction.
    cbn [ltb mul ofZ ofQ RO] in H. unfold Rltb in H.
    replace (Q2R (1 # 2)) with (1 / 2) in H by (unfold Q2R; cbn; lra).
    destruct (Rlt_dec (1 / 2) p) as [Hs|Hs]; cbn [leb RO] in H; unfold Rleb in H.
    - destruct (Rle_dec ((1 - p) * IZR (Z.of_N n)) 30) as [_|Hc]; [|contradiction].
      destruct (binomial_inversion RO src fuel n (1 - p) s) as [[x s1]| |] eqn:E; cbn [res_bind] in H; try discriminate.
      inversion H; subst. apply binomial_inversion_le in E. rewrite u64_sub_le by assumption.
      exists (Z.of_N (n - x)). split; [reflexivity|lia].
    - destruct (Rle_dec (p * IZR (Z.of_N n)) 30) as [_|Hc]; [|contradiction].
      destruct (binomial_inversion RO src fuel n p s) as [[x s1]| |] eqn:E; cbn [res_bind] in H; try discriminate.
      inversion H; subst. apply binomial_inversion_le in E. exists (Z.of_N x). split; [reflexivity|lia].
  Qed.
End AnySource.
