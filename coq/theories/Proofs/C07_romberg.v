(** Proofs for C07, part 4: Romberg's tableau — without early stop (eps = 0) it is a linear functional of the
    integrand, commutes with affine substitution, and is transported from [QO] to [RO]. *)
From Coq Require Import Reals List ZArith QArith Qreals Lra Lia Bool FunctionalExtensionality.
From Compute Require Import Base.Ops Base.ListMat Model.Quad Spec.Quad Proofs.C07_base Proofs.C07_hom Proofs.C07_poly.
Import ListNotations.

Section Tri.
  Context {T : Type} (O : Ops T).
  (** the second loop of [romberg] with the stopping test removed: last diagonal entry *)
  Fixpoint tri (c0s prevrow : list T) : T :=
    match c0s with
    | [] => last prevrow (zero O)
    | r :: rest => tri rest (next_row O prevrow r)
    end.
  Definition romberg_noeps (f : T -> T) (a b : T) (m : nat) : T :=
    let r00 := mul O (div O (sub O b a) (two O)) (add O (f a) (f b)) in
    tri (col0 O f a b m 1 r00) [r00].
  Fixpoint pown (x : T) (j : nat) : T :=
    match j with 0%nat => one O | S j' => mul O x (pown x j') end.
End Tri.

(** ** transport along a homomorphism *)
Section HomTri.
  Context {A B : Type} (OA : Ops A) (OB : Ops B) (h : A -> B) (H : hom OA OB h).
  Lemma h_last l : h (last l (zero OA)) = last (map h l) (zero OB).
  Proof.
    induction l as [|x l IH]; cbn [last map]; [apply (h_zero _ _ _ H)|].
    destruct l as [|y l]; [reflexivity|]. exact IH.
  Qed.
  Lemma h_tri c : forall p, h (tri OA c p) = tri OB (map h c) (map h p).
  Proof.
    induction c as [|r c IH]; intros p; cbn [tri map]; [apply h_last|].
    rewrite IH, (h_next_row _ _ _ H). reflexivity.
  Qed.
  Lemma h_romberg_noeps fa fb a b m :
    frel h fa fb -> h (romberg_noeps OA fa a b m) = romberg_noeps OB fb (h a) (h b) m.
  Proof.
    intros Hf. unfold romberg_noeps. rewrite h_tri, (h_col0 _ _ _ H fa fb _ _ _ Hf). cbn [map].
    rewrite (h_mul _ _ _ H), (h_div _ _ _ H), (h_sub _ _ _ H), (h_two _ _ _ H), (h_add _ _ _ H), !Hf.
    reflexivity.
  Qed.
  Lemma h_pown x j : h (pown OA x j) = pown OB (h x) j.
  Proof. induction j as [|j IH]; cbn [pown]; [apply (h_one _ _ _ H)|]. rewrite (h_mul _ _ _ H), IH. reflexivity. Qed.
End HomTri.

(** monomials on Q without intermediate reduction (cheaper in [vm_compute] than [pown QO]) *)
Fixpoint qpow (x : Q) (j : nat) : Q := match j with 0%nat => 1%Q | S j' => Qmult x (qpow x j') end.
Lemma qpow_frel j : frel Q2R (fun x => qpow x j) (fun x => pow x j).
Proof.
  intros x. induction j as [|j IH]; cbn [qpow pow]; [apply RMicromega.Q2R_1|]. rewrite Q2R_mult, IH. reflexivity.
Qed.

Open Scope R_scope.

Lemma pown_R x j : pown RO x j = x ^ j.
Proof. induction j as [|j IH]; cbn [pown pow]; [reflexivity|]. rewrite IH. reflexivity. Qed.

(** ** eps = 0 never stops early *)
Lemma div_nonneg x y : 0 <= x -> 0 <= y -> 0 <= x / y.
Proof.
  intros Hx Hy. destruct (Req_dec y 0) as [E|E].
  - subst y. unfold Rdiv. rewrite Rinv_0. lra.
  - apply Rmult_le_pos; [exact Hx|]. left. apply Rinv_0_lt_compat. lra.
Qed.
Lemma fmin_R_nonneg u v : 0 <= u -> 0 <= v -> 0 <= fmin RO u v.
Proof.
  intros Hu Hv. unfold fmin, is_nan. cbn [eqb ltb RO]. unfold Reqb.
  destruct (Req_EM_T u u) as [_|N]; [|exfalso; apply N; reflexivity].
  destruct (Req_EM_T v v) as [_|N]; [|exfalso; apply N; reflexivity].
  cbn [negb]. destruct (Rltb v u); assumption.
Qed.
Lemma Rltb_0_false x : 0 <= x -> Rltb x 0 = false.
Proof. intros Hx. unfold Rltb. destruct (Rlt_dec x 0); [lra|reflexivity]. Qed.
Lemma stop_R_false cur prev : stop RO cur prev 0 = false.
Proof.
  unfold stop. cbn [ltb abs sub div RO].
  rewrite !Rltb_0_false; [reflexivity|apply Rabs_pos|].
  apply div_nonneg; [apply Rabs_pos|]. apply fmin_R_nonneg; apply Rabs_pos.
Qed.
Lemma rows_R_noeps c0s : forall n prevrow, rows RO c0s n prevrow 0 = tri RO c0s prevrow.
Proof.
  induction c0s as [|r c IH]; intros n prevrow; cbn [rows tri]; [reflexivity|].
  rewrite stop_R_false, andb_false_r. apply IH.
Qed.
Lemma romberg_R f a b m : romberg RO f a b 0 (S m) = Some (romberg_noeps RO f a b m).
Proof. unfold romberg, romberg_noeps. rewrite rows_R_noeps. reflexivity. Qed.
Lemma romberg_R_zero f a b eps : romberg RO f a b eps 0 = None.
Proof. reflexivity. Qed.

(** ** linearity *)
Section Lin.
  Variables al be : R.
  Definition lc : list R -> list R -> list R := map2 (fun x y => al * x + be * y).

  Lemma extrap_lc p : forall p' m cur cur',
    extrap RO (lc p p') m (al * cur + be * cur') = lc (extrap RO p m cur) (extrap RO p' m cur').
  Proof.
    induction p as [|x p IH]; intros [|y p'] m cur cur'; cbn [lc map2 extrap]; try reflexivity.
    fold (lc p p'). f_equal.
    - cbn [add sub div one RO]. unfold Rdiv. ring.
    - rewrite <- IH. f_equal. cbn [add sub div one RO]. unfold Rdiv. ring.
  Qed.
  Lemma next_row_lc p p' r r' :
    next_row RO (lc p p') (al * r + be * r') = lc (next_row RO p r) (next_row RO p' r').
  Proof. unfold next_row. cbn [lc map2]. fold (lc (extrap RO p 1 r) (extrap RO p' 1 r')). rewrite <- extrap_lc. reflexivity. Qed.
  Lemma extrap_length p : forall m cur, length (extrap RO p m cur) = length p.
  Proof. induction p as [|x p IH]; intros m cur; cbn [extrap length]; [reflexivity|]. rewrite IH. reflexivity. Qed.
  Lemma next_row_length p r : length (next_row RO p r) = S (length p).
  Proof. unfold next_row. cbn [length]. rewrite extrap_length. reflexivity. Qed.
  Lemma last_lc l : forall l', length l = length l' -> last (lc l l') 0 = al * last l 0 + be * last l' 0.
  Proof.
    induction l as [|x l IH]; intros [|y l'] Hl; cbn [length] in Hl; try discriminate.
    - cbn. ring.
    - destruct l as [|x2 l]; destruct l' as [|y2 l']; cbn [length] in Hl; try discriminate.
      + reflexivity.
      + specialize (IH (y2 :: l') ltac:(cbn [length]; lia)). exact IH.
  Qed.
  Lemma tri_lc c : forall c' p p', length c = length c' -> length p = length p' ->
    tri RO (lc c c') (lc p p') = al * tri RO c p + be * tri RO c' p'.
  Proof.
    induction c as [|r c IH]; intros [|r' c'] p p' Hc Hp; cbn [length] in Hc; try discriminate.
    - cbn [lc map2 tri]. apply last_lc. exact Hp.
    - cbn [lc map2 tri]. fold (lc c c'). rewrite next_row_lc. apply IH; [lia|].
      rewrite !next_row_length. lia.
  Qed.

  Variables f g : R -> R.
  Lemma oddsum_lc a hn cnt k s s' :
    oddsum RO (fun x => al * f x + be * g x) a hn cnt k (al * s + be * s')
    = al * oddsum RO f a hn cnt k s + be * oddsum RO g a hn cnt k s'.
  Proof. rewrite !oddsum_R, rsum_lin. ring. Qed.
  Lemma col0_step_lc a hn N prev prev' :
    add RO (mul RO (ofQ RO (1 # 2)) (al * prev + be * prev'))
           (mul RO hn (oddsum RO (fun x => al * f x + be * g x) a hn N 1 (negzero RO)))
    = al * add RO (mul RO (ofQ RO (1 # 2)) prev) (mul RO hn (oddsum RO f a hn N 1 (negzero RO)))
      + be * add RO (mul RO (ofQ RO (1 # 2)) prev') (mul RO hn (oddsum RO g a hn N 1 (negzero RO))).
  Proof. rewrite !oddsum_R, negzero_R, rsum_lin. cbn [add mul RO]. ring. Qed.
  Lemma col0_lc a b cnt : forall n prev prev',
    col0 RO (fun x => al * f x + be * g x) a b cnt n (al * prev + be * prev')
    = lc (col0 RO f a b cnt n prev) (col0 RO g a b cnt n prev').
  Proof.
    induction cnt as [|c IH]; intros n prev prev'; cbn [col0 lc map2]; [reflexivity|].
    rewrite col0_step_lc. f_equal. apply IH.
  Qed.
  Lemma col0_length (F : R -> R) a b cnt : forall n prev, length (col0 RO F a b cnt n prev) = cnt.
  Proof. induction cnt as [|c IH]; intros n prev; cbn [col0 length]; [reflexivity|]. rewrite IH. reflexivity. Qed.

  Lemma romberg_noeps_linear a b m :
    romberg_noeps RO (fun x => al * f x + be * g x) a b m
    = al * romberg_noeps RO f a b m + be * romberg_noeps RO g a b m.
  Proof.
    unfold romberg_noeps.
    set (rf := mul RO (div RO (sub RO b a) (two RO)) (add RO (f a) (f b))).
    set (rg := mul RO (div RO (sub RO b a) (two RO)) (add RO (g a) (g b))).
    replace (mul RO (div RO (sub RO b a) (two RO)) (add RO (al * f a + be * g a) (al * f b + be * g b)))
      with (al * rf + be * rg) by (unfold rf, rg; cbn [add mul div sub RO]; ring).
    rewrite col0_lc. change [al * rf + be * rg] with (lc [rf] [rg]).
    apply tri_lc; [rewrite !col0_length; reflexivity|reflexivity].
  Qed.
End Lin.

Lemma lc_self c l : lc c 0 l l = map (Rmult c) l.
Proof. induction l as [|x l IH]; [reflexivity|]. cbn [lc map2 map]. fold (lc c 0 l l). rewrite IH. f_equal. ring. Qed.
Lemma tri_scale c col p : tri RO (map (Rmult c) col) (map (Rmult c) p) = c * tri RO col p.
Proof. rewrite <- !lc_self, tri_lc by reflexivity. ring. Qed.

(** ** affine substitution *)
Lemma col0_affine f a b cnt : forall n prev',
  col0 RO f a b cnt n ((b - a) * prev')
  = map (Rmult (b - a)) (col0 RO (fun t => f (a + (b - a) * t)) 0 1 cnt n prev').
Proof.
  induction cnt as [|c IH]; intros n prev'; cbn [col0 map]; [reflexivity|].
  set (P := powi RO (two RO) (Z.of_nat n)).
  assert (Es : oddsum RO f a (div RO (sub RO b a) P) (2 ^ (n - 1)) 1 (negzero RO)
               = oddsum RO (fun t => f (a + (b - a) * t)) 0 (div RO (sub RO 1 0) P) (2 ^ (n - 1)) 1 (negzero RO)).
  { rewrite !oddsum_R. f_equal. apply rsum_ext. intros i. f_equal. cbn [div sub RO]. unfold Rdiv. ring. }
  rewrite Es. set (s := oddsum RO _ 0 _ _ _ _).
  assert (Ev : add RO (mul RO (ofQ RO (1 # 2)) ((b - a) * prev')) (mul RO (div RO (sub RO b a) P) s)
               = (b - a) * add RO (mul RO (ofQ RO (1 # 2)) prev') (mul RO (div RO (sub RO 1 0) P) s)).
  { cbn [add mul div sub RO]. unfold Rdiv. ring. }
  rewrite Ev, IH. reflexivity.
Qed.
Lemma romberg_noeps_affine f a b m :
  romberg_noeps RO f a b m = (b - a) * romberg_noeps RO (fun t => f (a + (b - a) * t)) 0 1 m.
Proof.
  unfold romberg_noeps.
  set (r' := mul RO (div RO (sub RO 1 0) (two RO)) (add RO (f (a + (b - a) * 0)) (f (a + (b - a) * 1)))).
  replace (mul RO (div RO (sub RO b a) (two RO)) (add RO (f a) (f b))) with ((b - a) * r').
  - rewrite col0_affine. change [(b - a) * r'] with (map (Rmult (b - a)) [r']). apply tri_scale.
  - unfold r'. replace (a + (b - a) * 0) with a by ring. replace (a + (b - a) * 1) with b by ring.
    cbn [add mul div sub RO]. unfold Rdiv. ring.
Qed.
