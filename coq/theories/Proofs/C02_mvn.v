(** Proofs for C02, multivariate normal: the code's pdf / ln_pdf are the textbook formulas in terms of the cached
    inverse covariance and determinant. *)
From Coq Require Import Reals List ZArith Lra Lia Bool Arith QArith.
From Compute Require Import Base.Ops Base.ListMat Model.Reduce Model.MatMul Model.MVN Spec.MatMul Proofs.C05 Proofs.C02.
From Compute Require Model.Subst Proofs.C11_Pred.
Import ListNotations.
Open Scope R_scope.

(** ** [powi] on the reals is the power (the square-and-multiply loop of compiler-rt, 64 bits of fuel) *)
Lemma powi_pos_R fuel : forall (a r : R) (p : positive), (Pos.size_nat p <= fuel)%nat ->
  powi_pos RO fuel a r p = r * a ^ Pos.to_nat p.
Proof.
  induction fuel as [|fuel IH]; intros a r p Hp.
  - destruct p; cbn in Hp; lia.
  - destruct p as [p|p|]; cbn [powi_pos]; cbn [Pos.size_nat] in Hp.
    + rewrite IH by lia. cbn [mul RO]. rewrite Pos2Nat.inj_xI. cbn [pow]. rewrite pow_sqr. ring.
    + rewrite IH by lia. cbn [mul RO]. rewrite Pos2Nat.inj_xO. rewrite pow_sqr. ring.
    + cbn [mul RO]. rewrite Pos2Nat.inj_1. cbn [pow]. ring.
Qed.
Lemma size_nat_bound p : forall n : nat, (Z.pos p < 2 ^ Z.of_nat n)%Z -> (Pos.size_nat p <= n)%nat.
Proof.
  induction p as [p IH|p IH|]; intros [|n] H; cbn [Pos.size_nat];
    try (rewrite Nat2Z.inj_succ, Z.pow_succ_r in H by lia);
    try (cbn in H; lia); try (apply le_n_S, IH; lia); lia.
Qed.
Lemma powi_R x (n : nat) : (Z.of_nat n < 2 ^ 64)%Z -> powi RO x (Z.of_nat n) = x ^ n.
Proof.
  intros Hn. unfold powi. destruct n as [|n].
  - reflexivity.
  - cbn [Z.of_nat]. rewrite powi_pos_R.
    + cbn [one RO]. rewrite SuccNat2Pos.id_succ. ring.
    + apply (size_nat_bound _ 64). exact Hn.
Qed.

(** ** pdf and ln_pdf from the quadratic form *)
Lemma neg_half_R : neg_half RO = - / 2.
Proof. unfold neg_half. cbn [neg RO]. rewrite half_R. reflexivity. Qed.
Lemma two_pi_R : two_pi RO = 2 * PI.
Proof. reflexivity. Qed.

Lemma mvn_pdf_formula cov cinv cdet mean x q :
  (Z.of_nat (length x) < 2 ^ 64)%Z ->
  quad_form RO cov cinv mean x = Some q ->
  mvn_pdf RO cov cinv cdet mean x = Some (exp (- q / 2) / R_sqrt.sqrt ((2 * PI) ^ length x * cdet)).
Proof.
  intros Hn Hq. unfold mvn_pdf. rewrite Hq. cbn [bind]. rewrite powi_R by exact Hn.
  rewrite neg_half_R, two_pi_R. cbn [div mul f1 RO Rf1 Ops.sqrt]. do 3 f_equal. field.
Qed.
Lemma ln_sqrt_half K : 0 < K -> ln (R_sqrt.sqrt K) = ln K / 2.
Proof.
  intros HK. pose proof (sqrt_lt_R0 K HK) as Hs.
  rewrite <- (sqrt_sqrt K) at 2 by lra. rewrite ln_mult by assumption. field.
Qed.
Lemma mvn_ln_pdf_is_ln cov cinv cdet mean x :
  (Z.of_nat (length x) < 2 ^ 64)%Z -> 0 < cdet ->
  mvn_ln_pdf RO cov cinv cdet mean x = option_map ln (mvn_pdf RO cov cinv cdet mean x).
Proof.
  intros Hn Hd. unfold mvn_ln_pdf. destruct (quad_form RO cov cinv mean x) as [q|] eqn:Hq.
  2:{ unfold mvn_pdf. rewrite Hq. reflexivity. }
  rewrite (mvn_pdf_formula cov cinv cdet mean x q Hn Hq). cbn [bind option_map]. f_equal.
  rewrite neg_half_R, two_pi_R. cbn [add mul f1 RO Rf1 ofZ]. rewrite <- INR_IZR_INZ.
  assert (H2pi : 0 < 2 * PI) by (pose proof PI_RGT_0; lra).
  assert (Hp : 0 < (2 * PI) ^ length x) by (apply pow_lt; exact H2pi).
  assert (HK : 0 < (2 * PI) ^ length x * cdet) by (apply Rmult_lt_0_compat; assumption).
  unfold Rdiv at 1. rewrite (ln_mult (exp _) (/ _)); [|apply exp_pos|apply Rinv_0_lt_compat, sqrt_lt_R0; exact HK].
  rewrite ln_exp, ln_Rinv by (apply sqrt_lt_R0; exact HK).
  rewrite ln_sqrt_half by exact HK. rewrite (ln_mult (_ ^ _) cdet) by assumption. rewrite ln_pow by exact H2pi. field.
Qed.

(** ** the quadratic form: [x_minus_mu.t_dot(cinv.dot(x_minus_mu))] is the textbook double sum *)
Definition Rsum (f : nat -> R) (n : nat) : R := fold_right Rplus 0 (map f (seq 0 n)).
(** [(x - mu)^T A (x - mu)] for a flat row-major n x n array [A] *)
Definition quad_spec (n : nat) (A mean x : list R) : R :=
  Rsum (fun i => (nth i x 0 - nth i mean 0) *
                 Rsum (fun k => nth (i * n + k) A 0 * (nth k x 0 - nth k mean 0)) n) n.

Lemma sumk_R f l : sumk RO f l = Rsum f l.
Proof.
  unfold sumk, Rsum. cbn [zero add RO].
  assert (H : forall s l0, fold_left (fun (s : R) (k : nat) => s + f k) l0 s = s + fold_right Rplus 0 (map f l0)).
  { intros s l0. revert s. induction l0 as [|a l0 IH]; intros s; cbn [fold_left map fold_right]; [ring|rewrite IH; ring]. }
  rewrite H. ring.
Qed.

Lemma concat_singletons {A B} (f : A -> B) l : concat (map (fun j => [f j]) l) = map f l.
Proof. induction l as [|a l IH]; cbn [map concat app]; [reflexivity|rewrite IH; reflexivity]. Qed.
Lemma map_nth_seq (v : list R) : map (fun j => nth j v 0) (seq 0 (length v)) = v.
Proof.
  apply (nth_ext _ _ 0 0); [rewrite map_length, seq_length; reflexivity|].
  intros i Hi. rewrite map_length, seq_length in Hi.
  rewrite (nth_indep _ 0 ((fun j => nth j v 0) 0%nat)) by (rewrite map_length, seq_length; exact Hi).
  rewrite (map_nth (fun j => nth j v 0)), seq_nth by exact Hi. reflexivity.
Qed.
Lemma transpose_row_vector (v : list R) : v <> [] -> transpose RO v 1 = Some v.
Proof.
  intros Hv. unfold transpose, is_matrix. rewrite Nat.div_1_r, Nat.mul_1_l, Nat.eqb_refl. cbn [bind].
  f_equal. unfold flatten, transpose_rows, unflatten, col_of. cbn [seq map]. unfold row_of. cbn [Nat.mul skipn].
  rewrite firstn_all. cbn [map]. rewrite (concat_singletons (fun j => nth j v (zero RO))). apply map_nth_seq.
Qed.

(** [dot] on the reals is the sum of products, whatever the chunking *)
Lemma dot8_R fuel : forall s x y, (length x < fuel)%nat ->
  dot8 RO fuel s x y = s + fold_right Rplus 0 (map2 Rmult x y).
Proof.
  induction fuel as [|fuel IH]; intros s x y Hf; [lia|].
  cbn [dot8].
  destruct x as [|x0 [|x1 [|x2 [|x3 [|x4 [|x5 [|x6 [|x7 x']]]]]]]];
    try (cbn [mul add RO]; rewrite fold_left_Rplus; reflexivity).
  destruct y as [|y0 [|y1 [|y2 [|y3 [|y4 [|y5 [|y6 [|y7 y']]]]]]]];
    try (cbn [mul add RO]; rewrite fold_left_Rplus; reflexivity).
  rewrite IH by (cbn [length] in Hf; lia). cbn [map2 fold_right mul add RO]. ring.
Qed.
Lemma dot_raw_R x y : dot_raw RO x y = fold_right Rplus 0 (map2 Rmult x y).
Proof. unfold dot_raw. rewrite dot8_R by lia. cbn [zero RO]. ring. Qed.

Lemma map2_seq (f : R -> R -> R) x y n : length x = n -> length y = n ->
  map2 f x y = map (fun i => f (nth i x 0) (nth i y 0)) (seq 0 n).
Proof.
  revert y n. induction x as [|a x IH]; intros [|b y] n Hx Hy; cbn [length] in *; subst n; try discriminate; [reflexivity|].
  cbn [map2 seq map nth]. f_equal. rewrite <- seq_shift, map_map. apply IH; [reflexivity|lia].
Qed.

Lemma centre_R x mean : length x = length mean ->
  exists xm, centre RO x mean = Some xm /\ length xm = length x /\
             forall i, nth i xm 0 = nth i x 0 - nth i mean 0.
Proof.
  revert mean. induction x as [|v x IH]; intros [|m mean] H; cbn [length] in H; try discriminate.
  - exists []. cbn. repeat split. intros [|i]; cbn; ring.
  - destruct (IH mean ltac:(lia)) as (xm & E & L & N). exists (v - m :: xm). cbn [centre]. rewrite E. cbn [bind sub RO length].
    repeat split; [lia|]. intros [|i]; cbn [nth]; [reflexivity|apply N].
Qed.

Lemma quad_form_textbook (n : nat) cov (cinv mean x : list R) :
  (0 < n)%nat -> length cinv = (n * n)%nat -> length mean = n -> length x = n ->
  is_positive_definite RO cov = true ->
  quad_form RO cov {| nr := n; nc := n; dat := cinv |} mean x = Some (quad_spec n cinv mean x).
Proof.
  intros Hn Hc Hm Hx Hpd. unfold quad_form. rewrite Hpd. cbn [guard bind].
  rewrite Hx, Hm, Nat.eqb_refl. cbn [guard bind].
  destruct (centre_R x mean ltac:(lia)) as (xm & -> & Lxm & Nxm). cbn [bind].
  assert (Hxm : xm <> []) by (destruct xm; [cbn in Lxm; lia|discriminate]).
  unfold mat_vec_dot, to_matrix, matrix_new.
  replace ((0 <? 1) && (0 <? length xm) && (1 * length xm =? length xm))%bool with true.
  2:{ symmetry. rewrite !andb_true_iff, !Nat.ltb_lt, Nat.eqb_eq. lia. }
  cbn [guard bind]. unfold t_mut. cbn [dat nr nc]. rewrite transpose_row_vector by exact Hxm. cbn [bind].
  unfold mat_mat_dot. cbn [nr nc dat]. rewrite Lxm, Hx, Nat.eqb_refl. cbn [guard bind].
  pose proof (matmul_spec RO cinv xm n n false false) as HS.
  rewrite Hc, Lxm, Hx in HS. unfold dims in HS.
  replace ((0 <? n) && (0 <? n) && (n * n mod n =? 0) && (n mod n =? 0))%bool with true in HS.
  2:{ symmetry. rewrite !andb_true_iff, !Nat.ltb_lt, !Nat.eqb_eq. rewrite Nat.mod_mul, Nat.mod_same by lia. lia. }
  rewrite Nat.div_mul, Nat.div_same, Nat.eqb_refl in HS by lia.
  destruct HS as (c & -> & Lc & Ec). cbn [bind].
  unfold matrix_new. rewrite Lc.
  replace ((0 <? n) && (0 <? 1) && (n * 1 =? n * 1))%bool with true.
  2:{ symmetry. rewrite !andb_true_iff, !Nat.ltb_lt, Nat.eqb_eq. lia. }
  cbn [guard bind dat]. unfold dot. rewrite Lxm, Hx, Lc, Nat.mul_1_r, Nat.eqb_refl. f_equal.
  rewrite dot_raw_R, (map2_seq Rmult xm c n) by lia. unfold quad_spec, Rsum. f_equal.
  apply map_ext_in. intros i Hi. apply in_seq in Hi. rewrite Nxm. f_equal.
  specialize (Ec i 0%nat ltac:(lia) ltac:(lia)). rewrite Nat.mul_1_r, Nat.add_0_r in Ec. cbn [zero RO] in Ec. rewrite Ec.
  rewrite sumk_R. unfold Rsum. f_equal. apply map_ext. intros k. cbn [andb]. unfold opA, opB. cbn [mul zero RO].
  rewrite Nat.mul_1_r, Nat.add_0_r, Nxm. reflexivity.
Qed.

Lemma mvn_pdf_textbook (n : nat) cov (cinv mean x : list R) cdet :
  (0 < n)%nat -> (Z.of_nat n < 2 ^ 64)%Z -> length cinv = (n * n)%nat -> length mean = n -> length x = n ->
  is_positive_definite RO cov = true ->
  mvn_pdf RO cov {| nr := n; nc := n; dat := cinv |} cdet mean x
  = Some (exp (- quad_spec n cinv mean x / 2) / R_sqrt.sqrt ((2 * PI) ^ n * cdet)).
Proof.
  intros Hn Hn64 Hc Hm Hx Hpd.
  rewrite (mvn_pdf_formula cov _ cdet mean x (quad_spec n cinv mean x)).
  - rewrite Hx. reflexivity.
  - rewrite Hx. exact Hn64.
  - apply quad_form_textbook; assumption.
Qed.
Lemma mvn_rejects cov cinv cdet (mean x : list R) :
  is_positive_definite RO cov = false \/ length x <> length mean ->
  mvn_pdf RO cov cinv cdet mean x = None /\ mvn_ln_pdf RO cov cinv cdet mean x = None.
Proof.
  intros H. unfold mvn_pdf, mvn_ln_pdf, quad_form.
  destruct H as [-> | H]; [split; reflexivity|].
  destruct (is_positive_definite RO cov); cbn [guard bind]; [|split; reflexivity].
  replace (length x =? length mean)%nat with false by (symmetry; apply Nat.eqb_neq; exact H). split; reflexivity.
Qed.

(** a non-trivial instance: Sigma = diag(1/2, 2), Sigma^-1 = diag(2, 1/2), det = 1, x - mu = (1, 2): quadratic form 4 *)
Lemma mvn_example :
  let cov := {| nr := 2; nc := 2; dat := [1 / 2; 0; 0; 2] |} in
  is_positive_definite RO cov = true /\
  mvn_pdf RO cov {| nr := 2; nc := 2; dat := [2; 0; 0; 1 / 2] |} 1 [1; 1] [2; 3] = Some (exp (- 2) / (2 * PI)).
Proof.
  assert (Hpd : is_positive_definite RO {| nr := 2; nc := 2; dat := [1 / 2; 0; 0; 2] |} = true).
  { unfold is_positive_definite, Model.Subst.matrix_is_positive_definite, Model.Subst.matrix_is_symmetric, Model.Subst.mrows.
    cbn [nr nc dat Nat.eqb andb].
    rewrite (Proofs.C11_Pred.is_symmetric_rows_exact _ 2).
    - cbn [andb]. apply Proofs.C11_Pred.diag_positive_rows_true.
      intros [|[|i]] Hi; [| |lia]; unfold ent, unflatten, row_of; cbn; lra.
    - intros [|[|i]] [|[|j]] Hi Hj; try lia; unfold ent, unflatten, row_of; cbn; reflexivity. }
  split; [exact Hpd|].
  rewrite (mvn_pdf_textbook 2 _ [2; 0; 0; 1 / 2] [1; 1] [2; 3] 1) by (try reflexivity; try lia; exact Hpd).
  f_equal. unfold quad_spec, Rsum. cbn [seq map fold_right nth Nat.mul Nat.add].
  replace (- ((2 - 1) * (2 * (2 - 1) + (0 * (3 - 1) + 0)) + ((3 - 1) * (0 * (2 - 1) + (1 / 2 * (3 - 1) + 0)) + 0)) / 2) with (- 2) by field.
  f_equal. rewrite Rmult_1_r. replace ((2 * PI) ^ 2) with ((2 * PI) * (2 * PI)) by ring.
  apply sqrt_square. pose proof PI_RGT_0. lra.
Qed.
