(** Proofs for C06 (GLM fitting), part 2: the Newton system, fixed points, least squares,
    convergence status.  Statements are pinned in Properties/C06.v. *)
From Coq Require Import Reals List Arith ZArith Bool Lia Lra.
From Compute Require Import Base.Ops Base.ListMat Model.Reduce Model.MatMul Spec.MatMul Proofs.C05.
From Compute Require Import Generated.glm_families Model.GLM Spec.GLM Proofs.C06_base.
Import ListNotations.
Local Open Scope R_scope.

(** well-formed data: an n x p design (n, p >= 1), n responses, n weights, n offsets if any *)
Definition wf_data (x y w : list R) (off : option (list R)) (n p : nat) : Prop :=
  (0 < n)%nat /\ (0 < p)%nat /\ length x = (n * p)%nat /\ length y = n /\ length w = n /\ off_ok off n.

(** ** gradient and information at the quantities computed from beta *)
Lemma dbeta_is_minus_score f x y w off n p beta q :
  wf_data x y w off n p -> length beta = p ->
  at_coef RO f x n p off beta = Some q ->
  exists db, compute_dbeta RO x y (q_mu q) (q_dmu q) (q_var q) w = Some db /\ length db = p /\
    forall j, (j < p)%nat -> nth j db 0 = - score f x n p y w (offs off) beta j.
Proof.
  intros (Hn & Hp & Hx & Hy & Hw & Ho) Hb Hq.
  destruct (at_coef_spec f x beta n p off Hn Hp Hx Hb Ho) as (q' & Hq' & Lm & Ld & Lv & Hnth).
  rewrite Hq in Hq'. injection Hq' as <-.
  destruct (compute_dbeta_spec x y (q_mu q) (q_dmu q) (q_var q) w n p Hn Hx Hy Lm Ld Lv Hw) as (db & Hdb & Ldb & Hent).
  exists db. split; [exact Hdb|]. split; [exact Ldb|].
  intros j Hj. rewrite Hent by exact Hj. f_equal. unfold score. apply bigsum_ext. intros i Hi.
  destruct (Hnth i Hi) as (E1 & E2 & E3). rewrite E1, E2, E3. reflexivity.
Qed.

Lemma ddbeta_is_fisher f x y w off n p beta q :
  wf_data x y w off n p -> length beta = p ->
  at_coef RO f x n p off beta = Some q ->
  exists dd, compute_ddbeta RO x (q_dmu q) (q_var q) w = Some dd /\ length dd = (p * p)%nat /\
    forall j k, (j < p)%nat -> (k < p)%nat -> nth (j * p + k) dd 0 = fisher f x n p w (offs off) beta j k.
Proof.
  intros (Hn & Hp & Hx & Hy & Hw & Ho) Hb Hq.
  destruct (at_coef_spec f x beta n p off Hn Hp Hx Hb Ho) as (q' & Hq' & Lm & Ld & Lv & Hnth).
  rewrite Hq in Hq'. injection Hq' as <-.
  destruct (compute_ddbeta_spec x (q_dmu q) (q_var q) w n p Hn Hp Hx Ld Lv Hw) as (dd & Hdd & Ldd & Hent).
  exists dd. split; [exact Hdd|]. split; [exact Ldd|].
  intros j k Hj Hk. rewrite Hent by assumption. unfold fisher. apply bigsum_ext. intros i Hi.
  destruct (Hnth i Hi) as (E1 & E2 & E3). rewrite E2, E3. reflexivity.
Qed.

(** ** penalties *)
Lemma apply_dbeta_penalty_nth alpha db coef j :
  (j < length db)%nat ->
  nth j (apply_dbeta_penalty RO alpha db coef) 0 = nth j db 0 + ridge alpha coef j.
Proof.
  intros H. unfold apply_dbeta_penalty. rewrite (nth_mapi _ _ _ 0 0) by exact H.
  change (add RO) with Rplus. change (mul RO) with Rmult. change (zero RO) with 0.
  destruct j as [|j]; cbn [Nat.leb ridge]; lra.
Qed.

Lemma apply_ddbeta_penalty_nth alpha dd p j k :
  length dd = (p * p)%nat -> (j < p)%nat -> (k < p)%nat ->
  nth (j * p + k) (apply_ddbeta_penalty RO alpha dd p) 0 =
  nth (j * p + k) dd 0 + (if (1 <=? j)%nat && (j =? k)%nat then alpha else 0).
Proof.
  intros L Hj Hk. unfold apply_ddbeta_penalty.
  rewrite (nth_mapi _ _ _ 0 0) by (rewrite L; nia).
  replace ((j * p + k) / p)%nat with j by (apply Nat.div_unique with k; [lia|ring]).
  replace ((j * p + k) mod p)%nat with k by (apply Nat.mod_unique with j; [lia|ring]).
  change (add RO) with Rplus.
  destruct ((1 <=? j)%nat && (j =? k)%nat); lra.
Qed.

(** ** the system handed to [solve]: right-hand side = minus the penalised score, matrix = penalised
    Fisher information (the code applies the penalty only when alpha > 0; for alpha = 0 it vanishes) *)
Lemma newton_system_spec f alpha x y w off n p beta q :
  wf_data x y w off n p -> length beta = p -> 0 <= alpha ->
  at_coef RO f x n p off beta = Some q ->
  exists a b, newton_system RO alpha x y p w beta q = Some (a, b) /\
    length a = (p * p)%nat /\ length b = p /\
    (forall j, (j < p)%nat -> nth j b 0 = - penalised_score f x n p y w (offs off) alpha beta j) /\
    (forall j k, (j < p)%nat -> (k < p)%nat ->
       nth (j * p + k) a 0 = penalised_fisher f x n p w (offs off) alpha beta j k).
Proof.
  intros W Hb Ha Hq.
  destruct (dbeta_is_minus_score f x y w off n p beta q W Hb Hq) as (db & Hdb & Ldb & Edb).
  destruct (ddbeta_is_fisher f x y w off n p beta q W Hb Hq) as (dd & Hdd & Ldd & Edd).
  unfold newton_system. rewrite Hdb, Hdd. cbn [bind].
  change (ltb RO (zero RO) alpha) with (Rltb 0 alpha). unfold Rltb.
  destruct (Rlt_dec 0 alpha) as [Hpos|Hnp].
  - eexists _, _. split; [reflexivity|].
    split; [unfold apply_ddbeta_penalty; rewrite mapi_length; exact Ldd|].
    split; [unfold apply_dbeta_penalty; rewrite mapi_length; exact Ldb|]. split.
    + intros j Hj. rewrite apply_dbeta_penalty_nth by lia. rewrite Edb by exact Hj.
      unfold penalised_score. lra.
    + intros j k Hj Hk. rewrite apply_ddbeta_penalty_nth by assumption. rewrite Edd by assumption.
      reflexivity.
  - assert (alpha = 0) by lra. subst alpha.
    exists dd, db. split; [reflexivity|]. split; [exact Ldd|]. split; [exact Ldb|]. split.
    + intros j Hj. rewrite Edb by exact Hj. unfold penalised_score, ridge. destruct j; lra.
    + intros j k Hj Hk. rewrite Edd by assumption. unfold penalised_fisher.
      destruct ((1 <=? j)%nat && (j =? k)%nat); lra.
Qed.

(** ** fixed points of the scoring step *)
Section FixedPoint.
  (** the inner linear routine, with its defining equation as hypothesis (discharged by C01):
      a returned vector has the length of the right-hand side and satisfies A.s = b *)
  Variable solve : list R -> list R -> option (list R).
  Hypothesis solve_ok : forall a b s, solve a b = Some s ->
    length s = length b /\ forall j, (j < length b)%nat -> matvec a (length b) s j = nth j b 0.

  Variables (f : family) (alpha tol : R) (x y w : list R) (off : option (list R)) (n p : nat).
  Hypothesis W : wf_data x y w off n p.
  Hypothesis Ha : 0 <= alpha.

  Lemma step_inv beta pdev beta' pd conv q :
    length beta = p ->
    step RO solve f alpha tol x y n p w off beta pdev = Some (beta', pd, conv, q) ->
    exists a b s,
      at_coef RO f x n p off beta = Some q /\
      newton_system RO alpha x y p w beta q = Some (a, b) /\
      solve a b = Some s /\ length s = p /\ beta' = map2 Rminus beta s /\
      weighted_penalized_deviance RO f y (q_mu q) w alpha beta' = Some pd /\
      conv = has_converged RO pd pdev tol /\
      (forall j, (j < p)%nat -> matvec a p s j = - penalised_score f x n p y w (offs off) alpha beta j) /\
      (forall j k, (j < p)%nat -> (k < p)%nat ->
         nth (j * p + k) a 0 = penalised_fisher f x n p w (offs off) alpha beta j k).
  Proof.
    intros Hb. unfold step.
    destruct (at_coef RO f x n p off beta) as [q0|] eqn:Hq; [|discriminate]. cbn [bind].
    destruct (newton_system_spec f alpha x y w off n p beta q0 W Hb Ha Hq) as (a & b & Hs & La & Lb & Eb & Ea).
    rewrite Hs. cbn [bind].
    destruct (solve a b) as [s|] eqn:Hsol; [|discriminate]. cbn [bind].
    destruct (vbin (sub RO) beta s) as [c|] eqn:Hv; [|discriminate]. cbn [bind].
    destruct (weighted_penalized_deviance RO f y (q_mu q0) w alpha c) as [d|] eqn:Hpd; [|discriminate]. cbn [bind].
    intros [= <- <- <- <-].
    destruct (solve_ok a b s Hsol) as (Ls & Es). rewrite Lb in Ls, Es.
    apply vbin_inv in Hv. destruct Hv as (_ & ->).
    exists a, b, s. repeat split; auto.
    intros j Hj. rewrite Es by exact Hj. apply Eb; exact Hj.
  Qed.

  (** a fixed point of the step satisfies the penalised score equations *)
  Lemma fixed_point_is_penalised_mle beta pdev pd conv q :
    length beta = p ->
    step RO solve f alpha tol x y n p w off beta pdev = Some (beta, pd, conv, q) ->
    forall j, (j < p)%nat -> penalised_score f x n p y w (offs off) alpha beta j = 0.
  Proof.
    intros Hb Hs j Hj.
    destruct (step_inv beta pdev beta pd conv q Hb Hs) as (a & b & s & _ & _ & _ & Ls & Eq & _ & _ & Es & _).
    assert (Z : forall k, (k < p)%nat -> nth k s 0 = 0).
    { intros k Hk. assert (E : nth k beta 0 = nth k (map2 Rminus beta s) 0) by (rewrite <- Eq; reflexivity).
      rewrite (nth_map2 _ _ _ _ _ 0 0) in E by lia. lra. }
    specialize (Es j Hj). unfold matvec in Es.
    rewrite (bigsum_ext _ (fun _ => 0)) in Es by (intros k Hk; rewrite Z by exact Hk; lra).
    rewrite bigsum_zero in Es. lra.
  Qed.

  (** conversely: where the penalised score vanishes and the penalised information matrix is
      nonsingular, the step does not move *)
  Lemma penalised_mle_is_fixed_point beta pdev beta' pd conv q :
    length beta = p ->
    (forall v, length v = p ->
       (forall j, (j < p)%nat ->
          bigsum (fun k => penalised_fisher f x n p w (offs off) alpha beta j k * nth k v 0) p = 0) ->
       forall k, (k < p)%nat -> nth k v 0 = 0) ->
    (forall j, (j < p)%nat -> penalised_score f x n p y w (offs off) alpha beta j = 0) ->
    step RO solve f alpha tol x y n p w off beta pdev = Some (beta', pd, conv, q) ->
    beta' = beta.
  Proof.
    intros Hb NS Hsc Hs.
    destruct (step_inv beta pdev beta' pd conv q Hb Hs) as (a & b & s & _ & _ & _ & Ls & Eq & _ & _ & Es & Ea).
    assert (Z : forall k, (k < p)%nat -> nth k s 0 = 0).
    { apply NS; [exact Ls|]. intros j Hj. specialize (Es j Hj). rewrite Hsc in Es by exact Hj.
      unfold matvec in Es.
      transitivity (bigsum (fun k => nth (j * p + k) a 0 * nth k s 0) p);
        [apply bigsum_ext; intros k Hk; rewrite Ea by assumption; reflexivity | rewrite Es; lra]. }
    subst beta'. apply nth_ext with (d := 0) (d' := 0).
    - rewrite map2_length; lia.
    - intros k Hk. rewrite map2_length in Hk.
      rewrite (nth_map2 _ _ _ _ _ 0 0) by lia. rewrite Z by lia. lra.
  Qed.

  (** ** Gaussian family: EVERY iterate (not only a fixed point) solves the (weighted, ridge) normal
      equations  (X^T W X + alpha I') beta' = X^T W (y - off)  -- one Newton step is exact *)
  Lemma gaussian_step_is_ridge_wls beta pdev beta' pd conv q :
    f = Gaussian -> length beta = p ->
    step RO solve f alpha tol x y n p w off beta pdev = Some (beta', pd, conv, q) ->
    forall j, (j < p)%nat ->
      bigsum (fun k => (bigsum (fun i => X x p i j * (nth i w 0 * X x p i k)) n
                        + (if (1 <=? j)%nat && (j =? k)%nat then alpha else 0)) * nth k beta' 0) p
      = bigsum (fun i => X x p i j * (nth i w 0 * (nth i y 0 - offs off i))) n.
  Proof.
    intros Hf Hb Hs j Hj.
    destruct (step_inv beta pdev beta' pd conv q Hb Hs) as (a & b & s & _ & _ & _ & Ls & Eq & _ & _ & Es & Ea).
    rewrite Hf in Es, Ea.
    specialize (Es j Hj). unfold matvec in Es.
    assert (F : forall k, (k < p)%nat -> nth (j * p + k) a 0 =
               bigsum (fun i => X x p i j * (nth i w 0 * X x p i k)) n
               + (if (1 <=? j)%nat && (j =? k)%nat then alpha else 0)).
    { intros k Hk. rewrite Ea by assumption. unfold penalised_fisher, fisher. f_equal.
      apply bigsum_ext. intros i Hi. cbn [dmean_fn var_fn]. field. }
    rewrite (bigsum_ext _ (fun k => (bigsum (fun i => X x p i j * (nth i w 0 * X x p i k)) n
               + (if (1 <=? j)%nat && (j =? k)%nat then alpha else 0)) * nth k s 0)) in Es
      by (intros k Hk; rewrite F by exact Hk; reflexivity).
    (* beta' = beta - s *)
    rewrite (bigsum_ext _ (fun k => (bigsum (fun i => X x p i j * (nth i w 0 * X x p i k)) n
               + (if (1 <=? j)%nat && (j =? k)%nat then alpha else 0)) * nth k beta 0
             - (bigsum (fun i => X x p i j * (nth i w 0 * X x p i k)) n
               + (if (1 <=? j)%nat && (j =? k)%nat then alpha else 0)) * nth k s 0)).
    2:{ intros k Hk. subst beta'. rewrite (nth_map2 _ _ _ _ _ 0 0) by lia. ring. }
    (* ridge part *)
    assert (R1 : bigsum (fun k => (bigsum (fun i => X x p i j * (nth i w 0 * X x p i k)) n
                   + (if (1 <=? j)%nat && (j =? k)%nat then alpha else 0)) * nth k beta 0) p
                 = bigsum (fun i => X x p i j * (nth i w 0 * bigsum (fun k => X x p i k * nth k beta 0) p)) n
                   + ridge alpha beta j).
    { rewrite (bigsum_ext _ (fun k => bigsum (fun i => X x p i j * (nth i w 0 * X x p i k) * nth k beta 0) n
                                      + (if (1 <=? j)%nat && (j =? k)%nat then alpha else 0) * nth k beta 0)).
      2:{ intros k Hk. rewrite Rmult_plus_distr_r. f_equal.
          apply bigsum_scal_r. }
      rewrite bigsum_plus. f_equal.
      - transitivity (bigsum (fun i => bigsum (fun k => X x p i j * (nth i w 0 * X x p i k) * nth k beta 0) p) n).
        { apply (bigsum_swap (fun k i => X x p i j * (nth i w 0 * X x p i k) * nth k beta 0)). }
        apply bigsum_ext. intros i Hi.
        rewrite <- (bigsum_scal (nth i w 0)), <- (bigsum_scal (X x p i j)). apply bigsum_ext; intros; ring.
      - (* only k = j contributes, and only when j >= 1 *)
        clear - Hj. destruct j as [|j].
        + cbn [Nat.leb andb ridge]. rewrite (bigsum_ext _ (fun _ => 0)) by (intros; ring). apply bigsum_zero.
        + cbn [Nat.leb andb ridge].
          assert (G : forall m, bigsum (fun k => (if (S j =? k)%nat then alpha else 0) * nth k beta 0) m
                                = if (S j <? m)%nat then alpha * nth (S j) beta 0 else 0).
          { induction m as [|m IH]; [reflexivity|]. cbn [bigsum]. rewrite IH.
            destruct (Nat.ltb_spec (S j) m), (Nat.ltb_spec (S j) (S m)), (Nat.eqb_spec (S j) m); try lia; subst; lra. }
          rewrite G. destruct (Nat.ltb_spec (S j) p); [reflexivity|lia]. }
    rewrite bigsum_minus, Es, R1. unfold penalised_score, score.
    match goal with |- ?A + ?r - - (?B - ?r) = ?C => replace (A + r - - (B - r)) with (A + B) by ring end.
    rewrite <- bigsum_plus. apply bigsum_ext. intros i Hi. unfold mu_at, lin.
    cbn [mean_fn dmean_fn var_fn]. field.
  Qed.
End FixedPoint.

(** ** the loop: which iteration stopped it, and why (any carrier, any inner solver) *)
Local Close Scope R_scope.
Section Loop.
  Context {T : Type} (O : Ops T) (solve : list T -> list T -> option (list T)).
  Context (f : family) (alpha tol : T) (x y : list T) (n p : nat) (w : list T) (off : option (list T)).
  Local Notation stp := (step O solve f alpha tol x y n p w off).

  (** state (coefficients, previous penalised deviance) after [k] unconditional iterations *)
  Fixpoint run (k : nat) (coef : list T) (pdev : option T) : option (list T * option T) :=
    match k with
    | 0%nat => Some (coef, pdev)
    | S k' => match stp coef pdev with
              | Some (c', pd, _, _) => run k' c' (Some pd)
              | None => None
              end
    end.

  Lemma step_conv coef pdev c' pd conv q :
    stp coef pdev = Some (c', pd, conv, q) -> conv = has_converged O pd pdev tol.
  Proof.
    unfold step.
    destruct (at_coef O f x n p off coef) as [q0|]; [|discriminate]. cbn [bind].
    destruct (newton_system O alpha x y p w coef q0) as [[a b]|]; [|discriminate]. cbn [bind].
    destruct (solve a b) as [s|]; [|discriminate]. cbn [bind].
    destruct (vbin (sub O) coef s) as [c|]; [|discriminate]. cbn [bind].
    destruct (weighted_penalized_deviance O f y (q_mu q0) w alpha c) as [d|]; [|discriminate]. cbn [bind].
    intros [= <- <- <- <-]. reflexivity.
  Qed.

  (** [fit_loop fuel] stops at the first iteration [k+1 <= fuel+1] whose convergence test succeeds, or at
      iteration [fuel+1]; the flag it returns is the test of that last iteration; all earlier tests failed *)
  Lemma fit_loop_spec fuel c0 pd0 conv coef q :
    fit_loop O solve f alpha tol x y n p w off fuel c0 pd0 = Some (conv, coef, q) ->
    exists k c pd pd',
      k <= fuel /\ run k c0 pd0 = Some (c, pd) /\ stp c pd = Some (coef, pd', conv, q) /\
      conv = has_converged O pd' pd tol /\
      (conv = false -> k = fuel) /\
      (forall j, j < k -> exists cj pdj cj' pdj' qj,
          run j c0 pd0 = Some (cj, pdj) /\ stp cj pdj = Some (cj', pdj', false, qj)).
  Proof.
    revert c0 pd0. induction fuel as [|fuel IH]; intros c0 pd0; cbn [fit_loop].
    - destruct (stp c0 pd0) as [[[[c' pd] cv] q0]|] eqn:Hs; [|discriminate]. cbn [bind].
      intros [= <- <- <-]. exists 0, c0, pd0, pd.
      split; [lia|]. split; [reflexivity|]. split; [exact Hs|].
      split; [apply (step_conv _ _ _ _ _ _ Hs)|]. split; [reflexivity|]. intros j Hj; lia.
    - destruct (stp c0 pd0) as [[[[c' pd] cv] q0]|] eqn:Hs; [|discriminate]. cbn [bind].
      destruct cv.
      + intros [= <- <- <-]. exists 0, c0, pd0, pd.
        split; [lia|]. split; [reflexivity|]. split; [exact Hs|].
        split; [apply (step_conv _ _ _ _ _ _ Hs)|]. split; [discriminate|]. intros j Hj; lia.
      + intros H. destruct (IH c' (Some pd) H) as (k & c & pdk & pd' & Hk & Hr & Hst & Hcv & Hlast & Hprev).
        exists (S k), c, pdk, pd'.
        split; [lia|]. split; [cbn [run]; rewrite Hs; exact Hr|]. split; [exact Hst|].
        split; [exact Hcv|]. split; [intros E; rewrite (Hlast E); reflexivity|].
        intros [|j] Hj.
        * exists c0, pd0, c', pd, q0. split; [reflexivity|exact Hs].
        * destruct (Hprev j ltac:(lia)) as (cj & pdj & cj' & pdj' & qj & R1 & R2).
          exists cj, pdj, cj', pdj', qj. split; [|exact R2]. cbn [run]. rewrite Hs. exact R1.
  Qed.

  (** the first iteration can never report convergence (no previous deviance) *)
  Lemma first_iteration_not_converged c0 coef q conv :
    fit_loop O solve f alpha tol x y n p w off 0 c0 None = Some (conv, coef, q) -> conv = false.
  Proof.
    intros H. destruct (fit_loop_spec 0 c0 None conv coef q H) as (k & c & pd & pd' & Hk & Hr & _ & Hcv & _).
    assert (k = 0) by lia. subst k. cbn [run] in Hr. injection Hr as <- <-. exact Hcv.
  Qed.
End Loop.
Local Open Scope R_scope.

(** on the reals the convergence test is |pd' - pd| / pd < tol *)
Lemma has_converged_R pd' prev tol :
  has_converged RO pd' prev tol = true <-> exists lp, prev = Some lp /\ Rabs (pd' - lp) / lp < tol.
Proof.
  unfold has_converged. destruct prev as [lp|].
  - unfold is_inf. change (eqb RO) with Reqb. unfold Reqb.
    destruct (Req_EM_T lp lp) as [_|N]; [|exfalso; apply N; reflexivity].
    destruct (Req_EM_T (sub RO lp lp) (sub RO lp lp)) as [_|N]; [|exfalso; apply N; reflexivity].
    cbn [andb negb]. change (ltb RO) with Rltb. unfold Rltb.
    change (div RO (abs RO (sub RO pd' lp)) lp) with (Rabs (pd' - lp) / lp).
    destruct (Rlt_dec (Rabs (pd' - lp) / lp) tol) as [L|L]; split.
    + intros _. exists lp. auto.
    + auto.
    + discriminate.
    + intros (lp' & [= <-] & L'). contradiction.
  - split; [discriminate|]. intros (lp & E & _). discriminate.
Qed.

(** Ok (flag true) => the convergence criterion held at the last executed iteration *)
Lemma ok_implies_converged solve f alpha tol x y n p w off fuel c0 pd0 coef q :
  fit_loop RO solve f alpha tol x y n p w off fuel c0 pd0 = Some (true, coef, q) ->
  exists k c lp pd',
    (k <= fuel)%nat /\ run RO solve f alpha tol x y n p w off k c0 pd0 = Some (c, Some lp) /\
    step RO solve f alpha tol x y n p w off c (Some lp) = Some (coef, pd', true, q) /\
    Rabs (pd' - lp) / lp < tol.
Proof.
  intros H. destruct (fit_loop_spec RO solve f alpha tol x y n p w off fuel c0 pd0 true coef q H)
    as (k & c & pd & pd' & Hk & Hr & Hs & Hcv & _).
  symmetry in Hcv. apply has_converged_R in Hcv. destruct Hcv as (lp & -> & L).
  exists k, c, lp, pd'. auto.
Qed.

(** flag false (the call returns Err) <=> the budget is exhausted and the criterion failed at every
    iteration, including the last *)
Lemma not_converged_is_err solve f alpha tol x y n p w off fuel c0 pd0 coef q :
  fit_loop RO solve f alpha tol x y n p w off fuel c0 pd0 = Some (false, coef, q) ->
  exists c pd pd',
    run RO solve f alpha tol x y n p w off fuel c0 pd0 = Some (c, pd) /\
    step RO solve f alpha tol x y n p w off c pd = Some (coef, pd', false, q) /\
    (forall lp, pd = Some lp -> ~ Rabs (pd' - lp) / lp < tol) /\
    (forall j, (j < fuel)%nat -> exists cj pdj cj' pdj' qj,
        run RO solve f alpha tol x y n p w off j c0 pd0 = Some (cj, pdj) /\
        step RO solve f alpha tol x y n p w off cj pdj = Some (cj', pdj', false, qj)).
Proof.
  intros H. destruct (fit_loop_spec RO solve f alpha tol x y n p w off fuel c0 pd0 false coef q H)
    as (k & c & pd & pd' & Hk & Hr & Hs & Hcv & Hlast & Hprev).
  rewrite (Hlast eq_refl) in *. exists c, pd, pd'. repeat split; auto.
  intros lp -> L. assert (E : has_converged RO pd' (Some lp) tol = true) by (apply has_converged_R; eauto).
  congruence.
Qed.
