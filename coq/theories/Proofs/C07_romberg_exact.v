(** Proofs for C07, part 5: Romberg with k levels integrates every polynomial of degree <= 2k-1 exactly on every
    interval (1 <= k <= K0), and does not integrate x^(2k) exactly.  Linearity + affine substitution reduce the
    claim to the monomials on [0,1], which are computed on rationals and transported by [hom_Q2R]. *)
From Coq Require Import Reals List ZArith QArith Qreals Lra Lia Bool FunctionalExtensionality.
From Compute Require Import Base.Ops Base.ListMat Model.Quad Spec.Quad
  Proofs.C07_base Proofs.C07_hom Proofs.C07_poly Proofs.C07_romberg.
Import ListNotations.

(** largest level budget for which the monomial table is computed *)
Definition K0 : nat := 12.

Definition romberg_mono_q (m j : nat) : Q := romberg_noeps QO (fun x => qpow x j) (zero QO) (one QO) m.
Definition romberg_mono_ok (m j : nat) : bool := Qeq_bool (romberg_mono_q m j) (1 # Pos.of_nat (S j)).
Definition romberg_row_ok (m : nat) : bool :=
  forallb (romberg_mono_ok m) (seq 0 (2 * S m)) && negb (romberg_mono_ok m (2 * S m)).

Lemma romberg_table_K0 : forallb romberg_row_ok (seq 0 K0) = true.
Proof. vm_cast_no_check (eq_refl true). Qed.

Lemma forallb_seq_spec (P : nat -> bool) n : forallb P (seq 0 n) = true -> forall i, (i < n)%nat -> P i = true.
Proof. intros H i Hi. rewrite forallb_forall in H. apply H. apply in_seq. lia. Qed.

Lemma Q2R_inv_succ j : Q2R (1 # Pos.of_nat (S j)) = (/ INR (S j))%R.
Proof.
  unfold Q2R. cbn [Qnum Qden]. rewrite <- Pos.of_nat_succ, Zpos_P_of_succ_nat, <- Nat2Z.inj_succ, <- INR_IZR_INZ.
  lra.
Qed.
Lemma romberg_mono_transport m j :
  Q2R (romberg_mono_q m j) = romberg_noeps RO (fun x => x ^ j)%R 0%R 1%R m.
Proof.
  unfold romberg_mono_q.
  pose proof (qpow_frel j) as Hf.
  rewrite (h_romberg_noeps QO RO Q2R hom_Q2R _ _ (zero QO) (one QO) m Hf).
  rewrite (h_zero _ _ _ hom_Q2R), (h_one _ _ _ hom_Q2R). cbn [zero one RO].
  reflexivity.
Qed.

Lemma romberg_table_spec m : (m < K0)%nat ->
  (forall j, (j < 2 * S m)%nat -> romberg_mono_ok m j = true) /\ romberg_mono_ok m (2 * S m) = false.
Proof.
  intros Hm. pose proof (forallb_seq_spec romberg_row_ok K0 romberg_table_K0 m Hm) as Ht.
  unfold romberg_row_ok in Ht. apply andb_true_iff in Ht. destruct Ht as [H1 H2]. split.
  - intros j Hj. exact (forallb_seq_spec _ _ H1 j Hj).
  - apply negb_true_iff. exact H2.
Qed.

Open Scope R_scope.

Lemma romberg_monomial m j : (m < K0)%nat -> (j < 2 * S m)%nat ->
  romberg_noeps RO (fun x => x ^ j) 0 1 m = / INR (S j).
Proof.
  intros Hm Hj. destruct (romberg_table_spec m Hm) as [H _]. specialize (H j Hj).
  unfold romberg_mono_ok in H. apply Qeq_bool_eq, Qeq_eqR in H.
  rewrite romberg_mono_transport, Q2R_inv_succ in H. exact H.
Qed.
Lemma romberg_monomial_sharp m : (m < K0)%nat ->
  romberg_noeps RO (fun x => x ^ (2 * S m)) 0 1 m <> / INR (S (2 * S m)).
Proof.
  intros Hm E. destruct (romberg_table_spec m Hm) as [_ H].
  rewrite <- romberg_mono_transport, <- Q2R_inv_succ in E. apply eqR_Qeq in E.
  unfold romberg_mono_ok in H. rewrite (Qeq_eq_bool _ _ E) in H. discriminate.
Qed.

Lemma romberg_exact k p a b :
  (1 <= k <= K0)%nat -> (length p <= 2 * k)%nat ->
  romberg RO (horner RO p) a b 0 k = Some (poly_int p a b).
Proof.
  intros [Hk1 Hk2] Hp. destruct k as [|m]; [lia|].
  rewrite romberg_R, romberg_noeps_affine. f_equal.
  set (q := comp_aff p a (b - a)).
  replace (fun t => horner RO p (a + (b - a) * t)) with (horner RO q)
    by (apply functional_extensionality; intros t; apply horner_comp_aff).
  set (L := fun f => romberg_noeps RO f 0 1 m).
  assert (L_lin : forall al be f g, L (fun x => al * f x + be * g x) = al * L f + be * L g)
    by (intros; apply romberg_noeps_linear).
  change (romberg_noeps RO (horner RO q) 0 1 m) with (L (horner RO q)).
  rewrite (L_poly L L_lin q).
  rewrite (msum_bound L 0 q (fun j => / INR (S j))).
  - fold (wsum (fun j => / INR (S j)) 0 q). rewrite <- poly_int_from_unit. fold (poly_int q 0 1).
    unfold q. rewrite poly_int_subst. f_equal; ring.
  - intros j Hj. unfold L. apply romberg_monomial; [lia|].
    unfold q in Hj. rewrite comp_aff_length in Hj. lia.
Qed.

(** sharpness: degree 2k is not integrated exactly *)
Lemma romberg_not_exact_2k k :
  (1 <= k <= K0)%nat -> romberg RO (fun x => x ^ (2 * k)) 0 1 0 k <> Some (/ INR (S (2 * k))).
Proof.
  intros [Hk1 Hk2]. destruct k as [|m]; [lia|].
  rewrite romberg_R. intros E. injection E as E. revert E. apply romberg_monomial_sharp. lia.
Qed.
