(** C14 composed with C01: the inner solve of [PolynomialRegressor::fit] is C01's model of
    [invert_matrix] ([slice_invert], Model/SolveInst.v: routing predicate, fallible Cholesky sweep, LU
    fall-back, substitutions, column-major round trip), and the hypothesis on the inner solve that every
    theorem of Proofs/C14*.v carries is DISCHARGED from C01's theorems.  What remains is a condition on the
    data alone: at least degree+1 distinct abscissae ([has_distinct k x]).  Under it V^T V is symmetric
    positive definite (Proofs/C14_rank.v), so [invert_matrix] takes the Cholesky route, returns, and returns
    the inverse (C01: [spd_takes_cholesky_route], [invert_nonsingular]; Proofs/Compose_base.v). *)
From Coq Require Import Reals List Arith ZArith Lia Lra.
From Compute Require Import Base.Ops Base.ListMat Model.Reduce Model.MatMul Model.Poly Model.SolveInst Spec.Poly
  Proofs.C14_sums Proofs.C14 Proofs.C14_rank.
From Compute Require Spec.Factor Spec.Solve Proofs.C05 Proofs.LinAlgBase Proofs.C11_SPD Proofs.C01 Proofs.Compose_base.
Import ListNotations.
Local Open Scope R_scope.

(** ** the two vocabularies (Spec/Poly.v for C14, Spec/Factor.v + Spec/Solve.v for C01/C11) agree *)
Lemma rsum_same : Spec.Poly.rsum = Spec.Factor.rsum.
Proof. reflexivity. Qed.

Lemma right_inverse_bridge n A Ai : Spec.Solve.is_right_inverse A n Ai -> right_inverse n A Ai.
Proof. intros H. exact H. Qed.

Lemma spd_bridge n A :
  sym_pos_def n A -> Spec.Factor.symmetric A n /\ Proofs.C11_SPD.positive_definite A n.
Proof.
  intros [Hsym Hpd]. split.
  - intros i j Hi Hj. exact (Hsym i j Hi Hj).
  - intros v (i0 & Hi0 & Hv).
    set (d := map v (seq 0 n)).
    assert (Hdl : length d = n) by (unfold d; rewrite map_length, seq_length; reflexivity).
    assert (Hdn : forall j, (j < n)%nat -> nth j d 0 = v j).
    { intros j Hj. unfold d. rewrite Proofs.C05.nth_map_seq by exact Hj. reflexivity. }
    assert (Hnz : ~ Forall (fun a => a = 0) d).
    { intros HF. apply Hv. rewrite <- (Hdn i0 Hi0).
      rewrite Forall_forall in HF. apply HF. apply nth_In. rewrite Hdl. exact Hi0. }
    pose proof (Hpd d Hdl Hnz) as Hpos.
    rewrite rsum_same in Hpos.
    rewrite (Proofs.LinAlgBase.rsum_ext _
               (fun j => nth j d 0 * Spec.Factor.rsum (fun l => nth (j * n + l) A 0 * nth l d 0) n)); [exact Hpos|].
    intros p Hp. rewrite <- Proofs.LinAlgBase.rsum_scal_l. apply Proofs.LinAlgBase.rsum_ext.
    intros q Hq. rewrite (Hdn p Hp), (Hdn q Hq). unfold Spec.Factor.getm. ring.
Qed.

(** ** C01's [invert_matrix] meets the hypothesis of [inverse_ok_at_of_spd]: on every symmetric positive
    definite matrix, whatever it returns is a right inverse (and it does return: [invert_spd_returns]) *)
Lemma invert_ok_on_spd :
  forall n A Ai, length A = (n * n)%nat -> nonsingular n A /\ sym_pos_def n A ->
                 slice_invert RO A = Some Ai -> right_inverse n A Ai.
Proof.
  intros n A Ai Hlen [_ Hspd] Hinv.
  destruct n as [|n].
  - destruct A; [|discriminate]. rewrite Proofs.Compose_base.slice_invert_nil in Hinv. discriminate.
  - destruct (spd_bridge (S n) A Hspd) as [Hsym Hpd].
    destruct (Proofs.Compose_base.invert_spd A (S n) (eq_sym Hlen) ltac:(lia) Hsym Hpd) as (X & HX & HR).
    rewrite HX in Hinv. injection Hinv as <-. apply right_inverse_bridge. exact HR.
Qed.

Lemma invert_spd_returns n A :
  (0 < n)%nat -> length A = (n * n)%nat -> sym_pos_def n A ->
  exists Ai, slice_invert RO A = Some Ai /\ right_inverse n A Ai.
Proof.
  intros Hn Hlen Hspd. destruct (spd_bridge n A Hspd) as [Hsym Hpd].
  destruct (Proofs.Compose_base.invert_spd A n (eq_sym Hlen) Hn Hsym Hpd) as (X & HX & HR).
  exists X. split; [exact HX|apply right_inverse_bridge; exact HR].
Qed.

(** ** the hypothesis of the fit theorems, discharged *)
Theorem inner_solve_correct_composed k x y :
  has_distinct k x -> small k -> inverse_ok_at (slice_invert RO) k x y.
Proof. intros Hd Hk. apply (inverse_ok_at_of_spd (slice_invert RO) k x y invert_ok_on_spd Hd Hk). Qed.

(** [k] distinct entries need [k] entries *)
Lemma has_distinct_length k x : has_distinct k x -> (k <= length x)%nat.
Proof.
  intros (pos & Hl & Hin & Hnd).
  assert (Hnd' : NoDup pos).
  { revert Hnd. clear. induction pos as [|p pos IH]; intros H; [constructor|].
    cbn [map] in H. inversion H as [|? ? Hni Hnd]; subst. constructor; [|apply IH; exact Hnd].
    intros Hp. apply Hni. apply in_map_iff. exists p. split; [reflexivity|exact Hp]. }
  rewrite <- Hl. rewrite <- (seq_length (length x) 0).
  apply NoDup_incl_length; [exact Hnd'|].
  intros p Hp. apply in_seq. specialize (Hin p Hp). lia.
Qed.

(** ** the headline: with degree+1 distinct abscissae [fit] RETURNS, and returns THE least-squares polynomial *)
Theorem fit_total_composed k x y :
  (Z.of_nat k <= 2 ^ 31)%Z -> (0 < k)%nat -> length x = length y -> has_distinct k x ->
  exists c, fit RO (slice_invert RO) k x y = Some c /\ length c = k /\
    (forall j, (j < k)%nat ->
       rsum (fun l => rsum (fun i => nth i x 0 ^ j * nth i x 0 ^ l) (length x) * nth l c 0) k =
       rsum (fun i => nth i x 0 ^ j * nth i y 0) (length x)) /\
    (forall c', length c' = k -> rss x y c <= rss x y c') /\
    (forall c', length c' = k -> rss x y c' <= rss x y c -> c' = c).
Proof.
  intros Hk Hk0 Hxy Hd.
  pose proof (inner_solve_correct_composed k x y Hd Hk) as Hinv.
  assert (Hn : (0 < length x)%nat) by (pose proof (has_distinct_length k x Hd); lia).
  destruct (fit_accepts (slice_invert RO) k x y Hinv Hk Hxy Hn Hk0) as (G & HG & HGram & Hsome & _).
  destruct (gram_is_nonsingular_spd k x G Hd HGram) as [_ Hspd].
  destruct (invert_spd_returns k G Hk0 (proj1 HGram) Hspd) as (Gi & HGi & _).
  destruct (Hsome Gi HGi) as (c & Hc & Hcl).
  exists c. split; [exact Hc|]. split; [exact Hcl|]. split; [|split].
  - exact (fit_normal_equations (slice_invert RO) k x y c Hinv Hk Hc).
  - exact (fit_is_least_squares (slice_invert RO) k x y c Hinv Hk Hc).
  - exact (fit_unique_minimiser (slice_invert RO) k x y c Hinv Hk Hc Hd).
Qed.

(** the theorems about a returned fit, without any hypothesis on the inner solve *)
Theorem fit_is_least_squares_composed k x y c :
  (Z.of_nat k <= 2 ^ 31)%Z -> has_distinct k x ->
  fit RO (slice_invert RO) k x y = Some c ->
  forall c', length c' = k -> rss x y c <= rss x y c'.
Proof.
  intros Hk Hd Hc. exact (fit_is_least_squares (slice_invert RO) k x y c (inner_solve_correct_composed k x y Hd Hk) Hk Hc).
Qed.

Theorem fit_residual_orthogonal_composed k x y c :
  (Z.of_nat k <= 2 ^ 31)%Z -> has_distinct k x ->
  fit RO (slice_invert RO) k x y = Some c ->
  forall j, (j < k)%nat ->
    rsum (fun i => nth i x 0 ^ j * (nth i y 0 - poly_sum c (nth i x 0))) (length x) = 0.
Proof.
  intros Hk Hd Hc. exact (fit_residual_orthogonal (slice_invert RO) k x y c (inner_solve_correct_composed k x y Hd Hk) Hk Hc).
Qed.

Theorem fit_recovers_coefficients_composed k x y :
  (Z.of_nat k <= 2 ^ 31)%Z -> (0 < k)%nat -> length x = length y -> has_distinct k x ->
  forall c0, length c0 = k ->
    (forall i, (i < length x)%nat -> nth i y 0 = poly_sum c0 (nth i x 0)) ->
    fit RO (slice_invert RO) k x y = Some c0.
Proof.
  intros Hk Hk0 Hxy Hd c0 Hc0 Hy.
  destruct (fit_total_composed k x y Hk Hk0 Hxy Hd) as (c & Hc & _).
  rewrite Hc. f_equal.
  exact (fit_recovers_coefficients (slice_invert RO) k x y c (inner_solve_correct_composed k x y Hd Hk) Hk Hc Hd c0 Hc0 Hy).
Qed.

(** the data condition is satisfiable, and the composed routine computes the line 1 + 2x from three points on it *)
Example has_distinct_012 : has_distinct 2 [0; 1; 2].
Proof.
  exists [0; 1]%nat. split; [reflexivity|]. split.
  - intros p [<-|[<-|[]]]; cbn; lia.
  - cbn. constructor; [intros [H|[]]; lra|]. constructor; [intros []|constructor].
Qed.

Example fit_line_composed : fit RO (slice_invert RO) 2 [0; 1; 2] [1; 3; 5] = Some [1; 2].
Proof.
  apply fit_recovers_coefficients_composed; try reflexivity; try (cbn; lia).
  - exact has_distinct_012.
  - intros i Hi. cbn [length] in Hi.
    destruct i as [|[|[|i]]]; [| | |lia]; unfold poly_sum; cbn; ring.
Qed.
