(** C09 (extension): |erf_model x - erf x| <= 1.5e-7 for EVERY real x.
    [0, 6]: C09_erf.v.  x >= 6: both sides are within exp(-36)-ish of 1 (the model by its formula; the integral because
    erf is increasing and erf x + c exp(-36) exp(-(x-6)) is decreasing beyond 6 - two applications of the mean value
    theorem - and erf 6 is enclosed by [integral]).  x < 0: both sides are odd (the integrand is even). *)
From Coquelicot Require Import Coquelicot.
From Compute Require Import Proofs.C09_base Proofs.C09 Proofs.C09_erf_base Proofs.C09_erf.
Open Scope R_scope.

Lemma erf_int_continuity x : continuity_pt erf_int x.
Proof. apply continuity_pt_filterlim. apply (ex_derive_continuous erf_int). eexists. apply erf_int_is_derive. Qed.

Lemma sqrtPI_pos : 0 < 2 / R_sqrt.sqrt PI.
Proof. apply Rdiv_lt_0_compat; [lra|]. apply sqrt_lt_R0. apply PI_RGT_0. Qed.

(** erf is increasing *)
Lemma erf_int_incr a b : a <= b -> erf_int a <= erf_int b.
Proof.
  intros Hab.
  destruct (MVT_gen erf_int a b (fun x => 2 / R_sqrt.sqrt PI * exp (- (x * x)))) as (c & _ & Hc).
  - intros x _. apply erf_int_is_derive.
  - intros x _. apply erf_int_continuity.
  - pose proof sqrtPI_pos. pose proof (exp_pos (- (c * c))).
    assert (0 <= 2 / R_sqrt.sqrt PI * exp (- (c * c)) * (b - a)) by (apply Rmult_le_pos; [apply Rmult_le_pos|]; lra).
    lra.
Qed.

(** beyond 6 the tail is below c * exp(-36) *)
Definition erf_tail (x : R) : R := erf_int x + 2 / R_sqrt.sqrt PI * (exp (-36) * exp (- (x - 6))).
Lemma erf_tail_is_derive x :
  is_derive erf_tail x (2 / R_sqrt.sqrt PI * exp (- (x * x)) + 2 / R_sqrt.sqrt PI * (exp (-36) * (- exp (- (x - 6))))).
Proof.
  unfold erf_tail. apply (is_derive_plus erf_int); [apply erf_int_is_derive|].
  auto_derive; [exact I|]. unfold Rminus. generalize (exp (- (x + - (6)))). intros e. ring.
Qed.
Lemma erf_int_tail x : 6 <= x -> erf_int x <= erf_int 6 + 2 / R_sqrt.sqrt PI * exp (-36).
Proof.
  intros Hx.
  destruct (MVT_gen erf_tail 6 x (fun x => 2 / R_sqrt.sqrt PI * exp (- (x * x)) + 2 / R_sqrt.sqrt PI * (exp (-36) * (- exp (- (x - 6))))))
    as (c & Hc6 & Hc).
  - intros y _. apply erf_tail_is_derive.
  - intros y _. apply continuity_pt_filterlim. apply (ex_derive_continuous erf_tail). eexists. apply erf_tail_is_derive.
  - rewrite Rmin_left, Rmax_right in Hc6 by lra.
    assert (Hle : exp (- (c * c)) <= exp (-36) * exp (- (c - 6))).
    { rewrite <- exp_plus. destruct (Req_dec c 6) as [->|Hn].
      - right. f_equal. ring.
      - left. apply exp_increasing. nra. }
    pose proof sqrtPI_pos as Hs.
    assert (Hd : 2 / R_sqrt.sqrt PI * exp (- (c * c)) + 2 / R_sqrt.sqrt PI * (exp (-36) * (- exp (- (c - 6)))) <= 0) by nra.
    assert (Hdiff : erf_tail x - erf_tail 6 <= 0).
    { rewrite Hc. assert (0 <= x - 6) by lra. nra. }
    unfold erf_tail in Hdiff. replace (- (6 - 6)) with 0 in Hdiff by ring. rewrite exp_0, Rmult_1_r in Hdiff.
    pose proof (exp_pos (-36)). pose proof (exp_pos (- (x - 6))).
    assert (0 <= 2 / R_sqrt.sqrt PI * (exp (-36) * exp (- (x - 6)))) by (apply Rmult_le_pos; [lra|apply Rmult_le_pos; lra]).
    lra.
Qed.

Lemma erf_int_6 : Rabs (erf_int 6 - 1) <= 1e-10.
Proof. unfold erf_int. integral with (i_prec 60). Qed.

(** the model beyond 6 *)
Lemma erf_nonneg_tail x : 6 <= x -> 1 - exp (-36) <= erf_nonneg RO x <= 1.
Proof.
  intros Hx. split; [|apply erf_nonneg_range; lra].
  rewrite erf_nonneg_eq.
  set (t := 1 / (1 + Q2R (fst erf_p) * x)).
  pose proof erf_p_pos as Hp.
  assert (Hd : 1 <= 1 + Q2R (fst erf_p) * x) by nra.
  assert (Ht : 0 < t <= 1).
  { unfold t. split.
    - apply Rdiv_lt_0_compat; lra.
    - apply Rle_trans with (1 / 1); [|lra]. unfold Rdiv. rewrite !Rmult_1_l.
      apply Rinv_le_contravar; lra. }
  assert (He : 0 < exp (- x * x) <= exp (-36)).
  { split; [apply exp_pos|]. destruct (Req_dec x 6) as [->|Hn].
    - right. f_equal. ring.
    - left. apply exp_increasing. nra. }
  pose proof (erf_poly_pos t ltac:(lra)) as H1. pose proof (erf_poly_le1 t ltac:(lra)) as H2.
  assert (0 <= erfP t * t) by nra. nra.
Qed.

Lemma erf_err_ge6 x : 6 <= x -> Rabs (erf_err x) <= 15e-8.
Proof.
  intros Hx. unfold erf_err.
  pose proof (erf_nonneg_tail x Hx) as Hm.
  pose proof (erf_int_incr 6 x Hx) as Hi1. pose proof (erf_int_tail x Hx) as Hi2.
  pose proof erf_int_6 as H6. apply Rabs_le_between in H6.
  assert (Hc : 2 / R_sqrt.sqrt PI * exp (-36) <= 1e-15) by interval.
  assert (He : exp (-36) <= 1e-15) by interval.
  apply Rabs_le. lra.
Qed.

Lemma erf_err_nonneg_all x : 0 <= x -> Rabs (erf_err x) <= 15e-8.
Proof.
  intros Hx. destruct (Rle_dec x 6); [apply erf_err_0_6; lra|apply erf_err_ge6; lra].
Qed.

(** the integral is odd *)
Lemma erf_int_odd x : erf_int (- x) = - erf_int x.
Proof.
  unfold erf_int.
  assert (H : RInt (fun t => exp (- (t * t))) 0 (- x) = - RInt (fun t => exp (- (t * t))) 0 x).
  { pose proof (RInt_correct (fun t => exp (- (t * t))) (- 0) (- x) (gauss_ex_RInt _ _)) as H1.
    apply (is_RInt_comp_opp (fun t => exp (- (t * t)))) in H1.
    pose proof (is_RInt_unique _ _ _ _ H1) as H2. rewrite Ropp_0 in H2. rewrite <- H2.
    rewrite <- (RInt_opp (fun t => exp (- (t * t)))) by apply gauss_ex_RInt.
    apply RInt_ext. intros t _. unfold opp; simpl. f_equal. f_equal. f_equal. ring. }
  rewrite H. ring.
Qed.

(** the theorem: every real x *)
Theorem erf_accuracy_all x :
  Rabs (erf RO x - 2 / R_sqrt.sqrt PI * RInt (fun t => exp (- (t * t))) 0 x) <= 1.5e-7.
Proof.
  replace 1.5e-7 with 15e-8 by lra. fold (erf_int x).
  destruct (Rle_dec 0 x) as [Hx|Hx].
  - rewrite erf_RO_nonneg by lra. apply erf_err_nonneg_all. exact Hx.
  - rewrite erf_RO_neg by lra.
    replace (- erf_nonneg RO (- x) - erf_int x) with (- (erf_nonneg RO (- x) - erf_int (- x))) by (rewrite erf_int_odd; ring).
    rewrite Rabs_Ropp. apply (erf_err_nonneg_all (- x)). lra.
Qed.
