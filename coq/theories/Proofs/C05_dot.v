(** * C05 — the 16 [Dot] trait impl families and [xtx] (extension).
    For every carrier [T] and every operations record (no algebraic law), all shapes:
    each of Matrix.Matrix, Matrix.Vector, Vector.Matrix, Vector.Vector x dot / t_dot / dot_t / t_dot_t returns a value
    exactly on the conformable shapes (a Vector operand promoted to a column on the right, to a row on the left) and the
    value is the definition, entry by entry, as the left-to-right sum over the inner index; it panics otherwise.
    The owned / borrowed forms of an impl family run the same code (the model has one function per family). *)
From Coq Require Import List Arith Bool Lia.
From Compute Require Import Base.Ops Base.ListMat Model.Reduce Model.MatMul Spec.MatMul Proofs.C05.
Import ListNotations.

Section DotSpec.
  Context {T : Type} (O : Ops T).
  Local Notation z := (zero O).

  (** the struct invariant of [Matrix] (every constructor of the crate establishes it; [Matrix::new] refuses a zero dimension) *)
  Definition wf_matrix (m : @matrix T) : Prop := 0 < nr m /\ 0 < nc m /\ length (dat m) = nr m * nc m.

  (** transpose flags of a method: (on self, on other) *)
  Definition flag_a (k : dotk) : bool := match k with DotTN | DotTT => true | _ => false end.
  Definition flag_b (k : dotk) : bool := match k with DotNT | DotTT => true | _ => false end.

  (** [c] is op(A).v for a flat row-major [a] with [ca] columns: [m] entries, entry i = sum_k op(A)[i,k] * v[k] *)
  Definition is_matvec (a : list T) (ca : nat) (ta : bool) (v : list T) (m l : nat) (c : list T) : Prop :=
    length c = m /\ forall i, i < m -> nth i c z = sumk O (fun k => mul O (opA O a ca ta i k) (nth k v z)) l.
  (** [c] is v.op(B): [n] entries, entry j = sum_k v[k] * op(B)[k,j] *)
  Definition is_vecmat (v : list T) (b : list T) (cb : nat) (tb : bool) (l n : nat) (c : list T) : Prop :=
    length c = n /\ forall j, j < n -> nth j c z = sumk O (fun k => mul O (nth k v z) (opB O b cb tb k j)) l.

  (** the 8-way unrolled inner product, position by position: the chunk sums [x0*y0 + x1*y1 + ... + x7*y7] (left to
      right from the first product) are added to the accumulator one chunk after the other, then the remaining products
      one by one *)
  Fixpoint dot_chunks (s : T) (p : list T) (fuel : nat) {struct fuel} : T :=
    match fuel with
    | 0 => s
    | S fuel' =>
        match p with
        | p0 :: p1 :: p2 :: p3 :: p4 :: p5 :: p6 :: p7 :: p' =>
            dot_chunks (add O s (fold_left (add O) [p1; p2; p3; p4; p5; p6; p7] p0)) p' fuel'
        | _ => fold_left (add O) p s
        end
    end.
End DotSpec.

Section DotProofs.
  Context {T : Type} (O : Ops T).
  Local Notation z := (zero O).

  Lemma dims_wf ra ca rb cb ta tb :
    0 < ra -> 0 < rb ->
    dims (ra * ca) (rb * cb) ra rb ta tb =
    if (if ta then ra else ca) =? (if tb then cb else rb)
    then Some (ca, cb, if ta then ca else ra, if ta then ra else ca, if tb then rb else cb) else None.
  Proof.
    intros Ha Hb. unfold dims.
    apply Nat.ltb_lt in Ha, Hb. rewrite Ha, Hb. apply Nat.ltb_lt in Ha, Hb.
    rewrite (Nat.mul_comm ra ca), (Nat.mul_comm rb cb), !Nat.mod_mul, !Nat.div_mul by lia.
    cbn [Nat.eqb andb]. destruct ta, tb; reflexivity.
  Qed.

  (** ** Matrix . Matrix, all four methods at once *)
  Definition mm_shape (k : dotk) (s o : @matrix T) : option (nat * nat * nat) :=
    if (if flag_a k then nr s else nc s) =? (if flag_b k then nc o else nr o)
    then Some (if flag_a k then nc s else nr s, if flag_a k then nr s else nc s, if flag_b k then nr o else nc o)
    else None.

  Lemma mat_mat_dot_spec (k : dotk) (s o : @matrix T) :
    wf_matrix s -> wf_matrix o ->
    match mm_shape k s o with
    | None => mat_mat_dot O k s o = None
    | Some (m, l, n) =>
        exists r, mat_mat_dot O k s o = Some r /\ nr r = m /\ nc r = n /\
                  is_product O (flag_a k && flag_b k) (dat s) (dat o) (nc s) (nc o) (flag_a k) (flag_b k) m l n (dat r)
    end.
  Proof.
    intros (Hs1 & Hs2 & Hs3) (Ho1 & Ho2 & Ho3).
    pose proof (matmul_spec O (dat s) (dat o) (nr s) (nr o) (flag_a k) (flag_b k)) as H.
    rewrite Hs3, Ho3, dims_wf in H by assumption.
    assert (B1 := proj2 (Nat.ltb_lt _ _) Hs1). assert (B2 := proj2 (Nat.ltb_lt _ _) Hs2).
    assert (B3 := proj2 (Nat.ltb_lt _ _) Ho1). assert (B4 := proj2 (Nat.ltb_lt _ _) Ho2).
    unfold mm_shape, mat_mat_dot.
    destruct k; cbn [flag_a flag_b] in *;
      (match goal with |- context [?a =? ?b] => destruct (Nat.eqb_spec a b) as [E|E] end;
       cbn [guard bind]; [|reflexivity]);
      destruct H as (c & Hc & Hp); rewrite Hc; cbn [bind]; pose proof Hp as [Hlen _];
      unfold matrix_new; rewrite Hlen, Nat.eqb_refl;
      rewrite ?B1, ?B2, ?B3, ?B4;
      cbn [andb guard bind]; eexists; (split; [reflexivity|]); cbn [nr nc dat]; auto.
  Qed.

  (** ** Vector promotion *)
  Lemma to_matrix_spec (v : list T) :
    to_matrix v = match v with [] => None | _ => Some (@Build_matrix T 1 (length v) v) end.
  Proof.
    unfold to_matrix, matrix_new. rewrite Nat.mul_1_l, Nat.eqb_refl.
    destruct v as [|a v]; [reflexivity|]. reflexivity.
  Qed.

  (** transposing a 1 x n matrix in place leaves the data as it is: the promoted Vector is the column [v] *)
  Lemma t_mut_row (v : list T) :
    v <> [] -> t_mut O (@Build_matrix T 1 (length v) v) = Some (@Build_matrix T (length v) 1 v).
  Proof.
    intros Hv. unfold t_mut. cbn [nr nc dat].
    destruct (transpose_spec O v 1 (length v)) as (t & Ht & Hlen & Hent); [lia|lia|].
    rewrite Ht. cbn [bind]. f_equal. f_equal.
    apply (nth_ext _ _ z z); [lia|]. intros i Hi. rewrite Hlen, Nat.mul_1_r in Hi.
    specialize (Hent i 0 Hi ltac:(lia)). rewrite Nat.mul_1_r, Nat.add_0_r, Nat.mul_0_l, Nat.add_0_l in Hent. exact Hent.
  Qed.

  (** ** Matrix . Vector: the vector becomes a column; a transpose flag on it does nothing *)
  Lemma mat_vec_dot_spec (k : dotk) (s : @matrix T) (v : list T) :
    wf_matrix s ->
    let inner := if flag_a k then nr s else nc s in
    let m := if flag_a k then nc s else nr s in
    if inner =? length v
    then exists c, mat_vec_dot O k s v = Some c /\ is_matvec O (dat s) (nc s) (flag_a k) v m inner c
    else mat_vec_dot O k s v = None.
  Proof.
    intros Hs inner m. pose proof Hs as (Hs1 & Hs2 & Hs3).
    unfold mat_vec_dot. rewrite to_matrix_spec.
    destruct v as [|a v'] eqn:Ev.
    { replace (inner =? length (@nil T)) with false; [reflexivity|].
      symmetry. apply Nat.eqb_neq. subst inner. cbn [length]. destruct (flag_a k); lia. }
    rewrite <- Ev. assert (Hv : v <> []) by (rewrite Ev; discriminate).
    assert (Hl : 0 < length v) by (rewrite Ev; cbn; lia).
    cbn [bind]. rewrite t_mut_row by exact Hv. cbn [bind].
    set (k' := match k with DotNN | DotNT => DotNN | DotTN | DotTT => DotTN end).
    set (col := @Build_matrix T (length v) 1 v).
    assert (Hc : wf_matrix col) by (unfold wf_matrix, col; cbn [nr nc dat]; lia).
    pose proof (mat_mat_dot_spec k' s col Hs Hc) as H.
    assert (Fa : flag_a k' = flag_a k) by (destruct k; reflexivity).
    assert (Fb : flag_b k' = false) by (destruct k; reflexivity).
    unfold mm_shape in H. rewrite Fa, Fb in H. cbn [nr nc dat col] in H. fold inner in H. fold m in H.
    destruct (inner =? length v).
    - destruct H as (r & Hr & Hnr & Hnc & Hlen & Hent). rewrite Hr. cbn [bind].
      eexists; split; [reflexivity|]. split; [lia|].
      intros i Hi. specialize (Hent i 0 Hi ltac:(lia)). rewrite Nat.mul_1_r, Nat.add_0_r in Hent.
      rewrite Hent, andb_false_r. apply sumk_ext. intros kk Hk. unfold opB.
      rewrite Nat.mul_1_r, Nat.add_0_r. reflexivity.
    - rewrite H. reflexivity.
  Qed.

  (** ** Vector . Matrix: the vector becomes a row *)
  Lemma vec_mat_dot_spec (k : dotk) (v : list T) (o : @matrix T) :
    wf_matrix o ->
    let inner := if flag_b k then nc o else nr o in
    let n := if flag_b k then nr o else nc o in
    if length v =? inner
    then exists c, vec_mat_dot O k v o = Some c /\ is_vecmat O v (dat o) (nc o) (flag_b k) inner n c
    else vec_mat_dot O k v o = None.
  Proof.
    intros Ho inner n. pose proof Ho as (Ho1 & Ho2 & Ho3).
    unfold vec_mat_dot. rewrite to_matrix_spec.
    destruct v as [|a v'] eqn:Ev.
    { replace (length (@nil T) =? inner) with false; [reflexivity|].
      symmetry. apply Nat.eqb_neq. subst inner. cbn [length]. destruct (flag_b k); lia. }
    rewrite <- Ev. assert (Hl : 0 < length v) by (rewrite Ev; cbn; lia).
    cbn [bind].
    set (k' := match k with DotNN | DotTN => DotNN | DotNT | DotTT => DotNT end).
    set (row := @Build_matrix T 1 (length v) v).
    assert (Hr : wf_matrix row) by (unfold wf_matrix, row; cbn [nr nc dat]; lia).
    pose proof (mat_mat_dot_spec k' row o Hr Ho) as H.
    assert (Fa : flag_a k' = false) by (destruct k; reflexivity).
    assert (Fb : flag_b k' = flag_b k) by (destruct k; reflexivity).
    unfold mm_shape in H. rewrite Fa, Fb in H. cbn [nr nc dat row] in H. fold inner in H. fold n in H.
    destruct (Nat.eqb_spec (length v) inner) as [E|E].
    - destruct H as (r & Hr' & Hnr & Hnc & Hlen & Hent). rewrite Hr'. cbn [bind].
      eexists; split; [reflexivity|]. split; [lia|].
      intros j Hj. specialize (Hent 0 j ltac:(lia) Hj). rewrite Nat.mul_0_l, Nat.add_0_l in Hent.
      rewrite Hent, <- E. cbn [andb]. apply sumk_ext. intros kk Hk. unfold opA.
      rewrite Nat.mul_0_l, Nat.add_0_l. reflexivity.
    - rewrite H. reflexivity.
  Qed.

  (** ** Vector . Vector: the unrolled inner product, whatever the method (a transpose of a vector does nothing) *)
  Lemma dot8_chunks (fuel : nat) : forall (s : T) (x y : list T),
    length x = length y -> dot8 O fuel s x y = dot_chunks O s (map2 (mul O) x y) fuel.
  Proof.
    induction fuel as [|fuel IH]; intros s x y H; [reflexivity|].
    do 8 (destruct x as [|? x]; destruct y as [|? y]; cbn [length] in H; try discriminate H; [reflexivity|];
          injection H as H).
    cbn [dot8 map2 dot_chunks fold_left]. apply IH. exact H.
  Qed.

  Lemma vec_vec_dot_spec (k : dotk) (v w : list T) :
    vec_vec_dot O k v w =
    if length v =? length w then Some (dot_chunks O z (map2 (mul O) v w) (S (length v))) else None.
  Proof.
    unfold vec_vec_dot, dot, dot_raw. destruct (Nat.eqb_spec (length v) (length w)) as [E|E]; [|reflexivity].
    rewrite dot8_chunks by exact E. reflexivity.
  Qed.

  (** fewer than eight elements: the plain left-to-right sum of the products from zero *)
  Lemma dot_chunks_short (s : T) (p : list T) (fuel : nat) :
    length p < 8 -> dot_chunks O s p (S fuel) = fold_left (add O) p s.
  Proof.
    intros H. do 8 (destruct p as [|? p]; [reflexivity|]). cbn [length] in H. lia.
  Qed.

  (** ** [xtx]: X^T X of a [k]-row matrix *)
  Lemma xtx_spec (x : list T) (k : nat) :
    if (0 <? k) && (length x mod k =? 0)
    then exists c, xtx O x k = Some c /\
           let n := length x / k in
           length c = n * n /\
           forall i j, i < n -> j < n ->
             nth (i * n + j) c z = sumk O (fun r => mul O (nth (r * n + i) x z) (nth (r * n + j) x z)) k
    else xtx O x k = None.
  Proof.
    unfold xtx. pose proof (matmul_spec O x x k k true false) as H. unfold dims in H.
    destruct (0 <? k); cbn [andb] in *; [|exact H].
    destruct (length x mod k =? 0); cbn [andb] in *; [|exact H].
    rewrite Nat.eqb_refl in H. destruct H as (c & Hc & Hlen & Hent).
    exists c. split; [exact Hc|]. cbv zeta. split; [exact Hlen|].
    intros i j Hi Hj. rewrite (Hent i j Hi Hj). reflexivity.
  Qed.

  (** symmetric wherever the multiplication commutes (reals; binary64, bit for bit): both entries sum the same
      products in the same order *)
  Lemma xtx_symmetric (x : list T) (k : nat) (c : list T) :
    (forall a b : T, mul O a b = mul O b a) ->
    xtx O x k = Some c ->
    let n := length x / k in
    forall i j, i < n -> j < n -> nth (i * n + j) c z = nth (j * n + i) c z.
  Proof.
    intros Hcomm Hx n i j Hi Hj. pose proof (xtx_spec x k) as H.
    destruct ((0 <? k) && (length x mod k =? 0)); [|congruence].
    destruct H as (c' & Hc' & _ & Hent). rewrite Hx in Hc'. injection Hc' as <-.
    fold n in Hent. rewrite (Hent i j Hi Hj), (Hent j i Hj Hi).
    apply sumk_ext. intros r _. apply Hcomm.
  Qed.

  (** on a carrier whose multiplication commutes the both-transposed product (computed as (B.A)^T, factors of each
      term commuted) is the definition too *)
  Lemma is_product_swap (a b : list T) ca cb ta tb m l n c :
    (forall p q : T, mul O p q = mul O q p) ->
    is_product O true a b ca cb ta tb m l n c -> is_product O false a b ca cb ta tb m l n c.
  Proof.
    intros Hcomm [Hlen Hent]. split; [exact Hlen|]. intros i j Hi Hj. rewrite (Hent i j Hi Hj).
    apply sumk_ext. intros kk _. apply Hcomm.
  Qed.
End DotProofs.

(** ** The 16 families, one statement each *)
Lemma dot_MM_dot :
  forall (T : Type) (O : Ops T) (s o : @matrix T),
    wf_matrix s -> wf_matrix o ->
    if nc s =? nr o
    then exists r, mat_mat_dot O DotNN s o = Some r /\ nr r = nr s /\ nc r = nc o /\
                   is_product O false (dat s) (dat o) (nc s) (nc o) false false (nr s) (nc s) (nc o) (dat r)
    else mat_mat_dot O DotNN s o = None.
Proof.
  intros T O s o Hs Ho. pose proof (mat_mat_dot_spec O DotNN s o Hs Ho) as X.
  unfold mm_shape in X. cbn [flag_a flag_b andb] in X. destruct (nc s =? nr o); exact X.
Qed.

Lemma dot_MM_t_dot :
  forall (T : Type) (O : Ops T) (s o : @matrix T),
    wf_matrix s -> wf_matrix o ->
    if nr s =? nr o
    then exists r, mat_mat_dot O DotTN s o = Some r /\ nr r = nc s /\ nc r = nc o /\
                   is_product O false (dat s) (dat o) (nc s) (nc o) true false (nc s) (nr s) (nc o) (dat r)
    else mat_mat_dot O DotTN s o = None.
Proof.
  intros T O s o Hs Ho. pose proof (mat_mat_dot_spec O DotTN s o Hs Ho) as X.
  unfold mm_shape in X. cbn [flag_a flag_b andb] in X. destruct (nr s =? nr o); exact X.
Qed.

Lemma dot_MM_dot_t :
  forall (T : Type) (O : Ops T) (s o : @matrix T),
    wf_matrix s -> wf_matrix o ->
    if nc s =? nc o
    then exists r, mat_mat_dot O DotNT s o = Some r /\ nr r = nr s /\ nc r = nr o /\
                   is_product O false (dat s) (dat o) (nc s) (nc o) false true (nr s) (nc s) (nr o) (dat r)
    else mat_mat_dot O DotNT s o = None.
Proof.
  intros T O s o Hs Ho. pose proof (mat_mat_dot_spec O DotNT s o Hs Ho) as X.
  unfold mm_shape in X. cbn [flag_a flag_b andb] in X. destruct (nc s =? nc o); exact X.
Qed.

Lemma dot_MM_t_dot_t :
  forall (T : Type) (O : Ops T) (s o : @matrix T),
    wf_matrix s -> wf_matrix o ->
    if nr s =? nc o
    then exists r, mat_mat_dot O DotTT s o = Some r /\ nr r = nc s /\ nc r = nr o /\
                   is_product O true (dat s) (dat o) (nc s) (nc o) true true (nc s) (nr s) (nr o) (dat r)
    else mat_mat_dot O DotTT s o = None.
Proof.
  intros T O s o Hs Ho. pose proof (mat_mat_dot_spec O DotTT s o Hs Ho) as X.
  unfold mm_shape in X. cbn [flag_a flag_b andb] in X. destruct (nr s =? nc o); exact X.
Qed.

Lemma dot_MV_dot :
  forall (T : Type) (O : Ops T) (s : @matrix T) (v : list T),
    wf_matrix s ->
    if nc s =? length v
    then exists c, mat_vec_dot O DotNN s v = Some c /\ is_matvec O (dat s) (nc s) false v (nr s) (nc s) c
    else mat_vec_dot O DotNN s v = None.
Proof. intros T O s v Hs. exact (mat_vec_dot_spec O DotNN s v Hs). Qed.

Lemma dot_MV_t_dot :
  forall (T : Type) (O : Ops T) (s : @matrix T) (v : list T),
    wf_matrix s ->
    if nr s =? length v
    then exists c, mat_vec_dot O DotTN s v = Some c /\ is_matvec O (dat s) (nc s) true v (nc s) (nr s) c
    else mat_vec_dot O DotTN s v = None.
Proof. intros T O s v Hs. exact (mat_vec_dot_spec O DotTN s v Hs). Qed.

Lemma dot_MV_dot_t :
  forall (T : Type) (O : Ops T) (s : @matrix T) (v : list T),
    wf_matrix s ->
    if nc s =? length v
    then exists c, mat_vec_dot O DotNT s v = Some c /\ is_matvec O (dat s) (nc s) false v (nr s) (nc s) c
    else mat_vec_dot O DotNT s v = None.
Proof. intros T O s v Hs. exact (mat_vec_dot_spec O DotNT s v Hs). Qed.

Lemma dot_MV_t_dot_t :
  forall (T : Type) (O : Ops T) (s : @matrix T) (v : list T),
    wf_matrix s ->
    if nr s =? length v
    then exists c, mat_vec_dot O DotTT s v = Some c /\ is_matvec O (dat s) (nc s) true v (nc s) (nr s) c
    else mat_vec_dot O DotTT s v = None.
Proof. intros T O s v Hs. exact (mat_vec_dot_spec O DotTT s v Hs). Qed.

Lemma dot_VM_dot :
  forall (T : Type) (O : Ops T) (v : list T) (o : @matrix T),
    wf_matrix o ->
    if length v =? nr o
    then exists c, vec_mat_dot O DotNN v o = Some c /\ is_vecmat O v (dat o) (nc o) false (nr o) (nc o) c
    else vec_mat_dot O DotNN v o = None.
Proof. intros T O v o Ho. exact (vec_mat_dot_spec O DotNN v o Ho). Qed.

Lemma dot_VM_t_dot :
  forall (T : Type) (O : Ops T) (v : list T) (o : @matrix T),
    wf_matrix o ->
    if length v =? nr o
    then exists c, vec_mat_dot O DotTN v o = Some c /\ is_vecmat O v (dat o) (nc o) false (nr o) (nc o) c
    else vec_mat_dot O DotTN v o = None.
Proof. intros T O v o Ho. exact (vec_mat_dot_spec O DotTN v o Ho). Qed.

Lemma dot_VM_dot_t :
  forall (T : Type) (O : Ops T) (v : list T) (o : @matrix T),
    wf_matrix o ->
    if length v =? nc o
    then exists c, vec_mat_dot O DotNT v o = Some c /\ is_vecmat O v (dat o) (nc o) true (nc o) (nr o) c
    else vec_mat_dot O DotNT v o = None.
Proof. intros T O v o Ho. exact (vec_mat_dot_spec O DotNT v o Ho). Qed.

Lemma dot_VM_t_dot_t :
  forall (T : Type) (O : Ops T) (v : list T) (o : @matrix T),
    wf_matrix o ->
    if length v =? nc o
    then exists c, vec_mat_dot O DotTT v o = Some c /\ is_vecmat O v (dat o) (nc o) true (nc o) (nr o) c
    else vec_mat_dot O DotTT v o = None.
Proof. intros T O v o Ho. exact (vec_mat_dot_spec O DotTT v o Ho). Qed.

Lemma dot_VV_dot :
  forall (T : Type) (O : Ops T) (v w : list T),
    vec_vec_dot O DotNN v w =
    if length v =? length w then Some (dot_chunks O (zero O) (map2 (mul O) v w) (S (length v))) else None.
Proof. intros T O v w. exact (vec_vec_dot_spec O DotNN v w). Qed.

Lemma dot_VV_t_dot :
  forall (T : Type) (O : Ops T) (v w : list T),
    vec_vec_dot O DotTN v w =
    if length v =? length w then Some (dot_chunks O (zero O) (map2 (mul O) v w) (S (length v))) else None.
Proof. intros T O v w. exact (vec_vec_dot_spec O DotTN v w). Qed.

Lemma dot_VV_dot_t :
  forall (T : Type) (O : Ops T) (v w : list T),
    vec_vec_dot O DotNT v w =
    if length v =? length w then Some (dot_chunks O (zero O) (map2 (mul O) v w) (S (length v))) else None.
Proof. intros T O v w. exact (vec_vec_dot_spec O DotNT v w). Qed.

Lemma dot_VV_t_dot_t :
  forall (T : Type) (O : Ops T) (v w : list T),
    vec_vec_dot O DotTT v w =
    if length v =? length w then Some (dot_chunks O (zero O) (map2 (mul O) v w) (S (length v))) else None.
Proof. intros T O v w. exact (vec_vec_dot_spec O DotTT v w). Qed.

(** ** Commutative carriers: reals and binary64 *)
From Coq Require Import Reals.
From Compute Require Import Spec.Vops.
From Compute Require Proofs.C04Red Proofs.C04Float.

Lemma mul_comm_R : forall a b : R, Ops.mul RO a b = Ops.mul RO b a.
Proof. intros a b. cbn. ring. Qed.
Lemma mul_comm_binary64 : forall (tbl : libm_table) (a b : PrimFloat.float), Ops.mul (FO tbl) a b = Ops.mul (FO tbl) b a.
Proof. intros tbl a b. cbn. apply C04Float.fmul_comm. Qed.

(** the both-transposed Matrix.Matrix product is the definition (factors in the textbook order) where multiplication commutes *)
Lemma dot_MM_t_dot_t_commutative :
  forall (T : Type) (O : Ops T), (forall p q : T, Ops.mul O p q = Ops.mul O q p) ->
  forall (s o : @matrix T), wf_matrix s -> wf_matrix o ->
    if nr s =? nc o
    then exists r, mat_mat_dot O DotTT s o = Some r /\ nr r = nc s /\ nc r = nr o /\
                   is_product O false (dat s) (dat o) (nc s) (nc o) true true (nc s) (nr s) (nr o) (dat r)
    else mat_mat_dot O DotTT s o = None.
Proof.
  intros T O Hc s o Hs Ho. pose proof (dot_MM_t_dot_t T O s o Hs Ho) as X.
  destruct (nr s =? nc o); [|exact X].
  destruct X as (r & Hr & H1 & H2 & Hp). exists r. repeat split; auto; apply (is_product_swap O _ _ _ _ _ _ _ _ _ _ Hc Hp).
Qed.

(** Vector.Vector on the reals: the sum of the products *)
Lemma dot_VV_R (k : dotk) (v w : list R) :
  vec_vec_dot RO k v w = if length v =? length w then Some (Rdot v w) else None.
Proof. unfold vec_vec_dot. apply C04Red.dot_R. Qed.
