(** * C17 bridge: facts about MathComp's ['C(n, k)] transported to [N] through [Spec.Binom.CN].

    Everything below is a restatement of a lemma of [mathcomp.ssreflect.binomial]
    ([bin0], [bin1], [binS], [bin_small], [bin_gt0], [bin_sub], [mul_bin_left]); nothing about the
    implementation is used here.  MathComp is only [Require]d (not [Import]ed) so that the
    standard [nat]/[N] notations and [lia] keep their usual meaning. *)
From Coq Require Import ssreflect ssrbool.
From mathcomp Require ssrnat binomial.
From Coq Require Import NArith Arith Lia.
From Compute Require Import Spec.Binom.

(** ** [nat]-level statements with the standard library operations *)

Local Notation C := binomial.binomial.

Lemma C_0 (n : nat) : C n 0 = 1%nat.
Proof. exact (binomial.bin0 n). Qed.

Lemma C_1 (n : nat) : C n 1 = n.
Proof. exact (binomial.bin1 n). Qed.

Lemma C_S (n m : nat) : C (S n) (S m) = (C n (S m) + C n m)%nat.
Proof. exact (binomial.binS n m). Qed.

Lemma C_absorb (n m : nat) : (S m * C n (S m) = (n - m) * C n m)%nat.
Proof. exact (binomial.mul_bin_left n m). Qed.

Lemma C_small (n m : nat) : (n < m)%nat -> C n m = 0%nat.
Proof. move=> H; apply: binomial.bin_small; apply/ssrnat.ltP; exact H. Qed.

Lemma C_pos (n m : nat) : (m <= n)%nat -> (0 < C n m)%nat.
Proof.
  move=> H; apply/ssrnat.ltP; rewrite binomial.bin_gt0; apply/ssrnat.leP; exact H.
Qed.

Lemma C_sym (n m : nat) : (m <= n)%nat -> C n (n - m) = C n m.
Proof.
  move=> H.
  have Hb : is_true (ssrnat.leq m n) by apply/ssrnat.leP.
  exact (binomial.bin_sub Hb).
Qed.

(** ** [N]-level statements over [CN] *)

Local Open Scope N_scope.

Lemma CN_0 (n : N) : CN n 0 = 1.
Proof. rewrite /CN /= C_0 //. Qed.

Lemma CN_1 (n : N) : CN n 1 = n.
Proof. rewrite /CN. change (N.to_nat 1) with 1%nat. rewrite C_1 N2Nat.id //. Qed.

Lemma CN_small (n k : N) : n < k -> CN n k = 0.
Proof. move=> H; rewrite /CN C_small //; lia. Qed.

Lemma CN_pos (n k : N) : k <= n -> 0 < CN n k.
Proof.
  move=> H; rewrite /CN.
  have := C_pos (N.to_nat n) (N.to_nat k) ltac:(lia). lia.
Qed.

Lemma CN_sym (n k : N) : k <= n -> CN n (n - k) = CN n k.
Proof.
  move=> H; rewrite /CN N2Nat.inj_sub C_sym //; lia.
Qed.

Lemma CN_pascal (n k : N) : CN (n + 1) (k + 1) = CN n (k + 1) + CN n k.
Proof.
  rewrite /CN.
  have -> : N.to_nat (n + 1) = S (N.to_nat n) by lia.
  have -> : N.to_nat (k + 1) = S (N.to_nat k) by lia.
  rewrite C_S; lia.
Qed.

(** absorption: [i * C(n,i) = (n-i+1) * C(n,i-1)] *)
Lemma CN_absorb (n i : N) : 1 <= i -> i <= n -> i * CN n i = (n - i + 1) * CN n (i - 1).
Proof.
  move=> H1 Hn; rewrite /CN.
  have [m Hm] : exists m : nat, N.to_nat i = S m by exists (Nat.pred (N.to_nat i)); lia.
  have -> : N.to_nat (i - 1) = m by lia.
  rewrite Hm.
  have := C_absorb (N.to_nat n) m.
  set a := C _ (S m); set b := C _ m.
  move=> E.
  have -> : i = N.of_nat (S m) by lia.
  have -> : n - N.of_nat (S m) + 1 = N.of_nat (N.to_nat n - m) by lia.
  rewrite -!Nat2N.inj_mul E //.
Qed.
