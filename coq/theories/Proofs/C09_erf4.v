(** C09 (extension): |erf_model x - erf x| <= 1.5e-7 for every real x in [2, 6] (adaptive cells; see C09_erf_base.v). *)
From Coquelicot Require Import Coquelicot.
From Compute Require Import Proofs.C09_base Proofs.C09 Proofs.C09_erf_base.
Open Scope R_scope.
Lemma erf_err_part4 : forall x, 3 / 1 - 1 / 1 <= x <= 3 / 1 + 1 / 1 -> Rabs (erf_err x) <= 15e-8.
Proof. erf_range 3%Z 1%Z 12%nat. Qed.
Lemma erf_err_part5 : forall x, 5 / 1 - 1 / 1 <= x <= 5 / 1 + 1 / 1 -> Rabs (erf_err x) <= 15e-8.
Proof. erf_range 5%Z 1%Z 12%nat. Qed.
