(** * C10 (tape, part 5) — Adam and SGD with the [reverse] tape follow the TRUE gradient.

    The optimiser theorems of Proofs/C10.v are parametric in the gradient function.  Here it is
    instantiated by the tape model ([tape_gradient]: plain; [tape_gradient_la]: Nesterov's
    look-ahead variant) and the tape theorems are used: for every covered objective program, as
    long as the points at which the gradient is evaluated stay in [smooth_at], every iterate is the
    published recurrence driven by ANY function [G] that returns the vector of partial derivatives
    of the program's denotation at smooth points (such a [G] is unique there). *)
From Coq Require Import List Arith ZArith Bool Lia Reals Lra.
From Coquelicot Require Import Coquelicot.
From Compute Require Import Base.Ops Base.ListMat Base.Tape Model.Optim Spec.Optim Spec.Autodiff Proofs.C10
  Proofs.C10_tape Proofs.C10_tape_den Proofs.C10_tape_grad Proofs.C10_tape_la.
Import ListNotations.
Local Open Scope R_scope.

Lemma true_grad_unique e data x g g' : true_grad e data x g -> true_grad e data x g' -> g = g'.
Proof.
  intros [L H] [L' H']. apply (nth_ext g g' 0 0); [lia|].
  intros i Hi. rewrite L in Hi.
  pose proof (is_derive_unique _ _ _ (H i Hi)) as E1. pose proof (is_derive_unique _ _ _ (H' i Hi)) as E2.
  rewrite <- E1, <- E2. reflexivity.
Qed.

Lemma tape_grad_length e data x g : tape_grad RO e data x = Some g -> length g = length x.
Proof.
  unfold tape_grad.
  destruct (add_vars_spec x empty_tape eq_refl I) as (Hps & _).
  destruct (add_vars RO empty_tape x) as [ps tp]. cbn [fst tlen empty_tape] in Hps.
  destruct (eval RO e ps [] data tp) as [[r tp']|]; cbn [bind]; [|discriminate].
  intros [= <-]. unfold wrt. rewrite map_length, Hps. unfold var. rewrite combine_length, seq_length. lia.
Qed.
Lemma tape_gradient_len e data x : length (tape_gradient e data x) = length x.
Proof.
  unfold tape_gradient. destruct (tape_grad RO e data x) as [g|] eqn:E.
  - exact (tape_grad_length _ _ _ _ E).
  - apply repeat_length.
Qed.
Lemma tape_grad_la_length e data x g : tape_grad_la RO e data x = Some g -> length g = length x.
Proof.
  unfold tape_grad_la.
  destruct (add_vars_spec x empty_tape eq_refl I) as (Hps & _).
  destruct (add_vars RO empty_tape x) as [ps tp]. cbn [fst tlen empty_tape] in Hps.
  pose proof (la_fold ps [] tp) as HF. unfold la_step in HF. rewrite HF. clear HF. cbn [app].
  assert (Lf : forall (l : list rvar) t, length (fst (la_push t l)) = length l).
  { induction l as [|pv l IH]; intros t; cbn [la_push]; [reflexivity|].
    specialize (IH (pushed t (snd pv) (snd pv) 1 0)).
    destruct (la_push (pushed t (snd pv) (snd pv) 1 0) l). cbn [fst length] in *. lia. }
  specialize (Lf ps tp). destruct (la_push tp ps) as [fps tp1]. cbn [fst snd] in *.
  destruct (eval RO e fps [] data tp1) as [[r tp']|]; cbn [bind]; [|discriminate].
  intros [= <-]. unfold wrt. rewrite map_length. unfold var in *. rewrite Lf, Hps, combine_length, seq_length. lia.
Qed.
Lemma tape_gradient_la_len e data x : length (tape_gradient_la e data x) = length x.
Proof.
  unfold tape_gradient_la. destruct (tape_grad_la RO e data x) as [g|] eqn:E.
  - exact (tape_grad_la_length _ _ _ _ E).
  - apply repeat_length.
Qed.
Lemma tape_gradient_sgd_len b e data x : length (tape_gradient_sgd b e data x) = length x.
Proof. destruct b; [apply tape_gradient_la_len|apply tape_gradient_len]. Qed.

(** ** the tape gradient IS the gradient *)
Theorem tape_gradient_true e data x :
  covered e -> smooth_at e data x [] -> true_grad e data x (tape_gradient e data x).
Proof.
  intros Hc Hs. destruct (tape_grad_sound e data x Hc Hs) as (g & E & L & H).
  unfold tape_gradient. rewrite E. split; assumption.
Qed.
Theorem tape_gradient_la_true e data x :
  covered e -> smooth_at e data x [] -> true_grad e data x (tape_gradient_la e data x).
Proof.
  intros Hc Hs. destruct (tape_grad_la_sound e data x Hc Hs) as (g & E & L & H).
  unfold tape_gradient_la. rewrite E. split; assumption.
Qed.
Theorem tape_gradient_sgd_true b e data x :
  covered e -> smooth_at e data x [] -> true_grad e data x (tape_gradient_sgd b e data x).
Proof. destruct b; [apply tape_gradient_la_true|apply tape_gradient_true]. Qed.

(** ** two gradient functions that agree along the run give the same run *)
Section Ext.
  Context {T : Type} (O : Ops T).
  Variables g G : list T -> list T.

  Lemma adam_iter_ext (h : adam_hp (T:=T)) th0 : forall k,
    (forall j, (j < k)%nat -> g (adam_theta O G h j th0) = G (adam_theta O G h j th0)) ->
    adam_iter O g h k th0 = adam_iter O G h k th0.
  Proof.
    induction k as [|k IH]; intros H; [reflexivity|].
    cbn [adam_iter]. rewrite IH by (intros j Hj; apply H; lia).
    unfold adam_next. pose proof (H k ltac:(lia)) as Hk. unfold adam_theta in Hk. rewrite Hk. reflexivity.
  Qed.

  Lemma sgd_iter_ext (h : sgd_hp (T:=T)) th0 : forall k,
    (forall j, (j < k)%nat ->
       g (sgd_at O h (fst (sgd_iter O G h j th0)) (snd (sgd_iter O G h j th0))) =
       G (sgd_at O h (fst (sgd_iter O G h j th0)) (snd (sgd_iter O G h j th0)))) ->
    sgd_iter O g h k th0 = sgd_iter O G h k th0.
  Proof.
    induction k as [|k IH]; intros H; [reflexivity|].
    cbn [sgd_iter]. rewrite IH by (intros j Hj; apply H; lia).
    unfold sgd_next. rewrite (H k) by lia. reflexivity.
  Qed.
End Ext.

(** ** Adam *)
Section AdamTrue.
  Variables (e : expr R) (data : list (list R)) (G : list R -> list R).
  Hypothesis Hcov : covered e.
  Hypothesis HG : forall x, smooth_at e data x [] -> true_grad e data x (G x).
  Variable h : adam_hp (T:=R).

  Lemma adam_tape_iter k th0 :
    (forall j, (j < k)%nat -> smooth_at e data (adam_theta RO G h j th0) []) ->
    forall j, (j <= k)%nat -> adam_theta RO (tape_gradient e data) h j th0 = adam_theta RO G h j th0.
  Proof.
    intros Hs j Hj. unfold adam_theta. f_equal. apply adam_iter_ext.
    intros i Hi. apply (true_grad_unique e data (adam_theta RO G h i th0)).
    - apply tape_gradient_true; [exact Hcov|]. apply Hs. lia.
    - apply HG. apply Hs. lia.
  Qed.

  (** the complete description of a run, against the true gradient, with the meaning of the stop *)
  Theorem adam_run_true_gradient k th0 :
    (forall j, (j < k)%nat -> smooth_at e data (adam_theta RO G h j th0) []) ->
    exists j, (j <= k)%nat /\
      adam RO (tape_gradient e data) h k th0 = adam_theta RO G h j th0 /\
      (forall i, (1 <= i < j)%nat ->
         converged RO (adam_theta RO G h i th0) (adam_theta RO G h (i - 1) th0) = false) /\
      ((j < k)%nat -> (1 <= j)%nat /\
         forall i, (i < length th0)%nat ->
           Rabs (nth i (adam_theta RO G h j th0) 0 - nth i (adam_theta RO G h (j - 1) th0) 0)
           < feps RO * change_scale (nth i (adam_theta RO G h j th0) 0) (nth i (adam_theta RO G h (j - 1) th0) 0)).
  Proof.
    intros Hs.
    destruct (adam_run RO (tape_gradient e data) (tape_gradient_len e data) h k th0) as (j & Hj & Heq & Hno & Hstop).
    pose proof (adam_tape_iter k th0 Hs) as Hext.
    exists j. split; [exact Hj|]. split; [rewrite Heq; apply Hext; exact Hj|]. split.
    - intros i Hi. specialize (Hno i Hi). unfold adam_flag in Hno. rewrite !Hext in Hno by lia. exact Hno.
    - intros Hlt. destruct (Hstop Hlt) as [H1 Hf]. split; [exact H1|].
      unfold adam_flag in Hf. rewrite !Hext in Hf by lia.
      destruct (adam_iter_len RO (tape_gradient e data) (tape_gradient_len e data) h j th0) as (Lj & _).
      destruct (adam_iter_len RO (tape_gradient e data) (tape_gradient_len e data) h (j - 1) th0) as (Lj1 & _).
      fold (adam_theta RO (tape_gradient e data) h j th0) in Lj.
      fold (adam_theta RO (tape_gradient e data) h (j - 1) th0) in Lj1.
      rewrite Hext in Lj, Lj1 by lia.
      assert (Hlen : length (adam_theta RO G h j th0) = length (adam_theta RO G h (j - 1) th0)) by lia.
      intros i Hi. apply (proj1 (converged_iff _ _ Hlen) Hf). lia.
  Qed.

  Theorem adam_follows_true_gradient k th0 :
    (forall j, (j < k)%nat -> smooth_at e data (adam_theta RO G h j th0) []) ->
    (forall j, (1 <= j < k)%nat ->
       converged RO (adam_theta RO G h j th0) (adam_theta RO G h (j - 1) th0) = false) ->
    adam RO (tape_gradient e data) h k th0 = adam_theta RO G h k th0.
  Proof.
    intros Hs Hno. pose proof (adam_tape_iter k th0 Hs) as Hext.
    rewrite (adam_is_recurrence RO (tape_gradient e data) (tape_gradient_len e data) h k th0).
    - apply Hext. lia.
    - intros j Hj. unfold adam_flag. rewrite !Hext by lia. apply Hno. exact Hj.
  Qed.
End AdamTrue.

(** ** SGD (plain, momentum, Nesterov) *)
Section SgdTrue.
  Variables (e : expr R) (data : list (list R)) (G : list R -> list R).
  Hypothesis Hcov : covered e.
  Hypothesis HG : forall x, smooth_at e data x [] -> true_grad e data x (G x).
  Variable h : sgd_hp (T:=R).

  (** the point at which update [j+1] evaluates the gradient *)
  Definition sgd_eval_point (j : nat) (th0 : list R) : list R :=
    sgd_at RO h (fst (sgd_iter RO G h j th0)) (snd (sgd_iter RO G h j th0)).

  Lemma sgd_tape_iter k th0 :
    (forall j, (j < k)%nat -> smooth_at e data (sgd_eval_point j th0) []) ->
    forall j, (j <= k)%nat ->
      sgd_theta RO (tape_gradient_sgd (s_nesterov h) e data) h j th0 = sgd_theta RO G h j th0.
  Proof.
    intros Hs j Hj. unfold sgd_theta. f_equal. apply sgd_iter_ext.
    intros i Hi. apply (true_grad_unique e data (sgd_eval_point i th0)).
    - apply tape_gradient_sgd_true; [exact Hcov|]. apply Hs. lia.
    - apply HG. apply Hs. lia.
  Qed.

  Theorem sgd_run_true_gradient k th0 :
    (forall j, (j < k)%nat -> smooth_at e data (sgd_eval_point j th0) []) ->
    exists j, (j <= k)%nat /\
      sgd RO (tape_gradient_sgd (s_nesterov h) e data) h k th0 = sgd_theta RO G h j th0 /\
      (forall i, (1 <= i < j)%nat ->
         converged RO (sgd_theta RO G h i th0) (sgd_theta RO G h (i - 1) th0) = false) /\
      ((j < k)%nat -> (1 <= j)%nat /\
         forall i, (i < length th0)%nat ->
           Rabs (nth i (sgd_theta RO G h j th0) 0 - nth i (sgd_theta RO G h (j - 1) th0) 0)
           < feps RO * change_scale (nth i (sgd_theta RO G h j th0) 0) (nth i (sgd_theta RO G h (j - 1) th0) 0)).
  Proof.
    intros Hs.
    set (tg := tape_gradient_sgd (s_nesterov h) e data).
    assert (Ltg : forall x, length (tg x) = length x) by (intros x; apply tape_gradient_sgd_len).
    destruct (sgd_run RO tg Ltg h k th0) as (j & Hj & Heq & Hno & Hstop).
    pose proof (sgd_tape_iter k th0 Hs) as Hext. fold tg in Hext.
    exists j. split; [exact Hj|]. split; [rewrite Heq; apply Hext; exact Hj|]. split.
    - intros i Hi. specialize (Hno i Hi). unfold sgd_flag in Hno. rewrite !Hext in Hno by lia. exact Hno.
    - intros Hlt. destruct (Hstop Hlt) as [H1 Hf]. split; [exact H1|].
      unfold sgd_flag in Hf. rewrite !Hext in Hf by lia.
      destruct (sgd_iter_len RO tg Ltg h j th0) as (Lj & _).
      destruct (sgd_iter_len RO tg Ltg h (j - 1) th0) as (Lj1 & _).
      fold (sgd_theta RO tg h j th0) in Lj. fold (sgd_theta RO tg h (j - 1) th0) in Lj1.
      rewrite Hext in Lj, Lj1 by lia.
      assert (Hlen : length (sgd_theta RO G h j th0) = length (sgd_theta RO G h (j - 1) th0)) by lia.
      intros i Hi. apply (proj1 (converged_iff _ _ Hlen) Hf). lia.
  Qed.

  Theorem sgd_follows_true_gradient k th0 :
    (forall j, (j < k)%nat -> smooth_at e data (sgd_eval_point j th0) []) ->
    (forall j, (1 <= j < k)%nat ->
       converged RO (sgd_theta RO G h j th0) (sgd_theta RO G h (j - 1) th0) = false) ->
    sgd RO (tape_gradient_sgd (s_nesterov h) e data) h k th0 = sgd_theta RO G h k th0.
  Proof.
    intros Hs Hno. pose proof (sgd_tape_iter k th0 Hs) as Hext.
    rewrite (sgd_is_recurrence RO _ (tape_gradient_sgd_len (s_nesterov h) e data) h k th0).
    - apply Hext. lia.
    - intros j Hj. unfold sgd_flag. rewrite !Hext by lia. apply Hno. exact Hj.
  Qed.
End SgdTrue.

(** ** the hypotheses are satisfiable: a non-trivial program, smooth everywhere, with let-sharing *)
Definition example_prog : expr R :=
  (* let v = p0 - 3 in v * v + exp (p1) * v  +  p1.powi(2) *)
  ELet (ESubC (EPar 0) (CLit 3))
       (EAdd (EAdd (EMul (EVar 0) (EVar 0)) (EMul (EFn UExp (EPar 1)) (EVar 0))) (EPowi (EPar 1) 2)).
Lemma example_covered : covered example_prog.
Proof. cbn. repeat split; lia. Qed.
Lemma example_smooth (x y : R) : smooth_at example_prog [] [x; y] [].
Proof. cbn. repeat split; try lia; try discriminate. Qed.
Lemma example_den (x y : R) : den example_prog [] [x; y] [] = (x - 3) * (x - 3) + exp y * (x - 3) + y * y.
Proof.
  cbn [example_prog den nth cden cval uden].
  replace (powerRZ y 2) with (y * y) by (unfold powerRZ; simpl; ring).
  ring.
Qed.
(** ... and [G := tape_gradient e data] meets the hypothesis on [G] for every covered program *)
Lemma tape_gradient_is_a_G e data : covered e ->
  forall x, smooth_at e data x [] -> true_grad e data x (tape_gradient e data x).
Proof. intros Hc x. apply tape_gradient_true. exact Hc. Qed.
