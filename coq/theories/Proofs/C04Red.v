(** Proofs for C04, part 3: the reductions equal their mathematical definition on the reals, for every length;
    the NaN-seeded maximum; the overflow-safety obligation of log-sum-exp. *)
From Coq Require Import List Arith Bool ZArith Reals Lra Lia Floats.
From Compute Require Import Base.Ops Base.ListMat Model.Reduce Model.Broadcast Model.Vops Spec.Vops Proofs.C04.
Import ListNotations.
Local Open Scope R_scope.

(** ** sum, dot, norm, prod *)
Lemma fold_left_add_R (l : list R) (s : R) : fold_left (add RO) l s = s + Rsum l.
Proof.
  revert s. induction l as [|a l IH]; intros s; cbn [fold_left Rsum fold_right].
  - lra.
  - rewrite IH. cbn [add RO]. unfold Rsum. lra.
Qed.

Lemma sum8_R fuel (s : R) (x : list R) : (length x < 8 * fuel)%nat -> sum8 RO fuel s x = s + Rsum x.
Proof.
  revert s x. induction fuel as [|fuel IH]; intros s x Hl; [lia|].
  destruct x as [|x0 [|x1 [|x2 [|x3 [|x4 [|x5 [|x6 [|x7 x']]]]]]]];
    try (cbn [sum8]; apply fold_left_add_R).
  cbn [sum8]. rewrite IH by (cbn [length] in Hl; lia).
  cbn [add RO Rsum fold_right]. fold (Rsum x'). lra.
Qed.

Lemma sum_R (x : list R) : Reduce.sum RO x = Rsum x.
Proof. unfold Reduce.sum. rewrite sum8_R by lia. cbn [zero RO]. lra. Qed.

Lemma dot8_R fuel (s : R) (x y : list R) :
  (length x < 8 * fuel)%nat -> dot8 RO fuel s x y = s + Rdot x y.
Proof.
  revert s x y. induction fuel as [|fuel IH]; intros s x y Hl; [lia|].
  destruct x as [|x0 [|x1 [|x2 [|x3 [|x4 [|x5 [|x6 [|x7 x']]]]]]]];
    try (cbn [dot8]; apply fold_left_add_R).
  destruct y as [|y0 [|y1 [|y2 [|y3 [|y4 [|y5 [|y6 [|y7 y']]]]]]]];
    try (cbn [dot8]; apply fold_left_add_R).
  cbn [dot8]. rewrite IH by (cbn [length] in Hl; lia).
  unfold Rdot. cbn [map2 add mul RO Rsum fold_right]. fold (Rsum (map2 Rmult x' y')). lra.
Qed.

Lemma dot_raw_R (x y : list R) : dot_raw RO x y = Rdot x y.
Proof. unfold dot_raw. rewrite dot8_R by lia. cbn [zero RO]. lra. Qed.

Lemma dot_R (x y : list R) :
  Reduce.dot RO x y = if (length x =? length y)%nat then Some (Rdot x y) else None.
Proof. unfold Reduce.dot. rewrite dot_raw_R. reflexivity. Qed.

Lemma norm_R (x : list R) : Reduce.norm RO x = R_sqrt.sqrt (Rdot x x).
Proof. unfold Reduce.norm. rewrite dot_raw_R. reflexivity. Qed.

(** sum_i x_i^2 is what [Rdot x x] is *)
Lemma Rdot_self (x : list R) : Rdot x x = Rsum (map (fun a => a * a) x).
Proof. unfold Rdot. induction x as [|a x IH]; cbn [map2 map Rsum fold_right]; [reflexivity|]. unfold Rsum in IH. rewrite IH. reflexivity. Qed.

Lemma fold_left_mul_R (l : list R) (s : R) : fold_left (mul RO) l s = s * Rprod l.
Proof.
  revert s. induction l as [|a l IH]; intros s; cbn [fold_left Rprod fold_right].
  - lra.
  - rewrite IH. cbn [mul RO]. unfold Rprod. ring.
Qed.
Lemma prod_R (x : list R) : Reduce.prod RO x = Rprod x.
Proof. unfold Reduce.prod. rewrite fold_left_mul_R. cbn [one RO]. lra. Qed.

(** ** the NaN-seeded maximum *)
Section MaxAny.
  Context {T : Type} (O : Ops T).
  (** on any carrier: the literal fold from a NaN seed is the model's [vmax] on a non-empty slice *)
  Lemma max_seeded_vmax (seed x0 : T) (xs : list T) :
    is_nan O seed = true -> max_seeded O seed (x0 :: xs) = vmax O (x0 :: xs).
  Proof. intros H. unfold max_seeded, vmax. cbn [fold_left]. unfold fmax at 2. rewrite H. reflexivity. Qed.
  Lemma max_seeded_nil (seed : T) : max_seeded O seed [] = seed.
  Proof. reflexivity. Qed.
End MaxAny.

(** the seed [0/0] is a NaN on binary64 (whatever the libm table) *)
Lemma nan_is_nan_FO tbl : is_nan (FO tbl) (nan_ (FO tbl)) = true.
Proof. vm_compute. reflexivity. Qed.

Lemma is_nan_R (x : R) : is_nan RO x = false.
Proof. unfold is_nan. cbn [eqb RO]. unfold Reqb. destruct (Req_EM_T x x); [reflexivity|congruence]. Qed.

Lemma fmax_R (x y : R) : fmax RO x y = Rmax x y.
Proof.
  unfold fmax. rewrite !is_nan_R. cbn [ltb RO]. unfold Rltb, Rmax.
  destruct (Rlt_dec x y); destruct (Rle_dec x y); lra.
Qed.

Lemma fold_left_fmax_R (xs : list R) (x0 : R) : is_max (fold_left (fmax RO) xs x0) (x0 :: xs).
Proof.
  revert x0. induction xs as [|a xs IH]; intros x0.
  - cbn [fold_left]. split; [left; reflexivity|]. intros x [<-|[]]. lra.
  - cbn [fold_left]. rewrite fmax_R. destruct (IH (Rmax x0 a)) as [Hin Hge]. split.
    + destruct Hin as [Hin|Hin].
      * assert (Hc : Rmax x0 a = x0 \/ Rmax x0 a = a) by (apply Rmax_case; auto).
        rewrite <- Hin. destruct Hc as [Hc|Hc]; rewrite Hc; [left|right; left]; reflexivity.
      * right; right; exact Hin.
    + intros x [<-|[<-|Hx]].
      * pose proof (Hge (Rmax x0 a) (or_introl eq_refl)). pose proof (Rmax_l x0 a). lra.
      * pose proof (Hge (Rmax x0 a) (or_introl eq_refl)). pose proof (Rmax_r x0 a). lra.
      * apply Hge. right; exact Hx.
Qed.

Lemma vmax_R (x : list R) : x <> [] -> is_max (vmax RO x) x.
Proof. destruct x as [|x0 xs]; [congruence|]. intros _. apply fold_left_fmax_R. Qed.

(** ** log-sum-exp *)
Lemma Rsum_map_exp_pos (x : list R) : x <> [] -> 0 < Rsum (map exp x).
Proof.
  destruct x as [|a x]; [congruence|]. intros _. cbn [map Rsum fold_right].
  assert (H : 0 <= fold_right Rplus 0 (map exp x)).
  { induction x as [|b x IH]; cbn [map fold_right]; [lra|]. pose proof (exp_pos b). lra. }
  pose proof (exp_pos a). lra.
Qed.

Lemma shifted_exp_sum_R (m : R) (x : list R) :
  shifted_exp_sum RO m x = exp (- m) * Rsum (map exp x).
Proof.
  unfold shifted_exp_sum. rewrite fold_left_add_R. cbn [neg zero RO].
  replace (- 0 + Rsum (map (fun v : R => f1 RO Exp (sub RO v m)) x)) with (Rsum (map (fun v => exp (v - m)) x))
    by (cbn [f1 RO Rf1 sub]; lra).
  induction x as [|a x IH]; cbn [map Rsum fold_right]; [lra|].
  unfold Rsum in IH. rewrite IH. unfold Rminus. rewrite exp_plus. ring.
Qed.

(** the identity holds for ANY shift [m]; the code's shift is the maximum (used for the safety statement below) *)
Lemma logsumexp_R (x : list R) : x <> [] -> logsumexp RO x = lse x.
Proof.
  intros Hne. unfold logsumexp, lse. rewrite shifted_exp_sum_R.
  cbn [add f1 RO Rf1]. rewrite ln_mult by (try apply exp_pos; apply Rsum_map_exp_pos; exact Hne).
  rewrite ln_exp. lra.
Qed.

Lemma ofN_R (n : nat) : ofN RO n = INR n.
Proof. unfold ofN. cbn [ofZ RO]. symmetry. apply INR_IZR_INZ. Qed.

Lemma logmeanexp_R (x : list R) : x <> [] -> logmeanexp RO x = lme x.
Proof.
  intros Hne. unfold logmeanexp, lme. rewrite shifted_exp_sum_R, ofN_R.
  assert (Hn : 0 < INR (length x)).
  { apply lt_0_INR. destruct x; [congruence|cbn [length]; lia]. }
  pose proof (Rsum_map_exp_pos x Hne) as Hs.
  cbn [add div f1 RO Rf1].
  replace (exp (- vmax RO x) * Rsum (map exp x) / INR (length x))
    with (exp (- vmax RO x) * (Rsum (map exp x) / INR (length x))) by (field; lra).
  rewrite ln_mult; [rewrite ln_exp; lra|apply exp_pos|].
  apply Rdiv_lt_0_compat; assumption.
Qed.

(** overflow safety: every exponent handed to [exp] is <= 0 and the sum handed to [ln] lies in [1, n] *)
Lemma logsumexp_safe (x : list R) :
  x <> [] ->
  let m := vmax RO x in
  (forall e, In e x -> sub RO e m <= 0) /\
  1 <= shifted_exp_sum RO m x <= INR (length x).
Proof.
  intros Hne m. destruct (vmax_R x Hne) as [Hin Hge]. fold m in Hin, Hge.
  split.
  - intros e He. cbn [sub RO]. specialize (Hge e He). lra.
  - unfold shifted_exp_sum. rewrite fold_left_add_R. cbn [neg zero RO].
    set (g := fun v : R => f1 RO Exp (sub RO v m)).
    assert (Hle : forall l, (forall e, In e l -> e <= m) -> 0 <= Rsum (map g l) <= INR (length l)).
    { induction l as [|a l IH]; intros Hl.
      - cbn. lra.
      - cbn [map Rsum fold_right length]. fold (Rsum (map g l)). rewrite S_INR.
        destruct (IH (fun e He => Hl e (or_intror He))) as [I0 I1].
        assert (0 < g a <= 1).
        { unfold g. cbn [f1 RO Rf1 sub]. split; [apply exp_pos|].
          rewrite <- exp_0. destruct (Req_dec (a - m) 0) as [->|Hn]; [lra|].
          left. apply exp_increasing. pose proof (Hl a (or_introl eq_refl)). lra. }
        lra. }
    split.
    + (* the maximum itself contributes exp 0 = 1 *)
      assert (Hone : forall l, In m l -> (forall e, In e l -> e <= m) -> 1 <= Rsum (map g l)).
      { induction l as [|a l IH]; intros Hm Hl; [destruct Hm|].
        cbn [map Rsum fold_right]. fold (Rsum (map g l)).
        destruct Hm as [->|Hm].
        - assert (g m = 1) by (unfold g; cbn [f1 RO Rf1 sub]; replace (m - m) with 0 by lra; apply exp_0).
          destruct (Hle l (fun e He => Hl e (or_intror He))). lra.
        - specialize (IH Hm (fun e He => Hl e (or_intror He))).
          assert (0 < g a) by (unfold g; cbn [f1 RO Rf1 sub]; apply exp_pos). lra. }
      specialize (Hone x Hin Hge). lra.
    + destruct (Hle x Hge). lra.
Qed.

(** ** infinity norms *)
Lemma inf_norm_closed (x : list R) (nrows : nat) :
  inf_norm RO x nrows =
  match is_matrix (length x) nrows with
  | Some ncols => Some (vmax RO (abs_row_sums x nrows ncols))
  | None => None
  end.
Proof.
  unfold inf_norm, abs_row_sums. destruct (is_matrix (length x) nrows) as [ncols|]; [|reflexivity].
  cbn [bind]. f_equal. f_equal. apply map_ext. intros i.
  rewrite fold_left_add_R. cbn [zero RO abs]. lra.
Qed.

(** acceptance: a non-zero row count that divides the length gives the largest absolute row sum *)
Lemma inf_norm_accepts (x : list R) (nrows ncols : nat) :
  nrows <> 0%nat -> length x = (nrows * ncols)%nat ->
  exists r, inf_norm RO x nrows = Some r /\ is_max r (abs_row_sums x nrows ncols).
Proof.
  intros Hn Hl. rewrite inf_norm_closed. unfold is_matrix.
  destruct nrows as [|k]; [congruence|].
  assert (Hd : (length x / S k = ncols)%nat).
  { rewrite Hl, Nat.mul_comm. apply Nat.div_mul. lia. }
  rewrite Hd. rewrite (proj2 (Nat.eqb_eq _ _)) by lia.
  eexists. split; [reflexivity|]. apply vmax_R.
  unfold abs_row_sums. cbn [seq map]. congruence.
Qed.

(** rejection: zero rows, or a row count that does not divide the length *)
Lemma inf_norm_rejects (x : list R) (nrows : nat) :
  nrows = 0%nat \/ (length x mod nrows <> 0)%nat -> inf_norm RO x nrows = None.
Proof.
  intros H. rewrite inf_norm_closed. unfold is_matrix. destruct nrows as [|k]; [reflexivity|].
  destruct H as [H|H]; [discriminate|].
  destruct (Nat.eqb_spec (S k * (length x / S k)) (length x)) as [E|E]; [|reflexivity].
  exfalso. apply H. rewrite <- E, Nat.mul_comm. apply Nat.mod_mul. lia.
Qed.

(** [Matrix::inf_norm] on a well-formed matrix: same value *)
Lemma mat_inf_norm_R (m : mat R) :
  wf_mat m ->
  exists r, mat_inf_norm RO m = Some r /\ is_max r (abs_row_sums (dat m) (nr m) (nc m)).
Proof.
  intros Hwf. unfold mat_inf_norm.
  assert (E : mat_map RO UAbs m = Some (mkmat (nr m) (nc m) (map Rabs (dat m)))).
  { unfold mat_map, mat_of, matrix_new, new_ok. destruct Hwf as (Hr & Hc & Hl).
    rewrite (proj2 (Nat.ltb_lt _ _) Hr), (proj2 (Nat.ltb_lt _ _) Hc).
    rewrite vmap_map, map_length. rewrite (proj2 (Nat.eqb_eq _ _)) by lia. reflexivity. }
  rewrite E. cbn [bind nr nc dat].
  assert (E2 : map (fun i => Reduce.sum RO (row_of (map Rabs (dat m)) (nc m) i)) (seq 0 (nr m))
               = abs_row_sums (dat m) (nr m) (nc m)).
  { unfold abs_row_sums. apply map_ext. intros i. rewrite sum_R. f_equal.
    unfold row_of. rewrite skipn_map, firstn_map. reflexivity. }
  rewrite E2. eexists. split; [reflexivity|]. apply vmax_R.
  destruct Hwf as (Hr & _). unfold abs_row_sums. destruct (nr m); [lia|]. cbn [seq map]. congruence.
Qed.

(** ** [powi] with exponents 2 and 3 on the reals: the chunk loop's products are [powi] *)
Lemma powi2_mul_R (x : R) : mul RO x x = powi RO x 2.
Proof. cbv [powi powi_pos]. cbn [mul one RO]. ring. Qed.
Lemma powi3_mul_R (x : R) : mul RO (mul RO x x) x = powi RO x 3.
Proof. cbv [powi powi_pos]. cbn [mul one RO]. ring. Qed.

Lemma vpowi_R (v : list R) (n : Z) : vpowi RO v n = map (fun x => powi RO x n) v.
Proof. apply vpowi_pointwise; intros _ x _; [apply powi2_mul_R|apply powi3_mul_R]. Qed.
