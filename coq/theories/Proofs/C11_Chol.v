(** Proofs for C11, part 2: Cholesky ([Model/Cholesky.v]): the plain sweep in exact arithmetic, the checked
    sweep ([try_cholesky], [cholesky], [Matrix::cholesky]) against the plain sweep on any carrier, and the
    reconstruction theorems (shared with C01). *)
From Coq Require Import List Arith Bool Lia Reals Lra Permutation.
From Compute Require Import Base.Ops Base.ListMat Model.Reduce Model.MatMul Model.Subst Model.Cholesky
  Spec.Factor Proofs.C05 Proofs.LinAlgBase Proofs.C11_Subst Proofs.C11_Pred.
Import ListNotations.
Local Open Scope R_scope.

Lemma nth_pad n l k : nth k (pad RO n l) 0 = nth k l 0.
Proof.
  unfold pad. destruct (Nat.lt_ge_cases k (length l)) as [H|H].
  - apply app_nth1; auto.
  - rewrite app_nth2 by lia. rewrite (nth_overflow l) by lia.
    cbn [zero RO]. destruct (Nat.lt_ge_cases (k - length l) (n - length l)).
    + apply nth_repeat.
    + apply nth_overflow. rewrite repeat_length. lia.
Qed.

Lemma pad_length n l : (length l <= n)%nat -> length (pad RO n l) = n.
Proof. intros H. unfold pad. rewrite app_length, repeat_length. lia. Qed.

(** value of one entry, whichever dot product is used *)
Lemma chol_entry_val full A Lp n i r j :
  (j <= i)%nat -> (i < n)%nat -> length r = j ->
  (forall j', (j' < i)%nat -> length (nth j' Lp []) = n) ->
  chol_entry RO full A Lp n i r j =
    let s := rsum (fun k => (if (j =? i)%nat then nth k r 0 else ent 0 Lp j k) * nth k r 0) j in
    if (j =? i)%nat then R_sqrt.sqrt (ent 0 A i i - s) else (ent 0 A i j - s) / ent 0 Lp j j.
Proof.
  intros Hji Hin Hr HL. unfold chol_entry. cbn zeta.
  set (lj := if (j =? i)%nat then r else nth j Lp []).
  assert (Hlj : (j <= length lj <= n)%nat).
  { unfold lj. destruct (Nat.eqb_spec j i); [lia|]. rewrite HL by lia. lia. }
  assert (Hs : (if full then dot_raw RO (pad RO n lj) (pad RO n r) else dot_raw RO (firstn j lj) r)
               = rsum (fun k => nth k lj 0 * nth k r 0) j).
  { destruct full.
    - rewrite dot_raw_RO by (rewrite !pad_length by lia; reflexivity).
      rewrite pad_length by lia.
      rewrite (rsum_trunc _ j n) by (try lia; intros k Hk; rewrite !nth_pad, (nth_overflow r) by lia; lra).
      apply rsum_ext. intros k Hk. rewrite !nth_pad. reflexivity.
    - rewrite dot_raw_RO by (rewrite firstn_length; lia).
      rewrite firstn_length, Nat.min_l by lia.
      apply rsum_ext. intros k Hk. rewrite nth_firstn_lt by auto. reflexivity. }
  rewrite Hs. cbn [sqrt sub div zero RO]. unfold lj, ent.
  destruct (Nat.eqb_spec j i); reflexivity.
Qed.

(** the recurrence the computed factor satisfies (both forms) *)
Definition chol_rec (A L : list (list R)) (n : nat) : Prop :=
  forall i, (i < n)%nat ->
    (forall j, (i < j)%nat -> ent 0 L i j = 0) /\
    ent 0 L i i = R_sqrt.sqrt (ent 0 A i i - rsum (fun k => ent 0 L i k * ent 0 L i k) i) /\
    (forall j, (j < i)%nat ->
       ent 0 L i j = (ent 0 A i j - rsum (fun k => ent 0 L j k * ent 0 L i k) j) / ent 0 L j j).

Lemma chol_rows_spec full A n :
  wf (chol_rows RO full A n) n /\ chol_rec A (chol_rows RO full A n) n.
Proof.
  set (g := fun (i : nat) (Lp : list (list R)) => chol_row RO full A Lp n i).
  change (chol_rows RO full A n) with (build g n).
  set (L := build g n).
  assert (Hrowdef : forall i, (i < n)%nat -> nth i L [] = g i (firstn i L)).
  { intros i Hi. unfold L. rewrite (build_nth [] g n i Hi), build_firstn by lia. reflexivity. }
  assert (Hrowlen : forall i, (i < n)%nat -> length (nth i L []) = n).
  { intros i Hi. rewrite Hrowdef by auto. unfold g, chol_row.
    apply pad_length. fold (build (fun j r => chol_entry RO full A (firstn i L) n i r j) (S i)).
    rewrite build_length. lia. }
  split; [split; [apply build_length|exact Hrowlen]|].
  intros i Hi.
  set (Lp := firstn i L).
  set (ge := fun (j : nat) (r : list R) => chol_entry RO full A Lp n i r j).
  set (row := build ge (S i)).
  assert (Hrow : forall k, ent 0 L i k = nth k row 0).
  { intros k. unfold ent. rewrite Hrowdef by auto. unfold g, chol_row. apply nth_pad. }
  assert (HLp : forall j k, (j < i)%nat -> ent 0 Lp j k = ent 0 L j k).
  { intros j k Hj. unfold ent, Lp. rewrite nth_firstn_lt by auto. reflexivity. }
  assert (HLplen : forall j', (j' < i)%nat -> length (nth j' Lp []) = n).
  { intros j' Hj'. unfold Lp. rewrite nth_firstn_lt by auto. apply Hrowlen. lia. }
  assert (Hent : forall j, (j <= i)%nat ->
            nth j row 0 =
            let s := rsum (fun k => (if (j =? i)%nat then nth k row 0 else ent 0 Lp j k) * nth k row 0) j in
            if (j =? i)%nat then R_sqrt.sqrt (ent 0 A i i - s) else (ent 0 A i j - s) / ent 0 Lp j j).
  { intros j Hj. unfold row. rewrite (build_nth 0 ge (S i) j) by lia. unfold ge at 1.
    rewrite (chol_entry_val full A Lp n i (build ge j) j Hj Hi (build_length ge j) HLplen).
    cbn zeta.
    assert (Hpre : forall k, (k < j)%nat -> nth k (build ge j) 0 = nth k (build ge (S i)) 0).
    { intros k Hk. rewrite <- (build_firstn ge (S i) j) by lia. apply nth_firstn_lt; auto. }
    assert (Hsum : rsum (fun k => (if (j =? i)%nat then nth k (build ge j) 0 else ent 0 Lp j k) * nth k (build ge j) 0) j
                 = rsum (fun k => (if (j =? i)%nat then nth k (build ge (S i)) 0 else ent 0 Lp j k) * nth k (build ge (S i)) 0) j).
    { apply rsum_ext. intros k Hk. rewrite (Hpre k Hk). reflexivity. }
    rewrite Hsum. reflexivity. }
  split; [|split].
  - intros j Hj. rewrite Hrow. apply nth_overflow. unfold row. rewrite build_length. lia.
  - rewrite Hrow, (Hent i) by lia. cbn zeta. rewrite Nat.eqb_refl.
    f_equal. f_equal. apply rsum_ext. intros k Hk. rewrite !Hrow. reflexivity.
  - intros j Hj. rewrite Hrow, (Hent j) by lia. cbn zeta.
    destruct (Nat.eqb_spec j i); [lia|].
    rewrite (HLp j j Hj). f_equal. f_equal. apply rsum_ext. intros k Hk.
    rewrite (HLp j k Hj), Hrow. reflexivity.
Qed.

(** the recurrence determines the factor: slice and Matrix forms agree on [R] *)
Lemma chol_rec_unique A L L' n :
  chol_rec A L n -> chol_rec A L' n ->
  forall i j, (i < n)%nat -> ent 0 L i j = ent 0 L' i j.
Proof.
  intros H H'.
  assert (Hrows : forall i, (i < n)%nat ->
            (forall i', (i' < i)%nat -> forall j, ent 0 L i' j = ent 0 L' i' j) ->
            forall j, ent 0 L i j = ent 0 L' i j).
  { intros i Hi IHi.
    destruct (H i Hi) as [Hz [Hd Ho]]. destruct (H' i Hi) as [Hz' [Hd' Ho']].
    assert (Hlow : forall j, (j < i)%nat -> ent 0 L i j = ent 0 L' i j).
    { intros j. induction j as [j IHj] using lt_wf_ind. intros Hj.
      rewrite (Ho j Hj), (Ho' j Hj). rewrite (IHi j Hj j).
      f_equal. f_equal. apply rsum_ext. intros k Hk.
      rewrite (IHi j Hj k), (IHj k Hk) by lia. reflexivity. }
    intros j. destruct (lt_eq_lt_dec j i) as [[Hj|Hj]|Hj].
    - apply Hlow; auto.
    - subst j. rewrite Hd, Hd'. f_equal. f_equal. apply rsum_ext. intros k Hk.
      rewrite (Hlow k Hk). reflexivity.
    - rewrite Hz, Hz' by auto. reflexivity. }
  intros i. induction i as [i IHi] using lt_wf_ind. intros j Hi.
  apply Hrows; auto. intros i' Hi' j'. apply IHi; lia.
Qed.

Lemma wf_ext_eq (M M' : list (list R)) n :
  wf M n -> wf M' n -> (forall i j, (i < n)%nat -> (j < n)%nat -> ent 0 M i j = ent 0 M' i j) -> M = M'.
Proof.
  intros [Hl Hr] [Hl' Hr'] He. apply (nth_ext M M' [] []); [lia|].
  intros i Hi. rewrite Hl in Hi. apply (nth_ext _ _ 0 0); [rewrite Hr, Hr'; auto|].
  intros j Hj. rewrite Hr in Hj by auto. apply He; auto.
Qed.

Lemma chol_rows_full_irrelevant A n : chol_rows RO true A n = chol_rows RO false A n.
Proof.
  destruct (chol_rows_spec true A n) as [Hw Hr]. destruct (chol_rows_spec false A n) as [Hw' Hr'].
  apply (wf_ext_eq _ _ n Hw Hw'). intros i j Hi _. apply (chol_rec_unique A _ _ n Hr Hr'); auto.
Qed.

(** reconstruction from the recurrence, given a positive diagonal *)
Lemma chol_rec_reconstructs A L n :
  chol_rec A L n -> (forall i, (i < n)%nat -> 0 < ent 0 L i i) ->
  forall i j, (i < n)%nat -> (j <= i)%nat ->
    rsum (fun k => ent 0 L i k * ent 0 L j k) (S j) = ent 0 A i j.
Proof.
  intros H Hpos i j Hi Hj. destruct (H i Hi) as [Hz [Hd Ho]]. cbn [rsum].
  destruct (Nat.eq_dec j i) as [->|Hne].
  - set (x := ent 0 A i i - rsum (fun k => ent 0 L i k * ent 0 L i k) i) in *.
    assert (Hx : 0 <= x).
    { destruct (Rle_lt_dec 0 x); auto. exfalso.
      specialize (Hpos i Hi). rewrite Hd, sqrt_neg_0 in Hpos by lra. lra. }
    rewrite Hd, (sqrt_sqrt x Hx). unfold x. lra.
  - assert (Hji : (j < i)%nat) by lia.
    assert (Hjj : ent 0 L j j <> 0) by (specialize (Hpos j ltac:(lia)); lra).
    rewrite (Ho j Hji).
    rewrite (rsum_ext (fun k => ent 0 L i k * ent 0 L j k) (fun k => ent 0 L j k * ent 0 L i k) j)
      by (intros; lra).
    field. auto.
Qed.

(** ** any carrier: a successful checked sweep returns exactly the factor of the plain sweep, every
    diagonal entry is the square root of a pivot that passed the [d > 0] test, and conversely a row whose
    pivot passes the test is the plain row *)
Section TryChol.
  Context {T : Type} (O : Ops T).
  Local Notation z := (zero O).

  Lemma fold_append_length {X} (g : list T -> X -> T) js r0 :
    length (fold_left (fun r j => r ++ [g r j]) js r0) = (length r0 + length js)%nat.
  Proof.
    revert r0; induction js as [|j js IH]; intros r0; cbn [fold_left length]; [lia|].
    rewrite IH, app_length. cbn [length]. lia.
  Qed.

  Lemma try_step_prefix full A L n i js r0 :
    (forall j, In j js -> j <> i) ->
    fold_left (try_chol_step O full A L n i) js (Some r0) =
    Some (fold_left (fun r j => r ++ [chol_entry O full A L n i r j]) js r0).
  Proof.
    revert r0; induction js as [|j js IH]; intros r0 H; cbn [fold_left]; auto.
    unfold try_chol_step at 2. cbn [bind].
    destruct (Nat.eqb_spec j i) as [E|E]; [exfalso; apply (H j); [left; auto|auto]|].
    apply IH. intros j' Hj'. apply H. right; auto.
  Qed.

  Lemma chol_entry_diag full A L n i r :
    chol_entry O full A L n i r i = sqrt O (chol_pivot O full A n i r).
  Proof. unfold chol_entry, chol_pivot. rewrite Nat.eqb_refl. reflexivity. Qed.

  Lemma try_chol_row_some full A L n i row :
    try_chol_row O full A L n i = Some row ->
    row = chol_row O full A L n i /\
    exists d, ltb O z d = true /\ nth i row z = sqrt O d.
  Proof.
    unfold try_chol_row, chol_row. rewrite seq_S, !fold_left_app. cbn [Nat.add fold_left].
    rewrite try_step_prefix by (intros j Hj; apply in_seq in Hj; lia).
    set (r := fold_left (fun r j => r ++ [chol_entry O full A L n i r j]) (seq 0 i) []).
    assert (Hr : length r = i) by (unfold r; rewrite fold_append_length, seq_length; reflexivity).
    unfold try_chol_step. cbn [bind]. rewrite Nat.eqb_refl.
    destruct (ltb O z (chol_pivot O full A n i r)) eqn:Hd; cbn [bind]; [|discriminate].
    intros [= <-]. rewrite chol_entry_diag. split; [reflexivity|].
    exists (chol_pivot O full A n i r). split; [exact Hd|].
    unfold pad. rewrite app_nth1 by (rewrite app_length; cbn [length]; lia).
    rewrite app_nth2 by lia. rewrite Hr, Nat.sub_diag. reflexivity.
  Qed.

  Lemma try_chol_row_none full A L n i :
    try_chol_row O full A L n i = None ->
    ltb O z (chol_pivot O full A n i (fold_left (fun r j => r ++ [chol_entry O full A L n i r j]) (seq 0 i) [])) = false.
  Proof.
    unfold try_chol_row. rewrite seq_S, !fold_left_app. cbn [Nat.add fold_left].
    rewrite try_step_prefix by (intros j Hj; apply in_seq in Hj; lia).
    unfold try_chol_step. cbn [bind]. rewrite Nat.eqb_refl.
    destruct (ltb O z _); cbn [bind]; [discriminate|reflexivity].
  Qed.

  Lemma try_chol_row_complete full A L n i :
    ltb O z (chol_pivot O full A n i (fold_left (fun r j => r ++ [chol_entry O full A L n i r j]) (seq 0 i) [])) = true ->
    try_chol_row O full A L n i = Some (chol_row O full A L n i).
  Proof.
    intros Hd. unfold try_chol_row, chol_row. rewrite seq_S, !fold_left_app. cbn [Nat.add fold_left].
    rewrite try_step_prefix by (intros j Hj; apply in_seq in Hj; lia).
    unfold try_chol_step. cbn [bind]. rewrite Nat.eqb_refl, Hd. cbn [bind].
    rewrite chol_entry_diag. reflexivity.
  Qed.

  Lemma try_chol_rows_prefix full A n k L :
    fold_left (try_chol_rows_step O full A n) (seq 0 k) (Some []) = Some L ->
    L = fold_left (fun L i => L ++ [chol_row O full A L n i]) (seq 0 k) [] /\
    length L = k /\
    forall i, (i < k)%nat -> exists d, ltb O z d = true /\ ent z L i i = sqrt O d.
  Proof.
    revert L; induction k as [|k IH]; intros L.
    - cbn [seq fold_left]. intros [= <-]. repeat split; auto. intros; lia.
    - rewrite seq_S, !fold_left_app. cbn [Nat.add fold_left].
      destruct (fold_left (try_chol_rows_step O full A n) (seq 0 k) (Some [])) as [Lk|] eqn:Ek;
        unfold try_chol_rows_step at 1; cbn [bind]; [|discriminate].
      destruct (IH Lk eq_refl) as (HLk & Hlen & Hpiv).
      destruct (try_chol_row O full A Lk n k) as [row|] eqn:Erow; cbn [bind]; [|discriminate].
      intros [= <-]. destruct (try_chol_row_some _ _ _ _ _ _ Erow) as (Hrow & d & Hd & Hnth).
      split; [|split].
      + rewrite <- HLk, <- Hrow. reflexivity.
      + rewrite app_length. cbn [length]. lia.
      + intros i Hi. unfold ent. destruct (Nat.eq_dec i k) as [->|Hne].
        * exists d. split; auto. rewrite app_nth2 by lia. rewrite Hlen, Nat.sub_diag. exact Hnth.
        * rewrite app_nth1 by lia. apply Hpiv. lia.
  Qed.

  Lemma try_chol_rows_some full A n L :
    try_chol_rows O full A n = Some L ->
    L = chol_rows O full A n /\
    forall i, (i < n)%nat -> exists d, ltb O z d = true /\ ent z L i i = sqrt O d.
  Proof.
    intros H. destruct (try_chol_rows_prefix full A n n L H) as (H1 & _ & H3). split; auto.
  Qed.

  (** [try_cholesky] panics exactly when [is_symmetric] panics or answers false *)
  Lemma try_cholesky_shape a :
    match is_square (length a) with
    | None => try_cholesky O a = None
    | Some n => if is_symmetric_rows O (unflatten a n n) n
                then exists r, try_cholesky O a = Some r
                else try_cholesky O a = None
    end.
  Proof.
    unfold try_cholesky. destruct (is_square (length a)) as [n|]; cbn [bind]; auto.
    destruct (is_symmetric_rows O (unflatten a n n) n); cbn [guard bind]; eauto.
  Qed.

  (** the repaired [cholesky] either panics or returns the factor [try_cholesky] found *)
  Lemma cholesky_checked_spec a l :
    cholesky O a = Some l <-> try_cholesky O a = Some (Some l).
  Proof.
    unfold cholesky. destruct (try_cholesky O a) as [[l'|]|]; cbn [bind]; split; intros H;
      try discriminate; congruence.
  Qed.
End TryChol.

(** ** exact arithmetic: the checked sweep succeeds exactly when every pivot of the plain sweep is positive *)
Lemma Rltb_sqrt_pos d : ltb RO (zero RO) d = true -> 0 < R_sqrt.sqrt d.
Proof. cbn [ltb RO zero]. intros H. apply Rltb_true in H. apply sqrt_lt_R0. exact H. Qed.

(** the pivot of row [i] of the sweep *)
Definition piv (A L : list (list R)) (i : nat) : R :=
  ent 0 A i i - rsum (fun m => ent 0 L i m * ent 0 L i m) i.

Lemma chol_pivot_val full A n i (r : list R) :
  (i < n)%nat -> length r = i ->
  chol_pivot RO full A n i r = ent 0 A i i - rsum (fun k => nth k r 0 * nth k r 0) i.
Proof.
  intros Hi Hr. unfold chol_pivot. cbn [sub zero RO]. f_equal. destruct full.
  - rewrite dot_raw_RO by reflexivity. rewrite pad_length by lia.
    rewrite (rsum_trunc _ i n) by (try lia; intros k Hk; rewrite !nth_pad, (nth_overflow r) by lia; lra).
    apply rsum_ext. intros k Hk. rewrite !nth_pad. reflexivity.
  - rewrite dot_raw_RO by (rewrite firstn_length; lia). rewrite firstn_length, Nat.min_l by lia.
    apply rsum_ext. intros k Hk. rewrite nth_firstn_lt by auto. reflexivity.
Qed.

Lemma try_chol_rows_complete full M n :
  (forall i, (i < n)%nat -> 0 < piv M (chol_rows RO full M n) i) ->
  try_chol_rows RO full M n = Some (chol_rows RO full M n).
Proof.
  intros Hpiv.
  set (g := fun (i : nat) (Lp : list (list R)) => chol_row RO full M Lp n i).
  change (chol_rows RO full M n) with (build g n) in *.
  assert (Hk : forall k, (k <= n)%nat ->
            fold_left (try_chol_rows_step RO full M n) (seq 0 k) (Some []) = Some (build g k)).
  { induction k as [|k IH]; intros Hkn; [reflexivity|].
    rewrite seq_S, fold_left_app, IH by lia. cbn [Nat.add fold_left].
    unfold try_chol_rows_step. cbn [bind].
    rewrite try_chol_row_complete.
    - cbn [bind]. rewrite build_S. reflexivity.
    - (* the pivot the checked sweep tests is [piv] of the finished factor *)
      set (ge := fun (j : nat) (r : list R) => chol_entry RO full M (build g k) n k r j).
      change (fold_left (fun r j => r ++ [chol_entry RO full M (build g k) n k r j]) (seq 0 k) [])
        with (build ge k).
      cbn [ltb zero RO]. apply Rltb_true.
      assert (Hrowk : nth k (build g n) [] = pad RO n (build ge (S k))).
      { rewrite (build_nth [] g n k) by lia. reflexivity. }
      assert (Hent : forall m, (m < k)%nat -> ent 0 (build g n) k m = nth m (build ge k) 0).
      { intros m Hm. unfold ent. rewrite Hrowk, nth_pad. rewrite build_S.
        apply app_nth1. rewrite build_length. exact Hm. }
      rewrite (chol_pivot_val full M n k (build ge k)) by (try lia; apply build_length).
      rewrite (rsum_ext _ (fun m => ent 0 (build g n) k m * ent 0 (build g n) k m))
        by (intros m Hm; rewrite (Hent m Hm); reflexivity).
      apply (Hpiv k). lia. }
  apply (Hk n). lia.
Qed.

(** a positive diagonal of the plain factor means every pivot was positive (on R, sqrt of a
    non-positive number is 0) *)
Lemma chol_rec_diag_piv A L n i :
  chol_rec A L n -> (i < n)%nat -> 0 < ent 0 L i i -> 0 < piv A L i.
Proof.
  intros Hrec Hi Hpos. destruct (Hrec i Hi) as (_ & Hd & _). unfold piv.
  destruct (Rle_lt_dec (ent 0 A i i - rsum (fun k => ent 0 L i k * ent 0 L i k) i) 0) as [Hle|Hlt]; auto.
  rewrite Hd, sqrt_neg_0 in Hpos by exact Hle. lra.
Qed.

Lemma try_chol_rows_pos full M n L :
  try_chol_rows RO full M n = Some L ->
  L = chol_rows RO full M n /\ forall i, (i < n)%nat -> 0 < ent 0 L i i.
Proof.
  intros H. destruct (try_chol_rows_some RO full M n L H) as [HL Hd]. split; auto.
  intros i Hi. destruct (Hd i Hi) as (d & Hdp & He). cbn [zero RO] in He. rewrite He.
  apply Rltb_sqrt_pos. exact Hdp.
Qed.

(** the two dot-product forms of the checked sweep coincide on R *)
Lemma try_chol_rows_full_irrelevant M n : try_chol_rows RO true M n = try_chol_rows RO false M n.
Proof.
  assert (Hdir : forall f f', try_chol_rows RO f M n <> None -> try_chol_rows RO f' M n = try_chol_rows RO f M n).
  { intros f f' Hne. destruct (try_chol_rows RO f M n) as [L|] eqn:E; [|congruence].
    destruct (try_chol_rows_pos f M n L E) as [HL Hpos].
    assert (Heq : chol_rows RO f M n = chol_rows RO f' M n)
      by (destruct f, f'; auto; [apply chol_rows_full_irrelevant | symmetry; apply chol_rows_full_irrelevant]).
    rewrite HL, Heq. apply try_chol_rows_complete. intros i Hi.
    destruct (chol_rows_spec f' M n) as [_ Hrec].
    apply (chol_rec_diag_piv M _ n i Hrec Hi). rewrite <- Heq, <- HL. apply Hpos; auto. }
  destruct (try_chol_rows RO true M n) as [L|] eqn:Et.
  - rewrite (Hdir true false) by (rewrite Et; discriminate). auto.
  - destruct (try_chol_rows RO false M n) as [L|] eqn:Ef; auto.
    pose proof (Hdir false true ltac:(rewrite Ef; discriminate)) as H. rewrite Et, Ef in H. discriminate.
Qed.

Lemma chol_dot_form_irrelevant (A : list (list R)) n :
  chol_rows RO true A n = chol_rows RO false A n /\ try_chol_rows RO true A n = try_chol_rows RO false A n.
Proof. split; [apply chol_rows_full_irrelevant | apply try_chol_rows_full_irrelevant]. Qed.

(** ** Flat level *)

(** a successful fallible sweep: the factor of the plain sweep, with positive diagonal *)
Lemma try_cholesky_factor a l n :
  try_cholesky RO a = Some (Some l) -> (n * n)%nat = length a ->
  l = flatten (chol_rows RO false (unflatten a n n) n) /\
  length l = (n * n)%nat /\
  (forall i, (i < n)%nat -> 0 < getm l n i i).
Proof.
  intros H Hn. unfold try_cholesky in H. rewrite <- Hn, is_square_sq in H. cbn [bind] in H.
  destruct (is_symmetric_rows RO (unflatten a n n) n); cbn [guard bind] in H; [|discriminate].
  destruct (try_chol_rows RO false (unflatten a n n) n) as [L|] eqn:EL; cbn [option_map] in H; [|discriminate].
  inversion H; subst l; clear H.
  destruct (try_chol_rows_pos false _ _ _ EL) as [HL Hpos].
  destruct (chol_rows_spec false (unflatten a n n) n) as [Hw _].
  rewrite <- HL in Hw.
  split; [rewrite HL; reflexivity|]. split; [apply (wf_flatten_length _ n Hw)|].
  intros i Hi. unfold getm. rewrite (nth_flatten 0 L n i i Hw Hi Hi). apply Hpos; auto.
Qed.

(** without any symmetry assumption L.L^T reproduces the lower triangle of A *)
Lemma try_cholesky_reconstructs_lower a l n :
  try_cholesky RO a = Some (Some l) -> (n * n)%nat = length a ->
  length l = (n * n)%nat /\ lower_triangular l n /\
  (forall i, (i < n)%nat -> 0 < getm l n i i) /\
  (forall i j, (i < n)%nat -> (j <= i)%nat ->
     rsum (fun k => getm l n i k * getm l n j k) n = getm a n i j).
Proof.
  intros H Hn.
  destruct (try_cholesky_factor a l n H Hn) as (Hl & Hlen & Hpos).
  destruct (chol_rows_spec false (unflatten a n n) n) as [Hw Hrec].
  set (L := chol_rows RO false (unflatten a n n) n) in *.
  assert (Hg : forall i j, (i < n)%nat -> (j < n)%nat -> getm l n i j = ent 0 L i j)
    by (intros; subst l; apply nth_flatten; auto).
  assert (Hpos' : forall i, (i < n)%nat -> 0 < ent 0 L i i) by (intros i Hi; rewrite <- Hg by auto; auto).
  repeat split; auto.
  - intros i j Hi Hj Hij. rewrite Hg by auto. destruct (Hrec i Hi) as [Hz _]. apply Hz; auto.
  - intros i j Hi Hj.
    rewrite (rsum_trunc _ (S j) n); [|lia|].
    + rewrite (rsum_ext _ (fun k => ent 0 L i k * ent 0 L j k)) by (intros k Hk; rewrite !Hg by lia; reflexivity).
      rewrite (chol_rec_reconstructs _ L n Hrec Hpos' i j Hi Hj). apply ent_unflatten; lia.
    + intros k Hk. rewrite (Hg j k) by lia. destruct (Hrec j ltac:(lia)) as [Hz _]. rewrite Hz by lia. lra.
Qed.

(** ... and all of A when A is exactly symmetric *)
Lemma try_cholesky_reconstructs a l n :
  try_cholesky RO a = Some (Some l) -> (n * n)%nat = length a -> symmetric a n ->
  length l = (n * n)%nat /\ lower_triangular l n /\
  (forall i, (i < n)%nat -> 0 < getm l n i i) /\
  (forall i j, (i < n)%nat -> (j < n)%nat ->
     rsum (fun k => getm l n i k * getm l n j k) n = getm a n i j).
Proof.
  intros H Hn Hsym.
  destruct (try_cholesky_reconstructs_lower a l n H Hn) as (Hlen & Hlow & Hpos & Hrec).
  repeat split; auto. intros i j Hi Hj. destruct (Nat.le_gt_cases j i).
  - apply Hrec; auto.
  - rewrite (Hsym i j) by auto. rewrite <- (Hrec j i) by (auto; lia). apply rsum_ext. intros; lra.
Qed.

(** the statements for [cholesky] itself *)
Lemma chol_reconstructs a l n :
  cholesky RO a = Some l -> (n * n)%nat = length a ->
  length l = (n * n)%nat /\ lower_triangular l n /\
  (forall i, (i < n)%nat -> 0 < getm l n i i) /\
  (forall i j, (i < n)%nat -> (j <= i)%nat -> rsum (fun k => getm l n i k * getm l n j k) n = getm a n i j) /\
  (symmetric a n -> forall i j, (i < n)%nat -> (j < n)%nat ->
     rsum (fun k => getm l n i k * getm l n j k) n = getm a n i j).
Proof.
  intros H Hn. apply cholesky_checked_spec in H.
  destruct (try_cholesky_reconstructs_lower a l n H Hn) as (Hlen & Hlow & Hpos & Hrec).
  repeat split; auto. intros Hsym.
  destruct (try_cholesky_reconstructs a l n H Hn Hsym) as (_ & _ & _ & Hfull). exact Hfull.
Qed.

Lemma cholesky_shape a :
  match is_square (length a) with
  | None => cholesky RO a = None
  | Some n => if is_symmetric_rows RO (unflatten a n n) n
              then cholesky RO a = option_map flatten (try_chol_rows RO false (unflatten a n n) n)
              else cholesky RO a = None
  end.
Proof.
  unfold cholesky, try_cholesky. destruct (is_square (length a)) as [n|] eqn:Hs; cbn [bind]; auto.
  destruct (is_symmetric_rows RO (unflatten a n n) n); cbn [guard bind]; auto.
Qed.

Lemma cholesky_rejects_asymmetric a n i j :
  (n * n)%nat = length a -> (i < n)%nat -> (j < n)%nat ->
  sym_tol (getm a n i j) (getm a n j i) < Rabs (getm a n i j - getm a n j i) -> cholesky RO a = None.
Proof.
  intros Hn Hi Hj Hfar. pose proof (cholesky_shape a) as H. rewrite <- Hn, is_square_sq in H.
  rewrite (is_symmetric_rows_far _ n i j Hi Hj) in H; auto.
  rewrite !ent_unflatten by auto. exact Hfar.
Qed.

Lemma cholesky_not_square a : (forall n, (n * n)%nat <> length a) -> cholesky RO a = None.
Proof. intros H. unfold cholesky, try_cholesky. rewrite is_square_none by auto. reflexivity. Qed.

(** rejection of a non-positive pivot: if some pivot of the sweep is not positive, [cholesky] panics
    ([try_cholesky] returns [None]) — in particular no factor with a NaN or zero diagonal is ever returned *)
Lemma chol_rejects_nonpositive_pivot a n i :
  (n * n)%nat = length a -> (i < n)%nat ->
  piv (unflatten a n n) (chol_rows RO false (unflatten a n n) n) i <= 0 ->
  cholesky RO a = None /\ (try_cholesky RO a = None \/ try_cholesky RO a = Some None).
Proof.
  intros Hn Hi Hp.
  assert (Hnone : forall l, try_cholesky RO a <> Some (Some l)).
  { intros l H. destruct (try_cholesky_factor a l n H Hn) as (Hl & _ & Hpos).
    destruct (chol_rows_spec false (unflatten a n n) n) as [Hw Hrec].
    assert (0 < piv (unflatten a n n) (chol_rows RO false (unflatten a n n) n) i).
    { apply (chol_rec_diag_piv _ _ n i Hrec Hi). rewrite <- (nth_flatten 0 _ n i i Hw Hi Hi).
      rewrite <- Hl. apply Hpos; auto. }
    lra. }
  split.
  - destruct (cholesky RO a) as [l|] eqn:E; auto. apply cholesky_checked_spec in E. destruct (Hnone l E).
  - destruct (try_cholesky RO a) as [[l|]|]; auto. destruct (Hnone l eq_refl).
Qed.

(** slice form and Matrix form return the same factor (exact arithmetic) *)
Lemma matrix_cholesky_eq_slice m r :
  matrix_cholesky RO m = Some r ->
  cholesky RO (dat m) = Some (dat r) /\ nr r = nr m /\ nc r = nc m.
Proof.
  unfold matrix_cholesky. destruct (well_formed m) eqn:Hwf; cbn [guard bind]; [|discriminate].
  destruct (matrix_is_positive_definite RO m) eqn:Hpd; cbn [guard bind]; [|discriminate].
  destruct (try_chol_rows RO true (mrows m) (nc m)) as [L|] eqn:EL; cbn [bind]; [|discriminate].
  intros H. inversion H; subst r; clear H. cbn [nr nc dat].
  unfold matrix_is_positive_definite, matrix_is_symmetric in Hpd.
  apply andb_prop in Hpd. destruct Hpd as [Hsym _]. apply andb_prop in Hsym. destruct Hsym as [Hsq Hsym].
  apply Nat.eqb_eq in Hsq.
  unfold well_formed in Hwf. apply andb_prop in Hwf. destruct Hwf as [_ Hlen]. apply Nat.eqb_eq in Hlen.
  unfold mrows in *. rewrite <- Hsq in *.
  split; auto. unfold cholesky, try_cholesky. rewrite <- Hlen, is_square_sq. cbn [bind].
  rewrite Hsym. cbn [guard bind]. rewrite <- try_chol_rows_full_irrelevant, EL. reflexivity.
Qed.
