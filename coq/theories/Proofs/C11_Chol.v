(** Proofs for C11, part 2: Cholesky ([Model/Cholesky.v]) in exact arithmetic. *)
From Coq Require Import List Arith Bool Lia Reals Lra Permutation.
From Compute Require Import Base.Ops Base.ListMat Model.Reduce Model.MatMul Model.Subst Model.Cholesky
  Spec.Factor Proofs.C05 Proofs.LinAlgBase Proofs.C11_Subst.
Import ListNotations.
Local Open Scope R_scope.

Lemma nth_pad n l k : nth k (pad RO n l) 0 = nth k l 0.
Proof.
  unfold pad. destruct (Nat.lt_ge_cases k (length l)) as [H|H].
  - apply app_nth1; auto.
  - rewrite app_nth2 by lia. rewrite (nth_overflow l) by lia.
    cbn [zero RO]. destruct (Nat.lt_ge_cases (k - length l) (n - length l)).
    + apply nth_repeat.
    + apply nth_overflow. rewrite repeat_length. lia.
Qed.

Lemma pad_length n l : (length l <= n)%nat -> length (pad RO n l) = n.
Proof. intros H. unfold pad. rewrite app_length, repeat_length. lia. Qed.

(** value of one entry, whichever dot product is used *)
Lemma chol_entry_val full A Lp n i r j :
  (j <= i)%nat -> (i < n)%nat -> length r = j ->
  (forall j', (j' < i)%nat -> length (nth j' Lp []) = n) ->
  chol_entry RO full A Lp n i r j =
    let s := rsum (fun k => (if (j =? i)%nat then nth k r 0 else ent 0 Lp j k) * nth k r 0) j in
    if (j =? i)%nat then R_sqrt.sqrt (ent 0 A i i - s) else (ent 0 A i j - s) / ent 0 Lp j j.
Proof.
  intros Hji Hin Hr HL. unfold chol_entry. cbn zeta.
  set (lj := if (j =? i)%nat then r else nth j Lp []).
  assert (Hlj : (j <= length lj <= n)%nat).
  { unfold lj. destruct (Nat.eqb_spec j i); [lia|]. rewrite HL by lia. lia. }
  assert (Hs : (if full then dot_raw RO (pad RO n lj) (pad RO n r) else dot_raw RO (firstn j lj) r)
               = rsum (fun k => nth k lj 0 * nth k r 0) j).
  { destruct full.
    - rewrite dot_raw_RO by (rewrite !pad_length by lia; reflexivity).
      rewrite pad_length by lia.
      rewrite (rsum_trunc _ j n) by (try lia; intros k Hk; rewrite !nth_pad, (nth_overflow r) by lia; lra).
      apply rsum_ext. intros k Hk. rewrite !nth_pad. reflexivity.
    - rewrite dot_raw_RO by (rewrite firstn_length; lia).
      rewrite firstn_length, Nat.min_l by lia.
      apply rsum_ext. intros k Hk. rewrite nth_firstn_lt by auto. reflexivity. }
  rewrite Hs. cbn [sqrt sub div zero RO]. unfold lj, ent.
  destruct (Nat.eqb_spec j i); reflexivity.
Qed.

(** the recurrence the computed factor satisfies (both forms) *)
Definition chol_rec (A L : list (list R)) (n : nat) : Prop :=
  forall i, (i < n)%nat ->
    (forall j, (i < j)%nat -> ent 0 L i j = 0) /\
    ent 0 L i i = R_sqrt.sqrt (ent 0 A i i - rsum (fun k => ent 0 L i k * ent 0 L i k) i) /\
    (forall j, (j < i)%nat ->
       ent 0 L i j = (ent 0 A i j - rsum (fun k => ent 0 L j k * ent 0 L i k) j) / ent 0 L j j).

Lemma chol_rows_spec full A n :
  wf (chol_rows RO full A n) n /\ chol_rec A (chol_rows RO full A n) n.
Proof.
  set (g := fun (i : nat) (Lp : list (list R)) => chol_row RO full A Lp n i).
  change (chol_rows RO full A n) with (build g n).
  set (L := build g n).
  assert (Hrowdef : forall i, (i < n)%nat -> nth i L [] = g i (firstn i L)).
  { intros i Hi. unfold L. rewrite (build_nth [] g n i Hi), build_firstn by lia. reflexivity. }
  assert (Hrowlen : forall i, (i < n)%nat -> length (nth i L []) = n).
  { intros i Hi. rewrite Hrowdef by auto. unfold g, chol_row.
    apply pad_length. fold (build (fun j r => chol_entry RO full A (firstn i L) n i r j) (S i)).
    rewrite build_length. lia. }
  split; [split; [apply build_length|exact Hrowlen]|].
  intros i Hi.
  set (Lp := firstn i L).
  set (ge := fun (j : nat) (r : list R) => chol_entry RO full A Lp n i r j).
  set (row := build ge (S i)).
  assert (Hrow : forall k, ent 0 L i k = nth k row 0).
  { intros k. unfold ent. rewrite Hrowdef by auto. unfold g, chol_row. apply nth_pad. }
  assert (HLp : forall j k, (j < i)%nat -> ent 0 Lp j k = ent 0 L j k).
  { intros j k Hj. unfold ent, Lp. rewrite nth_firstn_lt by auto. reflexivity. }
  assert (HLplen : forall j', (j' < i)%nat -> length (nth j' Lp []) = n).
  { intros j' Hj'. unfold Lp. rewrite nth_firstn_lt by auto. apply Hrowlen. lia. }
  assert (Hent : forall j, (j <= i)%nat ->
            nth j row 0 =
            let s := rsum (fun k => (if (j =? i)%nat then nth k row 0 else ent 0 Lp j k) * nth k row 0) j in
            if (j =? i)%nat then R_sqrt.sqrt (ent 0 A i i - s) else (ent 0 A i j - s) / ent 0 Lp j j).
  { intros j Hj. unfold row. rewrite (build_nth 0 ge (S i) j) by lia. unfold ge at 1.
    rewrite (chol_entry_val full A Lp n i (build ge j) j Hj Hi (build_length ge j) HLplen).
    cbn zeta.
    assert (Hpre : forall k, (k < j)%nat -> nth k (build ge j) 0 = nth k (build ge (S i)) 0).
    { intros k Hk. rewrite <- (build_firstn ge (S i) j) by lia. apply nth_firstn_lt; auto. }
    assert (Hsum : rsum (fun k => (if (j =? i)%nat then nth k (build ge j) 0 else ent 0 Lp j k) * nth k (build ge j) 0) j
                 = rsum (fun k => (if (j =? i)%nat then nth k (build ge (S i)) 0 else ent 0 Lp j k) * nth k (build ge (S i)) 0) j).
    { apply rsum_ext. intros k Hk. rewrite (Hpre k Hk). reflexivity. }
    rewrite Hsum. reflexivity. }
  split; [|split].
  - intros j Hj. rewrite Hrow. apply nth_overflow. unfold row. rewrite build_length. lia.
  - rewrite Hrow, (Hent i) by lia. cbn zeta. rewrite Nat.eqb_refl.
    f_equal. f_equal. apply rsum_ext. intros k Hk. rewrite !Hrow. reflexivity.
  - intros j Hj. rewrite Hrow, (Hent j) by lia. cbn zeta.
    destruct (Nat.eqb_spec j i); [lia|].
    rewrite (HLp j j Hj). f_equal. f_equal. apply rsum_ext. intros k Hk.
    rewrite (HLp j k Hj), Hrow. reflexivity.
Qed.

(** the recurrence determines the factor: slice and Matrix forms agree on [R] *)
Lemma chol_rec_unique A L L' n :
  chol_rec A L n -> chol_rec A L' n ->
  forall i j, (i < n)%nat -> ent 0 L i j = ent 0 L' i j.
Proof.
  intros H H'.
  assert (Hrows : forall i, (i < n)%nat ->
            (forall i', (i' < i)%nat -> forall j, ent 0 L i' j = ent 0 L' i' j) ->
            forall j, ent 0 L i j = ent 0 L' i j).
  { intros i Hi IHi.
    destruct (H i Hi) as [Hz [Hd Ho]]. destruct (H' i Hi) as [Hz' [Hd' Ho']].
    assert (Hlow : forall j, (j < i)%nat -> ent 0 L i j = ent 0 L' i j).
    { intros j. induction j as [j IHj] using lt_wf_ind. intros Hj.
      rewrite (Ho j Hj), (Ho' j Hj). rewrite (IHi j Hj j).
      f_equal. f_equal. apply rsum_ext. intros k Hk.
      rewrite (IHi j Hj k), (IHj k Hk) by lia. reflexivity. }
    intros j. destruct (lt_eq_lt_dec j i) as [[Hj|Hj]|Hj].
    - apply Hlow; auto.
    - subst j. rewrite Hd, Hd'. f_equal. f_equal. apply rsum_ext. intros k Hk.
      rewrite (Hlow k Hk). reflexivity.
    - rewrite Hz, Hz' by auto. reflexivity. }
  intros i. induction i as [i IHi] using lt_wf_ind. intros j Hi.
  apply Hrows; auto. intros i' Hi' j'. apply IHi; lia.
Qed.

Lemma wf_ext_eq (M M' : list (list R)) n :
  wf M n -> wf M' n -> (forall i j, (i < n)%nat -> (j < n)%nat -> ent 0 M i j = ent 0 M' i j) -> M = M'.
Proof.
  intros [Hl Hr] [Hl' Hr'] He. apply (nth_ext M M' [] []); [lia|].
  intros i Hi. rewrite Hl in Hi. apply (nth_ext _ _ 0 0); [rewrite Hr, Hr'; auto|].
  intros j Hj. rewrite Hr in Hj by auto. apply He; auto.
Qed.

Lemma chol_rows_full_irrelevant A n : chol_rows RO true A n = chol_rows RO false A n.
Proof.
  destruct (chol_rows_spec true A n) as [Hw Hr]. destruct (chol_rows_spec false A n) as [Hw' Hr'].
  apply (wf_ext_eq _ _ n Hw Hw'). intros i j Hi _. apply (chol_rec_unique A _ _ n Hr Hr'); auto.
Qed.

(** reconstruction from the recurrence, given a positive diagonal *)
Lemma chol_rec_reconstructs A L n :
  chol_rec A L n -> (forall i, (i < n)%nat -> 0 < ent 0 L i i) ->
  forall i j, (i < n)%nat -> (j <= i)%nat ->
    rsum (fun k => ent 0 L i k * ent 0 L j k) (S j) = ent 0 A i j.
Proof.
  intros H Hpos i j Hi Hj. destruct (H i Hi) as [Hz [Hd Ho]]. cbn [rsum].
  destruct (Nat.eq_dec j i) as [->|Hne].
  - set (x := ent 0 A i i - rsum (fun k => ent 0 L i k * ent 0 L i k) i) in *.
    assert (Hx : 0 <= x).
    { destruct (Rle_lt_dec 0 x); auto. exfalso.
      specialize (Hpos i Hi). rewrite Hd, sqrt_neg_0 in Hpos by lra. lra. }
    rewrite Hd, (sqrt_sqrt x Hx). unfold x. lra.
  - assert (Hji : (j < i)%nat) by lia.
    assert (Hjj : ent 0 L j j <> 0) by (specialize (Hpos j ltac:(lia)); lra).
    rewrite (Ho j Hji).
    rewrite (rsum_ext (fun k => ent 0 L i k * ent 0 L j k) (fun k => ent 0 L j k * ent 0 L i k) j)
      by (intros; lra).
    field. auto.
Qed.

(** ** Flat level *)
Lemma eps_pos : 0 < eps RO.
Proof.
  unfold eps. cbn [ofQ RO]. unfold Q2R. cbn [QArith_base.Qnum QArith_base.Qden].
  apply Rmult_lt_0_compat; [lra|]. apply Rinv_0_lt_compat. apply IZR_lt. reflexivity.
Qed.

Lemma is_symmetric_rows_exact M n :
  (forall i j, (i < n)%nat -> (j < n)%nat -> ent 0 M i j = ent 0 M j i) -> is_symmetric_rows RO M n = true.
Proof.
  intros H. unfold is_symmetric_rows. apply forallb_forall. intros i Hi. apply in_seq in Hi.
  apply forallb_forall. intros j Hj. apply in_seq in Hj.
  cbn [ltb abs sub zero RO]. rewrite (H i j) by lia.
  replace (ent 0 M j i - ent 0 M j i) with 0 by lra. rewrite Rabs_R0.
  apply negb_true_iff, Rltb_false. pose proof eps_pos. lra.
Qed.

Lemma is_symmetric_rows_far M n i j :
  (i < n)%nat -> (j < n)%nat -> eps RO < Rabs (ent 0 M i j - ent 0 M j i) -> is_symmetric_rows RO M n = false.
Proof.
  intros Hi Hj Hfar.
  assert (Hgen : forall i j, (i <= j)%nat -> (j < n)%nat -> eps RO < Rabs (ent 0 M i j - ent 0 M j i) ->
                 is_symmetric_rows RO M n = false).
  { clear. intros i j Hij Hj Hfar. unfold is_symmetric_rows.
    destruct (forallb _ (seq 0 n)) eqn:E; auto. exfalso.
    rewrite forallb_forall in E. specialize (E i ltac:(apply in_seq; lia)).
    rewrite forallb_forall in E. specialize (E j ltac:(apply in_seq; lia)).
    cbn [ltb abs sub zero RO] in E. apply negb_true_iff, Rltb_false in E. lra. }
  destruct (Nat.le_gt_cases i j).
  - apply (Hgen i j); auto.
  - apply (Hgen j i); auto; try lia. rewrite Rabs_minus_sym. auto.
Qed.

Lemma cholesky_shape a :
  match is_square (length a) with
  | None => cholesky RO a = None
  | Some n => if is_symmetric_rows RO (unflatten a n n) n
              then exists l, cholesky RO a = Some l /\ length l = (n * n)%nat
              else cholesky RO a = None
  end.
Proof.
  unfold cholesky. destruct (is_square (length a)) as [n|] eqn:Hs; cbn [bind]; auto.
  destruct (is_symmetric_rows RO (unflatten a n n) n); cbn [guard bind]; auto.
  eexists; split; [reflexivity|].
  apply (wf_flatten_length _ n). apply chol_rows_spec.
Qed.

Lemma cholesky_accepts a n :
  (n * n)%nat = length a -> symmetric a n -> exists l, cholesky RO a = Some l /\ length l = (n * n)%nat.
Proof.
  intros Hn Hsym. pose proof (cholesky_shape a) as H. rewrite <- Hn, is_square_sq in H.
  rewrite is_symmetric_rows_exact in H; auto.
  intros i j Hi Hj. rewrite !ent_unflatten by auto. apply (Hsym i j); auto.
Qed.

Lemma cholesky_rejects_asymmetric a n i j :
  (n * n)%nat = length a -> (i < n)%nat -> (j < n)%nat ->
  eps RO < Rabs (getm a n i j - getm a n j i) -> cholesky RO a = None.
Proof.
  intros Hn Hi Hj Hfar. pose proof (cholesky_shape a) as H. rewrite <- Hn, is_square_sq in H.
  rewrite (is_symmetric_rows_far _ n i j Hi Hj) in H; auto.
  rewrite !ent_unflatten by auto. exact Hfar.
Qed.

Lemma cholesky_not_square a : (forall n, (n * n)%nat <> length a) -> cholesky RO a = None.
Proof. intros H. unfold cholesky. rewrite is_square_none by auto. reflexivity. Qed.

Lemma chol_reconstructs a l n :
  cholesky RO a = Some l -> (n * n)%nat = length a ->
  (forall i, (i < n)%nat -> 0 < getm l n i i) ->
  length l = (n * n)%nat /\ lower_triangular l n /\
  (forall i j, (i < n)%nat -> (j <= i)%nat -> rsum (fun k => getm l n i k * getm l n j k) n = getm a n i j) /\
  (symmetric a n -> forall i j, (i < n)%nat -> (j < n)%nat ->
     rsum (fun k => getm l n i k * getm l n j k) n = getm a n i j).
Proof.
  intros H Hn Hpos. unfold cholesky in H. rewrite <- Hn, is_square_sq in H. cbn [bind] in H.
  destruct (is_symmetric_rows RO (unflatten a n n) n); cbn [guard bind] in H; [|discriminate].
  inversion H; subst l; clear H.
  destruct (chol_rows_spec false (unflatten a n n) n) as [Hw Hrec].
  set (L := chol_rows RO false (unflatten a n n) n) in *.
  assert (Hg : forall i j, (i < n)%nat -> (j < n)%nat -> getm (flatten L) n i j = ent 0 L i j)
    by (intros; apply nth_flatten; auto).
  assert (Hpos' : forall i, (i < n)%nat -> 0 < ent 0 L i i) by (intros i Hi; rewrite <- Hg by auto; auto).
  assert (Hlow : forall i j, (i < n)%nat -> (j <= i)%nat ->
            rsum (fun k => getm (flatten L) n i k * getm (flatten L) n j k) n = getm a n i j).
  { intros i j Hi Hj.
    rewrite (rsum_trunc _ (S j) n); [|lia|].
    - rewrite (rsum_ext _ (fun k => ent 0 L i k * ent 0 L j k)) by (intros k Hk; rewrite !Hg by lia; reflexivity).
      rewrite (chol_rec_reconstructs _ L n Hrec Hpos' i j Hi Hj). apply ent_unflatten; lia.
    - intros k Hk. rewrite (Hg j k) by lia. destruct (Hrec j ltac:(lia)) as [Hz _]. rewrite Hz by lia. lra. }
  split; [apply (wf_flatten_length _ n Hw)|]. split; [|split]; auto.
  - intros i j Hi Hj Hij. rewrite Hg by auto. destruct (Hrec i Hi) as [Hz _]. apply Hz; auto.
  - intros Hsym i j Hi Hj. destruct (Nat.le_gt_cases j i).
    + apply Hlow; auto.
    + rewrite (Hsym i j) by auto. rewrite <- (Hlow j i) by (auto; lia).
      apply rsum_ext. intros; lra.
Qed.

(** slice form and Matrix form return the same factor (exact arithmetic) *)
Lemma matrix_cholesky_eq_slice m r :
  matrix_cholesky RO m = Some r ->
  cholesky RO (dat m) = Some (dat r) /\ nr r = nr m /\ nc r = nc m.
Proof.
  unfold matrix_cholesky. destruct (well_formed m) eqn:Hwf; cbn [guard bind]; [|discriminate].
  destruct (matrix_is_positive_definite RO m) eqn:Hpd; cbn [guard bind]; [|discriminate].
  intros H. inversion H; subst r; clear H. cbn [nr nc dat].
  unfold matrix_is_positive_definite, matrix_is_symmetric in Hpd.
  apply andb_prop in Hpd. destruct Hpd as [Hsym _]. apply andb_prop in Hsym. destruct Hsym as [Hsq Hsym].
  apply Nat.eqb_eq in Hsq.
  unfold well_formed in Hwf. apply andb_prop in Hwf. destruct Hwf as [_ Hlen]. apply Nat.eqb_eq in Hlen.
  unfold mrows in *. rewrite <- Hsq in *.
  split; auto. unfold cholesky. rewrite <- Hlen, is_square_sq. cbn [bind].
  rewrite Hsym. cbn [guard bind]. rewrite chol_rows_full_irrelevant. reflexivity.
Qed.
