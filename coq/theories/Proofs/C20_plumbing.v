(** * C20 — the matrix form of the kernels IS the composition of the verified component models, and that composition
    IS the matrix of the scalar form.

    [Model/KernelsPlumbing.v] writes [RBFKernel::forward] / [RationalQuadraticKernel::forward] on Vector / Matrix
    arguments (repaired code: the differences x_i - y_j are formed first, by broadcasting the column of x against the row
    of y) as the composition of the model functions of C15 (reshape, size), C12 (broadcast difference of a column and a
    row) and C04 (powi, negation, scalar-matrix arithmetic, maps) in the order the Rust code calls them.  Here: for
    every carrier [T] and every operations record (no algebraic law), for all point sets and all four argument types,
    the composition returns exactly the |xs| x |ys| matrix whose entries are the scalar form's operations applied, in the
    scalar form's order, to the element-wise square of x_i - y_j as the [powi] kernel computes it ([d * d] in its 8-wide
    unrolled part, [d.powi(2)] in its remainder loop), and panics exactly when a point set is empty (or a Matrix
    argument violates the struct invariant).  Wherever [d * d = d.powi(2)] (reals; binary64, bit for bit) that is the
    matrix of the SCALAR form [rbf] / [rq] of [Model/Kernels.v], entry by entry.  The proofs only use the pinned theorems of the
    component properties ([C04_*], [C12_broadcast_numpy]) and the computation of the reshape dimension logic of C15. *)
From Coq Require Import List Arith ZArith Bool Lia.
From Compute Require Import Base.Ops Base.ListMat.
From Compute Require Import Model.Shape Model.Broadcast Model.Vops Model.Kernels Model.KernelsPlumbing.
From Compute Require Import Spec.Broadcast Spec.Vops.
From Compute Require Proofs.C04 Proofs.C04Ops Proofs.C05 Proofs.C12 Proofs.C20.
Import ListNotations.

(** ** What the statements are written with *)

(** the point set an argument stands for: the entries of a non-empty Vector; the row-major data of a Matrix that
    satisfies the struct invariant [nrows * ncols = data.len()] and has at least one entry ([reshape(-1, 1)] flattens
    ANY shape to a column).  [None]: the call panics. *)
Definition points {T} (a : karg T) : option (list T) :=
  match a with
  | KVector v | KRefVector v => match v with [] => None | _ => Some v end
  | KMatrix m | KRefMatrix m =>
      if (Shape.nrows m * Shape.ncols m =? length (Shape.data m)) && (0 <? length (Shape.data m)) then Some (Shape.data m)
      else None
  end.

Section Entry.
  Context {T : Type} (O : Ops T).
  (** what the scalar forms of [Model/Kernels.v] do AFTER the squared difference [s = (x - y).powi(2)], in their order *)
  Definition rbf_of_sq (var ls s : T) : T :=
    mul O (f1 O Exp (div O (neg O s) (mul O (two O) (powi O ls 2)))) var.
  Definition rq_of_sq (var alpha ls s : T) : T :=
    mul O (f2 O Pow (add O (one O) (div O s (mul O (mul O (two O) alpha) (powi O ls 2)))) (neg O alpha)) var.

  Lemma rbf_is_of_sq var ls x y : rbf O var ls x y = rbf_of_sq var ls (powi O (sub O x y) 2).
  Proof. reflexivity. Qed.
  Lemma rq_is_of_sq var alpha ls x y : rq O var alpha ls x y = rq_of_sq var alpha ls (powi O (sub O x y) 2).
  Proof. reflexivity. Qed.

  Lemma scalar_form_is_of_sq var alpha ls x y :
    rbf O var ls x y = rbf_of_sq var ls (powi O (sub O x y) 2) /\
    rq O var alpha ls x y = rq_of_sq var alpha ls (powi O (sub O x y) 2).
  Proof. split; reflexivity. Qed.

  (** the [n x m] table of the differences x_i - y_j, row-major (what the broadcast of the column against the row
      returns), and its element-wise square as the [powi] kernel of C04 computes it *)
  Definition diff_table (xs ys : list T) : list T :=
    concat (tabulate (length xs) (length ys) (fun i j => sub O (nth i xs (zero O)) (nth j ys (zero O)))).
  Definition sq_table (xs ys : list T) : list T := vpowi O (diff_table xs ys) 2.
End Entry.

(** ** Lists: row-major tables *)
Section Tables.
  Context {A : Type}.

  Lemma tabulate_rows (n m : nat) (f : nat -> nat -> A) :
    length (tabulate n m f) = n /\ forall i, i < length (tabulate n m f) -> length (nth i (tabulate n m f) []) = m.
  Proof.
    unfold tabulate. rewrite map_length, seq_length. split; [reflexivity|]. intros i Hi.
    rewrite (C05.nth_map_seq (fun i => map (fun j => f i j) (seq 0 m)) 0 n i []) by exact Hi.
    rewrite map_length, seq_length. reflexivity.
  Qed.

  Lemma table_length (n m : nat) (f : nat -> nat -> A) : length (concat (tabulate n m f)) = n * m.
  Proof.
    destruct (tabulate_rows n m f) as [Hl Hr]. rewrite (C05.concat_rows_length _ m Hr), Hl. reflexivity.
  Qed.

  Lemma table_nth (n m : nat) (f : nat -> nat -> A) i j d :
    i < n -> j < m -> nth (i * m + j) (concat (tabulate n m f)) d = f i j.
  Proof.
    intros Hi Hj. destruct (tabulate_rows n m f) as [Hl Hr].
    rewrite (C05.nth_concat_rows _ m i j d Hr) by (try rewrite Hl; assumption).
    unfold tabulate. rewrite (C05.nth_map_seq (fun i => map (fun j => f i j) (seq 0 m)) 0 n i []) by exact Hi.
    rewrite (C05.nth_map_seq (fun j => f (0 + i) j) 0 m j d) by exact Hj. reflexivity.
  Qed.

  (** a flat list is determined by its length and its entries *)
  Lemma table_ext (c : list A) (n m : nat) (f : nat -> nat -> A) (d : A) :
    length c = n * m -> (forall i j, i < n -> j < m -> nth (i * m + j) c d = f i j) ->
    c = concat (tabulate n m f).
  Proof.
    intros Hlen Hent. apply (nth_ext _ _ d d); [rewrite table_length; exact Hlen|].
    intros p Hp. rewrite Hlen in Hp.
    assert (Hm : m <> 0) by (intros ->; lia).
    assert (Hi : p / m < n) by (apply Nat.div_lt_upper_bound; lia).
    assert (Hj : p mod m < m) by (apply Nat.mod_upper_bound; exact Hm).
    replace p with (p / m * m + p mod m) by (pose proof (Nat.div_mod p m Hm); lia).
    rewrite Hent, table_nth by assumption. reflexivity.
  Qed.

  Lemma table_ext_fun (n m : nat) (f g : nat -> nat -> A) :
    (forall i j, i < n -> j < m -> f i j = g i j) -> concat (tabulate n m f) = concat (tabulate n m g).
  Proof.
    intros H. unfold tabulate. f_equal. apply map_ext_in. intros i Hi. apply in_seq in Hi.
    apply map_ext_in. intros j Hj. apply in_seq in Hj. apply H; lia.
  Qed.

  Lemma table_map {B} (h : A -> B) (n m : nat) (f : nat -> nat -> A) :
    map h (concat (tabulate n m f)) = concat (tabulate n m (fun i j => h (f i j))).
  Proof.
    unfold tabulate. rewrite concat_map, map_map. f_equal. apply map_ext. intros i. apply map_map.
  Qed.
End Tables.

Lemma map2_app {A B C} (h : A -> B -> C) l1 l1' l2 l2' :
  length l1 = length l2 -> map2 h (l1 ++ l1') (l2 ++ l2') = map2 h l1 l2 ++ map2 h l1' l2'.
Proof.
  revert l2; induction l1 as [|a l1 IH]; intros [|b l2] H; simpl in *; try discriminate; auto.
  f_equal. apply IH. lia.
Qed.
Lemma map2_maps {X A B C} (h : A -> B -> C) (f : X -> A) (g : X -> B) (l : list X) :
  map2 h (map f l) (map g l) = map (fun x => h (f x) (g x)) l.
Proof. induction l; simpl; congruence. Qed.

Lemma table_map2 {A B C} (h : A -> B -> C) (n m : nat) (f : nat -> nat -> A) (g : nat -> nat -> B) :
  map2 h (concat (tabulate n m f)) (concat (tabulate n m g)) = concat (tabulate n m (fun i j => h (f i j) (g i j))).
Proof.
  unfold tabulate. generalize (seq 0 n) as l. induction l as [|i l IH]; [reflexivity|].
  cbn [map concat]. rewrite map2_app by (rewrite !map_length; reflexivity).
  rewrite IH, map2_maps. reflexivity.
Qed.

Lemma map_nth_seq_id {A} (l : list A) (d : A) : map (fun i => nth i l d) (seq 0 (length l)) = l.
Proof.
  apply (nth_ext _ _ d d); [rewrite map_length, seq_length; reflexivity|].
  intros i Hi. rewrite map_length, seq_length in Hi.
  rewrite (C05.nth_map_seq (fun i => nth i l d) 0 (length l) i d Hi). reflexivity.
Qed.

(** a table of a function of the i-th / j-th elements of two lists is the nested map *)
Lemma table_of_lists {A B} (F : A -> A -> B) (xs ys : list A) (d : A) :
  tabulate (length xs) (length ys) (fun i j => F (nth i xs d) (nth j ys d)) = map (fun x => map (fun y => F x y) ys) xs.
Proof.
  unfold tabulate.
  assert (E : forall (X Y : Type) (h : X -> Y) (l : list X) (dx : X), map (fun i => h (nth i l dx)) (seq 0 (length l)) = map h l).
  { intros X Y h l dx. rewrite <- (map_map (fun i => nth i l dx) h). f_equal. apply map_nth_seq_id. }
  rewrite (E _ _ (fun x => map (fun j => F x (nth j ys d)) (seq 0 (length ys))) xs d).
  apply map_ext. intros x. apply (E _ _ (fun y => F x y) ys d).
Qed.

(** ** The component steps *)
Section Steps.
  Context {T : Type} (O : Ops T).
  Local Notation z := (zero O).

  (** *** C15: the three reshapes the code performs *)
  (** [Vector::reshape(-1, 1)] = [Matrix::new(v.clone(), -1, 1)]: a [len x 1] matrix for EVERY vector, the empty one
      included (the 0 x 1 matrix is refused later, by [Matrix::new] inside [powi]) *)
  Lemma new_col (v : list T) : Shape.new v (-1) 1 = Some (mkMat (length v) 1 v).
  Proof.
    unfold Shape.new, reshape_mut, Shape.size, reshape_dims. cbn [nrows ncols data].
    change ((0 <? -1)%Z) with false. change ((-1 <? 0)%Z) with true. cbn [andb].
    change (((-1 =? -1) && (0 <? 1))%Z) with true. cbn [guard bind]. change (Z.to_nat 1) with 1.
    rewrite Nat.mod_1_r, Nat.div_1_r, Nat.mul_1_l. reflexivity.
  Qed.

  Definition inv_b (m : Shape.mat T) : bool :=
    (Shape.nrows m * Shape.ncols m =? length (Shape.data m)) && (0 <? length (Shape.data m)).

  (** [Matrix::reshape(-1, 1)] flattens any matrix that satisfies the struct invariant to a column, and panics otherwise *)
  Lemma reshape_col (m : Shape.mat T) :
    Shape.reshape m (-1) 1 = if inv_b m then Some (mkMat (length (Shape.data m)) 1 (Shape.data m)) else None.
  Proof.
    unfold Shape.reshape, Shape.size, inv_b.
    change ((0 <? -1)%Z) with false. change ((-1 <? 0)%Z) with true. cbn [andb].
    change (((-1 =? -1) && (0 <? 1))%Z) with true. cbn [guard bind].
    rewrite Z.quot_1_r.
    unfold Shape.new, reshape_mut, Shape.size, reshape_dims. cbn [nrows ncols data]. rewrite Nat.mul_1_l.
    set (sz := Shape.nrows m * Shape.ncols m). set (len := length (Shape.data m)).
    change ((0 <? 1)%Z) with true. change ((1 <? 0)%Z) with false. rewrite andb_true_r, Z.mul_1_r.
    destruct (Nat.eqb_spec sz len) as [E|E].
    - rewrite E. destruct (Nat.ltb_spec 0 len) as [L|L].
      + replace (0 <? Z.of_nat len)%Z with true by (symmetry; apply Z.ltb_lt; lia).
        rewrite Z.eqb_refl. cbn [andb guard bind]. rewrite Nat2Z.id. reflexivity.
      + assert (len = 0) by lia. subst len. rewrite H. reflexivity.
    - cbn [andb]. destruct (0 <? Z.of_nat sz)%Z eqn:L.
      + replace (Z.of_nat sz =? Z.of_nat len)%Z with false by (symmetry; apply Z.eqb_neq; lia). reflexivity.
      + replace (Z.of_nat sz <? 0)%Z with false by (symmetry; apply Z.ltb_ge; lia).
        change ((1 =? 0)%Z) with false. rewrite ?andb_false_r. reflexivity.
  Qed.

  (** [Matrix::reshape(1, -1)]: to a row *)
  Lemma reshape_row (m : Shape.mat T) :
    Shape.reshape m 1 (-1) = if inv_b m then Some (mkMat 1 (length (Shape.data m)) (Shape.data m)) else None.
  Proof.
    unfold Shape.reshape, Shape.size, inv_b.
    change ((0 <? 1)%Z) with true. change ((0 <? -1)%Z) with false. change ((1 <? 0)%Z) with false.
    change ((-1 <? 0)%Z) with true. cbn [andb].
    change (((-1 =? -1) && true)%Z) with true. cbn [guard bind].
    rewrite Z.quot_1_r.
    unfold Shape.new, reshape_mut, Shape.size, reshape_dims. cbn [nrows ncols data]. rewrite Nat.mul_1_l.
    set (sz := Shape.nrows m * Shape.ncols m). set (len := length (Shape.data m)).
    change ((0 <? 1)%Z) with true. change ((1 <? 0)%Z) with false. rewrite andb_true_l, Z.mul_1_l.
    destruct (Nat.eqb_spec sz len) as [E|E].
    - rewrite E. destruct (Nat.ltb_spec 0 len) as [L|L].
      + replace (0 <? Z.of_nat len)%Z with true by (symmetry; apply Z.ltb_lt; lia).
        rewrite Z.eqb_refl. cbn [andb guard bind]. rewrite Nat2Z.id. reflexivity.
      + assert (len = 0) by lia. subst len. rewrite H. reflexivity.
    - cbn [andb]. destruct (0 <? Z.of_nat sz)%Z eqn:L.
      + replace (Z.of_nat sz =? Z.of_nat len)%Z with false by (symmetry; apply Z.eqb_neq; lia). reflexivity.
      + replace (Z.of_nat sz <? 0)%Z with false by (symmetry; apply Z.ltb_ge; lia). reflexivity.
  Qed.

  (** [Vector::reshape(1, -1)] = [Matrix::new(v.clone(), 1, -1)]: a [1 x len] matrix for EVERY vector, the empty one
      included (refused one step later, by the assertion on the sizes) *)
  Lemma new_row (v : list T) : Shape.new v 1 (-1) = Some (mkMat 1 (length v) v).
  Proof.
    unfold Shape.new, reshape_mut, Shape.size, reshape_dims. cbn [nrows ncols data].
    change ((0 <? 1)%Z) with true. change ((0 <? -1)%Z) with false. change ((1 <? 0)%Z) with false.
    change ((-1 <? 0)%Z) with true. cbn [andb].
    change (((-1 =? -1) && true)%Z) with true. cbn [guard bind]. change (Z.to_nat 1) with 1.
    rewrite Nat.mod_1_r, Nat.div_1_r, Nat.mul_1_l. reflexivity.
  Qed.

  (** *** [x.reshape(-1, 1)] and [y.reshape(1, -1)] on the four argument types *)
  Lemma to_column_spec (a : karg T) :
    to_column a =
    match a with
    | KVector v | KRefVector v => Some (mkMat (length v) 1 v)
    | KMatrix m | KRefMatrix m => if inv_b m then Some (mkMat (length (Shape.data m)) 1 (Shape.data m)) else None
    end.
  Proof. destruct a; cbn [to_column]; auto using new_col, reshape_col. Qed.
  Lemma to_row_spec (a : karg T) :
    to_row a =
    match a with
    | KVector v | KRefVector v => Some (mkMat 1 (length v) v)
    | KMatrix m | KRefMatrix m => if inv_b m then Some (mkMat 1 (length (Shape.data m)) (Shape.data m)) else None
    end.
  Proof. destruct a; cbn [to_row]; auto using new_row, reshape_row. Qed.
End Steps.

Section Compose.
  Context {T : Type} (O : Ops T).
  Local Notation z := (zero O).

  Lemma wf_mkmat (n m : nat) (d : list T) : 0 < n -> 0 < m -> length d = n * m -> wf_mat (mkmat n m d).
  Proof. intros; repeat split; assumption. Qed.

  Lemma f64_op_matrix_wf (tr : vtrait) (s : T) (m : Broadcast.mat T) :
    expected tr TyF64 TyMatrix <> None -> wf_mat m ->
    f64_op_matrix O tr s m = Some (mkmat (Broadcast.nr m) (Broadcast.nc m) (map (fun e => trait_op O tr s e) (Broadcast.dat m))).
  Proof.
    intros He Hwf. unfold f64_op_matrix. destruct (C04Ops.find_row_expected _ _ _ He) as [r Hr]. rewrite Hr. cbn [bind].
    apply (C04Ops.scalar_op_mat O tr TyMatrix r s m Hr); [reflexivity|exact Hwf].
  Qed.
  Lemma matrix_op_f64_wf (tr : vtrait) (m : Broadcast.mat T) (s : T) :
    expected tr TyMatrix TyF64 <> None -> wf_mat m ->
    matrix_op_f64 O tr m s = Some (mkmat (Broadcast.nr m) (Broadcast.nc m) (map (fun e => trait_op O tr e s) (Broadcast.dat m))).
  Proof.
    intros He Hwf. unfold matrix_op_f64. destruct (C04Ops.find_row_expected _ _ _ He) as [r Hr]. rewrite Hr. cbn [bind].
    apply (C04Ops.mat_op_scalar O tr TyMatrix r m s Hr); [reflexivity|exact Hwf].
  Qed.

  (** C12: a column [op] a row, any operator token, every size n, m >= 1 (1 x 1 against 1 x 1: the equal-shape arm;
      1 x 1 against a row / a column against 1 x 1: the scalar arms; otherwise the outer loop) *)
  Lemma column_op_row (t : vtok) (a b : list T) :
    0 < length a -> 0 < length b ->
    mat_binop O t (mkmat (length a) 1 a) (mkmat 1 (length b) b) =
    Some (mkmat (length a) (length b)
            (concat (tabulate (length a) (length b) (fun i j => tok_fn O t (nth i a z) (nth j b z))))).
  Proof.
    intros Hn Hm. rewrite C04Ops.mat_binop_broadcast.
    rewrite (C12.broadcast_numpy (tok_fn O t) _ _ z) by (apply wf_mkmat; lia).
    cbn [Broadcast.nr Broadcast.nc Broadcast.dat].
    assert (Hc : np_compatible_b (length a) 1 1 (length b) = true).
    { unfold np_compatible_b, dim_compatible_b. cbn [Nat.eqb]. rewrite !orb_true_r. destruct (1 =? length b); reflexivity. }
    rewrite Hc. rewrite (Nat.max_l (length a) 1), (Nat.max_r 1 (length b)) by lia.
    f_equal. f_equal. unfold np_data.
    rewrite (Nat.max_l (length a) 1), (Nat.max_r 1 (length b)) by lia.
    apply table_ext_fun. intros i j Hi Hj. unfold np_entry, flat_at, bidx. cbn [Nat.eqb].
    assert (Ei : (if length a =? 1 then 0 else i) = i) by (destruct (Nat.eqb_spec (length a) 1); lia).
    assert (Ej : (if length b =? 1 then 0 else j) = j) by (destruct (Nat.eqb_spec (length b) 1); lia).
    rewrite Ei, Ej, Nat.mul_1_r, Nat.add_0_r, Nat.mul_0_l, Nat.add_0_l. reflexivity.
  Qed.

  Lemma diff_table_length (xs ys : list T) : length (diff_table O xs ys) = length xs * length ys.
  Proof. apply table_length. Qed.
  Lemma sq_table_length (xs ys : list T) : length (sq_table O xs ys) = length xs * length ys.
  Proof. unfold sq_table. rewrite C04.vpowi_length. apply diff_table_length. Qed.

  (** the assertion on the sizes, then [(x - y).powi(2)] on a column and a row *)
  Lemma sqdiff_plumbing_spec (xs ys : list T) :
    sqdiff_plumbing O (mkMat (length xs) 1 xs) (mkMat 1 (length ys) ys) =
    if (0 <? length xs) && (0 <? length ys)
    then Some (mkmat (length xs) (length ys) (sq_table O xs ys)) else None.
  Proof.
    unfold sqdiff_plumbing, Shape.size. cbn [nrows ncols data]. rewrite Nat.mul_1_r, Nat.mul_1_l.
    destruct (Nat.ltb_spec 0 (length xs)) as [Hn|Hn]; [|reflexivity].
    destruct (Nat.ltb_spec 0 (length ys)) as [Hm|Hm]; [|reflexivity].
    cbn [andb guard bind]. unfold s2b. cbn [nrows ncols data].
    rewrite (column_op_row VSub xs ys Hn Hm). cbn [bind tok_fn].
    rewrite C04Ops.mat_powi_wf by (apply wf_mkmat; auto using table_length).
    reflexivity.
  Qed.
End Compose.

Section Forward.
  Context {T : Type} (O : Ops T).
  Local Notation z := (zero O).

  (** the column / the row an argument becomes is the column / the row of its point set; no point set = the call panics
      (an empty Vector does become a 0 x 1 / 1 x 0 matrix: it is refused one step later, by the assertion) *)
  Lemma to_column_points (a : karg T) :
    match points a with
    | Some xs => xs <> [] /\ to_column a = Some (mkMat (length xs) 1 xs)
    | None => to_column a = None \/ to_column a = Some (mkMat 0 1 [])
    end.
  Proof.
    rewrite to_column_spec. destruct a as [v|v|m|m]; cbn [points].
    1,2: destruct v; [right; reflexivity|split; [discriminate|reflexivity]].
    1,2: fold (inv_b m); destruct (inv_b m) eqn:E; [|left; reflexivity]; split; [|reflexivity];
         unfold inv_b in E; apply andb_true_iff in E; destruct E as [_ E]; apply Nat.ltb_lt in E;
         intros H; rewrite H in E; cbn in E; lia.
  Qed.
  Lemma to_row_points (a : karg T) :
    match points a with
    | Some ys => ys <> [] /\ to_row a = Some (mkMat 1 (length ys) ys)
    | None => to_row a = None \/ to_row a = Some (mkMat 1 0 [])
    end.
  Proof.
    rewrite to_row_spec. destruct a as [v|v|m|m]; cbn [points].
    1,2: destruct v; [right; reflexivity|split; [discriminate|reflexivity]].
    1,2: fold (inv_b m); destruct (inv_b m) eqn:E; [|left; reflexivity]; split; [|reflexivity];
         unfold inv_b in E; apply andb_true_iff in E; destruct E as [_ E]; apply Nat.ltb_lt in E;
         intros H; rewrite H in E; cbn in E; lia.
  Qed.

  Lemma sqdiff_empty_l (y : Shape.mat T) : sqdiff_plumbing O (mkMat 0 1 []) y = None.
  Proof. reflexivity. Qed.
  Lemma sqdiff_empty_r (x : Shape.mat T) : sqdiff_plumbing O x (mkMat 1 0 []) = None.
  Proof. unfold sqdiff_plumbing, Shape.size. cbn [nrows ncols]. rewrite andb_false_r. reflexivity. Qed.

  (** the part of both kernels up to the matrix of squared differences *)
  Lemma distance_stage (ax ay : karg T) (k : Broadcast.mat T -> option (Broadcast.mat T)) :
    (let* x := to_column ax in let* y := to_row ay in let* d := sqdiff_plumbing O x y in k d) =
    match points ax, points ay with
    | Some xs, Some ys => k (mkmat (length xs) (length ys) (sq_table O xs ys))
    | _, _ => None
    end.
  Proof.
    pose proof (to_column_points ax) as Hx. pose proof (to_row_points ay) as Hy.
    destruct (points ax) as [xs|].
    - destruct Hx as [Nx Hx]. rewrite Hx. cbn [bind].
      destruct (points ay) as [ys|].
      + destruct Hy as [Ny Hy]. rewrite Hy. cbn [bind]. rewrite sqdiff_plumbing_spec.
        destruct xs; [congruence|]. destruct ys; [congruence|]. reflexivity.
      + destruct Hy as [Hy|Hy]; rewrite Hy; cbn [bind]; [reflexivity|]. rewrite sqdiff_empty_r. reflexivity.
    - destruct Hx as [Hx|Hx]; rewrite Hx; cbn [bind]; [reflexivity|].
      destruct (to_row ay); [|destruct (points ay); reflexivity]. cbn [bind]. rewrite sqdiff_empty_l.
      destruct (points ay); reflexivity.
  Qed.

  Lemma points_nonempty (a : karg T) (xs : list T) : points a = Some xs -> 0 < length xs.
  Proof.
    intros E. pose proof (to_column_points a) as H. rewrite E in H. destruct H as [H _].
    destruct xs; [congruence|cbn; lia].
  Qed.

  (** ** RBF: closed form of the composition, acceptance and rejection at once, every carrier *)
  Theorem rbf_plumbing_any_carrier (var ls : T) (ax ay : karg T) :
    rbf_forward_plumbing O var ls ax ay =
    match points ax, points ay with
    | Some xs, Some ys => Some (mkmat (length xs) (length ys) (map (rbf_of_sq O var ls) (sq_table O xs ys)))
    | _, _ => None
    end.
  Proof.
    unfold rbf_forward_plumbing. rewrite distance_stage.
    destruct (points ax) as [xs|] eqn:Ex; [|reflexivity]. destruct (points ay) as [ys|] eqn:Ey; [|reflexivity].
    assert (Hn := points_nonempty _ _ Ex). assert (Hm := points_nonempty _ _ Ey).
    rewrite C04Ops.mat_neg_wf by (apply wf_mkmat; auto using sq_table_length).
    cbn [bind Broadcast.nr Broadcast.nc Broadcast.dat].
    rewrite matrix_op_f64_wf; [|cbn; discriminate|apply wf_mkmat; auto; rewrite map_length; apply sq_table_length].
    cbn [bind Broadcast.nr Broadcast.nc Broadcast.dat].
    rewrite C04Ops.mat_map_wf by (apply wf_mkmat; auto; rewrite !map_length; apply sq_table_length).
    cbn [bind Broadcast.nr Broadcast.nc Broadcast.dat].
    rewrite matrix_op_f64_wf; [|cbn; discriminate|apply wf_mkmat; auto; rewrite !map_length; apply sq_table_length].
    cbn [Broadcast.nr Broadcast.nc Broadcast.dat]. f_equal. f_equal.
    rewrite !map_map. reflexivity.
  Qed.

  (** ** rational quadratic *)
  Theorem rq_plumbing_any_carrier (var alpha ls : T) (ax ay : karg T) :
    rq_forward_plumbing O var alpha ls ax ay =
    match points ax, points ay with
    | Some xs, Some ys => Some (mkmat (length xs) (length ys) (map (rq_of_sq O var alpha ls) (sq_table O xs ys)))
    | _, _ => None
    end.
  Proof.
    unfold rq_forward_plumbing. rewrite distance_stage.
    destruct (points ax) as [xs|] eqn:Ex; [|reflexivity]. destruct (points ay) as [ys|] eqn:Ey; [|reflexivity].
    assert (Hn := points_nonempty _ _ Ex). assert (Hm := points_nonempty _ _ Ey).
    rewrite matrix_op_f64_wf; [|cbn; discriminate|apply wf_mkmat; auto using sq_table_length].
    cbn [bind Broadcast.nr Broadcast.nc Broadcast.dat].
    rewrite f64_op_matrix_wf; [|cbn; discriminate|apply wf_mkmat; auto; rewrite !map_length; apply sq_table_length].
    cbn [bind Broadcast.nr Broadcast.nc Broadcast.dat].
    rewrite C04Ops.mat_powf_wf by (apply wf_mkmat; auto; rewrite !map_length; apply sq_table_length).
    cbn [bind Broadcast.nr Broadcast.nc Broadcast.dat].
    rewrite matrix_op_f64_wf; [|cbn; discriminate|apply wf_mkmat; auto; rewrite !map_length; apply sq_table_length].
    cbn [Broadcast.nr Broadcast.nc Broadcast.dat]. f_equal. f_equal.
    rewrite !map_map. reflexivity.
  Qed.

  (** ** entry (i, j) on EVERY carrier, no hypothesis: the scalar form's operations on the square of x_i - y_j, the square
      being [d * d] when the flat position [i * m + j] lies in the 8-wide unrolled part of the [powi] kernel (the first
      [n * m - (n * m) mod 8] positions) and [d.powi(2)] (the scalar code's own square, [1 * (d * d)]) in the remainder *)
  Definition kernel_square (n m i j : nat) (e : T) : T :=
    if i * m + j <? C04.chunked (n * m) then mul O e e else powi O e 2.

  Lemma sq_table_nth (xs ys : list T) (i j : nat) (d : T) :
    i < length xs -> j < length ys ->
    nth (i * length ys + j) (sq_table O xs ys) d =
    kernel_square (length xs) (length ys) i j (sub O (nth i xs d) (nth j ys d)).
  Proof.
    intros Hi Hj. unfold sq_table, vpowi. change ((2 =? 2)%Z) with true. cbv iota.
    assert (Hp : i * length ys + j < length (diff_table O xs ys)) by (rewrite diff_table_length; nia).
    rewrite C04.kernel1_nth by exact Hp. rewrite diff_table_length. unfold kernel_square, diff_table.
    rewrite table_nth by assumption.
    rewrite (nth_indep xs z d Hi), (nth_indep ys z d Hj). reflexivity.
  Qed.

  Theorem rbf_plumbing_entry_any_carrier (var ls : T) (ax ay : karg T) (xs ys : list T) (i j : nat) (d : T) :
    points ax = Some xs -> points ay = Some ys -> i < length xs -> j < length ys ->
    exists r, rbf_forward_plumbing O var ls ax ay = Some r /\
              Broadcast.nr r = length xs /\ Broadcast.nc r = length ys /\
              length (Broadcast.dat r) = length xs * length ys /\
              nth (i * Broadcast.nc r + j) (Broadcast.dat r) d =
              rbf_of_sq O var ls (kernel_square (length xs) (length ys) i j (sub O (nth i xs d) (nth j ys d))).
  Proof.
    intros Ex Ey Hi Hj. rewrite rbf_plumbing_any_carrier, Ex, Ey. eexists; split; [reflexivity|].
    cbn [Broadcast.nr Broadcast.nc Broadcast.dat]. repeat split.
    - rewrite map_length. apply sq_table_length.
    - rewrite (nth_indep _ d (rbf_of_sq O var ls d)) by (rewrite map_length, sq_table_length; nia).
      rewrite map_nth, sq_table_nth by assumption. reflexivity.
  Qed.
  Theorem rq_plumbing_entry_any_carrier (var alpha ls : T) (ax ay : karg T) (xs ys : list T) (i j : nat) (d : T) :
    points ax = Some xs -> points ay = Some ys -> i < length xs -> j < length ys ->
    exists r, rq_forward_plumbing O var alpha ls ax ay = Some r /\
              Broadcast.nr r = length xs /\ Broadcast.nc r = length ys /\
              length (Broadcast.dat r) = length xs * length ys /\
              nth (i * Broadcast.nc r + j) (Broadcast.dat r) d =
              rq_of_sq O var alpha ls (kernel_square (length xs) (length ys) i j (sub O (nth i xs d) (nth j ys d))).
  Proof.
    intros Ex Ey Hi Hj. rewrite rq_plumbing_any_carrier, Ex, Ey. eexists; split; [reflexivity|].
    cbn [Broadcast.nr Broadcast.nc Broadcast.dat]. repeat split.
    - rewrite map_length. apply sq_table_length.
    - rewrite (nth_indep _ d (rq_of_sq O var alpha ls d)) by (rewrite map_length, sq_table_length; nia).
      rewrite map_nth, sq_table_nth by assumption. reflexivity.
  Qed.
End Forward.

(** ** From the kernel's square to the scalar form *)
Section Net.
  Context {T : Type} (O : Ops T).
  Local Notation z := (zero O).
  (** the only fact about the carrier that is used: the unrolled part of the [powi] kernel computes [d * d] where the
      scalar code computes [d.powi(2)] ([= 1 * (d * d)] by square-and-multiply); these agree on the reals and, bit for
      bit, on binary64 (C04_powi2_is_mul) *)
  Hypothesis Hsq : forall x : T, mul O x x = powi O x 2.

  Lemma sq_table_net (G : T -> T) (xs ys : list T) :
    map G (sq_table O xs ys) = flatten (map (fun x => map (fun y => G (powi O (sub O x y) 2)) ys) xs).
  Proof.
    unfold sq_table, diff_table, flatten.
    rewrite C04.vpowi_pointwise; [|intros _ x _; apply Hsq|discriminate].
    rewrite <- (table_of_lists (fun x y => G (powi O (sub O x y) 2)) xs ys z).
    rewrite !table_map. reflexivity.
  Qed.

  Theorem rbf_plumbing_net (var ls : T) (ax ay : karg T) :
    rbf_forward_plumbing O var ls ax ay =
    match points ax, points ay with
    | Some xs, Some ys => Some (mkmat (length xs) (length ys) (flatten (rbf_matrix O var ls xs ys)))
    | _, _ => None
    end.
  Proof.
    rewrite rbf_plumbing_any_carrier. destruct (points ax) as [xs|]; [|reflexivity].
    destruct (points ay) as [ys|]; [|reflexivity]. rewrite sq_table_net. reflexivity.
  Qed.

  Theorem rq_plumbing_net (var alpha ls : T) (ax ay : karg T) :
    rq_forward_plumbing O var alpha ls ax ay =
    match points ax, points ay with
    | Some xs, Some ys => Some (mkmat (length xs) (length ys) (flatten (rq_matrix O var alpha ls xs ys)))
    | _, _ => None
    end.
  Proof.
    rewrite rq_plumbing_any_carrier. destruct (points ax) as [xs|]; [|reflexivity].
    destruct (points ay) as [ys|]; [|reflexivity]. rewrite sq_table_net. reflexivity.
  Qed.

  (** entry (i, j) of the flat row-major result is the SCALAR form at (xs_i, ys_j) *)
  Lemma net_entry {B} (F : T -> T -> B) (xs ys : list T) (i j : nat) (d : T) (db : B) :
    i < length xs -> j < length ys ->
    nth (i * length ys + j) (flatten (map (fun x => map (fun y => F x y) ys) xs)) db = F (nth i xs d) (nth j ys d).
  Proof.
    intros Hi Hj. unfold flatten. rewrite <- (table_of_lists F xs ys d).
    exact (table_nth (length xs) (length ys) (fun i j => F (nth i xs d) (nth j ys d)) i j db Hi Hj).
  Qed.

  Theorem rbf_plumbing_entry (var ls : T) (ax ay : karg T) (xs ys : list T) (i j : nat) (d : T) :
    points ax = Some xs -> points ay = Some ys -> i < length xs -> j < length ys ->
    exists r, rbf_forward_plumbing O var ls ax ay = Some r /\
              Broadcast.nr r = length xs /\ Broadcast.nc r = length ys /\
              length (Broadcast.dat r) = length xs * length ys /\
              nth (i * Broadcast.nc r + j) (Broadcast.dat r) d = rbf O var ls (nth i xs d) (nth j ys d).
  Proof.
    intros Ex Ey Hi Hj. rewrite rbf_plumbing_net, Ex, Ey. eexists; split; [reflexivity|].
    cbn [Broadcast.nr Broadcast.nc Broadcast.dat]. repeat split.
    - unfold flatten, rbf_matrix. rewrite <- (table_of_lists (rbf O var ls) xs ys d). apply table_length.
    - apply (net_entry (rbf O var ls)); assumption.
  Qed.

  Theorem rq_plumbing_entry (var alpha ls : T) (ax ay : karg T) (xs ys : list T) (i j : nat) (d : T) :
    points ax = Some xs -> points ay = Some ys -> i < length xs -> j < length ys ->
    exists r, rq_forward_plumbing O var alpha ls ax ay = Some r /\
              Broadcast.nr r = length xs /\ Broadcast.nc r = length ys /\
              length (Broadcast.dat r) = length xs * length ys /\
              nth (i * Broadcast.nc r + j) (Broadcast.dat r) d = rq O var alpha ls (nth i xs d) (nth j ys d).
  Proof.
    intros Ex Ey Hi Hj. rewrite rq_plumbing_net, Ex, Ey. eexists; split; [reflexivity|].
    cbn [Broadcast.nr Broadcast.nc Broadcast.dat]. repeat split.
    - unfold flatten, rq_matrix. rewrite <- (table_of_lists (rq O var alpha ls) xs ys d). apply table_length.
    - apply (net_entry (rq O var alpha ls)); assumption.
  Qed.

  (** both kernels at once *)
  Theorem matrix_form_entry_is_scalar_form (var alpha ls : T) (ax ay : karg T) (xs ys : list T) (i j : nat) (d : T) :
    points ax = Some xs -> points ay = Some ys -> i < length xs -> j < length ys ->
    (exists r, rbf_forward_plumbing O var ls ax ay = Some r /\
               Broadcast.nr r = length xs /\ Broadcast.nc r = length ys /\
               length (Broadcast.dat r) = length xs * length ys /\
               nth (i * Broadcast.nc r + j) (Broadcast.dat r) d = rbf O var ls (nth i xs d) (nth j ys d)) /\
    (exists r, rq_forward_plumbing O var alpha ls ax ay = Some r /\
               Broadcast.nr r = length xs /\ Broadcast.nc r = length ys /\
               length (Broadcast.dat r) = length xs * length ys /\
               nth (i * Broadcast.nc r + j) (Broadcast.dat r) d = rq O var alpha ls (nth i xs d) (nth j ys d)).
  Proof. intros Ex Ey Hi Hj. split; [apply rbf_plumbing_entry|apply rq_plumbing_entry]; assumption. Qed.
End Net.

(** ** Rejection: exactly the calls without a point set panic (every carrier, no hypothesis) *)
Section Reject.
  Context {T : Type} (O : Ops T).

  Theorem rbf_plumbing_accepts_iff (var ls : T) (ax ay : karg T) :
    (exists r, rbf_forward_plumbing O var ls ax ay = Some r) <-> (points ax <> None /\ points ay <> None).
  Proof.
    rewrite rbf_plumbing_any_carrier. destruct (points ax), (points ay); split.
    all: try (intros [r H]; discriminate H). all: try (intros [H1 H2]; congruence).
    - intros _. split; discriminate.
    - intros _. eexists; reflexivity.
  Qed.
  Theorem rq_plumbing_accepts_iff (var alpha ls : T) (ax ay : karg T) :
    (exists r, rq_forward_plumbing O var alpha ls ax ay = Some r) <-> (points ax <> None /\ points ay <> None).
  Proof.
    rewrite rq_plumbing_any_carrier. destruct (points ax), (points ay); split.
    all: try (intros [r H]; discriminate H). all: try (intros [H1 H2]; congruence).
    - intros _. split; discriminate.
    - intros _. eexists; reflexivity.
  Qed.

  (** which arguments have no point set *)
  Lemma points_none_iff (a : karg T) :
    points a = None <->
    match a with
    | KVector v | KRefVector v => v = []
    | KMatrix m | KRefMatrix m => Shape.nrows m * Shape.ncols m <> length (Shape.data m) \/ Shape.data m = []
    end.
  Proof.
    destruct a as [v|v|m|m]; cbn [points].
    1,2: destruct v; split; intros H; try reflexivity; discriminate.
    1,2: destruct (Nat.eqb_spec (Shape.nrows m * Shape.ncols m) (length (Shape.data m))) as [E|E]; cbn [andb];
         [|split; [intros _; left; exact E|reflexivity]];
         destruct (Shape.data m) as [|a l]; cbn [length Nat.ltb Nat.leb]; split; intros H; try reflexivity;
         try discriminate; [right; reflexivity|destruct H as [H|H]; [cbn [length] in E; congruence|discriminate]].
  Qed.

  (** the owned and the borrowed form of an argument run the same code *)
  Lemma plumbing_owned_is_borrowed (var alpha ls : T) (v w : list T) (m p : Shape.mat T) :
    rbf_forward_plumbing O var ls (KVector v) (KVector w) = rbf_forward_plumbing O var ls (KRefVector v) (KRefVector w) /\
    rbf_forward_plumbing O var ls (KMatrix m) (KMatrix p) = rbf_forward_plumbing O var ls (KRefMatrix m) (KRefMatrix p) /\
    rq_forward_plumbing O var alpha ls (KVector v) (KVector w) = rq_forward_plumbing O var alpha ls (KRefVector v) (KRefVector w) /\
    rq_forward_plumbing O var alpha ls (KMatrix m) (KMatrix p) = rq_forward_plumbing O var alpha ls (KRefMatrix m) (KRefMatrix p).
  Proof. repeat split. Qed.
End Reject.

(** ** The two carriers the development uses: reals and binary64 (every recorded libm table) *)
From Coq Require Import Reals Floats.
From Compute Require Proofs.C04Float.

Lemma sq_is_powi_R : forall x : R, Ops.mul RO x x = powi RO x 2.
Proof. intros x. cbn. ring. Qed.

Theorem rbf_plumbing_R (var ls : R) (ax ay : karg R) :
  rbf_forward_plumbing RO var ls ax ay =
  match points ax, points ay with
  | Some xs, Some ys => Some (mkmat (length xs) (length ys) (flatten (rbf_matrix RO var ls xs ys)))
  | _, _ => None
  end.
Proof. exact (rbf_plumbing_net RO sq_is_powi_R var ls ax ay). Qed.
Theorem rq_plumbing_R (var alpha ls : R) (ax ay : karg R) :
  rq_forward_plumbing RO var alpha ls ax ay =
  match points ax, points ay with
  | Some xs, Some ys => Some (mkmat (length xs) (length ys) (flatten (rq_matrix RO var alpha ls xs ys)))
  | _, _ => None
  end.
Proof. exact (rq_plumbing_net RO sq_is_powi_R var alpha ls ax ay). Qed.

Theorem rbf_plumbing_binary64 (tbl : libm_table) (var ls : float) (ax ay : karg float) :
  rbf_forward_plumbing (FO tbl) var ls ax ay =
  match points ax, points ay with
  | Some xs, Some ys => Some (mkmat (length xs) (length ys) (flatten (rbf_matrix (FO tbl) var ls xs ys)))
  | _, _ => None
  end.
Proof. exact (rbf_plumbing_net (FO tbl) (C04Float.powi2_is_mul tbl) var ls ax ay). Qed.
Theorem rq_plumbing_binary64 (tbl : libm_table) (var alpha ls : float) (ax ay : karg float) :
  rq_forward_plumbing (FO tbl) var alpha ls ax ay =
  match points ax, points ay with
  | Some xs, Some ys => Some (mkmat (length xs) (length ys) (flatten (rq_matrix (FO tbl) var alpha ls xs ys)))
  | _, _ => None
  end.
Proof. exact (rq_plumbing_net (FO tbl) (C04Float.powi2_is_mul tbl) var alpha ls ax ay). Qed.

(** the matrix form equals the scalar form entry by entry, BIT FOR BIT on binary64 with every libm table (the same table
    answers both: the matrix form asks libm for exactly the arguments the scalar form asks for), and on the reals *)
Theorem matrix_form_entry_is_scalar_form_binary64 (tbl : libm_table) (var alpha ls : float) (ax ay : karg float)
    (xs ys : list float) (i j : nat) (d : float) :
  points ax = Some xs -> points ay = Some ys -> i < length xs -> j < length ys ->
  (exists r, rbf_forward_plumbing (FO tbl) var ls ax ay = Some r /\
             Broadcast.nr r = length xs /\ Broadcast.nc r = length ys /\
             length (Broadcast.dat r) = length xs * length ys /\
             nth (i * Broadcast.nc r + j) (Broadcast.dat r) d = rbf (FO tbl) var ls (nth i xs d) (nth j ys d)) /\
  (exists r, rq_forward_plumbing (FO tbl) var alpha ls ax ay = Some r /\
             Broadcast.nr r = length xs /\ Broadcast.nc r = length ys /\
             length (Broadcast.dat r) = length xs * length ys /\
             nth (i * Broadcast.nc r + j) (Broadcast.dat r) d = rq (FO tbl) var alpha ls (nth i xs d) (nth j ys d)).
Proof. exact (matrix_form_entry_is_scalar_form (FO tbl) (C04Float.powi2_is_mul tbl) var alpha ls ax ay xs ys i j d). Qed.
Theorem matrix_form_entry_is_scalar_form_R (var alpha ls : R) (ax ay : karg R) (xs ys : list R) (i j : nat) (d : R) :
  points ax = Some xs -> points ay = Some ys -> i < length xs -> j < length ys ->
  (exists r, rbf_forward_plumbing RO var ls ax ay = Some r /\
             Broadcast.nr r = length xs /\ Broadcast.nc r = length ys /\
             length (Broadcast.dat r) = length xs * length ys /\
             nth (i * Broadcast.nc r + j) (Broadcast.dat r) d = rbf RO var ls (nth i xs d) (nth j ys d)) /\
  (exists r, rq_forward_plumbing RO var alpha ls ax ay = Some r /\
             Broadcast.nr r = length xs /\ Broadcast.nc r = length ys /\
             length (Broadcast.dat r) = length xs * length ys /\
             nth (i * Broadcast.nc r + j) (Broadcast.dat r) d = rq RO var alpha ls (nth i xs d) (nth j ys d)).
Proof. exact (matrix_form_entry_is_scalar_form RO sq_is_powi_R var alpha ls ax ay xs ys i j d). Qed.

(** the defect the repair removes, on binary64 (no libm involved): for the two points 999 and 999.000001 the ORIGINAL squared
    distance x^2 + y^2 - 2 (0 + x y) is NEGATIVE (-2^-32; true value 1e-12); the difference-first square is positive *)
Lemma original_expanded_square_negative :
  let x := 0x1.f380000000000p+9%float in let y := 0x1.f3800008637bdp+9%float in
  PrimFloat.ltb (C20.sqdist_expanded FO0 x y) 0%float = true /\
  PrimFloat.ltb 0%float (powi FO0 (Ops.sub FO0 x y) 2) = true.
Proof. cbv zeta. split; vm_compute; reflexivity. Qed.
