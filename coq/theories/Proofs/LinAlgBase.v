(** * LinAlgBase: reusable lemmas for the linear-algebra properties (C11, C01, C13, C14, C06).
    - finite sums [rsum f n = f 0 + ... + f (n-1)] over [R] (extensionality, splitting, zero tails,
      linearity, exchange of two sums) and their relation with [fold_left .. (seq ..)] and with the
      8-way unrolled [dot_raw] on the carrier [RO];
    - lists built by appending / consing one computed element at a time ([build_spec], [build_rev_spec]);
    - [nth]/[upd]/[swap]/[mapi]/[map2] frame lemmas, well-formed row matrices [wf M n] and their entries;
    - the spec of a matrix-vector / matrix-matrix product on flat arrays ([getm], [mvec], [mmul]);
    - reflection of the comparisons of [RO]. *)
From Coq Require Import List Arith Bool Lia Reals Lra Permutation.
From Compute Require Import Base.Ops Base.ListMat Model.Reduce Model.MatMul Spec.Factor Proofs.C05.
Import ListNotations.
Local Open Scope R_scope.

(** ** Finite sums *)
Lemma rsum_ext f g n : (forall k, (k < n)%nat -> f k = g k) -> rsum f n = rsum g n.
Proof.
  induction n as [|n IH]; intros H; simpl; auto.
  rewrite IH by (intros; apply H; lia). rewrite H by lia. reflexivity.
Qed.

Lemma rsum_zero f n : (forall k, (k < n)%nat -> f k = 0) -> rsum f n = 0.
Proof.
  induction n as [|n IH]; intros H; simpl; auto.
  rewrite IH by (intros; apply H; lia). rewrite H by lia. lra.
Qed.

Lemma rsum_shift f n : rsum f (S n) = f 0%nat + rsum (fun k => f (S k)) n.
Proof. induction n as [|n IH]; simpl in *; [lra|]. rewrite IH. lra. Qed.

Lemma rsum_app f m n : rsum f (m + n) = rsum f m + rsum (fun k => f (m + k)%nat) n.
Proof.
  induction n as [|n IH]; simpl.
  - rewrite Nat.add_0_r. lra.
  - rewrite Nat.add_succ_r. simpl. rewrite IH. lra.
Qed.

(** the terms from [m] on vanish *)
Lemma rsum_trunc f m n :
  (m <= n)%nat -> (forall k, (m <= k < n)%nat -> f k = 0) -> rsum f n = rsum f m.
Proof.
  intros Hmn Hz. replace n with (m + (n - m))%nat by lia. rewrite rsum_app.
  rewrite (rsum_zero (fun k => f (m + k)%nat)) by (intros; apply Hz; lia). lra.
Qed.

(** ... all but the one at [m] *)
Lemma rsum_upto f m n :
  (m < n)%nat -> (forall k, (m < k < n)%nat -> f k = 0) -> rsum f n = rsum f m + f m.
Proof.
  intros Hmn Hz. rewrite (rsum_trunc f (S m) n) by (auto; intros; apply Hz; lia). reflexivity.
Qed.

Lemma rsum_single f m n :
  (m < n)%nat -> (forall k, (k < n)%nat -> k <> m -> f k = 0) -> rsum f n = f m.
Proof.
  intros Hmn Hz. rewrite (rsum_upto f m n) by (auto; intros; apply Hz; lia).
  rewrite rsum_zero by (intros; apply Hz; lia). lra.
Qed.

Lemma rsum_plus f g n : rsum (fun k => f k + g k) n = rsum f n + rsum g n.
Proof. induction n as [|n IH]; simpl; [lra|]. rewrite IH. lra. Qed.

Lemma rsum_minus f g n : rsum (fun k => f k - g k) n = rsum f n - rsum g n.
Proof. induction n as [|n IH]; simpl; [lra|]. rewrite IH. lra. Qed.

Lemma rsum_scal_l c f n : rsum (fun k => c * f k) n = c * rsum f n.
Proof. induction n as [|n IH]; simpl; [lra|]. rewrite IH. lra. Qed.

Lemma rsum_scal_r c f n : rsum (fun k => f k * c) n = rsum f n * c.
Proof. induction n as [|n IH]; simpl; [lra|]. rewrite IH. lra. Qed.

Lemma rsum_swap (f : nat -> nat -> R) m n :
  rsum (fun i => rsum (fun j => f i j) n) m = rsum (fun j => rsum (fun i => f i j) m) n.
Proof.
  induction m as [|m IH]; simpl.
  - symmetry. apply rsum_zero. auto.
  - rewrite IH. rewrite <- rsum_plus. reflexivity.
Qed.

Lemma rsum_nonneg f n : (forall k, (k < n)%nat -> 0 <= f k) -> 0 <= rsum f n.
Proof.
  induction n as [|n IH]; intros H; simpl; [lra|].
  assert (0 <= rsum f n) by (apply IH; intros; apply H; lia).
  assert (0 <= f n) by (apply H; lia). lra.
Qed.

(** [fold_left] over [seq] *)
Lemma fold_left_rsum_gen (f : nat -> R) a n s0 :
  fold_left (fun s k => s + f k) (seq a n) s0 = s0 + rsum (fun k => f (a + k)%nat) n.
Proof.
  revert s0; induction n as [|n IH]; intros s0.
  - simpl. lra.
  - rewrite seq_S, fold_left_app. cbn [fold_left rsum]. rewrite IH. lra.
Qed.

Lemma fold_left_rsum (f : nat -> R) n :
  fold_left (fun s k => s + f k) (seq 0 n) 0 = rsum f n.
Proof. rewrite fold_left_rsum_gen, Rplus_0_l. apply rsum_ext. intros; reflexivity. Qed.

(** sums of lists *)
Definition lsum (l : list R) : R := fold_right Rplus 0 l.

Lemma fold_left_lsum l s : fold_left Rplus l s = s + lsum l.
Proof. revert s; induction l as [|a l IH]; intros s; simpl; [lra|]. rewrite IH. lra. Qed.

Lemma lsum_rsum l : lsum l = rsum (fun k => nth k l 0) (length l).
Proof.
  induction l as [|a l IH]; [reflexivity|].
  cbn [length]. rewrite rsum_shift. cbn [lsum fold_right nth]. fold (lsum l). rewrite IH. reflexivity.
Qed.

(** ** The unrolled dot product on [RO] is the plain sum of products *)
Lemma dot8_RO fuel s x y :
  (length x < fuel)%nat -> dot8 RO fuel s x y = s + lsum (map2 Rmult x y).
Proof.
  revert s x y; induction fuel as [|fuel IH]; intros s x y Hf; [lia|].
  cbn [dot8].
  do 8 (destruct x as [|? x]; [cbn [add mul RO]; apply fold_left_lsum|]).
  do 8 (destruct y as [|? y]; [cbn [add mul RO]; apply fold_left_lsum|]).
  rewrite IH by (simpl in Hf; lia).
  cbn [add mul RO map2 lsum fold_right]. fold (lsum (map2 Rmult x y)). lra.
Qed.

Lemma dot_raw_RO x y :
  length x = length y ->
  dot_raw RO x y = rsum (fun k => nth k x 0 * nth k y 0) (length x).
Proof.
  intros Hl. unfold dot_raw. rewrite dot8_RO by lia. cbn [zero RO].
  rewrite lsum_rsum, map2_length, <- Hl, Nat.min_id. rewrite Rplus_0_l.
  apply rsum_ext. intros k Hk. apply nth_map2; lia.
Qed.

(** ** Lists built one element at a time *)
Section Build.
  Context {A : Type} (d : A).

  (** [for i in 0..n { v.push(g i v) }] *)
  Definition build (g : nat -> list A -> A) (n : nat) : list A :=
    fold_left (fun v i => v ++ [g i v]) (seq 0 n) [].

  Lemma build_S g n : build g (S n) = build g n ++ [g n (build g n)].
  Proof. unfold build. rewrite seq_S, fold_left_app. reflexivity. Qed.

  Lemma build_length g n : length (build g n) = n.
  Proof. induction n as [|n IH]; [reflexivity|]. rewrite build_S, app_length, IH. simpl. lia. Qed.

  Lemma build_firstn g n i : (i <= n)%nat -> firstn i (build g n) = build g i.
  Proof.
    induction n as [|n IH]; intros Hi.
    - assert (i = 0%nat) by lia. subst. reflexivity.
    - destruct (Nat.eq_dec i (S n)) as [->|Hne].
      + rewrite <- (build_length g (S n)) at 1. apply firstn_all.
      + rewrite build_S, firstn_app, build_length.
        replace (i - n)%nat with 0%nat by lia. rewrite firstn_O, app_nil_r. apply IH. lia.
  Qed.

  Lemma build_nth g n i : (i < n)%nat -> nth i (build g n) d = g i (build g i).
  Proof.
    intros Hi.
    assert (H : nth i (build g n) d = nth i (firstn (S i) (build g n)) d)
      by (symmetry; apply nth_firstn_lt; lia).
    rewrite H, build_firstn by lia. rewrite build_S, app_nth2; rewrite build_length; [|lia].
    rewrite Nat.sub_diag. reflexivity.
  Qed.

  (** [for i in (0..n).rev() { x[i] = g i x[i+1..] }]: element [k] of the result is index [a+k] *)
  Definition build_rev (g : nat -> list A -> A) (a n : nat) : list A :=
    fold_left (fun x i => g i x :: x) (rev (seq a n)) [].

  Lemma build_rev_S g a n : build_rev g a (S n) = g a (build_rev g (S a) n) :: build_rev g (S a) n.
  Proof. unfold build_rev. cbn [seq rev]. rewrite fold_left_app. reflexivity. Qed.

  Lemma build_rev_length g a n : length (build_rev g a n) = n.
  Proof. revert a; induction n as [|n IH]; intros a; [reflexivity|]. rewrite build_rev_S. simpl. rewrite IH. reflexivity. Qed.

  Lemma build_rev_skipn g a n k : (k <= n)%nat -> skipn k (build_rev g a n) = build_rev g (a + k) (n - k).
  Proof.
    revert a k; induction n as [|n IH]; intros a k Hk.
    - assert (k = 0%nat) by lia. subst. rewrite Nat.add_0_r. reflexivity.
    - destruct k as [|k]; [rewrite Nat.add_0_r; reflexivity|].
      rewrite build_rev_S. cbn [skipn]. rewrite IH by lia. f_equal; lia.
  Qed.

  Lemma build_rev_nth g a n k :
    (k < n)%nat -> nth k (build_rev g a n) d = g (a + k)%nat (skipn (S k) (build_rev g a n)).
  Proof.
    intros Hk. rewrite (build_rev_skipn g a n (S k)) by lia.
    assert (H : nth k (build_rev g a n) d = nth 0 (skipn k (build_rev g a n)) d)
      by (rewrite nth_skipn_plus; f_equal; lia).
    rewrite H, build_rev_skipn by lia.
    replace (n - k)%nat with (S (n - S k)) by lia. rewrite build_rev_S. cbn [nth].
    f_equal. f_equal; lia.
  Qed.
End Build.

(** ** Frame lemmas *)
Section Frames.
  Context {A : Type}.

  Lemma upd_length (l : list A) i v : length (upd l i v) = length l.
  Proof. revert i; induction l as [|a l IH]; intros [|i]; simpl; auto. Qed.

  Lemma nth_upd (l : list A) i j v d :
    nth j (upd l i v) d = if (j =? i)%nat && (i <? length l)%nat then v else nth j l d.
  Proof.
    revert i j; induction l as [|a l IH]; intros [|i] [|j]; simpl; auto.
    - rewrite andb_false_r. reflexivity.
    - rewrite IH. reflexivity.
  Qed.

  Lemma nth_upd_eq (l : list A) i v d : (i < length l)%nat -> nth i (upd l i v) d = v.
  Proof. intros H. rewrite nth_upd, Nat.eqb_refl. apply Nat.ltb_lt in H. rewrite H. reflexivity. Qed.

  Lemma nth_upd_neq (l : list A) i j v d : j <> i -> nth j (upd l i v) d = nth j l d.
  Proof. intros H. rewrite nth_upd. apply Nat.eqb_neq in H. rewrite H. reflexivity. Qed.

  Lemma swap_length d (l : list A) i j : length (swap d l i j) = length l.
  Proof. unfold swap. rewrite !upd_length. reflexivity. Qed.

  (** the transposition of [p] and [q] *)
  Definition transp (p q i : nat) : nat := if (i =? p)%nat then q else if (i =? q)%nat then p else i.

  Lemma nth_swap d (l : list A) p q i :
    (p < length l)%nat -> (q < length l)%nat -> nth i (swap d l p q) d = nth (transp p q i) l d.
  Proof.
    intros Hp Hq. unfold swap, transp. rewrite !nth_upd, !upd_length.
    apply Nat.ltb_lt in Hp, Hq. rewrite Hp, Hq, !andb_true_r.
    destruct (Nat.eqb_spec i q), (Nat.eqb_spec i p); subst; auto.
  Qed.

  Lemma mapi_length {B} (f : nat -> A -> B) l : length (mapi f l) = length l.
  Proof. apply mapi_from_length. Qed.

  Lemma nth_mapi {B} (f : nat -> A -> B) l i d d' : (i < length l)%nat -> nth i (mapi f l) d = f i (nth i l d').
  Proof. intros H. unfold mapi. rewrite (nth_mapi_from f l 0 i d d') by auto. reflexivity. Qed.
End Frames.

Lemma transp_lt p q i n : (p < n)%nat -> (q < n)%nat -> (i < n)%nat -> (transp p q i < n)%nat.
Proof. unfold transp. intros. destruct (i =? p)%nat, (i =? q)%nat; lia. Qed.

Lemma transp_invol p q i : transp p q (transp p q i) = i.
Proof.
  unfold transp.
  destruct (Nat.eqb_spec i p); [subst; rewrite Nat.eqb_refl; destruct (Nat.eqb_spec q p); auto|].
  destruct (Nat.eqb_spec i q); [subst; rewrite Nat.eqb_refl; auto|].
  destruct (Nat.eqb_spec i p), (Nat.eqb_spec i q); congruence.
Qed.

Lemma transp_fix p q i : i <> p -> i <> q -> transp p q i = i.
Proof. unfold transp. intros Hp Hq. apply Nat.eqb_neq in Hp, Hq. rewrite Hp, Hq. reflexivity. Qed.

Lemma transp_same p i : transp p p i = i.
Proof. unfold transp. destruct (Nat.eqb_spec i p); auto. Qed.

(** ** Permutation vectors *)
Lemma is_perm_length p n : is_perm p n -> length p = n.
Proof. intros H. rewrite (Permutation_length H). apply seq_length. Qed.

Lemma is_perm_lt p n i : is_perm p n -> (i < n)%nat -> (nth i p 0 < n)%nat.
Proof.
  intros H Hi. assert (Hin : In (nth i p 0%nat) p) by (apply nth_In; rewrite (is_perm_length _ _ H); auto).
  apply (Permutation_in _ H), in_seq in Hin. lia.
Qed.

Lemma is_perm_NoDup p n : is_perm p n -> NoDup p.
Proof. intros H. apply (Permutation_NoDup (Permutation_sym H)). apply seq_NoDup. Qed.

Lemma is_perm_inj p n i j :
  is_perm p n -> (i < n)%nat -> (j < n)%nat -> nth i p 0%nat = nth j p 0%nat -> i = j.
Proof.
  intros H Hi Hj. apply (proj1 (NoDup_nth p 0%nat) (is_perm_NoDup _ _ H)); rewrite (is_perm_length _ _ H); auto.
Qed.

Lemma is_perm_surj p n r : is_perm p n -> (r < n)%nat -> exists i, (i < n)%nat /\ nth i p 0%nat = r.
Proof.
  intros H Hr. assert (Hin : In r p) by (apply (Permutation_in _ (Permutation_sym H)), in_seq; lia).
  destruct (In_nth _ _ 0%nat Hin) as [i [Hi He]]. exists i. rewrite (is_perm_length _ _ H) in Hi. auto.
Qed.

Lemma is_perm_intro p n :
  length p = n -> (forall i, (i < n)%nat -> (nth i p 0 < n)%nat) ->
  (forall i j, (i < n)%nat -> (j < n)%nat -> nth i p 0%nat = nth j p 0%nat -> i = j) -> is_perm p n.
Proof.
  intros Hl Hb Hinj. unfold is_perm. apply NoDup_Permutation_bis.
  - apply NoDup_nth with (d := 0%nat). rewrite Hl. auto.
  - rewrite seq_length. lia.
  - intros x Hx. destruct (In_nth _ _ 0%nat Hx) as [i [Hi He]]. subst x. apply in_seq.
    rewrite Hl in Hi. specialize (Hb i Hi). lia.
Qed.

Lemma is_perm_id n : is_perm (seq 0 n) n.
Proof. apply Permutation_refl. Qed.

Lemma is_perm_swap p n a b : is_perm p n -> (a < n)%nat -> (b < n)%nat -> is_perm (swap 0%nat p a b) n.
Proof.
  intros H Ha Hb. pose proof (is_perm_length _ _ H) as Hl.
  apply is_perm_intro.
  - rewrite swap_length. auto.
  - intros i Hi. rewrite nth_swap by lia. apply (is_perm_lt _ _ _ H). apply transp_lt; auto.
  - intros i j Hi Hj. rewrite !nth_swap by lia. intros He.
    apply (is_perm_inj _ _ _ _ H) in He; try (apply transp_lt; auto).
    rewrite <- (transp_invol a b i), He. apply transp_invol.
Qed.

(** ** Well-formed row matrices *)
Section Rows.
  Context {A : Type} (d : A).

  Definition wf (M : list (list A)) (n : nat) : Prop :=
    length M = n /\ forall i, (i < n)%nat -> length (nth i M []) = n.

  Lemma wf_unflatten (a : list A) n : (n * n)%nat = length a -> wf (unflatten a n n) n.
  Proof.
    intros H. split; [apply unflatten_length|]. intros i Hi. apply row_len_unflatten; auto.
  Qed.

  Lemma wf_flatten_length (M : list (list A)) n : wf M n -> length (flatten M) = (n * n)%nat.
  Proof. intros [Hl Hr]. unfold flatten. rewrite (concat_rows_length M n); rewrite Hl; auto. Qed.

  Lemma nth_flatten (M : list (list A)) n i j :
    wf M n -> (i < n)%nat -> (j < n)%nat -> nth (i * n + j) (flatten M) d = ent d M i j.
  Proof. intros [Hl Hr] Hi Hj. unfold flatten, ent. apply nth_concat_rows; rewrite ?Hl; auto. Qed.

  Lemma unflatten_flatten_ent (M : list (list A)) n i j :
    wf M n -> (i < n)%nat -> (j < n)%nat -> ent d (unflatten (flatten M) n n) i j = ent d M i j.
  Proof. intros H Hi Hj. rewrite ent_unflatten by auto. apply nth_flatten; auto. Qed.

  (** swapping two rows *)
  Lemma wf_swap (M : list (list A)) n p q : wf M n -> (p < n)%nat -> (q < n)%nat -> wf (swap [] M p q) n.
  Proof.
    intros [Hl Hr] Hp Hq. split; [rewrite swap_length; auto|].
    intros i Hi. rewrite nth_swap by lia. apply Hr. apply transp_lt; auto.
  Qed.

  Lemma ent_swap (M : list (list A)) n p q i j :
    wf M n -> (p < n)%nat -> (q < n)%nat -> ent d (swap [] M p q) i j = ent d M (transp p q i) j.
  Proof. intros [Hl Hr] Hp Hq. unfold ent. rewrite nth_swap by lia. reflexivity. Qed.
End Rows.

(** ** Comparisons of [RO] *)
Lemma Reqb_true x y : Reqb x y = true <-> x = y.
Proof. unfold Reqb. destruct (Req_EM_T x y); split; auto; discriminate. Qed.
Lemma Reqb_false x y : Reqb x y = false <-> x <> y.
Proof. unfold Reqb. destruct (Req_EM_T x y); split; auto; try discriminate; contradiction. Qed.
Lemma Rltb_true x y : Rltb x y = true <-> x < y.
Proof. unfold Rltb. destruct (Rlt_dec x y); split; auto; discriminate. Qed.
Lemma Rltb_false x y : Rltb x y = false <-> y <= x.
Proof. unfold Rltb. destruct (Rlt_dec x y); split; auto; try discriminate; lra. Qed.
Lemma Rleb_true x y : Rleb x y = true <-> x <= y.
Proof. unfold Rleb. destruct (Rle_dec x y); split; auto; discriminate. Qed.
Lemma Rleb_false x y : Rleb x y = false <-> y < x.
Proof. unfold Rleb. destruct (Rle_dec x y); split; auto; try discriminate; lra. Qed.
