(** Proofs for C12 (broadcast arithmetic follows NumPy semantics).  Statements are pinned in Properties/C12.v.
    Everything is for an arbitrary carrier [T] and an arbitrary binary operation [op] (no law assumed). *)
From Coq Require Import String.
From Coq Require Import List Arith Bool Lia.
From Compute Require Import Base.Ops Base.ListMat Model.Broadcast Spec.Broadcast Spec.BroadcastClassifier.
From Compute Require Import Proofs.C12Lists Proofs.C12Classifier.
Import ListNotations.

Lemma bidx_1 i : bidx 1 i = 0.
Proof. reflexivity. Qed.
Lemma bidx_lt n i : i < n -> bidx n i = i.
Proof. unfold bidx. destruct (Nat.eqb_spec n 1); lia. Qed.
Lemma bidx_ne1 n i : n <> 1 -> bidx n i = i.
Proof. unfold bidx. destruct (Nat.eqb_spec n 1); lia. Qed.

Lemma dim_compatible_b_spec a b : reflect (dim_compatible a b) (dim_compatible_b a b).
Proof.
  unfold dim_compatible, dim_compatible_b.
  destruct (Nat.eqb_spec a b), (Nat.eqb_spec a 1), (Nat.eqb_spec b 1); cbn; constructor; lia.
Qed.
Lemma np_compatible_b_spec r1 c1 r2 c2 : reflect (np_compatible r1 c1 r2 c2) (np_compatible_b r1 c1 r2 c2).
Proof.
  unfold np_compatible, np_compatible_b.
  destruct (dim_compatible_b_spec r1 r2), (dim_compatible_b_spec c1 c2); cbn; constructor; tauto.
Qed.

Section Proofs.
  Context {T : Type} (op : T -> T -> T).
  Implicit Types (a : list T) (M : list (list T)).

  (** *** rows of a well-formed flat array *)
  Lemma row_length a r c i : length a = r * c -> i < r -> length (nth i (unflatten a r c) []) = c.
  Proof. intros Hl Hi. rewrite nth_unflatten by exact Hi. eapply length_row_of; eassumption. Qed.

  Lemma row_entry a r c i j d : i < r -> j < c -> nth j (nth i (unflatten a r c) []) d = flat_at d a c i j.
  Proof. intros Hi Hj. rewrite nth_unflatten by exact Hi. apply nth_row_of. exact Hj. Qed.

  Lemma row_error a r c i : i < r -> nth_error (unflatten a r c) i = Some (nth i (unflatten a r c) []).
  Proof. intros Hi. apply nth_error_nth_some. rewrite length_unflatten. exact Hi. Qed.

  Lemma at2_unflatten a r c i j d :
    length a = r * c -> i < r -> j < c -> at2 (unflatten a r c) i j = Some (flat_at d a c i j).
  Proof.
    intros Hl Hi Hj. unfold at2. rewrite row_error by exact Hi. cbn [bind].
    rewrite (nth_error_nth_some _ j d) by (rewrite (row_length a r c i Hl Hi); exact Hj).
    rewrite row_entry by assumption. reflexivity.
  Qed.

  (** *** the two loop shapes of the arms *)
  Lemma loop_apply (f : nat -> T -> option T) (g : nat -> T -> T) n M :
    n = length M -> (forall i x, i < n -> f i x = Some (g i x)) ->
    for_opt (seq 0 n) (fun new i => apply_along_row new i (f i)) M
    = Some (mapi (fun i r => map (g i) r) M).
  Proof.
    intros Hn Hf. apply (for_opt_rows_n (fun i r => map (g i) r)); [exact Hn|].
    intros new i Hi Hl. unfold apply_along_row.
    rewrite (nth_error_nth_some new i []) by lia. cbn [bind].
    rewrite (mapM_some (f i) (g i)) by (intros; apply Hf; exact Hi). reflexivity.
  Qed.

  Lemma loop_zip (f : T -> T -> T) n M (Other : list (list T)) y :
    n = length M -> nth_error Other 0 = Some y ->
    for_opt (seq 0 n) (fun new i => zip_row new i Other f) M
    = Some (mapi (fun _ r => zip_assign f r y) M).
  Proof.
    intros Hn Hy. apply (for_opt_rows_n (fun _ r => zip_assign f r y)); [exact Hn|].
    intros new i Hi Hl. unfold zip_row.
    rewrite (nth_error_nth_some new i []) by lia. cbn [bind]. rewrite Hy. reflexivity.
  Qed.

  (** *** closing lemmas: rows / flat data with the right shape and entries are the NumPy result *)
  Lemma length_np_data d r1 c1 a1 r2 c2 a2 :
    length (np_data op d r1 c1 a1 r2 c2 a2) = Nat.max r1 r2 * Nat.max c1 c2.
  Proof.
    unfold np_data. rewrite (length_concat_uniform _ (Nat.max c1 c2)) by apply tabulate_rows_length.
    rewrite length_tabulate. reflexivity.
  Qed.

  Lemma nth_np_data d r1 c1 a1 r2 c2 a2 i j :
    i < Nat.max r1 r2 -> j < Nat.max c1 c2 ->
    nth (i * Nat.max c1 c2 + j) (np_data op d r1 c1 a1 r2 c2 a2) d = np_entry op d r1 c1 a1 r2 c2 a2 i j.
  Proof.
    intros Hi Hj. unfold np_data.
    rewrite (nth_concat_uniform _ (Nat.max c1 c2)); [|apply tabulate_rows_length|rewrite length_tabulate; exact Hi|exact Hj].
    apply nth_nth_tabulate; assumption.
  Qed.

  Lemma rows_np d M r1 c1 a1 r2 c2 a2 R C :
    R = Nat.max r1 r2 -> C = Nat.max c1 c2 -> length M = R ->
    (forall i, i < R -> length (nth i M []) = C) ->
    (forall i j, i < R -> j < C -> nth j (nth i M []) d = np_entry op d r1 c1 a1 r2 c2 a2 i j) ->
    Some (mkmat R C (flatten M))
    = Some (mkmat (Nat.max r1 r2) (Nat.max c1 c2) (np_data op d r1 c1 a1 r2 c2 a2)).
  Proof.
    intros -> -> HR HC He. do 2 f_equal. unfold flatten, np_data. f_equal.
    apply (tabulate_ext M _ _ _ d); assumption.
  Qed.

  Lemma flat_np d data r1 c1 a1 r2 c2 a2 R C :
    R = Nat.max r1 r2 -> C = Nat.max c1 c2 -> length data = R * C ->
    (forall i j, i < R -> j < C -> nth (i * C + j) data d = np_entry op d r1 c1 a1 r2 c2 a2 i j) ->
    data = np_data op d r1 c1 a1 r2 c2 a2.
  Proof.
    intros -> -> Hl He. apply (flat_ext _ _ (Nat.max r1 r2) (Nat.max c1 c2) d); [exact Hl|apply length_np_data|].
    intros i j Hi Hj. rewrite He, nth_np_data by assumption. reflexivity.
  Qed.

  Lemma matrix_new_ok (data : list T) r c :
    0 < r -> 0 < c -> length data = r * c -> matrix_new data r c = Some (mkmat r c data).
  Proof.
    intros Hr Hc Hl. unfold matrix_new, new_ok.
    replace (0 <? r) with true by (symmetry; apply Nat.ltb_lt; exact Hr).
    replace (0 <? c) with true by (symmetry; apply Nat.ltb_lt; exact Hc).
    replace (r * c =? length data) with true by (symmetry; apply Nat.eqb_eq; lia).
    reflexivity.
  Qed.

  (** the requests [Matrix::new] accepts (repaired code): positive dimensions whose product is the length, or 0 x 0 on
      empty data; everything else, in particular every other shape with a zero dimension, is refused *)
  Lemma new_ok_spec len r c :
    new_ok len r c = true <-> (0 < r /\ 0 < c /\ r * c = len) \/ (r = 0 /\ c = 0 /\ len = 0).
  Proof.
    unfold new_ok. rewrite orb_true_iff, !andb_true_iff, !Nat.ltb_lt, !Nat.eqb_eq. tauto.
  Qed.
  Lemma new_ok_pos len r c : 0 < r -> 0 < c -> new_ok len r c = (r * c =? len).
  Proof.
    intros Hr Hc. unfold new_ok.
    replace (0 <? r) with true by (symmetry; apply Nat.ltb_lt; exact Hr).
    replace (0 <? c) with true by (symmetry; apply Nat.ltb_lt; exact Hc).
    replace (r =? 0) with false by (symmetry; apply Nat.eqb_neq; lia).
    cbn [andb]. apply orb_false_r.
  Qed.
  Lemma matrix_new_spec (data : list T) r c :
    matrix_new data r c = if new_ok (length data) r c then Some (mkmat r c data) else None.
  Proof. unfold matrix_new. destruct (new_ok _ _ _); reflexivity. Qed.
  Lemma matrix_new_empty : matrix_new (@nil T) 0 0 = Some empty_mat.
  Proof. reflexivity. Qed.
  Lemma matrix_new_zero_dim (data : list T) r c :
    r = 0 \/ c = 0 -> ~ (r = 0 /\ c = 0 /\ data = []) -> matrix_new data r c = None.
  Proof.
    intros Hz Hn. rewrite matrix_new_spec.
    destruct (new_ok (length data) r c) eqn:E; [|reflexivity].
    apply new_ok_spec in E. destruct E as [(Hr & Hc & _)|(Hr & Hc & Hl)]; [lia|].
    exfalso. apply Hn. repeat split; auto. destruct data; [reflexivity|discriminate].
  Qed.

  Ltac start Hc :=
    unfold broadcast, rows; cbn [nr nc dat]; rewrite Hc; cbn [bind];
    rewrite ?Nat.eqb_refl; cbn [andb guard bind].
  Ltac ltb_true :=
    repeat match goal with
           | |- context [0 <? ?n] => replace (0 <? n) with true by (symmetry; apply Nat.ltb_lt; lia)
           end; cbn [andb guard bind].

  (** *** the nine valid arms *)
  (** equal shapes: the vv kernel on the flat data *)
  Lemma arm_NN d r c a1 a2 :
    0 < r -> 0 < c -> length a1 = r * c -> length a2 = r * c ->
    calc_broadcast_shape r c r c = Some (BNone, BNone) ->
    broadcast op (mkmat r c a1) (mkmat r c a2)
    = Some (mkmat (Nat.max r r) (Nat.max c c) (np_data op d r c a1 r c a2)).
  Proof.
    intros Hr Hc0 H1 H2 Hc. start Hc. unfold matmat; cbn [nr nc dat].
    rewrite ?Nat.eqb_refl; cbn [andb guard bind].
    replace (length a1 =? length a2) with true by (symmetry; apply Nat.eqb_eq; lia). cbn [guard bind].
    rewrite matrix_new_ok by (try assumption; rewrite length_map2; lia).
    rewrite !Nat.max_id. do 2 f_equal.
    apply (flat_np d _ r c a1 r c a2 r c); [symmetry; apply Nat.max_id|symmetry; apply Nat.max_id|rewrite length_map2; lia|].
    intros i j Hi Hj. rewrite (nth_map2 op a1 a2 _ d d d) by nia.
    unfold np_entry, flat_at. rewrite !(bidx_lt r i), !(bidx_lt c j) by assumption. reflexivity.
  Qed.

  (** column o matrix: each m1[i][0] against row i of m2, m1 on the left *)
  Lemma arm_HN d r c a1 a2 :
    0 < r -> 0 < c -> length a1 = r * 1 -> length a2 = r * c -> c <> 1 ->
    calc_broadcast_shape r 1 r c = Some (BHstack c, BNone) ->
    broadcast op (mkmat r 1 a1) (mkmat r c a2)
    = Some (mkmat (Nat.max r r) (Nat.max 1 c) (np_data op d r 1 a1 r c a2)).
  Proof.
    intros Hr Hc0 H1 H2 Hne Hc. start Hc.
    rewrite (loop_apply _ (fun i x => op (flat_at d a1 1 i 0) x));
      [|rewrite length_unflatten; reflexivity
       |intros i x Hi; rewrite (at2_unflatten a1 r 1 i 0 d) by (try assumption; lia); reflexivity].
    cbn [bind]. apply (rows_np d); [symmetry; apply Nat.max_id|lia|rewrite length_mapi, length_unflatten; reflexivity| |].
    - intros i Hi. rewrite (nth_mapi _ _ i [] []) by (rewrite length_unflatten; exact Hi).
      rewrite map_length. apply row_length; assumption.
    - intros i j Hi Hj. rewrite (nth_mapi _ _ i [] []) by (rewrite length_unflatten; exact Hi).
      rewrite (nth_map_lt _ _ j d d) by (rewrite row_length by assumption; exact Hj).
      rewrite row_entry by assumption.
      unfold np_entry. rewrite bidx_1, !(bidx_lt r i), (bidx_ne1 c j) by assumption. reflexivity.
  Qed.

  (** row o matrix: the row m1[0] against every row of m2, m1 on the left *)
  Lemma arm_VN d r c a1 a2 :
    0 < r -> 0 < c -> length a1 = 1 * c -> length a2 = r * c -> r <> 1 ->
    calc_broadcast_shape 1 c r c = Some (BVstack r, BNone) ->
    broadcast op (mkmat 1 c a1) (mkmat r c a2)
    = Some (mkmat (Nat.max 1 r) (Nat.max c c) (np_data op d 1 c a1 r c a2)).
  Proof.
    intros Hr Hc0 H1 H2 Hne Hc. start Hc.
    rewrite (loop_zip _ _ _ _ (nth 0 (unflatten a1 1 c) []));
      [|rewrite length_unflatten; reflexivity|apply row_error; lia].
    cbn [bind]. apply (rows_np d); [lia|symmetry; apply Nat.max_id|rewrite length_mapi, length_unflatten; reflexivity| |].
    - intros i Hi. rewrite (nth_mapi _ _ i [] []) by (rewrite length_unflatten; exact Hi).
      rewrite length_zip_assign. apply row_length; assumption.
    - intros i j Hi Hj. rewrite (nth_mapi _ _ i [] []) by (rewrite length_unflatten; exact Hi).
      rewrite nth_zip_assign by (rewrite row_length by (try assumption; lia); exact Hj).
      rewrite !row_entry by (try assumption; lia).
      unfold np_entry. rewrite bidx_1, (bidx_ne1 r i), !(bidx_lt c j) by assumption. reflexivity.
  Qed.

  (** matrix o column *)
  Lemma arm_NH d r c a1 a2 :
    0 < r -> 0 < c -> length a1 = r * c -> length a2 = r * 1 -> c <> 1 ->
    calc_broadcast_shape r c r 1 = Some (BNone, BHstack c) ->
    broadcast op (mkmat r c a1) (mkmat r 1 a2)
    = Some (mkmat (Nat.max r r) (Nat.max c 1) (np_data op d r c a1 r 1 a2)).
  Proof.
    intros Hr Hc0 H1 H2 Hne Hc. start Hc.
    rewrite (loop_apply _ (fun i x => op x (flat_at d a2 1 i 0)));
      [|rewrite length_unflatten; reflexivity
       |intros i x Hi; rewrite (at2_unflatten a2 r 1 i 0 d) by (try assumption; lia); reflexivity].
    cbn [bind]. apply (rows_np d); [symmetry; apply Nat.max_id|lia|rewrite length_mapi, length_unflatten; reflexivity| |].
    - intros i Hi. rewrite (nth_mapi _ _ i [] []) by (rewrite length_unflatten; exact Hi).
      rewrite map_length. apply row_length; assumption.
    - intros i j Hi Hj. rewrite (nth_mapi _ _ i [] []) by (rewrite length_unflatten; exact Hi).
      rewrite (nth_map_lt _ _ j d d) by (rewrite row_length by assumption; exact Hj).
      rewrite row_entry by assumption.
      unfold np_entry. rewrite bidx_1, !(bidx_lt r i), (bidx_ne1 c j) by assumption. reflexivity.
  Qed.

  (** matrix o row *)
  Lemma arm_NV d r c a1 a2 :
    0 < r -> 0 < c -> length a1 = r * c -> length a2 = 1 * c -> r <> 1 ->
    calc_broadcast_shape r c 1 c = Some (BNone, BVstack r) ->
    broadcast op (mkmat r c a1) (mkmat 1 c a2)
    = Some (mkmat (Nat.max r 1) (Nat.max c c) (np_data op d r c a1 1 c a2)).
  Proof.
    intros Hr Hc0 H1 H2 Hne Hc. start Hc.
    rewrite (loop_zip _ _ _ _ (nth 0 (unflatten a2 1 c) []));
      [|rewrite length_unflatten; reflexivity|apply row_error; lia].
    cbn [bind]. apply (rows_np d); [lia|symmetry; apply Nat.max_id|rewrite length_mapi, length_unflatten; reflexivity| |].
    - intros i Hi. rewrite (nth_mapi _ _ i [] []) by (rewrite length_unflatten; exact Hi).
      rewrite length_zip_assign. apply row_length; assumption.
    - intros i j Hi Hj. rewrite (nth_mapi _ _ i [] []) by (rewrite length_unflatten; exact Hi).
      rewrite nth_zip_assign by (rewrite row_length by (try assumption; lia); exact Hj).
      rewrite !row_entry by (try assumption; lia).
      unfold np_entry. rewrite bidx_1, (bidx_ne1 r i), !(bidx_lt c j) by assumption. reflexivity.
  Qed.

  Lemma tabulate_mapM (f : nat -> nat -> option T) (g : nat -> nat -> T) R C :
    (forall i j, i < R -> j < C -> f i j = Some (g i j)) ->
    mapM (fun i => mapM (fun j => f i j) (seq 0 C)) (seq 0 R) = Some (tabulate R C g).
  Proof.
    intros H. unfold tabulate. apply mapM_some. intros i Hi. apply in_seq in Hi.
    apply mapM_some. intros j Hj. apply in_seq in Hj. apply H; lia.
  Qed.

  (** column o row (outer): new[i][j] = m1[i][0] op m2[0][j] *)
  Lemma arm_HV d r c a1 a2 :
    0 < r -> 0 < c -> length a1 = r * 1 -> length a2 = 1 * c -> r <> 1 ->
    calc_broadcast_shape r 1 1 c = Some (BHstack c, BVstack r) ->
    broadcast op (mkmat r 1 a1) (mkmat 1 c a2)
    = Some (mkmat (Nat.max r 1) (Nat.max 1 c) (np_data op d r 1 a1 1 c a2)).
  Proof.
    intros Hr Hc0 H1 H2 Hne Hc. start Hc. ltb_true.
    rewrite new_ok_pos, Nat.eqb_refl by assumption. cbn [guard bind].
    rewrite (tabulate_mapM _ (fun i j => op (flat_at d a1 1 i 0) (flat_at d a2 c 0 j)));
      [|intros i j Hi Hj; rewrite (at2_unflatten a1 r 1 i 0 d), (at2_unflatten a2 1 c 0 j d) by (try assumption; lia);
        reflexivity].
    cbn [bind]. apply (rows_np d); [lia|lia|apply length_tabulate| |].
    - intros i Hi. rewrite nth_tabulate by exact Hi. rewrite map_length, seq_length. reflexivity.
    - intros i j Hi Hj. rewrite nth_nth_tabulate by assumption.
      unfold np_entry. rewrite !bidx_1, (bidx_ne1 r i) by assumption.
      destruct (Nat.eq_dec c 1) as [->|Hc1]; [replace j with 0 by lia; reflexivity|].
      rewrite (bidx_ne1 c j) by assumption. reflexivity.
  Qed.

  (** row o column (outer): new[i][j] = m1[0][j] op m2[i][0] *)
  Lemma arm_VH d r c a1 a2 :
    0 < r -> 0 < c -> length a1 = 1 * c -> length a2 = r * 1 -> c <> 1 ->
    calc_broadcast_shape 1 c r 1 = Some (BVstack r, BHstack c) ->
    broadcast op (mkmat 1 c a1) (mkmat r 1 a2)
    = Some (mkmat (Nat.max 1 r) (Nat.max c 1) (np_data op d 1 c a1 r 1 a2)).
  Proof.
    intros Hr Hc0 H1 H2 Hne Hc. start Hc. ltb_true.
    rewrite new_ok_pos, Nat.eqb_refl by assumption. cbn [guard bind].
    rewrite (tabulate_mapM _ (fun i j => op (flat_at d a1 c 0 j) (flat_at d a2 1 i 0)));
      [|intros i j Hi Hj; rewrite (at2_unflatten a1 1 c 0 j d), (at2_unflatten a2 r 1 i 0 d) by (try assumption; lia);
        reflexivity].
    cbn [bind]. apply (rows_np d); [lia|lia|apply length_tabulate| |].
    - intros i Hi. rewrite nth_tabulate by exact Hi. rewrite map_length, seq_length. reflexivity.
    - intros i j Hi Hj. rewrite nth_nth_tabulate by assumption.
      unfold np_entry. rewrite !bidx_1, (bidx_ne1 c j) by assumption.
      destruct (Nat.eq_dec r 1) as [->|Hr1]; [replace i with 0 by lia; reflexivity|].
      rewrite (bidx_ne1 r i) by assumption. reflexivity.
  Qed.

  (** scalar o matrix and matrix o scalar: the sv / vs kernels on the flat data *)
  Lemma arm_SN d r c a1 a2 b2 :
    0 < r -> 0 < c -> length a1 = 1 * 1 -> length a2 = r * c ->
    calc_broadcast_shape 1 1 r c = Some (BIsScalar, b2) ->
    broadcast op (mkmat 1 1 a1) (mkmat r c a2)
    = Some (mkmat (Nat.max 1 r) (Nat.max 1 c) (np_data op d 1 1 a1 r c a2)).
  Proof.
    intros Hr Hc0 H1 H2 Hc. start Hc.
    rewrite (at2_unflatten a1 1 1 0 0 d) by (try assumption; lia). cbn [bind].
    unfold scalar_mat; cbn [nr nc dat].
    rewrite matrix_new_ok by (try assumption; rewrite map_length; lia).
    rewrite (Nat.max_r 1 r), (Nat.max_r 1 c) by lia. do 2 f_equal.
    apply (flat_np d _ 1 1 a1 r c a2 r c); [lia|lia|rewrite map_length; lia|].
    intros i j Hi Hj. rewrite (nth_map_lt _ _ _ d d) by nia.
    unfold np_entry. rewrite !bidx_1, (bidx_lt r i), (bidx_lt c j) by assumption. reflexivity.
  Qed.

  Lemma arm_NS d r c a1 a2 :
    0 < r -> 0 < c -> length a1 = r * c -> length a2 = 1 * 1 ->
    calc_broadcast_shape r c 1 1 = Some (BNone, BIsScalar) ->
    broadcast op (mkmat r c a1) (mkmat 1 1 a2)
    = Some (mkmat (Nat.max r 1) (Nat.max c 1) (np_data op d r c a1 1 1 a2)).
  Proof.
    intros Hr Hc0 H1 H2 Hc. start Hc.
    rewrite (at2_unflatten a2 1 1 0 0 d) by (try assumption; lia). cbn [bind].
    unfold mat_scalar; cbn [nr nc dat].
    rewrite matrix_new_ok by (try assumption; rewrite map_length; lia).
    rewrite (Nat.max_l r 1), (Nat.max_l c 1) by lia. do 2 f_equal.
    apply (flat_np d _ r c a1 1 1 a2 r c); [lia|lia|rewrite map_length; lia|].
    intros i j Hi Hj. rewrite (nth_map_lt _ _ _ d d) by nia.
    unfold np_entry. rewrite !bidx_1, (bidx_lt r i), (bidx_lt c j) by assumption. reflexivity.
  Qed.

  (** *** the closed form: [broadcast] IS the NumPy rule, acceptance and rejection *)
  Theorem broadcast_numpy (m1 m2 : mat T) (d : T) :
    wf_mat m1 -> wf_mat m2 ->
    broadcast op m1 m2 =
    if np_compatible_b (nr m1) (nc m1) (nr m2) (nc m2)
    then Some (mkmat (Nat.max (nr m1) (nr m2)) (Nat.max (nc m1) (nc m2))
                     (np_data op d (nr m1) (nc m1) (dat m1) (nr m2) (nc m2) (dat m2)))
    else None.
  Proof.
    destruct m1 as [r1 c1 a1], m2 as [r2 c2 a2]. unfold wf_mat; cbn [nr nc dat].
    intros (Hr1 & Hc1 & Hl1) (Hr2 & Hc2 & Hl2).
    destruct (calc_broadcast_shape r1 c1 r2 c2) as [b|] eqn:Hc.
    - destruct (classifier_sound _ _ _ _ _ Hc) as [->|Hl].
      + (* (Invalid, Invalid): the catch-all arm panics, and the shapes are incompatible *)
        destruct (np_compatible_b_spec r1 c1 r2 c2) as [Hcomp|_].
        * apply classifier_total in Hcomp. destruct Hcomp as [b [Hb Hn]]. congruence.
        * unfold broadcast; cbn [nr nc dat]. rewrite Hc. reflexivity.
      + pose proof (leaf_ok_compatible _ _ _ _ _ Hl) as Hcomp.
        destruct (np_compatible_b_spec r1 c1 r2 c2) as [_|Hn]; [|contradiction].
        destruct b as [[h1|v1| | |] [h2|v2| | |]]; cbn in Hl; try contradiction.
        * destruct Hl as (-> & -> & -> & -> & Hne). apply arm_HV; assumption.
        * destruct Hl as (-> & <- & -> & Hne). apply arm_HN; assumption.
        * destruct Hl as (-> & -> & -> & -> & Hne). apply arm_VH; assumption.
        * destruct Hl as (-> & <- & -> & Hne). apply arm_VN; assumption.
        * destruct Hl as (-> & -> & Hne). eapply arm_SN; eassumption.
        * destruct Hl as (-> & <- & -> & Hne). apply arm_NH; assumption.
        * destruct Hl as (-> & <- & -> & Hne). apply arm_NV; assumption.
        * destruct Hl as (-> & -> & Hne1 & Hne2). apply arm_NS; assumption.
        * destruct Hl as (<- & <-). apply arm_NN; assumption.
    - (* an assert! of the classifier failed: the shapes are incompatible *)
      destruct (np_compatible_b_spec r1 c1 r2 c2) as [Hcomp|_].
      + apply classifier_complete in Hcomp. destruct Hcomp as [b [Hb _]]. congruence.
      + unfold broadcast; cbn [nr nc dat]. rewrite Hc. reflexivity.
  Qed.
End Proofs.

(** ** The three readings of the property, derived from the closed form *)
Section Corollaries.
  Context {T : Type} (op : T -> T -> T).

  Lemma wf_inhabited (m : mat T) : wf_mat m -> exists d : T, True.
  Proof.
    intros (Hr & Hc & Hl). destruct (dat m) as [|d l]; [cbn in Hl; nia|]. exists d; exact I.
  Qed.

  (** no incompatible pair yields a value, no compatible pair panics *)
  Theorem broadcast_total (m1 m2 : mat T) :
    wf_mat m1 -> wf_mat m2 ->
    (np_compatible (nr m1) (nc m1) (nr m2) (nc m2) <-> exists r, broadcast op m1 m2 = Some r).
  Proof.
    intros H1 H2. destruct (wf_inhabited m1 H1) as [d _].
    rewrite (broadcast_numpy op m1 m2 d H1 H2).
    destruct (np_compatible_b_spec (nr m1) (nc m1) (nr m2) (nc m2)) as [Hc|Hn]; split.
    - intros _. eexists; reflexivity.
    - intros _. exact Hc.
    - intros Hc. contradiction.
    - intros [r Hr]. discriminate Hr.
  Qed.

  (** the result has the element-wise maximum shape (and is again a well-formed matrix) *)
  Theorem broadcast_shape (m1 m2 r : mat T) :
    wf_mat m1 -> wf_mat m2 -> broadcast op m1 m2 = Some r ->
    nr r = Nat.max (nr m1) (nr m2) /\ nc r = Nat.max (nc m1) (nc m2) /\ wf_mat r.
  Proof.
    intros H1 H2. destruct (wf_inhabited m1 H1) as [d _].
    rewrite (broadcast_numpy op m1 m2 d H1 H2).
    destruct (np_compatible_b _ _ _ _); [|discriminate]. intros Hr; injection Hr as <-.
    cbn [nr nc dat]. split; [reflexivity|]. split; [reflexivity|].
    destruct H1 as (? & ? & _), H2 as (? & ? & _). unfold wf_mat; cbn [nr nc dat].
    rewrite length_np_data. repeat split; lia.
  Qed.

  (** entry (i,j) is left[i or 0][j or 0] op right[i or 0][j or 0], the left operand on the left *)
  Theorem broadcast_entry (m1 m2 r : mat T) (d : T) (i j : nat) :
    wf_mat m1 -> wf_mat m2 -> broadcast op m1 m2 = Some r ->
    i < nr r -> j < nc r ->
    nth (i * nc r + j) (dat r) d =
    op (nth (bidx (nr m1) i * nc m1 + bidx (nc m1) j) (dat m1) d)
       (nth (bidx (nr m2) i * nc m2 + bidx (nc m2) j) (dat m2) d).
  Proof.
    intros H1 H2. rewrite (broadcast_numpy op m1 m2 d H1 H2).
    destruct (np_compatible_b _ _ _ _); [|discriminate]. intros Hr; injection Hr as <-.
    cbn [nr nc dat]. intros Hi Hj. rewrite nth_np_data by assumption. reflexivity.
  Qed.

  (** *** Vector promotion *)
  Lemma vec_to_matrix_nonempty (v : list T) :
    v <> [] -> vec_to_matrix v = Some (mkmat 1 (length v) v) /\ wf_mat (mkmat 1 (length v) v).
  Proof.
    intros Hv. assert (0 < length v) by (destruct v; [contradiction|cbn; lia]).
    unfold vec_to_matrix. split; [apply matrix_new_ok; lia|].
    unfold wf_mat; cbn [nr nc dat]. lia.
  Qed.

  Lemma vec_to_matrix_empty : vec_to_matrix (@nil T) = None.
  Proof. reflexivity. Qed.

  (** *** The empty 0 x 0 matrix ([Matrix::empty()]) under broadcasting (repaired [Matrix::new]): NumPy's rule for the
      shape (0, 0) -- compatible exactly with (0, 0) and with (1, 1), the result being (0, 0) -- and a panic for
      every other well-formed operand *)
  Lemma broadcast_empty_empty : broadcast op empty_mat empty_mat = Some empty_mat.
  Proof. reflexivity. Qed.

  Lemma broadcast_empty_l (m : mat T) :
    wf_mat m -> broadcast op empty_mat m = if (nr m =? 1) && (nc m =? 1) then Some empty_mat else None.
  Proof.
    destruct m as [r c a]. intros (Hr & Hc & Hl). cbn [nr nc dat] in *.
    destruct r as [|[|r]]; [lia| |]; (destruct c as [|[|c]]; [lia| |]); try reflexivity.
    destruct a as [|x [|y a]]; try discriminate Hl. reflexivity.
  Qed.

  Lemma broadcast_empty_r (m : mat T) :
    wf_mat m -> broadcast op m empty_mat = if (nr m =? 1) && (nc m =? 1) then Some empty_mat else None.
  Proof.
    destruct m as [r c a]. intros (Hr & Hc & Hl). cbn [nr nc dat] in *.
    destruct r as [|[|r]]; [lia| |]; (destruct c as [|[|c]]; [lia| |]); try reflexivity.
    destruct a as [|x [|y a]]; try discriminate Hl. reflexivity.
  Qed.

  Lemma empty_matrix_broadcast :
    broadcast op (mkmat 0 0 []) (mkmat 0 0 []) = Some (mkmat 0 0 []) /\
    forall m : mat T, wf_mat m ->
      broadcast op (mkmat 0 0 []) m = (if (nr m =? 1) && (nc m =? 1) then Some (mkmat 0 0 []) else None) /\
      broadcast op m (mkmat 0 0 []) = (if (nr m =? 1) && (nc m =? 1) then Some (mkmat 0 0 []) else None).
  Proof.
    split; [apply broadcast_empty_empty|].
    intros m Hm. split; [apply broadcast_empty_l|apply broadcast_empty_r]; exact Hm.
  Qed.

  Lemma matrix_new_accepts (a : list T) (r c : nat) :
    matrix_new a r c = (if new_ok (length a) r c then Some (mkmat r c a) else None) /\
    (new_ok (length a) r c = true <-> (0 < r /\ 0 < c /\ r * c = length a) \/ (r = 0 /\ c = 0 /\ length a = 0)).
  Proof. split; [apply matrix_new_spec|apply new_ok_spec]. Qed.

  (** on operands that are well formed or empty: a result is again well formed or empty *)
  Lemma broadcast_wf0 (m1 m2 r : mat T) :
    wf_mat0 m1 -> wf_mat0 m2 -> broadcast op m1 m2 = Some r -> wf_mat0 r.
  Proof.
    intros [H1| ->] [H2| ->] E.
    - left. exact (proj2 (proj2 (broadcast_shape m1 m2 r H1 H2 E))).
    - rewrite broadcast_empty_r in E by assumption. destruct (_ && _); [|discriminate]. right. congruence.
    - rewrite broadcast_empty_l in E by assumption. destruct (_ && _); [|discriminate]. right. congruence.
    - rewrite broadcast_empty_empty in E. right. congruence.
  Qed.
End Corollaries.

(** ** The wiring of the 48 operator impls (regenerated table, Tie A) *)
Lemma wiring_consistent_true : wiring_consistent = true.
Proof. vm_compute. reflexivity. Qed.

Lemma optok_eqb_eq a b : optok_eqb a b = true -> a = b.
Proof. destruct a, b; cbn; congruence. Qed.

Section Wiring.
  Context {T : Type} (O : Ops T).

  Lemma impl_row_ok_run (row : impl_row) (self other : value T) :
    impl_row_ok row = true ->
    value_has_type (i_self row) self = true -> value_has_type (i_other row) other = true ->
    run_impl O row self other =
    bind (promote self) (fun a => bind (promote other) (fun b =>
      broadcast (tok_op O (trait_tok (i_trait row))) a b)).
  Proof.
    unfold impl_row_ok. rewrite !andb_true_iff.
    intros ((((((Htok & _) & Hbase) & Hm1) & Hm2) & _) & _) Hs Ho.
    unfold run_impl.
    destruct (callee_tok (i_callee row)) as [t|]; [|discriminate Htok]. cbn in Htok.
    apply optok_eqb_eq in Htok; subst t. cbn [bind].
    apply eqb_prop in Hm1, Hm2. unfold eval_arg.
    destruct (a_base (i_arg1 row)), (a_base (i_arg2 row)); try discriminate Hbase.
    rewrite Hm1, Hm2.
    destruct self as [m|v], other as [m'|v']; cbn in Hs, Ho;
      destruct (is_vec_ty (i_self row)), (is_vec_ty (i_other row)); try discriminate; reflexivity.
  Qed.

  (** each of the 48 generated impls applies the broadcast of ITS trait's operator to (self, other) in this
      order, a Vector operand promoted to 1 x n *)
  Theorem impls_are_broadcast (row : impl_row) (self other : value T) :
    In row impl_rows ->
    value_has_type (i_self row) self = true -> value_has_type (i_other row) other = true ->
    run_impl O row self other =
    bind (promote self) (fun a => bind (promote other) (fun b =>
      broadcast (tok_op O (trait_tok (i_trait row))) a b)).
  Proof.
    intros Hin. apply impl_row_ok_run.
    pose proof wiring_consistent_true as W. unfold wiring_consistent in W.
    rewrite !andb_true_iff in W. destruct W as ((((((_ & Hall) & _) & _) & _) & _) & _).
    rewrite forallb_forall in Hall. apply Hall. exact Hin.
  Qed.

  (** every (trait, Self, Other) combination of the property resolves to one of the rows *)
  Theorem impls_cover (tr : optrait) (s o : opty) :
    In tr all_traits -> In (s, o) all_type_pairs ->
    exists row, find_impl tr s o = Some row /\ In row impl_rows /\
                i_trait row = tr /\ i_self row = s /\ i_other row = o.
  Proof.
    intros Ht Hp.
    assert (H : forallb (fun tr => forallb (fun so =>
              match find_impl tr (fst so) (snd so) with
              | Some row => optrait_eqb (i_trait row) tr && opty_eqb (i_self row) (fst so)
                            && opty_eqb (i_other row) (snd so)
              | None => false end) all_type_pairs) all_traits = true) by (vm_compute; reflexivity).
    rewrite forallb_forall in H. specialize (H tr Ht). rewrite forallb_forall in H.
    specialize (H (s, o) Hp). cbn [fst snd] in H.
    destruct (find_impl tr s o) as [row|] eqn:Hf; [|discriminate H].
    exists row. split; [reflexivity|]. split; [apply (find_some _ _ Hf)|].
    rewrite !andb_true_iff in H. destruct H as ((H1 & H2) & H3).
    repeat split.
    - destruct (i_trait row), tr; cbn in H1; congruence.
    - destruct (i_self row), s; cbn in H2; congruence.
    - destruct (i_other row), o; cbn in H3; congruence.
  Qed.

  Lemma denotes_promote (v : value T) (m : mat T) : denotes v m -> promote v = Some m /\ wf_mat m.
  Proof.
    destruct v as [m'|l]; cbn.
    - intros [-> H]. auto.
    - intros [Hl ->]. apply vec_to_matrix_nonempty. exact Hl.
  Qed.

  (** the property at the level of the operators: every impl returns the NumPy result of its operator with
      [self] on the left, or panics exactly on incompatible shapes *)
  Theorem operator_numpy (row : impl_row) (self other : value T) (m1 m2 : mat T) (d : T) :
    In row impl_rows ->
    value_has_type (i_self row) self = true -> value_has_type (i_other row) other = true ->
    denotes self m1 -> denotes other m2 ->
    run_impl O row self other =
    if np_compatible_b (nr m1) (nc m1) (nr m2) (nc m2)
    then Some (mkmat (Nat.max (nr m1) (nr m2)) (Nat.max (nc m1) (nc m2))
                     (np_data (tok_op O (trait_tok (i_trait row))) d
                              (nr m1) (nc m1) (dat m1) (nr m2) (nc m2) (dat m2)))
    else None.
  Proof.
    intros Hin Hs Ho D1 D2. rewrite impls_are_broadcast by assumption.
    destruct (denotes_promote _ _ D1) as [-> W1], (denotes_promote _ _ D2) as [-> W2]. cbn [bind].
    apply broadcast_numpy; assumption.
  Qed.

  (** an empty Vector operand always panics (its promotion to a 1 x 0 matrix is refused by [Matrix::new]) *)
  Theorem empty_vector_panics (row : impl_row) (self other : value T) :
    In row impl_rows ->
    value_has_type (i_self row) self = true -> value_has_type (i_other row) other = true ->
    self = VVec [] \/ other = VVec [] ->
    run_impl O row self other = None.
  Proof.
    intros Hin Hs Ho H. rewrite impls_are_broadcast by assumption.
    destruct H as [->| ->]; cbn; try reflexivity; destruct (promote self); reflexivity.
  Qed.
End Wiring.
