(** Proofs for C05 (extension): ONE binary64 bound for every entry of [matmul] / [matmul_blocked] that contains both the
    theorem with the no-underflow hypothesis and the general one: the absolute term charges 2^-1075 only to the products
    that DO underflow ([underflow_cost], Proofs/C04ErrGenCount.v). *)
From Coq Require Import List Arith Bool ZArith Reals Lra Lia Floats.
From Flocq Require Import Core Relative Plus_error BinarySingleNaN PrimFloat.
From Compute Require Import Base.Ops Base.ListMat Model.Reduce Model.MatMul Spec.Vops Spec.MatMul
  Proofs.C04Red Proofs.C04Err Proofs.C04ErrF Proofs.C04ErrDot Proofs.C04ErrNP Proofs.C04ErrGen Proofs.C04ErrGenCount
  Proofs.C05 Proofs.C05_dot Proofs.C05Err.
Import ListNotations.
Local Open Scope R_scope.

Theorem plain_sum_error_perturbed_cost (u : R) (Hu : 0 <= u) (cost : R -> R) (F : R -> Prop) (rnd : R -> R) (F0 : F 0)
  (Hrnd : forall a b, F a -> F b -> F (rnd (a + b)) /\ Rabs (rnd (a + b) - (a + b)) <= u * Rabs (a + b)) (c c' : list R) :
  Forall F c' -> Forall2 (fun a a' => Rabs (a' - a) <= u * Rabs a + cost a) c c' ->
  Rabs (fold_left (add (RndO rnd)) c' 0 - Rsum c)
  <= ((1 + u) ^ S (length c) - 1) * Rsum (map Rabs c) + Rsum (map cost c) * (1 + u) ^ length c.
Proof.
  intros Fc Hp. apply (scheme_error_perturbed_cost u Hu cost (fun l => fold_left (add (RndO rnd)) l 0)); [|exact Hp].
  apply (plain_sum_error u Hu F rnd F0 Hrnd c' Fc).
Qed.

(** ** the plain fold of rounded products (matrix-product entries) *)
Theorem sumk_F_error_counted (tbl : libm_table) (f g : nat -> pfloat) (l : nat) :
  finite (sumk (FO tbl) (fun k => mul (FO tbl) (f k) (g k)) l) ->
  Rabs (B2Rf (sumk (FO tbl) (fun k => mul (FO tbl) (f k) (g k)) l)
        - sumk RO (fun k => B2Rf (f k) * B2Rf (g k)) l)
  <= ((1 + / 2 ^ 53) ^ S l - 1) * sumk RO (fun k => Rabs (B2Rf (f k) * B2Rf (g k))) l
     + sumk RO (fun k => underflow_cost (B2Rf (f k) * B2Rf (g k))) l * (1 + / 2 ^ 53) ^ l.
Proof.
  intros Hfin. rewrite !sumk_R. rewrite sumk_fold in *.
  set (ks := seq 0 l) in *.
  assert (Hlen : length ks = l) by apply seq_length.
  clearbody ks.
  set (p' := map (fun k => mul (FO tbl) (f k) (g k)) ks) in *.
  set (c := map (fun k => B2Rf (f k) * B2Rf (g k)) ks).
  assert (Hadd : forall a b : pfloat, finite (add (FO tbl) a b) ->
                   finite a /\ finite b /\ B2Rf (add (FO tbl) a b) = add (RndO rnd64) (B2Rf a) (B2Rf b)).
  { intros a b Hab. cbn [add FO RndO] in *. apply fadd_finite. exact Hab. }
  assert (Hall : Forall finite p').
  { apply (fold_all (FO tbl) finite) with (s := zero (FO tbl)); [|exact Hfin].
    intros a b Hab. destruct (Hadd a b Hab) as (Ha & Hb & _). auto. }
  destruct (fold_sim (FO tbl) (RndO rnd64) B2Rf finite Hadd p' _ Hfin) as [_ He].
  rewrite He. change (B2Rf (zero (FO tbl))) with (B2Rf 0%float). rewrite B2Rf_zero.
  replace (map (fun k : nat => Rabs (B2Rf (f k) * B2Rf (g k))) ks) with (map Rabs c)
    by (unfold c; rewrite map_map; reflexivity).
  replace (map (fun k : nat => underflow_cost (B2Rf (f k) * B2Rf (g k))) ks) with (map underflow_cost c)
    by (unfold c; rewrite map_map; reflexivity).
  assert (Hlc : length c = l) by (unfold c; rewrite map_length; exact Hlen).
  rewrite <- Hlc, <- u64_val.
  apply (plain_sum_error_perturbed_cost u64 u64_nonneg underflow_cost F64 rnd64 F64_0 rnd64_model).
  - apply Forall_forall. intros r Hr. apply in_map_iff in Hr. destruct Hr as (x & <- & _). apply F64_B2Rf.
  - unfold c, p'. clear He Hfin Hlc c. subst p'. clear Hlen.
    induction ks as [|k ks IH]; cbn [map]; [constructor|].
    inversion Hall as [|? ? Hk Hall']; subst. constructor.
    + cbn [mul FO] in *. destruct (fmul_finite (f k) (g k) Hk) as (_ & _ & ->). apply rnd64_cost.
    + apply IH. exact Hall'.
Qed.

Local Open Scope nat_scope.
Theorem matmul_blocked_entry_error_counted (tbl : libm_table) (a b : list pfloat) (ra rb : nat) (ta tb : bool) (bs : nat)
        (ca cb m l n : nat) (c : list pfloat) :
  1 <= bs ->
  dims (length a) (length b) ra rb ta tb = Some (ca, cb, m, l, n) ->
  matmul_blocked (FO tbl) a b ra rb ta tb bs = Some c ->
  forall i j, i < m -> j < n ->
    finite (nth (i * n + j) c (zero (FO tbl))) ->
    (Rabs (B2Rf (nth (i * n + j) c (zero (FO tbl)))
           - sumk RO (fun k => B2Rf (opA (FO tbl) a ca ta i k) * B2Rf (opB (FO tbl) b cb tb k j)) l)
     <= ((1 + / 2 ^ 53) ^ S l - 1)
        * sumk RO (fun k => Rabs (B2Rf (opA (FO tbl) a ca ta i k) * B2Rf (opB (FO tbl) b cb tb k j))) l
        + sumk RO (fun k => underflow_cost (B2Rf (opA (FO tbl) a ca ta i k) * B2Rf (opB (FO tbl) b cb tb k j))) l
          * (1 + / 2 ^ 53) ^ l)%R.
Proof.
  intros Hbs Hd Hc i j Hi Hj Hfin.
  pose proof (matmul_blocked_spec (FO tbl) a b ra rb ta tb bs Hbs) as H. rewrite Hd in H.
  destruct H as (c' & Hc' & _ & Hent). rewrite Hc in Hc'. injection Hc' as <-.
  rewrite (Hent i j Hi Hj) in *.
  apply sumk_F_error_counted. exact Hfin.
Qed.

Theorem matmul_entry_error_counted (tbl : libm_table) (a b : list pfloat) (ra rb : nat) (ta tb : bool)
        (ca cb m l n : nat) (c : list pfloat) :
  dims (length a) (length b) ra rb ta tb = Some (ca, cb, m, l, n) ->
  matmul (FO tbl) a b ra rb ta tb = Some c ->
  forall i j, i < m -> j < n ->
    finite (nth (i * n + j) c (zero (FO tbl))) ->
    (Rabs (B2Rf (nth (i * n + j) c (zero (FO tbl)))
           - sumk RO (fun k => B2Rf (opA (FO tbl) a ca ta i k) * B2Rf (opB (FO tbl) b cb tb k j)) l)
     <= ((1 + / 2 ^ 53) ^ S l - 1)
        * sumk RO (fun k => Rabs (B2Rf (opA (FO tbl) a ca ta i k) * B2Rf (opB (FO tbl) b cb tb k j))) l
        + sumk RO (fun k => underflow_cost (B2Rf (opA (FO tbl) a ca ta i k) * B2Rf (opB (FO tbl) b cb tb k j))) l
          * (1 + / 2 ^ 53) ^ l)%R.
Proof.
  intros Hd Hc. apply (matmul_blocked_entry_error_counted tbl a b ra rb ta tb 1); [lia|exact Hd|].
  rewrite (matmul_blocked_eq (FO tbl)); [exact Hc|lia|]. intros _. apply mul_comm_binary64.
Qed.
