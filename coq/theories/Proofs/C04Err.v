(** Proofs for C04, part 5 (extension): the rounding error of the unrolled [sum] in the standard model of
    floating-point arithmetic.  The carrier is the reals with an addition [rnd (a + b)] that commits a relative
    error of at most [u] on operands taken from a set [F] closed under it (binary64 without overflow is such a
    carrier: part 6).  The bound is the classical worst case for [n] terms,
        | sum x - Sigma x_i |  <=  ((1+u)^n - 1) * Sigma |x_i| ,
    proved for the 8-way unrolled order of the Rust code at EVERY length. *)
From Coq Require Import List Arith Bool ZArith Reals Lra Lia.
From Compute Require Import Base.Ops Base.ListMat Model.Reduce Spec.Vops Proofs.C04Red.
Import ListNotations.
Local Open Scope R_scope.

(** the reals with a rounded addition (every other operation exact) *)
Definition RndO (rnd : R -> R) : Ops R :=
  mkOps R 0 1 (fun a b => rnd (a + b)) Rminus Rmult Rdiv Ropp Rabs R_sqrt.sqrt Rltb Rleb Reqb
        IZR Q2R RtruncZ (fun l => Q2R (fst l)) Rf1 Rf2 PI.

Section StandardModel.
  Variable u : R.
  Hypothesis Hu : 0 <= u.
  Variable F : R -> Prop.
  Variable rnd : R -> R.
  Hypothesis F0 : F 0.
  Hypothesis Hrnd : forall a b, F a -> F b ->
    F (rnd (a + b)) /\ Rabs (rnd (a + b) - (a + b)) <= u * Rabs (a + b).

  Definition E (k : nat) : R := (1 + u) ^ k - 1.
  Lemma E_S k : E (S k) = (1 + u) * E k + u.
  Proof. unfold E. simpl. ring. Qed.
  Lemma E_nonneg k : 0 <= E k.
  Proof. unfold E. assert (1 <= (1 + u) ^ k) by (apply pow_R1_Rle; lra). lra. Qed.
  Lemma E_mono k k' : (k <= k')%nat -> E k <= E k'.
  Proof. intros H. unfold E. assert ((1 + u) ^ k <= (1 + u) ^ k') by (apply Rle_pow; [lra|exact H]). lra. Qed.

  Let radd := add (RndO rnd).
  Definition Asum (l : list R) : R := Rsum (map Rabs l).
  Lemma Asum_nonneg l : 0 <= Asum l.
  Proof. unfold Asum. induction l as [|a l IH]; cbn [map Rsum fold_right]; [lra|]. fold (Rsum (map Rabs l)). pose proof (Rabs_pos a). lra. Qed.
  Lemma Asum_cons a l : Asum (a :: l) = Rabs a + Asum l.
  Proof. reflexivity. Qed.
  Lemma Rsum_cons a l : Rsum (a :: l) = a + Rsum l.
  Proof. reflexivity. Qed.
  Lemma Rsum_le_Asum l : Rabs (Rsum l) <= Asum l.
  Proof.
    induction l as [|a l IH]; [rewrite Asum_cons || idtac; cbn; rewrite Rabs_R0; lra|].
    rewrite Rsum_cons, Asum_cons. pose proof (Rabs_triang a (Rsum l)). lra.
  Qed.

  (** one rounded addition of an approximated accumulator and an approximated term *)
  Lemma step_err (s s' c c' A C : R) (k : nat) :
    F s' -> F c' -> Rabs s <= A -> Rabs c <= C ->
    Rabs (s' - s) <= E k * A -> Rabs (c' - c) <= E k * C ->
    F (radd s' c') /\ Rabs (s + c) <= A + C /\ Rabs (radd s' c' - (s + c)) <= E (S k) * (A + C).
  Proof.
    intros Fs Fc HA HC Ds Dc. destruct (Hrnd s' c' Fs Fc) as [Fr Hr].
    split; [exact Fr|]. split; [pose proof (Rabs_triang s c); lra|].
    unfold radd. cbn [add RndO].
    set (r := rnd (s' + c')) in *. set (t := s' + c') in *.
    assert (Ht : Rabs t <= Rabs (s' - s) + Rabs (c' - c) + A + C).
    { replace t with ((s' - s) + (c' - c) + s + c) by (unfold t; ring).
      pose proof (Rabs_triang ((s' - s) + (c' - c) + s) c).
      pose proof (Rabs_triang ((s' - s) + (c' - c)) s).
      pose proof (Rabs_triang (s' - s) (c' - c)). lra. }
    assert (H1 : Rabs (r - (s + c)) <= Rabs (r - t) + Rabs (s' - s) + Rabs (c' - c)).
    { replace (r - (s + c)) with ((r - t) + (s' - s) + (c' - c)) by (unfold t; ring).
      pose proof (Rabs_triang ((r - t) + (s' - s)) (c' - c)).
      pose proof (Rabs_triang (r - t) (s' - s)). lra. }
    rewrite E_S. pose proof (E_nonneg k) as Ek.
    assert (HA0 : 0 <= A) by (pose proof (Rabs_pos s); lra).
    assert (HC0 : 0 <= C) by (pose proof (Rabs_pos c); lra).
    assert (HD : Rabs (s' - s) + Rabs (c' - c) <= E k * (A + C)) by lra.
    assert (HuD : u * Rabs t <= u * (Rabs (s' - s) + Rabs (c' - c) + A + C))
      by (apply Rmult_le_compat_l; [exact Hu|lra]).
    assert (H3 : (1 + u) * (Rabs (s' - s) + Rabs (c' - c)) <= (1 + u) * (E k * (A + C)))
      by (apply Rmult_le_compat_l; lra).
    lra.
  Qed.

  (** a left fold of rounded additions from an approximated accumulator *)
  Lemma fold_err (l : list R) : forall (s s' A : R) (k : nat),
    F s' -> Forall F l -> Rabs s <= A -> Rabs (s' - s) <= E k * A ->
    F (fold_left radd l s') /\
    Rabs (fold_left radd l s' - (s + Rsum l)) <= E (k + length l) * (A + Asum l).
  Proof.
    induction l as [|a l IH]; intros s s' A k Fs Fl HA Ds.
    - cbn [fold_left length Rsum fold_right]. unfold Asum. cbn [map Rsum fold_right].
      rewrite Nat.add_0_r, !Rplus_0_r. auto.
    - inversion Fl as [|? ? Fa Fl']; subst. cbn [fold_left length].
      destruct (step_err s s' a a A (Rabs a) k Fs Fa HA (Rle_refl _) Ds) as (Fr & HA' & Dr).
      { replace (a - a) with 0 by ring. rewrite Rabs_R0. pose proof (E_nonneg k). pose proof (Rabs_pos a). nra. }
      destruct (IH (s + a) (radd s' a) (A + Rabs a) (S k) Fr Fl' HA' Dr) as (Ff & Df).
      split; [exact Ff|].
      rewrite Rsum_cons, Asum_cons. replace (k + S (length l))%nat with (S k + length l)%nat by lia.
      replace (s + (a + Rsum l)) with (s + a + Rsum l) by ring.
      replace (A + (Rabs a + Asum l)) with (A + Rabs a + Asum l) by ring. exact Df.
  Qed.

  (** the unrolled loop from an approximated accumulator whose error exponent is already >= 7 *)
  Lemma sum8_err fuel : forall (x : list R) (s s' A : R) (k q r : nat),
    (length x < 8 * fuel)%nat -> (length x = 8 * q + r)%nat -> (r < 8)%nat -> (7 <= k)%nat ->
    F s' -> Forall F x -> Rabs s <= A -> Rabs (s' - s) <= E k * A ->
    Rabs (sum8 (RndO rnd) fuel s' x - (s + Rsum x)) <= E (k + q + r) * (A + Asum x).
  Proof.
    induction fuel as [|fuel IH]; intros x s s' A k q r Hl Hq Hr Hk Fs Fx HA Ds; [lia|].
    destruct x as [|x0 [|x1 [|x2 [|x3 [|x4 [|x5 [|x6 [|x7 x']]]]]]]];
      try (assert (q = 0%nat) by (cbn [length] in Hq; lia); subst q;
           cbn [sum8]; fold radd;
           match goal with |- context [fold_left radd ?l s'] =>
             destruct (fold_err l s s' A k Fs Fx HA Ds) as [_ Hf];
             replace (k + 0 + r)%nat with (k + length l)%nat by (cbn [length] in Hq |- *; lia); exact Hf end).
    cbn [sum8]. fold radd.
    destruct q as [|q']; [cbn [length] in Hq; lia|].
    repeat match goal with H : Forall F (_ :: _) |- _ => inversion H; clear H; subst end.
    (* the chunk: seven rounded additions starting from x0 *)
    set (ch := [x1; x2; x3; x4; x5; x6; x7]).
    change (radd (radd (radd (radd (radd (radd (radd x0 x1) x2) x3) x4) x5) x6) x7) with (fold_left radd ch x0).
    destruct (fold_err ch x0 x0 (Rabs x0) 0) as (Fc & Dc); auto.
    { repeat constructor; assumption. }
    { apply Rle_refl. }
    { replace (x0 - x0) with 0 by ring. rewrite Rabs_R0. pose proof (E_nonneg 0). pose proof (Rabs_pos x0). nra. }
    set (c' := fold_left radd ch x0) in *. set (c := x0 + Rsum ch) in *. set (C := Rabs x0 + Asum ch) in *.
    assert (HC : Rabs c <= C).
    { unfold c, C. pose proof (Rabs_triang x0 (Rsum ch)). pose proof (Rsum_le_Asum ch). lra. }
    assert (Dc' : Rabs (c' - c) <= E k * C).
    { eapply Rle_trans; [exact Dc|]. apply Rmult_le_compat_r.
      - unfold C. pose proof (Rabs_pos x0). pose proof (Asum_nonneg ch). lra.
      - apply E_mono. cbn [length ch]. lia. }
    destruct (step_err s s' c c' A C k Fs Fc HA HC Ds Dc') as (Fr & HA' & Dr).
    assert (Hx' : Forall F x') by assumption.
    specialize (IH x' (s + c) (radd s' c') (A + C) (S k) q' r).
    assert (Hgoal : Rabs (sum8 (RndO rnd) fuel (radd s' c') x' - (s + c + Rsum x')) <= E (S k + q' + r) * (A + C + Asum x')).
    { apply IH; auto; cbn [length] in *; lia. }
    replace (k + S q' + r)%nat with (S k + q' + r)%nat by lia.
    replace (s + Rsum (x0 :: x1 :: x2 :: x3 :: x4 :: x5 :: x6 :: x7 :: x')) with (s + c + Rsum x')
      by (unfold c, ch, Rsum; cbn [fold_right]; ring).
    replace (A + Asum (x0 :: x1 :: x2 :: x3 :: x4 :: x5 :: x6 :: x7 :: x')) with (A + C + Asum x')
      by (unfold C, ch, Asum, Rsum; cbn [map fold_right]; ring).
    exact Hgoal.
  Qed.

  (** the theorem: worst-case bound for [n] terms, every [n] *)
  Theorem sum_error (x : list R) :
    Forall F x ->
    Rabs (Reduce.sum (RndO rnd) x - Rsum x) <= ((1 + u) ^ length x - 1) * Rsum (map Rabs x).
  Proof.
    intros Fx. change (Rabs (Reduce.sum (RndO rnd) x - Rsum x) <= E (length x) * Asum x).
    unfold Reduce.sum. cbn [zero RndO].
    destruct (lt_dec (length x) 8) as [Hs|Hl].
    - (* no chunk: the plain loop from an exact 0 *)
      assert (Hshort : sum8 (RndO rnd) (S (length x)) 0 x = fold_left radd x 0).
      { destruct x as [|x0 [|x1 [|x2 [|x3 [|x4 [|x5 [|x6 [|x7 x']]]]]]]]; try reflexivity. cbn [length] in Hs. lia. }
      rewrite Hshort.
      destruct (fold_err x 0 0 0 0 F0 Fx) as [_ Hf].
      { rewrite Rabs_R0. lra. }
      { replace (0 - 0) with 0 by ring. rewrite Rabs_R0. lra. }
      rewrite !Rplus_0_l in Hf. cbn [Nat.add] in Hf. exact Hf.
    - pose proof (Nat.div_mod (length x) 8 ltac:(lia)) as Hdm.
      pose proof (Nat.mod_upper_bound (length x) 8 ltac:(lia)) as Hm.
      assert (Hq : (1 <= length x / 8)%nat).
      { destruct (length x / 8)%nat; lia. }
      pose proof (sum8_err (S (length x)) x 0 0 0 7 (length x / 8) (length x mod 8)) as H.
      rewrite !Rplus_0_l in H.
      eapply Rle_trans; [apply H; auto; try lia|].
      + rewrite Rabs_R0. lra.
      + replace (0 - 0) with 0 by ring. rewrite Rabs_R0. lra.
      + apply Rmult_le_compat_r; [apply Asum_nonneg|]. apply E_mono. lia.
  Qed.
End StandardModel.
