(** * C19 — `alea::f64()` on BINARY64: for every generator state the draw is the finite double k * 2^-53 with
    k = (u64() >> 11) < 2^53, computed without any rounding (the conversion u64 -> f64 of an integer below 2^53 is
    exact, the constant 1.0 / (1u64 << 53) as f64 is exactly 2^-53, the product of the two is representable),
    hence a value of [0, 1): never 1.0, never NaN.  Flocq's specification of the primitive floats ([Prim2B]). *)
From Coq Require Import ZArith NArith Reals Floats Lia Lra Uint63 List Bool.
From Flocq Require Import Core BinarySingleNaN.
From Flocq Require PrimFloat.
From Compute Require Import Base.Ops Base.Rng Proofs.C19Rng Proofs.C17_softmax_f64.
Local Open Scope R_scope.

(** ** the primitive [ofZ] of the carrier [FO t] is exact below 2^53 *)
Lemma float_ofZ_exact (z : Z) : (0 <= z < 2 ^ 53)%Z -> fin (float_ofZ z) /\ val (float_ofZ z) = IZR z.
Proof.
  intros Hz. destruct z as [|p|p]; [| |lia].
  - cbn [float_ofZ]. unfold fin, val. rewrite Prim2B_zero. split; reflexivity.
  - assert (Hp : (Zpos p < 2 ^ 53)%Z) by lia. clear Hz.
    unfold float_ofZ, fin, val.
    rewrite FP.of_int63_equiv.
    assert (Ht : to_Z (of_Z (Zpos p)) = Zpos p).
    { rewrite of_Z_spec. apply Z.mod_small. change wB with (2 ^ 63)%Z. lia. }
    rewrite Ht.
    pose proof (binary_normalize_correct prec emax FP.Hprec FP.Hmax mode_NE (Zpos p) 0 false) as C.
    cbv zeta in C.
    assert (X : F2R (Float radix2 (Zpos p) 0) = IZR (Zpos p)).
    { unfold F2R. cbn. lra. }
    rewrite X in C.
    rewrite round_generic in C; [|apply valid_rnd_N|apply format_small_int; lia].
    rewrite Rlt_bool_true in C.
    2:{ rewrite Rabs_pos_eq by (apply IZR_le; lia).
        apply Rlt_trans with (IZR (2 ^ 53)); [apply IZR_lt; lia|].
        change (bpow radix2 emax) with (IZR (2 ^ 1024)). apply IZR_lt. reflexivity. }
    destruct C as (BR & Fin & _). split; assumption.
Qed.

(** ** the constant [CF64 = 1.0 / ((1u64 << 53) as f64)] is exactly 2^-53 *)
Lemma cf64_FO (t : libm_table) : cf64 (FO t) = 0x1p-53%float.
Proof. vm_compute. reflexivity. Qed.

Lemma cf64_exact : fin 0x1p-53%float /\ val 0x1p-53%float = / 2 ^ 53.
Proof.
  unfold fin, val.
  pose proof (FP.B2SF_Prim2B 0x1p-53%float) as E.
  replace (Prim2SF 0x1p-53%float) with (S754_finite false 4503599627370496 (-105)) in E by (vm_compute; reflexivity).
  destruct (FP.Prim2B 0x1p-53%float) as [s|s| |s m e Hb]; cbn [B2SF] in E; try discriminate E.
  injection E as -> -> ->. split; [reflexivity|].
  cbn [B2R]. unfold F2R. cbn [Fnum Fexp cond_Zopp bpow].
  change (Z.pow_pos radix2 105) with (2 ^ 52 * 2 ^ 53)%Z. rewrite mult_IZR.
  change (IZR 4503599627370496) with (IZR (2 ^ 52)). rewrite (pow_IZR 2 53).
  change (Z.of_nat 53) with 53%Z.
  assert (IZR (2 ^ 52) <> 0) by (apply IZR_neq; lia).
  assert (IZR (2 ^ 53) <> 0) by (apply IZR_neq; lia).
  field. split; assumption.
Qed.

(** k * 2^-53 is a binary64 number for 0 <= k < 2^53 (no rounding, subnormals not even reached) *)
Lemma format_unit_grid (k : Z) : (0 <= k < 2 ^ 53)%Z ->
  generic_format radix2 (fexp prec emax) (IZR k * / 2 ^ 53).
Proof.
  intros Hk. apply generic_format_FLT. exists (Float radix2 k (-53)).
  - unfold F2R. cbn [Fnum Fexp bpow]. change (Z.pow_pos radix2 53) with (2 ^ 53)%Z. rewrite (pow_IZR 2 53). reflexivity.
  - cbn [Fnum]. change (Zpower radix2 prec) with (2 ^ 53)%Z. lia.
  - cbn. lia.
Qed.

Lemma unit_grid_range (k : Z) : (0 <= k < 2 ^ 53)%Z -> 0 <= IZR k * / 2 ^ 53 <= 1 - / 2 ^ 53.
Proof.
  intros Hk.
  assert (P : 0 < / 2 ^ 53) by (apply Rinv_0_lt_compat, pow_lt; lra).
  assert (L : 0 <= IZR k) by (apply IZR_le; lia).
  assert (U : IZR k <= IZR (2 ^ 53 - 1)) by (apply IZR_le; lia).
  rewrite minus_IZR in U. rewrite (pow_IZR 2 53) in *. change (Z.of_nat 53) with 53%Z in *.
  set (w := IZR (2 ^ 53)) in *.
  assert (W : 0 < w) by (apply IZR_lt; lia).
  split; [apply Rmult_le_pos; lra|].
  apply Rmult_le_reg_r with w; [exact W|].
  rewrite Rmult_assoc, Rmult_minus_distr_r, Rinv_l by lra. lra.
Qed.

(** the product (k as f64) * CF64: finite, exactly k * 2^-53 *)
Lemma mul_cf64_exact (k : Z) : (0 <= k < 2 ^ 53)%Z ->
  fin (PrimFloat.mul (float_ofZ k) 0x1p-53%float) /\
  val (PrimFloat.mul (float_ofZ k) 0x1p-53%float) = IZR k * / 2 ^ 53.
Proof.
  intros Hk. destruct (float_ofZ_exact k Hk) as (Fk & Vk). destruct cf64_exact as (Fc & Vc).
  pose proof (Bmult_correct prec emax FP.Hprec FP.Hmax mode_NE (FP.Prim2B (float_ofZ k)) (FP.Prim2B 0x1p-53%float)) as H.
  fold (val (float_ofZ k)) (val 0x1p-53%float) in H. rewrite Vk, Vc in H.
  rewrite round_generic in H; [|apply valid_rnd_round_mode|apply format_unit_grid; exact Hk].
  pose proof (unit_grid_range k Hk) as R.
  assert (P : 0 < / 2 ^ 53) by (apply Rinv_0_lt_compat, pow_lt; lra).
  rewrite Rlt_bool_true in H.
  - destruct H as (HR & HF & _). unfold fin, val. rewrite FP.mul_equiv, HR, HF.
    unfold fin in Fk, Fc. rewrite Fk, Fc. split; reflexivity.
  - rewrite Rabs_pos_eq by lra. apply Rle_lt_trans with 1; [lra|].
    change 1 with (bpow radix2 0). apply bpow_lt. unfold emax. lia.
Qed.

(** ** `alea::f64()` on binary64, every state word *)
Definition f64_bits (s : rng) : Z := Z.of_N (N.shiftr (fst (u64 s)) 11).

Lemma f64_bits_range (s : rng) : (0 <= f64_bits s < 2 ^ 53)%Z.
Proof.
  unfold f64_bits. pose proof (u64_out_lt s) as L. destruct (u64 s) as [r s']. cbn [fst] in *.
  split; [lia|].
  rewrite N.shiftr_div_pow2. apply N2Z.inj_lt in L. rewrite N2Z.inj_div.
  change (Z.of_N (2 ^ 11)) with 2048%Z. change (Z.of_N W64) with 18446744073709551616%Z in L.
  apply Z.div_lt_upper_bound; lia.
Qed.

Lemma f64_FO (t : libm_table) (s : rng) :
  Rng.f64 (FO t) s = (PrimFloat.mul (float_ofZ (f64_bits s)) 0x1p-53%float, snd (u64 s)).
Proof.
  unfold Rng.f64, f64_bits. rewrite cf64_FO. destruct (u64 s) as [r s']. reflexivity.
Qed.

Lemma alea_f64_binary64 (t : libm_table) (s : rng) :
  (0 <= f64_bits s < 2 ^ 53)%Z /\
  fin (fst (Rng.f64 (FO t) s)) /\
  val (fst (Rng.f64 (FO t) s)) = IZR (f64_bits s) * / 2 ^ 53 /\
  0 <= val (fst (Rng.f64 (FO t) s)) <= 1 - / 2 ^ 53 /\
  is_nan (FO t) (fst (Rng.f64 (FO t) s)) = false /\
  PrimFloat.ltb (fst (Rng.f64 (FO t) s)) 1 = true /\
  PrimFloat.leb 0 (fst (Rng.f64 (FO t) s)) = true /\
  snd (Rng.f64 (FO t) s) = snd (u64 s).
Proof.
  pose proof (f64_bits_range s) as Hk. rewrite f64_FO. cbn [fst snd].
  destruct (mul_cf64_exact _ Hk) as (Ff & Vf).
  pose proof (unit_grid_range _ Hk) as R.
  assert (P : 0 < / 2 ^ 53) by (apply Rinv_0_lt_compat, pow_lt; lra).
  split; [exact Hk|]. split; [exact Ff|]. split; [exact Vf|]. split; [rewrite Vf; exact R|].
  split; [apply is_nan_fin; exact Ff|].
  assert (F1 : fin 1%float).
  { unfold fin. change 1%float with Coq.Floats.PrimFloat.one. rewrite FP.one_equiv, FP.Prim2B_B2Prim. apply is_finite_Bone. }
  assert (V1 : val 1%float = 1).
  { unfold val. change 1%float with Coq.Floats.PrimFloat.one. rewrite FP.one_equiv, FP.Prim2B_B2Prim. apply Bone_correct. }
  assert (F0 : fin 0%float) by (unfold fin; rewrite Prim2B_zero; reflexivity).
  assert (V0 : val 0%float = 0) by (unfold val; rewrite Prim2B_zero; reflexivity).
  split; [|split; [|reflexivity]].
  - rewrite (ltb_fin _ _ Ff F1), Vf, V1. apply Rlt_bool_true. lra.
  - rewrite FP.leb_equiv, (Bleb_correct _ _ _ _ F0 Ff). fold (val 0%float). rewrite V0.
    fold (val (PrimFloat.mul (float_ofZ (f64_bits s)) 0x1p-53%float)). rewrite Vf. apply Rle_bool_true. lra.
Qed.

(** the draws are on the grid and distinct states can reach both ends: k = 0 and k = 2^53 - 1 are the extreme values
    the theorem allows (the bound 1 - 2^-53 is attained by the all-ones word, no state constraint needed for the claim) *)
Example alea_f64_binary64_ex :
  fst (Rng.f64 (FO empty_tbl) (set_seed 42)) = 0x1.5c94f97fbb536p-1%float /\ f64_bits (set_seed 42) = 6132318200378678%Z.
Proof. vm_compute. split; reflexivity. Qed.
