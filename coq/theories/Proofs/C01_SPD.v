(** Proofs for C01, part 6: completeness of the Cholesky route.  For a symmetric positive definite
    matrix every pivot of the Cholesky-Banachiewicz sweep is positive (the pivot of row i is the value
    of the quadratic form at an explicit vector), so [try_cholesky] returns a factor: the fallback to LU
    of the D1 repair is taken ONLY for matrices that are not positive definite. *)
From Coq Require Import List Arith Bool Lia Reals Lra.
From Compute Require Import Base.Ops Base.ListMat Model.Reduce Model.MatMul Model.Subst Model.Cholesky Model.LU
  Model.Solve Model.SolveInst Spec.Factor Spec.Solve Proofs.C05 Proofs.LinAlgBase Proofs.C11_Subst Proofs.C11_Chol
  Proofs.C01_Layout Proofs.C01_Chol Proofs.C01_Pred Proofs.C01 Proofs.C01_Backward.
From Compute Require Export Proofs.C11_SPD.
Import ListNotations.

Local Open Scope R_scope.

(** (the completeness proof itself — [pivots_positive], [spd_try_cholesky], [positive_definite] — is in
    Proofs/C11_SPD.v, shared with property C11) *)

(** symmetric positive definite input: the routing predicate holds, the Cholesky route is taken (no
    fallback), and [solve] returns the solution it computes *)
Theorem spd_takes_cholesky_route a b n :
  (n * n)%nat = length a -> (0 < n)%nat -> length b = n -> symmetric a n -> positive_definite a n ->
  exists l x, is_positive_definite RO a = Some true /\ try_cholesky RO a = Some (Some l) /\
              slice_solve RO a b = cholesky_solve RO l b /\
              cholesky_solve RO l b = Some x /\ solves a n x b.
Proof.
  intros Hn Hpos Hb Hsym Hpd.
  destruct (spd_try_cholesky a n Hn Hsym Hpd) as [l Hl].
  pose proof (pd_pred_sym_posdiag a n Hn Hsym (fun i Hi => positive_definite_diag a n i Hpd Hi)) as Hp.
  destruct (solve_chol_correct a b l n Hn Hpos Hb Hsym Hl) as (x & Hx & Hsx).
  exists l, x. split; [exact Hp|]. split; [exact Hl|]. split; [|split; [exact Hx|exact Hsx]].
  unfold slice_solve. rewrite (pd_chol_goes_chol RO _ _ _ _ a b l Hp Hl).
  rewrite Hb, <- Hn, Nat.eqb_refl. reflexivity.
Qed.

(** conversely the fallback is taken only for matrices that are not positive definite *)
Theorem fallback_only_if_not_pd a n :
  (n * n)%nat = length a -> symmetric a n -> try_cholesky RO a = Some None -> ~ positive_definite a n.
Proof.
  intros Hn Hsym Hnone Hpd. destruct (spd_try_cholesky a n Hn Hsym Hpd) as [l Hl]. congruence.
Qed.
