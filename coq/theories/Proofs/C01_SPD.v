(** Proofs for C01, part 6: completeness of the Cholesky route.  For a symmetric positive definite
    matrix every pivot of the Cholesky-Banachiewicz sweep is positive (the pivot of row i is the value
    of the quadratic form at an explicit vector), so [try_cholesky] returns a factor: the fallback to LU
    of the D1 repair is taken ONLY for matrices that are not positive definite. *)
From Coq Require Import List Arith Bool Lia Reals Lra.
From Compute Require Import Base.Ops Base.ListMat Model.Reduce Model.MatMul Model.Subst Model.Cholesky Model.LU
  Model.Solve Model.SolveInst Spec.Factor Spec.Solve Proofs.C05 Proofs.LinAlgBase Proofs.C11_Subst Proofs.C11_Chol
  Proofs.C01_Layout Proofs.C01_Chol Proofs.C01_Pred Proofs.C01 Proofs.C01_Backward.
Import ListNotations.

(** ** any carrier: a positive pivot makes the checked row equal to the unchecked row *)
Section Complete.
  Context {T : Type} (O : Ops T).
  Local Notation z := (zero O).

  Lemma try_chol_row_complete A L n i :
    ltb O z (chol_pivot O A i (fold_left (fun r j => r ++ [chol_entry O false A L n i r j]) (seq 0 i) [])) = true ->
    try_chol_row O A L n i = Some (chol_row O false A L n i).
  Proof.
    intros Hd. unfold try_chol_row, chol_row. rewrite seq_S, !fold_left_app. cbn [Nat.add fold_left].
    rewrite try_step_prefix by (intros j Hj; apply in_seq in Hj; lia).
    unfold try_chol_step. cbn [bind]. rewrite Nat.eqb_refl, Hd. cbn [bind].
    rewrite chol_entry_diag. reflexivity.
  Qed.
End Complete.

Local Open Scope R_scope.

(** ** sums *)
Lemma quad_gram (a : nat -> R) (B : nat -> nat -> R) i k :
  rsum (fun p => rsum (fun q => a p * rsum (fun m => B p m * B q m) k * a q) i) i =
  rsum (fun m => rsum (fun p => B p m * a p) i * rsum (fun p => B p m * a p) i) k.
Proof.
  rewrite (rsum_ext _ (fun p => rsum (fun m => rsum (fun q => (a p * B p m) * (B q m * a q)) i) k)).
  - rewrite rsum_swap. apply rsum_ext. intros m Hm.
    rewrite (rsum_ext _ (fun p => (a p * B p m) * rsum (fun q => B q m * a q) i))
      by (intros p Hp; rewrite rsum_scal_l; reflexivity).
    rewrite rsum_scal_r. f_equal. apply rsum_ext. intros; ring.
  - intros p Hp. rewrite rsum_swap. apply rsum_ext. intros q Hq.
    rewrite <- rsum_scal_l, <- rsum_scal_r. apply rsum_ext. intros; ring.
Qed.

Lemma lin_gram (r a : nat -> R) (B : nat -> nat -> R) i k :
  rsum (fun q => rsum (fun m => r m * B q m) k * a q) i =
  rsum (fun m => r m * rsum (fun q => B q m * a q) i) k.
Proof.
  rewrite (rsum_ext _ (fun q => rsum (fun m => r m * (B q m * a q)) k)).
  - rewrite rsum_swap. apply rsum_ext. intros m Hm. rewrite rsum_scal_l. reflexivity.
  - intros q Hq. rewrite <- rsum_scal_r. apply rsum_ext. intros; ring.
Qed.

(** an upper triangular system with nonzero diagonal has a solution *)
Lemma upper_solve i : forall (U : nat -> nat -> R) (r : nat -> R),
  (forall m, (m < i)%nat -> U m m <> 0) ->
  exists w, forall m, (m < i)%nat ->
    rsum (fun p => (if (m <=? p)%nat then U m p else 0) * w p) i = r m.
Proof.
  induction i as [|i IH]; intros U r Hd.
  - exists (fun _ => 0). intros; lia.
  - destruct (IH (fun m p => U (S m) (S p)) (fun m => r (S m))) as [w' Hw'].
    { intros m Hm. apply Hd. lia. }
    set (w0 := (r 0%nat - rsum (fun p => U 0%nat (S p) * w' p) i) / U 0%nat 0%nat).
    exists (fun p => match p with 0%nat => w0 | S p' => w' p' end).
    intros m Hm. rewrite rsum_shift. destruct m as [|m'].
    + cbn [Nat.leb]. unfold w0. pose proof (Hd 0%nat ltac:(lia)). field. auto.
    + cbn [Nat.leb]. rewrite Rmult_0_l, Rplus_0_l. apply Hw'. lia.
Qed.

(** ** positive definiteness, on entry functions *)
Definition qform (A : nat -> nat -> R) (n : nat) (x : nat -> R) : R :=
  rsum (fun p => rsum (fun q => x p * A p q * x q) n) n.
Definition pos_def_fun (A : nat -> nat -> R) (n : nat) : Prop :=
  forall x : nat -> R, (exists i, (i < n)%nat /\ x i <> 0) -> 0 < qform A n x.

(** the pivot of row [i] of the sweep *)
Definition piv (A L : list (list R)) (i : nat) : R :=
  ent 0 A i i - rsum (fun m => ent 0 L i m * ent 0 L i m) i.

Section Pivots.
Context (A L : list (list R)) (n : nat).
Local Notation E := (ent 0 L).
Local Notation a := (ent 0 A).

Lemma pivots_positive :
  chol_rec A L n ->
  (forall i j, (i < n)%nat -> (j < n)%nat -> ent 0 A i j = ent 0 A j i) ->
  pos_def_fun (ent 0 A) n ->
  forall i, (i < n)%nat -> 0 < piv A L i.
Proof.
  intros Hrec Hsym Hpd i. induction i as [i IH] using lt_wf_ind. intros Hi.
  assert (Hdiag : forall j, (j < i)%nat -> 0 < E j j).
  { intros j Hj. destruct (Hrec j ltac:(lia)) as (_ & Hd & _). rewrite Hd.
    apply sqrt_lt_R0. apply (IH j Hj). lia. }
  assert (Hzero : forall p m, (p < n)%nat -> (p < m)%nat -> E p m = 0).
  { intros p m Hp Hpm. destruct (Hrec p Hp) as (Hz & _). apply Hz; auto. }
  (* reconstruction of the rows above row i and of the off-diagonal part of row i *)
  assert (Hlow : forall p q, (p < i)%nat -> (q <= p)%nat -> rsum (fun m => E p m * E q m) i = a p q).
  { intros p q Hp Hq.
    rewrite (rsum_trunc _ (S q) i) by (try lia; intros m Hm; rewrite (Hzero q m) by lia; ring).
    destruct (Hrec p ltac:(lia)) as (_ & Hd & Ho). cbn [rsum].
    destruct (Nat.eq_dec q p) as [->|Hne].
    - rewrite Hd. rewrite sqrt_sqrt by (pose proof (IH p Hp ltac:(lia)) as Hp0; unfold piv in Hp0; lra).
      lra.
    - assert (Hqp : (q < p)%nat) by lia. specialize (Ho q Hqp). rewrite Ho.
      pose proof (Hdiag q ltac:(lia)).
      rewrite (rsum_ext (fun m => E p m * E q m) (fun m => E q m * E p m) q) by (intros; ring).
      field. lra. }
  assert (Hall : forall p q, (p < i)%nat -> (q < i)%nat -> rsum (fun m => E p m * E q m) i = a p q).
  { intros p q Hp Hq. destruct (Nat.le_gt_cases q p).
    - apply Hlow; auto.
    - rewrite (Hsym p q) by lia. rewrite <- (Hlow q p) by (auto; lia).
      apply rsum_ext. intros; ring. }
  assert (Hrow : forall q, (q < i)%nat -> rsum (fun m => E i m * E q m) i = a i q).
  { intros q Hq.
    rewrite (rsum_trunc _ (S q) i) by (try lia; intros m Hm; rewrite (Hzero q m) by lia; ring).
    destruct (Hrec i Hi) as (_ & _ & Ho). cbn [rsum]. specialize (Ho q Hq). rewrite Ho.
    pose proof (Hdiag q Hq).
    rewrite (rsum_ext (fun m => E i m * E q m) (fun m => E q m * E i m) q) by (intros; ring).
    field. lra. }
  (* w solves L'^T.w = (row i of L) *)
  destruct (upper_solve i (fun m p => E p m) (fun m => E i m)) as [w Hw].
  { intros m Hm. pose proof (Hdiag m Hm). lra. }
  assert (Hc : forall m, (m < i)%nat -> rsum (fun p => E p m * w p) i = E i m).
  { intros m Hm. rewrite <- (Hw m Hm). apply rsum_ext. intros p Hp.
    destruct (Nat.leb_spec m p); [reflexivity|]. rewrite (Hzero p m) by lia. ring. }
  (* the test vector *)
  set (x := fun p => if (p <? i)%nat then - w p else if (p =? i)%nat then 1 else 0).
  assert (Hx0 : forall p, (i < p)%nat -> x p = 0).
  { intros p Hp. unfold x. destruct (Nat.ltb_spec p i); [lia|]. destruct (Nat.eqb_spec p i); [lia|reflexivity]. }
  assert (Hxi : x i = 1).
  { unfold x. rewrite Nat.ltb_irrefl, Nat.eqb_refl. reflexivity. }
  assert (Hxw : forall p, (p < i)%nat -> x p = - w p).
  { intros p Hp. unfold x. destruct (Nat.ltb_spec p i); [reflexivity|lia]. }
  assert (Hq : qform (ent 0 A) n x = piv A L i).
  { unfold qform.
    rewrite (rsum_trunc _ (S i) n) by (try lia; intros p Hp; apply rsum_zero; intros q Hq; rewrite (Hx0 p) by lia; ring).
    rewrite (rsum_ext _ (fun p => rsum (fun q => x p * a p q * x q) (S i)))
      by (intros p Hp; apply (rsum_trunc _ (S i) n); try lia; intros q Hq; rewrite (Hx0 q) by lia; ring).
    cbn [rsum]. rewrite Hxi.
    set (W := rsum (fun p => rsum (fun q => w p * a p q * w q) i) i).
    set (V := rsum (fun q => a i q * w q) i).
    set (Sq := rsum (fun m => E i m * E i m) i).
    assert (H1 : rsum (fun p => rsum (fun q => x p * a p q * x q) i + x p * a p i * 1) i = W - V).
    { unfold W, V. rewrite <- rsum_minus. apply rsum_ext. intros p Hp.
      rewrite (Hxw p Hp). rewrite (Hsym p i) by lia.
      rewrite (rsum_ext (fun q => - w p * a p q * x q) (fun q => w p * a p q * w q))
        by (intros q Hq; rewrite (Hxw q Hq); ring).
      ring. }
    assert (H2 : rsum (fun q => 1 * a i q * x q) i = - V).
    { unfold V. assert (Hneg : forall f k, rsum (fun q => - f q) k = - rsum f k)
        by (intros f k; induction k; cbn [rsum]; lra).
      rewrite <- Hneg. apply rsum_ext. intros q Hq. rewrite (Hxw q Hq). ring. }
    assert (HV : V = Sq).
    { unfold V. rewrite (rsum_ext _ (fun q => rsum (fun m => E i m * E q m) i * w q))
        by (intros q Hq; rewrite (Hrow q Hq); reflexivity).
      rewrite (lin_gram (fun m => E i m) w (fun q m => E q m) i i).
      unfold Sq. apply rsum_ext. intros m Hm. rewrite (Hc m Hm). reflexivity. }
    assert (HW : W = Sq).
    { unfold W. rewrite (rsum_ext _ (fun p => rsum (fun q => w p * rsum (fun m => E p m * E q m) i * w q) i)).
      - rewrite (quad_gram w (fun p m => E p m) i i). unfold Sq. apply rsum_ext. intros m Hm.
        rewrite (Hc m Hm). reflexivity.
      - intros p Hp. apply rsum_ext. intros q Hq. rewrite (Hall p q Hp Hq). reflexivity. }
    rewrite H1, H2. unfold piv. fold Sq. lra. }
  rewrite <- Hq. apply Hpd. exists i. split; [exact Hi|]. rewrite Hxi. lra.
Qed.
End Pivots.

(** ** the checked sweep succeeds on a symmetric positive definite matrix *)
Lemma spd_try_chol_rows M n :
  (forall i j, (i < n)%nat -> (j < n)%nat -> ent 0 M i j = ent 0 M j i) ->
  pos_def_fun (ent 0 M) n ->
  try_chol_rows RO M n = Some (chol_rows RO false M n).
Proof.
  intros Hsym Hpd.
  set (g := fun (i : nat) (Lp : list (list R)) => chol_row RO false M Lp n i).
  change (chol_rows RO false M n) with (build g n).
  destruct (chol_rows_spec false M n) as [Hw Hrec].
  change (chol_rows RO false M n) with (build g n) in Hw, Hrec.
  pose proof (pivots_positive M (build g n) n Hrec Hsym Hpd) as Hpiv.
  assert (Hk : forall k, (k <= n)%nat ->
            fold_left (try_chol_rows_step RO M n) (seq 0 k) (Some []) = Some (build g k)).
  { induction k as [|k IH]; intros Hkn; [reflexivity|].
    rewrite seq_S, fold_left_app, IH by lia. cbn [Nat.add fold_left].
    unfold try_chol_rows_step. cbn [bind].
    rewrite try_chol_row_complete.
    - cbn [bind]. rewrite build_S. reflexivity.
    - (* the pivot the checked sweep tests is [piv] of the finished factor *)
      set (ge := fun (j : nat) (r : list R) => chol_entry RO false M (build g k) n k r j).
      change (fold_left (fun r j => r ++ [chol_entry RO false M (build g k) n k r j]) (seq 0 k) [])
        with (build ge k).
      cbn [ltb zero RO]. apply Rltb_true.
      assert (Hrowk : nth k (build g n) [] = pad RO n (build ge (S k))).
      { rewrite (build_nth [] g n k) by lia. reflexivity. }
      assert (Hent : forall m, (m < k)%nat -> ent 0 (build g n) k m = nth m (build ge k) 0).
      { intros m Hm. unfold ent. rewrite Hrowk, nth_pad. rewrite build_S.
        apply app_nth1. rewrite build_length. exact Hm. }
      unfold chol_pivot. cbn [sub RO].
      rewrite (build_firstn ge k k (le_n k)).
      rewrite dot_raw_RO by reflexivity. rewrite build_length.
      rewrite (rsum_ext _ (fun m => ent 0 (build g n) k m * ent 0 (build g n) k m))
        by (intros m Hm; rewrite (Hent m Hm); reflexivity).
      apply (Hpiv k). lia. }
  apply (Hk n). lia.
Qed.

(** flat level *)
Definition positive_definite (a : list R) (n : nat) : Prop :=
  forall x : nat -> R, (exists i, (i < n)%nat /\ x i <> 0) ->
    0 < rsum (fun p => rsum (fun q => x p * getm a n p q * x q) n) n.

Theorem spd_try_cholesky a n :
  (n * n)%nat = length a -> symmetric a n -> positive_definite a n ->
  exists l, try_cholesky RO a = Some (Some l).
Proof.
  intros Hn Hsym Hpd. unfold try_cholesky. rewrite <- Hn, is_square_sq. cbn [bind].
  rewrite is_symmetric_rel_rows_exact.
  2:{ intros i j Hi Hj. rewrite !ent_unflatten by auto. apply (Hsym i j); auto. }
  cbn [guard bind]. rewrite spd_try_chol_rows.
  - cbn [option_map]. eauto.
  - intros i j Hi Hj. rewrite !ent_unflatten by auto. apply (Hsym i j); auto.
  - intros x Hx. specialize (Hpd x Hx). unfold qform.
    rewrite (rsum_ext _ (fun p => rsum (fun q => x p * getm a n p q * x q) n)); [exact Hpd|].
    intros p Hp. apply rsum_ext. intros q Hq. rewrite ent_unflatten by auto. reflexivity.
Qed.

(** a positive definite matrix has a positive diagonal *)
Lemma positive_definite_diag a n i : positive_definite a n -> (i < n)%nat -> 0 < getm a n i i.
Proof.
  intros Hpd Hi.
  specialize (Hpd (fun p => if (p =? i)%nat then 1 else 0)).
  assert (Hx : exists i0, (i0 < n)%nat /\ (if (i0 =? i)%nat then 1 else 0) <> 0)
    by (exists i; rewrite Nat.eqb_refl; split; [auto|lra]).
  specialize (Hpd Hx).
  rewrite (rsum_single _ i n Hi) in Hpd.
  - rewrite (rsum_single _ i n Hi) in Hpd.
    + rewrite Nat.eqb_refl in Hpd. lra.
    + intros k Hk Hki. destruct (Nat.eqb_spec k i); [lia|]. ring.
  - intros k Hk Hki. apply rsum_zero. intros q Hq. destruct (Nat.eqb_spec k i); [lia|]. ring.
Qed.

(** symmetric positive definite input: the routing predicate holds, the Cholesky route is taken (no
    fallback), and [solve] returns the solution it computes *)
Theorem spd_takes_cholesky_route a b n :
  (n * n)%nat = length a -> (0 < n)%nat -> length b = n -> symmetric a n -> positive_definite a n ->
  exists l x, is_pd_pred RO a = Some true /\ try_cholesky RO a = Some (Some l) /\
              slice_solve RO a b = cholesky_solve RO l b /\
              cholesky_solve RO l b = Some x /\ solves a n x b.
Proof.
  intros Hn Hpos Hb Hsym Hpd.
  destruct (spd_try_cholesky a n Hn Hsym Hpd) as [l Hl].
  pose proof (pd_pred_sym_posdiag a n Hn Hsym (fun i Hi => positive_definite_diag a n i Hpd Hi)) as Hp.
  destruct (solve_chol_correct a b l n Hn Hpos Hb Hsym Hl) as (x & Hx & Hsx).
  exists l, x. split; [exact Hp|]. split; [exact Hl|]. split; [|split; [exact Hx|exact Hsx]].
  unfold slice_solve. rewrite (pd_chol_goes_chol RO _ _ _ _ a b l Hp Hl).
  rewrite Hb, <- Hn, Nat.eqb_refl. reflexivity.
Qed.

(** conversely the fallback is taken only for matrices that are not positive definite *)
Theorem fallback_only_if_not_pd a n :
  (n * n)%nat = length a -> symmetric a n -> try_cholesky RO a = Some None -> ~ positive_definite a n.
Proof.
  intros Hn Hsym Hnone Hpd. destruct (spd_try_cholesky a n Hn Hsym Hpd) as [l Hl]. congruence.
Qed.
