(** * C17 on BINARY64, conditional on explicit hypotheses about the recorded libm table.

    The carrier [FO t] answers [exp] / [ln] from the table [t] the harness recorded from the live glibc.  Coq cannot
    know what glibc returns, so every theorem below carries, as a NAMED hypothesis about [t] restricted to the arguments
    that actually occur, exactly the libm facts it uses (range of exp on non-positive arguments, exp 0 = 1, monotonicity
    of exp / ln on the occurring arguments, ln 1 = 0).  These are statements about a finite table, not axioms; each
    comes with an [Example] exhibiting a concrete table satisfying them, and the failure-search oracle checks the same
    facts on the live glibc.  Everything else (subtraction of the maximum, the left-to-right sum, the divisions, the
    negation, [1 + e], [1 / d]) is IEEE-754 binary64 arithmetic through Flocq's [Prim2B]. *)
From Coq Require Import Reals Floats List Lra Lia Bool ZArith.
From Flocq Require Import Core Relative BinarySingleNaN.
From Flocq Require PrimFloat.
From Compute Require Import Base.Ops Model.Transforms Spec.Transforms.
From Compute Require Import Proofs.C04Err Proofs.C04ErrF Proofs.C17_softmax_f64.
Import ListNotations.
Local Open Scope R_scope.

(** ** the libm table hypotheses (all restricted to a list [args] of arguments) *)
Definition texp (t : libm_table) (a : f64) : f64 := f1 (FO t) Exp a.
Definition tln (t : libm_table) (a : f64) : f64 := f1 (FO t) Ln a.

(** on every non-positive argument of [args] (a double comparing [<= 0], -inf included) the table's exp is a finite
    double in [0, 1] *)
Definition exp_tbl_unit_range (t : libm_table) (args : list f64) : Prop :=
  forall a, In a args -> PrimFloat.leb a 0 = true -> fin (texp t a) /\ 0 <= val (texp t a) <= 1.
(** at every zero argument of [args] the table's exp is 1 *)
Definition exp_tbl_one_at_zero (t : libm_table) (args : list f64) : Prop :=
  forall a, In a args -> PrimFloat.eqb a 0 = true -> val (texp t a) = 1.
(** the table's exp is non-decreasing on [args] (IEEE comparison on both sides) *)
Definition exp_tbl_monotone (t : libm_table) (args : list f64) : Prop :=
  forall a b, In a args -> In b args -> PrimFloat.leb a b = true -> PrimFloat.leb (texp t a) (texp t b) = true.
(** the table's exp is not NaN and not negative on [args] (+inf allowed) *)
Definition exp_tbl_nonneg (t : libm_table) (args : list f64) : Prop :=
  forall a, In a args -> PrimFloat.leb 0 (texp t a) = true.
(** the table's ln is non-decreasing on [args] *)
Definition ln_tbl_monotone (t : libm_table) (args : list f64) : Prop :=
  forall a b, In a args -> In b args -> PrimFloat.leb a b = true -> PrimFloat.leb (tln t a) (tln t b) = true.
(** ln 1 is a zero *)
Definition ln_tbl_zero_at_one (t : libm_table) : Prop := PrimFloat.eqb (tln t 1) 0 = true.

(** ** binary64 facts *)
Lemma val_one : val 1%float = 1.
Proof. unfold val. change 1%float with Coq.Floats.PrimFloat.one. rewrite FP.one_equiv, FP.Prim2B_B2Prim. apply Bone_correct. Qed.
Lemma fin_one : fin 1%float.
Proof. unfold fin. change 1%float with Coq.Floats.PrimFloat.one. rewrite FP.one_equiv, FP.Prim2B_B2Prim. apply is_finite_Bone. Qed.
Lemma val_zero : val 0%float = 0.
Proof. unfold val. rewrite Prim2B_zero. reflexivity. Qed.
Lemma fin_zero : fin 0%float.
Proof. unfold fin. rewrite Prim2B_zero. reflexivity. Qed.

Lemma rnd_0 : rnd 0 = 0.
Proof. apply round_0. apply valid_rnd_round_mode. Qed.
Lemma rnd_1 : rnd 1 = 1.
Proof. rewrite <- val_one. apply rnd_val. Qed.
Lemma bpow_emax_gt_1 : 1 < bpow radix2 emax.
Proof. change 1 with (bpow radix2 0). apply bpow_lt. unfold emax. lia. Qed.

Lemma leb_fin (a b : f64) : fin a -> fin b -> PrimFloat.leb a b = Rle_bool (val a) (val b).
Proof. intros Fa Fb. rewrite FP.leb_equiv. apply Bleb_correct; assumption. Qed.
Lemma leb_fin_true (a b : f64) : fin a -> fin b -> PrimFloat.leb a b = true -> val a <= val b.
Proof. intros Fa Fb H. rewrite (leb_fin a b Fa Fb) in H. destruct (Rle_bool_spec (val a) (val b)); [assumption|discriminate]. Qed.

(** a quotient [e / s] with [0 <= e <= 1 <= s] *)
Lemma div_unit (e s : f64) :
  fin e -> fin s -> 0 <= val e <= 1 -> 1 <= val s ->
  fin (e / s)%float /\ val (e / s)%float = rnd (val e / val s) /\ 0 <= val (e / s)%float <= 1.
Proof.
  intros Fe Fs He Hs.
  assert (Hs0 : val s <> 0) by lra.
  pose proof (Bdiv_correct prec emax FP.Hprec FP.Hmax mode_NE (FP.Prim2B e) (FP.Prim2B s) Hs0) as H.
  fold (val e) (val s) in H.
  assert (Hq : 0 <= val e / val s <= 1).
  { split.
    - apply Rmult_le_pos; [lra|]. apply Rlt_le, Rinv_0_lt_compat. lra.
    - apply (Rmult_le_reg_r (val s)); [lra|]. unfold Rdiv. rewrite Rmult_assoc, Rinv_l by lra. lra. }
  assert (Hr : 0 <= rnd (val e / val s) <= 1).
  { split; [rewrite <- rnd_0|rewrite <- rnd_1]; apply rnd_le; lra. }
  rewrite Rlt_bool_true in H.
  - destruct H as (HR & HF & _). unfold fin, val. rewrite FP.div_equiv, HR, HF. fold (val e) (val s).
    split; [exact Fe|]. split; [reflexivity|exact Hr].
  - rewrite Rabs_pos_eq by lra. pose proof bpow_emax_gt_1. lra.
Qed.

(** [v - m] with [v <= m]: the rounded difference, or -inf when it overflows *)
Lemma sub_cases (v m : f64) :
  fin v -> fin m -> val v <= val m ->
  (Rabs (rnd (val v - val m)) < bpow radix2 emax /\ fin (v - m)%float /\ val (v - m)%float = rnd (val v - val m)) \/
  (bpow radix2 emax <= Rabs (rnd (val v - val m)) /\ FP.Prim2B (v - m)%float = B754_infinity true).
Proof.
  intros Fv Fm Hle.
  pose proof (Bminus_correct prec emax FP.Hprec FP.Hmax mode_NE _ _ Fv Fm) as H.
  fold (val v) (val m) in H. unfold fin, val. rewrite FP.sub_equiv.
  destruct (Rlt_bool_spec (Rabs (rnd (val v - val m))) (bpow radix2 emax)) as [E|E].
  - left. destruct H as (HR & HF & _). split; [exact E|]. split; [exact HF|exact HR].
  - right. split; [exact E|]. destruct H as (HS & Hsg).
    destruct (Bsign (FP.Prim2B v)) eqn:Sv.
    + destruct (Bminus mode_NE (FP.Prim2B v) (FP.Prim2B m)) as [s|s| |s mm ee HH]; cbn in HS; try discriminate HS.
      injection HS as ->. reflexivity.
    + exfalso.
      assert (Sm : Bsign (FP.Prim2B m) = true) by (destruct (Bsign (FP.Prim2B m)); [reflexivity|discriminate Hsg]).
      pose proof (sign_val _ Fv) as P1. rewrite Sv in P1.
      pose proof (sign_val _ Fm) as P2. rewrite Sm in P2.
      fold (val v) in P1. fold (val m) in P2.
      assert (D0 : val v - val m = 0) by lra.
      rewrite D0, rnd_0, Rabs_R0 in E. pose proof (bpow_gt_0 radix2 emax). lra.
Qed.

(** subtraction of a common upper bound is monotone, overflow to -inf included *)
Lemma sub_mono (v w m : f64) :
  fin v -> fin w -> fin m -> val v <= val w -> val w <= val m -> PrimFloat.leb (v - m) (w - m) = true.
Proof.
  intros Fv Fw Fm Hvw Hwm.
  assert (Hr : rnd (val v - val m) <= rnd (val w - val m)) by (apply rnd_le; lra).
  assert (Hw0 : rnd (val w - val m) <= 0) by (rewrite <- rnd_0; apply rnd_le; lra).
  destruct (sub_cases v m Fv Fm ltac:(lra)) as [(Bv & Fdv & Vdv)|(Bv & Idv)];
    destruct (sub_cases w m Fw Fm Hwm) as [(Bw & Fdw & Vdw)|(Bw & Idw)].
  - rewrite (leb_fin _ _ Fdv Fdw), Vdv, Vdw. apply Rle_bool_true. exact Hr.
  - exfalso. rewrite Rabs_left1 in Bw by exact Hw0. rewrite Rabs_left1 in Bv by lra. lra.
  - rewrite FP.leb_equiv, Idv. unfold fin in Fdw.
    destruct (FP.Prim2B (w - m)%float) as [s|s| |s mm ee HH]; try discriminate Fdw; destruct s; reflexivity.
  - rewrite FP.leb_equiv, Idv, Idw. reflexivity.
Qed.

(** ** softmax: entries, range *)
Lemma softmax_length_f64 t (x : list f64) : length (softmax (FO t) x) = length x.
Proof. unfold softmax, softmax_exps, softmax_args. rewrite !map_length. reflexivity. Qed.

Lemma nth_map_lt {A B} (f : A -> B) (l : list A) (i : nat) (d : A) (d' : B) :
  (i < length l)%nat -> nth i (map f l) d' = f (nth i l d).
Proof. intros Hi. rewrite (nth_indep _ d' (f d)) by (rewrite map_length; exact Hi). apply map_nth. Qed.

Lemma softmax_as_map t (x : list f64) :
  softmax (FO t) x = map (fun v => (texp t (v - softmax_shift (FO t) x) / softmax_denom (FO t) x)%float) x.
Proof. unfold softmax, softmax_exps, softmax_args, exp_, texp. cbn [sub div FO]. rewrite !map_map. reflexivity. Qed.

Lemma nth_softmax t (x : list f64) (i : nat) : (i < length x)%nat ->
  nth i (softmax (FO t) x) 0%float =
  (texp t (nth i x 0%float - softmax_shift (FO t) x) / softmax_denom (FO t) x)%float.
Proof.
  intros Hi. rewrite softmax_as_map.
  exact (nth_map_lt (fun v => (texp t (v - softmax_shift (FO t) x) / softmax_denom (FO t) x)%float) x i 0%float 0%float Hi).
Qed.

Section Softmax.
  Variable t : libm_table.
  Variable x : list f64.
  Hypothesis Hne : x <> [].
  Hypothesis Fx : Forall fin x.
  Hypothesis Hlen : (Z.of_nat (length x) < 2 ^ 53)%Z.
  Hypothesis Hrange : exp_tbl_unit_range t (softmax_args (FO t) x).
  Hypothesis Hone : exp_tbl_one_at_zero t (softmax_args (FO t) x).

  Let m := softmax_shift (FO t) x.
  Let s := softmax_denom (FO t) x.

  Lemma sm_arg_in v : In v x -> In (v - m)%float (softmax_args (FO t) x).
  Proof. intros Hv. unfold softmax_args. cbn [sub FO]. apply in_map_iff. exists v. split; [reflexivity|exact Hv]. Qed.

  Lemma sm_exp_range v : In v x -> fin (texp t (v - m)) /\ 0 <= val (texp t (v - m)) <= 1.
  Proof.
    intros Hv. apply Hrange; [apply sm_arg_in, Hv|].
    pose proof (softmax_args_nonpos_f64 t x Hne Fx) as H. rewrite Forall_forall in H. apply H, sm_arg_in, Hv.
  Qed.

  Lemma sm_denom : fin s /\ 1 <= val s <= IZR (Z.of_nat (length x)).
  Proof.
    apply (softmax_denom_range_f64 t x Hne Fx Hlen).
    - apply Forall_forall. intros a Ha. apply Hrange; [exact Ha|].
      pose proof (softmax_args_nonpos_f64 t x Hne Fx) as H. rewrite Forall_forall in H. apply H, Ha.
    - exact Hone.
  Qed.

  Lemma sm_entry v : In v x ->
    let p := (texp t (v - m) / s)%float in
    fin p /\ val p = rnd (val (texp t (v - m)) / val s) /\ 0 <= val p <= 1.
  Proof.
    intros Hv p. destruct (sm_exp_range v Hv) as [Fe He]. destruct sm_denom as [Fs [Hs _]].
    apply div_unit; assumption.
  Qed.

  Lemma softmax_in p : In p (softmax (FO t) x) -> exists v, In v x /\ p = (texp t (v - m) / s)%float.
  Proof.
    rewrite softmax_as_map. intros Hp. apply in_map_iff in Hp. destruct Hp as (v & <- & Hv).
    exists v. split; [exact Hv|reflexivity].
  Qed.

  (** every output is a finite double in [0, 1] *)
  Lemma softmax_range_f64 : Forall (fun p => fin p /\ 0 <= val p <= 1) (softmax (FO t) x).
  Proof.
    apply Forall_forall. intros p Hp. destruct (softmax_in p Hp) as (v & Hv & ->).
    destruct (sm_entry v Hv) as (F & _ & R). split; assumption.
  Qed.

  (** order: needs, in addition, monotonicity of the table's exp on the arguments that occur *)
  Hypothesis Hmono : exp_tbl_monotone t (softmax_args (FO t) x).

  Lemma sm_order v w : In v x -> In w x -> val v <= val w ->
    val (texp t (v - m) / s)%float <= val (texp t (w - m) / s)%float.
  Proof.
    intros Hv Hw Hvw.
    destruct (softmax_shift_f64 t x Hne Fx) as [Hin Hall]. fold m in Hin, Hall.
    pose proof Fx as Fx'. rewrite Forall_forall in Fx'.
    assert (Hargs : PrimFloat.leb (v - m) (w - m) = true)
      by (apply sub_mono; [apply Fx', Hv|apply Fx', Hw|apply Fx', Hin|exact Hvw|apply Hall, Hw]).
    pose proof (Hmono _ _ (sm_arg_in v Hv) (sm_arg_in w Hw) Hargs) as He.
    destruct (sm_exp_range v Hv) as [Fev Rev]. destruct (sm_exp_range w Hw) as [Few Rew].
    apply leb_fin_true in He; [|assumption|assumption].
    destruct (sm_entry v Hv) as (_ & -> & _). destruct (sm_entry w Hw) as (_ & -> & _).
    destruct sm_denom as [_ [Hs _]].
    apply rnd_le. unfold Rdiv. apply Rmult_le_compat_r; [|exact He].
    apply Rlt_le, Rinv_0_lt_compat. lra.
  Qed.

  Lemma softmax_order_f64 (i j : nat) : (i < length x)%nat -> (j < length x)%nat ->
    val (nth i x 0%float) <= val (nth j x 0%float) ->
    val (nth i (softmax (FO t) x) 0%float) <= val (nth j (softmax (FO t) x) 0%float).
  Proof.
    intros Hi Hj Hle. rewrite (nth_softmax t x i Hi), (nth_softmax t x j Hj).
    apply sm_order; [apply nth_In, Hi|apply nth_In, Hj|exact Hle].
  Qed.

  (** a maximal input receives a maximal output *)
  Lemma softmax_max_f64 (j : nat) : (j < length x)%nat ->
    (forall v, In v x -> val v <= val (nth j x 0%float)) ->
    forall p, In p (softmax (FO t) x) -> val p <= val (nth j (softmax (FO t) x) 0%float).
  Proof.
    intros Hj Hmax p Hp. destruct (softmax_in p Hp) as (v & Hv & ->).
    rewrite (nth_softmax t x j Hj). apply sm_order; [exact Hv|apply nth_In, Hj|apply Hmax, Hv].
  Qed.
End Softmax.

(** ** the outputs sum to 1 up to rounding *)
Definition eta64 : R := / 2 ^ 1075.   (* half the smallest positive subnormal double *)

Lemma eta64_val : / 2 * bpow radix2 (-1074) = eta64.
Proof.
  unfold eta64. change (/ 2) with (bpow radix2 (-1)). rewrite <- bpow_plus.
  change (-1 + -1074)%Z with (-1075)%Z. change (bpow radix2 (-1075)) with (/ IZR (Z.pow_pos 2 1075)).
  f_equal. rewrite (pow_IZR 2 1075). f_equal.
Qed.

Lemma rnd_is_rnd64 q : rnd q = rnd64 q.
Proof. reflexivity. Qed.

(** one rounding to nearest, gradual underflow included *)
Lemma rnd_abs_err q : Rabs (rnd q - q) <= u64 * Rabs q + eta64.
Proof.
  destruct (error_N_FLT radix2 (-1074) 53 ltac:(lia) (fun z => negb (Z.even z)) q) as (eps & eta & He & Ht & _ & Hr).
  rewrite rnd_is_rnd64. unfold rnd64. change ZnearestE with (Znearest (fun z => negb (Z.even z))). rewrite Hr.
  replace (q * (1 + eps) + eta - q) with (q * eps + eta) by ring.
  eapply Rle_trans; [apply Rabs_triang|]. rewrite Rabs_mult. rewrite eta64_val in Ht.
  assert (Rabs q * Rabs eps <= u64 * Rabs q).
  { rewrite Rmult_comm. apply Rmult_le_compat_r; [apply Rabs_pos|]. exact He. }
  lra.
Qed.

Lemma quot_sum_err (es : list R) (s : R) :
  0 < s -> Forall (fun e => 0 <= e) es ->
  Rabs (Rsum (map (fun e => rnd (e / s)) es) - Rsum es / s) <= u64 * (Rsum es / s) + INR (length es) * eta64.
Proof.
  intros Hs. induction 1 as [|e es He Hes IH].
  - cbn [map length Rsum fold_right INR]. unfold Rdiv. rewrite !Rmult_0_l, Rmult_0_r, Rminus_0_r, Rabs_R0. lra.
  - cbn [map]. change (Rsum (rnd (e / s) :: map (fun e0 : R => rnd (e0 / s)) es))
      with (rnd (e / s) + Rsum (map (fun e0 : R => rnd (e0 / s)) es)).
    change (Rsum (e :: es)) with (e + Rsum es). cbn [length]. rewrite S_INR.
    assert (Hq : 0 <= e / s) by (apply Rmult_le_pos; [exact He|apply Rlt_le, Rinv_0_lt_compat, Hs]).
    pose proof (rnd_abs_err (e / s)) as H1. rewrite (Rabs_pos_eq _ Hq) in H1.
    replace (rnd (e / s) + Rsum (map (fun e0 : R => rnd (e0 / s)) es) - (e + Rsum es) / s)
      with ((rnd (e / s) - e / s) + (Rsum (map (fun e0 : R => rnd (e0 / s)) es) - Rsum es / s)) by (unfold Rdiv; ring).
    eapply Rle_trans; [apply Rabs_triang|].
    replace ((e + Rsum es) / s) with (e / s + Rsum es / s) by (unfold Rdiv; ring). lra.
Qed.

Lemma Rsum_nonneg (l : list R) : Forall (fun e => 0 <= e) l -> 0 <= Rsum l.
Proof. induction 1 as [|e l He Hl IH]; [cbn; lra|]. change (Rsum (e :: l)) with (e + Rsum l). lra. Qed.

Lemma Asum_nonneg_eq (l : list R) : Forall (fun e => 0 <= e) l -> Asum l = Rsum l.
Proof.
  induction 1 as [|e l He Hl IH]; [reflexivity|].
  rewrite Asum_cons, IH, (Rabs_pos_eq _ He). reflexivity.
Qed.

(** the left-to-right binary64 sum from -0.0 of non-negative doubles, when finite *)
Lemma sum_from_err t (es : list f64) :
  fin (sum_from (FO t) (- 0)%float es) -> Forall (fun e => 0 <= val e) es ->
  Rabs (val (sum_from (FO t) (- 0)%float es) - Rsum (map val es)) <= E u64 (length es) * Rsum (map val es).
Proof.
  intros Hf Hpos. unfold sum_from in *.
  destruct (fold_sim (FO t) (RndO rnd64) B2Rf finite) with (l := es) (s := (- 0)%float) as [_ Hs].
  - intros a b Hab. cbn [add FO RndO] in *. apply fadd_finite. exact Hab.
  - exact Hf.
  - change (val (fold_left (add (FO t)) es (- 0)%float)) with (B2Rf (fold_left (add (FO t)) es (- 0)%float)).
    rewrite Hs. destruct val_neg_zero as [_ V0]. change (B2Rf (- 0)%float) with (val (- 0)%float). rewrite V0.
    change (map B2Rf es) with (map val es).
    assert (HF : Forall F64 (map val es)).
    { apply Forall_forall. intros r Hr. apply in_map_iff in Hr. destruct Hr as (f & <- & _). apply F64_B2Rf. }
    assert (Hnn : Forall (fun e => 0 <= e) (map val es)).
    { apply Forall_forall. intros r Hr. apply in_map_iff in Hr. destruct Hr as (f & <- & Hin).
      rewrite Forall_forall in Hpos. apply Hpos, Hin. }
    destruct (fold_err u64 u64_nonneg F64 rnd64 rnd64_model (map val es) 0 0 0 0%nat F64_0 HF) as [_ He].
    + rewrite Rabs_R0. lra.
    + rewrite Rminus_0_r, Rabs_R0. lra.
    + rewrite Asum_nonneg_eq in He by exact Hnn. rewrite map_length in He. cbn [Nat.add] in He.
      change (Vops.Rsum (map val es)) with (Rsum (map val es)) in He.
      rewrite !Rplus_0_l in He. exact He.
Qed.

(** core: [es] finite doubles in [0,1], their finite left-to-right sum [sF >= 1], each divided by [sF] *)
Lemma quotients_sum_core t (es : list f64) :
  let sF := sum_from (FO t) (- 0)%float es in
  let g := E u64 (length es) in
  fin sF -> 1 <= val sF -> Forall (fun e => fin e /\ 0 <= val e <= 1) es -> g < 1 ->
  Rabs (Rsum (map val (map (fun e => (e / sF)%float) es)) - 1) <= (u64 + g) / (1 - g) + INR (length es) * eta64.
Proof.
  intros sF g Fs Hs1 Hes Hg.
  assert (Hnn : Forall (fun e => 0 <= val e) es).
  { apply Forall_forall. intros e He. rewrite Forall_forall in Hes. apply (Hes e He). }
  assert (Hnn' : Forall (fun e => 0 <= e) (map val es)).
  { apply Forall_forall. intros r Hr. apply in_map_iff in Hr. destruct Hr as (f & <- & Hin).
    rewrite Forall_forall in Hnn. apply Hnn, Hin. }
  pose proof (sum_from_err t es Fs Hnn) as Hd. fold sF g in Hd.
  set (Es := Rsum (map val es)) in *. set (s := val sF) in *.
  assert (HE0 : 0 <= Es) by (apply Rsum_nonneg, Hnn').
  assert (Hmap : map val (map (fun e => (e / sF)%float) es) = map (fun r => rnd (r / s)) (map val es)).
  { rewrite !map_map. apply map_ext_in. intros e He. rewrite Forall_forall in Hes. destruct (Hes e He) as [Fe Re].
    destruct (div_unit e sF Fe Fs Re Hs1) as (_ & -> & _). reflexivity. }
  rewrite Hmap.
  pose proof (quot_sum_err (map val es) s ltac:(lra) Hnn') as Hq. fold Es in Hq. rewrite map_length in Hq.
  pose proof (E_nonneg u64 u64_nonneg (length es)) as Hg0. fold g in Hg0.
  pose proof u64_nonneg as Hu.
  set (r := Es / s) in *.
  assert (Hr0 : 0 <= r) by (apply Rmult_le_pos; [exact HE0|apply Rlt_le, Rinv_0_lt_compat; lra]).
  assert (Hr1 : Rabs (r - 1) <= g * r).
  { unfold r. replace (Es / s - 1) with ((Es - s) / s) by (field; lra).
    unfold Rdiv at 1. rewrite Rabs_mult, (Rabs_pos_eq (/ s)) by (apply Rlt_le, Rinv_0_lt_compat; lra).
    rewrite <- Rabs_Ropp, Ropp_minus_distr. unfold Rdiv. rewrite <- Rmult_assoc.
    apply Rmult_le_compat_r; [apply Rlt_le, Rinv_0_lt_compat; lra|exact Hd]. }
  assert (Hr2 : r <= / (1 - g)).
  { apply (Rmult_le_reg_r (1 - g)); [lra|]. rewrite Rinv_l by lra.
    assert (r - 1 <= g * r) by (pose proof (Rle_abs (r - 1)); lra). lra. }
  assert (H3 : (u64 + g) * r <= (u64 + g) / (1 - g)).
  { unfold Rdiv. apply Rmult_le_compat_l; [lra|exact Hr2]. }
  replace (Rsum (map (fun r0 : R => rnd (r0 / s)) (map val es)) - 1)
    with ((Rsum (map (fun r0 : R => rnd (r0 / s)) (map val es)) - r) + (r - 1)) by ring.
  eapply Rle_trans; [apply Rabs_triang|]. lra.
Qed.

(** [(1+u)^n <= 1 / (1 - n u)] as long as [n u < 1] *)
Lemma pow1p_le (u : R) (n : nat) : 0 <= u -> INR n * u < 1 -> (1 + u) ^ n <= / (1 - INR n * u).
Proof.
  intros Hu. induction n as [|n IH]; intros Hn.
  - cbn [pow INR]. rewrite Rmult_0_l, Rminus_0_r, Rinv_1. lra.
  - rewrite S_INR in *. assert (Hn' : INR n * u < 1) by nra. specialize (IH Hn').
    cbn [pow].
    assert (P1 : 0 < 1 - INR n * u) by lra. assert (P2 : 0 < 1 - (INR n + 1) * u) by lra.
    apply Rle_trans with ((1 + u) * / (1 - INR n * u)); [apply Rmult_le_compat_l; [lra|exact IH]|].
    apply (Rmult_le_reg_r (1 - INR n * u)); [exact P1|]. rewrite Rmult_assoc, Rinv_l, Rmult_1_r by lra.
    apply (Rmult_le_reg_l (1 - (INR n + 1) * u)); [exact P2|]. rewrite <- Rmult_assoc, Rinv_r, Rmult_1_l by lra.
    pose proof (pos_INR n). nra.
Qed.

Lemma E_le_frac (n : nat) : INR n * u64 < 1 -> E u64 n <= INR n * u64 / (1 - INR n * u64).
Proof.
  intros Hn. unfold E. pose proof (pow1p_le u64 n u64_nonneg Hn) as H.
  replace (INR n * u64 / (1 - INR n * u64)) with (/ (1 - INR n * u64) - 1) by (field; lra). lra.
Qed.

Lemma INR_IZR_nat n : INR n = IZR (Z.of_nat n).
Proof. apply INR_IZR_INZ. Qed.

Lemma E_lt_1 (n : nat) : (Z.of_nat n < 2 ^ 52)%Z -> E u64 n < 1.
Proof.
  intros Hn. assert (Hnu : INR n * u64 < / 2).
  { rewrite u64_val, INR_IZR_nat. apply (Rmult_lt_reg_r (2 ^ 53)); [apply pow_lt; lra|].
    rewrite Rmult_assoc, Rinv_l by (apply pow_nonzero; lra). rewrite Rmult_1_r.
    replace (/ 2 * 2 ^ 53) with (2 ^ 52) by (cbn [pow]; field).
    rewrite (pow_IZR 2 52). apply IZR_lt. exact Hn. }
  pose proof (pos_INR n). pose proof u64_nonneg.
  assert (Hnu0 : 0 <= INR n * u64) by (apply Rmult_le_pos; assumption).
  eapply Rle_lt_trans; [apply E_le_frac; lra|].
  apply (Rmult_lt_reg_r (1 - INR n * u64)); [lra|]. unfold Rdiv. rewrite Rmult_assoc, Rinv_l by lra. lra.
Qed.

(** linear form: for [n <= 2^25] terms, [(u + g) / (1 - g) <= (n + 2) u] *)
Lemma bound_linear (n : nat) : (Z.of_nat n <= 2 ^ 25)%Z ->
  (u64 + E u64 n) / (1 - E u64 n) <= (INR n + 2) * u64.
Proof.
  intros Hn. pose proof (pos_INR n) as HN0. pose proof u64_nonneg as Hu.
  assert (HN : INR n <= 33554432) by (rewrite INR_IZR_nat; apply IZR_le; exact Hn).
  assert (Hu' : u64 * 9007199254740992 = 1).
  { rewrite u64_val. replace 9007199254740992 with (2 ^ 53).
    - apply Rinv_l, pow_nonzero. lra.
    - rewrite (pow_IZR 2 53). apply f_equal. reflexivity. }
  set (N := INR n) in *. set (a := N * u64).
  assert (Ha0 : 0 <= a) by (apply Rmult_le_pos; assumption).
  assert (Ha : a * 268435456 <= 1) by (unfold a; nra).
  assert (Hg : E u64 n <= a / (1 - a)) by (apply E_le_frac; fold N a; lra).
  pose proof (E_nonneg u64 Hu n) as Hg0. set (g := E u64 n) in *.
  assert (Hfr : a / (1 - a) * (1 - a) = a) by (field; lra).
  assert (Hg1 : g * (1 - a) <= a).
  { apply Rle_trans with (a / (1 - a) * (1 - a)); [apply Rmult_le_compat_r; [lra|exact Hg]|lra]. }
  assert (Hglt : g < 1) by nra.
  apply (Rmult_le_reg_r (1 - g)); [lra|]. unfold Rdiv. rewrite Rmult_assoc, Rinv_l, Rmult_1_r by lra.
  replace ((N + 2) * u64) with (a + 2 * u64) by (unfold a; ring).
  (* suffices g (1 + a + 2u) <= a + u, and g <= a/(1-a): a (1 + a + 2u) <= (a + u)(1 - a) <== 2 a^2 + 3 a u <= u *)
  assert (Hkey : 2 * a * a + 3 * a * u64 <= u64).
  { unfold a. assert (N * (2 * N + 3) * u64 <= 1).
    { assert (N * (2 * N + 3) <= 9007199254740992) by nra.
      rewrite <- Hu'. rewrite (Rmult_comm u64). apply Rmult_le_compat_r; [exact Hu|assumption]. }
    nra. }
  assert (H5 : g * (1 - a) * (1 + a + 2 * u64) <= a * (1 + a + 2 * u64)).
  { apply Rmult_le_compat_r; [lra|exact Hg1]. }
  assert (H6 : a * (1 + a + 2 * u64) <= (a + u64) * (1 - a)) by nra.
  assert (H7 : g * (1 + a + 2 * u64) * (1 - a) <= (a + u64) * (1 - a)) by lra.
  assert (H8 : g * (1 + a + 2 * u64) <= a + u64).
  { apply (Rmult_le_reg_r (1 - a)); [lra|exact H7]. }
  lra.
Qed.

Section SoftmaxSum.
  Variable t : libm_table.
  Variable x : list f64.
  Hypothesis Hne : x <> [].
  Hypothesis Fx : Forall fin x.
  Hypothesis Hrange : exp_tbl_unit_range t (softmax_args (FO t) x).
  Hypothesis Hone : exp_tbl_one_at_zero t (softmax_args (FO t) x).

  Lemma softmax_sum_f64 : (Z.of_nat (length x) < 2 ^ 52)%Z ->
    let g := (1 + / 2 ^ 53) ^ length x - 1 in
    Rabs (Rsum (map val (softmax (FO t) x)) - 1) <= (/ 2 ^ 53 + g) / (1 - g) + INR (length x) * / 2 ^ 1075.
  Proof.
    intros Hlen. cbn zeta. rewrite <- u64_val. change ((1 + u64) ^ length x - 1) with (E u64 (length x)).
    assert (Hlen' : (Z.of_nat (length x) < 2 ^ 53)%Z) by lia.
    destruct (sm_denom t x Hne Fx Hlen' Hrange Hone) as [Fs [Hs _]].
    assert (Hl : length (softmax_exps (FO t) x) = length x)
      by (unfold softmax_exps, softmax_args; rewrite !map_length; reflexivity).
    assert (Fes : Forall (fun e => fin e /\ 0 <= val e <= 1) (softmax_exps (FO t) x)).
    { apply Forall_forall. intros e He. unfold softmax_exps, softmax_args, exp_ in He. cbn [sub FO] in He.
      rewrite map_map in He. apply in_map_iff in He. destruct He as (v & <- & Hv).
      apply (sm_exp_range t x Hne Fx Hrange v Hv). }
    pose proof (quotients_sum_core t (softmax_exps (FO t) x)) as H. cbn zeta in H. rewrite Hl in H.
    change (softmax (FO t) x) with
      (map (fun e => (e / sum_from (FO t) (- 0)%float (softmax_exps (FO t) x))%float) (softmax_exps (FO t) x)).
    apply H; [exact Fs|exact Hs|exact Fes|apply E_lt_1, Hlen].
  Qed.

  Lemma softmax_sum_linear_f64 : (Z.of_nat (length x) <= 2 ^ 25)%Z ->
    Rabs (Rsum (map val (softmax (FO t) x)) - 1) <= (INR (length x) + 2) * / 2 ^ 53 + INR (length x) * / 2 ^ 1075.
  Proof.
    intros Hlen. eapply Rle_trans; [apply softmax_sum_f64; lia|]. cbn zeta.
    apply Rplus_le_compat_r. rewrite <- u64_val. apply (bound_linear (length x) Hlen).
  Qed.
End SoftmaxSum.

(** ** the table hypotheses are satisfiable: x = [1; 3; 2] with the three exp values glibc returns *)
Lemma unit_by_leb (e : f64) :
  fin e -> PrimFloat.leb 0 e = true -> PrimFloat.leb e 1 = true -> fin e /\ 0 <= val e <= 1.
Proof.
  intros Fe H0 H1. split; [exact Fe|].
  apply (leb_fin_true _ _ fin_zero Fe) in H0. apply (leb_fin_true _ _ Fe fin_one) in H1.
  rewrite val_zero in H0. rewrite val_one in H1. lra.
Qed.

Definition softmax_ex_tbl : libm_table :=
  {| tbl1 := [(Exp, (-2)%float, 0x1.152aaa3bf81ccp-3%float); (Exp, 0%float, 1%float);
              (Exp, (-1)%float, 0x1.78b56362cef38p-2%float)]; tbl2 := [] |}.
Definition softmax_ex_x : list f64 := [1%float; 3%float; 2%float].

Example softmax_f64_hyps_ex :
  softmax_ex_x <> [] /\ Forall fin softmax_ex_x /\
  exp_tbl_unit_range softmax_ex_tbl (softmax_args (FO softmax_ex_tbl) softmax_ex_x) /\
  exp_tbl_one_at_zero softmax_ex_tbl (softmax_args (FO softmax_ex_tbl) softmax_ex_x) /\
  exp_tbl_monotone softmax_ex_tbl (softmax_args (FO softmax_ex_tbl) softmax_ex_x) /\
  softmax (FO softmax_ex_tbl) softmax_ex_x =
    [0x1.70c3e5f682bdap-4%float; 0x1.549a766a0679p-1%float; 0x1.f534335ca4bcfp-3%float].
Proof.
  assert (A : softmax_args (FO softmax_ex_tbl) softmax_ex_x = [(-2)%float; 0%float; (-1)%float])
    by (vm_compute; reflexivity).
  split; [discriminate|]. split; [repeat constructor; vm_compute; reflexivity|].
  rewrite A. split; [|split; [|split]].
  - intros a [<-|[<-|[<-|[]]]] _; apply unit_by_leb; vm_compute; reflexivity.
  - intros a [<-|[<-|[<-|[]]]] H; try (vm_compute in H; discriminate H); exact val_one.
  - intros a b [<-|[<-|[<-|[]]]] [<-|[<-|[<-|[]]]] H; vm_compute in H |- *; try reflexivity; discriminate H.
  - vm_compute. reflexivity.
Qed.
