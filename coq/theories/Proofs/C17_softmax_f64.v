(** * C17: overflow safety of the repaired softmax ON BINARY64 (IEEE-754 semantics of Coq's primitive floats
    through Flocq's [Prim2B]): for every non-empty vector of finite doubles and whatever libm returns, the
    running maximum is an element of the vector that bounds all the others, and every argument handed to
    [exp] compares [<= 0] (it is a non-positive finite double, a zero, or -inf when the subtraction overflows). *)
From Coq Require Import Reals Floats List Lra Bool.
From Flocq Require Import Core BinarySingleNaN.
From Flocq Require PrimFloat.
From Compute Require Import Base.Ops Model.Transforms.
Module FP := Flocq.IEEE754.PrimFloat.
Import ListNotations.
Notation f64 := Coq.Floats.PrimFloat.float (only parsing).

Definition fin (x : f64) : Prop := is_finite (FP.Prim2B x) = true.
Definition val (x : f64) : R := B2R (FP.Prim2B x).

Lemma sign_val (b : binary_float prec emax) :
  is_finite b = true -> (if Bsign b then B2R b <= 0 else 0 <= B2R b)%R.
Proof.
  destruct b as [s|s| |s m e H]; simpl; intros F; try discriminate.
  - destruct s; lra.
  - destruct s; simpl.
    + apply F2R_le_0. simpl. apply Pos2Z.neg_is_nonpos.
    + apply F2R_ge_0. simpl. apply Pos2Z.is_nonneg.
Qed.

Lemma Prim2B_zero : FP.Prim2B 0%float = B754_zero false.
Proof. change 0%float with Coq.Floats.PrimFloat.zero. rewrite FP.zero_equiv. apply FP.Prim2B_B2Prim. Qed.

(** v - m <= 0 on binary64 whenever v <= m (both finite), including the overflow to -inf *)
Lemma sub_nonpos (v m : f64) :
  fin v -> fin m -> (val v <= val m)%R -> PrimFloat.leb (v - m) 0 = true.
Proof.
  intros Fv Fm Hle. rewrite FP.leb_equiv, FP.sub_equiv, Prim2B_zero.
  pose proof (Bminus_correct prec emax FP.Hprec FP.Hmax mode_NE _ _ Fv Fm) as H.
  fold (val v) (val m) in H.
  set (d := (val v - val m)%R) in *. assert (Hd : (d <= 0)%R) by (unfold d; lra).
  assert (Hr : (round radix2 (fexp prec emax) (round_mode mode_NE) d <= 0)%R).
  { rewrite <- (round_0 radix2 (fexp prec emax) (round_mode mode_NE)).
    apply round_le; [apply (fexp_correct prec emax FP.Hprec)|apply valid_rnd_round_mode|exact Hd]. }
  destruct (Rlt_bool (Rabs (round radix2 (fexp prec emax) (round_mode mode_NE) d)) (bpow radix2 emax)) eqn:E.
  - destruct H as (HR & HF & _). rewrite Bleb_correct by (try exact HF; reflexivity).
    rewrite HR. simpl B2R. apply Rle_bool_true. exact Hr.
  - destruct H as (HS & Hsg). unfold Bleb. rewrite HS.
    destruct (Bsign (FP.Prim2B v)) eqn:Sv; [reflexivity|exfalso].
    assert (Sm : Bsign (FP.Prim2B m) = true) by (destruct (Bsign (FP.Prim2B m)); [reflexivity|discriminate Hsg]).
    pose proof (sign_val _ Fv) as P1. rewrite Sv in P1.
    pose proof (sign_val _ Fm) as P2. rewrite Sm in P2.
    fold (val v) in P1. fold (val m) in P2.
    assert (D0 : d = 0%R) by (unfold d in *; lra).
    rewrite D0, round_0, Rabs_R0 in E by apply valid_rnd_round_mode.
    rewrite Rlt_bool_true in E by apply bpow_gt_0. discriminate E.
Qed.

Lemma eqb_refl_fin v : fin v -> PrimFloat.eqb v v = true.
Proof. intros F. rewrite FP.eqb_equiv, Beqb_correct by exact F. apply Req_bool_true. reflexivity. Qed.
Lemma ltb_fin a b : fin a -> fin b -> PrimFloat.ltb a b = Rlt_bool (val a) (val b).
Proof. intros Fa Fb. rewrite FP.ltb_equiv. apply Bltb_correct; assumption. Qed.

Lemma is_nan_fin t v : fin v -> is_nan (FO t) v = false.
Proof. intros F. unfold is_nan. cbn [eqb FO]. rewrite (eqb_refl_fin v F). reflexivity. Qed.

(** maxNum of two finite doubles is one of them and bounds both *)
Lemma fmax_fin t a b : fin a -> fin b ->
  (fmax (FO t) a b = a \/ fmax (FO t) a b = b) /\
  (val a <= val (fmax (FO t) a b))%R /\ (val b <= val (fmax (FO t) a b))%R.
Proof.
  intros Fa Fb. unfold fmax. rewrite (is_nan_fin t a Fa), (is_nan_fin t b Fb). cbn [ltb FO].
  rewrite (ltb_fin a b Fa Fb). destruct (Rlt_bool_spec (val a) (val b)) as [H|H].
  - split; [right; reflexivity|]. split; lra.
  - split; [left; reflexivity|]. split; lra.
Qed.

Lemma fold_max_fin t (l : list f64) (a : f64) :
  fin a -> Forall fin l ->
  exists m, fold_left (max_step (FO t)) l (Some a) = Some m /\ fin m /\ (val a <= val m)%R /\
            (forall v, In v l -> (val v <= val m)%R) /\ (m = a \/ In m l).
Proof.
  revert a. induction l as [|b l IH]; intros a Fa Fl; cbn [fold_left].
  - exists a. repeat split; [exact Fa|lra|intros v []|left; reflexivity].
  - inversion Fl as [|b' l' Fb Fl' E]; subst. cbn [max_step].
    destruct (fmax_fin t a b Fa Fb) as (Hsel & Ha & Hb).
    assert (Fm : fin (fmax (FO t) a b)) by (destruct Hsel as [-> | ->]; assumption).
    destruct (IH _ Fm Fl') as (m & Em & Fm' & Hle & Hall & Hin).
    exists m. split; [exact Em|]. split; [exact Fm'|]. split; [lra|]. split.
    + intros v [<-|Hv]; [lra|apply Hall, Hv].
    + destruct Hin as [->|Hin]; [|right; right; exact Hin].
      destruct Hsel as [-> | ->]; [left; reflexivity|right; left; reflexivity].
Qed.

Lemma softmax_shift_f64 t (x : list f64) : x <> [] -> Forall fin x ->
  In (softmax_shift (FO t) x) x /\ forall v, In v x -> (val v <= val (softmax_shift (FO t) x))%R.
Proof.
  destruct x as [|a l]; [contradiction|]. intros _ Fx. inversion Fx as [|a' l' Fa Fl E]; subst.
  unfold softmax_shift, list_max. cbn [fold_left max_step]. rewrite (is_nan_fin t a Fa).
  destruct (fold_max_fin t l a Fa Fl) as (m & Em & Fm & Hle & Hall & Hin). rewrite Em. split.
  - destruct Hin as [->|Hin]; [left; reflexivity|right; exact Hin].
  - intros v [<-|Hv]; [exact Hle|apply Hall, Hv].
Qed.

(** the overflow-safety obligation on binary64 *)
Lemma softmax_args_nonpos_f64 t (x : list f64) : x <> [] -> Forall fin x ->
  Forall (fun a => PrimFloat.leb a 0 = true) (softmax_args (FO t) x).
Proof.
  intros Hne Fx. destruct (softmax_shift_f64 t x Hne Fx) as [Hin Hall].
  unfold softmax_args. cbn [sub FO]. apply Forall_forall. intros a Ha.
  apply in_map_iff in Ha. destruct Ha as (v & <- & Hv).
  rewrite Forall_forall in Fx. apply sub_nonpos; [apply Fx, Hv|apply Fx, Hin|apply Hall, Hv].
Qed.

(** and the shift is attained: the maximal entry contributes the argument m - m = +0, so (with exp 0 = 1)
    the denominator contains the term 1 *)
Lemma softmax_args_has_zero_f64 t (x : list f64) : x <> [] -> Forall fin x ->
  exists m, In m x /\ In (m - m)%float (softmax_args (FO t) x) /\ PrimFloat.eqb (m - m) 0 = true.
Proof.
  intros Hne Fx. destruct (softmax_shift_f64 t x Hne Fx) as [Hin Hall].
  exists (softmax_shift (FO t) x). split; [exact Hin|]. split.
  - unfold softmax_args. cbn [sub FO]. apply in_map_iff. exists (softmax_shift (FO t) x). split; [reflexivity|exact Hin].
  - set (m := softmax_shift (FO t) x). assert (Fm : fin m) by (rewrite Forall_forall in Fx; apply Fx, Hin).
    rewrite FP.eqb_equiv, FP.sub_equiv, Prim2B_zero.
    pose proof (Bminus_correct prec emax FP.Hprec FP.Hmax mode_NE _ _ Fm Fm) as H.
    replace (B2R (FP.Prim2B m) - B2R (FP.Prim2B m))%R with 0%R in H by lra.
    rewrite round_0, Rabs_R0 in H by apply valid_rnd_round_mode.
    rewrite Rlt_bool_true in H by apply bpow_gt_0. destruct H as (HR & HF & _).
    rewrite Beqb_correct by (try exact HF; reflexivity). rewrite HR. simpl B2R. apply Req_bool_true. reflexivity.
Qed.

(** the hypotheses are satisfiable on the instance that broke the unrepaired code *)
Example softmax_args_f64_ex :
  softmax_args FO0 [1000%float; 1000%float] = [0%float; 0%float] /\ Forall fin [1000%float; 1000%float].
Proof. split; [vm_compute; reflexivity|repeat constructor; vm_compute; reflexivity]. Qed.

(** ** the denominator on binary64.  Assumption on libm (it cannot be proved: exp comes from the recorded table):
    on the arguments actually passed, exp returns a finite double in [0,1], and 1 at a zero argument. *)
From Coq Require Import ZArith Lia.
Local Open Scope R_scope.

Notation rnd := (round radix2 (fexp prec emax) (round_mode mode_NE)).

Lemma format_small_int (k : Z) : (0 <= k < 2 ^ 53)%Z -> generic_format radix2 (fexp prec emax) (IZR k).
Proof.
  intros Hk. change (fexp prec emax) with (FLT_exp (SpecFloat.emin prec emax) prec).
  apply generic_format_FLT. apply (FLT_spec _ _ _ _ (Float radix2 k 0)).
  - unfold F2R. simpl. lra.
  - simpl Fnum. change (radix2 ^ prec)%Z with (2 ^ 53)%Z. lia.
  - simpl. unfold SpecFloat.emin, prec, emax. lia.
Qed.

Lemma rnd_le a b : a <= b -> rnd a <= rnd b.
Proof. apply round_le; [apply (fexp_correct prec emax FP.Hprec)|apply valid_rnd_round_mode]. Qed.
Lemma rnd_val x : rnd (val x) = val x.
Proof. apply round_generic; [apply valid_rnd_round_mode|apply generic_format_B2R]. Qed.
Lemma rnd_int k : (0 <= k < 2 ^ 53)%Z -> rnd (IZR k) = IZR k.
Proof. intros H. apply round_generic; [apply valid_rnd_round_mode|apply format_small_int, H]. Qed.

(** one accumulation step [s + e] with 0 <= s <= k, 0 <= e <= 1 *)
Lemma add_step (s e : f64) (k : Z) :
  fin s -> fin e -> 0 <= val s <= IZR k -> 0 <= val e <= 1 -> (0 <= k)%Z -> (k + 1 < 2 ^ 53)%Z ->
  fin (s + e)%float /\ val s <= val (s + e)%float /\ val e <= val (s + e)%float /\ val (s + e)%float <= IZR (k + 1).
Proof.
  intros Fs Fe Hs He Hk0 Hk.
  pose proof (Bplus_correct prec emax FP.Hprec FP.Hmax mode_NE _ _ Fs Fe) as H.
  fold (val s) (val e) in H.
  assert (Hup : rnd (val s + val e) <= IZR (k + 1)).
  { rewrite <- (rnd_int (k + 1)) by lia. apply rnd_le. rewrite plus_IZR. lra. }
  assert (Hlo1 : val s <= rnd (val s + val e)) by (rewrite <- (rnd_val s) at 1; apply rnd_le; lra).
  assert (Hlo2 : val e <= rnd (val s + val e)) by (rewrite <- (rnd_val e) at 1; apply rnd_le; lra).
  rewrite Rlt_bool_true in H.
  - destruct H as (HR & HF & _). unfold fin, val. rewrite FP.add_equiv. rewrite HR. fold (val s) (val e).
    repeat split; assumption.
  - rewrite Rabs_pos_eq by lra. apply Rle_lt_trans with (1 := Hup).
    apply Rlt_le_trans with (IZR (2 ^ 53)); [apply IZR_lt; lia|].
    change (2 ^ 53)%Z with (radix2 ^ 53)%Z. rewrite IZR_Zpower by lia. apply bpow_le. unfold emax. lia.
Qed.

(** the fold: finite, between 0 and the number of terms, and >= 1 as soon as one term is >= 1 *)
Lemma sum_fold_f64 t (es : list f64) (s : f64) (k : Z) :
  Forall (fun e => fin e /\ 0 <= val e <= 1) es ->
  fin s -> 0 <= val s <= IZR k -> (0 <= k)%Z -> (k + Z.of_nat (length es) < 2 ^ 53)%Z ->
  let r := sum_from (FO t) s es in
  fin r /\ val s <= val r <= IZR (k + Z.of_nat (length es)) /\ (forall e, In e es -> val e <= val r).
Proof.
  revert s k. induction es as [|e es IH]; intros s k Fes Fs Hs Hk0 Hk; cbn zeta.
  - unfold sum_from. cbn [fold_left length]. rewrite Z.add_0_r. repeat split; try lra; try assumption. intros e [].
  - inversion Fes as [|e' es' [Fe He] Fes' E]; subst.
    cbn [length] in Hk. rewrite Nat2Z.inj_succ in Hk.
    destruct (add_step s e k Fs Fe Hs He Hk0 ltac:(lia)) as (Fn & L1 & L2 & U).
    unfold sum_from. cbn [fold_left add FO].
    specialize (IH (s + e)%float (k + 1)%Z Fes' Fn ltac:(split; lra) ltac:(lia) ltac:(lia)).
    cbn zeta in IH. unfold sum_from in IH. cbn [add FO] in IH.
    destruct IH as (Fr & (Lr & Ur) & Hall).
    cbn [length]. rewrite Nat2Z.inj_succ. replace (k + Z.succ (Z.of_nat (length es)))%Z with (k + 1 + Z.of_nat (length es))%Z by lia.
    repeat split; try assumption; try lra.
    intros v [<-|Hv]; [lra|apply Hall, Hv].
Qed.

Lemma val_neg_zero : fin (- 0)%float /\ val (- 0)%float = 0.
Proof. unfold fin, val. rewrite FP.opp_equiv, Prim2B_zero. split; reflexivity. Qed.

Lemma softmax_denom_range_f64 t (x : list f64) :
  x <> [] -> Forall fin x -> (Z.of_nat (length x) < 2 ^ 53)%Z ->
  (* libm: on the arguments actually used, exp is a finite double in [0,1] ... *)
  Forall (fun a => fin (f1 (FO t) Exp a) /\ 0 <= val (f1 (FO t) Exp a) <= 1) (softmax_args (FO t) x) ->
  (* ... and exp(0) = 1 *)
  (forall a, In a (softmax_args (FO t) x) -> PrimFloat.eqb a 0 = true -> val (f1 (FO t) Exp a) = 1) ->
  fin (softmax_denom (FO t) x) /\ 1 <= val (softmax_denom (FO t) x) <= IZR (Z.of_nat (length x)).
Proof.
  intros Hne Fx Hlen Hexp Hone.
  destruct val_neg_zero as [F0 V0].
  assert (Fes : Forall (fun e => fin e /\ 0 <= val e <= 1) (softmax_exps (FO t) x)).
  { unfold softmax_exps, exp_. apply Forall_forall. intros e He. apply in_map_iff in He. destruct He as (a & <- & Ha).
    rewrite Forall_forall in Hexp. apply Hexp, Ha. }
  assert (Hl : length (softmax_exps (FO t) x) = length x) by (unfold softmax_exps, softmax_args; rewrite !map_length; reflexivity).
  pose proof (sum_fold_f64 t (softmax_exps (FO t) x) (- 0)%float 0 Fes F0 ltac:(rewrite V0; simpl; lra) ltac:(lia) ltac:(rewrite Hl; lia)) as H.
  cbn zeta in H. rewrite Hl, Z.add_0_l in H. destruct H as (Fr & (_ & Ur) & Hall).
  unfold softmax_denom. cbn [neg zero FO]. split; [exact Fr|]. split; [|exact Ur].
  destruct (softmax_args_has_zero_f64 t x Hne Fx) as (m & _ & Hin & Hz).
  rewrite <- (Hone _ Hin Hz). apply Hall. unfold softmax_exps, exp_. apply in_map. exact Hin.
Qed.

(** the hypotheses are satisfiable: [1000; 1000] with a table that answers exp(0) = 1 *)
Example softmax_denom_f64_ex :
  let t := {| tbl1 := [(Exp, 0%float, 1%float)]; tbl2 := [] |} in
  fin (softmax_denom (FO t) [1000%float; 1000%float]) /\
  1 <= val (softmax_denom (FO t) [1000%float; 1000%float]) <= 2.
Proof.
  intros t.
  assert (V1 : val 1%float = 1).
  { unfold val. change 1%float with Coq.Floats.PrimFloat.one. rewrite FP.one_equiv, FP.Prim2B_B2Prim. apply Bone_correct. }
  assert (A : softmax_args (FO t) [1000%float; 1000%float] = [0%float; 0%float]) by (vm_compute; reflexivity).
  assert (E : f1 (FO t) Exp 0%float = 1%float) by (vm_compute; reflexivity).
  apply (softmax_denom_range_f64 t [1000%float; 1000%float]).
  - discriminate.
  - repeat constructor; vm_compute; reflexivity.
  - simpl. lia.
  - rewrite A. repeat constructor; rewrite E; try (vm_compute; reflexivity); rewrite V1; lra.
  - rewrite A. intros a [<-|[<-|[]]] _; rewrite E; exact V1.
Qed.
