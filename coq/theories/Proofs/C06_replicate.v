(** Proofs for C06, part 6: frequency weights = replicated observations for the gradient and the information
    matrix (hence for the Newton system at the same coefficients and means). *)
From Coq Require Import Reals List Arith ZArith Bool Lia Lra.
From Compute Require Import Base.Ops Base.ListMat Model.Reduce Model.MatMul Spec.MatMul Proofs.C05.
From Compute Require Import Generated.glm_families Model.GLM Spec.GLM Proofs.C06_base Proofs.C06 Proofs.C06_infer
  Proofs.C06_perm Proofs.C06_weighted.
Import ListNotations.
Local Open Scope R_scope.

(** index of the original observation behind each row of the replicated data *)
Definition rep_index (k : list nat) : list nat := replicate k (seq 0 (length k)).
(** the replicated design: row r is row [(rep_index k)_r] of x *)
Definition replicate_rows (x : list R) (p : nat) (k : list nat) : list R := permute_rows x p (rep_index k).

Lemma rep_index_length k : length (rep_index k) = list_sum k.
Proof. unfold rep_index. apply replicate_length. apply seq_length. Qed.

Lemma map_repeat' {A B} (h : A -> B) a n : map h (repeat a n) = repeat (h a) n.
Proof. induction n as [|n IH]; [reflexivity|]. cbn [repeat map]. rewrite IH. reflexivity. Qed.

Lemma permute_replicate_gen k : forall (v pre : list R),
  length v = length k ->
  map (fun i => nth i (pre ++ v) 0) (replicate k (seq (length pre) (length k))) = replicate k v.
Proof.
  induction k as [|ki k IH]; intros [|vi v] pre L; cbn [length] in L; try lia; [reflexivity|].
  cbn [length seq replicate]. rewrite map_app, map_repeat'.
  rewrite app_nth2, Nat.sub_diag by lia. cbn [nth]. f_equal.
  specialize (IH v (pre ++ [vi]) ltac:(lia)). rewrite app_length in IH. cbn [length] in IH.
  rewrite Nat.add_1_r, <- app_assoc in IH. exact IH.
Qed.

(** replicating a vector = reading it through the replicated index *)
Lemma permute_replicate v k : length v = length k -> permute v (rep_index k) = replicate k v.
Proof. intros L. exact (permute_replicate_gen k v [] L). Qed.

Lemma lsum_map_replicate (g : nat -> R) k : forall a,
  lsum (map g (replicate k (seq a (length k)))) = lsum (map2 Rmult (map INR k) (map g (seq a (length k)))).
Proof.
  induction k as [|ki k IH]; intros a; [reflexivity|].
  cbn [length seq replicate map map2]. rewrite map_app, lsum_app, map_repeat', lsum_repeat, IH. cbn [lsum]. reflexivity.
Qed.

(** a sum over the replicated rows = the frequency-weighted sum over the original rows *)
Lemma bigsum_rep_index (g : nat -> R) k :
  bigsum (fun i => g (nth i (rep_index k) 0%nat)) (length (rep_index k))
  = bigsum (fun i => INR (nth i k 0%nat) * g i) (length k).
Proof.
  rewrite bigsum_lsum, (map_nth_seq g (rep_index k) 0%nat). unfold rep_index.
  rewrite lsum_map_replicate.
  rewrite (lsum_map2_bigsum Rmult _ _ (length k)) by (rewrite ?map_length, ?seq_length; reflexivity).
  apply bigsum_ext. intros i Hi.
  rewrite nth_map_seq by exact Hi. f_equal.
  change 0 with (INR 0). apply map_nth.
Qed.

Section Rep.
  Variables (x y mu dmu var : list R) (k : list nat) (n p : nat).
  Hypothesis Hn : (0 < n)%nat.
  Hypothesis Hp : (0 < p)%nat.
  Hypothesis HN : (0 < list_sum k)%nat.
  Hypothesis Hx : length x = (n * p)%nat.
  Hypothesis Hy : length y = n.
  Hypothesis Hm : length mu = n.
  Hypothesis Hd : length dmu = n.
  Hypothesis Hv : length var = n.
  Hypothesis Hk : length k = n.

  Let s := rep_index k.
  Let N := list_sum k.

  Lemma s_length : length s = N. Proof. apply rep_index_length. Qed.

  Lemma nth_INR i : nth i (map INR k) 0 = INR (nth i k 0%nat).
  Proof. change 0 with (INR 0). apply map_nth. Qed.

  (** gradient of the replicated data with unit weights = gradient of the weighted data *)
  Lemma rep_dbeta :
    compute_dbeta RO (replicate_rows x p k) (replicate k y) (replicate k mu) (replicate k dmu) (replicate k var)
                  (repeat 1 N)
    = compute_dbeta RO x y mu dmu var (map INR k).
  Proof.
    pose proof s_length as L.
    rewrite <- !permute_replicate by lia. fold s. unfold replicate_rows. fold s.
    destruct (compute_dbeta_spec x y mu dmu var (map INR k) n p Hn Hx Hy Hm Hd Hv) as (db & E & Ldb & Ent);
      [rewrite map_length; exact Hk|].
    destruct (compute_dbeta_spec (permute_rows x p s) (permute y s) (permute mu s) (permute dmu s)
                (permute var s) (repeat 1 N) N p HN) as (db' & E' & Ldb' & Ent');
      rewrite ?permute_rows_length, ?permute_length, ?repeat_length, ?L; auto.
    rewrite E, E'. f_equal. apply nth_ext with (d := 0) (d' := 0); [lia|].
    intros j Hj. rewrite Ldb' in Hj. rewrite Ent, Ent' by exact Hj. f_equal.
    pose (G := fun i' => X x p i' j * ((nth i' y 0 - nth i' mu 0) * (nth i' dmu 0 / nth i' var 0))).
    transitivity (bigsum (fun i => G (nth i s 0%nat)) (length s)).
    - rewrite L. apply bigsum_ext. intros i Hi. unfold G.
      rewrite permute_rows_X, !permute_nth by lia. rewrite nth_repeat_lt by exact Hi. ring.
    - unfold s. rewrite (bigsum_rep_index G k), Hk. apply bigsum_ext. intros i Hi. unfold G. rewrite nth_INR. ring.
  Qed.

  (** information matrix likewise *)
  Lemma rep_ddbeta :
    compute_ddbeta RO (replicate_rows x p k) (replicate k dmu) (replicate k var) (repeat 1 N)
    = compute_ddbeta RO x dmu var (map INR k).
  Proof.
    pose proof s_length as L.
    rewrite <- !permute_replicate by lia. fold s. unfold replicate_rows. fold s.
    destruct (compute_ddbeta_spec x dmu var (map INR k) n p Hn Hp Hx Hd Hv) as (dd & E & Ldd & Ent);
      [rewrite map_length; exact Hk|].
    destruct (compute_ddbeta_spec (permute_rows x p s) (permute dmu s) (permute var s) (repeat 1 N) N p HN Hp)
      as (dd' & E' & Ldd' & Ent');
      rewrite ?permute_rows_length, ?permute_length, ?repeat_length, ?L; auto.
    rewrite E, E'. f_equal. apply nth_ext with (d := 0) (d' := 0); [lia|].
    intros m Hmm. rewrite Ldd' in Hmm.
    assert (Ej : (m = (m / p) * p + m mod p)%nat) by (rewrite (Nat.div_mod m p) at 1 by lia; ring).
    assert (Hj : (m / p < p)%nat) by (apply Nat.div_lt_upper_bound; lia).
    assert (Hkk : (m mod p < p)%nat) by (apply Nat.mod_upper_bound; lia).
    rewrite Ej, Ent, Ent' by assumption.
    pose (G := fun i' => X x p i' (m / p) * (X x p i' (m mod p) * ((nth i' dmu 0 * nth i' dmu 0) / nth i' var 0))).
    transitivity (bigsum (fun i => G (nth i s 0%nat)) (length s)).
    - rewrite L. apply bigsum_ext. intros i Hi. unfold G.
      rewrite !permute_rows_X, !permute_nth by lia. rewrite nth_repeat_lt by exact Hi. unfold Rdiv. ring.
    - unfold s. rewrite (bigsum_rep_index G k), Hk. apply bigsum_ext. intros i Hi. unfold G. rewrite nth_INR. unfold Rdiv. ring.
  Qed.
End Rep.

(** the pinned form *)
Lemma frequency_weights_gradient_information (x y mu dmu var : list R) (k : list nat) (n p : nat) :
  (0 < n)%nat -> (0 < p)%nat -> (0 < list_sum k)%nat -> length x = (n * p)%nat ->
  length y = n -> length mu = n -> length dmu = n -> length var = n -> length k = n ->
  compute_dbeta RO (replicate_rows x p k) (replicate k y) (replicate k mu) (replicate k dmu) (replicate k var)
                (repeat 1 (list_sum k))
  = compute_dbeta RO x y mu dmu var (map INR k) /\
  compute_ddbeta RO (replicate_rows x p k) (replicate k dmu) (replicate k var) (repeat 1 (list_sum k))
  = compute_ddbeta RO x dmu var (map INR k) /\
  length (replicate_rows x p k) = (list_sum k * p)%nat /\
  (forall i j, (i < list_sum k)%nat -> (j < p)%nat ->
     X (replicate_rows x p k) p i j = X x p (nth i (rep_index k) 0%nat) j).
Proof.
  intros Hn Hp HN Hx Hy Hm Hd Hv Hk. split; [|split; [|split]].
  - exact (rep_dbeta x y mu dmu var k n p Hn Hp HN Hx Hy Hm Hd Hv Hk).
  - exact (rep_ddbeta x y mu dmu var k n p Hn Hp HN Hx Hy Hm Hd Hv Hk).
  - unfold replicate_rows. rewrite permute_rows_length, rep_index_length. reflexivity.
  - intros i j Hi Hj. unfold replicate_rows. apply permute_rows_X; [rewrite rep_index_length; exact Hi|exact Hj].
Qed.

Example replicate_rows_ex : replicate_rows [1; 5; 1; 6; 1; 7] 2 [1; 0; 2]%nat = [1; 5; 1; 7; 1; 7].
Proof. reflexivity. Qed.
