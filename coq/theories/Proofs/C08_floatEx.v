(** C08 on binary64: satisfiability of the hypotheses of the error bounds on a non-trivial instance. *)
From Coq Require Import List Arith Bool ZArith Reals Lra Lia Floats.
From Flocq Require Import Core BinarySingleNaN PrimFloat.
From Compute Require Import Base.Ops Base.ListMat Model.Reduce Model.Stats Spec.Vops
  Proofs.C04Red Proofs.C04Err Proofs.C04ErrF Proofs.C04ErrDot Proofs.C04ErrNP Proofs.C04ErrEx Proofs.C08_float.
Import ListNotations.
Local Open Scope R_scope.

Lemma welford_mean_example :
  let data := [1; 2; 0x1.999999999999ap-4; -3; 0x1p+40; 5]%float in
  data <> [] /\ (Z.of_nat (length data) < 2 ^ 53)%Z /\
  finite (welford_mean FO0 data) /\ finite (mean FO0 data) /\ finite (var FO0 data) /\
  welford_no_underflow empty_tbl (0%nat, 0%float, 0%float) data /\
  (B2Rf (Reduce.sum FO0 data) / INR (length data) = 0
   \/ / 2 ^ 1022 <= Rabs (B2Rf (Reduce.sum FO0 data) / INR (length data))) /\
  Forall (fun a => Rabs (B2Rf a) <= 2 ^ 40) data.
Proof.
  cbv zeta. split; [discriminate|]. split; [reflexivity|].
  split; [vm_compute; reflexivity|]. split; [vm_compute; reflexivity|]. split; [vm_compute; reflexivity|].
  split; [|split].
  - unfold welford_no_underflow. cbn [quot_ok welford_update wcount wmean fst snd].
    cbn [INR]. fold FO0.
    repeat (split; [first [left; reflexivity | right; nu_tac]|]). exact I.
  - cbn [length INR]. nu_tac.
  - repeat (constructor; [b2rf_compute; apply Rabs_le; lra|]). constructor.
Qed.
