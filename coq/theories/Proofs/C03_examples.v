(** Satisfiability of the hypotheses used in Properties/C03.v, on a concrete random source (every [f64()] is 1/2, every
    [u64()] is 0, every range draw is the lower bound), and a non-vacuity run: on that source the Gamma sampler returns. *)
From Coq Require Import Reals List ZArith NArith QArith Qreals Lra Lia Bool Floats.
From Compute Require Import Base.Ops Base.ListMat Base.Rng Model.MatMul Model.Samplers Spec.Samplers Proofs.C03 Proofs.C03_discrete.
From Compute Require Import Generated.ziggurat_tables Proofs.C03_zig.
Import ListNotations.
Open Scope R_scope.

Definition const_source (u : R) : source nat R :=
  {| next_u64 := fun s => (0%N, Datatypes.S s);
     next_f64 := fun s => (u, Datatypes.S s);
     next_range := fun lo hi s => if (hi <? lo)%Z then Fail else Ok (lo, Datatypes.S s) |}.

Example unit_source_inhabited : unit_source (const_source (1 / 2)).
Proof. intros s. cbn. lra. Qed.
Example range_source_inhabited : range_source (const_source (1 / 2)).
Proof. intros lo hi s k s' H. cbn in H. destruct (Z.ltb_spec hi lo); [discriminate|]. inversion H; subst. lia. Qed.

(** hypotheses of the inverse-CDF theorems: valid parameters and a variate strictly inside (0,1) *)
Example inverse_cdf_hypotheses_satisfiable :
  0 < 2 /\ 0 < fst (next_f64 (const_source (1 / 2)) 0%nat) < 1 /\ (-1 < 3) /\
  exponential_sample RO (const_source (1 / 2)) 1 2 0%nat = Ok (- ln (1 / 2) / 2, 1%nat).
Proof.
  cbn [fst next_f64 const_source]. repeat split; try lra.
  rewrite exponential_sample_R by (cbn; lra). reflexivity.
Qed.
Example bernoulli_hypotheses_satisfiable :
  0 < 3 / 10 < 1 /\ fst (bernoulli_sample RO (const_source (1 / 2)) (3 / 10) 0%nat) = 0 /\
  fst (bernoulli_sample RO (const_source (1 / 2)) (7 / 10) 0%nat) = 1.
Proof.
  split; [lra|]. split.
  - destruct (bernoulli_iff (const_source (1 / 2)) (3 / 10) 0%nat ltac:(lra)) as [_ H0]. apply H0. cbn [fst next_f64 const_source]. lra.
  - destruct (bernoulli_iff (const_source (1 / 2)) (7 / 10) 0%nat ltac:(lra)) as [H1 _]. apply H1. cbn [fst next_f64 const_source]. lra.
Qed.
Example discrete_uniform_hypotheses_satisfiable :
  discrete_uniform_sample RO (const_source (1 / 2)) (-2) 6 0%nat = Ok (-2, 1%nat).
Proof. rewrite discrete_uniform_spec. reflexivity. Qed.
Example binomial_regime_hypothesis_satisfiable :
  (15 < 18446744073709551616)%N /\ (if Rlt_dec (1 / 2) (3 / 10) then 1 - 3 / 10 else 3 / 10) * IZR (Z.of_N 15) <= 30.
Proof. split; [reflexivity|]. change (Z.of_N 15) with 15%Z. destruct (Rlt_dec (1 / 2) (3 / 10)); lra. Qed.
Example ptrs_hypotheses_satisfiable : 10 <= 42 /\ Rabs (1 / 4) <= 1 / 2 /\ 7 / 100 <= 1 / 2 - Rabs (1 / 4).
Proof. rewrite Rabs_right by lra. lra. Qed.

(** non-vacuity of the Gamma theorems: on the constant source the ziggurat takes the wedge of layer 0 with x = 0 and accepts,
    Marsaglia-Tsang's squeeze accepts, and Gamma(2, 1) returns d = 2 - 1/3 *)
Lemma normal_on_const_source fuel mu sigma s :
  normal_sample RO (const_source (1 / 2)) (Datatypes.S fuel) mu sigma s = Ok (mu, Datatypes.S (Datatypes.S s)).
Proof.
  pose proof ziggurat_tables_consistent as (_ & HY0 & _ & HK & _ & _ & HZ6 & _).
  destruct HK as [HK0 _]. destruct HZ6 as [HXY _].
  assert (EK : zK 0 = 0%N). { unfold kz in HK0. unfold zK. destruct (nth 0 zig_K 0%N); [reflexivity|discriminate HK0]. }
  assert (Hy : Rltb (add RO (zY RO 1) (mul RO (sub RO (zY RO 0) (zY RO 1)) (1 / 2))) 1 = true).
  { apply Rltb_true. unfold zY. cbn [ofLit RO add sub mul]. fold (yq 0) (yq 1).
    destruct (HXY 0%nat ltac:(lia)) as [_ H10]. apply Qlt_Rlt in H10. apply Qeq_eqR in HY0. rewrite HY0 in *.
    replace (Q2R 1) with 1 in * by (unfold Q2R; cbn; lra). lra. }
  cbn [normal_sample next_u64 next_f64 const_source].
  change (N.land 0 127) with 0%N. change (N.shiftr 0 8) with 0%N. change (N.land 0 16777215) with 0%N.
  change (N.to_nat 0) with 0%nat. change (N.testbit 0 7) with false. rewrite EK.
  change (0 <? 0)%N with false. cbn iota. change (0 <? 127)%nat with true. cbn iota.
  change (ofZ RO (Z.of_N 0)) with 0. cbn [mul RO]. rewrite !Rmult_0_l.
  replace (f1 RO Exp (neg RO (ofQ RO (1 # 2)) * 0 * 0)) with 1 by (cbn [f1 RO Rf1]; rewrite !Rmult_0_r, exp_0; reflexivity).
  cbn [ltb RO]. cbn [mul RO] in Hy. rewrite Hy. f_equal. f_equal. cbn [neg one mul add RO]. ring.
Qed.

Example gamma_returns_on_const_source :
  gamma_sample RO (const_source (1 / 2)) 1 2 1 0%nat = Ok (2 - 1 / 3, 3%nat).
Proof.
  unfold gamma_sample. cbn [ltb RO one]. unfold Rltb. destruct (Rlt_dec 2 1); [lra|].
  cbn [gamma_loop gamma_xv]. rewrite normal_on_const_source. cbn [res_bind].
  cbn [zero one RO add div]. unfold Rdiv at 1. rewrite Rmult_0_l, Rplus_0_r.
  replace (powi RO 1 3) with 1 by (cbn; ring).
  cbn [ltb RO]. unfold Rltb. destruct (Rlt_dec 0 1); [|lra]. cbn [res_bind].
  rewrite uniform_sample_R. cbn [fst snd next_f64 const_source].
  replace (powi RO 0 4) with 0 by (cbn; ring).
  cbn [sub mul ofQ RO]. rewrite Rmult_0_r.
  destruct (Rlt_dec ((1 - 0) * (1 / 2) + 0) (1 - 0)); [|lra].
  f_equal. f_equal. cbn [ofZ RO sqrt]. set (q := R_sqrt.sqrt _).
  replace (0 / q) with 0 by (unfold Rdiv; ring). cbn [powi powi_pos mul one RO]. field.
Qed.
