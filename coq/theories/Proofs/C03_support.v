(** Proofs for C03, part 8: SUPPORT of the BTPE binomial sampler and of [Binomial::sample] in every regime.
    Every value [binomial_btpe] returns is an integer count of [0, n], for every parameter that reaches BTPE
    (n min(p, 1-p) > 30), every fuel and every random source delivering variates of [0, 1): the four ways the loop
    produces a candidate [y] (triangle: no test; parallelogram: no test; left tail: only [y < 0] tested; right tail:
    only [y > n] tested) are each bounded on the OTHER side by the constants of step 0, and step 5 never changes [y].
    Real carrier. *)
From Coq Require Import Reals List ZArith NArith QArith Lra Lia Bool Psatz.
From Compute Require Import Base.Ops Base.ListMat Base.Rng Model.MatMul Model.Samplers Spec.Samplers Proofs.C03 Proofs.C03_discrete.
Import ListNotations.
Open Scope R_scope.

(** step 5 accepts or rejects the candidate it is given; it never alters it (every carrier) *)
Lemma btpe_step5_accept {T : Type} (O : Ops T) fuel n p k y v y' :
  btpe_step5 O fuel n p k y v = BAccept y' -> y' = y.
Proof.
  intros H. unfold btpe_step5 in H. cbv zeta in H.
  repeat match type of H with
         | context [if ?c then _ else _] => destruct c
         | context [match ?x with Some _ => _ | None => _ end] => destruct x
         end; try discriminate; inversion H; reflexivity.
Qed.

(** ** floor facts *)
Lemma Int_part_IZR z : Int_part (IZR z) = z.
Proof.
  unfold Int_part. assert (H : (z + 1)%Z = up (IZR z)).
  { apply tech_up; rewrite plus_IZR; lra. }
  rewrite <- H. lia.
Qed.
Lemma floor_range x (n : Z) : 0 <= x -> x < IZR n + 1 -> (0 <= Int_part x <= n)%Z.
Proof.
  intros H0 H1. destruct (base_Int_part x) as [Ha Hb]. split.
  - assert (H : -1 < IZR (Int_part x)) by lra. apply lt_IZR in H. lia.
  - assert (H : IZR (Int_part x) < IZR (n + 1)) by (rewrite plus_IZR; lra). apply lt_IZR in H. lia.
Qed.
Lemma floor_le_of_le x (n : Z) : x < IZR n + 1 -> (Int_part x <= n)%Z.
Proof.
  intros H1. destruct (base_Int_part x) as [Ha Hb].
  assert (H : IZR (Int_part x) < IZR (n + 1)) by (rewrite plus_IZR; lra). apply lt_IZR in H. lia.
Qed.
Lemma floor_ge_of_ge x : 0 <= x -> (0 <= Int_part x)%Z.
Proof.
  intros H0. destruct (base_Int_part x) as [Ha Hb].
  assert (H : -1 < IZR (Int_part x)) by lra. apply lt_IZR in H. lia.
Qed.
Lemma ln_unit_nonpos v : 0 <= v < 1 -> ln v <= 0.
Proof.
  intros [H0 H1]. destruct (Rle_lt_dec v 0) as [Hz|Hp].
  - unfold ln. destruct (Rlt_dec 0 v); [exfalso; lra|lra].
  - rewrite <- ln_1. left. apply ln_increasing; lra.
Qed.

(** ** what the loop needs from the constants of step 0 *)
Record btpe_consts_ok (n : N) (k : btpe_consts (T:=R)) : Prop := {
  ok_nf : c_nf k = IZR (Z.of_N n);
  ok_p1 : 0 < c_p1 k;
  ok_c : 0 < c_c k;
  ok_ll : 0 < c_ll k;
  ok_lr : 0 < c_lr k;
  ok_xl : 0 <= c_xl k;
  ok_xr : c_xr k < IZR (Z.of_N n) + 1;
  ok_xm_l : c_xl k = c_xm k - c_p1 k;
  ok_xm_r : c_xr k = c_xm k + c_p1 k;
  ok_p2 : c_p2 k = c_p1 k * (1 + 2 * c_c k);
  ok_p4 : 0 <= c_p4 k }.

Section AnySource.
  Context {S : Type} (src : source S R).
  Local Notation U s := (fst (next_f64 src s)).

  Lemma btpe_loop_support (n : N) p k :
    btpe_consts_ok n k -> unit_source src ->
    forall fuel ifuel s y s',
      btpe_loop RO src fuel ifuel n p k s = Ok (y, s') -> exists z : Z, y = IZR z /\ (0 <= z <= Z.of_N n)%Z.
  Proof.
    intros Hk Hu fuel ifuel. destruct Hk.
    induction fuel as [|fuel IH]; intros s y s' H; [discriminate|]. cbn [btpe_loop] in H.
    change (zero RO) with 0 in H. change (one RO) with 1 in H.
    rewrite uniform_sample_R in H. rewrite unit_sample_R in H.
    pose proof (Hu s) as Hu0. set (u0 := U s) in *. set (s1 := snd (next_f64 src s)) in *.
    pose proof (Hu s1) as Hv. set (v := U s1) in *. set (s2 := snd (next_f64 src s1)) in *.
    set (u := (c_p4 k - 0) * u0 + 0) in *.
    assert (Hu_nonneg : 0 <= u) by (unfold u; nra).
    unfold not_gt in H. cbn [ltb RO] in H.
    destruct (Rltb (c_p1 k) u) eqn:E1; cbn [negb] in H.
    2:{ (* step 1: the triangle, no test at all *)
      apply Rltb_false in E1. inversion H; subst y s'. clear H.
      cbn [f1 RO Rf1 sub add mul]. eexists; split; [reflexivity|].
      apply floor_range; nra. }
    apply Rltb_true in E1.
    match type of H with match ?st with _ => _ end = _ => destruct st as [ya| |] eqn:Est end; try discriminate.
    2:{ eapply IH; eassumption. }
    inversion H; subst ya s'. clear H.
    destruct (Rltb (c_p2 k) u) eqn:E2; cbn [negb] in Est.
    2:{ (* step 2: the parallelograms; only v > 1 is tested *)
      apply Rltb_false in E2.
      match type of Est with (if ?c then _ else _) = _ => destruct c end; [discriminate|].
      apply btpe_step5_accept in Est. subst y. cbn [f1 RO Rf1 sub add mul div]. eexists; split; [reflexivity|].
      assert (Hd : 0 <= (u - c_p1 k) / c_c k <= 2 * c_p1 k).
      { split; [apply Rle_mult_inv_pos; lra|]. apply Rmult_le_reg_r with (c_c k); [lra|]. unfold Rdiv. rewrite Rmult_assoc, Rinv_l by lra. nra. }
      apply floor_range; lra. }
    apply Rltb_true in E2.
    destruct (Rltb (c_p3 k) u) eqn:E3; cbn [negb] in Est.
    - (* step 4: right exponential tail; only y > n is tested *)
      match type of Est with (if ?c then _ else _) = _ => destruct c eqn:Eg end; [discriminate|].
      apply btpe_step5_accept in Est. subst y. cbn [f1 RO Rf1 sub add mul div] in *.
      eexists; split; [reflexivity|]. apply Rltb_false in Eg. rewrite ok_nf0 in Eg. split.
      + apply floor_ge_of_ge. pose proof (ln_unit_nonpos v Hv) as Hl.
        assert (0 <= - ln v / c_lr k) by (apply Rle_mult_inv_pos; lra).
        unfold Rdiv in *. nra.
      + apply le_IZR. lra.
    - (* step 3: left exponential tail; only y < 0 is tested *)
      match type of Est with (if ?c then _ else _) = _ => destruct c eqn:Eg end; [discriminate|].
      apply btpe_step5_accept in Est. subst y. cbn [f1 RO Rf1 sub add mul div zero] in *.
      eexists; split; [reflexivity|]. apply Rltb_false in Eg. split.
      + apply le_IZR. lra.
      + apply floor_le_of_le. pose proof (ln_unit_nonpos v Hv) as Hl.
        assert (0 <= - ln v / c_ll k) by (apply Rle_mult_inv_pos; lra).
        unfold Rdiv in *. nra.
  Qed.
End AnySource.

(** ** step 0: in the regime that reaches BTPE (n r > 30 with r = min(p, 1-p) in (0, 1/2]) the constants are as needed *)
Lemma lambda_pos t : 0 < t -> 0 < t * (1 + t / 2).
Proof. intros H. apply Rmult_lt_0_compat; lra. Qed.

Lemma btpe_setup_ok (n : N) (p : R) :
  0 < p < 1 -> 30 < IZR (Z.of_N n) * Rmin p (1 - p) -> btpe_consts_ok n (btpe_setup RO n p).
Proof.
  intros Hp Hreg.
  set (nf := IZR (Z.of_N n)) in *.
  set (r := if leb RO p (ofQ RO (1 # 2)) then p else sub RO (one RO) p).
  assert (Hr : r = Rmin p (1 - p) /\ 0 < r <= 1 / 2).
  { unfold r. cbn [leb RO ofQ sub one]. replace (Q2R (1 # 2)) with (1 / 2) by (unfold Q2R; cbn; lra).
    unfold Rleb, Rmin. destruct (Rle_dec p (1 / 2)); destruct (Rle_dec p (1 - p)); lra. }
  destruct Hr as [Hr [Hr0 Hr1]]. rewrite <- Hr in Hreg. clear Hr.
  set (q := 1 - r). set (nrq := nf * r * q). set (fm := nf * r + r).
  set (m := IZR (Int_part fm)).
  set (sq := R_sqrt.sqrt nrq).
  set (X := 2195 / 1000 * sq - 46 / 10 * q).
  set (F := IZR (Int_part X)).
  assert (Hq : 1 / 2 <= q < 1) by (unfold q; lra).
  assert (Hnf : 60 < nf) by nra.
  assert (Hnrq : 15 < nrq) by (unfold nrq; nra).
  assert (Hsq2 : sq * sq = nrq) by (unfold sq; apply sqrt_sqrt; lra).
  assert (Hsq0 : 0 <= sq) by (unfold sq; apply sqrt_pos).
  assert (Hsq : 38 / 10 < sq) by nra.
  assert (Hm : fm - 1 < m <= fm) by (unfold m; destruct (base_Int_part fm); lra).
  assert (HF : X - 1 < F <= X) by (unfold F; destruct (base_Int_part X); lra).
  assert (HF2 : 2 < F) by (unfold X in HF; lra).
  assert (HA : sq * sq <= nf * r) by (rewrite Hsq2; unfold nrq; nra).
  assert (HB : 2 * (sq * sq) <= nf * q).
  { rewrite Hsq2. unfold nrq. assert (0 <= nf * q * (1 - 2 * r)) by (apply Rmult_le_pos; [apply Rmult_le_pos|]; lra). lra. }
  assert (Hxl : 0 <= m - F).
  { unfold X, fm in *. nra. }
  assert (Hxr : m + 1 + F < nf + 1).
  { unfold X, fm in *. assert (nf = nf * r + nf * q) by (unfold q; ring). nra. }
  assert (Hfm : 0 < fm) by (unfold fm; nra).
  assert (Hm0 : 0 <= m) by lra.
  (* the record *)
  unfold btpe_setup. fold r.
  cbn [add sub mul div neg ofZ ofQ two one zero f1 sqrt RO Rf1].
  rewrite !Q2R_dec.
  replace (IZR 2195 / IZR 1000) with (2195 / 1000) by reflexivity.
  replace (IZR 46 / IZR 10) with (46 / 10) by reflexivity.
  replace (IZR 1 / IZR 2) with (1 / 2) by reflexivity.
  replace (IZR 134 / IZR 1000) with (134 / 1000) by reflexivity.
  replace (IZR 205 / IZR 10) with (205 / 10) by reflexivity.
  replace (IZR 153 / IZR 10) with (153 / 10) by reflexivity.
  fold nf. fold q. fold nrq. fold fm. fold m. fold sq. fold X. fold F.
  set (p1 := F + 1 / 2). set (xm := m + 1 / 2). set (xl := xm - p1). set (xr := xm + p1).
  set (c := 134 / 1000 + 205 / 10 / (153 / 10 + m)).
  assert (Hc : 0 < c).
  { unfold c. assert (0 < 205 / 10 / (153 / 10 + m)) by (apply Rdiv_lt_0_compat; lra). lra. }
  assert (Htl : 0 < (fm - xl) / (fm - xl * r)).
  { apply Rdiv_lt_0_compat; unfold xl, xm, p1; nra. }
  assert (Htr : 0 < (xr - fm) / (xr * q)).
  { apply Rdiv_lt_0_compat; [unfold xr, xm, p1; lra|]. apply Rmult_lt_0_compat; [unfold xr, xm, p1; lra|lra]. }
  pose proof (lambda_pos _ Htl) as Hll. pose proof (lambda_pos _ Htr) as Hlr.
  replace (1 + 1) with 2 in * by ring.
  constructor; cbn [c_nf c_p1 c_c c_ll c_lr c_xl c_xr c_xm c_p2 c_p4].
  - reflexivity.
  - unfold p1; lra.
  - exact Hc.
  - exact Hll.
  - exact Hlr.
  - unfold xl, xm, p1; lra.
  - fold nf. unfold xr, xm, p1; lra.
  - reflexivity.
  - reflexivity.
  - reflexivity.
  - assert (0 < c / ((fm - xl) / (fm - xl * r) * (1 + (fm - xl) / (fm - xl * r) / 2))) by (apply Rdiv_lt_0_compat; assumption).
    assert (0 < c / ((xr - fm) / (xr * q) * (1 + (xr - fm) / (xr * q) / 2))) by (apply Rdiv_lt_0_compat; assumption).
    assert (0 < p1) by (unfold p1; lra). nra.
Qed.

Section AnySource2.
  Context {S : Type} (src : source S R).

  (** the loop with the constants of step 0: an integer of [0, n] *)
  Lemma btpe_draw_support fuel ifuel (n : N) p s y s' :
    0 < p < 1 -> 30 < IZR (Z.of_N n) * Rmin p (1 - p) -> unit_source src ->
    btpe_loop RO src fuel ifuel n p (btpe_setup RO n p) s = Ok (y, s') ->
    exists z : Z, y = IZR z /\ (0 <= z <= Z.of_N n)%Z.
  Proof. intros Hp Hr Hu H. eapply btpe_loop_support; [|exact Hu|exact H]; apply btpe_setup_ok; assumption. Qed.

  Lemma RtruncZ_IZR z : RtruncZ (IZR z) = z.
  Proof.
    unfold RtruncZ. destruct (Rle_dec 0 (IZR z)); [apply Int_part_IZR|].
    rewrite <- opp_IZR, Int_part_IZR. lia.
  Qed.

  (** [binomial_btpe] (step 6 and the cast included): the count is at most n, and the cast [y as u64] is exact — it is
      applied to the integer y (p <= 1/2) or n - y (p > 1/2) of [0, n], never to a negative or fractional value *)
  Lemma binomial_btpe_support fuel (n : N) p s x s' :
    0 < p < 1 -> 30 < IZR (Z.of_N n) * Rmin p (1 - p) -> unit_source src ->
    binomial_btpe RO src fuel n p s = Ok (x, s') ->
    (x <= n)%N /\
    exists y, btpe_loop RO src fuel fuel n p (btpe_setup RO n p) s = Ok (y, s') /\
              IZR (Z.of_N x) = if Rlt_dec (1 / 2) p then IZR (Z.of_N n) - y else y.
  Proof.
    intros Hp Hr Hu H. unfold binomial_btpe in H.
    destruct (ltb RO (c_p4 (btpe_setup RO n p)) (zero RO)); [discriminate|].
    destruct (btpe_loop RO src fuel fuel n p (btpe_setup RO n p) s) as [[y s1]| |] eqn:E; cbn [res_bind] in H; try discriminate.
    pose proof (btpe_draw_support _ _ _ _ _ _ _ Hp Hr Hu E) as [z [Hy Hz]].
    assert (Hnf : c_nf (btpe_setup RO n p) = IZR (Z.of_N n)) by reflexivity.
    rewrite Hnf in H. cbn [ltb RO ofQ sub truncZ] in H.
    replace (Q2R (1 # 2)) with (1 / 2) in H by (unfold Q2R; cbn; lra).
    unfold Rltb in H. subst y. destruct (Rlt_dec (1 / 2) p).
    - rewrite <- minus_IZR, RtruncZ_IZR in H. inversion H; subst x s1. split; [lia|].
      eexists; split; [reflexivity|]. rewrite Z2N.id by lia. apply minus_IZR.
    - rewrite RtruncZ_IZR in H. inversion H; subst x s1. split; [lia|].
      eexists; split; [reflexivity|]. rewrite Z2N.id by lia. reflexivity.
  Qed.

  (** [Binomial::sample], EVERY parameter (degenerate, inversion and BTPE regimes; the reflection n - x for p > 1/2
      included): an integer of [0, n].  No hypothesis on p: the model's own tests select the regime. *)
  Lemma binomial_sample_support_all fuel n p s y s' :
    (n < 18446744073709551616)%N -> unit_source src ->
    binomial_sample RO src fuel n p s = Ok (y, s') -> exists k : Z, y = IZR k /\ (0 <= k <= Z.of_N n)%Z.
  Proof.
    intros Hn Hu H.
    destruct (Rle_dec ((if Rlt_dec (1 / 2) p then 1 - p else p) * IZR (Z.of_N n)) 30) as [Hinv|Hbt].
    { eapply binomial_sample_support; [exact Hn| |exact H]. right; right; right. exact Hinv. }
    unfold binomial_sample in H.
    destruct (N.eqb_spec n 0) as [->|Hn0]; cbn [orb] in H.
    { inversion H; subst. exists 0%Z. split; [reflexivity|lia]. }
    cbn [eqb RO zero] in H. unfold Reqb in H. destruct (Req_EM_T p 0) as [->|Hp0].
    { inversion H; subst. exists 0%Z. split; [reflexivity|lia]. }
    cbn [leb abs sub RO one] in H. unfold epsilon in H. cbn [ofQ RO] in H. unfold Rleb in H.
    destruct (Rle_dec (Rabs (p - 1)) (Q2R (1 # 4503599627370496))) as [He|Hne].
    { inversion H; subst. exists (Z.of_N n). split; [reflexivity|lia]. }
    cbn [ltb mul ofZ ofQ RO] in H. unfold Rltb in H.
    replace (Q2R (1 # 2)) with (1 / 2) in H by (unfold Q2R; cbn; lra).
    assert (Hnn : 0 <= IZR (Z.of_N n)) by (apply IZR_le; lia).
    destruct (Rlt_dec (1 / 2) p) as [Hs|Hs]; cbn [leb RO] in H; unfold Rleb in H.
    - destruct (Rle_dec ((1 - p) * IZR (Z.of_N n)) 30) as [Hc|_]; [contradiction|].
      assert (Hp1 : 0 < 1 - p) by nra.
      destruct (binomial_btpe RO src fuel n (1 - p) s) as [[x s1]| |] eqn:E; cbn [res_bind] in H; try discriminate.
      inversion H; subst. apply binomial_btpe_support in E; [|lra| |exact Hu].
      + destruct E as [E _]. rewrite u64_sub_le by assumption. exists (Z.of_N (n - x)). split; [reflexivity|lia].
      + unfold Rmin. destruct (Rle_dec (1 - p) (1 - (1 - p))); lra.
    - destruct (Rle_dec (p * IZR (Z.of_N n)) 30) as [Hc|_]; [contradiction|].
      assert (Hp1 : 0 < p) by nra.
      destruct (binomial_btpe RO src fuel n p s) as [[x s1]| |] eqn:E; cbn [res_bind] in H; try discriminate.
      inversion H; subst. apply binomial_btpe_support in E; [|lra| |exact Hu].
      + destruct E as [E _]. exists (Z.of_N x). split; [reflexivity|lia].
      + unfold Rmin. destruct (Rle_dec p (1 - p)); lra.
  Qed.
End AnySource2.

(** ** non-vacuity: the regime hypotheses are satisfiable and on a concrete unit source BTPE returns a count *)
From Compute Require Import Proofs.C03_examples.
Example unit_source_zero : unit_source (const_source 0).
Proof. intros s. cbn. lra. Qed.
Example btpe_regime_satisfiable : 0 < 2 / 5 < 1 /\ 30 < IZR (Z.of_N 100) * Rmin (2 / 5) (1 - 2 / 5).
Proof. split; [lra|]. unfold Rmin. destruct (Rle_dec (2 / 5) (1 - 2 / 5)); cbn; lra. Qed.
Example btpe_returns_on_const_source :
  exists x : N, binomial_btpe RO (const_source 0) 1 100 (2 / 5) 0%nat = Ok (x, 2%nat) /\ (x <= 100)%N.
Proof.
  destruct btpe_regime_satisfiable as [Hp Hr].
  pose proof (btpe_setup_ok 100 (2 / 5) Hp Hr) as Hk.
  assert (E : exists x, binomial_btpe RO (const_source 0) 1 100 (2 / 5) 0%nat = Ok (x, 2%nat)).
  { unfold binomial_btpe. remember (btpe_setup RO 100 (2 / 5)) as k eqn:Ek. destruct Hk.
    cbn [ltb RO zero]. destruct (Rltb (c_p4 k) 0) eqn:E4; [apply Rltb_true in E4; lra|].
    cbn [btpe_loop]. change (zero RO) with 0. change (one RO) with 1. rewrite uniform_sample_R, unit_sample_R.
    cbn [next_f64 const_source fst snd]. unfold not_gt. cbn [ltb RO].
    replace ((c_p4 k - 0) * 0 + 0) with 0 by ring.
    destruct (Rltb (c_p1 k) 0) eqn:E1; [apply Rltb_true in E1; lra|]. cbn [negb res_bind]. eexists. reflexivity. }
  destruct E as [x E]. exists x. split; [exact E|].
  eapply binomial_btpe_support in E; [apply E|assumption|assumption|apply unit_source_zero].
Qed.

(** ** anatomy of an accepted BTPE candidate on EVERY carrier (binary64 included): it was produced by exactly one of the
    four regions from the two variates of the accepting iteration, and the tails are let out only past their test *)
Section Paths.
  Context {T : Type} (O : Ops T) {S : Type} (src : source S T).
  Local Notation flr x := (f1 O Floor x).

  Definition btpe_region (k : btpe_consts) (u v y : T) : Prop :=
    (not_gt O u (c_p1 k) = true /\ y = flr (add O (sub O (c_xm k) (mul O (c_p1 k) v)) u))
    \/ (not_gt O u (c_p1 k) = false /\ not_gt O u (c_p2 k) = true /\
        y = flr (add O (c_xl k) (div O (sub O u (c_p1 k)) (c_c k))) /\
        ltb O (one O) (sub O (add O (mul O v (c_c k)) (one O))
                         (div O (abs O (add O (sub O (c_m k) (add O (c_xl k) (div O (sub O u (c_p1 k)) (c_c k)))) (ofQ O (1 # 2)))) (c_p1 k))) = false)
    \/ (not_gt O u (c_p1 k) = false /\ not_gt O u (c_p2 k) = false /\ not_gt O u (c_p3 k) = true /\
        y = flr (add O (c_xl k) (div O (f1 O Ln v) (c_ll k))) /\ ltb O y (zero O) = false)
    \/ (not_gt O u (c_p1 k) = false /\ not_gt O u (c_p2 k) = false /\ not_gt O u (c_p3 k) = false /\
        y = flr (sub O (c_xr k) (div O (f1 O Ln v) (c_lr k))) /\ ltb O (c_nf k) y = false).

  Lemma btpe_loop_accepted fuel ifuel n p k : forall s y s',
    btpe_loop O src fuel ifuel n p k s = Ok (y, s') ->
    exists s0,
      let us := uniform_sample O src (zero O) (c_p4 k) s0 in
      let vs := uniform_sample O src (zero O) (one O) (snd us) in
      s' = snd vs /\ btpe_region k (fst us) (fst vs) y.
  Proof.
    induction fuel as [|fuel IH]; intros s y s' H; [discriminate|]. cbn [btpe_loop] in H.
    destruct (uniform_sample O src (zero O) (c_p4 k) s) as [u s1] eqn:Eu.
    destruct (uniform_sample O src (zero O) (one O) s1) as [v s2] eqn:Ev.
    destruct (not_gt O u (c_p1 k)) eqn:E1.
    { inversion H; subst y s'. exists s. rewrite Eu. cbn [fst snd]. rewrite Ev. cbn [fst snd]. split; [reflexivity|].
      left. split; [exact E1|reflexivity]. }
    match type of H with match ?st with _ => _ end = _ => destruct st as [ya| |] eqn:Est end; try discriminate.
    2:{ eapply IH; exact H. }
    inversion H; subst ya s'. clear H. exists s. rewrite Eu. cbn [fst snd]. rewrite Ev. cbn [fst snd]. split; [reflexivity|].
    right. destruct (not_gt O u (c_p2 k)) eqn:E2.
    - match type of Est with (if ?c then _ else _) = _ => destruct c eqn:Eg end; [discriminate|].
      apply btpe_step5_accept in Est. subst y. left. repeat split; try assumption.
    - right. destruct (not_gt O u (c_p3 k)) eqn:E3.
      + match type of Est with (if ?c then _ else _) = _ => destruct c eqn:Eg end; [discriminate|].
        apply btpe_step5_accept in Est. subst y. left. repeat split; try assumption.
      + match type of Est with (if ?c then _ else _) = _ => destruct c eqn:Eg end; [discriminate|].
        apply btpe_step5_accept in Est. subst y. right. repeat split; try assumption.
  Qed.

  (** the BTPE loop itself never panics *)
  Lemma btpe_loop_not_fail fuel ifuel n p k : forall s, btpe_loop O src fuel ifuel n p k s <> Fail.
  Proof.
    induction fuel as [|fuel IH]; intros s; [discriminate|]. cbn [btpe_loop].
    destruct (uniform_sample O src (zero O) (c_p4 k) s) as [u s1]. destruct (uniform_sample O src (zero O) (one O) s1) as [v s2].
    destruct (not_gt O u (c_p1 k)); [discriminate|].
    match goal with |- match ?st with _ => _ end <> _ => destruct st end; [discriminate|apply IH|discriminate].
  Qed.
  Lemma binv_loop_not_fail fuel : forall r0 a sq bound r u x s, binv_loop O src fuel r0 a sq bound r u x s <> Fail.
  Proof.
    induction fuel as [|fuel IH]; intros r0 a sq bound r u x s; cbn [binv_loop].
    - destruct (ltb O r u); discriminate.
    - destruct (ltb O r u); [|discriminate]. destruct (leb O bound _); [destruct (next_f64 src s)|]; apply IH.
  Qed.
End Paths.

(** ** acceptance half: [Binomial::sample] never panics, whatever n and p (the only panic site, [Uniform::new(0., p4)]
    inside BTPE, is reached only with p4 >= 0) *)
Section NoPanic.
  Context {S : Type} (src : source S R).
  Lemma binomial_btpe_not_fail fuel (n : N) p s :
    0 < p < 1 -> 30 < IZR (Z.of_N n) * Rmin p (1 - p) -> binomial_btpe RO src fuel n p s <> Fail.
  Proof.
    intros Hp Hr. pose proof (btpe_setup_ok n p Hp Hr) as Hk. unfold binomial_btpe.
    remember (btpe_setup RO n p) as k eqn:Ek. destruct Hk. cbn [ltb RO zero].
    destruct (Rltb (c_p4 k) 0) eqn:E4; [apply Rltb_true in E4; lra|].
    pose proof (btpe_loop_not_fail RO src fuel fuel n p k s) as Hl.
    destruct (btpe_loop RO src fuel fuel n p k s) as [[y s1]| |]; cbn [res_bind]; [discriminate|contradiction|discriminate].
  Qed.
  Lemma binomial_sample_not_fail fuel n p s : binomial_sample RO src fuel n p s <> Fail.
  Proof.
    unfold binomial_sample. destruct (_ || _); [discriminate|]. destruct (leb RO _ (epsilon RO)); [discriminate|].
    cbv zeta. cbn [ltb mul ofZ ofQ RO leb sub one]. unfold Rltb, Rleb.
    replace (Q2R (1 # 2)) with (1 / 2) by (unfold Q2R; cbn; lra).
    assert (Hnn : 0 <= IZR (Z.of_N n)) by (apply IZR_le; lia).
    assert (Hi : forall q, binomial_inversion RO src fuel n q s <> Fail).
    { intros q. unfold binomial_inversion. destruct (next_f64 src s). apply binv_loop_not_fail. }
    destruct (Rlt_dec (1 / 2) p) as [Hs|Hs].
    - destruct (Rle_dec ((1 - p) * IZR (Z.of_N n)) 30) as [Hc|Hc].
      + specialize (Hi (1 - p)). destruct (binomial_inversion RO src fuel n (1 - p) s) as [[x s1]| |]; cbn [res_bind]; [discriminate|contradiction|discriminate].
      + assert (Hb : binomial_btpe RO src fuel n (1 - p) s <> Fail).
        { apply binomial_btpe_not_fail; [nra|]. unfold Rmin. destruct (Rle_dec (1 - p) (1 - (1 - p))); lra. }
        destruct (binomial_btpe RO src fuel n (1 - p) s) as [[x s1]| |]; cbn [res_bind]; [discriminate|contradiction|discriminate].
    - destruct (Rle_dec (p * IZR (Z.of_N n)) 30) as [Hc|Hc].
      + specialize (Hi p). destruct (binomial_inversion RO src fuel n p s) as [[x s1]| |]; cbn [res_bind]; [discriminate|contradiction|discriminate].
      + assert (Hb : binomial_btpe RO src fuel n p s <> Fail).
        { apply binomial_btpe_not_fail; [nra|]. unfold Rmin. destruct (Rle_dec p (1 - p)); lra. }
        destruct (binomial_btpe RO src fuel n p s) as [[x s1]| |]; cbn [res_bind]; [discriminate|contradiction|discriminate].
  Qed.
End NoPanic.
