(** Proofs for C11, part 8: the properties that characterise the determinant, for the cofactor
    definition [Spec.Determinant.det_n]: extensionality, linearity in every row, sign change under
    every row transposition (hence 0 on a repeated row), invariance under adding multiples of other
    rows, value on triangular matrices, effect of a row permutation. *)
From Coq Require Import List Arith Bool Lia ZArith Reals Lra Permutation.
From Compute Require Import Base.Ops Base.ListMat Model.MatMul Model.Subst Model.LU Spec.Factor Spec.Determinant
  Proofs.LinAlgBase Proofs.C11_Det Proofs.C11_Sign.
Import ListNotations.
Local Open Scope R_scope.

Ltac natcases :=
  unfold skip, transp;
  repeat match goal with
  | |- context [(?a <? ?b)%nat] => destruct (Nat.ltb_spec a b)
  | |- context [(?a =? ?b)%nat] => destruct (Nat.eqb_spec a b)
  end; try lia; try reflexivity; try (f_equal; lia).

(** ** Sums and products *)
Lemma rsum_split1 f i n :
  (i < n)%nat -> rsum f n = f i + rsum (fun k => if (k =? i)%nat then 0 else f k) n.
Proof.
  induction n as [|n IH]; intros Hi; [lia|]. cbn [rsum].
  destruct (Nat.eq_dec i n) as [->|Hne].
  - rewrite Nat.eqb_refl.
    rewrite (rsum_ext (fun k => if (k =? n)%nat then 0 else f k) f n)
      by (intros k Hk; destruct (Nat.eqb_spec k n); [lia|reflexivity]).
    lra.
  - rewrite IH by lia. destruct (Nat.eqb_spec n i); [lia|]. lra.
Qed.

Lemma rsum_transp f i j n :
  (i < n)%nat -> (j < n)%nat -> rsum (fun k => f (transp i j k)) n = rsum f n.
Proof.
  intros Hi Hj. destruct (Nat.eq_dec i j) as [->|Hij].
  { apply rsum_ext. intros k _. rewrite transp_same. reflexivity. }
  rewrite (rsum_split1 (fun k => f (transp i j k)) i n Hi), (rsum_split1 f i n Hi).
  rewrite (rsum_split1 (fun k => if (k =? i)%nat then 0 else f (transp i j k)) j n Hj).
  rewrite (rsum_split1 (fun k => if (k =? i)%nat then 0 else f k) j n Hj).
  rewrite transp_l, transp_r. destruct (Nat.eqb_spec j i); [lia|].
  rewrite (rsum_ext (fun k => if (k =? j)%nat then 0 else if (k =? i)%nat then 0 else f (transp i j k))
                    (fun k => if (k =? j)%nat then 0 else if (k =? i)%nat then 0 else f k) n).
  - lra.
  - intros k _. destruct (Nat.eqb_spec k j); auto. destruct (Nat.eqb_spec k i); auto.
    rewrite transp_fix by auto. reflexivity.
Qed.

Lemma rprod_ext f g n : (forall k, (k < n)%nat -> f k = g k) -> rprod f n = rprod g n.
Proof.
  induction n as [|n IH]; intros H; simpl; auto.
  rewrite IH by (intros; apply H; lia). rewrite H by lia. reflexivity.
Qed.

Lemma rprod_shift f n : rprod f (S n) = f 0%nat * rprod (fun k => f (S k)) n.
Proof. induction n as [|n IH]; [simpl; lra|]. cbn [rprod] in *. rewrite IH. ring. Qed.

Lemma rprod_zero_iff f n : rprod f n = 0 <-> exists k, (k < n)%nat /\ f k = 0.
Proof.
  induction n as [|n IH]; cbn [rprod].
  - split; [lra|]. intros [k [Hk _]]. lia.
  - split.
    + intros H. apply Rmult_integral in H. destruct H as [H|H].
      * apply IH in H. destruct H as [k [Hk Hz]]. exists k. split; [lia|auto].
      * exists n. split; [lia|auto].
    + intros [k [Hk Hz]]. destruct (Nat.eq_dec k n) as [->|Hne]; [rewrite Hz; ring|].
      assert (H : rprod f n = 0) by (apply IH; exists k; split; [lia|auto]). rewrite H. ring.
Qed.

(** ** Extensionality: only the entries with indices below the order are read *)
Lemma det_ext n : forall a b,
  (forall r c, (r < n)%nat -> (c < n)%nat -> a r c = b r c) -> det_n n a = det_n n b.
Proof.
  induction n as [|m IH]; intros a b H; [reflexivity|]. cbn [det_n].
  apply rsum_ext. intros i Hi. rewrite (H i 0%nat) by lia. f_equal.
  apply IH. intros r c Hr Hc. apply H; [unfold skip; destruct (Nat.ltb_spec r i); lia|lia].
Qed.

(** ** Linearity in row [i] *)
Lemma det_row_lin n : forall (a : nat -> nat -> R) (i : nat) (u v : nat -> R) (x y : R),
  (i < n)%nat ->
  det_n n (fun r c => if (r =? i)%nat then x * u c + y * v c else a r c) =
  x * det_n n (fun r c => if (r =? i)%nat then u c else a r c) +
  y * det_n n (fun r c => if (r =? i)%nat then v c else a r c).
Proof.
  induction n as [|m IH]; intros a i u v x y Hi; [lia|]. cbn [det_n].
  rewrite <- !rsum_scal_l, <- rsum_plus. apply rsum_ext. intros k Hk.
  destruct (Nat.eqb_spec k i) as [->|Hki].
  - (* the expanded row: the three minors coincide *)
    assert (E : forall w : nat -> R,
              det_n m (fun r c => if (skip i r =? i)%nat then w c else a (skip i r) (S c)) =
              det_n m (fun r c => a (skip i r) (S c))).
    { intros w. apply det_ext. intros r c _ _. natcases. }
    rewrite (E (fun c => x * u (S c) + y * v (S c))), (E (fun c => u (S c))), (E (fun c => v (S c))).
    ring.
  - (* another row: the minor contains the combined row, at position i' *)
    set (i' := if (i <? k)%nat then i else (i - 1)%nat).
    assert (Hi' : (i' < m)%nat) by (unfold i'; destruct (Nat.ltb_spec i k); lia).
    assert (E : forall w : nat -> R,
              det_n m (fun r c => if (skip k r =? i)%nat then w c else a (skip k r) (S c)) =
              det_n m (fun r c => if (r =? i')%nat then w c else a (skip k r) (S c))).
    { intros w. apply det_ext. intros r c _ _. unfold i'. natcases. }
    rewrite (E (fun c => x * u (S c) + y * v (S c))), (E (fun c => u (S c))), (E (fun c => v (S c))).
    rewrite (IH (fun r c => a (skip k r) (S c)) i' (fun c => u (S c)) (fun c => v (S c)) x y Hi').
    ring.
Qed.

(** ** Exchanging two adjacent rows changes the sign *)
Lemma det_swap_adj : forall m (a : nat -> nat -> R) i,
  (S i < m)%nat -> det_n m (fun r c => a (transp i (S i) r) c) = - det_n m a.
Proof.
  induction m as [|m IH]; intros a i Hi; [lia|]. cbn [det_n].
  set (G := fun k => (-1) ^ k * a k 0%nat * det_n m (fun r c => a (skip k r) (S c))).
  transitivity (rsum (fun k => (-1) * G (transp i (S i) k)) (S m)).
  2:{ rewrite rsum_scal_l, rsum_transp by lia. lra. }
  apply rsum_ext. intros k Hk. unfold G.
  destruct (Nat.eq_dec k i) as [->|Hki]; [|destruct (Nat.eq_dec k (S i)) as [->|Hksi]].
  - (* term i of the swapped matrix = - term i+1 of the original *)
    rewrite transp_l.
    rewrite (det_ext m (fun r c => a (transp i (S i) (skip i r)) (S c)) (fun r c => a (skip (S i) r) (S c)))
      by (intros r c _ _; natcases).
    cbn [pow]. ring.
  - rewrite transp_r.
    rewrite (det_ext m (fun r c => a (transp i (S i) (skip (S i) r)) (S c)) (fun r c => a (skip i r) (S c)))
      by (intros r c _ _; natcases).
    cbn [pow]. ring.
  - rewrite (transp_fix i (S i) k) by auto.
    assert (E : det_n m (fun r c => a (transp i (S i) (skip k r)) (S c)) =
                - det_n m (fun r c => a (skip k r) (S c))).
    { destruct (Nat.lt_ge_cases k i) as [Hlt|Hge].
      - destruct i as [|i']; [lia|].
        rewrite <- (IH (fun r c => a (skip k r) (S c)) i') by lia.
        apply det_ext. intros r c _ _. natcases.
      - rewrite <- (IH (fun r c => a (skip k r) (S c)) i) by lia.
        apply det_ext. intros r c _ _. natcases. }
    rewrite E. ring.
Qed.

(** ** ... and so does exchanging any two rows *)
Lemma det_swap_dist n : forall d (a : nat -> nat -> R) i,
  (i + S d < n)%nat -> det_n n (fun r c => a (transp i (i + S d) r) c) = - det_n n a.
Proof.
  induction d as [|d IH]; intros a i Hn.
  - replace (i + 1)%nat with (S i) by lia. apply det_swap_adj. lia.
  - replace (i + S (S d))%nat with (S (i + S d)) by lia.
    set (j := (i + S d)%nat).
    pose (h := fun r c => a (transp j (S j) r) c). pose (g := fun r c => h (transp i j r) c).
    rewrite (det_ext n _ (fun r c => g (transp j (S j) r) c)).
    2:{ intros r c _ _. unfold g, h. rewrite <- transp_conj by (unfold j; lia). reflexivity. }
    rewrite (det_swap_adj n g j) by (unfold j; lia).
    assert (E : det_n n g = - det_n n h) by (unfold g, j; apply (IH h i); lia).
    rewrite E. unfold h. rewrite (det_swap_adj n a j) by (unfold j; lia). ring.
Qed.

Lemma det_swap_rows n (a : nat -> nat -> R) i j :
  (i < n)%nat -> (j < n)%nat -> i <> j -> det_n n (fun r c => a (transp i j r) c) = - det_n n a.
Proof.
  intros Hi Hj Hij. destruct (Nat.lt_ge_cases i j) as [Hlt|Hge].
  - pose proof (det_swap_dist n (j - i - 1) a i ltac:(lia)) as H.
    replace (i + S (j - i - 1))%nat with j in H by lia. exact H.
  - rewrite (det_ext n _ (fun r c => a (transp j i r) c)) by (intros; rewrite transp_sym; reflexivity).
    pose proof (det_swap_dist n (i - j - 1) a j ltac:(lia)) as H.
    replace (j + S (i - j - 1))%nat with i in H by lia. exact H.
Qed.

(** a matrix with two equal rows has determinant 0 *)
Lemma det_eq_rows n (a : nat -> nat -> R) i j :
  (i < n)%nat -> (j < n)%nat -> i <> j -> (forall c, (c < n)%nat -> a i c = a j c) -> det_n n a = 0.
Proof.
  intros Hi Hj Hij He.
  assert (H : det_n n a = - det_n n a).
  { rewrite <- (det_swap_rows n a i j Hi Hj Hij). apply det_ext. intros r c Hr Hc.
    unfold transp. destruct (Nat.eqb_spec r i) as [->|]; [auto|].
    destruct (Nat.eqb_spec r j) as [->|]; [symmetry; auto|reflexivity]. }
  lra.
Qed.

(** ** Adding a linear combination of earlier rows to row [i] does not change the determinant *)
Lemma det_row_comb n (a : nat -> nat -> R) i (coef : nat -> R) (w : nat -> R) : forall t,
  (i < n)%nat -> (t <= i)%nat ->
  det_n n (fun r c => if (r =? i)%nat then w c + rsum (fun k => coef k * a k c) t else a r c) =
  det_n n (fun r c => if (r =? i)%nat then w c else a r c).
Proof.
  induction t as [|t IH]; intros Hi Ht.
  - apply det_ext. intros r c _ _. cbn [rsum]. destruct (r =? i)%nat; lra.
  - rewrite (det_ext n _ (fun r c => if (r =? i)%nat
                                     then 1 * (w c + rsum (fun k => coef k * a k c) t) + coef t * a t c
                                     else a r c))
      by (intros r c _ _; cbn [rsum]; destruct (r =? i)%nat; lra).
    rewrite (det_row_lin n a i (fun c => w c + rsum (fun k => coef k * a k c) t) (fun c => a t c) 1 (coef t) Hi).
    rewrite IH by lia.
    assert (E0 : det_n n (fun r c => if (r =? i)%nat then a t c else a r c) = 0).
    { apply (det_eq_rows n _ i t); try lia.
      intros c _. rewrite Nat.eqb_refl. destruct (Nat.eqb_spec t i); [lia|reflexivity]. }
    rewrite E0. ring.
Qed.

(** ** Multiplying on the left by a unit lower triangular matrix does not change the determinant *)
Lemma det_unit_lower_mul n (l u : nat -> nat -> R) :
  (forall i, (i < n)%nat -> l i i = 1) ->
  (forall i k, (i < n)%nat -> (k < n)%nat -> (i < k)%nat -> l i k = 0) ->
  det_n n (fun i c => rsum (fun k => l i k * u k c) n) = det_n n u.
Proof.
  intros Hd Hz.
  set (R_ := fun i c => rsum (fun k => l i k * u k c) n).
  set (H := fun t r c => if (r <? t)%nat then u r c else R_ r c).
  assert (Hall : forall t, (t <= n)%nat -> det_n n (H t) = det_n n R_).
  { induction t as [|t IH]; intros Ht.
    - apply det_ext. intros r c _ _. unfold H. reflexivity.
    - rewrite <- IH by lia.
      rewrite (det_ext n (H t) (fun r c => if (r =? t)%nat
                                          then u t c + rsum (fun k => l t k * H (S t) k c) t else H (S t) r c)).
      2:{ intros r c Hr Hc. unfold H. destruct (Nat.eqb_spec r t) as [->|Hrt].
          - rewrite Nat.ltb_irrefl. unfold R_.
            rewrite (rsum_upto _ t n) by (auto; intros k Hk; rewrite Hz by lia; lra).
            rewrite Hd by lia. rewrite Rplus_comm, Rmult_1_l. f_equal.
            apply rsum_ext. intros k Hk. destruct (Nat.ltb_spec k (S t)); [reflexivity|lia].
          - destruct (Nat.ltb_spec r t), (Nat.ltb_spec r (S t)); try lia; reflexivity. }
      rewrite (det_row_comb n (H (S t)) t (fun k => l t k) (fun c => u t c) t) by lia.
      apply det_ext. intros r c _ _. unfold H. destruct (Nat.eqb_spec r t) as [->|Hrt].
      + destruct (Nat.ltb_spec t (S t)); [reflexivity|lia].
      + reflexivity. }
  rewrite <- (Hall n (le_n n)). apply det_ext. intros r c Hr _. unfold H.
  destruct (Nat.ltb_spec r n); [reflexivity|lia].
Qed.

(** ** Upper triangular matrices: the product of the diagonal *)
Lemma det_upper n : forall u : nat -> nat -> R,
  (forall i j, (i < n)%nat -> (j < n)%nat -> (j < i)%nat -> u i j = 0) ->
  det_n n u = rprod (fun i => u i i) n.
Proof.
  induction n as [|m IH]; intros u Hu; [reflexivity|]. cbn [det_n].
  rewrite (rsum_single _ 0%nat (S m)) by (try lia; intros k Hk Hk0; rewrite (Hu k 0%nat) by lia; ring).
  rewrite rprod_shift. cbn [pow]. rewrite Rmult_1_l. f_equal.
  rewrite (IH (fun r c => u (skip 0 r) (S c))).
  - apply rprod_ext. intros k _. reflexivity.
  - intros i j Hi Hj Hji. unfold skip. cbn [Nat.ltb Nat.leb]. apply Hu; lia.
Qed.

Lemma det_identity n : det_n n (fun i j => if (i =? j)%nat then 1 else 0) = 1.
Proof.
  rewrite det_upper by (intros i j _ _ Hji; destruct (Nat.eqb_spec i j); [lia|reflexivity]).
  induction n as [|n IH]; cbn [rprod]; [reflexivity|]. rewrite IH, Nat.eqb_refl. ring.
Qed.

(** ** Permuting the rows multiplies the determinant by the sign of the permutation *)

(** every permutation vector is reached from the identity by transpositions *)
Lemma perm_swap_ind n (Q : list nat -> Prop) :
  Q (seq 0 n) ->
  (forall p i j, is_perm p n -> (i < n)%nat -> (j < n)%nat -> i <> j -> Q p -> Q (swap 0%nat p i j)) ->
  forall p, is_perm p n -> Q p.
Proof.
  intros Hid Hsw.
  assert (H : forall k, (k <= n)%nat -> forall p, is_perm p n ->
              (forall i, (k <= i < n)%nat -> nth i p 0%nat = i) -> Q p).
  { induction k as [|k IH]; intros Hk p Hp Hfix.
    - assert (p = seq 0 n); [|subst; auto].
      apply (nth_ext _ _ 0%nat 0%nat); [rewrite seq_length; apply (is_perm_length _ _ Hp)|].
      intros i Hi. rewrite (is_perm_length _ _ Hp) in Hi. rewrite seq_nth by auto. apply Hfix. lia.
    - destruct (Nat.eq_dec (nth k p 0%nat) k) as [Hkk|Hkk].
      + apply IH; auto; [lia|]. intros i Hi. destruct (Nat.eq_dec i k) as [->|]; auto. apply Hfix. lia.
      + destruct (is_perm_surj p n k Hp ltac:(lia)) as [j [Hj Hpj]].
        assert (Hjk : (j < k)%nat).
        { destruct (Nat.lt_ge_cases j k); auto. destruct (Nat.eq_dec j k) as [->|]; [contradiction|].
          rewrite Hfix in Hpj by lia. lia. }
        pose proof (is_perm_length _ _ Hp) as Hl.
        set (p' := swap 0%nat p j k).
        assert (Hp' : is_perm p' n) by (apply is_perm_swap; auto; lia).
        assert (Hn' : forall i, nth i p' 0%nat = nth (transp j k i) p 0%nat) by (intros; apply nth_swap; lia).
        assert (Hback : p = swap 0%nat p' j k).
        { apply (nth_ext _ _ 0%nat 0%nat); [unfold p'; rewrite !swap_length; reflexivity|].
          intros i Hi. rewrite nth_swap by (unfold p'; rewrite swap_length; lia).
          rewrite Hn', transp_invol. reflexivity. }
        rewrite Hback. apply Hsw; auto; try lia.
        apply IH; auto; [lia|]. intros i Hi. rewrite Hn'.
        destruct (Nat.eq_dec i k) as [->|Hik]; [rewrite transp_r; auto|].
        rewrite transp_fix by lia. apply Hfix. lia. }
  intros p Hp. apply (H n (le_n n) p Hp). intros i Hi. lia.
Qed.

Lemma det_perm_rows n (a : nat -> nat -> R) p :
  is_perm p n -> det_n n (fun r c => a (nth r p 0%nat) c) = IZR (sign_inv p) * det_n n a.
Proof.
  revert p. apply perm_swap_ind.
  - destruct sign_inv_is_sign as [Hid _]. rewrite Hid, Rmult_1_l.
    apply det_ext. intros r c Hr _. rewrite seq_nth by auto. reflexivity.
  - intros p i j Hp Hi Hj Hij IH. pose proof (is_perm_length _ _ Hp) as Hl.
    destruct sign_inv_is_sign as [_ Hsw]. rewrite (Hsw p i j 0%nat) by lia.
    rewrite opp_IZR, <- Ropp_mult_distr_l, <- IH.
    rewrite <- (det_swap_rows n (fun r c => a (nth r p 0%nat) c) i j Hi Hj Hij).
    apply det_ext. intros r c _ _. rewrite nth_swap by lia. reflexivity.
Qed.

(** the sign of a permutation is a unit *)
Lemma sign_inv_sq p n : is_perm p n -> (sign_inv p * sign_inv p = 1)%Z.
Proof.
  intros Hp. pose proof (ipiv_parity_inversions p n Hp) as H. unfold ipiv_parity in H.
  destruct (parity_loop p) as [[q par]|]; cbn [bind] in H; [|discriminate].
  inversion H as [E]. destruct (Nat.even par); reflexivity.
Qed.

(** ** Integer matrices: the real determinant is the integer one *)
Lemma zsum_IZR f n : IZR (zsum f n) = rsum (fun k => IZR (f k)) n.
Proof. induction n as [|n IH]; [reflexivity|]. cbn [zsum rsum]. rewrite plus_IZR, IH. reflexivity. Qed.

Lemma det_n_IZR n : forall a : nat -> nat -> Z,
  det_n n (fun i j => IZR (a i j)) = IZR (zdet_n n a).
Proof.
  induction n as [|m IH]; intros a; [reflexivity|]. cbn [det_n zdet_n].
  rewrite zsum_IZR. apply rsum_ext. intros i _.
  rewrite !mult_IZR, <- pow_IZR, <- IH. reflexivity.
Qed.
